#!/venv/bin/python
"""Regenerate MANIFEST.json from the property modules' metadata (run from /verif)."""
import os, sys, json, importlib
ROOT = os.path.dirname(os.path.dirname(os.path.abspath(__file__)))
sys.path.insert(0, ROOT)
sys.path.insert(0, "/repo/src")
ALL = ["C%02d" % i for i in range(1, 21)]
checks, na = [], []
for pid in ALL:
    path = os.path.join(ROOT, "harness", "props", pid.lower() + ".py")
    if not os.path.exists(path):
        na.append({"property_id": pid, "reason": "check not built yet: no theorem tied to the source for this property exists in /verif at this commit (see DESIGN.md section 6 for the plan)"})
        continue
    m = importlib.import_module("harness.props." + pid.lower())
    if getattr(m, "NOT_APPLICABLE", None):
        na.append({"property_id": pid, "reason": m.NOT_APPLICABLE})
        continue
    checks.append({
        "property_id": pid,
        "quick_cmd": "./check %s --tier quick" % pid,
        "thorough_cmd": "./check %s --tier thorough" % pid,
        "evidence_file": "evidence/%s.json" % pid,
        "replay_cmd_template": "./check %s --replay {path}" % pid,
        "engine": "lean4-proof+correspondence",
        "level_claimed": {"category": "proof", "text": m.LEVEL_TEXT, "design_ref": "DESIGN.md section 6 " + pid},
        "level_note": m.LEVEL_NOTE,
        "technique": m.TECHNIQUE,
    })
man = {
    "version": 1,
    "setup_cmd": "./setup.sh",
    "hooks": {"guard": "BEZIERS_VERIF", "enable": "none needed: tracing and recording are done by monkey-patching from the harness process (PYTHONPATH=/repo/src); the guard variable is unused by the source",
              "baseline_off_cmd": "cd /repo && /venv/bin/python -m pytest -ra -q -p no:cacheprovider --timeout=900 --continue-on-collection-errors",
              "source_commits": [], "add_only": True},
    "engines": [{"name": "lean4-proof+correspondence", "path": "lean/ harness/", "serves_properties": [c["property_id"] for c in checks],
                 "kind_free_text": "Lean 4 theorems about definitions regenerated from the Python source by symbolic tracing, plus hand-written executable Lean models tied to the code by a line-protocol correspondence run; exact-rational property oracles search the implementation for failing inputs"}],
    "checks": checks,
    "not_applicable": na,
    "notes": "Every check: regenerate Gen/*.lean from /repo, lake build the property's theorems, audit axioms, run the correspondence, run the exact property oracle on the implementation. See DESIGN.md.",
}
json.dump(man, open(os.path.join(ROOT, "MANIFEST.json"), "w"), indent=1)
print("checks:", [c["property_id"] for c in checks], "n/a:", len(na))
