#!/usr/bin/env python3
"""Confirm a seeded change produced in a scratch worktree, store it under /verif/seeded/<name>/ and run the
registered check(s) against it:  tools/seed.py <worktree> <name> [<prop-id> ...] [--thorough]

1. the worktree's diff is taken as the patch; the pinned test suite must still give 32 passes there;
2. demo.py must exit 1 with the change and 0 without it (git stash in the worktree);
3. the patch is applied to /repo, `./check <id>` is run for every given property id, and the patch is undone
   (`git -C /repo checkout -- .`) whatever happens;
4. /verif/seeded/<name>/{patch.diff, demo.py, meta.json} record the outcome.
"""
import json
import os
import re
import shutil
import subprocess
import sys

REPO = "/repo"
VERIF = os.path.dirname(os.path.dirname(os.path.abspath(__file__)))
PY = "/venv/bin/python"


def sh(cmd, cwd=None, env=None, timeout=3600):
    e = dict(os.environ)
    if env:
        e.update(env)
    p = subprocess.run(cmd, shell=True, cwd=cwd, env=e, capture_output=True, text=True, timeout=timeout)
    return p.returncode, p.stdout + p.stderr


def main():
    args = [a for a in sys.argv[1:] if not a.startswith("--")]
    thorough = "--thorough" in sys.argv
    wt, name, props = args[0], args[1], args[2:]
    out = os.path.join(VERIF, "seeded", name)
    rc, diff = sh("git diff -- src", cwd=wt)
    if not diff.strip():
        sys.exit("no source change in %s" % wt)
    env = {"PYTHONPATH": os.path.join(wt, "src")}
    rc, t = sh("%s -m pytest -q -p no:cacheprovider 2>&1 | tail -1" % PY, cwd=wt, env=env)
    tests = t.strip().splitlines()[-1] if t.strip() else ""
    rc1, d1 = sh("%s demo.py" % PY, cwd=wt, env=env)
    # worktree-local undo / redo (git stash is shared by all worktrees of a repository)
    tmpdiff = os.path.join(wt, ".seed.diff")
    with open(tmpdiff, "w") as fh:
        fh.write(diff)
    sh("git apply -R .seed.diff", cwd=wt)
    try:
        rc0, d0 = sh("%s demo.py" % PY, cwd=wt, env=env)
    finally:
        sh("git apply .seed.diff", cwd=wt)
        os.remove(tmpdiff)
    confirmed = rc1 == 1 and rc0 == 0 and "32 passed" in tests
    print("tests:", tests, "| demo with change rc=%d, without rc=%d -> %s" % (rc1, rc0, "CONFIRMED" if confirmed else "NOT CONFIRMED"))
    os.makedirs(out, exist_ok=True)
    with open(os.path.join(out, "patch.diff"), "w") as fh:
        fh.write(diff)
    shutil.copy(os.path.join(wt, "demo.py"), os.path.join(out, "demo.py"))
    meta = {}
    mp = os.path.join(wt, "meta.json")
    if os.path.exists(mp):
        try:
            meta = json.load(open(mp))
        except Exception:
            meta = {"raw": open(mp).read()}
    meta.update({"name": name, "tests": tests, "demo_rc_with_change": rc1, "demo_rc_without_change": rc0, "confirmed": confirmed,
                 "demo_output_with_change": d1[-1500:], "checks": {}})
    if confirmed and props:
        rc, st = sh("git status --porcelain", cwd=REPO)
        if st.strip():
            sys.exit("/repo is not clean:\n" + st)
        rc, o = sh("git apply %s" % os.path.join(out, "patch.diff"), cwd=REPO)
        if rc != 0:
            sys.exit("patch does not apply to /repo: " + o)
        saved = {}
        for pid in props:
            ev = os.path.join(VERIF, "evidence", pid + ".json")
            if os.path.exists(ev):
                saved[ev] = open(ev).read()        # evidence describes runs on /repo as it is, not on a seeded tree: put it back afterwards
        try:
            for pid in props:
                cmd = "./check %s%s" % (pid, " --tier thorough" if thorough else "")
                rc, o = sh(cmd, cwd=VERIF, timeout=7200)
                vio = [l for l in o.splitlines() if l.startswith("VIOLATION")]
                last = o.strip().splitlines()[-1] if o.strip() else ""
                meta["checks"][pid + (":thorough" if thorough else ":quick")] = {"rc": rc, "violation_lines": vio, "summary": last[:400]}
                print(pid, "rc=%d" % rc, vio[:1], last[:200])
        finally:
            for ev, txt in saved.items():
                with open(ev, "w") as fh:
                    fh.write(txt)
            sh("git checkout -- .", cwd=REPO)
            rc, st = sh("git status --porcelain", cwd=REPO)
            if st.strip():
                print("WARNING: /repo not clean after undo:\n" + st)
    json.dump(meta, open(os.path.join(out, "meta.json"), "w"), indent=1)


if __name__ == "__main__":
    main()
