#!/bin/bash
# tools/seedmatrix.sh <Cxx> [seeds...] : run every stored seeded change of a property against the check at several seeds; prints caught/missed
cd "$(dirname "$0")/.."
prop=$1; shift; seeds=${@:-0 1 2}
REPO=${BEZIERS_REPO:-/repo}
cp evidence/$prop.json /tmp/.sm_evidence_$prop.json 2>/dev/null
for d in seeded/$prop-*; do
  n=$(basename $d)
  git -C $REPO apply "$PWD/$d/patch.diff" || { echo "$n: PATCH DOES NOT APPLY"; continue; }
  res=""
  for sd in $seeds; do
    log=$(VERIF_SEED=$sd ./check $prop 2>&1)
    out=$(echo "$log" | grep -c "^VIOLATION")
    nf=$(echo "$log" | grep "^VIOLATION" | grep -c "no-failing-input-found")
    res="$res seed$sd:$out/$nf"
  done
  git -C $REPO checkout -- .
  echo "$n:$res"
done
git -C $REPO status --porcelain
[ -f /tmp/.sm_evidence_$prop.json ] && mv /tmp/.sm_evidence_$prop.json evidence/$prop.json
