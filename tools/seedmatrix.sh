#!/bin/bash
# tools/seedmatrix.sh <Cxx> [seeds...] : run every stored seeded change of a property against the check at several seeds; prints caught/missed
cd "$(dirname "$0")/.."
prop=$1; shift; seeds=${@:-0 1 2}
cp evidence/$prop.json /tmp/.sm_evidence_$prop.json 2>/dev/null
for d in seeded/$prop-*; do
  n=$(basename $d)
  git -C /repo apply "$PWD/$d/patch.diff" || { echo "$n: PATCH DOES NOT APPLY"; continue; }
  res=""
  for sd in $seeds; do
    out=$(VERIF_SEED=$sd ./check $prop 2>&1 | grep -c "^VIOLATION")
    nf=$(VERIF_SEED=$sd true)
    res="$res seed$sd:$out"
  done
  git -C /repo checkout -- .
  echo "$n:$res"
done
git -C /repo status --porcelain
[ -f /tmp/.sm_evidence_$prop.json ] && mv /tmp/.sm_evidence_$prop.json evidence/$prop.json
