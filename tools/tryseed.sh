#!/bin/bash
# tools/tryseed.sh <seeded-name> <Cxx> [extra check args] : apply the stored patch to /repo, run the check, undo, restore evidence
cd "$(dirname "$0")/.."
name=$1; prop=$2; shift 2
cp evidence/$prop.json /tmp/.tryseed_evidence_$prop.json 2>/dev/null
git -C /repo apply "$PWD/seeded/$name/patch.diff" || exit 3
./check $prop "$@" 2>&1 | grep -v "^WARNING" | grep "VIOLATION\|rc=" | cut -c1-330 | tail -4
git -C /repo checkout -- . ; git -C /repo status --porcelain
if [ -f /tmp/.tryseed_evidence_$prop.json ]; then mv /tmp/.tryseed_evidence_$prop.json evidence/$prop.json; else git checkout -q evidence/$prop.json 2>/dev/null; fi
