#!/bin/bash
# MANIFEST.setup_cmd: build the Lean side from files on disk (offline).
set -e
cd "$(dirname "$0")"
export PYTHONPATH="${BEZIERS_REPO:-/repo}/src:$PWD"
export PYTHONDONTWRITEBYTECODE=1
/venv/bin/python -m harness.regen >/dev/null
cd lean
lake build BezierVerif 2>&1 | tail -5
echo ping | lake env lean --run Main.lean
