"""Exact real-root isolation for polynomials with Fraction coefficients (Sturm chains).
An oracle for the failing-input searches; its own correctness is not a theorem (DESIGN.md 3)."""
from fractions import Fraction as F


def trim(p):
    p = list(p)
    while p and p[-1] == 0:
        p.pop()
    return p


def peval(p, x):
    r = F(0)
    for c in reversed(p):
        r = r * x + c
    return r


def deriv(p):
    return trim([i * c for i, c in enumerate(p)][1:])


def pdivmod(a, b):
    a = list(a)
    b = trim(b)
    q = [F(0)] * max(0, len(a) - len(b) + 1)
    while len(trim(a)) >= len(b) and trim(a):
        a = trim(a)
        k = len(a) - len(b)
        c = a[-1] / b[-1]
        q[k] = c
        for i, bc in enumerate(b):
            a[i + k] -= c * bc
        a = trim(a)
    return q, trim(a)


def sturm_chain(p):
    p = trim([F(c) for c in p])
    chain = [p, deriv(p)]
    while chain[-1]:
        _, r = pdivmod(chain[-2], chain[-1])
        chain.append([-c for c in r])
    chain.pop()
    return chain


def sign_changes(chain, x):
    s = [peval(q, x) for q in chain]
    s = [v for v in s if v != 0]
    return sum(1 for a, b in zip(s, s[1:]) if (a < 0) != (b < 0))


def squarefree(p):
    """True iff p has only simple roots (gcd(p, p') constant)"""
    ch = sturm_chain(p)
    return len(ch[-1]) <= 1


def real_roots(p, lo, hi, eps=F(1, 10 ** 12)):
    """Isolating intervals (a, b], width <= eps, of the distinct real roots of p in (lo, hi].
    Returns None for the zero polynomial."""
    p = trim([F(c) for c in p])
    if not p:
        return None
    if len(p) == 1:
        return []
    # Sturm's theorem wants a square-free polynomial and end points that are not roots
    g = sturm_chain(p)[-1]
    if len(g) > 1:
        p, _ = pdivmod(p, g)
        p = trim(p)
    lo, hi = F(lo), F(hi)
    d = F(1, 1024)
    while peval(p, lo) == 0:
        lo -= d
        d /= 3
    d = F(1, 1024)
    while peval(p, hi) == 0:
        hi += d
        d /= 3
    ch = sturm_chain(p)
    out = []

    def rec(a, b, na, nb):
        k = na - nb
        if k == 0:
            return
        if k == 1 and b - a <= eps:
            out.append((a, b))
            return
        if b - a <= eps / 1000:
            out.append((a, b))          # a cluster the chain cannot separate at this width (multiple root of the square-free part cannot happen; guard)
            return
        m = (a + b) / 2
        nm = sign_changes(ch, m)
        rec(a, m, na, nm)
        rec(m, b, nm, nb)
    rec(F(lo), F(hi), sign_changes(ch, F(lo)), sign_changes(ch, F(hi)))
    return sorted(out)
