"""Shared pieces of the exact-arithmetic property oracles: Bernstein evaluation in Fractions,
segment generators (Appendix B families), construction of library objects."""
import math
from fractions import Fraction as F

from beziers.point import Point
from beziers.line import Line
from beziers.quadraticbezier import QuadraticBezier
from beziers.cubicbezier import CubicBezier
from beziers.path import BezierPath

KLASS = {2: Line, 3: QuadraticBezier, 4: CubicBezier}
KNAME = {2: "Line", 3: "QuadraticBezier", 4: "CubicBezier"}


def mkseg(pts):
    """pts: list of (x, y) floats"""
    return KLASS[len(pts)](*[Point(x, y) for x, y in pts])


def seg_pts(seg):
    return [(p.x, p.y) for p in seg.points]


def bern(coeffs, t):
    """Exact Bernstein polynomial value; coeffs and t are Fractions (or exactly lifted floats)."""
    n = len(coeffs) - 1
    t = F(t)
    return sum(math.comb(n, i) * (1 - t) ** (n - i) * t ** i * F(c) for i, c in enumerate(coeffs))


def bern_pt(pts, t):
    return bern([p[0] for p in pts], t), bern([p[1] for p in pts], t)


def dcoeffs(coeffs):
    n = len(coeffs) - 1
    return [n * (F(coeffs[i + 1]) - F(coeffs[i])) for i in range(n)]


def power_basis(coeffs):
    """Bernstein -> power basis coefficients [c0, c1, ..] of sum c_k t^k (exact)."""
    n = len(coeffs) - 1
    out = []
    for k in range(n + 1):
        s = F(0)
        for i in range(k + 1):
            s += (-1) ** (k - i) * math.comb(k, i) * F(coeffs[i])
        out.append(math.comb(n, k) * s)
    return out


COORD_FAMILIES = ["int", "grid", "dyadic", "float", "big", "collinear", "coincident", "arch", "elevated", "retracted", "teardrop", "axischord", "tiny", "evenspaced", "offset", "axishandles", "scurve", "nearint"]


def rand_coord(rng, fam):
    if fam == "int":
        return float(rng.randint(-50, 50))
    if fam == "grid":
        return float(10 * rng.randint(-100, 100))
    if fam == "dyadic":
        return rng.randint(-16000, 16000) / 16.0
    if fam == "big":
        return rng.uniform(-1e6, 1e6)
    return rng.uniform(-1000, 1000)


def rand_seg_pts(rng, order, fam):
    """Control polygon of the given order (2,3,4) from a family."""
    base = fam if fam in ("int", "grid", "dyadic", "float", "big") else rng.choice(["int", "grid", "dyadic", "float"])
    pts = [(rand_coord(rng, base), rand_coord(rng, base)) for _ in range(order)]
    if fam == "collinear":
        a, b = pts[0], pts[-1]
        pts = [a] + [(a[0] + (b[0] - a[0]) * k, a[1] + (b[1] - a[1]) * k)
                     for k in [rng.choice([0.25, 0.5, 0.75, -0.5, 1.5]) for _ in range(order - 2)]] + [b]
    elif fam == "coincident":
        j = rng.randrange(order)
        k = rng.randrange(order)
        pts[j] = pts[k]
        if rng.random() < 0.3:
            pts = [pts[0]] * order
    elif fam == "tiny":
        # an ordinary control polygon scaled by an exact power of two down to 1e-5 .. 1e-9: every property that is scale-covariant must not
        # care (absolute tolerances in the code would)
        k = 2.0 ** -rng.choice([17, 20, 24, 30])
        pts = [(x * k, y * k) for x, y in pts]
    elif fam == "offset":
        # a small figure (1e-3 .. 1 units across, dyadic) far from the origin (2^20): every property that is translation-invariant must not
        # care; tolerances relative to the coordinates' magnitude instead of the figure's size would
        k = 2.0 ** -rng.choice([0, 4, 8, 12])
        o = 2.0 ** 20 * rng.choice([1.0, -1.0, 3.0])
        pts = [(o + float(rng.randint(-9, 9)) * k, o + float(rng.randint(-9, 9)) * k) for _ in range(order)]
    elif fam == "evenspaced" and order == 4:
        # three consecutive control points exactly evenly spaced in one coordinate: the derivative's linear coefficient vanishes exactly
        # (b = 0, roots +-sqrt(-c/a)), with an interior extremum in that coordinate
        c = rng.randrange(2)
        h = float(rng.randint(5, 60)) * rng.choice([-1, 1])
        x0 = float(rng.randint(-50, 50))
        if rng.random() < 0.5:
            v = [x0, x0 + h, x0 + 2 * h, x0 + 2 * h - float(rng.randint(1, 4)) * h]      # p0, p1, p2 evenly spaced, p3 turns back
        else:
            v = [x0 + 2 * h - float(rng.randint(1, 4)) * h, x0 + 2 * h, x0 + h, x0]      # p1, p2, p3 evenly spaced (b + 2a = 0): the mirror image
        pts = [((v[j], pts[j][1]) if c == 0 else (pts[j][0], v[j])) for j in range(4)]
    elif fam == "retracted" and order >= 3:
        # handles sitting on the end points (both, or one): the image is the chord but the parametrisation is not linear
        if order == 4:
            r = rng.random()
            if r < 0.6:
                pts = [pts[0], pts[0], pts[3], pts[3]]
            elif r < 0.8:
                pts = [pts[0], pts[0], pts[2], pts[3]]
            else:
                pts = [pts[0], pts[1], pts[3], pts[3]]
        else:
            pts = [pts[0], pts[0] if rng.random() < 0.5 else pts[2], pts[2]]
    elif fam == "teardrop" and order >= 3:
        # end points coincident (or within a unit of each other) while the arc is long: loops, hairpins, lobes
        x0, y0 = pts[0]
        r = rng.random()
        gap = 0.0 if r < 0.5 else (rng.choice([1e-12, 0.5, 1.0, 1.5]) if r < 0.9 else 4.0)
        far = [(x0 + rng.choice([-1, 1]) * rng.uniform(100, 600), y0 + rng.choice([-1, 1]) * rng.uniform(100, 600)) for _ in range(order - 2)]
        if order == 4 and rng.random() < 0.5:
            far = [(x0 + 300.0, y0), (x0 + 300.0, y0 + 4.0)]          # hairpin
            gap = 4.0 if gap else 0.0
            pts = [(x0, y0)] + far + [(x0, y0 + gap)]
        else:
            pts = [(x0, y0)] + far + [(x0 + gap, y0)]
    elif fam == "axishandles" and order == 4:
        # both handles exactly horizontal or vertical (outlines drawn with nodes at the extremes), one or both of them long enough to
        # overshoot: the curve still turns back in the interior
        x0, y0 = pts[0]
        x3, y3 = pts[3]
        ext = max(abs(x3 - x0), abs(y3 - y0), 1.0)
        a = rng.choice([-1, 1]) * ext * rng.choice([0.3, 0.6, 1.4, 2.5, 3.0])
        b = rng.choice([-1, 1]) * ext * rng.choice([0.3, 0.6, 1.4, 2.5, 3.0])
        p1 = (x0, y0 + a) if rng.random() < 0.5 else (x0 + a, y0)
        p2 = (x3 - b, y3) if rng.random() < 0.5 else (x3, y3 - b)
        pts = [pts[0], p1, p2, pts[3]]
    elif fam == "scurve" and order == 4:
        # point-symmetric about the middle of the chord (P1 - P0 = P3 - P2): an S whose mid-parameter point is the chord's midpoint
        x0, y0 = pts[0]
        x3, y3 = pts[3]
        dx, dy = pts[1][0] - x0, pts[1][1] - y0
        pts = [pts[0], (x0 + dx, y0 + dy), (x3 - dx, y3 - dy), pts[3]]
    elif fam == "nearint":
        # small whole-number coordinates, one of them a few 1e-10 off: values that are NOT whole numbers although they look it when printed
        pts = [(float(rng.randint(-12, 12)), float(rng.randint(-12, 12))) for _ in range(order)]
        if len(set(pts)) == 1:
            pts[0] = (pts[0][0] + 3.0, pts[0][1])
        j = rng.randrange(order)
        d = rng.choice([-1, 1]) * rng.choice([2e-10, 4e-10, 7e-10, 9e-10])
        pts[j] = (pts[j][0] + d, pts[j][1]) if rng.random() < 0.5 else (pts[j][0], pts[j][1] + d)
    elif fam == "axischord":
        # chord exactly horizontal or vertical, pointing either way
        x0, y0 = pts[0]
        d = rng.choice([-1, 1]) * (abs(rand_coord(rng, base)) + 1.0)
        pts = pts[:-1] + ([(x0 + d, y0)] if rng.random() < 0.6 else [(x0, y0 + d)])
    elif fam == "arch" and order >= 3:
        # symmetric arch: the derivative of one coordinate loses its leading term
        x0, y0 = pts[0]
        w = abs(rand_coord(rng, base)) + 1.0
        h = rand_coord(rng, base)
        if order == 4:
            pts = [(x0, y0), (x0, y0 + h), (x0 + w, y0 + h), (x0 + w, y0)]
        else:
            pts = [(x0, y0), (x0 + w / 2, y0 + h), (x0 + w, y0)]
        if rng.random() < 0.5:
            pts = [(y, x) for x, y in pts]
    elif fam == "elevated" and order >= 3:
        # degree elevation of a lower-order curve (exact in floats when coordinates are multiples of 3 / 2)
        if order == 4:
            q = [(3.0 * rng.randint(-30, 30), 3.0 * rng.randint(-30, 30)) for _ in range(3)]
            pts = [q[0], ((q[0][0] + 2 * q[1][0]) / 3, (q[0][1] + 2 * q[1][1]) / 3),
                   ((2 * q[1][0] + q[2][0]) / 3, (2 * q[1][1] + q[2][1]) / 3), q[2]]
        else:
            a = (2.0 * rng.randint(-30, 30), 2.0 * rng.randint(-30, 30))
            b = (2.0 * rng.randint(-30, 30), 2.0 * rng.randint(-30, 30))
            pts = [a, ((a[0] + b[0]) / 2, (a[1] + b[1]) / 2), b]
    return [(float(x), float(y)) for x, y in pts]


def chain_seg(rng, cur, order=None, fams=("int", "int", "float", "teardrop", "retracted", "coincident", "arch")):
    """a segment from one of the families, translated so that it starts at `cur` (keeps loops / retracted handles intact)"""
    order = order or rng.choice([2, 3, 4])
    pts = rand_seg_pts(rng, order, rng.choice(fams))
    dx, dy = cur[0] - pts[0][0], cur[1] - pts[0][1]
    return [(float(x + dx), float(y + dy)) for x, y in pts]


def rand_t(rng, fam="mixed"):
    r = rng.random()
    if r < 0.06:
        return 0.0
    if r < 0.12:
        return 1.0
    if r < 0.45:
        return rng.randint(0, 64) / 64.0
    if r < 0.55:
        return rng.choice([1e-9, 1 - 1e-9, 0.01, 0.99, 1e-3, 0.5])
    return rng.random()


def maxabs(pts):
    return max([1e-300] + [abs(c) for p in pts for c in p])


def nontrivial_polygon(pts):
    return len(set(pts)) > 1


def path_from(segs_pts, closed):
    p = BezierPath.fromSegments([mkseg(s) for s in segs_pts])
    p.closed = closed
    return p


# ----------------------------------------------------------------------------- wire format / exact roots

KTOK = {2: "L", 3: "Q", 4: "C"}


def seg_tokens(pts):
    from ..drive import rat
    return KTOK[len(pts)] + " " + " ".join(rat(c) for p in pts for c in p)


def parse_segs(tokens):
    """inverse of the driver's showSegs: list of lists of (Fraction, Fraction)"""
    out = []
    i = 0
    n = {"L": 2, "Q": 3, "C": 4}
    while i < len(tokens):
        k = n[tokens[i]]
        vals = [F(x) for x in tokens[i + 1:i + 1 + 2 * k]]
        out.append([(vals[2 * j], vals[2 * j + 1]) for j in range(k)])
        i += 1 + 2 * k
    return out


def frac_sqrt(x, digits=40):
    n, d = x.numerator, x.denominator
    rn, rd = math.isqrt(n), math.isqrt(d)
    if rn * rn == n and rd * rd == d:
        return F(rn, rd)
    s = 10 ** digits
    return F(math.isqrt(n * d * s * s), d * s)


def poly_roots_deg2(c0, c1, c2):
    """Real roots of c0 + c1 t + c2 t^2 (Fractions) as [(value approx to 1e-40, simple?)]; exact classification."""
    c0, c1, c2 = F(c0), F(c1), F(c2)
    if c2 == 0:
        if c1 == 0:
            return []
        return [(-c0 / c1, True)]
    D = c1 * c1 - 4 * c2 * c0
    if D < 0:
        return []
    if D == 0:
        return [(-c1 / (2 * c2), False)]
    s = frac_sqrt(D)
    return sorted([((-c1 - s) / (2 * c2), True), ((-c1 + s) / (2 * c2), True)])


def deriv_roots(coords):
    """roots of the derivative of the Bernstein polynomial with these control coordinates (degree <= 3)"""
    d = power_basis(dcoeffs(coords))
    d = d + [F(0)] * (3 - len(d))
    return poly_roots_deg2(d[0], d[1], d[2]), d


def casteljau_split(pts, t):
    """exact de Casteljau: pts list of (Fraction, Fraction)"""
    t = F(t)
    cur = [(F(x), F(y)) for x, y in pts]
    left, right = [cur[0]], [cur[-1]]
    while len(cur) > 1:
        cur = [((1 - t) * a[0] + t * b[0], (1 - t) * a[1] + t * b[1]) for a, b in zip(cur, cur[1:])]
        left.append(cur[0])
        right.append(cur[-1])
    return left, right[::-1]


def extent(pts):
    xs = [p[0] for p in pts]
    ys = [p[1] for p in pts]
    return max(max(xs) - min(xs), max(ys) - min(ys))


# ----------------------------------------------------------------------------- in-place edits (stale-state checks)

def edit_in_place(seg, rng):
    """Change the control points of a live segment through one of the routes the library itself offers or uses:
    seg[i] = Point (Segment.__setitem__), seg.points[i] = Point, mutation of a Point's coordinates, seg.round().
    Returns (route, new control points read back from the object)."""
    from beziers.point import Point
    n = len(seg.points)
    ext = extent([(p.x, p.y) for p in seg.points])
    d = ext * rng.choice([0.4, 0.75, 1.5]) + 1.0
    route = rng.choice(["setitem", "points", "coords", "round"])
    if route == "setitem":
        j = rng.randrange(n)
        seg[j] = Point(seg[j].x + d, seg[j].y - d / 2)
        if n > 2:
            k = (j + 1) % n
            seg[k] = Point(seg[k].x - d / 3, seg[k].y + d)
    elif route == "points":
        j = rng.randrange(n)
        seg.points[j] = Point(seg.points[j].x - d, seg.points[j].y + d / 2)
    elif route == "coords":
        j = rng.randrange(n)
        seg[j].x = seg[j].x + d
        seg[-1].y = seg[-1].y - d
    else:
        for q in seg.points:
            q.x = q.x + 0.4 + 0.1 * rng.randrange(5)
            q.y = q.y - 0.3
        seg[n // 2].x = seg[n // 2].x + d
        seg.round()
    return route, [(q.x, q.y) for q in seg.points]


def _val(fn, seg):
    try:
        v = fn(seg)
    except Exception as e:           # the same failure on both objects is not staleness
        return ("raised", type(e).__name__)
    if hasattr(v, "x") and hasattr(v, "y"):
        return (v.x, v.y)
    if isinstance(v, (list, tuple)):
        return tuple((w.x, w.y) if hasattr(w, "x") else (tuple((q.x, q.y) for q in w.points) if hasattr(w, "points") else w) for w in v)
    return v


def stale_check(pts, seed, queries):
    """answers are a function of the segment as it is NOW: put every query to a live segment (so that anything it remembers is
    remembered), change its control points in place by one of the routes in edit_in_place, put the queries again: each answer must be
    exactly the answer of a fresh segment built from the control points read back after the edit.
    queries: list of (name, fn(segment) -> value)."""
    import random
    rng = random.Random(seed)
    seg = mkseg(pts)
    for _, fn in queries:
        _val(fn, seg)
    route, new = edit_in_place(seg, rng)
    fresh = mkseg(new)
    for name, fn in queries:
        a, b = _val(fn, seg), _val(fn, fresh)
        if a != b and not (a != a and b != b):
            return "after changing the control points in place (%s) %s answers %r; a fresh segment with the same control points %r answers %r (stale state)" % (
                route, name, a, new, b)
    return None


def path_stale_check(segs, closed, seed, queries):
    """the same for whole paths: put the queries to a live path, change it in place (reverse / translate / rotate / scale / round /
    moving one node through the segment objects), put them again; each answer must be exactly that of a fresh path built from the
    segments' control points as they are now.  reverse() and the rigid motions keep the total length (bit for bit, for reverse), so a
    memo keyed on the length alone does not notice them."""
    import random
    from beziers.point import Point
    rng = random.Random(seed)
    p = path_from(segs, closed)
    for _, fn in queries:
        _val(fn, p)
    route = rng.choice(["reverse", "reverse", "translate", "rotate", "scale", "node", "round"])
    if route == "reverse":
        p.reverse()
    elif route == "translate":
        p.translate(Point(float(rng.randint(-40, 40)), float(rng.randint(-40, 40))))
    elif route == "rotate":
        p.rotate(Point(float(rng.randint(-10, 10)), float(rng.randint(-10, 10))), rng.choice([1.0, -0.5, 2.5]))
    elif route == "scale":
        p.scale(rng.choice([-1.0, 2.0, 0.5]))
    elif route == "round":
        p.translate(Point(0.4, -0.3))
        p.round()
    else:
        sg = p.asSegments()
        j = rng.randrange(len(sg))
        d = float(rng.randint(5, 60))
        old = sg[j].end
        new = Point(old.x + d, old.y - d)
        sg[j][len(sg[j].points) - 1] = new
        if j + 1 < len(sg):
            sg[j + 1][0] = Point(new.x, new.y)
    now = [seg_pts(sg) for sg in p.asSegments()]
    fresh = path_from(now, p.closed)
    for name, fn in queries:
        a, b = _val(fn, p), _val(fn, fresh)
        if a != b and not (a != a and b != b):
            return "after changing the path in place (%s) %s answers %r; a fresh path with the same segments %r answers %r (stale state)" % (
                route, name, a, now, b)
    return None


def repeat_check(pts, queries):
    """an answer does not depend on which queries were put before it: every query is first put to a fresh segment of its own; then all
    of them, in order and twice over, to ONE segment — the answers must be the same (a remembered list handed out and then modified by
    another method of the library would show here)"""
    fresh = [_val(fn, mkseg(pts)) for _, fn in queries]
    seg = mkseg(pts)
    for rnd in (1, 2):
        for (name, fn), want in zip(queries, fresh):
            got = _val(fn, seg)
            if got != want and not (got != got and want != want):
                return "%s answers %r after other queries were put to the same segment (round %d), but %r on a fresh segment" % (name, got, rnd, want)
    return None
