"""Reference crossings of two Bezier curves: subdivision with control-polygon boxes (which enclose their piece by the
convex-hull property), Newton polish, classification against C06's quantifier.  An oracle for the failing-input search."""
import math


def bez(pts, t):
    k = len(pts) - 1
    mt = 1 - t
    x = y = 0.0
    for j, (px, py) in enumerate(pts):
        w = math.comb(k, j) * mt ** (k - j) * t ** j
        x += w * px
        y += w * py
    return x, y


def dbez(pts, t):
    k = len(pts) - 1
    d = [((pts[j + 1][0] - pts[j][0]) * k, (pts[j + 1][1] - pts[j][1]) * k) for j in range(k)]
    return bez(d, t) if len(d) > 1 else d[0]


def split(pts, t=0.5):
    cur = list(pts)
    left, right = [cur[0]], [cur[-1]]
    while len(cur) > 1:
        cur = [((1 - t) * a[0] + t * b[0], (1 - t) * a[1] + t * b[1]) for a, b in zip(cur, cur[1:])]
        left.append(cur[0])
        right.append(cur[-1])
    return left, right[::-1]


def box(pts):
    xs = [p[0] for p in pts]
    ys = [p[1] for p in pts]
    return min(xs), min(ys), max(xs), max(ys)


def boxes_meet(a, b, pad=0.0):
    return not (a[0] > b[2] + pad or b[0] > a[2] + pad or a[1] > b[3] + pad or b[1] > a[3] + pad)


def candidates(P, Q, eps, cap=4000):
    out = []
    stack = [(P, 0.0, 1.0, Q, 0.0, 1.0)]
    steps = 0
    while stack:
        steps += 1
        if steps > 200000 or len(out) > cap:
            return None
        p, t0, t1, q, u0, u1 = stack.pop()
        bp, bq = box(p), box(q)
        if not boxes_meet(bp, bq):
            continue
        sp = max(bp[2] - bp[0], bp[3] - bp[1])
        sq = max(bq[2] - bq[0], bq[3] - bq[1])
        if sp < eps and sq < eps:
            out.append(((t0 + t1) / 2, (u0 + u1) / 2))
            continue
        if sp >= sq:
            l, r = split(p)
            tm = (t0 + t1) / 2
            stack.append((l, t0, tm, q, u0, u1))
            stack.append((r, tm, t1, q, u0, u1))
        else:
            l, r = split(q)
            um = (u0 + u1) / 2
            stack.append((p, t0, t1, l, u0, um))
            stack.append((p, t0, t1, r, um, u1))
    return out


def newton(P, Q, t, u, it=30):
    for _ in range(it):
        a, b = bez(P, t), bez(Q, u)
        fx, fy = a[0] - b[0], a[1] - b[1]
        da, db = dbez(P, t), dbez(Q, u)
        # solve [da, -db] [dt, du]^T = -f
        a11, a12, a21, a22 = da[0], -db[0], da[1], -db[1]
        det = a11 * a22 - a12 * a21
        if det == 0:
            return None
        dt = (-fx * a22 + fy * a12) / det
        du = (-a11 * fy + a21 * fx) / det
        t += dt
        u += du
        if abs(dt) + abs(du) < 1e-15:
            break
    return t, u


def crossings(P, Q, extent):
    """(list of (t, u, angle_degrees)) of the distinct meeting points of the two curves with both parameters in [0,1],
    or None when the oracle cannot tell (overlapping curves, too many candidates, Newton failure)"""
    cands = candidates(P, Q, 1e-5 * extent)
    if cands is None:
        return None
    roots = []
    for t, u in cands:
        r = newton(P, Q, t, u)
        if r is None:
            return None
        t2, u2 = r
        if abs(t2 - t) > 0.05 or abs(u2 - u) > 0.05:
            return None
        a, b = bez(P, t2), bez(Q, u2)
        if math.hypot(a[0] - b[0], a[1] - b[1]) > 1e-7 * extent:
            return None                      # near miss (tangential approach): not decidable here
        if not any(abs(t2 - x[0]) < 1e-7 and abs(u2 - x[1]) < 1e-7 for x in roots):
            da, db = dbez(P, t2), dbez(Q, u2)
            na, nb = math.hypot(*da), math.hypot(*db)
            if na == 0 or nb == 0:
                return None
            s = abs(da[0] * db[1] - da[1] * db[0]) / (na * nb)
            roots.append((t2, u2, math.degrees(math.asin(min(1.0, s)))))
    return sorted(roots)


def loop_params(P):
    """exact-ish double point of a cubic: (t1, t2) with t1 < t2 both real, or None when the curve has no double point.
    From B(t1) = B(t2): c1 + c2 s + c3 q = 0 with s = t1 + t2, q = s^2 - t1 t2 (two linear equations)."""
    (x0, y0), (x1, y1), (x2, y2), (x3, y3) = P
    c1 = (3 * (x1 - x0), 3 * (y1 - y0))
    c2 = (3 * (x0 - 2 * x1 + x2), 3 * (y0 - 2 * y1 + y2))
    c3 = (-x0 + 3 * x1 - 3 * x2 + x3, -y0 + 3 * y1 - 3 * y2 + y3)
    det = c2[0] * c3[1] - c2[1] * c3[0]
    if det == 0:
        return None
    s = (-c1[0] * c3[1] + c1[1] * c3[0]) / det
    q = (-c2[0] * c1[1] + c2[1] * c1[0]) / det
    p = s * s - q
    disc = s * s - 4 * p
    if disc <= 0:
        return None
    r = math.sqrt(disc)
    return (s - r) / 2, (s + r) / 2
