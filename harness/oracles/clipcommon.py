"""Shared machinery for C12 / C13: shape generators, recording of pyclipper's answers and of the
reconstruction table during BooleanOperationsMixin.clip, exact-ish region oracles."""
import math
from fractions import Fraction as F

import pyclipper
import beziers.utils.booleanoperationsmixin as bom
from beziers.point import Point
from beziers.line import Line
from beziers.quadraticbezier import QuadraticBezier
from beziers.cubicbezier import CubicBezier
from beziers.path import BezierPath
from beziers.path.geometricshapes import Rectangle, Ellipse, Circle
from . import common as oc

OPS = {"union": pyclipper.CT_UNION, "intersection": pyclipper.CT_INTERSECTION, "difference": pyclipper.CT_DIFFERENCE}


def build(spec):
    k = spec["kind"]
    o = Point(*spec.get("o", (0.0, 0.0)))
    if k == "rect":
        return Rectangle(spec["w"], spec["h"], origin=o)
    if k == "ellipse":
        return Ellipse(spec["rx"], spec["ry"], origin=o)
    if k == "circle":
        return Circle(spec["r"], origin=o)
    if k == "flat":
        # a polygon obtained by flattening a shape: its straight edges remember the curve they came from (Line._orig)
        return build(spec["of"]).flatten(spec["d"])
    return oc.path_from([[tuple(p) for p in s] for s in spec["segs"]], True)


def rand_shape(rng, simple=False, span=100, sizes=(20, 240)):
    o = (float(rng.randint(-span, span)), float(rng.randint(-span, span)))
    r = rng.random()
    lo, hi = sizes
    if r < 0.35 or (simple and r < 0.45):
        return {"kind": "rect", "w": float(rng.randint(lo, hi)), "h": float(rng.randint(lo, hi)), "o": o}
    if r < 0.65 or simple:
        if rng.random() < 0.4:
            return {"kind": "circle", "r": float(rng.randint(lo // 2, hi // 2)), "o": o}
        return {"kind": "ellipse", "rx": float(rng.randint(lo // 2, hi // 2)), "ry": float(rng.randint(lo // 2, hi // 2)), "o": o}
    n = rng.randint(3, 6)
    if rng.random() < 0.5:
        angs = sorted(rng.uniform(0, 2 * math.pi) for _ in range(n))          # simple star-shaped contour
    else:
        angs = [rng.uniform(0, 2 * math.pi) for _ in range(n)]                # possibly self-intersecting
    R = rng.uniform(lo / 2, hi / 2)
    nodes = [(round(o[0] + R * rng.uniform(0.5, 1.0) * math.cos(a)), round(o[1] + R * rng.uniform(0.5, 1.0) * math.sin(a))) for a in angs]
    nodes = [(float(x), float(y)) for x, y in nodes]
    if len(set(nodes)) < 3:
        return rand_shape(rng, simple, span, sizes)
    segs = []
    for i in range(n):
        a, b = nodes[i], nodes[(i + 1) % n]
        order = rng.choice([2, 2, 3, 4])
        inner = [(a[0] + (b[0] - a[0]) * (j + 1) / (order - 1) + rng.uniform(-R / 4, R / 4),
                  a[1] + (b[1] - a[1]) * (j + 1) / (order - 1) + rng.uniform(-R / 4, R / 4)) for j in range(order - 2)]
        segs.append([a] + [(float(round(x)), float(round(y))) for x, y in inner] + [b])
    return {"kind": "contour", "segs": segs}


def lobe_box(rng, span=100):
    """a box with a large teardrop lobe growing out of a narrow gap (0.5 .. 1.5 units) in its top edge: the lobe is one cubic whose
    end points are closer together than the clipping code's flattening step while its arc is hundreds of units long"""
    o = (float(rng.randint(-span, span)), float(rng.randint(-span, span)))
    w, h = float(rng.randint(80, 240)), float(rng.randint(40, 120))
    g = rng.choice([0.5, 1.0, 1.5])
    x = float(rng.randint(20, int(w) - 20))
    dx1, dx2, dy = float(rng.randint(150, 400)), float(rng.randint(150, 400)), float(rng.randint(150, 300))
    P = lambda a, b: (o[0] + a, o[1] + b)
    segs = [[P(0, 0), P(w, 0)], [P(w, 0), P(w, h)], [P(w, h), P(x + g, h)],
            [P(x + g, h), P(x + g + dx1, h + dy), P(x - dx2, h + dy), P(x, h)],
            [P(x, h), P(0, h)], [P(0, h), P(0, 0)]]
    return {"kind": "contour", "segs": segs}


def rand_pair(rng, i, simple=False, span=100, sizes=(20, 240), lobes=False):
    if lobes and i % 6 == 5:
        a = lobe_box(rng, span)
        b = rand_shape(rng, simple=True, span=span, sizes=(200, 700)) if rng.random() < 0.6 else {"kind": "rect", "w": 2000.0, "h": 2000.0, "o": (0.0, 0.0)}
        return (a, b) if rng.random() < 0.7 else (b, a)
    """pairs of shapes by configuration family: random placement (crossing / disjoint / touching by chance), B nested strictly
    inside A (results with holes), a crossing next to an on-curve node of A (split-window edge), A enclosing a pocket with B"""
    fam = i % 5
    if i % 12 == 7:
        # a plus sign: a wide flat shape and a tall narrow one through its middle — the bounding boxes cross, neither contains a corner of
        # the other, each outline crosses the other four times
        o = (float(rng.randint(-span, span)), float(rng.randint(-span, span)))
        w1, h1 = float(rng.randint(150, 300)), float(rng.randint(30, 80))
        w2, h2 = float(rng.randint(30, 80)), float(rng.randint(150, 300))
        o2 = (o[0] + float(rng.randint(-30, 30)), o[1] + float(rng.randint(-25, 25)))
        mk = lambda w, h, c: {"kind": "rect", "w": w, "h": h, "o": c} if rng.random() < 0.6 else {"kind": "ellipse", "rx": w / 2, "ry": h / 2, "o": c}
        a, b = mk(w1, h1, o), mk(w2, h2, o2)
        return (a, b) if rng.random() < 0.5 else (b, a)
    if fam == 0 and i % 10 == 0:
        # disjoint shapes one of whose bounding boxes lies inside the other's: a small shape in the empty corner of a big round one's box
        R = float(rng.randint(80, 140))
        o = (float(rng.randint(-span, span)), float(rng.randint(-span, span)))
        big = {"kind": "circle", "r": R, "o": o} if rng.random() < 0.6 else {"kind": "ellipse", "rx": R, "ry": R * 0.8, "o": o}
        r = float(rng.randint(6, 12))
        k = 0.85
        sx, sy = rng.choice([-1, 1]), rng.choice([-1, 1])
        c = (o[0] + sx * k * R, o[1] + sy * k * (R if big["kind"] == "circle" else R * 0.8))
        small = {"kind": "circle", "r": r, "o": c} if rng.random() < 0.5 else {"kind": "rect", "w": 2 * r, "h": r, "o": c}
        return (big, small) if rng.random() < 0.5 else (small, big)
    if fam == 0 and i % 10 == 5:
        # an outline one of whose sides is an S-shaped cubic, point-symmetric about the middle of its chord (the curve's mid-parameter
        # point IS the chord's midpoint), and a small shape in the pocket between the chord and the lobe that dips into the outline's
        # side: outside the outline, disjoint from it, yet inside the polygon one gets by replacing the S by its chord
        W, h = float(rng.randint(100, 300)), float(rng.randint(60, 160))
        a = rng.uniform(0.25, 0.4) * W
        D = float(rng.randint(80, 160))
        x0, y0 = float(rng.randint(-span, span)), float(rng.randint(-span, span))
        up = rng.choice([1.0, -1.0])            # which lobe comes first
        S = [(x0, y0), (x0 + a, y0 + up * h), (x0 + W - a, y0 - up * h), (x0 + W, y0)]
        segs = [S, [S[3], (x0 + W, y0 - D)], [(x0 + W, y0 - D), (x0, y0 - D)], [(x0, y0 - D), S[0]]]
        # the lobe below the chord is the second one when up = 1, the first when up = -1: around t = 0.79 / 0.21 the curve is 0.289 h
        # below the chord; a shape 0.05 h across centred 0.1 h below the chord stays above the curve there
        tl = 0.7887 if up > 0 else 0.2113
        bx = (1 - tl) ** 3 * S[0][0] + 3 * (1 - tl) ** 2 * tl * S[1][0] + 3 * (1 - tl) * tl ** 2 * S[2][0] + tl ** 3 * S[3][0]
        c = (bx, y0 - 0.1 * h)
        r = 0.05 * h
        small = {"kind": "circle", "r": r, "o": c} if rng.random() < 0.5 else {"kind": "rect", "w": 2 * r, "h": r, "o": c}
        A = {"kind": "contour", "segs": segs}
        return (A, small) if rng.random() < 0.6 else (small, A)
    if fam == 2:
        # two circles whose two crossing points both lie on ONE quarter-arc of each (centres offset along a diagonal): one pair of segments
        # crosses twice
        r = float(rng.randint(60, 120))
        o = (float(rng.randint(-span, span)), float(rng.randint(-span, span)))
        phi = math.radians(rng.uniform(40, 50)) + rng.choice([0, 1, 2, 3]) * math.pi / 2
        d = r * rng.uniform(1.6, 1.85)
        return {"kind": "circle", "r": r, "o": o}, {"kind": "circle", "r": r, "o": (o[0] + d * math.cos(phi), o[1] + d * math.sin(phi))}
    if fam == 1:
        # nested: a small shape well inside a large one
        w, h = float(rng.randint(150, 240)), float(rng.randint(150, 240))
        o = (float(rng.randint(-span, span)), float(rng.randint(-span, span)))
        a = {"kind": "rect", "w": w, "h": h, "o": o} if rng.random() < 0.5 else {"kind": "ellipse", "rx": w / 2, "ry": h / 2, "o": o}
        r = float(rng.randint(8, 30))
        bo = (o[0] + float(rng.randint(-15, 15)), o[1] + float(rng.randint(-15, 15)))
        b = rng.choice([{"kind": "circle", "r": r, "o": bo}, {"kind": "rect", "w": 2 * r, "h": r, "o": bo}, {"kind": "ellipse", "rx": r, "ry": r / 2, "o": bo}])
        return (a, b) if i % 2 else (b, a)      # big minus small and small minus big, both within ten pairs
    if fam == 3:
        # two circles crossing within about 1 % (in parameter) of an on-curve node of the first
        r = float(rng.randint(30, 120))
        o = (float(rng.randint(-span, span)), float(rng.randint(-span, span)))
        phi = rng.choice([0.0, 0.5, 1.0, 1.5]) * math.pi + rng.choice([-1, 1]) * math.radians(rng.uniform(0.3, 0.8))
        P = (o[0] + r * math.cos(phi), o[1] + r * math.sin(phi))
        R = float(rng.randint(30, 120))
        psi = phi + rng.choice([-1, 1]) * rng.uniform(0.5, 1.2)
        bo = (P[0] + R * math.cos(psi), P[1] + R * math.sin(psi))
        return {"kind": "circle", "r": r, "o": o}, {"kind": "circle", "r": R, "o": bo}
    if fam == 4 and not simple:
        # a star polygon {n/k} (pentagram, heptagram): its core is wound twice — even-odd says outside, non-zero says inside
        n, k = rng.choice([(5, 2), (7, 2), (7, 3), (9, 4)])
        R = float(rng.randint(60, 120))
        o = (float(rng.randint(-span, span)), float(rng.randint(-span, span)))
        rot = rng.uniform(0, 2 * math.pi)
        vs = [(float(round(o[0] + R * math.cos(rot + 2 * math.pi * k * j / n))), float(round(o[1] + R * math.sin(rot + 2 * math.pi * k * j / n)))) for j in range(n)]
        star = {"kind": "contour", "segs": [[vs[j], vs[(j + 1) % n]] for j in range(n)]}
        w, h = float(rng.randint(80, 240)), float(rng.randint(80, 240))
        other = {"kind": "rect", "w": w, "h": h, "o": (o[0] + float(rng.randint(-30, 30)), o[1] + float(rng.randint(-30, 30)))}
        return (other, star) if i % 2 == 0 else (star, other)       # both operand orders within ten pairs (the fill rules of the two operands are set separately)
    return rand_shape(rng, simple=simple, span=span, sizes=sizes), rand_shape(rng, simple=simple, span=span, sizes=sizes)


class _PCProxy:
    """stands in for the pyclipper module inside booleanoperationsmixin: records Execute's answer"""

    def __init__(self, log):
        self._log = log

    def __getattr__(self, n):
        return getattr(pyclipper, n)

    def Pyclipper(self):
        log = self._log
        real = pyclipper.Pyclipper()

        class W:
            def AddPath(self, path, typ, closed):
                log.setdefault("added", []).append((list(path), typ))
                return real.AddPath(path, typ, closed)

            def Execute(self, ct, a, b):
                r = real.Execute(ct, a, b)
                log["cliptype"] = ct
                log["fill"] = (a, b)
                log["paths"] = [[tuple(v) for v in p] for p in r]
                return r
        return W()


def record_clip(A, B, op, flat):
    """run A.<op>(B, flat) recording pyclipper's polygons and every segment-level flatten(2)"""
    log = {"flats": []}
    saved_pc = bom.pyclipper
    saved = {c: c.flatten for c in (Line, QuadraticBezier, CubicBezier)}

    def mk(orig):
        def spy(self, degree=8):
            r = orig(self, degree)
            log["flats"].append([(l, getattr(l, "_orig", None)) for l in r])
            return r
        return spy
    for c in saved:
        c.flatten = mk(saved[c])
    bom.pyclipper = _PCProxy(log)
    try:
        res = getattr(A, op)(B, flat=flat)
    finally:
        bom.pyclipper = saved_pc
        for c, f in saved.items():
            c.flatten = f
    return res, log


def lut_entries(log, precision=100.0):
    """the reconstruction table exactly as fillLUT builds it (later entries override earlier ones)"""
    ents = []
    for flats in log["flats"]:
        for line, orig in flats:
            val = orig or line
            ks = (float(int(line.start.x * precision)), float(int(line.start.y * precision)))
            ke = (float(int(line.end.x * precision)), float(int(line.end.y * precision)))
            ents.append((ks, ke, oc.seg_pts(val)))
            ents.append((ke, ks, oc.seg_pts(val.reversed())))
    return ents


# ----------------------------------------------------------------------------- geometry oracles (floats, with safety margins)

def fine_polyline(path, step=0.25, cap=6000):
    pts = []
    for s in path.asSegments():
        sp = oc.seg_pts(s)
        L = sum(math.hypot(b[0] - a[0], b[1] - a[1]) for a, b in zip(sp, sp[1:]))
        if len(sp) == 2:
            n = int(min(400, max(1, math.ceil(L / 2.0))))
        else:
            n = int(min(cap, max(8, math.ceil(L / step))))
        for i in range(n):
            t = i / n
            mt = 1 - t
            k = len(sp) - 1
            x = sum(math.comb(k, j) * mt ** (k - j) * t ** j * sp[j][0] for j in range(k + 1))
            y = sum(math.comb(k, j) * mt ** (k - j) * t ** j * sp[j][1] for j in range(k + 1))
            pts.append((x, y))
    return pts


def evenodd(poly, q):
    """crossing-number parity of the closed polygon `poly` (list of vertices) at q"""
    x, y = q
    inside = False
    n = len(poly)
    for i in range(n):
        x1, y1 = poly[i]
        x2, y2 = poly[(i + 1) % n]
        if (y1 > y) != (y2 > y):
            xi = x1 + (y - y1) * (x2 - x1) / (y2 - y1)
            if xi > x:
                inside = not inside
    return inside


def dist_poly(poly, q):
    best = float("inf")
    n = len(poly)
    for i in range(n):
        ax, ay = poly[i]
        bx, by = poly[(i + 1) % n]
        dx, dy = bx - ax, by - ay
        L2 = dx * dx + dy * dy
        t = 0.0 if L2 == 0 else max(0.0, min(1.0, ((q[0] - ax) * dx + (q[1] - ay) * dy) / L2))
        d = math.hypot(q[0] - (ax + t * dx), q[1] - (ay + t * dy))
        if d < best:
            best = d
    return best


def path_vertices(p):
    """vertices of a polygonal path (start points of its segments)"""
    return [(s.start.x, s.start.y) for s in p.asSegments()]


def is_closed_chain(p, tol=0.0):
    segs = p.asSegments()
    if not segs:
        return False
    for a, b in zip(segs, segs[1:] + segs[:1]):
        if abs(a.end.x - b.start.x) > tol or abs(a.end.y - b.start.y) > tol:
            return False
    return True
