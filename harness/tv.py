"""Translation validation of generated definitions (DESIGN 2.2).

For every generated definition and every generated input:
  (a) the traced decision tree is evaluated in exact rationals on the Python side ("ideal"
      literals) and must equal what the Lean definition returns at K = ℚ  -- validates the emitter;
  (b) the *untraced* library function is run on the same floats and must equal the exact-literal
      rational evaluation bit for bit when the input carries an exact-float certificate, and
      within a rounding tolerance otherwise -- validates the tracer.
"""
import contextlib
import io
import math
import random
from fractions import Fraction
from . import specs, drive
from .tracer import (Sym, explore, evaluate, eval_cond, EvalError, exact_float_certificate)

PARAM_NAMES = {"t", "s", "u", "v"}
ANGLE_NAMES = {"angle", "th"}
SCALE_NAMES = {"k", "fx", "fy"}

FAMILIES = ["int", "grid", "dyadic", "float", "big", "degenerate"]


def coord(rng, fam):
    if fam == "int":
        return float(rng.randint(-20, 20))
    if fam == "grid":
        return float(10 * rng.randint(-100, 100))
    if fam == "dyadic":
        return rng.randint(-4000, 4000) / 16.0
    if fam == "float":
        return rng.uniform(-1000, 1000)
    if fam == "big":
        return rng.uniform(-1e6, 1e6)
    if fam == "degenerate":
        return float(rng.choice([0, 0, 1, -1, 5, 100]))
    raise ValueError(fam)


def param_value(rng, fam):
    if fam in ("int", "grid", "dyadic", "degenerate"):
        return rng.choice([0.0, 1.0, 0.5, 0.25, 0.75] + [rng.randint(0, 64) / 64.0] * 6)
    r = rng.random()
    if r < 0.05:
        return 0.0
    if r < 0.1:
        return 1.0
    if r < 0.2:
        return rng.choice([1e-9, 1 - 1e-9, 0.01, 0.99])
    return rng.random()


def make_env(rng, params, fam):
    env = {}
    for p in params:
        if p in PARAM_NAMES:
            env[p] = param_value(rng, fam)
        elif p in ANGLE_NAMES:
            env[p] = rng.choice([0.0, 0.5, -0.5, 1.0, 2.0, -3.0]) if fam in ("int", "grid", "dyadic", "degenerate") \
                else rng.uniform(-7, 7)
        elif p in SCALE_NAMES:
            env[p] = float(rng.choice([0, 1, -1, 2, -2, 0.5, 3])) if fam != "float" and fam != "big" \
                else rng.uniform(-5, 5)
        else:
            env[p] = coord(rng, fam)
    return env


class Traced:
    """Cached trace of one spec."""
    _cache = {}

    def __init__(self, topic, name, params, f):
        self.topic, self.name, self.params, self.f = topic, name, params, f
        with contextlib.redirect_stdout(io.StringIO()):
            self.paths = explore(f)

    @classmethod
    def get(cls, name):
        if name in cls._cache:
            return cls._cache[name]
        for topic, lst in specs.TOPICS.items():
            for n, params, f, outnames, doc in lst:
                if n == name:
                    t = cls(topic, n, params, f)
                    cls._cache[name] = t
                    return t
        raise KeyError(name)

    def eval_paths(self, env, mode, record=None):
        """Follow the recorded decision tree under env.  Returns (path_index, values, margins)
        where values is a list of Fractions / a bool, or ('error', msg)."""
        fenv = {k: Fraction(v) for k, v in env.items()}
        memo = {}
        margins = []
        for idx, (conds, res) in enumerate(self.paths):
            ok = True
            try:
                for c, d in conds:
                    if eval_cond(c, fenv, mode, None, memo, record) != d:
                        ok = False
                        break
            except EvalError as e:
                return idx, ("error", str(e)), margins
            if ok:
                try:
                    for c, d in conds:
                        if c.op != "isclose":
                            a = evaluate(c.a, fenv, mode, None, memo)
                            b = evaluate(c.b, fenv, mode, None, memo)
                            margins.append((abs(a - b), max(abs(a), abs(b))))
                    if isinstance(res, bool):
                        return idx, res, margins
                    vals = [evaluate(x if isinstance(x, Sym) else Sym.lift(x), fenv, mode, None, memo, record)
                            for x in res]
                    return idx, vals, margins
                except EvalError as e:
                    return idx, ("error", str(e)), margins
        return -1, ("error", "no path matches"), margins

    def syms_of_path(self, idx):
        conds, res = self.paths[idx]
        out = []
        for c, _ in conds:
            out += [c.a, c.b]
        if not isinstance(res, bool):
            out += [x for x in res if isinstance(x, Sym)]
        return out


def _app_eval(name, args, mode, record):
    tr = Traced.get(name)
    env = dict(zip(tr.params, args))
    idx, vals, _ = tr.eval_paths(env, mode, record)
    if isinstance(vals, tuple):
        raise EvalError(vals[1])
    return vals[0]


from . import tracer as _tracer
_tracer.APP_EVAL = _app_eval


def run_real(tr, env):
    try:
        r = specs.run_concrete(tr.f, dict(env))
    except ZeroDivisionError:
        return ("error", "ZeroDivisionError")
    except (ValueError, OverflowError) as e:
        return ("error", type(e).__name__)
    if isinstance(r, bool):
        return r
    return [float(x) for x in r]


def validate(names, rng, n_cases, tol_rel=1e-9, families=None, env_hook=None):
    """Returns (stats, disagreements).  A disagreement is a dict that can be replayed."""
    families = families or FAMILIES
    stats = {"evaluations": 0, "certified_bit_exact": 0, "tolerance_compared": 0, "boundary_skipped": 0,
             "lean_compared": 0, "errors_agreed": 0, "families": {}, "branches_hit": {}, "distinct_inputs": 0}
    disagreements = []
    lean_lines = []
    lean_expect = []
    seen = set()
    samples = []
    for name in names:
        tr = Traced.get(name)
        stats["branches_hit"][name] = {}
        for i in range(n_cases):
            fam = families[i % len(families)]
            env = make_env(rng, tr.params, fam)
            if env_hook:
                env = env_hook(name, env, rng, fam) or env
            key = (name,) + tuple(env[p] for p in tr.params)
            stats["evaluations"] += 1
            stats["families"][fam] = stats["families"].get(fam, 0) + 1
            if key not in seen:
                seen.add(key)
            # (b) tracer vs real code
            idx, exact_vals, margins = tr.eval_paths(env, "exact")
            bh = stats["branches_hit"][name]
            bh[str(idx)] = bh.get(str(idx), 0) + 1
            real = run_real(tr, env)
            case = {"def": name, "env": {k: repr(v) for k, v in env.items()}, "family": fam, "path": idx}
            if isinstance(exact_vals, tuple):
                # the model divides by zero / leaves a domain: the real code must fail as well or be at a boundary
                if isinstance(real, tuple):
                    stats["errors_agreed"] += 1
                else:
                    stats["boundary_skipped"] += 1
            else:
                cert = idx >= 0 and exact_float_certificate(tr.syms_of_path(idx), {k: Fraction(v) for k, v in env.items()})
                if isinstance(real, tuple):
                    if cert:
                        disagreements.append(dict(case, kind="real-code-error", real=real[1]))
                    else:
                        stats["boundary_skipped"] += 1
                elif cert:
                    stats["certified_bit_exact"] += 1
                    ok = (real == exact_vals) if isinstance(real, bool) or isinstance(exact_vals, bool) else (
                        len(real) == len(exact_vals) and all(Fraction(a) == b for a, b in zip(real, exact_vals)))
                    if not ok:
                        disagreements.append(dict(case, kind="bit-exact-mismatch", real=repr(real),
                                                  model=[str(v) for v in exact_vals] if not isinstance(exact_vals, bool) else exact_vals))
                else:
                    tie = any(m[0] <= 1e-7 * max(1.0, float(m[1])) for m in margins)
                    if isinstance(real, bool) or isinstance(exact_vals, bool):
                        same = real == exact_vals
                    else:
                        scale = max([1.0] + [abs(v) for v in env.values()] + [abs(float(v)) for v in exact_vals])
                        same = len(real) == len(exact_vals) and all(
                            abs(a - float(b)) <= tol_rel * scale * max(1.0, scale ** 0.5) for a, b in zip(real, exact_vals))
                    if same:
                        stats["tolerance_compared"] += 1
                    elif tie:
                        stats["boundary_skipped"] += 1
                    else:
                        disagreements.append(dict(case, kind="tolerance-mismatch", real=repr(real),
                                                  model=[float(v) for v in exact_vals] if not isinstance(exact_vals, bool) else exact_vals))
            # (a) emitter vs Lean
            rec = []
            idx2, ideal_vals, _ = tr.eval_paths(env, "ideal", rec)
            if not isinstance(ideal_vals, tuple):
                lean_lines.append(drive.gen_line(name, [env[p] for p in tr.params], rec))
                lean_expect.append((case, ideal_vals))
            if len(samples) < 6 and i < 2:
                samples.append(case)
    replies = drive.run_lines(lean_lines)
    for (case, exp), rep in zip(lean_expect, replies):
        got = drive.parse_ok(rep)
        stats["lean_compared"] += 1
        if isinstance(exp, bool):
            exp = [Fraction(1 if exp else 0)]
        if got is None or got != exp:
            disagreements.append(dict(case, kind="lean-vs-trace", lean=rep[:300], trace=[str(v) for v in exp][:20]))
    stats["distinct_inputs"] = len(seen)
    stats["samples"] = samples
    return stats, disagreements
