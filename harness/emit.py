"""Translator (T), part 2: emit traced paths as Lean 4 definitions over an ordered field K."""
from fractions import Fraction
from .tracer import Sym, Cond

FUNC_ORDER = ["pi", "sqrt", "cos", "sin", "acos", "atan2", "rpow"]
FUNC_TYPE = {"pi": "K", "sqrt": "K → K", "cos": "K → K", "sin": "K → K", "acos": "K → K",
             "atan2": "K → K → K", "rpow": "K → K → K"}

HEADER = """/-
  GENERATED FILE -- do not edit.  Regenerated on every check run by /verif/harness from the
  Python source under /repo/src/beziers (symbolic tracing of the real code); see DESIGN.md 2.2.
-/
import BezierVerif.Basic

set_option maxRecDepth 100000
set_option linter.unusedVariables false

namespace Gen
variable {K : Type} [Field K] [LinearOrder K] [IsStrictOrderedRing K]

"""


def lean_const(v):
    v = Fraction(v)
    if v.denominator == 1:
        return "(%d : K)" % v.numerator if v >= 0 else "(-%d : K)" % (-v.numerator)
    if v >= 0:
        return "((%d : K) / %d)" % (v.numerator, v.denominator)
    return "(-((%d : K) / %d))" % (-v.numerator, v.denominator)


APP_FUNCS = {}   # generated definition name -> list of its uninterpreted function parameters (filled by regen)


def collect_funcs(items):
    """Uninterpreted function symbols used by a collection of Sym / Cond."""
    seen = set()
    used = set()
    stack = []
    for it in items:
        if isinstance(it, Cond):
            stack.extend([it.a, it.b])
        elif isinstance(it, Sym):
            stack.append(it)
    while stack:
        e = stack.pop()
        if e.key in seen:
            continue
        seen.add(e.key)
        if e.op in FUNC_TYPE:
            used.add(e.op)
        if e.op.startswith("app:"):
            used.update(APP_FUNCS.get(e.op[4:], []))
        for a in e.args:
            if isinstance(a, Sym):
                stack.append(a)
    return [f for f in FUNC_ORDER if f in used]


class ExprEmitter:
    """Renders Sym DAGs as Lean terms, introducing `let`s for shared non-trivial nodes."""

    def __init__(self, roots, share=True, prefix="v"):
        self.count = {}
        self.share = share
        self.names = {}
        self.lets = []
        self.prefix = prefix
        seen = set()
        stack = list(roots)
        while stack:
            e = stack.pop()
            self.count[e.key] = self.count.get(e.key, 0) + 1
            if e.key in seen:
                continue
            seen.add(e.key)
            for a in e.args:
                if isinstance(a, Sym):
                    stack.append(a)

    def term(self, e):
        if e.op == "const":
            return lean_const(e.args[0])
        if e.op == "var":
            return e.args[0]
        if e.key in self.names:
            return self.names[e.key]
        s = self._render(e)
        if self.share and self.count.get(e.key, 0) > 1 and len(s) > 12:
            n = "%s%d" % (self.prefix, len(self.lets))
            self.lets.append((n, s))
            self.names[e.key] = n
            return n
        return s

    def _render(self, e):
        op = e.op
        a = [self.term(x) for x in e.args if isinstance(x, Sym)]
        if op == "pi":
            return "pi"
        if op.startswith("app:"):
            name = op[4:]
            fa = "".join(" " + f for f in APP_FUNCS.get(name, []))
            return "(%s_v%s %s)" % (name, fa, " ".join(a))
        if op == "neg":
            return "(-%s)" % a[0]
        if op == "abs":
            return "|%s|" % a[0]
        if op == "powi":
            return "(%s ^ (%d : ℕ))" % (a[0], e.args[1])
        if op in ("sqrt", "cos", "sin", "acos"):
            return "(%s %s)" % (op, a[0])
        if op in ("atan2", "rpow"):
            return "(%s %s %s)" % (op, a[0], a[1])
        if op in ("max", "min"):
            return "(%s %s %s)" % (op, a[0], a[1])
        o = {"add": "+", "sub": "-", "mul": "*", "div": "/"}[op]
        return "(%s %s %s)" % (a[0], o, a[1])


def cond_text(c, em):
    a, b = em.term(c.a), em.term(c.b)
    if c.op == "isclose":
        rel = Sym._table[c.extra[0]]
        ab = Sym._table[c.extra[1]]
        return "isclose %s %s %s %s" % (a, b, lean_const(rel.args[0]), lean_const(ab.args[0]))
    o = {"lt": "<", "le": "≤", "gt": ">", "ge": "≥", "eq": "=", "ne": "≠"}[c.op]
    return "%s %s %s" % (a, o, b)


def _val(x):
    if isinstance(x, Sym):
        return x
    if isinstance(x, bool):
        raise TypeError("bool inside a numeric result")
    return Sym.lift(x)


def build_tree(paths):
    if len(paths) == 1 and not paths[0][0]:
        return ("leaf", paths[0][1])
    if any(not cs for cs, _ in paths):
        raise ValueError("inconsistent decision tree (a path ends where another continues)")
    c = paths[0][0][0][0]
    for cs, _ in paths:
        if cs[0][0].key != c.key:
            raise ValueError("inconsistent decision tree (different first conditions)")
    T = [(cs[1:], r) for cs, r in paths if cs[0][1]]
    F = [(cs[1:], r) for cs, r in paths if not cs[0][1]]
    if not T or not F:
        # one side was never explored (cannot happen with the DFS) -- keep it well-formed
        raise ValueError("one-sided decision")
    tt, ff = build_tree(T), build_tree(F)
    if COLLAPSE and tree_key(tt) == tree_key(ff):
        # both outcomes of the decision lead to the same sub-tree: `if c then X else X` is X (c is decidable and total)
        return tt
    return ("if", c, tt, ff)


COLLAPSE = False


def tree_key(t):
    if t[0] == "leaf":
        r = t[1]
        if isinstance(r, bool):
            return ("b", r)
        return ("l", tuple(_val(x).key for x in r))
    return ("i", t[1].key, tree_key(t[2]), tree_key(t[3]))


def tree_syms(t, acc):
    if t[0] == "leaf":
        r = t[1]
        if not isinstance(r, bool):
            acc.extend(_val(x) for x in r)
    else:
        acc.append(t[1])
        tree_syms(t[2], acc)
        tree_syms(t[3], acc)
    return acc


class GenDef:
    def __init__(self, name, params, paths, outnames=None, doc="", collapse=False):
        """params: list of variable names (strings); paths: output of tracer.explore(wrapper) where
        wrapper returns a bool or a flat list of Sym/numbers."""
        global COLLAPSE
        self.name = name
        self.params = params
        self.paths = paths
        self.doc = doc
        self.outnames = outnames
        COLLAPSE = collapse
        try:
            self.tree = build_tree(paths)
        finally:
            COLLAPSE = False
        items = tree_syms(self.tree, [])
        self.funcs = collect_funcs(items)
        self.is_bool = all(isinstance(r, bool) for _, r in paths)
        self.npaths = len(paths)
        self.scalar = (not all(isinstance(r, bool) for _, r in paths)) and all((not isinstance(r, bool)) and len(r) == 1 for _, r in paths)
        self.single = self.tree[0] == "leaf" and not self.is_bool and outnames != "list"
        if outnames == "list":
            self.outnames = None

    def signature(self, name, rty):
        fp = "".join(" (%s : %s)" % (f, FUNC_TYPE[f]) for f in self.funcs)
        pp = " (%s : K)" % " ".join(self.params) if self.params else ""
        return "@[gen_def] def %s%s%s : %s :=" % (name, fp, pp, rty)

    def _leaf(self, r, ind):
        sp = " " * ind
        if isinstance(r, bool):
            return sp + ("true" if r else "false")
        vals = [_val(x) for x in r]
        em = ExprEmitter(vals)
        terms = [em.term(v) for v in vals]
        lines = [sp + "let %s := %s" % (n, s) for n, s in em.lets]
        lines.append(sp + "[" + ", ".join(terms) + "]")
        return "\n".join(lines)

    def _tree(self, t, ind):
        sp = " " * ind
        if t[0] == "leaf":
            return self._leaf(t[1], ind)
        em = ExprEmitter([t[1].a, t[1].b], share=False)
        return "%sif %s then\n%s\n%selse\n%s" % (
            sp, cond_text(t[1], em), self._tree(t[2], ind + 2), sp, self._tree(t[3], ind + 2))

    def text(self):
        out = []
        if self.doc:
            out.append("/-- %s -/" % self.doc.replace("-/", "- /"))
        args = "".join(" " + f for f in self.funcs) + "".join(" " + p for p in self.params)
        if self.single:
            vals = [_val(x) for x in self.tree[1]]
            names = self.outnames or [str(i) for i in range(len(vals))]
            assert len(names) == len(vals), (self.name, names, len(vals))
            for n, v in zip(names, vals):
                em = ExprEmitter([v])
                t = em.term(v)
                body = "".join("  let %s := %s\n" % (a, b) for a, b in em.lets) + "  " + t
                out.append(self.signature("%s_%s" % (self.name, n), "K") + "\n" + body)
            lst = ", ".join("%s_%s%s" % (self.name, n, args) for n in names)
            out.append(self.signature(self.name, "List K") + "\n  [" + lst + "]")
        else:
            rty = "Bool" if self.is_bool else "List K"
            out.append(self.signature(self.name, rty) + "\n" + self._tree(self.tree, 2))
            if not self.is_bool and self.scalar:
                out.append("/-- the single value returned -/\n" + self.signature(self.name + "_v", "K") + "\n  (%s%s).headD 0" % (self.name, args))
        return "\n\n".join(out) + "\n"

    def dispatch_case(self, fnsrc):
        n = len(self.params)
        vs = ["(a.getD %d 0)" % i for i in range(n)]
        fargs = "".join(" (%s)" % fnsrc[f] for f in self.funcs)
        call = "Gen.%s%s%s" % (self.name, fargs, "".join(" " + v for v in vs))
        if self.is_bool:
            call = "[if %s then (1 : ℚ) else 0]" % call
        return '  | "%s" => if a.length = %d then some (%s) else none' % (self.name, n, call)


TOPIC_IMPORTS = {"Inter": ["Lookup", "Roots", "Affine"]}


def emit_file(topic, defs, extra=""):
    """One Gen/<topic>.lean: the definitions plus the ℚ-dispatch used by the driver."""
    hdr = HEADER
    for dep in TOPIC_IMPORTS.get(topic, []):
        hdr = hdr.replace("import BezierVerif.Basic\n", "import BezierVerif.Basic\nimport BezierVerif.Gen.%s\n" % dep)
    t = [hdr]
    for d in defs:
        t.append(d.text())
        t.append("")
    if extra:
        t.append(extra)
    t.append("end Gen\n")
    fnsrc = {f: "tbl.%s" % f for f in FUNC_ORDER}
    t.append("/-- evaluation at K = ℚ for the correspondence driver -/")
    t.append("def Gen.dispatch%s (tbl : FnTable) (name : String) (a : List ℚ) : Option (List ℚ) :=" % topic)
    t.append("  match name with")
    for d in defs:
        t.append(d.dispatch_case(fnsrc))
    t.append("  | _ => none\n")
    return "\n".join(t)
