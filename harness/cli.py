import os
import sys
import argparse


def main():
    ap = argparse.ArgumentParser()
    ap.add_argument("pid")
    ap.add_argument("--tier", default=os.environ.get("VERIF_TIER", "quick"))
    ap.add_argument("--replay")
    a = ap.parse_args()
    seed = int(os.environ.get("VERIF_SEED", "0") or 0)
    from .runner import run
    try:
        rc = run(a.pid.upper(), a.tier, seed, a.replay)
    except Exception:
        import traceback
        traceback.print_exc()
        rc = 2
    sys.exit(rc)


main()
