"""Check runner: regenerate, build, audit, correspond, search, decide, write evidence (DESIGN 2.5)."""
import os
import sys
import json
import time
import random
import importlib
import traceback

ROOT = os.path.dirname(os.path.dirname(os.path.abspath(__file__)))
REPLAY_DIR = os.path.join(ROOT, "replays")
EVID_DIR = os.path.join(ROOT, "evidence")

TRUSTED_BASE = [
    "Lean 4.33.0 kernel (thorough tier: leanchecker re-check of the compiled modules)",
    "Mathlib v4.33.0 as a library of proved lemmas",
    "axioms allowed in property theorems: propext, Classical.choice, Quot.sound (audited by #print axioms on every run)",
    "translator: harness/tracer.py + harness/emit.py (symbolic tracing of the real Python code), validated per run by exact differential runs",
    "hand-written executable models in lean/BezierVerif/Model, tied to the code only by the per-run correspondence check",
    "IEEE-754 rounding is not modelled: theorems are over ordered fields / the reals; float clauses are sampled against exact rational references",
]


class Ctx:
    def __init__(self, pid, tier, seed):
        self.pid = pid
        self.tier = tier
        self.seed = seed
        self.rng = random.Random(seed * 7919 + sum(map(ord, pid)))
        self.scale = 1 if tier == "quick" else 12
        self.notes = []


def load_known(pid):
    p = os.path.join(ROOT, "known_findings.json")
    if not os.path.exists(p):
        return []
    return [e for e in json.load(open(p))["findings"] if e["property"] == pid]


def write_replay(pid, seed, payload):
    os.makedirs(REPLAY_DIR, exist_ok=True)
    n = 0
    while True:
        path = os.path.join(REPLAY_DIR, "%s-seed%d-%d.json" % (pid, seed, n))
        if not os.path.exists(path):
            break
        n += 1
    with open(path, "w") as fh:
        json.dump(payload, fh, indent=1, default=str)
    return os.path.relpath(path, ROOT)


def jsonable(x):
    try:
        json.dumps(x)
        return x
    except TypeError:
        return json.loads(json.dumps(x, default=str))


def run(pid, tier="quick", seed=0, replay=None):
    t0 = time.time()
    from . import leanbuild
    mod = importlib.import_module("harness.props." + pid.lower())
    ctx = Ctx(pid, tier, seed)
    if replay:
        return do_replay(mod, replay)

    known = load_known(pid)
    known_lines = []
    stale = []
    for e in known:
        if e.get("status") != "known":
            continue
        try:
            still = mod.replay(e["witness"])
        except Exception as ex:  # a witness that cannot even run is reported, not hidden
            still = True
            ctx.notes.append("known-finding witness %s raised %r" % (e["id"], ex))
        if still:
            known_lines.append("KNOWN-FINDING: property=%s %s [%s]" % (pid, e["what"], e["id"]))
        else:
            stale.append(e["id"])
    for l in known_lines:
        print(l)

    broken = []          # proof obligations / correspondences that no longer check
    # 1. regenerate the generated definitions from the current source
    try:
        from .regen import regenerate
        meta = regenerate()
        gen_changed = [t for t, i in meta.items() if i["changed"]]
        for t, i in meta.items():
            for n, msg in i["errors"].items():
                if t in getattr(mod, "TOPICS", []):
                    broken.append({"kind": "translator", "what": "cannot trace %s.%s: %s" % (t, n, msg)})
    except Exception as ex:
        meta, gen_changed = {}, []
        broken.append({"kind": "translator", "what": "regeneration failed: %r" % ex,
                       "trace": traceback.format_exc()[-1500:]})

    # 2. build + audit
    targets = list(mod.LEAN_TARGETS)
    theorems = []
    for m in targets:
        try:
            theorems += [n for n, _ in leanbuild.theorems_in(m)]
        except OSError:
            broken.append({"kind": "proof", "what": "module %s missing" % m})
    bd = leanbuild.build(["BezierVerif.DriverMain"])
    driver_ok = bd["ok"]
    if not driver_ok:
        broken.append({"kind": "translator", "what": "generated definitions / models do not compile",
                       "errors": bd["errors"][:5], "log": bd["log_tail"][-1500:]})
    bp = leanbuild.build(targets)
    failing = []
    if not bp["ok"]:
        for m in targets:
            failing += leanbuild.failing_theorems(m, bp["errors"])
        deps = [e for e in bp["errors"] if not any(e["file"] == m.replace(".", "/") + ".lean" for m in targets)]
        broken.append({"kind": "proof", "what": "theorems that no longer check: " + (", ".join(failing) or "(dependency failed)"),
                       "errors": bp["errors"][:8], "dependency_errors": deps[:5], "log": bp["log_tail"][-1500:]})
    closure = leanbuild.imports_closure(targets)
    forb = leanbuild.forbidden_scan(closure)
    if forb:
        broken.append({"kind": "audit", "what": "forbidden tokens in Lean sources: " + "; ".join(forb[:5])})
    aud = {"theorems": theorems, "axioms": {}, "bad": {}}
    if bp["ok"]:
        aud = leanbuild.audit(targets, pid)
        if aud["bad"]:
            broken.append({"kind": "audit", "what": "axiom audit failed: %s" % aud["bad"]})
    discharged = [t for t in theorems if bp["ok"] and t not in aud["bad"] and not forb]
    checker = None
    if tier == "thorough" and bp["ok"]:
        checker = leanbuild.leanchecker(closure)
        if not checker["ok"]:
            broken.append({"kind": "audit", "what": "leanchecker rejected the compiled modules", "log": checker["out"]})

    # 3. correspondence (translation validation + hand-model correspondence)
    corr_stats, corr_dis = {}, []
    if driver_ok:
        try:
            corr_stats, corr_dis = mod.correspondence(ctx)
        except Exception as ex:
            broken.append({"kind": "correspondence", "what": "correspondence run crashed: %r" % ex,
                           "trace": traceback.format_exc()[-2000:]})
        if corr_dis:
            broken.append({"kind": "correspondence", "what": "%d disagreement(s) between model and implementation" % len(corr_dis),
                           "first": corr_dis[:3]})

    # 4. property search on the implementation (exact oracles)
    budget = 1 if not broken else 6
    try:
        s_stats, violations = mod.search(ctx, budget)
    except Exception as ex:
        s_stats, violations = {}, []
        broken.append({"kind": "search", "what": "property oracle crashed: %r" % ex,
                       "trace": traceback.format_exc()[-2000:]})

    # 5. decide
    new_v, known_hits = [], {}
    for v in violations:
        k = None
        for e in known:
            if e.get("status") == "known" and mod.classify(v, e):
                k = e["id"]
                break
        if k:
            known_hits[k] = known_hits.get(k, 0) + 1
        else:
            new_v.append(v)
    rc = 0
    out_lines = []
    if new_v:
        rc = 1
        for v in new_v[:3]:
            path = write_replay(pid, seed, {"property": pid, "kind": "failing-input", "violation": v,
                                            "broken": broken, "replay_cmd": "./check %s --replay <this file>" % pid})
            out_lines.append("VIOLATION property=%s replay=%s" % (pid, path))
    elif broken:
        rc = 1
        path = write_replay(pid, seed, {"property": pid, "kind": "no-failing-input-found",
                                        "no_longer_checks": broken,
                                        "search": {k: v for k, v in s_stats.items() if k != "samples"}})
        out_lines.append("VIOLATION property=%s replay=%s no-failing-input-found" % (pid, path))
    for l in out_lines:
        print(l)

    # 6. evidence
    samples = (corr_stats.get("samples") or [])[:3] + (s_stats.get("samples") or [])[:4]
    if not samples:
        samples = [{"theorem": t} for t in theorems[:3]]
    cov = {
        "obligations": len(theorems),
        "discharged": len(discharged),
        "checker_cmd": "cd lean && lake build %s && lake env lean <#print axioms audit>%s" % (
            " ".join(targets), " && lake env leanchecker <modules>" if tier == "thorough" else ""),
        "trusted_base": TRUSTED_BASE + list(getattr(mod, "TRUSTED", [])),
        "theorems": theorems,
        "axioms_used": sorted({a for l in aud["axioms"].values() for a in l}),
        "generated_topics_changed_this_run": gen_changed,
        "traced_definitions": {t: {n: d["paths"] for n, d in meta.get(t, {}).get("defs", {}).items()}
                                for t in getattr(mod, "TOPICS", [])},
        "evaluations": int(corr_stats.get("evaluations", 0)) + int(s_stats.get("evaluations", 0)),
        "distinct_nontrivial": int(s_stats.get("distinct_nontrivial", 0)) + int(corr_stats.get("distinct_nontrivial", 0)),
        "rule": getattr(mod, "RULE", ""),
        "samples": jsonable(samples),
        "correspondence": jsonable({k: v for k, v in corr_stats.items() if k != "samples"}),
        "search": jsonable({k: v for k, v in s_stats.items() if k != "samples"}),
        "disagreements_checked": int(corr_stats.get("lean_compared", 0)) + int(corr_stats.get("model_compared", 0)),
        "known_findings_hit": known_hits,
        "known_findings_reported": [l for l in known_lines],
        "known_findings_stale": stale,
        "unproved_clauses": list(getattr(mod, "UNPROVED", [])),
        "broken": jsonable(broken),
        "leanchecker": checker,
        "notes": ctx.notes,
    }
    ev = {"property_id": pid, "tier": tier, "seed": seed, "level": "proof", "coverage": cov,
          "assumptions": list(getattr(mod, "ASSUMPTIONS", [])), "wall_s": round(time.time() - t0, 1),
          "violations": len(new_v) + (1 if (broken and not new_v) else 0)}
    os.makedirs(EVID_DIR, exist_ok=True)
    with open(os.path.join(EVID_DIR, pid + ".json"), "w") as fh:
        json.dump(ev, fh, indent=1)
    print("%s %s seed=%d: %d/%d theorems, corr=%s, search=%s, known_hits=%s, rc=%d, %.1fs" % (
        pid, tier, seed, len(discharged), len(theorems),
        {k: corr_stats.get(k) for k in ("evaluations", "certified_bit_exact", "lean_compared", "model_compared") if k in corr_stats},
        {k: s_stats.get(k) for k in ("evaluations", "distinct_nontrivial") if k in s_stats}, known_hits, rc, time.time() - t0))
    return rc


def do_replay(mod, path):
    data = json.load(open(path))
    if data.get("kind") != "failing-input":
        print("replay file names proof obligations / correspondences that no longer check; no input to replay:")
        print(json.dumps(data.get("no_longer_checks"), indent=1)[:3000])
        return 1
    v = data["violation"]
    still = mod.replay(v)
    print("replay %s: %s" % (path, "STILL FAILS" if still else "passes now"))
    if still:
        print("VIOLATION property=%s replay=%s" % (mod.ID, path))
    return 1 if still else 0
