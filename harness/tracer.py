"""Translator (T), part 1: symbolic tracing of the real beziers.py code.

The library code is *executed* on `Sym` numbers.  Arithmetic builds hash-consed expression
nodes; comparisons return `Cond` objects whose truth value is a recorded decision, and a DFS
over decision prefixes enumerates every path of the traced function.  Nothing here parses
Python source: dispatch, properties, mixins and operator overloading are whatever the real
interpreter does with the real classes.
"""
import math
import builtins
import importlib
from fractions import Fraction

# --------------------------------------------------------------------------- expressions


def ideal_const(v):
    """Exact rational for ints; for floats the exact dyadic value plus an 'idealised' value:
    a rational with denominator <= 64 (1/3.0 -> 1/3) or the shortest round-trip decimal
    (0.01 -> 1/100) -- both round to the same double.  Returns (ideal, exact)."""
    if isinstance(v, bool):
        raise TypeError("bool constant")
    if isinstance(v, int):
        return Fraction(v), Fraction(v)
    if isinstance(v, Fraction):
        return v, v
    if isinstance(v, float):
        if v != v or v in (float("inf"), float("-inf")):
            raise TypeError("non-finite constant")
        ex = Fraction(v)
        if ex.denominator <= (1 << 20):
            return ex, ex
        small = ex.limit_denominator(64)
        if float(small) == v:
            return small, ex
        dec = Fraction(repr(v))
        assert float(dec) == v
        return dec, ex
    raise TypeError(type(v))


class Sym:
    __slots__ = ("op", "args", "key", "__weakref__")
    _table = {}

    def __new__(cls, op, *args):
        key = (op,) + tuple(a.key if isinstance(a, Sym) else ("#", a) for a in args)
        o = cls._table.get(key)
        if o is None:
            o = object.__new__(cls)
            o.op = op
            o.args = args
            o.key = key
            cls._table[key] = o
        return o

    # -- lifting
    @staticmethod
    def lift(v):
        if isinstance(v, Sym):
            return v
        ideal, exact = ideal_const(v)
        return Sym("const", ideal, exact)

    def _b(self, op, o, rev=False):
        try:
            o = Sym.lift(o)
        except TypeError:
            return NotImplemented
        return Sym(op, o, self) if rev else Sym(op, self, o)

    def __add__(s, o): return s._b("add", o)
    def __radd__(s, o): return s._b("add", o, True)
    def __sub__(s, o): return s._b("sub", o)
    def __rsub__(s, o): return s._b("sub", o, True)
    def __mul__(s, o): return s._b("mul", o)
    def __rmul__(s, o): return s._b("mul", o, True)
    def __truediv__(s, o): return s._b("div", o)
    def __rtruediv__(s, o): return s._b("div", o, True)
    def __neg__(s): return Sym("neg", s)
    def __pos__(s): return s
    def __abs__(s): return Sym("abs", s)

    def __pow__(s, o):
        if isinstance(o, int) and not isinstance(o, bool) and o >= 0:
            return Sym("powi", s, o)
        return Sym("rpow", s, Sym.lift(o))

    def __float__(s):
        raise TypeError("float() of a symbolic value")

    def __int__(s):
        raise TypeError("int() of a symbolic value")

    def __index__(s):
        raise TypeError("index() of a symbolic value")

    def _c(s, op, o):
        o = Sym.lift(o)
        if o.key == s.key:  # reflexive comparison: no decision needed
            return op in ("le", "ge", "eq")
        return Cond(op, s, o)

    def __lt__(s, o): return s._c("lt", o)
    def __le__(s, o): return s._c("le", o)
    def __gt__(s, o): return s._c("gt", o)
    def __ge__(s, o): return s._c("ge", o)
    def __eq__(s, o):
        if o is None:
            return False
        return s._c("eq", o)
    def __ne__(s, o):
        if o is None:
            return True
        return s._c("ne", o)
    def __hash__(s): return hash(s.key)

    def __bool__(s):
        # truthiness of a number is the decision `s != 0`
        return bool(Cond("ne", s, Sym.lift(0)))

    def __repr__(s):
        return "Sym<%s>" % show(s)


def V(name):
    return Sym("var", name)


def is_sym(x):
    return isinstance(x, Sym)


# --------------------------------------------------------------------------- decisions


class Ctx:
    def __init__(self, prefix):
        self.decisions = list(prefix)
        self.pos = 0
        self.conds = []
        self.memo = {}


CTX = None


class Untraceable(Exception):
    pass


class Cond:
    __slots__ = ("op", "a", "b", "extra", "key")

    def __init__(self, op, a, b, extra=()):
        self.op = op
        self.a = a
        self.b = b
        self.extra = extra
        self.key = (op, a.key, b.key, extra)

    def __bool__(self):
        c = CTX
        if c is None:
            raise Untraceable("decision outside a traced context: %s" % showc(self, True))
        if self.key in c.memo:
            return c.memo[self.key]
        neg = NEGATE.get(self.op)
        if neg is not None:
            nk = (neg, self.a.key, self.b.key, self.extra)
            if nk in c.memo:
                return not c.memo[nk]
        if c.pos < len(c.decisions):
            d = c.decisions[c.pos]
        else:
            c.decisions.append(True)
            d = True
        c.pos += 1
        c.conds.append((self, d))
        c.memo[self.key] = d
        return d


NEGATE = {"lt": "ge", "ge": "lt", "gt": "le", "le": "gt", "eq": "ne", "ne": "eq"}


def explore(f, max_paths=20000):
    """DFS over boolean decisions.  Returns [(conds, result)] with conds = [(Cond, bool)]."""
    global CTX
    out = []
    stack = [[]]
    while stack:
        pre = stack.pop()
        CTX = Ctx(pre)
        try:
            r = f()
            dec = CTX.decisions
            out.append((list(CTX.conds), r))
        finally:
            ctx = CTX
            CTX = None
        for i in range(len(pre), len(dec)):
            stack.append(dec[:i] + [False])
        if len(out) > max_paths:
            raise Untraceable("more than %d paths" % max_paths)
    return out


def trace_under(f, decisions):
    """Run f once under a fixed decision list (guard-directed tracing).  Returns (conds, result)."""
    global CTX
    CTX = Ctx(decisions)
    try:
        r = f()
        return list(CTX.conds), r
    finally:
        CTX = None


# --------------------------------------------------------------------------- shims


def _any_sym(args):
    return any(isinstance(a, Sym) for a in args)


def sym_max(*args, **kw):
    if len(args) == 1 and not kw:
        args = tuple(args[0])
    if kw or not _any_sym(args):
        return builtins.max(*args, **kw)
    r = Sym.lift(args[0])
    for a in args[1:]:
        r = Sym("max", r, Sym.lift(a))
    return r


def sym_min(*args, **kw):
    if len(args) == 1 and not kw:
        args = tuple(args[0])
    if kw or not _any_sym(args):
        return builtins.min(*args, **kw)
    r = Sym.lift(args[0])
    for a in args[1:]:
        r = Sym("min", r, Sym.lift(a))
    return r


def sym_isclose(a, b, rel_tol=1e-09, abs_tol=0.0):
    if not _any_sym((a, b)):
        return math.isclose(a, b, rel_tol=rel_tol, abs_tol=abs_tol)
    a, b = Sym.lift(a), Sym.lift(b)
    if a.key == b.key:
        return True          # isclose(x, x): |x - x| = 0 <= anything non-negative; no decision needed
    return Cond("isclose", a, b, (Sym.lift(rel_tol).key, Sym.lift(abs_tol).key))


class SymMath:
    """Stands in for the `math` module inside traced modules."""

    def __getattr__(self, n):
        if n == "pi" and CTX is not None:
            return Sym("pi")      # symbolic while tracing, the float otherwise
        return getattr(math, n)

    @staticmethod
    def _u(name, real):
        def f(x):
            return Sym(name, x) if isinstance(x, Sym) else real(x)
        return staticmethod(f)

    @staticmethod
    def atan2(y, x):
        if _any_sym((y, x)):
            return Sym("atan2", Sym.lift(y), Sym.lift(x))
        return math.atan2(y, x)

    @staticmethod
    def pow(x, y):
        if _any_sym((x, y)):
            return Sym("rpow", Sym.lift(x), Sym.lift(y))
        return math.pow(x, y)

    @staticmethod
    def isclose(a, b, rel_tol=1e-09, abs_tol=0.0):
        return sym_isclose(a, b, rel_tol, abs_tol)

    @staticmethod
    def copysign(a, b):
        if _any_sym((a, b)):
            raise Untraceable("copysign of symbolic value")
        return math.copysign(a, b)

    @staticmethod
    def floor(a):
        if isinstance(a, Sym):
            raise Untraceable("floor of symbolic value")
        return math.floor(a)


for _n in ("sqrt", "cos", "sin", "acos"):
    setattr(SymMath, _n, SymMath._u(_n, getattr(math, _n)))

SYM_MATH = SymMath()

TRACED_MODULES = [
    "beziers.point", "beziers.line", "beziers.quadraticbezier", "beziers.cubicbezier",
    "beziers.segment", "beziers.boundingbox", "beziers.affinetransformation", "beziers.utils",
    "beziers.utils.arclengthmixin", "beziers.utils.intersectionsmixin",
    "beziers.utils.samplemixin", "beziers.utils.curvedistance", "beziers.utils.curvefitter",
    "beziers.utils.linesweep", "beziers.path", "beziers.path.representations.Segment",
    "beziers.path.geometricshapes",
]

_installed = False


def install():
    """Patch the library's module namespaces for tracing (idempotent, in this process only)."""
    global _installed
    if _installed:
        return
    _installed = True
    mods = {}
    for name in TRACED_MODULES:
        try:
            mods[name] = importlib.import_module(name)
        except Exception as e:  # a module that no longer imports is reported by the caller
            raise Untraceable("cannot import %s: %r" % (name, e))
    for m in mods.values():
        if hasattr(m, "math"):
            m.math = SYM_MATH
        # concrete arguments go to the module's own function (a change to it must show in every check); symbolic ones to the atomic predicate
        if "isclose" in m.__dict__:
            def _mk_isclose(orig):
                def wrapped(a, b, *rest, **kw):
                    if _any_sym((a, b)):
                        return sym_isclose(a, b, *rest, **kw)
                    return orig(a, b, *rest, **kw)
                return wrapped
            m.isclose = _mk_isclose(m.isclose)
        if "sqrt" in m.__dict__:
            def _mk_sqrt(orig):
                def wrapped(v):
                    return SYM_MATH.sqrt(v) if isinstance(v, Sym) else orig(v)
                return wrapped
            m.sqrt = _mk_sqrt(m.sqrt)
        m.max = sym_max
        m.min = sym_min
    pt = mods["beziers.point"]
    _orig_init = pt.Point.__init__

    def init(self, x, y):
        # symbolic coordinates are stored as they are (the constructor is modelled as `self.x, self.y = float(x), float(y)`);
        # concrete ones go through the library's own constructor, so that a change to it shows in every check
        if isinstance(x, Sym) or isinstance(y, Sym):
            self.x = x if isinstance(x, Sym) else float(x)
            self.y = y if isinstance(y, Sym) else float(y)
        else:
            _orig_init(self, x, y)

    pt.Point.__init__ = init
    # Point.__eq__ defines a local isclose; give it the atomic predicate when symbolic
    _orig_eq = pt.Point.__eq__

    def eq(self, other):
        if _any_sym((self.x, self.y, other.x, other.y)):
            return sym_isclose(self.x, other.x) and sym_isclose(self.y, other.y)
        return _orig_eq(self, other)

    pt.Point.__eq__ = eq
    pt.Point.__ne__ = lambda self, other: not eq(self, other)


# --------------------------------------------------------------------------- pretty printing


def show(e):
    if isinstance(e, Sym):
        if e.op == "const":
            v = e.args[0]
            return str(v) if v.denominator == 1 else "(%d/%d)" % (v.numerator, v.denominator)
        if e.op == "var":
            return e.args[0]
        if e.op == "neg":
            return "(-%s)" % show(e.args[0])
        if e.op == "powi":
            return "(%s^%d)" % (show(e.args[0]), e.args[1])
        if e.op == "pi":
            return "pi"
        if e.op.startswith("app:"):
            return "%s(%s)" % (e.op[4:], ",".join(show(a) for a in e.args))
        if e.op in ("sqrt", "cos", "acos", "sin", "abs"):
            return "%s(%s)" % (e.op, show(e.args[0]))
        if e.op in ("max", "min", "atan2", "rpow"):
            return "%s(%s,%s)" % (e.op, show(e.args[0]), show(e.args[1]))
        o = {"add": "+", "sub": "-", "mul": "*", "div": "/"}[e.op]
        return "(%s %s %s)" % (show(e.args[0]), o, show(e.args[1]))
    if isinstance(e, (list, tuple)):
        return "[" + ", ".join(show(x) for x in e) + "]"
    return repr(e)


def showc(c, d=True):
    o = {"lt": "<", "le": "<=", "gt": ">", "ge": ">=", "eq": "==", "ne": "!=", "isclose": "~="}[c.op]
    s = "%s %s %s" % (show(c.a), o, show(c.b))
    return s if d else "not(%s)" % s


# --------------------------------------------------------------------------- evaluation of DAGs


class EvalError(Exception):
    pass


def APP_EVAL(name, args, mode, record):
    """evaluation of a call to another generated definition (set by harness.tv)"""
    raise EvalError("no evaluator for generated definition " + name)


def app(name, *args):
    """symbolic call of another generated (scalar-valued) definition"""
    return Sym("app:" + name, *[Sym.lift(a) for a in args])


def _isqrt_frac(x, digits=40):
    """Rational square root: exact when x is a perfect square, else floor to `digits` decimals."""
    if x < 0:
        raise EvalError("sqrt of negative")
    n, d = x.numerator, x.denominator
    rn, rd = math.isqrt(n), math.isqrt(d)
    if rn * rn == n and rd * rd == d:
        return Fraction(rn, rd)
    s = 10 ** digits
    return Fraction(math.isqrt(n * d * s * s), d * s)


def evaluate(e, env, mode="ideal", funcs=None, memo=None, record=None):
    """Evaluate a Sym in exact rationals.  env: var -> Fraction.  mode: 'ideal' | 'exact' picks
    which value of each float literal is used.  funcs: name -> callable on Fractions for the
    uninterpreted functions (default: float evaluation lifted exactly; sqrt: rational sqrt).
    record: optional list receiving (fname, args, value) for every uninterpreted call."""
    if memo is None:
        memo = {}
    funcs = funcs or {}

    def call(name, *a):
        if name in funcs:
            v = funcs[name](*a)
        elif name == "sqrt":
            v = _isqrt_frac(a[0])
        else:
            fa = [float(x) for x in a]
            try:
                if name == "rpow":
                    v = Fraction(math.pow(*fa))
                else:
                    v = Fraction(getattr(math, name)(*fa))
            except (ValueError, OverflowError) as ex:
                raise EvalError("%s%r: %s" % (name, tuple(fa), ex))
        if record is not None:
            record.append((name, tuple(a), v))
        return v

    def go(x):
        k = x.key
        if k in memo:
            return memo[k]
        op = x.op
        if op == "const":
            r = x.args[0] if mode == "ideal" else x.args[1]
        elif op == "var":
            r = env[x.args[0]]
        elif op == "neg":
            r = -go(x.args[0])
        elif op == "abs":
            r = abs(go(x.args[0]))
        elif op == "powi":
            r = go(x.args[0]) ** x.args[1]
        elif op in ("add", "sub", "mul", "div", "max", "min"):
            a, b = go(x.args[0]), go(x.args[1])
            if op == "add": r = a + b
            elif op == "sub": r = a - b
            elif op == "mul": r = a * b
            elif op == "max": r = max(a, b)
            elif op == "min": r = min(a, b)
            else:
                if b == 0:
                    raise EvalError("division by zero")
                r = a / b
        elif op == "pi":
            r = Fraction(math.pi)
        elif op.startswith("app:"):
            r = APP_EVAL(op[4:], [go(a) for a in x.args], mode, record)
        elif op in ("sqrt", "cos", "sin", "acos"):
            r = call(op, go(x.args[0]))
        elif op in ("atan2", "rpow"):
            r = call(op, go(x.args[0]), go(x.args[1]))
        else:
            raise EvalError("unknown op " + op)
        memo[k] = r
        return r

    return go(e)


def isclose_frac(a, b, rel, abs_tol):
    return abs(a - b) <= max(rel * max(abs(a), abs(b)), abs_tol)


def eval_cond(c, env, mode="ideal", funcs=None, memo=None, record=None):
    a = evaluate(c.a, env, mode, funcs, memo, record)
    b = evaluate(c.b, env, mode, funcs, memo, record)
    op = c.op
    if op == "lt": return a < b
    if op == "le": return a <= b
    if op == "gt": return a > b
    if op == "ge": return a >= b
    if op == "eq": return a == b
    if op == "ne": return a != b
    if op == "isclose":
        rel = Sym._table[c.extra[0]].args[0 if mode == "ideal" else 1]
        ab = Sym._table[c.extra[1]].args[0 if mode == "ideal" else 1]
        return isclose_frac(a, b, rel, ab)
    raise EvalError(op)


def exact_float_certificate(outs, env):
    """True iff every intermediate value of the DAGs `outs` under env (exact-literal mode) is a
    binary64 value and no uninterpreted function is involved: then IEEE arithmetic is exact and the
    float run must be bit-identical to the rational run."""
    memo = {}
    rec = []
    try:
        for o in outs:
            if isinstance(o, Sym):
                evaluate(o, env, "exact", None, memo, rec)
    except EvalError:
        return False
    if rec:
        return False
    for v in memo.values():
        try:
            if Fraction(float(v)) != v:
                return False
        except OverflowError:
            return False
    return True
