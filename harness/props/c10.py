"""C10 — signed area is exact per segment and consistent for closed paths."""
import math
from fractions import Fraction as F
from .. import tv, drive
from ..oracles import common as oc
from beziers.point import Point
from beziers.path import BezierPath
from beziers.path.geometricshapes import Rectangle, Ellipse, Circle

ID = "C10"
TOPICS = ["Area", "Eval", "Affine"]
LEAN_TARGETS = ["BezierVerif.Props.C10"]
TV_DEFS = ["line_area", "quad_area", "cubic_area", "quad_toCubicBezier", "cubic_reversed", "quad_reversed", "line_reversed"]
RULE = ("segments from the families of Appendix B (area vs the exact integral of y dx computed from the power basis in "
        "Fractions; split parameters from {k/64, uniform}); closed paths = random closed chains of 3..7 mixed segments, "
        "rectangles/ellipses/circles of random size and origin, convex counter-clockwise polygons; rigid motions and scale "
        "factors random; non-trivial = area != 0 and >= 3 distinct points; distinct = distinct inputs")
UNPROVED = ["the flattening error bound (|signed_area - exact Green area| <= 10 * length) — sampled against the exact area from the theorems",
            "rotation invariance of a closed path's signed area — sampled (theorems cover translation, scaling, reversal)",
            "float residuals of the closed forms (sampled: 1e-9 relative)"]
ASSUMPTIONS = ["1/3.0 and 2/3.0 in toCubicBezier idealised to 1/3 and 2/3 (reported by the translator)",
               "math.copysign(1, 0.0) sign-of-zero behaviour of `direction` not modelled"]
LEVEL_TEXT = ("Lean theorems about regenerated definitions: each of the three closed forms equals the Mathlib interval integral of y(t)*x'(t) "
              "(antiderivative certificate checked by Lean), is additive under splitAtTime, negated by reversed(), preserved by degree elevation; "
              "hand model of signed_area (shoelace) proved equal to minus the sum of Line.area over any closed chain, scaling k*k, translation "
              "invariance, reversal, area=|signed|, direction=sign, Rectangle constructor; model tied to the code by exact correspondence on polygons. "
              "Flattening error bound is sampled.")
LEVEL_NOTE = ("trusted: Lean kernel + Mathlib, axioms {propext, Classical.choice, Quot.sound}, translator (validated per run), hand model "
              "Model/Polygon.lean (correspondence per run); float rounding and the flatten() sampling density not modelled")
TECHNIQUE = "symbolic tracing to Lean; integral_eq_sub_of_hasDerivAt with a checked certificate; ring; list induction (telescoping)"


def model_corr(ctx):
    rng = ctx.rng
    n = 60 * ctx.scale
    lines, cases = [], []
    for i in range(n):
        k = rng.randint(1, 8)
        pts = [(float(rng.randint(-300, 300)), float(rng.randint(-300, 300))) for _ in range(k + 1)]
        closed = rng.random() < 0.7
        if closed:
            pts[-1] = pts[0]
        segs = [[pts[j], pts[j + 1]] for j in range(k)]
        args = [c for s in segs for p in s for c in p]
        lines.append("model polygon.signedArea " + " ".join(drive.rat(a) for a in args))
        cases.append(segs)
    replies = drive.run_lines(lines)
    dis = []
    for segs, rep in zip(cases, replies):
        p = oc.path_from(segs, True)
        got = [F(p.signed_area), F(p.area), F(p.direction)]
        exp = drive.parse_ok(rep)
        if exp is None or exp[:2] != got[:2] or (exp[0] != 0 and exp[2] != got[2]):
            dis.append({"kind": "model-vs-impl", "model": "polygon.signedArea", "segs": segs, "lean": rep, "impl": [str(g) for g in got]})
    return {"model_compared": len(cases)}, dis


def correspondence(ctx):
    stats, dis = tv.validate(TV_DEFS, ctx.rng, 30 * ctx.scale)
    m, d2 = model_corr(ctx)
    stats.update(m)
    stats["distinct_nontrivial"] = 0
    return stats, dis + d2


def exact_area(pts):
    """∫_0^1 y(t) x'(t) dt exactly, from power-basis coefficients."""
    xs = oc.power_basis([p[0] for p in pts])
    ys = oc.power_basis([p[1] for p in pts])
    dx = [k * xs[k] for k in range(1, len(xs))]
    tot = F(0)
    for i, a in enumerate(ys):
        for j, b in enumerate(dx):
            tot += a * b / (i + j + 1)
    return tot


def check_segment(pts, t):
    seg = oc.mkseg(pts)
    M = oc.maxabs(pts)
    tol = 1e-9 * M * M + 1e-300
    ex = exact_area(pts)
    if abs(F(seg.area) - ex) > tol:
        return "segment area %r differs from the exact integral of y dx %r" % (seg.area, float(ex))
    a, b = seg.splitAtTime(t)
    if abs(a.area + b.area - seg.area) > 4 * tol:
        return "area not additive under splitting at t"
    if abs(seg.reversed().area + seg.area) > tol:
        return "area not negated by reversal"
    if len(pts) == 3:
        if abs(seg.toCubicBezier().area - seg.area) > tol:
            return "quadratic and its cubic elevation differ in area"
    if len(pts) == 2:
        mid = ((pts[0][0] + pts[1][0]) / 2, (pts[0][1] + pts[1][1]) / 2)
        q = oc.mkseg([pts[0], mid, pts[1]])
        if abs(q.area - seg.area) > tol or abs(q.toCubicBezier().area - seg.area) > tol:
            return "line and its degree elevations differ in area"
    return None


def make_path(spec):
    kind = spec["kind"]
    if kind == "rect":
        return Rectangle(spec["w"], spec["h"], origin=Point(*spec["o"]))
    if kind == "ellipse":
        return Ellipse(spec["rx"], spec["ry"], origin=Point(*spec["o"]))
    if kind == "circle":
        return Circle(spec["r"], origin=Point(*spec["o"]))
    return oc.path_from([[tuple(p) for p in s] for s in spec["segs"]], True)


def check_path(spec):
    p = make_path(spec)
    segs = p.asSegments()
    for a, b in zip(segs, segs[1:] + segs[:1]):
        if a.end != b.start:
            return "constructor did not produce a closed connected chain"
    green = -sum(exact_area(oc.seg_pts(s)) for s in segs)
    L = p.length
    sa = p.signed_area
    if abs(F(sa) - green) > 10 * L + 1e-9:
        return "signed_area %r differs from the exact Green area %r by more than 10*length" % (sa, float(green))
    if abs(p.area - abs(sa)) > 0 or (sa != 0 and p.direction != math.copysign(1, sa)):
        return "area is not |signed_area| or direction is not its sign"
    if spec["kind"] in ("rect", "ellipse", "circle"):
        if not (sa < 0):
            return "shape constructor is not clockwise (signed area %r)" % sa
        if spec["kind"] == "rect" and abs(F(sa) + F(spec["w"]) * F(spec["h"])) > 1e-9 * abs(spec["w"] * spec["h"]):
            return "rectangle area wrong"
    if spec.get("ccw") and not (sa > 0):
        return "simple counter-clockwise contour has non-positive signed area"
    slack = 20 * L + 1e-6
    q = p.clone(); q = make_path(spec); q.reverse()
    if abs(q.signed_area + sa) > slack * 1e-3 + 1e-9 * abs(sa) + 0.05 * L:
        return "signed area not negated by reversing the path"
    v = spec["v"]
    q = make_path(spec); q.translate(Point(*v))
    if abs(q.signed_area - sa) > 1e-6 * (abs(sa) + L * (abs(v[0]) + abs(v[1]))) + 0.05 * L:
        return "signed area changed by translation"
    # far from the origin (the shoelace products are then ~1e20 while the area is ~1e4: F32); coordinates there are rounded to ~2e-6
    far = spec.get("far", (1e10, -3e9))
    q = make_path(spec); q.translate(Point(*far))
    if abs(F(q.signed_area) - green) > 10 * L + 1e-3 * L * 4 + 1e-9:
        return "signed area %r after translating by %r differs from the exact area %r by more than 10*length" % (q.signed_area, far, float(green))
    k = spec["k"]
    q = make_path(spec); q.scale(k)
    if abs(F(q.signed_area) - F(k) * F(k) * green) > 10 * L * abs(k) + 1e-9:
        return "signed area not multiplied by k*k under scaling"
    th = spec["th"]
    q = make_path(spec); q.rotate(Point(*spec["c"]), th)
    if abs(F(q.signed_area) - green) > 10 * L + 1e-6 * abs(float(green)):
        return "signed area changed by rotation"
    return None


def rand_closed(rng, flower=False):
    r = rng.random()
    o = (float(rng.randint(-200, 200)), float(rng.randint(-200, 200)))
    base = {"v": (float(rng.randint(-500, 500)), float(rng.randint(-500, 500))), "k": rng.choice([2.0, 0.5, -1.0, 3.0, rng.uniform(0.2, 4)]),
            "th": rng.uniform(-3.1, 3.1), "c": o}
    if flower:
        # "flower": a long outline made of many short curved segments all bulging outwards (the flattening error of every
        # petal has the same sign, so errors add up instead of cancelling; total length well above 2000 units)
        n = rng.randint(300, 420)
        R = float(rng.randint(2000, 6000))
        bulge = rng.uniform(0.5, 2.0)
        segs = []
        for k in range(n):
            a0, a1 = 2 * math.pi * k / n, 2 * math.pi * (k + 1) / n
            p0 = (o[0] + R * math.cos(a0), o[1] + R * math.sin(a0))
            p1 = (o[0] + R * math.cos(a1), o[1] + R * math.sin(a1))
            w = math.hypot(p1[0] - p0[0], p1[1] - p0[1])
            am = (a0 + a1) / 2
            c = ((p0[0] + p1[0]) / 2 + bulge * w * math.cos(am), (p0[1] + p1[1]) / 2 + bulge * w * math.sin(am))
            if k % 2:
                segs.append([p0, c, p1])
            else:
                segs.append([p0, (p0[0] + (c[0] - p0[0]) * 1.2, p0[1] + (c[1] - p0[1]) * 1.2), (p1[0] + (c[0] - p1[0]) * 1.2, p1[1] + (c[1] - p1[1]) * 1.2), p1])
        segs[-1][-1] = segs[0][0]
        return dict(base, kind="chain", segs=segs, ccw=None)
    if r < 0.15:
        return dict(base, kind="rect", w=float(rng.randint(1, 400)), h=float(rng.randint(1, 400)), o=o)
    if r < 0.3:
        return dict(base, kind="ellipse", rx=float(rng.randint(5, 300)), ry=float(rng.randint(5, 300)), o=o)
    if r < 0.4:
        return dict(base, kind="circle", r=float(rng.randint(5, 300)), o=o)
    if r < 0.6:
        # convex counter-clockwise polygon
        n = rng.randint(3, 8)
        angs = sorted(rng.uniform(0, 2 * math.pi) for _ in range(n))
        R = rng.uniform(20, 300)
        pts = [(round(o[0] + R * math.cos(a)), round(o[1] + R * math.sin(a))) for a in angs]
        pts = [(float(x), float(y)) for x, y in pts]
        if len(set(pts)) < 3:
            return rand_closed(rng)
        segs = [[pts[i], pts[(i + 1) % n]] for i in range(n)]
        twice = sum(a[0] * b[1] - a[1] * b[0] for a, b in segs)
        return dict(base, kind="chain", segs=segs, ccw=twice > 0)
    n = rng.randint(3, 7)
    nodes = [(float(rng.randint(-300, 300)), float(rng.randint(-300, 300))) for _ in range(n)]
    segs = []
    for i in range(n):
        order = rng.choice([2, 3, 4])
        inner = [(float(rng.randint(-300, 300)), float(rng.randint(-300, 300))) for _ in range(order - 2)]
        segs.append([nodes[i]] + inner + [nodes[(i + 1) % n]])
        if not any(len(sg) == 4 and sg[0] == sg[3] for sg in segs) and rng.random() < 0.05:
            # a lobe (at most one per outline): a cubic that leaves the node and comes back to it (start == end) enclosing a large area
            q = nodes[(i + 1) % n]
            a = rng.uniform(0, 2 * math.pi)
            b = a + rng.choice([-1, 1]) * rng.uniform(1.0, 2.0)
            d1, d2 = rng.uniform(800, 2000), rng.uniform(800, 2000)
            segs.append([q, (q[0] + d1 * math.cos(a), q[1] + d1 * math.sin(a)), (q[0] + d2 * math.cos(b), q[1] + d2 * math.sin(b)), q])
    return dict(base, kind="chain", segs=segs)


def run_one(kind, inp):
    if kind == "seg":
        return check_segment([tuple(p) for p in inp["pts"]], inp["t"])
    msg = check_path(inp)
    if msg is None and inp["kind"] == "chain" and len(inp["segs"]) < 12:
        segs = [[tuple(p) for p in s] for s in inp["segs"]]
        msg = oc.path_stale_check(segs, True, hash(repr(segs)) & 0xFFFFFF, [
            ("signed_area", lambda g: g.signed_area), ("direction", lambda g: g.direction)])
    return msg


def search(ctx, budget):
    rng = ctx.rng
    n = 700 * ctx.scale * budget
    viol, samples = [], []
    seen = set()
    nontriv = 0
    kinds = {}
    worst = 0.0
    for i in range(n):
        if i % 7 != 6:
            order = 2 + i % 3
            fam = oc.COORD_FAMILIES[(i // 3) % len(oc.COORD_FAMILIES)]
            if fam == "big":
                fam = "float"
            inp = {"pts": oc.rand_seg_pts(rng, order, fam), "t": oc.rand_t(rng)}
            kind = "seg"
            if len(set(map(tuple, inp["pts"]))) >= 2 and repr(inp) not in seen:
                seen.add(repr(inp)); nontriv += 1
        else:
            inp = rand_closed(rng, flower=(i // 7) % 100 == 7)
            kind = "path"
            if repr(inp) not in seen:
                seen.add(repr(inp)); nontriv += 1
        kinds[kind] = kinds.get(kind, 0) + 1
        msg = run_one(kind, inp)
        if msg:
            viol.append({"what": msg, "kind": kind, "input": inp})
            if len(viol) >= 5:
                break
        if len(samples) < 4 and i % 7 in (0, 6):
            samples.append(inp)
    return {"evaluations": i + 1, "distinct_nontrivial": nontriv, "kinds": kinds, "samples": samples}, viol


def classify(v, entry):
    return False


def replay(v):
    return run_one(v["kind"], v["input"]) is not None
