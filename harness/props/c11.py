"""C11 — point containment follows the even-odd rule."""
import math
from fractions import Fraction as F
from .. import tv, drive
from ..oracles import common as oc
from ..oracles import clipcommon as cc
from ..oracles import polyroots as pr
from . import c05
from beziers.point import Point
from beziers.line import Line

ID = "C11"
TOPICS = ["Inter", "Lookup", "Roots", "Affine", "Eval"]
LEAN_TARGETS = ["BezierVerif.Props.C05M", "BezierVerif.Props.C11", "BezierVerif.Props.C11B", "BezierVerif.Props.C11P", "BezierVerif.Props.C11Q", "BezierVerif.Props.C11W"]
TV_DEFS = ["ray_line"]
RULE = ("closed paths: rectangles, ellipses, circles, random polygons, random contours mixing lines, quadratics and cubics (simple star-shaped and self-intersecting), "
        "doubled contours (K6 family); integer and float coordinates; query points uniform in the padded bounding box, outside the box on all four sides, and level "
        "with on-curve nodes / horizontal edges / curve y-extremes (K1 family); kept only when farther than 1e-3 of the extent from the finely flattened outline "
        "(+ flattening margin); reference parity by an exact slanted ray in Q (direction re-drawn until it meets no node and no tangency; Sturm isolation); "
        "non-trivial = the reference ray crosses the path at least once; distinct = distinct (path, point)")
UNPROVED = ["for curved segments the even-odd theorem is conditional (mixed_even_odd) on the hypothesis, per curved segment, that the root finder hands both rays the increasing list of exactly the segment's level crossings (proved for cubics in the Cardano branch whose aligned copies have y-polynomials vanishing exactly on the level set — cubic_hseg_cardano; and for quadratics — quad_hseg; for the degenerate-cubic branches it remains a hypothesis of curve_hseg; that the aligned copies' y-polynomials vanish exactly on the level set is a hypothesis: exact for the left ray, the right ray's half-turn is computed with sin(pi) = 1.2e-16) and on clear position (no crossing inside a 2e-7 tolerance band); winding-number-0-outside-the-box is proved for chains of lines",
            "for curved segments the crossing lists come from C05's curve/line machinery: completeness of the Cardano branch is sampled (C05)",
            "float evaluation of the crossing parameters near the 2e-7 window ends (sampled; excluded by the distance rule)",
            "sign(tangent.y) = sign of the derivative's y (normalisation by a positive length; atan2/sin for lines: Polar lemmas)"]
ASSUMPTIONS = ["clear position (C11B.Clear): verticality / horizontality of edges decided exactly, |slope| >= 2e-7 for non-vertical edges, no parameter inside a 2e-7 band", "query level differs from every node / extremum level (else K1)", "no two segments cross a ray at the same point (else K6)"]
LEVEL_TEXT = ("theorems: C11W.winding_zero_outside_box_mixed (SECOND CLAUSE for closed paths of lines, quadratics and cubics: a query point left of, right of, below or above a box containing the path has winding number 0, under SegPos, no node on the level and NoCoincide; from winding_zero_one_side (every level crossing on one side of the point), Parity.signed_simple_roots / signed_crossings (the tangent signs at the simple level crossings of ANY segment add up to the change of side of its end points: IVT + sign next to a simple root, induction over the sorted crossings), ray_keep_iff (each ray keeps exactly the crossings on its side of the query point, wherever the point lies relative to the rays' far ends), row_one_side, closed_side_sum; concrete arch example), C11Q.pointIsInside_iff_odd_crossings (THE WHOLE PATH, hypotheses about the path and the query point only: for a closed path of lines, quadratics and cubics, no node level with the query point, the query point in clear position with respect to every segment (SegPos: every level crossing of a curve simple, inside the range filter and away from the rays' ends; a cubic's y-polynomial of degree two exactly or with a non-negligible leading coefficient) and no two level crossings on one point (NoCoincide), the model of pointIsInside — regenerated ray test, regenerated alignmentTransformation/transformed with real cos/sin/atan2, regenerated quadratic and Cardano root finders — is true exactly when the path crosses the level an odd number of times strictly left of the point, the crossings of a curve counted as the set {t in (0,1): y(t) = py, x(t) < px} (Set.ncard); built from curve_hseg_aligned, rootListOK_d_zero (the degenerate-cubic branch), segOK_of_geom (conditions on the aligned copies reduced to conditions on the segment: align_row, cubicOK_of_eq), left_count_curve, nodup_of_noCoincide; concrete arch example decided by the theorem), C11P.parity_simple_roots / segment_crossing_parity (ANY segment crosses a level an odd number of times iff its end points lie on opposite sides, all crossings simple: intermediate value theorem + sign next to a simple root), mixed_even_odd (closed paths mixing lines and curves: inside iff the left ray reports an odd number of crossings, under the per-segment hypothesis Hseg; line_hseg discharges Hseg for lines in clear position from the regenerated ray test, curve_hseg for curved segments of the winding model: curve_partition (each level crossing in clear position passes the range filter of exactly one ray: one_ray) + hseg_of_partition, given that the root finder hands both rays exactly the crossings; cubic_hseg_cardano removes that hypothesis for cubics in the Cardano branch using CardanoC.cubic_root_list (what _findRoots returns is the increasing repetition-free list of exactly the roots in (0,1)) and sorted_ext (both aligned copies give the same list); quad_hseg does the same for quadratic segments (quadraticRoots_nodup, quad_root_list)); polygon_even_odd (closed chains of lines in clear position: pointIsInside is true exactly when an odd number of edges straddle the query level and cross it "
              "left of the point — derived from the regenerated code through ray_line_eq_model / ray_hit (the ray crossing rule), straddle_even (a closed chain crosses a level an even "
              "number of times), collect_flat (the dict holds every crossing once when none coincide), hit_left / hit_right; winding_zero_outside_box (closed chains of lines in clear position: a query point left of, "
              "right of, below or above the box of the vertices has winding number 0 — the far ray meets every straddling edge and the signs telescope around the closed chain (windSum_ray, "
              "sign_is_side_change, closed_signs_cancel), the near ray meets nothing; both with concrete examples on a square); nodup_of_distinct_crossings (the no-coincidence hypothesis follows from distinct crossing abscissae); winding_parity (the reported number has the parity of the number of distinct crossing points on either ray whenever the two rays agree in parity — "
              "whatever the signs, so pointIsInside never depended on the stale-variable defect F9), closed_chain_even / ray_split (closed chains of lines, query level "
              "different from every vertex level: left + right crossing counts = number of straddling edges, which is even), inside_iff_odd_left, signed_sum_zero "
              "(up- and down-crossings of a closed chain cancel: winding 0 when one ray sees every crossing), winding_zero_no_hits, insertHit lemmas (dict semantics), "
              "level_with_node_counterexample (K1), overlapping_counterexample (K6), pinned_last_segment_counterexample (F9)")
LEVEL_NOTE = "trusted: Lean kernel + Mathlib, axioms {propext, Classical.choice, Quot.sound}, translator (ray_line), hand models Model/Winding.lean + Model/Inter.lean (correspondence per run)"
TECHNIQUE = "hand model of the two-ray crossing count over generated crossing predicates; list induction (parity of closed chains); exact slanted-ray oracle"


def extent_of(path):
    b = path.bounds()
    return max(b.right - b.left, b.top - b.bottom, 1e-9)


def seg_list(path):
    return [oc.seg_pts(s) for s in path.asSegments()]


def exact_parity(segs, q, rng):
    """number of crossings of a slanted rational ray from q with the closed path (exact), or None if no good direction was found"""
    qx, qy = F(q[0]), F(q[1])
    for attempt in range(12):
        dx = F(1)
        dy = F(rng.randint(-997, 997), rng.choice([101, 211, 307, 401, 503]))
        if attempt % 2:
            dx = -dx
        total = 0
        ok = True
        for pts in segs:
            px = oc.power_basis([F(p[0]) for p in pts])
            py = oc.power_basis([F(p[1]) for p in pts])
            px = [px[0] - qx] + px[1:]
            py = [py[0] - qy] + py[1:]
            g = pr.trim([dx * b - dy * a for a, b in zip(px, py)])
            if not g:
                ok = False
                break
            if pr.peval(g, F(0)) == 0 or pr.peval(g, F(1)) == 0:
                ok = False
                break
            if len(g) == 1:
                continue
            if not pr.squarefree(g):
                ok = False
                break
            for a, b in pr.real_roots(g, F(0), F(1), F(1, 10 ** 12)):
                t = (a + b) / 2
                u = pr.peval(px, t) * dx + pr.peval(py, t) * dy
                if u > 0:
                    total += 1
        if ok:
            return total
    return None


def dist_to_path(path, q, fine=None):
    fine = fine or cc.fine_polyline(path, step=0.5)
    return cc.dist_poly(fine, q)


def level_hits(segs, q):
    """K1 classifier: the query level passes (exactly, or within 1e-9 relative for curve extremes) through an on-curve node,
    a horizontal edge or an interior y-extremum of a curve"""
    y = q[1]
    for pts in segs:
        if pts[0][1] == y or pts[-1][1] == y:
            return True
        if len(pts) > 2:
            (roots, _d) = oc.deriv_roots([p[1] for p in pts])
            for r, simple in roots:
                if simple and 0 < r < 1:      # a double root of y' is a horizontal inflection, not an extremum: y is monotone through it
                    ye = float(oc.bern([F(p[1]) for p in pts], r))
                    if abs(ye - y) <= 1e-9 * max(1.0, abs(y)):
                        return True
    return False


def inflection_level(segs, q):
    """the query level passes through a horizontal inflection of a cubic (a double root of y' in (0,1) with y equal to the level, 1e-9
    relative): y(t) - level has a triple root, which exact and floating-point root finding resolve differently (one root or a cluster)"""
    y = q[1]
    for pts in segs:
        if len(pts) < 4:
            continue
        roots, _d = oc.deriv_roots([p[1] for p in pts])
        for r, simple in roots:
            if not simple and 0 < r < 1 and abs(float(oc.bern([F(p[1]) for p in pts], r)) - y) <= 1e-9 * max(1.0, abs(y)):
                return True
    return False


def inflection_cluster(path, segs, q):
    """K13 classifier: the query level passes through a horizontal inflection of a curved segment (y' has a double root r in (0,1) and
    y(r) is the level, 1e-9 relative) AND the library reports that one crossing more than once: two or more crossings of that segment
    with one of the rays whose parameters lie within 0.2 of r (the triple root of y(t) - level is ill-conditioned for the root finder)"""
    y = q[1]
    b = path.bounds()
    b.addMargin(10)
    for k, pts in enumerate(segs):
        if len(pts) < 4:
            continue
        roots, _d = oc.deriv_roots([p[1] for p in pts])
        for r, simple in roots:
            if simple or not (0 < r < 1):
                continue
            ye = float(oc.bern([F(p[1]) for p in pts], r))
            if abs(ye - y) > 1e-9 * max(1.0, abs(y)):
                continue
            s = path.asSegments()[k]
            for x0 in (b.left, b.right):
                near = [i.t1 for i in s.intersections(Line(Point(x0, y), Point(*q))) if abs(i.t1 - float(r)) <= 0.2]
                if len(near) >= 2:
                    return True
    return False


def coincident_crossings(path, q):
    """K6 classifier: two different segments report a crossing of one of the rays at the same point"""
    b = path.bounds()
    b.addMargin(10)
    for x0 in (b.left, b.right):
        ray = Line(Point(x0, q[1]), Point(*q))
        seen = {}
        for k, s in enumerate(path.asSegments()):
            for i in s.intersections(ray):
                key = (i.point.x, i.point.y)
                if key in seen and seen[key] != k:
                    return True
                seen[key] = k
    return False


def shallow_edge(segs, q):
    """K15 classifier: a line edge that is not horizontal, whose slope is below 2e-7 in absolute value, straddles the query level (the
    line/line code treats it as parallel to the ray: C05's K7)"""
    y = q[1]
    for pts in segs:
        if len(pts) != 2:
            continue
        (ax, ay), (bx, by) = pts
        if ay != by and bx != ax and abs((by - ay) / (bx - ax)) < 2e-7 and min(ay, by) < y < max(ay, by):
            return True
    return False


def check_point(spec, q, rng_seed=0, near_skip=True):
    import random
    rng = random.Random(rng_seed)
    path = cc.build(spec)
    segs = seg_list(path)
    ext = extent_of(path)
    fine = cc.fine_polyline(path, step=max(0.25, ext / 2000))
    if near_skip and dist_to_path(path, q, fine) <= 1e-5 * ext + max(0.3, ext / 1500) * 0.01:
        return "skip:near"
    n = exact_parity(segs, q, rng)
    if n is None:
        return "skip:direction"
    want = n % 2 == 1
    pt = Point(*q)
    try:
        got = path.pointIsInside(pt)
        w = path.windingNumberOfPoint(pt)
    except Exception as ex:
        return "raised %r" % (ex,)
    b = path.bounds()
    outside_box = q[0] < b.left or q[0] > b.right or q[1] < b.bottom or q[1] > b.top
    msg = None
    if got != want:
        msg = "pointIsInside = %r but an exact ray crosses the path %d time(s)" % (got, n)
    elif (w % 2 == 1) != want:
        msg = "winding number %d has the wrong parity (exact ray: %d crossing(s))" % (w, n)
    elif outside_box and w != 0:
        msg = "winding number %d for a point outside the bounding box" % w
    if msg:
        if level_hits(segs, q):
            return "K1"
        if coincident_crossings(path, q):
            return "K6"
        if inflection_cluster(path, segs, q):
            return "K13"
        if shallow_edge(segs, q):
            return "K15"
        return msg
    return None


def check_in_place_shift(spec, seed):
    """the inside test describes the path as it is NOW: ask once, move every control point of the live segments by a vector longer than the
    path is wide (no new representation is installed), ask at points inside and on every side of the moved path: the answers must be
    those of a freshly built path with the control points read back"""
    import random
    rng = random.Random(seed)
    path = cc.build(spec)
    b = path.bounds()
    w, h = b.right - b.left, b.top - b.bottom
    path.pointIsInside(Point((b.left + b.right) / 2, (b.bottom + b.top) / 2))
    path.windingNumberOfPoint(Point(b.right + 0.3 * w + 20, (b.bottom + b.top) / 2))
    grow = rng.random() < 0.6
    dx = rng.choice([-1, 1]) * (w + rng.uniform(30, 80))
    dy = rng.choice([0.0, 0.0, rng.choice([-1, 1]) * (h + 40)])
    cx, cy0 = (b.left + b.right) / 2, (b.bottom + b.top) / 2
    f = rng.choice([2.5, 3.0, 4.0])
    done = set()
    for s in path.asSegments():
        for q in s.points:
            if id(q) not in done:
                done.add(id(q))
                if grow:
                    # the path grows about its middle: where its sides used to be is now well inside it
                    q.x = cx + f * (q.x - cx) + (20.0 if q.x >= cx else -20.0)
                    q.y = cy0 + f * (q.y - cy0)
                else:
                    q.x += dx
                    q.y += dy
    now = [[(q.x, q.y) for q in s.points] for s in path.asSegments()]
    fresh = cc.build({"kind": "contour", "segs": now})
    nb = fresh.bounds()
    cy = (nb.bottom + nb.top) / 2 + 0.137 * h
    qs = [((nb.left + nb.right) / 2 + 0.11 * w, cy), (nb.left - 0.4 * w - 25, cy), (nb.right + 0.4 * w + 25, cy),
          (nb.left - 15, cy), (nb.right + 15, cy), ((nb.left + nb.right) / 2, nb.top + 20)]
    for q in qs:
        a = (path.pointIsInside(Point(*q)), path.windingNumberOfPoint(Point(*q)))
        f = (fresh.pointIsInside(Point(*q)), fresh.windingNumberOfPoint(Point(*q)))
        if a != f:
            return "after changing the path's control points in place (moved by (%r, %r) or grown about its middle), the inside test / winding number at %r is %r; a freshly built path with the same control points answers %r (stale state)" % (dx, dy, q, a, f)
    return None


# ----------------------------------------------------------------------------- generators

def wrapped_spec(rng):
    """an outline that winds around a middle region three or more times in one sense: a star polygon {n/k} with k >= 3 (the middle
    is wrapped k times) or a polygonal spiral of `turns` turns closed by a spoke; "focus" is the region wrapped most often"""
    import math
    cx, cy = float(rng.randint(-50, 50)), float(rng.randint(-50, 50))
    R = float(rng.randint(300, 1200))
    ph = rng.uniform(0, 2 * math.pi)
    sense = rng.choice([1, -1])
    if rng.random() < 0.7:
        n, k = rng.choice([(7, 3), (8, 3), (9, 4), (10, 3), (11, 3), (11, 4), (11, 5), (13, 5)])
        verts = [(cx + R * math.cos(ph + sense * 2 * math.pi * k * j / n), cy + R * math.sin(ph + sense * 2 * math.pi * k * j / n)) for j in range(n)]
        inner = R * math.cos(math.pi * k / n)
    else:
        turns, per = rng.choice([3, 4, 5]), rng.choice([5, 6, 7])
        m = turns * per
        verts = [(cx + R * (0.45 + 0.55 * j / m) * math.cos(ph + sense * 2 * math.pi * j / per),
                  cy + R * (0.45 + 0.55 * j / m) * math.sin(ph + sense * 2 * math.pi * j / per)) for j in range(m + 1)]
        inner = R * 0.45 * math.cos(math.pi / per)
    verts = [(float(round(x)), float(round(y))) for x, y in verts]
    verts = [p for j, p in enumerate(verts) if p != verts[j - 1]]
    return {"kind": "contour", "segs": [[verts[j], verts[(j + 1) % len(verts)]] for j in range(len(verts))], "focus": [cx, cy, 0.8 * inner]}


def focus_query(rng, spec):
    import math
    cx, cy, rad = spec["focus"]
    a, d = rng.uniform(0, 2 * math.pi), rad * math.sqrt(rng.random())
    return (cx + d * math.cos(a), cy + d * math.sin(a))


def rand_path_spec(rng, i):
    r = i % 8
    if r in (0, 1):
        return cc.rand_shape(rng, simple=True)
    if r == 2:
        # random polygon (lines only), possibly self-intersecting
        n = rng.randint(3, 8)
        pts = []
        while len(set(pts)) < 3:
            pts = [(float(rng.randint(-100, 100)), float(rng.randint(-100, 100))) for _ in range(n)]
        pts = [p for k, p in enumerate(pts) if p != pts[k - 1]]
        return {"kind": "contour", "segs": [[pts[k], pts[(k + 1) % len(pts)]] for k in range(len(pts))]}
    if r == 2 and i % 32 == 26:
        # K15 family: a sliver triangle one of whose edges rises by less than 2e-7 per unit
        L = float(rng.choice([1e7, 4e6, 2e7]))
        hgt = float(rng.choice([1.0, 0.5, 2.0]))
        x0, y0 = float(rng.randint(-50, 50)), float(rng.randint(-50, 50))
        return {"kind": "contour", "segs": [[(x0, y0), (x0 + L, y0 + hgt)], [(x0 + L, y0 + hgt), (x0, y0 + hgt)], [(x0, y0 + hgt), (x0, y0)]]}
    if r == 6 and i % 16 == 14:
        return wrapped_spec(rng)
    if r == 6 and i % 16 == 6:
        # a contour one of whose cubics has a horizontal inflection (y = y0 + H/2 + H/2 (2t-1)^3: control ordinates y0, y0+H, y0, y0+H):
        # the outline crosses the level of the inflection there although the tangent is exactly horizontal
        x0, y0 = float(rng.randint(40, 160)), float(rng.randint(-50, 50))
        H = float(2 * rng.randint(20, 120))
        dx = float(rng.randint(0, 30))
        cub = [(x0, y0), (x0 + dx, y0 + H), (x0 - dx, y0), (x0, y0 + H)]
        xl = x0 - float(rng.randint(60, 200))
        segs = [cub, [(x0, y0 + H), (xl, y0 + H)], [(xl, y0 + H), (xl, y0)], [(xl, y0), (x0, y0)]]
        if rng.random() < 0.5:
            segs = [list(reversed(sg)) for sg in reversed(segs)]
        return {"kind": "contour", "segs": segs, "levels": [y0 + H / 2]}
    if r == 5:
        # an arch standing on a box: a cubic (or quadratic) whose y-extreme lies in its interior, its feet lower down; points under the
        # arch but above the feet see both ends of the segment on one side of their ray
        x0, y0 = float(rng.randint(-60, 60)), float(rng.randint(-40, 40))
        w, hgt, dep = float(rng.randint(60, 200)), float(rng.randint(40, 160)), float(rng.randint(20, 80))
        up = rng.choice([1.0, -1.0])
        if rng.random() < 0.6:
            arch = [(x0, y0), (x0 + rng.uniform(-0.2, 0.3) * w, y0 + up * hgt), (x0 + w - rng.uniform(-0.2, 0.3) * w, y0 + up * hgt), (x0 + w, y0)]
        else:
            arch = [(x0, y0), (x0 + w / 2 + rng.uniform(-0.3, 0.3) * w, y0 + up * hgt), (x0 + w, y0)]
        arch = [(float(round(x)), float(round(y))) for x, y in arch]
        segs = [arch, [arch[-1], (x0 + w, y0 - up * dep)], [(x0 + w, y0 - up * dep), (x0, y0 - up * dep)], [(x0, y0 - up * dep), arch[0]]]
        if rng.random() < 0.5:
            segs = [list(reversed(sg)) for sg in reversed(segs)]
        return {"kind": "contour", "segs": segs}
    if r == 7:
        # doubled contour: the same closed outline traversed twice (K6 family)
        s = cc.rand_shape(rng, simple=True)
        path = cc.build(s)
        segs = [[tuple(p) for p in oc.seg_pts(x)] for x in path.asSegments()]
        return {"kind": "contour", "segs": segs + segs}
    return cc.rand_shape(rng)


def rand_query(rng, path, i):
    b = path.bounds()
    w, h = b.right - b.left, b.top - b.bottom
    r = i % 10
    if r == 4:
        # next to the outline: a point of a segment moved along the normal by 3e-5 .. 1e-2 of the extent, to either side
        s = rng.choice(path.asSegments())
        t = rng.uniform(0.05, 0.95)
        p = s.pointAtTime(t)
        d = s.pointAtTime(min(1.0, t + 1e-4)) - s.pointAtTime(max(0.0, t - 1e-4))
        n = math.hypot(d.x, d.y)
        if n > 0:
            off = max(w, h, 1e-9) * 10 ** rng.uniform(-4.5, -2) * rng.choice([1, -1])
            return (p.x - d.y / n * off, p.y + d.x / n * off)
    if r < 5:
        return (rng.uniform(b.left - 0.1 * w, b.right + 0.1 * w), rng.uniform(b.bottom - 0.1 * h, b.top + 0.1 * h))
    if r == 5:
        return (b.left - rng.uniform(1, 50) - 0.2 * w, rng.uniform(b.bottom, b.top))
    if r == 6:
        return (b.right + rng.uniform(1, 50) + 0.2 * w, rng.uniform(b.bottom, b.top))
    if r == 7:
        return (rng.uniform(b.left, b.right), rng.choice([b.top + rng.uniform(1, 30), b.bottom - rng.uniform(1, 30)]))
    if r == 8:
        # level with an on-curve node (K1 family)
        s = rng.choice(path.asSegments())
        return (rng.uniform(b.left - 0.3 * w - 5, b.right + 0.3 * w + 5), s.start.y)
    return (float(round(rng.uniform(b.left, b.right))), float(round(rng.uniform(b.bottom, b.top))))


# ----------------------------------------------------------------------------- correspondence

def wire(path, q, which):
    """the model request for windingNumberOfPoint(q): both rays, every segment's aligned copy and Cardano roots (oracle inputs)"""
    b = path.bounds()
    b.addMargin(10)
    px, py = q
    groups = []
    for s in path.asSegments():
        parts = [oc.seg_tokens(oc.seg_pts(s))]
        for x0 in (b.left, b.right):
            ray = Line(Point(x0, py), Point(px, py))
            if len(s.points) == 2:
                parts += [oc.seg_tokens(oc.seg_pts(ray)), ""]
                continue
            _, calls = c05.spy_cardano(lambda: s.intersections(ray))
            aligned = s.transformed(ray.alignmentTransformation())
            parts += [oc.seg_tokens(oc.seg_pts(aligned)), " ".join(drive.rat(r) for r in (calls[0] if calls else []))]
        groups.append(" ; ".join(parts))
    return "model winding %s %s %s %s %s | %s" % (which, drive.rat(px), drive.rat(py), drive.rat(b.left), drive.rat(b.right), " | ".join(groups))


def ray_counts(path, q):
    b = path.bounds()
    b.addMargin(10)
    out = []
    for x0 in (b.left, b.right):
        ray = Line(Point(x0, q[1]), Point(*q))
        d = {}
        for s in path.asSegments():
            for i in s.intersections(ray):
                d[i.point] = i
        out.append(len(d))
    return out


def which_mode():
    """'own' when windingNumberOfPoint takes the tangent on the hit's own segment (i.seg1), 'last' when it uses the loop variable left over
    from the first loop — decided by reading the behaviour, not the source: a two-crossing ray on an up-down pair must sum to 0"""
    from beziers.path import BezierPath
    # counter-clockwise square; a point far to the left sees one up-edge and one down-edge on its right ray
    p = cc.build({"kind": "rect", "w": 10.0, "h": 10.0, "o": (0.0, 0.0)})
    return "own" if p.windingNumberOfPoint(Point(-100.0, 1.0)) == 0 else "last"


def model_corr(ctx):
    rng = ctx.rng
    lines, metas = [], []
    which = which_mode()
    for i in range(30 * ctx.scale):
        spec = rand_path_spec(rng, 6 if i % 10 == 9 else 14 if i % 10 == 4 else i)
        path = cc.build(spec)
        q = rand_query(rng, path, rng.randrange(10))
        if spec.get("levels"):
            b = path.bounds()
            q = (rng.uniform(b.left - 80, b.right + 80), rng.choice(spec["levels"]))     # level with a horizontal inflection (F22)
        if spec.get("focus") and rng.random() < 0.7:
            q = focus_query(rng, spec)
        try:
            lines.append(wire(path, q, which))
            w = path.windingNumberOfPoint(Point(*q))
            ins = path.pointIsInside(Point(*q))
            nl, nr = ray_counts(path, q)
        except Exception as ex:
            lines.pop() if len(lines) > len(metas) else None
            lines.append("ping")
            metas.append(("exc", repr(ex), spec, q))
            continue
        metas.append(("ok", (w, nl, nr, "true" if ins else "false"), spec, q))
    replies = drive.run_lines(lines)
    dis = []
    nz = 0
    for (kind, data, spec, q), rep in zip(metas, replies):
        if kind == "exc":
            dis.append({"kind": "model-vs-impl", "model": "winding", "what": data, "spec": spec, "q": q})
            continue
        nz += data[0] != 0
        if rep.split() != ["ok"] + [str(v) for v in data]:
            path = cc.build(spec)
            ext = extent_of(path)
            if dist_to_path(path, q) <= 1e-3 * ext + 0.3 or level_hits(seg_list(path), q) or inflection_level(seg_list(path), q):
                continue            # within float noise of the outline / of a window end: exact and float evaluation may differ
            dis.append({"kind": "model-vs-impl", "model": "winding", "spec": spec, "q": q, "which": which, "lean": rep[:100], "impl": list(data)})
    return {"model_compared": len(metas), "model_nonzero": nz, "tangent_taken_on": which}, dis


def correspondence(ctx):
    stats, dis = tv.validate(TV_DEFS, ctx.rng, 40 * ctx.scale, tol_rel=1e-7, env_hook=env_hook)
    m, d2 = model_corr(ctx)
    stats.update(m)
    stats["distinct_nontrivial"] = 0
    return stats, dis + d2


def env_hook(name, env, rng, fam):
    if name == "ray_line":
        # make the ray level cross the edge most of the time, the ray reach across it half of the time
        lo, hi = sorted((env["p0y"], env["p1y"]))
        if rng.random() < 0.7 and lo < hi:
            env["py"] = lo + (hi - lo) * rng.uniform(0.05, 0.95)
        xs = sorted((env["p0x"], env["p1x"]))
        span = max(1.0, xs[1] - xs[0])
        env["lx"] = xs[0] - span * rng.uniform(0.5, 2)
        env["px"] = rng.choice([xs[1] + span * rng.uniform(0.1, 2), xs[0] - span * rng.uniform(0.05, 0.4), (xs[0] + xs[1]) / 2])
        if rng.random() < 0.3:
            env["lx"], env["px"] = xs[1] + span * rng.uniform(0.5, 2), env["lx"]
        r = rng.random()
        if r < 0.15:
            env["p1x"] = env["p0x"]
        elif r < 0.2:
            env["p1y"] = env["p0y"]
    return env


def search(ctx, budget):
    rng = ctx.rng
    n = 96 * ctx.scale * budget
    seen = set()
    nontriv = 0
    skipped = {}
    viol, samples = [], []
    evals = 0
    for i in range(n):
        spec = rand_path_spec(rng, i)
        path = cc.build(spec)
        if i % 8 in (0, 5):
            seed = rng.randrange(1 << 30)
            msg = check_in_place_shift(spec, seed)
            evals += 1
            if msg:
                viol.append({"what": msg, "kind": "shift", "input": {"spec": spec, "seed": seed}})
        for j in range(6):
            q = rand_query(rng, path, 5 + j % 2 if j >= 4 else rng.randrange(10))     # the last two: left and right of the bounding box
            if spec.get("levels") and j < 4:
                b = path.bounds()
                q = (rng.uniform(b.left - 80, b.right + 80), rng.choice(spec["levels"]))
            if spec.get("focus") and j < 3:
                q = focus_query(rng, spec)
            seed = rng.randrange(1 << 30)
            inp = {"spec": spec, "q": list(q), "seed": seed}
            msg = check_point(spec, q, seed)
            evals += 1
            if msg and msg.startswith("skip:"):
                skipped[msg[5:]] = skipped.get(msg[5:], 0) + 1
                continue
            key = (repr(spec), q)
            if key not in seen:
                seen.add(key)
                nontriv += 1
            if msg:
                viol.append({"what": msg, "input": inp})
            if len(samples) < 3:
                samples.append(inp)
        if len([v for v in viol if v["what"] not in ("K1", "K6", "K13")]) >= 5:
            break
    return {"evaluations": evals, "distinct_nontrivial": nontriv, "skipped": skipped, "samples": samples}, viol


def classify(v, entry):
    return entry["id"] in ("K1", "K6", "K13", "K15") and v.get("what") == entry["id"]


def replay(v):
    inp = v["input"]
    if v.get("kind") == "shift" or "q" not in inp:
        return check_in_place_shift(inp["spec"], inp["seed"]) is not None
    r = check_point(inp["spec"], tuple(inp["q"]), inp.get("seed", 0), near_skip=not inp.get("raw"))
    return r is not None and not r.startswith("skip:")
