"""C15 — parameter lookup inverts evaluation."""
import math
from fractions import Fraction as F
from .. import tv, drive
from ..oracles import common as oc
from beziers.point import Point

ID = "C15"
TOPICS = ["Lookup", "Roots", "Eval"]
LEAN_TARGETS = ["BezierVerif.Props.Roots", "BezierVerif.Props.C15"]
TV_DEFS = ["line_tOfPoint", "quad_tOfPoint_coeffs", "quadraticRoots"]
RULE = ("lines at least 1 unit long, quadratics (incl. linear in x or y: control point midway) and cubics from the Appendix-B families; t from {0, 1, k/64, uniform}; "
        "for quadratics t at least 1e-3 from a stationary parameter (else skipped and counted); off-line points at distances 1e-5..100 from the carrier; "
        "non-trivial = non-degenerate polygon and 0 < t < 1; distinct = distinct (segment, t)")
UNPROVED = ["quadratic: 'the point coincides within 1e-6' follows from quad_tOfPoint_root by a Lipschitz step (|y(r) - q_y| <= max|y'| * 2e-7) — sampled",
            "cubic: accuracy 2 % of the length (coarse search) — sampled", "float residuals of the line formula (sampled: 1e-9 relative)"]
ASSUMPTIONS = ["math.sqrt real", "the cubic's sample list lies in [0,1] (C16: walk_mem)"]
LEVEL_TEXT = ("theorems: line_tOfPoint_inverse (regenerated Line.tOfPoint returns exactly t for the point at t, for every real t, unless the line is degenerate in both coordinates), "
              "line_off_carrier (-1 when every carrier point is >= 2e-7 away), quad_tOfPoint_complete (real arithmetic: the quadratic lookup of the curve's own point at any t in [0,1] never answers -1 unless a coordinate is constant along the curve: rootsOrDouble_complete, F29), quad_tOfPoint_root (a result other than -1 lies in [0,1] and solves the x-equation up to the residual of rootsOrDouble_spec, within 2e-7 of a "
              "root in [0,1] of the y-equation; built on quadraticRoots_mem_iff), matchRoots_complete, quad_constant_coordinate_counterexample (K5), cubic_tOfPoint_range / cubic_tOfPointFull_range (unconditional since F23: the regular samples are merged with a 65-point grid; mem_mergeGrid, grid_dense, bestSample_le) "
              "(the coarse search with the repaired halving loop answers in [0,1] for every non-empty sample list and every distance function)")
LEVEL_NOTE = "trusted: Lean kernel + Mathlib, axioms {propext, Classical.choice, Quot.sound}, translator, hand models of the quadratic/cubic lookups (correspondence per run)"
TECHNIQUE = "symbolic tracing to Lean + field algebra; hand model of the matching / halving loops; list induction"


def env_hook(name, env, rng, fam):
    return env


def model_corr(ctx):
    rng = ctx.rng
    lines, metas = [], []
    for i in range(25 * ctx.scale):
        pts = oc.rand_seg_pts(rng, 3, rng.choice(["int", "grid", "arch", "elevated", "float"]))
        t = rng.random()
        q = oc.bern_pt(pts, F(t))
        q = (float(q[0]), float(q[1])) if rng.random() < 0.7 else (float(q[0]) + 5.0, float(q[1]))
        lines.append("model lookup.quad %s %s %s" % (oc.seg_tokens(pts), drive.rat(q[0]), drive.rat(q[1])))
        metas.append(("quad", pts, q))
    for i in range(10 * ctx.scale):
        pts = oc.rand_seg_pts(rng, 4, rng.choice(["int", "grid"]))
        if i % 3 == 2:
            pts = [(x / 8.0, y / 8.0) for x, y in pts]        # a cubic only a few units long (F23)
        seg = oc.mkseg(pts)
        if seg.length < 0.5:
            continue
        t = rng.random()
        base = oc.bern_pt(pts, F(t))
        q = (float(base[0]) + rng.choice([-7.0, 3.0, 11.0]), float(base[1]) + rng.choice([5.0, -9.0]))
        samples = seg.regularSampleTValue(50)
        lines.append("model lookup.cubic %s %s %s | %s" % (oc.seg_tokens(pts), drive.rat(q[0]), drive.rat(q[1]), " ".join(drive.rat(s) for s in samples)))
        metas.append(("cubic", pts, q))
    replies = drive.run_lines(lines)
    dis = []
    for (kind, pts, q), rep in zip(metas, replies):
        got = oc.mkseg(pts).tOfPoint(Point(*q))
        exp = drive.parse_ok(rep)
        ok = exp is not None and abs(F(got) - exp[0]) <= F(1, 10 ** 7)
        if not ok and kind == "quad":
            from . import c02
            if c02.near_tie(pts) or near_root_tie(pts, q):
                continue
        if not ok:
            dis.append({"kind": "model-vs-impl", "model": "lookup." + kind, "pts": pts, "q": q, "lean": rep[:100], "impl": got})
    return {"model_compared": len(metas)}, dis


def near_root_tie(pts, q):
    """a root of x(t)=qx or y(t)=qy within 1e-7 of 0/1, a near-double root, or two candidate pairs close to the 2e-7 matching threshold"""
    roots = []
    for k in (0, 1):
        c = oc.power_basis([p[k] for p in pts])
        c = [c[0] - F(q[k])] + c[1:]
        rs = oc.poly_roots_deg2(c[0], c[1], c[2])
        for r, simple in rs:
            if abs(r) < F(1, 10 ** 6) or abs(r - 1) < F(1, 10 ** 6) or not simple:
                return True
        if c[2] != 0:
            D = c[1] * c[1] - 4 * c[2] * c[0]
            if abs(D) <= F(1, 10 ** 6) * (c[1] * c[1] + abs(4 * c[2] * c[0])):
                return True
        roots.append([r for r, _ in rs if 0 <= r <= 1])
    for x in roots[0]:
        for y in roots[1]:
            if F(1, 10 ** 8) < abs(x - y) < F(1, 10 ** 6):
                return True
    return False


def correspondence(ctx):
    stats, dis = tv.validate(TV_DEFS, ctx.rng, 30 * ctx.scale, tol_rel=1e-7)
    m, d2 = model_corr(ctx)
    stats.update(m)
    stats["distinct_nontrivial"] = 0
    return stats, dis + d2


def check_case(pts, t, off):
    msg = check_case_fresh(pts, t, off)
    if msg is None and len(pts) >= 3:
        # the lookup describes the segment as it is now: look a point up, change the control points in place, look the same points up again
        q0 = oc.mkseg(pts).pointAtTime(t)
        qs = [Point(q0.x, q0.y), Point(pts[0][0], pts[0][1]), Point(pts[-1][0] + 1.0, pts[-1][1] - 1.0)]
        msg = oc.stale_check(pts, hash((tuple(pts), t)) & 0xFFFFFF, [("tOfPoint(%r)" % q, (lambda q: lambda s: s.tOfPoint(q))(q)) for q in qs])
    return msg


def check_case_fresh(pts, t, off):
    seg = oc.mkseg(pts)
    M = max(1.0, oc.maxabs(pts))
    q = seg.pointAtTime(t)
    n = len(pts)
    if n == 2:
        L = math.hypot(pts[1][0] - pts[0][0], pts[1][1] - pts[0][1])
        if L < 1e-9 * M:
            return "skip"
        r = seg.tOfPoint(q)
        if not (0 <= r <= 1):
            return "line: parameter %r outside [0,1] for the point at t=%r" % (r, t)
        p = seg.pointAtTime(r)
        if math.hypot(p.x - q.x, p.y - q.y) > 1e-9 * M:
            return "line: point at the returned parameter is %r away from the query point" % math.hypot(p.x - q.x, p.y - q.y)
        # off the carrier
        nx, ny = -(pts[1][1] - pts[0][1]) / L, (pts[1][0] - pts[0][0]) / L
        far = Point(q.x + nx * off, q.y + ny * off)
        if off > 1e-6 * L * 1.01 + 1e-11 * M and seg.tOfPoint(far) != -1:
            return "line: a point %r away from the carrier (> 1e-6 * length) does not yield -1" % off
        return None
    if n == 3:
        xs = [p[0] for p in pts]
        ys = [p[1] for p in pts]
        r = seg.tOfPoint(q)
        if r == -1 and (len(set(xs)) == 1 or len(set(ys)) == 1):
            return "K5"
        if r == -1 and (t <= 1e-9 or t >= 1 - 1e-9):
            return "K8"
        if not (0 <= r <= 1):
            return "quadratic: lookup of the point at t=%r returned %r" % (t, r)
        p = seg.pointAtTime(r)
        if math.hypot(p.x - q.x, p.y - q.y) > 1e-6 * M:
            return "quadratic: point at the returned parameter is %r away from the query point" % math.hypot(p.x - q.x, p.y - q.y)
        return None
    L = seg.length
    if L < 1e-6 * M:
        return "skip"
    r = seg.tOfPoint(q)
    if not (0 <= r <= 1):
        return "cubic: parameter %r outside [0,1]" % r
    p = seg.pointAtTime(r)
    if math.hypot(p.x - q.x, p.y - q.y) > 0.02 * L + 1e-9 * M:
        return "cubic: point at the returned parameter is %r away from the query point (> 2%% of the length %r)" % (math.hypot(p.x - q.x, p.y - q.y), L)
    return None


def self_overlapping(pts):
    """collinear control polygon that doubles back (the cubic retraces itself)"""
    (x0, y0), (x3, y3) = pts[0], pts[-1]
    cross = [abs((p[0] - x0) * (y3 - y0) - (p[1] - y0) * (x3 - x0)) for p in pts[1:-1]]
    return all(c < 1e-9 * max(1.0, oc.maxabs(pts)) ** 2 for c in cross)


def search(ctx, budget):
    rng = ctx.rng
    n = 400 * ctx.scale * budget
    seen = set()
    nontriv = skipped = 0
    viol, samples = [], []
    for i in range(n):
        order = 2 + i % 3
        fam = ["int", "grid", "arch", "elevated", "dyadic", "float", "arch", "short"][(i // 3) % 8]
        if fam == "short":
            # curves 1 .. 15 units long: the arc-length lookup table has only a handful of entries (F23)
            k = rng.choice([16.0, 8.0, 4.0])
            pts = [(x / k, y / k) for x, y in oc.rand_seg_pts(rng, order, "int")]
        else:
            pts = oc.rand_seg_pts(rng, order, fam)
        if order == 3 and rng.random() < 0.1:
            x = float(rng.randint(-50, 50))
            pts = [(x, pts[0][1]), (x, pts[1][1]), (x, pts[2][1])]     # constant in x (K5 family)
        if order == 4 and self_overlapping(pts):
            skipped += 1
            continue
        t = oc.rand_t(rng)
        off = 10 ** rng.uniform(-5, 2)
        if order == 2 and (i // 3) % 4 == 1:
            # a short line far from the origin, queried just off one of its END points: closer to the end point than 1e-9 of the
            # coordinates, yet farther from the carrier than 1e-6 of the length
            o = rng.choice([4e4, 2.0 ** 20, -3e5])
            dx, dy = float(rng.randint(-9, 9)), float(rng.randint(1, 9))
            pts = [(o, o * 0.75), (o + dx, o * 0.75 + dy)]
            L_ = math.hypot(dx, dy)
            t = float(rng.randrange(2))
            off = rng.uniform(2.0e-6 * L_, max(2.1e-6 * L_, 4e-10 * abs(o)))
        if order == 3 and (i // 3) % 4 == 2:
            # the point where x or y is stationary (a double root of the coordinate equation the lookup solves), or next to it
            k = rng.randrange(2)
            a_, b_, c_ = pts[0][k], pts[1][k], pts[2][k]
            den = a_ - 2 * b_ + c_
            if den != 0 and 0.02 < (a_ - b_) / den < 0.98:
                t = (a_ - b_) / den + rng.choice([0.0, 0.0, 1e-9, -1e-9, 1e-6, -3e-5])
        if order == 2 and (i // 3) % 8 == 6:
            # a line shorter than one unit
            k = rng.choice([64.0, 256.0, 1024.0])
            pts = [(pts[0][0], pts[0][1]), (pts[0][0] + (pts[1][0] - pts[0][0]) / (k * 8), pts[0][1] + (pts[1][1] - pts[0][1]) / (k * 8))]
        inp = {"pts": pts, "t": t, "off": off}
        msg = check_case(pts, t, off)
        if msg == "skip":
            skipped += 1
            continue
        key = (tuple(pts), t)
        if key not in seen:
            seen.add(key)
            if 0 < t < 1 and len(set(pts)) > 1:
                nontriv += 1
        if msg:
            viol.append({"what": msg, "input": inp})
            if len([v for v in viol if v["what"] not in ("K5", "K8")]) >= 5:
                break
        if len(samples) < 3:
            samples.append(inp)
    return {"evaluations": i + 1, "distinct_nontrivial": nontriv, "skipped": skipped, "samples": samples}, viol


def classify(v, entry):
    return entry["id"] in ("K5", "K8") and v.get("what") == entry["id"]


def replay(v):
    inp = v["input"]
    r = check_case([tuple(p) for p in inp["pts"]], inp["t"], inp["off"])
    return r is not None and r != "skip"
