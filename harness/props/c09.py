"""C09 — affine maps commute with evaluation and compose in call order."""
import math
from fractions import Fraction as F
from .. import tv
from ..oracles import common as oc
from beziers.point import Point
from beziers.affinetransformation import AffineTransformation

ID = "C09"
TOPICS = ["Affine", "Eval"]
LEAN_TARGETS = ["BezierVerif.Props.C09", "BezierVerif.Props.C05"]   # C05 holds aligned_ends / aligned_y_zero_iff (the alignment clause)
TV_DEFS = ["point_transformed", "at_apply", "at_apply_backwards", "at_translation", "at_scaling2", "at_scaling1",
           "at_reflection", "at_rotation", "at_translate", "at_scale2", "at_reflect", "at_rotate", "at_invert",
           "line_transformed", "quad_transformed", "cubic_transformed", "cubic_translated", "quad_translated",
           "line_translated", "cubic_scaled", "quad_scaled", "line_scaled", "point_rotated", "alignmentTransformation"]
RULE = ("random sequences (length 1..6) of translate/scale/reflect/rotate calls with arguments from "
        "{0, +-1, +-2, 1/2, integers, floats}, applied to random points and segments; reference = exact composition in "
        "call order (rotations use the float cos/sin of the same angle, lifted exactly); non-trivial = at least two "
        "calls, one of them not a translation; distinct = distinct (sequence, point) pairs")
UNPROVED = ["float residuals of the composed matrices (sampled, tolerance 1e-9 relative)"]
ASSUMPTIONS = ["math.cos / math.sin / math.atan2 are the real functions (theorems over ℝ use Real.cos, Real.sin, Complex.arg)",
               "matrices reachable through the API are affine (bottom row 0 0 1) — proved for every composer (composers_affine, scale_affine, rotate_affine)"]
LEVEL_TEXT = ("theorems about definitions regenerated from affinetransformation.py/point.py/segment.py: transformed/translated/scaled segments "
              "commute with evaluation for every matrix; apply/apply_backwards are the two 3x3 matrix products (Mathlib Matrix); translate/scale/"
              "reflect/rotate act in call order on affine matrices, scaling per axis for all factors including 0; invert is a two-sided inverse iff "
              "det != 0 and the isclose guard is exactly det = 0; rotation matrix over ℝ. Polar-form Point.rotated and alignment: sampled + partial theorems")
LEVEL_NOTE = ("trusted: Lean kernel, axioms {propext, Classical.choice, Quot.sound}, the tracing translator (validated per run), "
              "real-number semantics of cos/sin/atan2/sqrt; float rounding sampled")
TECHNIQUE = "symbolic tracing to Lean; ring/field_simp proofs, Mathlib Matrix product; exact-rational composition oracle"
TOL = 1e-9


def correspondence(ctx):
    stats, dis = tv.validate(TV_DEFS, ctx.rng, 12 * ctx.scale)
    stats["distinct_nontrivial"] = 0
    return stats, dis


def rand_factor(rng):
    return rng.choice([0.0, 0.0, 1.0, -1.0, 2.0, -2.0, 0.5, 3.0, float(rng.randint(-5, 5)), rng.uniform(-4, 4),
                       2.0 ** -16, -2.0 ** -17, 1e-5, 2.0 ** 12])       # also very small / large factors: determinants of 1e-10 are still invertible


def rand_ops(rng):
    ops = []
    for _ in range(rng.randint(1, 6)):
        k = rng.choice(["translate", "scale", "scale1", "reflect", "rotate"])
        if k == "translate":
            ops.append([k, float(rng.randint(-50, 50)), float(rng.randint(-50, 50))])
        elif k == "scale":
            ops.append([k, rand_factor(rng), rand_factor(rng)])
        elif k == "scale1":
            ops.append([k, rand_factor(rng)])
        elif k == "reflect":
            ops.append([k])
        else:
            ops.append([k, rng.choice([0.0, math.pi / 2, math.pi, -math.pi / 3, 0.5, rng.uniform(-7, 7)])])
    return ops


def ref_apply(ops, p):
    """Exact composition in call order (cos/sin: the floats Python computes, lifted exactly)."""
    x, y = F(p[0]), F(p[1])
    for op in ops:
        k = op[0]
        if k == "translate":
            x, y = x + F(op[1]), y + F(op[2])
        elif k == "scale":
            x, y = F(op[1]) * x, F(op[2]) * y
        elif k == "scale1":
            x, y = F(op[1]) * x, F(op[1]) * y
        elif k == "reflect":
            x = -x
        else:
            c, s = F(math.cos(op[1])), F(math.sin(op[1]))
            x, y = x * c - y * s, x * s + y * c
    return x, y


def build(ops):
    m = AffineTransformation()
    for op in ops:
        k = op[0]
        if k == "translate":
            m.translate(Point(op[1], op[2]))
        elif k == "scale":
            m.scale(op[1], op[2])
        elif k == "scale1":
            m.scale(op[1])
        elif k == "reflect":
            m.reflect()
        else:
            m.rotate(op[1])
    return m


def invertible(ops):
    for op in ops:
        if op[0] == "scale" and (op[1] == 0 or op[2] == 0):
            return False
        if op[0] == "scale1" and op[1] == 0:
            return False
    return True


def check_case(ops, pts, t):
    m = build(ops)
    scale = max([1.0] + [abs(c) for p in pts for c in p] + [abs(a) for op in ops for a in op[1:]])
    mag = scale
    for op in ops:
        if op[0] in ("scale", "scale1"):
            mag *= max(1.0, max(abs(a) for a in op[1:]))
        if op[0] == "translate":
            mag += abs(op[1]) + abs(op[2])
    tol = TOL * mag

    def near(p, q, k=1.0):
        return abs(F(p.x) - q[0]) <= k * tol and abs(F(p.y) - q[1]) <= k * tol
    # call order on a point
    p0 = pts[0]
    got = Point(*p0).transformed(m)
    exp = ref_apply(ops, p0)
    if not near(got, exp):
        return "maps built by successive calls do not act in call order: %r vs %s" % (got, [float(v) for v in exp])
    # transform-then-evaluate = evaluate-then-transform
    seg = oc.mkseg(pts)
    a = seg.transformed(m).pointAtTime(t)
    ex = oc.bern_pt(pts, t)
    b = ref_apply(ops, ex)
    if not near(a, b, 4):
        return "transforming a segment then evaluating differs from evaluating then transforming"
    if type(seg.transformed(m)) is not type(seg):
        return "transformed segment changes kind"
    # inverse
    if invertible(ops):
        import copy
        mi = AffineTransformation([list(r) for r in m.matrix])
        mi.invert()
        back = got.transformed(mi)
        cond = 1.0
        for op in ops:
            if op[0] in ("scale", "scale1"):
                cond *= max(1.0, max(1 / abs(a) for a in op[1:]))
        if abs(back.x - p0[0]) > TOL * mag * cond * 10 or abs(back.y - p0[1]) > TOL * mag * cond * 10:
            return "a map followed by its inverse is not the identity: %r vs %r" % (back, p0)
    return None


def check_rotate(p, c, th):
    got = Point(*p).rotated(Point(*c), th)
    dx, dy = F(p[0]) - F(c[0]), F(p[1]) - F(c[1])
    co, si = F(math.cos(th)), F(math.sin(th))
    ex = (F(c[0]) + dx * co - dy * si, F(c[1]) + dx * si + dy * co)
    tol = 1e-9 * max(1.0, abs(p[0]), abs(p[1]), abs(c[0]), abs(c[1]))
    if abs(F(got.x) - ex[0]) > tol or abs(F(got.y) - ex[1]) > tol:
        return "rotating about a centre is not the rigid counter-clockwise rotation fixing the centre: %r" % got
    return None


def check_align(pts):
    seg = oc.mkseg(pts)
    al = seg.aligned()
    chord = math.hypot(pts[-1][0] - pts[0][0], pts[-1][1] - pts[0][1])
    tol = 1e-9 * max(1.0, oc.maxabs(pts))
    if abs(al.start.x) > tol or abs(al.start.y) > tol:
        return "aligning does not send the start to the origin: %r" % al.start
    if abs(al.end.y) > tol or abs(al.end.x - chord) > tol:
        return "aligning does not send the end to (chord length, 0): %r vs %r" % (al.end, chord)
    # ... by a rigid motion: every control point goes to R(p - start), R the rotation taking the chord onto the positive x axis
    cx, cy = (pts[-1][0] - pts[0][0]) / chord, (pts[-1][1] - pts[0][1]) / chord
    for j, (q, a) in enumerate(zip(pts, al.points)):
        dx, dy = q[0] - pts[0][0], q[1] - pts[0][1]
        ex, ey = cx * dx + cy * dy, -cy * dx + cx * dy
        if abs(a.x - ex) > 10 * tol or abs(a.y - ey) > 10 * tol:
            return "aligning is not the rigid motion taking the chord onto the positive x axis: control point %d goes to %r, expected (%r, %r)" % (j, a, ex, ey)
    m = seg.alignmentTransformation()
    from beziers.point import Point
    e = Point(pts[-1][0], pts[-1][1]).transformed(m)
    if abs(e.y) > tol or abs(e.x - chord) > tol:
        return "alignmentTransformation does not send the end to (chord length, 0): %r vs %r" % (e, chord)
    return None


def check_path(pts_list, v, k, th, t):
    """path-level translate / scale / rotate commute with evaluation"""
    from beziers.path import BezierPath
    p = oc.path_from(pts_list, False)
    n = len(pts_list)
    tt = t * 0.999
    base = p.pointAtTime(tt)
    q = oc.path_from(pts_list, False)
    q.translate(Point(*v))
    a = q.pointAtTime(tt)
    tol = 1e-9 * max(1.0, max(oc.maxabs(x) for x in pts_list), abs(v[0]), abs(v[1])) * max(1.0, abs(k))
    if abs(a.x - (base.x + v[0])) > tol or abs(a.y - (base.y + v[1])) > tol:
        return "translating a path does not commute with evaluation"
    q = oc.path_from(pts_list, False)
    q.scale(k)
    a = q.pointAtTime(tt)
    if abs(a.x - base.x * k) > tol or abs(a.y - base.y * k) > tol:
        return "scaling a path does not commute with evaluation"
    q = oc.path_from(pts_list, False)
    c = (pts_list[0][0][0], pts_list[0][0][1])
    q.rotate(Point(*c), th)
    a = q.pointAtTime(tt)
    e = check_rotate((base.x, base.y), c, th)
    ex = Point(base.x, base.y).rotated(Point(*c), th)
    if e or abs(a.x - ex.x) > 10 * tol or abs(a.y - ex.y) > 10 * tol:
        return "rotating a path does not commute with evaluation"
    return None


def check_ctor(seed):
    """the constructors give a fresh, independent map every time: build one, change it in place with a composer, build another with the
    same arguments — it must be the map the first one was before it was changed (and a different object)"""
    import random
    rng = random.Random(seed)
    th = rng.choice([math.pi / 3, 0.5, -1.25, math.pi, rng.uniform(-3, 3)])
    v = Point(float(rng.randint(-9, 9)), float(rng.randint(-9, 9)))
    k = rng.choice([2.0, -1.0, 0.5, 3.0])
    ctors = [("rotation(%r)" % th, lambda: AffineTransformation.rotation(th)),
             ("translation(%r)" % ((v.x, v.y),), lambda: AffineTransformation.translation(Point(v.x, v.y))),
             ("scaling(%r)" % k, lambda: AffineTransformation.scaling(k)),
             ("reflection()", lambda: AffineTransformation.reflection()),
             ("AffineTransformation()", lambda: AffineTransformation())]
    muts = [lambda m: m.translate(Point(10.0, 20.0)), lambda m: m.scale(2.0, 3.0), lambda m: m.rotate(0.75), lambda m: m.invert(),
            lambda m: m.reflect()]
    for name, mk in ctors:
        m1 = mk()
        snap = [list(r) for r in m1.matrix]
        rng.choice(muts)(m1)
        rng.choice(muts)(m1)
        m2 = mk()
        if m2 is m1:
            return "%s returned the same object twice" % name
        if [list(r) for r in m2.matrix] != snap:
            return "%s gives %r after an earlier result of the same call was changed in place; it gave %r the first time" % (name, m2.matrix, snap)
    return None


def run_one(kind, inp):
    if kind == "ctor":
        return check_ctor(inp["seed"])
    if kind == "ops":
        return check_case(inp["ops"], [tuple(p) for p in inp["pts"]], inp["t"])
    if kind == "rotate":
        return check_rotate(tuple(inp["p"]), tuple(inp["c"]), inp["th"])
    if kind == "align":
        return check_align([tuple(p) for p in inp["pts"]])
    if kind == "path":
        return check_path([[tuple(p) for p in s] for s in inp["segs"]], tuple(inp["v"]), inp["k"], inp["th"], inp["t"])
    raise ValueError(kind)


def search(ctx, budget):
    rng = ctx.rng
    n = 600 * ctx.scale * budget
    seen = set()
    nontriv = 0
    viol = []
    samples = []
    kinds = {}
    for i in range(n):
        r = i % 10
        if r < 6:
            ops = rand_ops(rng)
            order = 2 + i % 3
            pts = oc.rand_seg_pts(rng, order, rng.choice(["int", "grid", "dyadic", "float"]))
            inp = {"ops": ops, "pts": pts, "t": oc.rand_t(rng)}
            kind = "ops"
            if len(ops) >= 2 and any(o[0] != "translate" for o in ops):
                key = repr(inp)
                if key not in seen:
                    seen.add(key)
                    nontriv += 1
        elif r == 6 and i % 40 == 6:
            inp = {"seed": rng.randrange(1 << 30)}
            kind = "ctor"
        elif r < 8:
            fam = rng.choice(["int", "float", "grid"])
            p = (oc.rand_coord(rng, fam), oc.rand_coord(rng, fam))
            c = rng.choice([p, (oc.rand_coord(rng, fam), oc.rand_coord(rng, fam))])
            inp = {"p": p, "c": c, "th": rng.choice([0.0, math.pi / 2, math.pi, rng.uniform(-7, 7)])}
            kind = "rotate"
        elif r < 9:
            pts = oc.rand_seg_pts(rng, 2 + i % 3, rng.choice(["int", "float", "grid", "collinear", "axischord", "axischord", "retracted", "arch"]))
            if pts[0] == pts[-1]:
                continue
            inp = {"pts": pts}
            kind = "align"
        else:
            segs = []
            cur = (oc.rand_coord(rng, "int"), oc.rand_coord(rng, "int"))
            for _ in range(rng.randint(1, 4)):
                pts = oc.rand_seg_pts(rng, rng.choice([2, 3, 4]), "int")
                pts[0] = cur
                cur = pts[-1]
                segs.append(pts)
            inp = {"segs": segs, "v": (float(rng.randint(-9, 9)), float(rng.randint(-9, 9))),
                   "k": rng.choice([2.0, -1.0, 0.5, 0.0, 3.0]), "th": rng.uniform(-3, 3), "t": rng.random()}
            kind = "path"
        kinds[kind] = kinds.get(kind, 0) + 1
        msg = run_one(kind, inp)
        if msg:
            viol.append({"what": msg, "kind": kind, "input": inp})
            if len(viol) >= 5:
                break
        if len(samples) < 3 and kind == "ops":
            samples.append(inp)
    return {"evaluations": i + 1, "distinct_nontrivial": nontriv, "kinds": kinds, "samples": samples}, viol


def classify(v, entry):
    return False


def replay(v):
    return run_one(v["kind"], v["input"]) is not None
