"""C12 — polygon-mode Boolean operations have exact region semantics."""
import math
from fractions import Fraction as F
from .. import drive
from ..oracles import common as oc
from ..oracles import clipcommon as cc

ID = "C12"
TOPICS = []
LEAN_TARGETS = ["BezierVerif.Props.C12"]
RULE = ("pairs of closed paths (rectangles, ellipses, circles, random simple and self-intersecting contours of lines, quadratics and cubics; disjoint, "
        "nested, touching, crossing; sizes 20..240 quick / up to 4000 thorough, within +-5000); the three operations with flat=True; 40 random query "
        "points per pair, kept only when farther than 2.01 units from both (finely flattened) input outlines; pyclipper's polygons are recorded and "
        "replayed through the model; non-trivial = outlines cross or nest; distinct = distinct (pair, operation)")
UNPROVED = ["pyclipper computes the requested even-odd Boolean combination of its integer inputs (external C++ library: ClipperSpec is assumed, and sampled through the region check)",
            "the flattening deviation (at most 2 units) — sampled: region agreement is required only farther than 2.01 units from the outlines",
            "area identities to within flattening tolerance — sampled"]
ASSUMPTIONS = ["ClipperSpec (see above)", "inputs are cloned before anything else (C07 clone_spec): checked by comparing both inputs before/after"]
LEVEL_TEXT = ("theorems for EVERY pyclipper answer: wrapEdges_closed (each result contour has one edge per vertex incl. the closing one, connected, returns to its first vertex; "
              "pinned_loses_closing_edge for the original pairwise walk), recon_flat (polygon mode: exactly the straight edges between consecutive vertices scaled back), "
              "flat_area_scaling (signed area = polygon area / precision^2), no_polygons_no_paths; model tied to clip() by replaying the recorded polygons. "
              "Region semantics rest on the ClipperSpec assumption and are sampled")
LEVEL_NOTE = "trusted: Lean kernel + Mathlib, axioms {propext, Classical.choice, Quot.sound}, hand model Model/Clip.lean (replay correspondence per run); pyclipper NOT verified"
TECHNIQUE = "hand model of the reconstruction loop over arbitrary clipper answers; list induction; exact even-odd region sampling"


def model_lines(res, log, flat):
    lines, metas = [], []
    ents = cc.lut_entries(log) if not flat else []
    lut_txt = " ".join("%s %s %s %s %s" % (drive.rat(a[0]), drive.rat(a[1]), drive.rat(b[0]), drive.rat(b[1]), oc.seg_tokens(v)) for a, b, v in ents)
    for poly, path in zip(log.get("paths", []), res):
        lines.append("model clip.recon %d fixed 100 %d %s | %s" % (flat, len(poly), " ".join("%d %d" % (v[0], v[1]) for v in poly), lut_txt))
        metas.append([oc.seg_pts(s) for s in path.asSegments()])
    return lines, metas


def correspondence(ctx, flat=True, count=10):
    rng = ctx.rng
    lines, metas = [], []
    npairs = 0
    for i in range(count * ctx.scale):
        a, b = cc.rand_pair(rng, i, lobes=True)
        op = rng.choice(list(cc.OPS))
        try:
            res, log = cc.record_clip(cc.build(a), cc.build(b), op, flat)
        except Exception as e:
            metas.append(("exc", repr(e), (a, b, op)))
            lines.append("ping")
            continue
        npairs += 1
        if len(res) != len(log.get("paths", [])):
            metas.append(("exc", "number of result paths differs from the number of clipper polygons", (a, b, op)))
            lines.append("ping")
            continue
        ls, ms = model_lines(res, log, flat)
        lines += ls
        metas += [("ok", m, (a, b, op)) for m in ms]
    replies = drive.run_lines(lines)
    dis = []
    for (kind, data, inp), rep in zip(metas, replies):
        if kind == "exc":
            dis.append({"kind": "model-vs-impl", "model": "clip.recon", "what": data, "input": inp})
            continue
        exp = oc.parse_segs(rep.split()[1:]) if rep.startswith("ok") else None
        # fallback edges are computed as (integer / 100.0) in floats: the correctly rounded quotient
        if exp is None or [[(x, y) for x, y in s] for s in data] != [[(float(x), float(y)) for x, y in s] for s in exp]:
            dis.append({"kind": "model-vs-impl", "model": "clip.recon", "input": inp, "lean": rep[:300], "impl": repr(data)[:300]})
    return {"model_compared": len(metas), "evaluations": npairs, "distinct_nontrivial": 0}, dis


def check_pair(a, b, seed):
    import random
    rng = random.Random(seed)
    A, B = cc.build(a), cc.build(b)
    beforeA = [oc.seg_pts(s) for s in A.asSegments()]
    beforeB = [oc.seg_pts(s) for s in B.asSegments()]
    fa, fb = cc.fine_polyline(A), cc.fine_polyline(B)
    res = {}
    for op in cc.OPS:
        try:
            res[op] = getattr(A, op)(B, flat=True)
        except Exception as e:
            return "%s raised %s: %s" % (op, type(e).__name__, e)
        for p in res[op]:
            segs = p.asSegments()
            if not cc.is_closed_chain(p):
                return "%s: a result path is not a closed connected chain carrying its closing edge" % op
            if any(len(s) != 2 for s in segs):
                return "%s: polygon mode returned a curve" % op
    if [oc.seg_pts(s) for s in A.asSegments()] != beforeA or [oc.seg_pts(s) for s in B.asSegments()] != beforeB:
        return "an input was modified"
    # region semantics at query points away from both outlines
    xs = [p[0] for p in fa + fb]
    ys = [p[1] for p in fa + fb]
    polys = {op: [cc.path_vertices(p) for p in res[op]] for op in res}
    tested = 0
    bxs, bys = [p[0] for p in fb], [p[1] for p in fb]
    axs, ays = [p[0] for p in fa], [p[1] for p in fa]
    cores = []
    for spec, f in ((a, fa), (b, fb)):
        if spec["kind"] == "contour":
            # the middle of a contour given segment by segment (star polygons: the core and the rings around it, wound two or three times)
            vs = [s[0] for s in spec["segs"]]
            c = (sum(v[0] for v in vs) / len(vs), sum(v[1] for v in vs) / len(vs))
            cores.append((c, 0.65 * min(math.hypot(v[0] - c[0], v[1] - c[1]) for v in vs)))
    for k in range(60 + 30 * len(cores)):
        if k >= 60:
            c, rad = cores[(k - 60) % len(cores)]
            ang, d = rng.uniform(0, 2 * math.pi), rad * math.sqrt(rng.random())
            q = (c[0] + d * math.cos(ang), c[1] + d * math.sin(ang))
        elif k < 40:
            q = (rng.uniform(min(xs) - 10, max(xs) + 10), rng.uniform(min(ys) - 10, max(ys) + 10))
        elif k < 50:
            q = (rng.uniform(min(bxs), max(bxs)), rng.uniform(min(bys), max(bys)))      # inside the argument's box (holes, nested shapes)
        else:
            q = (rng.uniform(min(axs), max(axs)), rng.uniform(min(ays), max(ays)))
        if cc.dist_poly(fa, q) <= 2.01 or cc.dist_poly(fb, q) <= 2.01:
            continue
        tested += 1
        ia, ib = cc.evenodd(fa, q), cc.evenodd(fb, q)
        want = {"union": ia or ib, "intersection": ia and ib, "difference": ia and not ib}
        for op in res:
            got = False
            for poly in polys[op]:
                if cc.evenodd(poly, q):
                    got = not got
            if got != want[op]:
                return "%s: point %r is %s the result but %s the Boolean combination of the inputs" % (
                    op, q, "inside" if got else "outside", "inside" if want[op] else "outside")
    # area identities for simple shapes
    if a["kind"] != "contour" and b["kind"] != "contour":
        def area(paths):
            return abs(sum(p.signed_area for p in paths))
        aA, aB = A.area, B.area
        tol = 2.5 * (A.length + B.length) + 1e-6
        if abs(area(res["union"]) + area(res["intersection"]) - (aA + aB)) > tol:
            return "area(A or B) + area(A and B) = %r differs from area(A) + area(B) = %r" % (area(res["union"]) + area(res["intersection"]), aA + aB)
        if abs(area(res["difference"]) - (aA - area(res["intersection"]))) > tol:
            return "area(A minus B) = %r differs from area(A) - area(A and B) = %r" % (area(res["difference"]), aA - area(res["intersection"]))
    return None


def search(ctx, budget):
    rng = ctx.rng
    n = 12 * ctx.scale * budget
    viol, samples = [], []
    seen = set()
    nontriv = 0
    for i in range(n):
        big = ctx.tier == "thorough" and rng.random() < 0.2
        if big:
            a = cc.rand_shape(rng, span=1000, sizes=(200, 2000))
            b = cc.rand_shape(rng, span=1000, sizes=(200, 2000))
        else:
            a, b = cc.rand_pair(rng, i, lobes=True)
        inp = {"a": a, "b": b, "seed": rng.randint(0, 10 ** 6)}
        if repr((a, b)) not in seen:
            seen.add(repr((a, b)))
            nontriv += 1
        msg = check_pair(a, b, inp["seed"])
        if msg:
            viol.append({"what": msg, "input": inp})
            if len(viol) >= 5:
                break
        if len(samples) < 3:
            samples.append(inp)
    return {"evaluations": i + 1, "distinct_nontrivial": nontriv, "samples": samples}, viol


def classify(v, entry):
    return False


def replay(v):
    inp = v["input"]
    return check_pair(inp["a"], inp["b"], inp["seed"]) is not None
