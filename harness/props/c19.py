"""C19 — bounding-box predicates and the sweep pairing match their definitions."""
from fractions import Fraction as F
from .. import tv, drive
from ..oracles import common as oc
from beziers.point import Point
from beziers.boundingbox import BoundingBox
from beziers.line import Line
from beziers.path import BezierPath
from beziers.utils.linesweep import bbox_intersections

ID = "C19"
TOPICS = ["Box"]
LEAN_TARGETS = ["BezierVerif.Props.C19"]
TV_DEFS = ["bbox_includes", "bbox_overlaps", "bbox_area", "bbox_extend_point", "bbox_extend_first"]
RULE = ("boxes with integer corners in [-30,30] (many ties, zero width/height), points on/inside/outside; collections of "
        "0..40 shapes per side (lines, single-segment paths) whose x-ranges overlap in positive length or are disjoint "
        "(ties in x kept: boxes touching in x, several zero-width boxes at one x); non-trivial = at least one overlapping and one non-overlapping pair; distinct = distinct inputs")
UNPROVED = ["'each exactly once' — checked on every generated collection (multiset comparison), not a theorem yet",
            "that Python's sorted() yields a key-sorted permutation of the instruction list (assumed; the completeness theorem holds for every such ordering)"]
ASSUMPTIONS = ["float comparisons taken as real comparisons", "shapes are distinct objects (`!=` on the active list is identity or value inequality)"]
LEVEL_TEXT = ("includes_iff / overlaps_iff / overlaps_symm are theorems about definitions regenerated from boundingbox.py (all boxes, degenerate "
              "ones included). Sweep: hand model of the event loop with the generated overlap test plugged in; sweep_sound (every emitted pair is "
              "an A x B pair whose closed ranges intersect) for every event order; sweep_complete for every key-sorted ordering of the instructions "
              "for closed overlap, ties in x included (sweep_complete_closed: instructions ordered by x and, at equal x, additions before removals; pinned_tie_counterexample: F27; sweep_once / sweep_once_sorted: no pair is reported twice, for every order of the code's instruction list); model tied to linesweep.py by output-for-output correspondence")
LEVEL_NOTE = ("trusted: Lean kernel, axioms {propext, Classical.choice, Quot.sound}, translator, hand model Model/Sweep.lean (+ List.mergeSort as "
              "the model of sorted(), compared output-for-output per run)")
TECHNIQUE = "symbolic tracing to Lean + split_ifs/linarith; list induction over the event sequence"


class Shape:
    """minimal shape with a bounds() method; bbox_intersections only needs that"""
    def __init__(self, l, b, r, t, tag):
        self.box = (l, b, r, t)
        self.tag = tag

    def bounds(self):
        bb = BoundingBox()
        bb.bl = Point(self.box[0], self.box[1])
        bb.tr = Point(self.box[2], self.box[3])
        return bb


def real_shape(l, b, r, t, tag, as_line, special=None):
    """a real library object with that bounding box (collections are homogeneous: all segments or all paths)"""
    if special is not None:
        from beziers.cubicbezier import CubicBezier
        s = CubicBezier(*[Point(x, y) for x, y in special])
        s.tag = tag
        return s
    if as_line:
        s = Line(Point(l, b), Point(r, t))
    else:
        s = BezierPath.fromSegments([Line(Point(l, b), Point(r, t))])
    s.tag = tag
    return s


def rand_boxes(rng, n):
    out = []
    for _ in range(n):
        l = rng.randint(-30, 30)
        b = rng.randint(-30, 30)
        w = rng.choice([0, 0, 1, 2, 5, 10, rng.randint(0, 30)])
        h = rng.choice([0, 0, 1, 2, 5, 10, rng.randint(0, 30)])
        out.append((float(l), float(b), float(l + w), float(b + h)))
    return out


def x_generic(A, B):
    """quantifier: x-ranges overlap in positive length or are disjoint"""
    for a in A:
        for b in B:
            lo, hi = max(a[0], b[0]), min(a[2], b[2])
            if lo == hi:
                return False
    return True


def draw_collections(rng):
    for _ in range(200):
        nA, nB = rng.randint(0, 12), rng.randint(0, 12)
        if rng.random() < 0.15:
            nA, nB = rng.randint(0, 40), rng.randint(0, 40)
        A, B = rand_boxes(rng, nA), rand_boxes(rng, nB)
        if rng.random() < 0.45:
            # the same shape twice in one collection (a contour pasted twice): two distinct objects that compare equal by value;
            # both pairs belong to the answer
            for C in (A, B):
                if C and rng.random() < 0.7:
                    for _ in range(rng.randint(1, 2)):
                        C.insert(rng.randrange(len(C) + 1), C[rng.randrange(len(C))])
        if rng.random() < 0.25:
            # a line and a cubic that begins with the line's two points (a handle drawn as a line): equal as far as the line goes, different
            # segments with different boxes — the cubic reaches further right
            C = A if rng.random() < 0.5 else B
            l, b = float(rng.randint(-30, 10)), float(rng.randint(-30, 10))
            w, h = float(rng.randint(2, 8)), float(4 * rng.randint(1, 5))
            ext = float(rng.randint(5, 25))
            C.append((l, b, l + w, b + h))
            ctrl = [(l, b), (l + w, b + h), (l + w + ext, b + h), (l + w + 2 * ext, b)]
            C.insert(rng.randrange(len(C) + 1), (l, b, l + w + 2 * ext, b + 0.75 * h, ctrl))
        if rng.random() < 0.2:
            # two boxes equal up to a few 1e-7 (segments that compare equal as values although one reaches further right), and a shape that
            # begins in the gap between their right edges (F30)
            l, b = float(rng.randint(-30, 10)), float(rng.randint(-30, 10))
            w, h = float(rng.randint(500, 1500)), float(rng.randint(2, 20))
            C, D = (A, B) if rng.random() < 0.5 else (B, A)
            C.append((l, b, l + w, b + h))
            C.append((l, b, l + w + 5e-7, b + h))
            D.append((l + w + 3e-7, b, l + w + 400.0, b + h))
        return A, B          # x ties (boxes touching in x, zero-width boxes at one x) are part of the quantifier since F27
    return [], []


def run_impl(A, B, rng=None, real=False):
    if real:
        ka, kb = rng.random() < 0.5, rng.random() < 0.5
        # a box given with five entries stands for a cubic (its control points are the fifth entry): segments of different kinds in
        # one collection, the collection is then made of segments
        ka = ka or any(len(a) == 5 for a in A) or (len(set(A)) < len(A) and rng.random() < 0.8)     # repeated shapes: mostly as segments (value-equal objects)
        kb = kb or any(len(b) == 5 for b in B) or (len(set(B)) < len(B) and rng.random() < 0.8)
        sa = [real_shape(*a[:4], ("a", i), ka, a[4] if len(a) == 5 else None) for i, a in enumerate(A)]
        sb = [real_shape(*b[:4], ("b", i), kb, b[4] if len(b) == 5 else None) for i, b in enumerate(B)]
    else:
        sa = [Shape(*a[:4], ("a", i)) for i, a in enumerate(A)]
        sb = [Shape(*b[:4], ("b", i)) for i, b in enumerate(B)]
    res = bbox_intersections(sa, sb)
    return ["%s%d:%s%d" % (o.tag[0], o.tag[1], o2.tag[0], o2.tag[1]) for o, o2 in res]


def model_corr(ctx):
    rng = ctx.rng
    lines, cases = [], []
    for i in range(40 * ctx.scale):
        A, B = draw_collections(rng)
        args = [c for b in A + B for c in b[:4]]
        lines.append("model sweep %d %s" % (len(A), " ".join(drive.rat(a) for a in args)))
        cases.append((A, B))
    replies = drive.run_lines(lines)
    dis = []
    for (A, B), rep in zip(cases, replies):
        try:
            got = run_impl(A, B)
        except Exception as e:
            got = ["EXC:" + type(e).__name__]
        exp = rep.split()[1:] if rep.startswith("ok") else ["?" + rep]
        if got != exp:
            dis.append({"kind": "model-vs-impl", "model": "sweep", "A": A, "B": B, "lean": exp[:20], "impl": got[:20]})
    return {"model_compared": len(cases)}, dis


def correspondence(ctx):
    stats, dis = tv.validate(TV_DEFS, ctx.rng, 40 * ctx.scale, families=["int", "degenerate", "dyadic", "float"])
    m, d2 = model_corr(ctx)
    stats.update(m)
    stats["distinct_nontrivial"] = 0
    return stats, dis + d2


def mkbox(b):
    bb = BoundingBox()
    bb.bl = Point(b[0], b[1])
    bb.tr = Point(b[2], b[3])
    return bb


def check_pred(b1, b2, p):
    inc = mkbox(b1).includes(Point(*p))
    exp = b1[0] <= p[0] <= b1[2] and b1[1] <= p[1] <= b1[3]
    if bool(inc) != exp:
        return "includes(%r, %r) = %r but the point %s in the closed ranges" % (b1, p, inc, "lies" if exp else "does not lie")
    ov = mkbox(b1).overlaps(mkbox(b2))
    expo = max(b1[0], b2[0]) <= min(b1[2], b2[2]) and max(b1[1], b2[1]) <= min(b1[3], b2[3])
    if bool(ov) != expo:
        return "overlaps(%r, %r) = %r, closed ranges %s" % (b1, b2, ov, "intersect" if expo else "do not intersect")
    if bool(mkbox(b2).overlaps(mkbox(b1))) != bool(ov):
        return "overlaps is not symmetric on %r, %r" % (b1, b2)
    return None


def check_sweep(A, B, seed):
    import random
    rng = random.Random(seed)
    try:
        got = run_impl(A, B, rng, real=True)
    except Exception as e:
        return "bbox_intersections raised %s: %s" % (type(e).__name__, e)
    exp = set()
    for i, a in enumerate(A):
        for j, b in enumerate(B):
            if max(a[0], b[0]) <= min(a[2], b[2]) and max(a[1], b[1]) <= min(a[3], b[3]):
                exp.add(frozenset(["a%d" % i, "b%d" % j]))
    gotsets = [frozenset(g.split(":")) for g in got]
    if len(gotsets) != len(set(gotsets)):
        return "a pair is reported more than once"
    if set(gotsets) != exp:
        miss = exp - set(gotsets)
        extra = set(gotsets) - exp
        return "sweep pairing differs from the all-pairs filter: missing %s extra %s" % (
            [sorted(m) for m in list(miss)[:3]], [sorted(m) for m in list(extra)[:3]])
    return None


def run_one(kind, inp):
    if kind == "pred":
        return check_pred(tuple(inp["b1"]), tuple(inp["b2"]), tuple(inp["p"]))
    return check_sweep([tuple(a) for a in inp["A"]], [tuple(b) for b in inp["B"]], inp.get("seed", 0))


def search(ctx, budget):
    rng = ctx.rng
    n = 800 * ctx.scale * budget
    viol, samples = [], []
    seen = set()
    nontriv = 0
    redraw = 0
    for i in range(n):
        if i % 4:
            b1, b2 = rand_boxes(rng, 2)
            if rng.random() < 0.3:
                b1 = (b1[0], b1[1], b1[0], b1[1])
            elif rng.random() < 0.35:
                # non-dyadic floats (tenths, thirds, uniform) with the two boxes touching exactly along an edge or at a corner:
                # the closed-interval definition is decided by an exact equality of two doubles, any re-association of the test is not
                f = rng.choice([lambda: rng.randint(-300, 300) / 10.0, lambda: rng.randint(-90, 90) / 3.0, lambda: rng.uniform(-100, 100)])
                xs, ys = sorted(f() for _ in range(3)), sorted(f() for _ in range(3))
                x2 = sorted(f() for _ in range(2))
                y2 = sorted(f() for _ in range(2))
                k = rng.randrange(4)
                if k == 0:
                    b1, b2 = (xs[0], y2[0], xs[2], ys[1]), (x2[0], ys[1], x2[1], ys[2])        # b2 sits on b1's top edge level
                elif k == 1:
                    b1, b2 = (xs[0], ys[0], xs[1], ys[2]), (xs[1], y2[0], xs[2], y2[1])        # b2 starts at b1's right edge
                elif k == 2:
                    b1, b2 = (xs[0], ys[0], xs[1], ys[1]), (xs[1], ys[1], xs[2], ys[2])        # corner to corner
                else:
                    b1, b2 = (xs[0], ys[1], xs[2], ys[1]), (x2[0], ys[0], x2[1], ys[1])        # zero-height box on b2's top edge
                norm = lambda b: (min(b[0], b[2]), min(b[1], b[3]), max(b[0], b[2]), max(b[1], b[3]))
                b1, b2 = norm(b1), norm(b2)
                if rng.random() < 0.5:
                    b1, b2 = b2, b1
            p = rng.choice([(float(rng.randint(-35, 65)), float(rng.randint(-35, 65))), (b1[0], b1[1]), (b1[2], b1[3]),
                            ((b1[0] + b1[2]) / 2, (b1[1] + b1[3]) / 2), (b1[0], (b1[1] + b1[3]) / 2)])
            inp = {"b1": b1, "b2": b2, "p": p}
            kind = "pred"
        else:
            A, B = draw_collections(rng)
            inp = {"A": A, "B": B, "seed": rng.randint(0, 10 ** 6)}
            kind = "sweep"
        key = repr(inp)
        if key not in seen:
            seen.add(key)
            nontriv += 1
        msg = run_one(kind, inp)
        if msg:
            viol.append({"what": msg, "kind": kind, "input": inp})
            if len(viol) >= 5:
                break
        if len(samples) < 4 and i % 4 in (0, 1):
            samples.append(inp)
    return {"evaluations": i + 1, "distinct_nontrivial": nontriv, "samples": samples}, viol


def classify(v, entry):
    return False


def replay(v):
    return run_one(v["kind"], v["input"]) is not None
