"""C17 — flattening yields an on-curve polyline from start to end."""
import math
from fractions import Fraction as F
from .. import drive
from ..oracles import common as oc
from beziers.point import Point
from beziers.line import Line
from beziers.path import BezierPath

ID = "C17"
TOPICS = ["Eval"]
LEAN_TARGETS = ["BezierVerif.Props.C16", "BezierVerif.Props.C17"]
RULE = ("segments of the three kinds (incl. quadratics with very uneven parametrisation: control point close to an end) and paths of 1..5 segments; "
        "steps d from {0.5, 1, 2, 8, 25, 100} and d = length/k (length close to a multiple of the step); the sample points the implementation used are "
        "recorded and replayed through the model; non-trivial = a curve at least d long; distinct = distinct (segment, d)")
UNPROVED = ["edge count of the cubic's regular sampling (depends on the lookup table never running out: walk_length gives the count under that hypothesis; "
            "the hypothesis itself inherits quadrature accuracy) — sampled", "that `_orig` is set on every edge (object attribute, checked on every generated case)"]
ASSUMPTIONS = ["sample lists start at parameter 0 and end at 1 (C16: regular_total; `sample` appends the end point)"]
LEVEL_TEXT = ("theorems about joinLines over any sample list: joinLines_chain / flatten_on_curve (a connected chain of Line segments from the curve's start to its end, "
              "every vertex the curve's point at a listed parameter), joinLines_length, cubic_edge_count / cubic_edge_count_bound (CubicBezier.flatten: one edge per target arc length of regularSampleTValue but at most one; more than L/(2d) edges when L > 2d, given that the lookup table's last entry reaches every target), chord_chain, chain_append (path = concatenation), quad_edge_count, walk_length; "
              "with C16's regular_total / regular_nondecreasing for the parameter lists. Model tied to the flatten methods by replaying the recorded sample points")
LEVEL_NOTE = "trusted: Lean kernel + Mathlib, axioms {propext, Classical.choice, Quot.sound}, hand model (correspondence per run)"
TECHNIQUE = "hand model over arbitrary sample lists; list induction"


def record_flatten(seg, d):
    """flatten with the sample points recorded (regularSample for cubics, sample for quadratics)"""
    rec = {}
    for name in ("regularSample", "sample"):
        orig = getattr(seg, name)

        def wrapped(n, orig=orig, name=name):
            r = orig(n)
            rec["pts"] = [(p.x, p.y) for p in r]
            rec["which"] = name
            return r
        setattr(seg, name, wrapped)
    tvals = {}
    origt = seg.regularSampleTValue

    def wt(n):
        r = origt(n)
        tvals["ts"] = list(r)
        return r
    seg.regularSampleTValue = wt
    try:
        out = seg.flatten(d)
    finally:
        for name in ("regularSample", "sample", "regularSampleTValue"):
            try:
                delattr(seg, name)
            except AttributeError:
                pass
    return out, rec, tvals


def rand_curve(rng):
    order = rng.choice([3, 4, 4])
    fam = rng.choice(["int", "grid", "float", "scurve", "axishandles", "teardrop", "retracted"])
    pts = oc.rand_seg_pts(rng, order, fam)
    if order == 3 and rng.random() < 0.4:
        a, c = pts[0], pts[2]
        pts[1] = (a[0] + (c[0] - a[0]) * 0.02, a[1] + (c[1] - a[1]) * 0.02 + 1.0)   # very uneven parametrisation
    return pts


def pick_d(rng, L):
    r = rng.random()
    if r < 0.5 or L <= 0:
        return rng.choice([0.5, 1.0, 2.0, 8.0, 25.0, 100.0])
    return max(0.5, min(100.0, L / rng.randint(1, 12)))


def correspondence(ctx):
    rng = ctx.rng
    lines, metas = [], []
    for i in range(25 * ctx.scale):
        pts = rand_curve(rng)
        seg = oc.mkseg(pts)
        d = pick_d(rng, seg.length)
        if seg.length / d > 400:
            continue
        out, rec, _ = record_flatten(seg, d)
        if "pts" in rec:
            flat = [c for p in rec["pts"] for c in p]
            lines.append("model sample.joinLines " + " ".join(drive.rat(c) for c in flat))
            metas.append((pts, d, [oc.seg_pts(s) for s in out]))
    replies = drive.run_lines(lines)
    dis = []
    for (pts, d, got), rep in zip(metas, replies):
        exp = oc.parse_segs(rep.split()[1:]) if rep.startswith("ok") else None
        if exp is None or [[(F(x), F(y)) for x, y in s] for s in got] != exp:
            dis.append({"kind": "model-vs-impl", "model": "sample.joinLines", "pts": pts, "d": d, "lean": rep[:200], "impl": repr(got)[:200]})
    return {"model_compared": len(metas), "evaluations": len(metas), "distinct_nontrivial": 0}, dis


def check_segment(pts, d):
    seg = oc.mkseg(pts)
    before = repr(seg)
    L = seg.length
    if len(pts) > 2 and L / d > 2000:
        return "skip"
    try:
        if len(pts) == 2:
            out = seg.flatten(d)
            if len(out) != 1 or out[0] is not seg:
                return "a line is not returned unchanged by flatten"
            return None
        # record evaluation parameters
        tlog = []
        orig = seg.pointAtTime

        def spy(t):
            tlog.append(t)
            return orig(t)
        seg.pointAtTime = spy
        try:
            out, rec, tv = record_flatten(seg, d)
        finally:
            del seg.pointAtTime
    except (IndexError, ZeroDivisionError, ValueError) as e:
        return "flatten raised %s: %s" % (type(e).__name__, e)
    if repr(seg) != before:
        return "flatten modified the original segment"
    if not out:
        return "flatten returned no edges"
    if not all(isinstance(e, Line) for e in out):
        return "flatten returned something that is not a Line"
    if (out[0].start.x, out[0].start.y) != pts[0] or (out[-1].end.x, out[-1].end.y) != pts[-1]:
        return "polyline does not run from the original start to the original end: %r .. %r" % (out[0].start, out[-1].end)
    for a, b in zip(out, out[1:]):
        if (a.end.x, a.end.y) != (b.start.x, b.start.y):
            return "polyline is not connected"
    if L < d:
        if len(out) != 1:
            return "a curve shorter than the step did not become its chord"
        if getattr(out[0], "_orig", None) is not seg:
            return "the chord of a short curve does not remember the curve as its origin"
        return None
    if len(out) <= L / (2 * d):
        return "a curve of length %r was divided into %d edges, not more than length/(2d) = %r" % (L, len(out), L / (2 * d))
    for e in out:
        if getattr(e, "_orig", None) is not seg:
            return "an edge obtained from a curve does not remember it as its origin"
    # vertices on the curve, parameters non-decreasing
    verts = [(out[0].start.x, out[0].start.y)] + [(e.end.x, e.end.y) for e in out]
    if "ts" in tv:
        ts = tv["ts"]
    else:
        ts = tlog[:len(verts)]
    if len(ts) < len(verts):
        return "fewer evaluation parameters than vertices"
    ts = ts[:len(verts)] if "ts" not in tv else ts
    if any(b < a for a, b in zip(ts, ts[1:])):
        return "vertex parameters are not in non-decreasing order"
    M = max(1.0, oc.maxabs(pts))
    for (x, y), t in zip(verts, ts):
        ex = oc.bern_pt(pts, t)
        if abs(F(x) - ex[0]) > 1e-9 * M or abs(F(y) - ex[1]) > 1e-9 * M:
            return "a vertex %r is not the curve's point at its parameter %r" % ((x, y), t)
    return None


def check_path(segs, d, closed=False):
    p = oc.path_from(segs, closed)
    before = [oc.seg_pts(s) for s in p.asSegments()]
    if sum(oc.mkseg(s).length for s in segs) / d > 3000:
        return "skip"
    try:
        f = p.flatten(d)
    except (IndexError, ZeroDivisionError, ValueError) as e:
        return "path flatten raised %s: %s" % (type(e).__name__, e)
    if [oc.seg_pts(s) for s in p.asSegments()] != before:
        return "flatten modified the original path"
    if f.closed != p.closed:
        return "flatten changed the closed flag (%r -> %r)" % (p.closed, f.closed)
    out = f.asSegments()
    if not out or (out[0].start.x, out[0].start.y) != segs[0][0] or (out[-1].end.x, out[-1].end.y) != segs[-1][-1]:
        return "flattened path does not run from the original start to the original end"
    for a, b in zip(out, out[1:]):
        if (a.end.x, a.end.y) != (b.start.x, b.start.y):
            return "flattened path is not connected"
    # the path is flattened segment by segment: its edges are, in order, the edges each segment's own flatten(d) gives
    # (checked in full by check_segment), every curve-derived edge remembers ITS segment of the path, lines are copies
    own = p.asSegments()
    expect = []
    for sgm in own:
        for e in sgm.flatten(d):
            expect.append((oc.seg_pts(e), sgm if len(sgm.points) > 2 else None))
    if len(out) != len(expect):
        return "flattened path has %d edges, its segments flatten to %d in all" % (len(out), len(expect))
    for e, (pts, src) in zip(out, expect):
        if not isinstance(e, Line):
            return "flattened path contains something that is not a Line"
        if oc.seg_pts(e) != pts:
            return "an edge %r of the flattened path differs from the corresponding edge %r of its segment's own flatten" % (oc.seg_pts(e), pts)
        if src is not None and getattr(e, "_orig", None) is not src:
            return "an edge of the flattened path obtained from a curve does not remember that curve as its origin (_orig = %r)" % (getattr(e, "_orig", None),)
        if any(e is o for o in own):
            return "the flattened path shares a segment object with the original"
    return None


def run_one(kind, inp):
    if kind == "seg":
        pts, d = [tuple(p) for p in inp["pts"]], inp["d"]
        return check_segment(pts, d) or oc.stale_check(pts, hash((tuple(pts), d)) & 0xFFFFFF, [("flatten(%r)" % d, lambda g: g.flatten(d))])
    segs, d = [[tuple(p) for p in s] for s in inp["segs"]], inp["d"]
    return check_path(segs, d, inp.get("closed", False)) or oc.path_stale_check(segs, inp.get("closed", False), hash(repr(segs)) & 0xFFFFFF, [
        ("flatten(%r)" % d, lambda g: tuple(seg_key(e) for e in g.flatten(d).asSegments()))])


def seg_key(e):
    return tuple((q.x, q.y) for q in e.points)


def search(ctx, budget):
    rng = ctx.rng
    n = 150 * ctx.scale * budget
    viol, samples = [], []
    seen = set()
    nontriv = skipped = 0
    for i in range(n):
        if i % 6 == 5:
            segs = []
            cur = (float(rng.randint(-100, 100)), float(rng.randint(-100, 100)))
            for _ in range(rng.randint(1, 5)):
                pts = oc.rand_seg_pts(rng, rng.choice([2, 3, 4]), "int")
                pts[0] = cur
                cur = pts[-1]
                segs.append(pts)
            closed = rng.random() < 0.5
            if closed and segs[-1][-1] != segs[0][0]:
                segs.append([segs[-1][-1], segs[0][0]] if rng.random() < 0.5 else
                            [segs[-1][-1], (float(rng.randint(-100, 100)), float(rng.randint(-100, 100))), segs[0][0]])
            inp = {"segs": segs, "d": rng.choice([0.5, 2.0, 8.0, 25.0, 100.0]), "closed": closed}
            kind = "path"
        else:
            pts = rand_curve(rng) if i % 6 else oc.rand_seg_pts(rng, 2, "int")
            L = oc.mkseg(pts).length
            inp = {"pts": pts, "d": pick_d(rng, L)}
            if i % 12 == 4 and L > 0:
                # a curve a fraction of a unit to a few units long, flattened with a step that is a fraction of its length (F33)
                k = rng.choice([64.0, 128.0, 32.0])
                pts = [(x / k, y / k) for x, y in pts]
                L = oc.mkseg(pts).length
                inp = {"pts": pts, "d": L / rng.choice([3, 5, 9])}
            kind = "seg"
        msg = run_one(kind, inp)
        if msg == "skip":
            skipped += 1
            continue
        if repr(inp) not in seen:
            seen.add(repr(inp))
            nontriv += 1
        if msg:
            viol.append({"what": msg, "kind": kind, "input": inp})
            if len(viol) >= 5:
                break
        if len(samples) < 3:
            samples.append(inp)
    return {"evaluations": i + 1, "distinct_nontrivial": nontriv, "skipped": skipped, "samples": samples}, viol


def classify(v, entry):
    return False


def replay(v):
    r = run_one(v["kind"], v["input"])
    return r is not None and r != "skip"
