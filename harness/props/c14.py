"""C14 — curve fitting honours its error bound and interpolates the end points."""
import math
from fractions import Fraction as F
from .. import drive
from ..oracles import common as oc
from beziers.point import Point
from beziers.path import BezierPath
from beziers.utils.curvefitter import CurveFit

ID = "C14"
TOPICS = []
LEAN_TARGETS = ["BezierVerif.Props.C14"]
RULE = ("point sequences of length 2..60: samples of smooth curves (with and without noise), random polylines with sharp corners, collinear points, "
        "consecutive and non-consecutive repeated points incl. a last point equal to the first, integer and float coordinates; error in [0.01, 1e4], "
        "corner tolerance in [0.1, 100], budget from {n, n+3, 2n}; every recorded run is replayed through the model (tape of the numerical answers); "
        "non-trivial = at least 3 distinct points; distinct = distinct inputs")
UNPROVED = ["'passes within sqrt(error) of every input point': acceptance tests exactly max_i |bez(u_i) - p_i| <= sqrt(error + 1e-9), so it holds with 1e-9 slack "
            "whenever the float evaluation of that test is right — sampled with a numerical closest-point search on every generated case",
            "termination of the corner re-try (the model takes fuel; no re-entry loop was observed)", "finiteness of the control points (sampled)"]
ASSUMPTIONS = ["generateBezier returns a cubic from data[0] to data[-1] and fitLine from its first to its last point (checked by the model on every replayed run: "
               "the model refuses a tape that breaks this contract)",
               "computeMaxError reports an interior worst point for non-corner rejections (checked the same way)"]
LEVEL_TEXT = ("hand model of _fitCurve's control flow with all numerics as a tape of recorded answers; fit_good: for EVERY tape (every behaviour of generateBezier / "
              "reparameterize / computeMaxError that is not degenerate) and every budget >= number of gaps, the result is a non-empty connected chain of cubics "
              "starting exactly at the first point and ending exactly at the last, with at most one cubic per gap (so within the budget); "
              "pinned_budget_counterexample / fixed_budget_example pin down the budget off-by-one; model tied to curvefitter.py by replaying recorded runs")
LEVEL_NOTE = "trusted: Lean kernel + Mathlib (ordered field), axioms {propext, Classical.choice, Quot.sound}, hand model Model/Fit.lean (decision-for-decision correspondence per run)"
TECHNIQUE = "hand model with oracle tape; induction on recursion depth over all tapes; decide +kernel counterexample"


# ----------------------------------------------------------------------------- recording a run

def record_fit(points, error, ct, budget):
    """Run CurveFit.fitCurve with every _fitCurve call recorded in pre-order."""
    records, stack = [], []
    o_fit = CurveFit.__dict__["_fitCurve"].__func__
    o_cme = CurveFit.__dict__["computeMaxError"].__func__
    o_line = CurveFit.__dict__["fitLine"].__func__
    o_clp = CurveFit.__dict__["chordLengthParameterize"].__func__

    def w_fit(cls, pts, t1, t2, err, c, ms):
        rec = {"n": len(pts), "t1": t1 is not None, "t2": t2 is not None, "budget": ms, "attempts": [], "degenerate": False}
        records.append(rec)
        stack.append(rec)
        try:
            return o_fit(cls, pts, t1, t2, err, c, ms)
        finally:
            stack.pop()

    def w_cme(cls, bez, pts, params, tol, c):
        r = o_cme(cls, bez, pts, params, tol, c)
        stack[-1]["attempts"].append(([(p.x, p.y) for p in bez.points], r[0], r[1]))
        return r

    def w_line(cls, data, a, b):
        r = o_line(cls, data, a, b)
        stack[-1]["attempts"].append(([(p.x, p.y) for p in r.points], 0.0, 0))
        return r

    def w_clp(cls, pts):
        u = o_clp(cls, pts)
        stack[-1]["degenerate"] = (u[-1] == 0.0)
        return u
    saved = {k: CurveFit.__dict__[k] for k in ("_fitCurve", "computeMaxError", "fitLine", "chordLengthParameterize")}
    CurveFit._fitCurve = classmethod(w_fit)
    CurveFit.computeMaxError = classmethod(w_cme)
    CurveFit.fitLine = classmethod(w_line)
    CurveFit.chordLengthParameterize = classmethod(w_clp)
    try:
        out = CurveFit.fitCurve([Point(*p) for p in points], error, ct, budget)
    finally:
        for k, v in saved.items():
            setattr(CurveFit, k, v)
    return out, records


def dedup_adjacent(points):
    out = []
    for p in points:
        if not out or out[-1] != p:
            out.append(p)
    return out


def wire(points_after_filter, budget, records, accounting="fixed"):
    toks = []
    for r in records:
        toks.append("D %d %d" % (r["degenerate"], len(r["attempts"])))
        for bez, ratio, sp in r["attempts"]:
            toks.append(" ".join(drive.rat(c) for p in bez for c in p) + " %s %d" % (drive.rat(ratio), sp))
    return "model fit %s %d %d %s | %s" % (accounting, budget, len(points_after_filter),
                                           " ".join(drive.rat(c) for p in points_after_filter for c in p), " ".join(toks))


# ----------------------------------------------------------------------------- generators

def gen_points(rng):
    kind = rng.choice(["smooth", "noisy", "polyline", "collinear", "adjacent-repeat", "closing", "revisit", "two", "near-duplicate", "hook"])
    n = rng.randint(2, 60) if rng.random() < 0.3 else rng.randint(2, 14)
    integer = rng.random() < 0.5

    def q(v):
        return float(round(v)) if integer else float(v)
    if kind == "two":
        pts = [(q(rng.uniform(-100, 100)), q(rng.uniform(-100, 100))) for _ in range(2)]
    elif kind in ("smooth", "noisy"):
        ctrl = oc.rand_seg_pts(rng, 4, "float")
        noise = 0.0 if kind == "smooth" else rng.choice([0.1, 1.0, 5.0])
        pts = []
        for i in range(n):
            x, y = oc.bern_pt(ctrl, F(i, max(1, n - 1)))
            pts.append((q(float(x) + rng.uniform(-noise, noise)), q(float(y) + rng.uniform(-noise, noise))))
    elif kind == "hook":
        # a gentle stroke that begins (or ends) with a short step backwards: the second sample lies BEHIND the first, beyond the end of any
        # curve fitted from the first sample onwards
        ctrl = oc.rand_seg_pts(rng, 4, "float")
        m = max(5, min(n, 9))
        pts = []
        for i in range(m):
            x, y = oc.bern_pt(ctrl, F(i, m - 1))
            pts.append((q(float(x)), q(float(y))))
        d = (pts[0][0] - pts[1][0], pts[0][1] - pts[1][1])
        L = math.hypot(*d) or 1.0
        k = rng.choice([3.0, 5.0, 8.0, 12.0])
        back = (q(pts[0][0] + d[0] / L * k), q(pts[0][1] + d[1] / L * k + rng.choice([0.0, -2.0, 1.0])))
        pts.insert(1, back)
        if rng.random() < 0.3:
            pts.reverse()
    elif kind == "collinear":
        a = (q(rng.uniform(-100, 100)), q(rng.uniform(-100, 100)))
        d = (rng.choice([1.0, 2.0, -3.0]), rng.choice([0.0, 1.0, -2.0]))
        ks = sorted(rng.sample(range(0, 200), min(n, 100)))
        if rng.random() < 0.5:
            # an exactly collinear stroke that goes out and comes back (integer data: cross products vanish exactly): the samples beyond
            # the last point are part of the stroke and must be approximated like any others
            a = (float(round(a[0])), float(round(a[1])))
            d = (rng.choice([3.0, 1.0, -2.0]), rng.choice([4.0, 1.0, 0.0, -1.0]))
            m = rng.randrange(1, len(ks)) if len(ks) > 2 else 1
            ks = ks[:m] + sorted(ks[m:], reverse=True)
            rng.random() < 0.5 and ks.append(ks[m - 1] // 2)
        pts = [(a[0] + d[0] * k, a[1] + d[1] * k) for k in ks]
    else:
        pts = [(q(rng.uniform(-200, 200)), q(rng.uniform(-200, 200))) for _ in range(n)]
        if kind == "adjacent-repeat" and len(pts) >= 2:
            k = rng.randrange(len(pts))
            pts.insert(k, pts[k])
        if kind == "near-duplicate" and len(pts) >= 2:
            # two consecutive samples that are DISTINCT but closer than 1e-9 of their magnitude (a fuzzy point comparison calls them equal);
            # sometimes the whole stroke far from the origin, where 1e-9 relative is a visible distance
            if rng.random() < 0.4:
                off = rng.choice([1e9, -3e9])
                pts = [(x / 300 + off, y / 300 + off + 2.0) for x, y in pts]
                integer = False
            k = rng.choice([len(pts) - 1, rng.randrange(len(pts))])
            x, y = pts[k]
            eps = 4e-10
            pts.insert(k + 1, (x * (1 + eps) if x else 1e-300, y * (1 - eps) if y else -1e-300))
        if kind == "closing" and len(pts) >= 3:
            pts.append(pts[0])
        if kind == "revisit" and len(pts) >= 4:
            k = rng.randrange(1, len(pts) - 1)
            pts.insert(rng.randrange(k + 1, len(pts)), pts[rng.randrange(0, k)])
    pts = pts[:60]
    if len(set(pts)) < 2:
        return gen_points(rng)
    error = rng.choice([0.01, 0.1, 1.0, 50.0, 1e4, 10 ** rng.uniform(-2, 4)])
    ct = rng.choice([0.1, 1.0, 20.0, 100.0, rng.uniform(0.1, 100)])
    if kind == "hook" and rng.random() < 0.7:
        # tolerance just below the length of the step backwards: the hooked sample is too far from a curve that starts at the first sample,
        # but close to that curve's continuation beyond its end
        error, ct = (0.8 * k) ** 2, 20.0
    budget = rng.choice([len(pts), len(pts) + 3, 2 * len(pts)])
    return {"points": pts, "error": error, "ct": ct, "budget": budget, "kind": kind}


def correspondence(ctx):
    rng = ctx.rng
    lines, metas = [], []
    for i in range(30 * ctx.scale):
        g = gen_points(rng)
        try:
            out, records = record_fit(g["points"], g["error"], g["ct"], g["budget"])
        except Exception as e:
            metas.append((g, "exc", repr(e)))
            lines.append("ping")
            continue
        if out is None:
            continue
        filt = dedup_adjacent(g["points"])
        lines.append(wire(filt, g["budget"], records))
        metas.append((g, out, records))
    replies = drive.run_lines(lines)
    dis = []
    ncalls = 0
    for (g, out, records), rep in zip(metas, replies):
        if out == "exc":
            dis.append({"kind": "model-vs-impl", "model": "fit", "what": "implementation raised " + records, "input": g})
            continue
        ncalls += len(records)
        got = [oc.seg_pts(s) for s in out]
        if not rep.startswith("ok"):
            dis.append({"kind": "model-vs-impl", "model": "fit", "what": "model refuses the recorded run (oracle contract broken or control flow differs): " + rep[:100], "input": g})
            continue
        toks = rep.split()
        left = int(toks[1])
        exp = oc.parse_segs(toks[2:])
        if left != 0 or [[(F(x), F(y)) for x, y in s] for s in got] != exp:
            dis.append({"kind": "model-vs-impl", "model": "fit", "what": "output or tape consumption differs (unused tape entries: %d)" % left,
                        "input": g, "lean": rep[:300], "impl": repr(got)[:300]})
    return {"model_compared": ncalls, "evaluations": len(metas), "distinct_nontrivial": 0}, dis


# ----------------------------------------------------------------------------- property oracle

def dist_to_cubic(pts, p):
    """numerical closest distance from p to the cubic with control points pts"""
    def d2(t):
        mt = 1 - t
        x = mt ** 3 * pts[0][0] + 3 * mt * mt * t * pts[1][0] + 3 * mt * t * t * pts[2][0] + t ** 3 * pts[3][0]
        y = mt ** 3 * pts[0][1] + 3 * mt * mt * t * pts[1][1] + 3 * mt * t * t * pts[2][1] + t ** 3 * pts[3][1]
        return (x - p[0]) ** 2 + (y - p[1]) ** 2
    N = 256
    vals = [d2(i / N) for i in range(N + 1)]
    best = min(vals)
    cand = sorted(range(N + 1), key=lambda i: vals[i])[:4]
    for i in cand:
        lo, hi = max(0.0, (i - 1) / N), min(1.0, (i + 1) / N)
        for _ in range(60):
            m1, m2 = lo + (hi - lo) * 0.382, lo + (hi - lo) * 0.618
            if d2(m1) < d2(m2):
                hi = m2
            else:
                lo = m1
        best = min(best, d2((lo + hi) / 2))
    return math.sqrt(best)


def check(g):
    pts = [tuple(p) for p in g["points"]]
    try:
        path = BezierPath.fromPoints([Point(*p) for p in pts], error=g["error"], cornerTolerance=g["ct"], maxSegments=g["budget"])
        segs = path.asSegments()
    except Exception as e:
        return "fromPoints raised %s: %s" % (type(e).__name__, e)
    if not segs:
        return "no segments returned for %d points (%d distinct)" % (len(pts), len(set(pts)))
    if len(segs) > g["budget"]:
        return "%d segments exceed the budget %d" % (len(segs), g["budget"])
    sp = [oc.seg_pts(s) for s in segs]
    if any(len(s) != 4 for s in sp):
        return "a returned segment is not a cubic"
    for s in sp:
        for c in s:
            if not (math.isfinite(c[0]) and math.isfinite(c[1])):
                return "a control point is not finite"
    if sp[0][0] != pts[0]:
        return "chain starts at %r, not exactly at the first point %r" % (sp[0][0], pts[0])
    if sp[-1][-1] != pts[-1]:
        return "chain ends at %r, not exactly at the last point %r" % (sp[-1][-1], pts[-1])
    for a, b in zip(sp, sp[1:]):
        if a[-1] != b[0]:
            return "chain is not connected"
    tol = math.sqrt(g["error"])
    for p in pts:
        d = min(dist_to_cubic(s, p) for s in sp)
        if d > tol * (1 + 1e-6) + 1e-6:
            return "input point %r is %r away from the chain (> sqrt(error) = %r)" % (p, d, tol)
    return None


def search(ctx, budget):
    rng = ctx.rng
    n = 120 * ctx.scale * budget
    viol, samples = [], []
    seen = set()
    nontriv = 0
    kinds = {}
    for i in range(n):
        g = gen_points(rng)
        kinds[g["kind"]] = kinds.get(g["kind"], 0) + 1
        if len(set(map(tuple, g["points"]))) >= 3 and repr(g) not in seen:
            seen.add(repr(g))
            nontriv += 1
        msg = check(g)
        if msg:
            viol.append({"what": msg, "input": g})
            if len(viol) >= 5:
                break
        if len(samples) < 3:
            samples.append(g)
    # sharp small-integer zig-zags with a corner tolerance far below the point spacing: cheap (4 .. 6 points), so many of them — the
    # re-fit loop's corner / hook outcomes are rare (a few per thousand)
    extra = 0
    for j in range(1600 * ctx.scale * budget if len(viol) < 5 else 0):
        m = rng.randint(4, 6)
        pts = [(float(rng.randint(0, 20)), float(rng.randint(0, 20))) for _ in range(m)]
        if len(set(pts)) < m:
            continue
        g = {"points": pts, "error": rng.choice([9.0, 16.0, 25.0, 36.0]), "ct": rng.choice([0.1, 0.5]), "budget": rng.choice([m, m + 2, 2 * m]), "kind": "zigzag"}
        extra += 1
        msg = check(g)
        if msg:
            viol.append({"what": msg, "input": g})
            if len(viol) >= 5:
                break
    kinds["zigzag"] = extra
    return {"evaluations": i + 1 + extra, "distinct_nontrivial": nontriv + extra, "kinds": kinds, "samples": samples}, viol


def classify(v, entry):
    return False


def replay(v):
    return check(v["input"]) is not None
