"""C20 — reported minimum distances are realised distances."""
import math
from fractions import Fraction as F
from .. import tv, drive
from ..oracles import common as oc
import beziers.utils.curvedistance as cdm
from beziers.path import BezierPath

ID = "C20"
TOPICS = ["Dist"]
LEAN_TARGETS = ["BezierVerif.Props.C20S", "BezierVerif.Props.C20"]
TV_DEFS = ["S_%d_%d" % (n, m) for n in (1, 2, 3) for m in (1, 2, 3)] + ["D_%d_%d" % (n, m) for n in (1, 2, 3) for m in (1, 2, 3)]
RULE = ("pairs of segments of all 9 kind pairs from the Appendix-B families (disjoint, touching, crossing, coincident), and pairs of "
        "paths of 1..4 segments; every recorded minDist call of the implementation is replayed through the model's single-call "
        "function on the recorded corner values; non-trivial = both polygons have >= 2 distinct points; distinct = distinct pairs")
UNPROVED = ["termination depth of the recursion for all inputs (the model takes fuel; the run reports the deepest recursion seen)",
            "math.sqrt of the squared distance (real function assumed)"]
ASSUMPTIONS = ["the hand model's single-call function mirrors curvedistance.minDist (checked per run on every recorded call)",
               "floats as reals in the comparisons of the pruning logic (the theorem holds for every outcome of the pruning)"]
LEVEL_TEXT = ("S_n_m_is_sqdist (9 theorems, ring) about the regenerated S(u,v): it equals |B1(u)-B2(v)|^2 written in Bernstein form. Hand model of "
              "minDist with S and D as parameters: minDist_good — for every S, D, tolerance, running best value and recursion depth the returned "
              "value is S(a,b) for some (a,b) in the unit square and both returned parameters lie in [0,1]; hence 0 <= dist^2 and min S <= dist^2 <= max S. "
              "Model tied to the code by replaying every recorded call of the implementation through the model's per-call function")
LEVEL_NOTE = ("trusted: Lean kernel, axioms {propext, Classical.choice, Quot.sound}, translator (S, D traced from curvedistance.py; validated per run), "
              "hand model Model/MinDist.lean (per-call correspondence on recorded inputs)")
TECHNIQUE = "symbolic tracing to Lean + ring (Bernstein product identity); induction on recursion depth over a model with S, D abstract"


def record_run(a, b):
    """Run curveDistance's finder with every minDist call recorded."""
    fd = cdm.MinimumCurveDistanceFinder(a, b)
    calls, stack = [], []
    orig = cdm.MinimumCurveDistanceFinder.minDist

    def wrapped(self, uinterval=(0, 1), vinterval=(0, 1), epsilon=0.001):
        rec = {"u": tuple(uinterval), "v": tuple(vinterval), "best": self.bestAlpha, "eps": epsilon, "children": [],
               "depth": len(stack)}
        if stack:
            stack[-1]["children"].append(rec)
        stack.append(rec)
        calls.append(rec)
        try:
            res = orig(self, uinterval, vinterval, epsilon)
        finally:
            stack.pop()
        rec["result"] = list(res)
        rec["best_exit"] = self.bestAlpha
        return res
    cdm.MinimumCurveDistanceFinder.minDist = wrapped
    try:
        res = fd.minDist()
    finally:
        cdm.MinimumCurveDistanceFinder.minDist = orig
    return fd, calls, res


def node_lines(fd, calls, n, m):
    W = max(2 * n, 2 * m) + 1
    D = [fd.D(r, k) for r in range(2 * n + 1) for k in range(W)]
    dtxt = " ".join(drive.rat(x) for x in D)
    lines = []
    for c in calls:
        (u0, u1), (v0, v1) = c["u"], c["v"]
        s = [fd.sCache[(u0, v0)], fd.sCache[(u0, v1)], fd.sCache[(u1, v0)], fd.sCache[(u1, v1)]]
        best = "none" if c["best"] is None else drive.rat(c["best"])
        lines.append("model mindist.node %d %d %d %s %s %s %s" % (
            n, m, W, drive.rat(c["eps"]), best, " ".join(drive.rat(x) for x in (u0, u1, v0, v1) + tuple(s)), dtxt))
        if c["children"]:
            rs = [x for ch in c["children"] for x in ch["result"]]
            lines.append("model mindist.combine " + " ".join(drive.rat(x) for x in rs))
    return lines


def check_nodes(calls, replies):
    """Compare the model's per-call answers with what the implementation did."""
    it = iter(replies)
    for c in calls:
        rep = next(it).split()
        res = c["result"]
        if c["children"]:
            comb = next(it).split()
            if len(c["children"]) != 4 or rep[0] != "split":
                return "implementation recursed, model says %s" % " ".join(rep)[:100]
            nu, nv = F(rep[1]), F(rep[2])
            ch = c["children"]
            exp = [((c["u"][0], nu), (c["v"][0], nv)), ((c["u"][0], nu), (nv, c["v"][1])),
                   ((nu, c["u"][1]), (c["v"][0], nv)), ((nu, c["u"][1]), (nv, c["v"][1]))]
            for e, x in zip(exp, ch):
                for (ea, eb), (xa, xb) in ((e[0], x["u"]), (e[1], x["v"])):
                    if abs(F(xa) - F(ea)) > F(1, 10 ** 12) or abs(F(xb) - F(eb)) > F(1, 10 ** 12):
                        return "child interval %r differs from the model's %s" % ((x["u"], x["v"]), [[float(a) for a in p] for p in e])
            b = None if rep[3] == "none" else F(rep[3])
            if (ch[0]["best"] is None) != (b is None) or (b is not None and F(ch[0]["best"]) != b):
                return "bestAlpha after the node differs: %r vs %s" % (ch[0]["best"], rep[3])
            if comb[0] != "ok" or [F(x) for x in comb[1:]] != [F(x) for x in res]:
                return "result %r is not the first minimal child result %s" % (res, comb[1:])
        else:
            if rep[0] != "ret":
                return "implementation returned without recursing, model says %s" % " ".join(rep)[:100]
            val, u, v = F(rep[1]), F(rep[2]), F(rep[3])
            if F(res[0]) != val or abs(F(res[1]) - u) > F(1, 10 ** 12) or abs(F(res[2]) - v) > F(1, 10 ** 12):
                return "returned %r, model returns %s" % (res, [float(val), float(u), float(v)])
            b = None if rep[4] == "none" else F(rep[4])
            if (c["best_exit"] is None) != (b is None) or (b is not None and F(c["best_exit"]) != b):
                return "bestAlpha at exit differs: %r vs %s" % (c["best_exit"], rep[4])
    return None


def rand_pair(rng):
    n, m = rng.choice([1, 2, 3]), rng.choice([1, 2, 3])
    fam = rng.choice(["int", "grid", "dyadic", "float", "collinear", "coincident"])
    a = oc.rand_seg_pts(rng, n + 1, fam)
    b = oc.rand_seg_pts(rng, m + 1, fam)
    r = rng.random()
    if r < 0.15:
        b[0] = a[-1]            # touching
    elif r < 0.25:
        b = [(x + 3000.0, y) for x, y in b]   # far apart
    elif r < 0.3 and n == m:
        b = list(a)             # coincident
    elif r < 0.4:
        # nearly touching: a copy of (a stretch of) the first operand displaced by less than 1e-3 — disjoint, distance tiny but not 0
        g = rng.choice([1e-4, 3e-4, 5e-4, 9e-4])
        ang = rng.uniform(0, 2 * math.pi)
        b = [(x + g * math.cos(ang), y + g * math.sin(ang)) for x, y in a]
        if rng.random() < 0.5 and len(a) == 2:
            b = [(b[0][0], b[0][1]), (b[1][0] + 7.0, b[1][1] + 3.0)]
    if rng.random() < 0.12:
        # far from the origin: squared coordinates dwarf the squared distance (F31)
        o = rng.choice([1e7, 1e8, -3e8])
        g = float(rng.choice([1, 2, 5]))
        a = [(x + o, y + o) for x, y in a]
        b = [(x + o, y + o + (g if k == 0 else 0.0)) for k, (x, y) in enumerate(b)]
    return a, b


def model_corr(ctx):
    rng = ctx.rng
    dis = []
    lines_all, metas = [], []
    maxdepth = 0
    ncalls = 0
    for i in range(6 * ctx.scale):
        a, b = rand_pair(rng)
        try:
            fd, calls, res = record_run(oc.mkseg(a), oc.mkseg(b))
        except RecursionError:
            dis.append({"kind": "impl-recursion-error", "a": a, "b": b})
            continue
        if len(calls) > 3000:
            calls = calls[:1]
        maxdepth = max(maxdepth, max(c["depth"] for c in calls))
        ncalls += len(calls)
        ls = node_lines(fd, calls, len(a) - 1, len(b) - 1)
        metas.append((a, b, calls, len(ls)))
        lines_all += ls
    replies = drive.run_lines(lines_all)
    pos = 0
    for a, b, calls, k in metas:
        msg = check_nodes(calls, replies[pos:pos + k])
        pos += k
        if msg:
            dis.append({"kind": "model-vs-impl", "model": "mindist.node", "a": a, "b": b, "what": msg})
    return {"model_compared": ncalls, "max_recursion_depth_seen": maxdepth}, dis


def correspondence(ctx):
    stats, dis = tv.validate(TV_DEFS, ctx.rng, 6 * ctx.scale)
    m, d2 = model_corr(ctx)
    stats.update(m)
    stats["distinct_nontrivial"] = 0
    return stats, dis + d2


# ----------------------------------------------------------------------------- property oracle

def split_pts(pts, t=0.5):
    """de Casteljau on float tuples"""
    pts = [tuple(p) for p in pts]
    left, right = [pts[0]], [pts[-1]]
    cur = pts
    while len(cur) > 1:
        cur = [((1 - t) * a[0] + t * b[0], (1 - t) * a[1] + t * b[1]) for a, b in zip(cur, cur[1:])]
        left.append(cur[0])
        right.append(cur[-1])
    return left, right[::-1]


def box_dist(A, B):
    ax0, ax1 = min(p[0] for p in A), max(p[0] for p in A)
    ay0, ay1 = min(p[1] for p in A), max(p[1] for p in A)
    bx0, bx1 = min(p[0] for p in B), max(p[0] for p in B)
    by0, by1 = min(p[1] for p in B), max(p[1] for p in B)
    dx = max(0.0, ax0 - bx1, bx0 - ax1)
    dy = max(0.0, ay0 - by1, by0 - ay1)
    return math.hypot(dx, dy)


def lower_bound(A, B, depth=7):
    """lower bound of the true minimum distance: control-polygon boxes enclose their pieces, so the least
    box distance over a subdivision of both curves is a lower bound; the closest pairs are refined."""
    pairs = [(box_dist(A, B), A, B)]
    for _ in range(depth):
        pairs.sort(key=lambda x: x[0])
        cut, rest = pairs[:48], pairs[48:]
        nxt = []
        for _, a, b in cut:
            a1, a2 = split_pts(a)
            b1, b2 = split_pts(b)
            for x in (a1, a2):
                for y in (b1, b2):
                    nxt.append((box_dist(x, y), x, y))
        pairs = nxt + rest
    return min(x[0] for x in pairs)


def check_pair(a, b):
    sa, sb = oc.mkseg(a), oc.mkseg(b)
    try:
        fd, calls, res = record_run(sa, sb)
    except RecursionError:
        return "curveDistance does not terminate (RecursionError)"
    d2, t1, t2 = res
    if not (d2 == d2) or d2 in (float("inf"), float("-inf")):
        return "squared distance is not finite"
    scale = max(oc.maxabs(a), oc.maxabs(b))
    if d2 < -1e-9 * scale * scale:
        return "negative squared distance %r" % d2
    if not (0 <= t1 <= 1 and 0 <= t2 <= 1):
        return "reported parameters outside [0,1]: %r %r" % (t1, t2)
    # realised: the value is S at a visited corner, and S there is the true squared distance
    hit = [k for k, v in fd.sCache.items() if v == d2]
    if not hit:
        return "reported squared distance %r is not a value of S at any visited parameter pair" % d2
    u, v = hit[0]
    if not (0 <= u <= 1 and 0 <= v <= 1):
        return "realising parameters outside the unit square"
    pa, pb = oc.bern_pt(a, u), oc.bern_pt(b, v)
    ex = (pa[0] - pb[0]) ** 2 + (pa[1] - pb[1]) ** 2
    if abs(F(d2) - ex) > 1e-9 * scale * scale + 1e-9 * float(ex):
        return "S(%r,%r)=%r is not the squared distance %r of the two points" % (u, v, d2, float(ex))
    d = math.sqrt(max(d2, 0.0))
    try:
        dd, tt1, tt2 = cdm.curveDistance(sa, sb)
    except Exception as e:
        return "curveDistance raised %s: %s (squared distance %r)" % (type(e).__name__, e, d2)
    # curveDistance works on copies translated so that the first operand starts at the origin (F31): its answer is the finder's on those copies
    o = sa[0] * -1.0
    d2o, t1o, t2o = cdm.MinimumCurveDistanceFinder(sa.translated(o), sb.translated(o)).minDist()
    if abs(dd - math.sqrt(max(d2o, 0.0))) > 1e-12 * max(1.0, d) or tt1 != t1o or tt2 != t2o:
        return "curveDistance differs from the finder's result on the operands moved to the first one's start"
    d = dd
    ub = max(math.hypot(p[0] - q[0], p[1] - q[1]) for p in a for q in b)
    if d > ub * (1 + 1e-9) + 1e-9 * scale:
        return "distance %r exceeds the greatest distance between the curves' points (<= %r)" % (d, ub)
    lb = lower_bound(a, b)
    if d < lb * (1 - 1e-9) - 1e-9 * scale:
        return "distance %r is smaller than the true minimum distance (>= %r)" % (d, lb)
    return None


def check_paths(sa, sb):
    pa = oc.path_from(sa, False)
    pb = oc.path_from(sb, False)
    try:
        r = pa.distanceToPath(pb)
    except Exception as e:
        return "distanceToPath raised %s: %s" % (type(e).__name__, e)
    d, t1, t2, s1, s2 = r
    if not any(s1 is s for s in pa.asSegments()) or not any(s2 is s for s in pb.asSegments()):
        return "reported segments do not belong to the respective paths"
    if not (0 <= t1 <= 1 and 0 <= t2 <= 1) or not (d >= 0) or d == float("inf"):
        return "path distance: parameters outside [0,1] or distance not finite/non-negative"
    ub = max(math.hypot(p[0] - q[0], p[1] - q[1]) for s in sa for p in s for q in [x for t in sb for x in t])
    if d > ub * (1 + 1e-9) + 1e-9:
        return "path distance exceeds the greatest distance between the paths' points"
    lb = min(lower_bound(x, y, 5) for x in sa for y in sb)
    if d < lb * (1 - 1e-9) - 1e-9 * max(1.0, ub):
        return "path distance %r is smaller than the true minimum distance (>= %r)" % (d, lb)
    return None


def run_one(kind, inp):
    try:
        if kind == "pair":
            return check_pair([tuple(p) for p in inp["a"]], [tuple(p) for p in inp["b"]])
        if kind == "history":
            # the answer to a query does not depend on which queries were put before it: the pairs are measured in order, in one process
            for k, (a, b) in enumerate(inp["pairs"]):
                msg = check_pair([tuple(p) for p in a], [tuple(p) for p in b])
                if msg:
                    return "query %d of the sequence: %s" % (k + 1, msg)
            return None
        return check_paths([[tuple(p) for p in s] for s in inp["a"]], [[tuple(p) for p in s] for s in inp["b"]])
    except RecursionError:
        return "the distance query does not terminate (recursion limit reached)"
    except Exception as ex:
        return "the distance query raised %s: %s" % (type(ex).__name__, ex)


def rand_chain(rng):
    segs = []
    cur = (float(rng.randint(-200, 200)), float(rng.randint(-200, 200)))
    for _ in range(rng.randint(1, 4)):
        pts = oc.rand_seg_pts(rng, rng.choice([2, 3, 4]), "int")
        pts = [(x * 4, y * 4) for x, y in pts]
        pts[0] = cur
        cur = pts[-1]
        segs.append(pts)
    return segs


def search(ctx, budget):
    rng = ctx.rng
    n = 60 * ctx.scale * budget
    viol, samples = [], []
    seen = set()
    nontriv = 0
    for i in range(n):
        if i % 12 == 7:
            # look-alike operands measured one after the other: same degree, control points identical except that some coordinates differ
            # in a way a hash-based shortcut may not see (in CPython hash(-1.0) == hash(-2.0), hash(0.0) == hash(-0.0), hash(2**61 - 1) wraps)
            a, b = rand_pair(rng)
            a = [(float(round(x)) % 7 - 3, float(round(y)) % 7 - 3) for x, y in a]
            j = rng.randrange(len(a))
            a[j] = (-1.0, a[j][1]) if rng.random() < 0.7 else (a[j][0], -1.0)
            if len(set(a)) < 2:
                a[(j + 1) % len(a)] = (a[j][0] + 2.0, a[j][1] + 3.0)
            twin = [tuple(-2.0 if c == -1.0 else c for c in p) for p in a]
            b = [(x + 40.0, y) for x, y in b] if rng.random() < 0.5 else b
            inp = {"pairs": [(a, b), (twin, b), (a, b)] if rng.random() < 0.5 else [(twin, b), (a, b)]}
            kind = "history"
            nt = True
        elif i % 6 != 5:
            a, b = rand_pair(rng)
            inp = {"a": a, "b": b}
            kind = "pair"
            nt = len(set(a)) > 1 and len(set(b)) > 1
        else:
            inp = {"a": rand_chain(rng), "b": rand_chain(rng)}
            if i % 12 == 11:
                # two outlines less than one unit apart without touching, with facing parallel edges (closest points at nodes and at
                # round parameter values): any estimate in squared units is smaller than the distance here
                g = rng.choice([0.25, 0.5, 0.75, 0.125])
                w = float(rng.randint(5, 40))
                x0, y0 = float(rng.randint(-50, 50)), float(rng.randint(-50, 50))
                sq = lambda x: [[(x, y0), (x + w, y0)], [(x + w, y0), (x + w, y0 + w)], [(x + w, y0 + w), (x, y0 + w)], [(x, y0 + w), (x, y0)]]
                inp = {"a": sq(x0), "b": sq(x0 + w + g)}
            kind = "paths"
            nt = True
        if nt and repr(inp) not in seen:
            seen.add(repr(inp))
            nontriv += 1
        msg = run_one(kind, inp)
        if msg:
            viol.append({"what": msg, "kind": kind, "input": inp})
            if len(viol) >= 5:
                break
        if len(samples) < 3:
            samples.append(inp)
    return {"evaluations": i + 1, "distinct_nontrivial": nontriv, "samples": samples}, viol


def classify(v, entry):
    return False


def replay(v):
    return run_one(v["kind"], v["input"]) is not None
