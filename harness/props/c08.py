"""C08 — segment, node-list and textual representations are lossless."""
import re
import struct
from fractions import Fraction as F
from .. import drive
from ..oracles import common as oc
from beziers.point import Point
from beziers.line import Line
from beziers.quadraticbezier import QuadraticBezier
from beziers.cubicbezier import CubicBezier
from beziers.path import BezierPath
from beziers.path.representations.Nodelist import Node
from beziers.path.representations.Segment import SegmentRepresentation

ID = "C08"
TOPICS = []
LEAN_TARGETS = ["BezierVerif.Props.C08", "BezierVerif.Props.C08R"]
RULE = ("open and closed chains of 1..8 mixed segments with integer / dyadic / arbitrary double coordinates; every rotation of the cyclic node "
        "list (including rotations starting on an off-curve node); malformed node lists (3+ consecutive off-curve nodes, no on-curve node) "
        "as a separate stream; repr round trip on random bit patterns incl. subnormals, -0.0, 17-digit values, powers of two; "
        "non-trivial = at least 2 segments or a curve; distinct = distinct inputs")
UNPROVED = ["rotations of a contour that contains a zero-length LINE segment landing on that segment (the closing logic then drops it; excluded by hypothesis in all_rotations) — sampled",
            "repr -> fromRepr bit-identical, '%f' six decimals: Python float printing/parsing is runtime behaviour — sampled over all binary64 classes"]
ASSUMPTIONS = ["the isclose test on the closing node is read as equality (generated points are identical or >= 1e-3 apart)",
               "zero-length closing lines are outside the domain (a node list cannot encode them)"]
LEVEL_TEXT = ("theorems about the hand model of toNodelist / fromNodelist / asSVGPath: roundtrip_open, roundtrip_closed (no extra closing segment when the chain "
              "returns to its first point), roundtrip_closed_open_ends (exactly one closing line otherwise), roundtrip_iter_* (any number of conversions), "
              "toNodelist_points (every control point in order), svg_shape (one M, one command per segment with the right letter and points, Z iff closed); C08R.all_rotations (a closed contour's cyclic node list read from ANY position, also an off-curve one, gives a cyclic rotation of the same segment list, the segment the reading started in being re-assembled as the one closing segment: rotation_core, split_position); "
              "model tied to Segment.py / asSVGPath by exact correspondence incl. malformed lists and all rotations. partial: rotations and text format sampled")
LEVEL_NOTE = "trusted: Lean kernel (core only: axioms propext/Quot.sound at most), hand model Model/Nodelist.lean (correspondence per run); Python float printing not modelled"
TECHNIQUE = "hand model of the scanning loops; list induction (scan over a chain's node list); exact correspondence"

NT = {"line": "l", "curve": "c", "offcurve": "o"}


def rand_chain(rng, closed, fam=None, maxn=8):
    n = rng.randint(1, maxn)
    fam = fam or rng.choice(["int", "int", "dyadic", "float"])
    pts = lambda: (oc.rand_coord(rng, fam), oc.rand_coord(rng, fam))
    nodes = []
    axis = rng.random() < 0.35          # outlines with exactly vertical / horizontal steps between on-curve nodes (the usual font geometry)
    while len(nodes) < n + 1:
        p = pts()
        if axis and nodes and rng.random() < 0.6:
            p = (nodes[-1][0], p[1]) if rng.random() < 0.5 else (p[0], nodes[-1][1])
        if axis and len(nodes) == n - 1 and n >= 3 and rng.random() < 0.7:
            p = (nodes[0][0], p[1]) if rng.random() < 0.5 else (p[0], nodes[0][1])       # the last node straight above / beside the first
        if p not in nodes:
            nodes.append(p)
    if closed:
        if n == 1:
            n = 2
            nodes.append(pts())
        nodes[n] = nodes[0]
        nodes = nodes[:n + 1]
    segs = []
    retract = rng.random() < 0.35        # retracted handles: an off-curve point on top of an on-curve node (common in font sources)
    for i in range(n):
        order = rng.choice([2, 3, 4])
        inner = [pts() for _ in range(order - 2)]
        if retract and inner and rng.random() < 0.6:
            j = rng.randrange(len(inner))
            inner[j] = rng.choice([nodes[i], nodes[i + 1], nodes[0], nodes[i + 1]])
        segs.append([nodes[i]] + inner + [nodes[i + 1]])
    return segs


def nodes_of(segs):
    """cyclic node list of a closed chain (start node not repeated)"""
    out = []
    for s in segs:
        if len(s) == 2:
            out.append((s[1], "line"))
        else:
            out += [(p, "offcurve") for p in s[1:-1]] + [(s[-1], "curve")]
    return out


def node_tokens(nl):
    return " ".join("%s %s %s" % (NT[t], drive.rat(p[0]), drive.rat(p[1])) for p, t in nl)


def impl_from_nodelist(nl, closed):
    try:
        p = BezierPath.fromNodelist([Node(p[0], p[1], t) for p, t in nl], closed=closed)
        return [oc.seg_pts(s) for s in p.asSegments()]
    except ValueError:
        return "error"
    except IndexError:
        return "error"


def correspondence(ctx):
    rng = ctx.rng
    lines, metas = [], []
    for i in range(40 * ctx.scale):
        closed = rng.random() < 0.5
        segs = rand_chain(rng, closed)
        lines.append("model nodelist.to " + " ".join(oc.seg_tokens(s) for s in segs)); metas.append(("to", segs, closed))
        flag = closed and rng.random() < 0.7       # an outline that returns to its start need not be flagged closed
        lines.append("model svg %d %s" % (flag, " ".join(oc.seg_tokens(s) for s in segs))); metas.append(("svg", segs, flag))
        if closed:
            nl = nodes_of(segs)
            r = rng.randrange(len(nl))
            nl = nl[r:] + nl[:r]
        else:
            nl = [(segs[0][0], "line" if len(segs[0]) == 2 else "curve")] + nodes_of(segs)
        if rng.random() < 0.2:   # malformed stream
            k = rng.randrange(len(nl) + 1)
            nl = nl[:k] + [((float(rng.randint(-9, 9)), float(rng.randint(-9, 9))), rng.choice(["offcurve", "offcurve", "curve", "line"]))
                           for _ in range(rng.randint(1, 3))] + nl[k:]
        if any(t != "offcurve" for _, t in nl):
            lines.append("model nodelist.from %d %s" % (closed, node_tokens(nl))); metas.append(("from", nl, closed))
    replies = drive.run_lines(lines)
    dis = []
    for (kind, data, closed), rep in zip(metas, replies):
        if kind == "to":
            p = oc.path_from(data, closed)
            got = " ".join("%s %s %s" % (NT[n.type], drive.rat(n.x), drive.rat(n.y)) for n in SegmentRepresentation(p, p.asSegments()).toNodelist())
            ok = rep == "ok " + got
        elif kind == "svg":
            p = oc.path_from(data, closed)
            toks = parse_svg(p.asSVGPath())
            exp = rep.split()[1:] if rep.startswith("ok") else None
            ok = exp is not None and svg_matches(toks, exp)
            got = p.asSVGPath()
        else:
            got = impl_from_nodelist(data, closed)
            if got == "error":
                ok = rep == "error"
            else:
                exp = oc.parse_segs(rep.split()[1:]) if rep.startswith("ok") else None
                ok = exp is not None and [[(F(x), F(y)) for x, y in s] for s in got] == exp
        if not ok:
            dis.append({"kind": "model-vs-impl", "model": "nodelist." + kind, "input": repr(data)[:400], "closed": closed, "lean": rep[:300], "impl": repr(got)[:300]})
    return {"model_compared": len(metas), "evaluations": len(metas), "distinct_nontrivial": 0}, dis


def parse_svg(s):
    return s.split()


def svg_matches(toks, exp):
    """impl tokens (letters + '%f' numbers) against the model's tokens (letters + exact rationals)"""
    if len(toks) != len(exp):
        return False
    for a, b in zip(toks, exp):
        if b in "MLQCZ":
            if a != b:
                return False
        else:
            if not re.fullmatch(r"-?\d+\.\d{6}", a):
                return False
            if abs(F(a) - F(b)) > F(1, 2 * 10 ** 6) + F(1, 10 ** 12):
                return False
    return True


def cyc_eq(a, b):
    if len(a) != len(b):
        return False
    return any(a[r:] + a[:r] == b for r in range(len(a)))


def check_roundtrip(segs, closed, k):
    p = oc.path_from(segs, closed)
    for _ in range(k):
        p.asNodelist()
        got = [oc.seg_pts(s) for s in p.asSegments()]
        kinds = [type(s).__name__ for s in p.asSegments()]
        if got != [list(map(tuple, s)) for s in segs] or kinds != [oc.KNAME[len(s)] for s in segs]:
            return "segments -> node list -> segments changed the path after %d round trip(s): %r" % (_ + 1, got)
    return None


def check_rotations(segs):
    nl = nodes_of(segs)
    want = [list(map(tuple, s)) for s in segs]
    for r in range(len(nl)):
        got = impl_from_nodelist(nl[r:] + nl[:r], True)
        if got == "error" or not cyc_eq(got, want):
            return "rotation %d of the closed node list yields a different cyclic segment sequence: %r" % (r, got)
    return None


def rand_double(rng):
    r = rng.random()
    if r < 0.3:
        bits = rng.getrandbits(64)
        v = struct.unpack("<d", struct.pack("<Q", bits))[0]
        if v != v or v in (float("inf"), float("-inf")):
            return rand_double(rng)
        return v
    if r < 0.4:
        return rng.choice([0.0, -0.0, 5e-324, -5e-324, 2.2250738585072014e-308, 1.7976931348623157e308, 2.0 ** rng.randint(-1074, 1023)])
    if r < 0.6:
        return float(repr(rng.uniform(-1, 1) * 10 ** rng.randint(-20, 20)))
    if r < 0.8:
        return rng.uniform(-1000, 1000)
    return float(rng.randint(-10 ** 6, 10 ** 6))


def bits(v):
    return struct.pack("<d", v)


def check_repr(vals):
    pts = [Point(vals[2 * i], vals[2 * i + 1]) for i in range(4)]
    objs = [pts[0], Line(pts[0], pts[1]), QuadraticBezier(pts[0], pts[1], pts[2]), CubicBezier(*pts)]
    for o in objs:
        txt = repr(o)
        try:
            back = type(o).fromRepr(txt)
        except Exception as e:
            return "fromRepr(%s) raised %s" % (txt, type(e).__name__)
        a = [o] if isinstance(o, Point) else o.points
        b = [back] if isinstance(back, Point) else back.points
        if type(back) is not type(o) or len(a) != len(b) or any(bits(p.x) != bits(q.x) or bits(p.y) != bits(q.y) for p, q in zip(a, b)):
            return "printed form %s does not parse back to a bit-identical object: %r" % (txt, back)
    return None


def check_svg(segs, closed):
    p = oc.path_from(segs, closed)
    toks = p.asSVGPath().split()
    exp = ["M", segs[0][0][0], segs[0][0][1]]
    for s in segs:
        exp.append("xxLQC"[len(s)])
        for q in s[1:]:
            exp += [q[0], q[1]]
    if closed:
        exp.append("Z")
    if len(toks) != len(exp):
        return "SVG string has %d tokens, expected %d: %s" % (len(toks), len(exp), p.asSVGPath()[:200])
    for a, b in zip(toks, exp):
        if isinstance(b, str):
            if a != b:
                return "SVG command %s where %s expected" % (a, b)
        elif not re.fullmatch(r"-?\d+\.\d{6}", a) or abs(F(a) - F(b)) > F(1, 2 * 10 ** 6) + F(1, 10 ** 12):
            return "SVG number %s is not %r to six decimal places" % (a, b)
    # the string describes the path as it is NOW: flip the closed flag, move a control point through the segment list, add a segment to
    # the list — each time the string must be the string of a freshly built path with the same segments and flag
    from beziers.point import Point
    first = p.asSVGPath()
    p.closed = not p.closed
    if p.asSVGPath() != oc.path_from(segs, not closed).asSVGPath():
        return "after flipping closed to %r on a path whose SVG string had been asked for, asSVGPath gives %r" % (p.closed, p.asSVGPath()[-40:])
    p.closed = closed
    sl = p.asSegments()
    j = len(sl) // 2
    k = len(sl[j].points) - 1 if j + 1 < len(sl) or len(sl[j].points) > 2 else 0
    k = max(1, k) if len(sl[j].points) > 2 else k
    if len(sl[j].points) > 2:
        sl[j][1] = Point(sl[j][1].x + 3.0, sl[j][1].y - 2.0)      # an off-curve point: the chain stays connected
        now = [[(q.x, q.y) for q in s.points] for s in sl]
        if p.asSVGPath() != oc.path_from(now, closed).asSVGPath():
            return "after moving a control point of segment %d in the path's segment list, asSVGPath still gives the old string" % j
    p.asSVGPath()
    tail = sl[-1].end
    sl.append(oc.mkseg([(tail.x, tail.y), (tail.x + 7.0, tail.y + 11.0)]))
    now = [[(q.x, q.y) for q in s.points] for s in sl]
    if p.asSVGPath() != oc.path_from(now, closed).asSVGPath():
        return "after appending a segment to the path's segment list, asSVGPath still gives the old string"
    return None


def run_one(kind, inp):
    if kind == "roundtrip":
        return check_roundtrip([[tuple(p) for p in s] for s in inp["segs"]], inp["closed"], inp["k"])
    if kind == "rotations":
        return check_rotations([[tuple(p) for p in s] for s in inp["segs"]])
    if kind == "repr":
        return check_repr(inp["vals"])
    return check_svg([[tuple(p) for p in s] for s in inp["segs"]], inp["closed"])


def search(ctx, budget):
    rng = ctx.rng
    n = 400 * ctx.scale * budget
    viol, samples = [], []
    seen = set()
    nontriv = 0
    kinds = {}
    for i in range(n):
        r = i % 4
        if r == 0:
            closed = rng.random() < 0.5
            inp = {"segs": rand_chain(rng, closed), "closed": closed, "k": rng.randint(1, 4)}
            kind = "roundtrip"
        elif r == 1:
            inp = {"segs": rand_chain(rng, True, maxn=6)}
            kind = "rotations"
        elif r == 2:
            inp = {"vals": [rand_double(rng) for _ in range(8)]}
            kind = "repr"
        else:
            geo = rng.random() < 0.6          # the outline returns to its start ...
            closed = geo and rng.random() < 0.6   # ... which does not make it closed: the flag decides (open contours may end where they began)
            inp = {"segs": rand_chain(rng, geo, fam=rng.choice(["int", "float", "dyadic"])), "closed": closed}
            kind = "svg"
        kinds[kind] = kinds.get(kind, 0) + 1
        if repr(inp) not in seen:
            seen.add(repr(inp))
            nontriv += 1
        msg = run_one(kind, inp)
        if msg:
            viol.append({"what": msg, "kind": kind, "input": inp})
            if len(viol) >= 5:
                break
        if len(samples) < 4:
            samples.append(inp)
    return {"evaluations": i + 1, "distinct_nontrivial": nontriv, "kinds": kinds, "samples": samples}, viol


def classify(v, entry):
    return False


def replay(v):
    return run_one(v["kind"], v["input"]) is not None
