"""C03 — extreme finding is exact and adding extremes makes segments monotone."""
from fractions import Fraction as F
from .. import tv, drive
from ..oracles import common as oc
from . import c02

ID = "C03"
TOPICS = ["Roots", "Eval"]
LEAN_TARGETS = ["BezierVerif.Props.Roots", "BezierVerif.Props.C02", "BezierVerif.Props.C03", "BezierVerif.Props.C02E", "BezierVerif.Props.C03M", "BezierVerif.Props.C03N"]
TV_DEFS = ["quadraticRoots", "cubic_dcoeffs", "quad_findDRoots", "cubic_splitAtTime", "quad_splitAtTime", "line_splitAtTime"]
RULE = ("segments from the Appendix-B families incl. arches / elevated curves (derivative linear or constant in a coordinate); open and closed "
        "paths of 1..6 mixed segments, one in seven running over the same stretch twice (value-equal segments share one dict key in splitAtPoints); reference = exact simple roots of x' and y' and exact de Casteljau pieces in Fractions; inputs with a root "
        "within 1e-7 of 0.01/0.99 or a near-double root are classified 'boundary' and skipped; non-trivial = at least one extreme")
UNPROVED = ["'changes sign' is stated as: simple root (genuinely quadratic with positive discriminant, or genuinely linear) — the equivalence with a sign change is used inside sign_const but not stated as a theorem of its own",
            "the theorems about pieces assume that no cut is skipped by the 1e-8 duplicate test (NoSkip; discharged by noSkip_of_gaps for cuts at least 1e-8 apart) — coincident x- and y-extremes are sampled",
            "closedness / node preservation of addExtremes on whole paths — sampled (per-segment chain theorem proved)",
            "float residuals (theorems are over the reals)"]
ASSUMPTIONS = ["math.sqrt real"]
LEVEL_TEXT = ("theorems: addExtremesDict_eq (splitAtPoints clusters its split list in a dict keyed by segment VALUE; for addExtremes that dict model equals the positional model on EVERY path, repeated segments included: cutSeg_stutter, sort_copies; pinned_repeated_segment_counterexample: F28), cubic_extremes_mem_iff / quad_findDRoots_mem (the regenerated solver + the sort/filter glue report exactly the simple roots of x' or y' in [0.01,0.99]; sorted), "
              "none for a line; cutSeg_retrace (pieces of the split walk evaluate to the original at lo_j + s(hi_j-lo_j), including the mapx re-mapping), "
              "cutSeg_chain (for every cut list the pieces are a connected chain from the segment's start to its end, same kind), noSkip_of_gaps; "
              "C03M.addExtremes_monotone (every piece is monotone or antitone in x and in y on [0,1] unless a simple root of that derivative lies in the first/last 1 % strictly inside the piece: "
              "sign_const by the intermediate value theorem, monotone_between, no_cut_inside); "
              "C03N.addExtremes_nearly_monotone (the 0.06 % clause, unconditional: in one of the two directions no coordinate of any piece moves back by more than 6/10000 of the ORIGINAL segment's extent — "
              "explicit antiderivative, exact Taylor expansion at a derivative root, variation next to a root, rise_dominates for hooks at both ends)")
LEVEL_NOTE = ("trusted: Lean kernel + Mathlib, axioms {propext, Classical.choice, Quot.sound}, translator, hand model Model/Extremes.lean "
              "(correspondence per run: findExtremes, splitAtPoints with exact cuts, addExtremes)")
TECHNIQUE = "symbolic tracing to Lean; solver case analysis; induction on the cut list with the mapx algebra; exact-rational oracle"


def rand_path(rng, maxn=6):
    n = rng.randint(1, maxn)
    closed = rng.random() < 0.5
    nodes = [(float(rng.randint(-300, 300)), float(rng.randint(-300, 300))) for _ in range(n + 1)]
    if closed and n >= 2:
        nodes[-1] = nodes[0]
    segs = []
    for i in range(n):
        order = rng.choice([2, 3, 4])
        fam = rng.choice(["int", "arch", "grid", "elevated"])
        pts = oc.rand_seg_pts(rng, order, fam)
        # re-anchor on the chain nodes (keeps arch / elevated shape up to an affine shear of the ends)
        inner = pts[1:-1]
        segs.append([nodes[i]] + inner + [nodes[i + 1]])
    if any(s[0] == s[-1] and len(set(s)) == 1 for s in segs):
        return rand_path(rng, maxn)
    if n >= 2 and rng.random() < 0.15:
        # the same stretch of outline twice in one path (an outline traversed twice, a stroke retraced): value-equal segments share one
        # entry of splitAtPoints' dict, and every occurrence must be cut (F28)
        if closed:
            segs = segs + [list(s) for s in segs]
        else:
            back = [list(reversed(s)) for s in reversed(segs)]
            segs = segs + back + [list(s) for s in segs]
    return segs, closed and n >= 2


def model_corr(ctx):
    rng = ctx.rng
    lines, metas = [], []
    for i in range(20 * ctx.scale):
        segs, closed = rand_path(rng, 4)
        # exact cuts: dyadic parameters, possibly repeated, possibly several per segment
        cuts = []
        for s in segs:
            k = rng.choice([0, 0, 1, 2, 3])
            cuts.append([rng.choice([0.0, 0.25, 0.5, 0.75, 0.125, 0.5]) for _ in range(k)])
        lines.append("model splitAtPoints " + " ".join(oc.seg_tokens(s) for s in segs) + " | " +
                     " ".join("%d %s" % (len(c), " ".join(drive.rat(t) for t in c)) for c in cuts))
        metas.append(("split", segs, cuts))
        lines.append("model addExtremes " + " ".join(oc.seg_tokens(s) for s in segs))
        metas.append(("addExtremes", segs, None))
    replies = drive.run_lines(lines)
    dis = []
    for (kind, segs, cuts), rep in zip(metas, replies):
        p = oc.path_from(segs, False)
        if kind == "split":
            real = p.asSegments()
            p.splitAtPoints([(real[i], t) for i, c in enumerate(cuts) for t in c])
            tol = 1e-9
        else:
            p.addExtremes()
            tol = 1e-7
            if any(c02.near_tie(s) for s in segs):
                continue
        got = [oc.seg_pts(s) for s in p.asSegments()]
        scale = max(1.0, max(oc.maxabs(s) for s in segs))
        exp = oc.parse_segs(rep.split()[1:]) if rep.startswith("ok") else None
        ok = exp is not None and len(exp) == len(got) and all(
            len(a) == len(b) and all(abs(F(x) - u) <= tol * scale and abs(F(y) - v) <= tol * scale
                                     for (x, y), (u, v) in zip(a, b)) for a, b in zip(got, exp))
        if not ok:
            dis.append({"kind": "model-vs-impl", "model": kind, "segs": segs, "cuts": cuts, "lean": rep[:300], "impl": repr(got)[:300]})
    return {"model_compared": len(metas)}, dis


def correspondence(ctx):
    stats, dis = tv.validate(TV_DEFS, ctx.rng, 20 * ctx.scale, tol_rel=1e-7)
    m, d2 = model_corr(ctx)
    stats.update(m)
    stats["distinct_nontrivial"] = 0
    return stats, dis + d2


def exact_extremes(pts):
    out = []
    if len(pts) < 3:
        return out
    for coords in ([p[0] for p in pts], [p[1] for p in pts]):
        for r, simple in oc.deriv_roots(coords)[0]:
            if simple and F(1, 100) <= r <= F(99, 100):
                out.append(r)
    return sorted(out)


def check_extremes(pts):
    if c02.near_tie(pts, ends=False):
        return "skip"
    seg = oc.mkseg(pts)
    got = sorted(seg.findExtremes())
    exp = exact_extremes(pts)
    if len(pts) == 2 and got:
        return "a line reports extremes %r" % got
    if len(got) != len(exp) or any(abs(F(a) - b) > F(1, 10 ** 7) for a, b in zip(got, exp)):
        return "findExtremes %r differs from the exact sign-change parameters of x'/y' in [0.01,0.99]: %s" % (got, [float(e) for e in exp])
    return None


def backtrack(coords):
    """total back-tracking of a Bernstein coordinate function on [0,1]: (total variation - |net|)/2, exact up to root approximation"""
    roots, _ = oc.deriv_roots(coords)
    ts = [F(0)] + sorted(r for r, s in roots if 0 < r < 1) + [F(1)]
    vals = [oc.bern(coords, t) for t in ts]
    tv_ = sum(abs(b - a) for a, b in zip(vals, vals[1:]))
    return (tv_ - abs(vals[-1] - vals[0])) / 2


def check_add_extremes(segs, closed):
    for s in segs:
        if c02.near_tie(s, ends=False):
            return "skip"
    p = oc.path_from(segs, closed)
    orig = [oc.seg_pts(s) for s in p.asSegments()]
    cuts = [sorted(t for t in oc.mkseg(s).findExtremes()) for s in orig]
    r = p.addExtremes()
    if r is not p:
        return "addExtremes does not return the path"
    new = [oc.seg_pts(s) for s in p.asSegments()]
    if p.closed != closed:
        return "closedness changed"
    # expected pieces by exact de Casteljau at the reported parameters
    exp = []
    owner = []
    for s, ts in zip(orig, cuts):
        cur = [(F(x), F(y)) for x, y in s]
        done = F(0)
        prev = None
        for t in ts:
            if prev is not None and t == prev:
                continue
            prev = t
            local = (F(t) - done) / (1 - done)
            if done > 0 and local < F(1, 10 ** 8):
                continue          # the same point again up to rounding (x- and y-extreme coincide): splitAtPoints skips cuts closer than 1e-8
            a, b = oc.casteljau_split(cur, local)
            exp.append(a)
            owner.append(s)
            cur = b
            done = F(t)
        exp.append(cur)
        owner.append(s)
    if len(exp) != len(new):
        return "addExtremes produced %d segments, expected %d (one more than the number of extremes per segment)" % (len(new), len(exp))
    scale = max(1.0, max(oc.maxabs(s) for s in segs))
    for a, b in zip(new, exp):
        if len(a) != len(b) or any(abs(F(x) - u) > 1e-8 * scale or abs(F(y) - v) > 1e-8 * scale for (x, y), (u, v) in zip(a, b)):
            return "a piece does not retrace the original segment: %r vs %s" % (a, [(float(u), float(v)) for u, v in b])
    if new[0][0] != orig[0][0] or new[-1][-1] != orig[-1][-1]:
        return "start or end of the path changed"
    nodes = {q[0] for q in new} | {new[-1][-1]}
    for s in orig:
        if s[0] not in nodes or s[-1] not in nodes:
            return "an original node is no longer a node"
    for a, b in zip(new, new[1:]):
        if a[-1] != b[0]:
            return "result is not a connected chain"
    # monotone up to 0.06 % of the originating segment's extent
    for piece, own in zip(new, owner):
        allow = F(6, 10000) * F(oc.extent(own)) + F(scale) / 10 ** 8
        for coords in ([q[0] for q in piece], [q[1] for q in piece]):
            if len(coords) >= 3 and backtrack(coords) > allow:
                return "a resulting segment back-tracks by %r (> 0.06%% of the original extent %r)" % (float(backtrack(coords)), oc.extent(own))
    return None


def run_one(kind, inp):
    if kind == "seg":
        pts = [tuple(p) for p in inp["pts"]]
        r = check_extremes(pts)
        if r is None and len(pts) > 2:
            r = check_add_extremes([pts], False)       # the same segment as a one-segment path: cut at its extremes
            if r == "skip":
                r = None
        if r is None and len(pts) > 2:
            r = oc.stale_check(pts, hash(tuple(pts)) & 0xFFFFFF, [("findExtremes()", lambda g: tuple(g.findExtremes()))])
        if r is None and len(pts) > 2:
            box = lambda g: (lambda b: (b.left, b.bottom, b.right, b.top))(g.bounds())
            r = oc.repeat_check(pts, [("bounds()", box), ("findExtremes()", lambda g: tuple(g.findExtremes())),
                                      ("findExtremes(inflections=True)", lambda g: tuple(g.findExtremes(inflections=True)) if len(g.points) == 4 else None)])
        if r is None and len(pts) > 2:
            # ... and at path level: ask for the box (twice), then add the extremes
            from beziers.path import BezierPath
            a, b = BezierPath.fromSegments([oc.mkseg(pts)]), BezierPath.fromSegments([oc.mkseg(pts)])
            a.bounds(); a.bounds()
            try:
                a.addExtremes()
                got = [oc.seg_pts(x) for x in a.asSegments()]
            except Exception as ex:
                got = "raised %s" % type(ex).__name__
            b.addExtremes()
            want = [oc.seg_pts(x) for x in b.asSegments()]
            if got != want:
                r = "addExtremes after two bounds() queries gives %r, on a fresh path %r" % (got, want)
        return r
    return check_add_extremes([[tuple(p) for p in s] for s in inp["segs"]], inp["closed"])


def search(ctx, budget):
    rng = ctx.rng
    n = 400 * ctx.scale * budget
    viol, samples = [], []
    seen = set()
    nontriv = skipped = 0
    for i in range(n):
        if i % 4 == 3:
            segs, closed = rand_path(rng)
            inp = {"segs": segs, "closed": closed}
            kind = "path"
        else:
            order = 2 + i % 3
            fam = ["int", "grid", "arch", "elevated", "dyadic", "float", "collinear", "coincident", "arch", "double-root", "evenspaced", "tiny", "retracted", "axishandles"][(i // 3) % 14]
            if fam == "double-root" and rng.random() < 0.5:
                # cusp cubic: x' and y' share a root (the same cut parameter twice), with a further extreme later on the segment
                r1 = rng.choice([0.25, 0.5, 0.375])
                r2 = rng.choice([0.75, 0.875, 0.625])
                kx, ky = rng.choice([16.0, 32.0, -16.0]), rng.choice([16.0, -32.0, 8.0])
                # x'(t) = kx (t - r1)(t - r2), y'(t) = ky (r1 - t): integrate to power basis, then to Bernstein control values
                cx = [0.0, kx * r1 * r2, -kx * (r1 + r2) / 2, kx / 3]
                cy = [0.0, ky * r1, -ky / 2, 0.0]
                bez = lambda c: [c[0], c[0] + c[1] / 3, c[0] + 2 * c[1] / 3 + c[2] / 3, c[0] + c[1] + c[2] + c[3]]
                x0, y0 = float(rng.randint(-30, 30)), float(rng.randint(-30, 30))
                pts = [(x0 + 48 * a, y0 + 48 * b) for a, b in zip(bez(cx), bez(cy))]
                if rng.random() < 0.5:
                    pts = [(b, a) for a, b in pts]
                inp = {"pts": pts}
            elif fam == "double-root":
                # a cubic whose x- (or y-) derivative touches zero without changing sign: control differences d0, d1, d2 with d1^2 = d0 d2,
                # d0 and d2 of one sign, d1 of the other (exact in floats for small integers)
                u, v, k = rng.randint(1, 4), rng.randint(1, 4), rng.choice([1, 1, 2, 3])
                d0, d1, d2 = k * u * u, -k * u * v, k * v * v
                sgn = rng.choice([-1, 1])
                xs = [0.0, float(sgn * d0), float(sgn * (d0 + d1)), float(sgn * (d0 + d1 + d2))]
                other = [float(rng.randint(-20, 20)) for _ in range(4)] if rng.random() < 0.5 else [0.0, 1.0, 2.0, 3.0]
                x0, y0 = float(rng.randint(-30, 30)), float(rng.randint(-30, 30))
                pts = [(x0 + a, y0 + b) for a, b in zip(xs, other)]
                if rng.random() < 0.5:
                    pts = [(b, a) for a, b in pts]
                inp = {"pts": pts}
            else:
                inp = {"pts": oc.rand_seg_pts(rng, order, fam)}
            kind = "seg"
        msg = run_one(kind, inp)
        if msg == "skip":
            skipped += 1
            continue
        if repr(inp) not in seen:
            seen.add(repr(inp))
            if kind == "path" or exact_extremes(inp["pts"]):
                nontriv += 1
        if msg:
            viol.append({"what": msg, "kind": kind, "input": inp})
            if len(viol) >= 5:
                break
        if len(samples) < 3 and kind == "path":
            samples.append(inp)
    return {"evaluations": i + 1, "distinct_nontrivial": nontriv, "boundary_skipped": skipped, "samples": samples}, viol


def classify(v, entry):
    return False


def replay(v):
    r = run_one(v["kind"], v["input"])
    return r is not None and r != "skip"
