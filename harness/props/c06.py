"""C06 — curve/curve and self intersections: no phantoms, no missed crossings."""
import math
from fractions import Fraction as F
from .. import tv, drive
from ..oracles import common as oc
from ..oracles import crossings as cr
from beziers.point import Point

ID = "C06"
TOPICS = ["Inter", "Box", "Eval", "Roots"]
LEAN_TARGETS = ["BezierVerif.Props.C06", "BezierVerif.Props.C06L"]
TV_DEFS = ["cubic_hasLoop", "bbox_overlaps", "bbox_area"]
RULE = ("(quadratic | cubic, quadratic | cubic) pairs with control points in a common +-100 .. +-1000 window (int, grid, dyadic, float families, arches, elevated); "
        "reference crossings by subdivision with control-polygon boxes + Newton; a pair is in the quantifier's domain when every crossing is transversal "
        "(angle >= 5 degrees), at least 1 % in parameter from the ends of both curves and pairwise at least 0.02 apart in parameter on each curve, else it is "
        "skipped and counted; both operand orders; looping cubics from a constructed family (two handles crossed over) plus random cubics; closed paths of 3..6 "
        "segments; for the model correspondence: curves with dyadic coordinates (exact halving in floats) and depth <= 40; non-trivial = at least one crossing "
        "or a loop; distinct = distinct pair / path")
UNPROVED = ["the real bounding box encloses its piece only up to C02's bands (extremes in the first/last 1 % may protrude): enclosure is a hypothesis of cc_complete and is sampled",
            "termination depth against the 1e-3 area threshold, and the 0.2 % tolerance arithmetic (boxes of area < 1e-3 are small relative to the extent only for non-thin boxes: K3) — sampled",
            "that hasLoop answers a pair for EVERY cubic with a double point (completeness of the canonical-form test): sampled against the exact double-point equations; soundness is proved (loop_params)"]
ASSUMPTIONS = ["box encloses piece (see above)", "math.sqrt real"]
LEVEL_TEXT = ("theorems for every environment (evaluation, halving, box, overlap, smallness, key): cc_complete (if every box encloses its piece then every common point of the "
              "two curves is reported, before and after the duplicate filter at every level, within half a terminal range in both parameters — ranges_halve: a terminal "
              "range at depth k has length 2^-k), cc_complete_close (with the repaired filter, keyed on the two-decimal buckets of BOTH parameters, the surviving report is within 0.01 in both parameters of a report lying within half a terminal range of the crossing), pinned_filter_counterexample (F25: keyed on the first parameter only the filter drops the second of two crossings), self_keeps_nonadjacent / self_mem_iff (the second loop of getSelfIntersections reports every intersection found for non-neighbouring segments and, for neighbouring ones, exactly those inside the 1e-2 window; pinned_self_window_counterexample: F26), dedupe_key_survives / key_close / key_far (the first report of every key survives; two reports whose parameters are 0.02 or more apart never share a two-decimal "
              "key), cc_ranges (every reported parameter is the midpoint of a sub-range: inside [0,1]), segEnv_split (the real halving "
              "retraces the curve: C01), overlap_of_common_point, phantom_counterexample (K3), loop_params (regenerated hasLoop, real sqrt: whenever it returns (t1, t2) the curve has the same point at both and t1 != t2); model tied to _curve_curve_intersections_t by exact comparison of the reported pairs")
LEVEL_NOTE = "trusted: Lean kernel + Mathlib, axioms {propext, Classical.choice, Quot.sound}, translator (hasLoop, box predicates), hand model Model/CC.lean (correspondence per run)"
TECHNIQUE = "hand model of the recursive subdivision over an abstract environment; induction on the recursion depth; list lemmas for the duplicate filter"


def combined_extent(P, Q):
    pts = list(P) + list(Q)
    xs = [p[0] for p in pts]
    ys = [p[1] for p in pts]
    return max(max(xs) - min(xs), max(ys) - min(ys), 1e-9)


def classify_pair(P, Q):
    """reference crossings restricted to the quantifier's domain: list of (t,u) or a reason string"""
    E = combined_extent(P, Q)
    xs = cr.crossings(P, Q, E)
    if xs is None:
        return "undecidable"
    for t, u, ang in xs:
        if ang < 5.0:
            return "tangential"
        if min(t, 1 - t, u, 1 - u) < 0.001:
            return "near-end"
    for i in range(len(xs)):
        for j in range(i + 1, len(xs)):
            # two crossings less than two filter buckets apart in BOTH parameters may be reported as one (they share a key of the duplicate
            # filter or sit in adjacent ones); crossings close in one parameter only are two crossings and both must be reported (F25)
            if abs(xs[i][0] - xs[j][0]) < 0.02 and abs(xs[i][1] - xs[j][1]) < 0.02:
                return "close-pair"
    return [(t, u) for t, u, _ in xs]


def shallow(P, Q, t, u):
    """K11 classifier: crossing angle below 12 degrees"""
    da, db = cr.dbez(P, t), cr.dbez(Q, u)
    na, nb = math.hypot(*da), math.hypot(*db)
    if na == 0 or nb == 0:
        return False
    return math.degrees(math.asin(min(1.0, abs(da[0] * db[1] - da[1] * db[0]) / (na * nb)))) < 12.0


def thin_top(P, Q):
    """K3 classifier: both operands' top-level bounding boxes have area < 1e-3"""
    A, B = oc.mkseg(P), oc.mkseg(Q)
    return A.bounds().area < 1e-3 and B.bounds().area < 1e-3


def thin_boxes(P, Q):
    """K14 classifier: both operands' top-level bounding boxes are thin — a side at most 1e-2 long — without having area < 1e-3 (K3)"""
    A, B = oc.mkseg(P), oc.mkseg(Q)
    a, b = A.bounds(), B.bounds()
    return min(a.right - a.left, a.top - a.bottom) <= 1e-2 and min(b.right - b.left, b.top - b.bottom) <= 1e-2


def axis_run(P, Q, t1, t2):
    """K14 classifier, second form: at the reported parameters one of the two curves runs within one degree of the x- or the y-direction
    (its pieces there have boxes of next to no area however long they are, so the absolute-area stop rule fires early).  t1 belongs to the
    operand of higher order (intersections() swaps), so both assignments are tried."""
    def near_axis(C, t):
        d = cr.dbez(C, min(1.0, max(0.0, t)))
        n = math.hypot(*d)
        if n == 0:
            return False
        return min(abs(d[0]), abs(d[1])) / n <= math.sin(math.radians(1.0))
    return any(near_axis(C, t) for C in (P, Q) for t in (t1, t2))


def check_pair(P, Q):
    ref = classify_pair(P, Q)
    if isinstance(ref, str):
        return "skip:" + ref
    A, B = oc.mkseg(P), oc.mkseg(Q)
    E = combined_extent(P, Q)
    tol = 0.002 * E
    try:
        ab = A.intersections(B)
        ba = B.intersections(A)
    except RecursionError:
        return "the intersection query does not terminate (recursion limit)"
    except Exception as ex:
        return "intersections raised %s: %s" % (type(ex).__name__, ex)
    for which, res, first, second in (("A.intersections(B)", ab, P, Q), ("B.intersections(A)", ba, Q, P)):
        for i in res:
            q1, q2 = i.seg1.pointAtTime(i.t1), i.seg2.pointAtTime(i.t2)       # seg1 is the operand of higher order, whichever was the receiver
            p1, p2 = (q1.x, q1.y), (q2.x, q2.y)
            d = math.hypot(p1[0] - p2[0], p1[1] - p2[1])
            if d > tol:
                if thin_top(P, Q):
                    return "K3"
                if thin_boxes(P, Q) or axis_run(P, Q, i.t1, i.t2):
                    return "K14"
                return "%s: phantom: the points at t1=%r and t2=%r are %r apart (> 0.2%% of the extent %r)" % (which, i.t1, i.t2, d, E)
            if not (0 < i.t1 <= 1 and 0 < i.t2 <= 1):
                return "%s: parameters (%r, %r) outside (0,1]" % (which, i.t1, i.t2)
        for t, u in ref:
            c = cr.bez(P, t)
            if not any(math.hypot(c[0] - i.point.x, c[1] - i.point.y) <= tol for i in res):
                if shallow(P, Q, t, u) and any(math.hypot(c[0] - i.point.x, c[1] - i.point.y) <= 2.5 * tol for i in res):
                    return "K11"
                return "%s: the crossing at (t,u) = (%r, %r), point %r, is not reported (%d report(s))" % (which, t, u, c, len(res))
    pa = [(i.point.x, i.point.y) for i in ab]
    pb = [(i.point.x, i.point.y) for i in ba]
    for x, other, nm in ((pa, pb, "A.intersections(B)"), (pb, pa, "B.intersections(A)")):
        for q in x:
            if not any(math.hypot(q[0] - r[0], q[1] - r[1]) <= 2 * tol for r in other):
                graze = not any(math.hypot(q[0] - cr.bez(P, t)[0], q[1] - cr.bez(P, t)[1]) <= 3 * tol for t, _ in ref)
                if graze and any(math.hypot(q[0] - r[0], q[1] - r[1]) <= 5 * tol for r in other):
                    return "K12"
                return "operand order: point %r reported by %s has no counterpart in the other order" % (q, nm)
    return None


def check_loop(P):
    """a cubic with a loop: hasLoop / getSelfIntersections report two distinct interior parameters of the same point; without: nothing"""
    from beziers.path import BezierPath
    seg = oc.mkseg(P)
    E = combined_extent(P, P)
    ref = cr.loop_params(P)
    has = ref is not None and 0.01 < ref[0] < 0.99 and 0.01 < ref[1] < 0.99
    borderline = ref is not None and not has and (-0.01 < ref[0] < 1.01 and -0.01 < ref[1] < 1.01)
    if borderline:
        return "skip:loop-near-end"
    path = BezierPath.fromSegments([seg])
    try:
        got = [i for i in path.getSelfIntersections() if i.seg1 is i.seg2 or True]
    except Exception as ex:
        return "getSelfIntersections raised %s: %s" % (type(ex).__name__, ex)
    if has:
        if len(got) != 1:
            return "a looping cubic (double point at %r) gets %d self-intersection(s)" % (ref, len(got))
        i = got[0]
        if not (0 < i.t1 < 1 and 0 < i.t2 < 1 and abs(i.t1 - i.t2) > 1e-6):
            return "loop parameters (%r, %r) are not two distinct interior parameters" % (i.t1, i.t2)
        a, b = cr.bez(P, i.t1), cr.bez(P, i.t2)
        if math.hypot(a[0] - b[0], a[1] - b[1]) > 1e-6 * E:
            return "loop parameters (%r, %r) evaluate to points %r apart" % (i.t1, i.t2, math.hypot(a[0] - b[0], a[1] - b[1]))
    elif got:
        return "a cubic without a loop gets a self-intersection at (%r, %r)" % (got[0].t1, got[0].t2)
    return None


def check_path(segs, closed=True):
    """every crossing of two non-adjacent segments (in the quantifier's domain) is reported; in an open path the first and the last segment
    are not neighbours"""
    path = oc.path_from(segs, closed)
    n = len(segs)
    pts = [p for s in segs for p in s]
    E = combined_extent(pts, pts)
    tol = 0.002 * E
    try:
        got = path.getSelfIntersections()
    except RecursionError:
        return "getSelfIntersections does not terminate (recursion limit)"
    except Exception as ex:
        return "getSelfIntersections raised %s: %s" % (type(ex).__name__, ex)
    for i in range(n):
        for j in range(i + 2, n):
            if closed and i == 0 and j == n - 1:
                continue
            if len(segs[i]) == 2 or len(segs[j]) == 2:
                continue            # line/curve crossings are C05's
            ref = classify_pair(segs[i], segs[j])
            if isinstance(ref, str):
                return "skip:" + ref
            for t, u in ref:
                c = cr.bez(segs[i], t)
                if not any(math.hypot(c[0] - x.point.x, c[1] - x.point.y) <= tol for x in got):
                    return "the crossing of segments %d and %d at %r is not among the %d reported self-intersections" % (i, j, c, len(got))
    for x in got:
        p1, p2 = x.seg1.pointAtTime(x.t1), x.seg2.pointAtTime(x.t2)
        if math.hypot(p1.x - p2.x, p1.y - p2.y) > tol:
            return "phantom self-intersection: points %r apart" % math.hypot(p1.x - p2.x, p1.y - p2.y)
    return None


# ----------------------------------------------------------------------------- generators

def rand_curve(rng, fam=None, span=100):
    order = rng.choice([3, 4, 4])
    fam = fam or rng.choice(["int", "grid", "dyadic", "float", "arch", "elevated"])
    pts = oc.rand_seg_pts(rng, order, fam)
    m = max(1.0, oc.maxabs(pts))
    k = span / m if fam in ("grid", "float", "dyadic") else 1.0
    return [(x * k, y * k) for x, y in pts] if k < 1 else pts


def straight_axis_curve(rng, horizontal):
    """a quadratic or cubic whose control points lie on one horizontal or vertical line (bounding box of zero area)"""
    n = rng.choice([3, 4])
    c = float(rng.randint(-40, 40))
    lo = float(rng.randint(-60, 0))
    hi = lo + float(rng.randint(20, 80))
    vals = [lo + (hi - lo) * k / (n - 1) for k in range(n)]
    return [(v, c) for v in vals] if horizontal else [(c, v) for v in vals]


def rand_pair(rng, i):
    if i % 12 == 7:
        # K3 family: a horizontal and a vertical straight curve that cross
        P = straight_axis_curve(rng, True)
        Q = straight_axis_curve(rng, False)
        if rng.random() < 0.35:
            # K14 family: the same, bent by a thousandth of a unit — genuinely curved, boxes thin but not of area < 1e-3
            bend = lambda C, k: [C[0]] + [((x, y + 1e-3) if k == 1 else (x + 1e-3, y)) for x, y in C[1:-1]] + [C[-1]]
            P, Q = bend(P, 1), bend(Q, 0)
        x = 0.25 * P[0][0] + 0.75 * P[-1][0]
        y = P[0][1]
        Q = [(x, v - (0.4 * Q[0][1] + 0.6 * Q[-1][1]) + y) for _, v in Q]
        return P, Q
    if i % 12 == 2:
        # "X" family: two point-symmetric monotone curves with integer coordinates crossing at t = u = 1/2,
        # so that the boxes of their halves only touch (closed-interval overlap is essential)
        cx, cy = float(rng.randint(-40, 40)), float(rng.randint(-40, 40))
        def sym(sx, sy):
            w, h = float(rng.randint(20, 60)), float(rng.randint(20, 60))
            a, b = float(rng.randint(2, 15)), float(rng.randint(2, 15))
            p0 = (cx - sx * w, cy - sy * h)
            p3 = (cx + sx * w, cy + sy * h)
            if rng.random() < 0.5:
                return [p0, (p0[0] + sx * a, p0[1] + sy * b), (p3[0] - sx * a, p3[1] - sy * b), p3]
            return [p0, (cx - sx * a, cy + sy * b) if False else (cx, cy), p3] if False else [p0, (p0[0] + sx * a, p0[1] + sy * b), (p3[0] - sx * a, p3[1] - sy * b), p3]
        return sym(1, 1), sym(1, -1)
    if i % 12 == 9:
        # operands of very different kinds: an ordinary curve and either a straight axis-parallel one (a bounding box of zero area from
        # the start) or a curve a thousand times smaller, through a point of the first away from its middle
        P = rand_curve(rng)
        if rng.random() < 0.5:
            Q = straight_axis_curve(rng, rng.random() < 0.5)
        else:
            Q = [(x / 1000.0, y / 1000.0) for x, y in rand_curve(rng)]
        t, u = rng.choice([rng.uniform(0.1, 0.35), rng.uniform(0.65, 0.9)]), rng.uniform(0.2, 0.8)
        a, b = cr.bez(P, t), cr.bez(Q, u)
        Q = [(x + a[0] - b[0], y + a[1] - b[1]) for x, y in Q]
        return (P, Q) if rng.random() < 0.6 else (Q, P)
    if i % 12 == 5:
        # a wide shallow arch crossed twice by a tall narrow arch: the two crossings are 0.03 .. 0.08 apart in the wide curve's parameter
        # (far enough to count as two, close enough to share a tenth) and far apart in the narrow curve's
        x0, y0 = float(rng.randint(-100, 100)), float(rng.randint(-100, 100))
        W, H = float(rng.randint(600, 1200)), float(rng.randint(150, 300))
        c = rng.uniform(0.15, 0.85)
        w = W * rng.uniform(0.04, 0.09)
        P = [(x0, y0), (x0 + W / 2, y0 + H), (x0 + W, y0)]
        hb = H * rng.uniform(1.5, 2.5)
        Q = [(x0 + c * W - w / 2, y0), (x0 + c * W, y0 + hb), (x0 + c * W + w / 2, y0)]
        if rng.random() < 0.5:
            ce = lambda q: [q[0], ((q[0][0] + 2 * q[1][0]) / 3, (q[0][1] + 2 * q[1][1]) / 3), ((2 * q[1][0] + q[2][0]) / 3, (2 * q[1][1] + q[2][1]) / 3), q[2]]
            P, Q = ce(P), ce(Q)
        if rng.random() < 0.3:
            P, Q = [(y, x) for x, y in P], [(y, x) for x, y in Q]
        return (P, Q) if rng.random() < 0.7 else (Q, P)
    if i % 12 == 11:
        # a narrow hairpin (two nearly parallel branches 0.3 .. 1.5 % of the extent apart) crossed squarely by a nearly straight curve: the
        # two crossings are 0.002 .. 0.009 apart in the crossing curve's parameter — they share a two-decimal bucket more often than not —
        # and far apart in the hairpin's (F25 family)
        import math
        L = float(rng.randint(150, 400))
        gap = L * rng.uniform(0.004, 0.016)
        y0 = rng.uniform(-3.0, 3.0)
        Q = [(0.0, y0), (0.95 * L, y0), (0.95 * L, y0 + gap / 0.75), (0.0, y0 + gap / 0.75)]
        x = L * rng.uniform(0.1, 0.45)
        h = L * rng.uniform(0.45, 0.6)
        off = rng.uniform(-0.3, 0.3) * h
        b = rng.uniform(-0.01, 0.01) * L
        P = [(x, off - h), (x + b, off - h / 3), (x - b, off + h / 3), (x, off + h)]
        if rng.random() < 0.4:
            P = [P[0], ((P[1][0] + P[2][0]) / 2, (P[1][1] + P[2][1]) / 2 + rng.uniform(-0.05, 0.05) * h), P[3]]
        a = rng.uniform(0, 2 * math.pi) if rng.random() < 0.5 else 0.0
        ca, sa = math.cos(a), math.sin(a)
        dx, dy = float(rng.randint(-100, 100)), float(rng.randint(-100, 100))
        mv = lambda pts: [(ca * px - sa * py + dx, sa * px + ca * py + dy) for px, py in pts]
        P, Q = mv(P), mv(Q)
        return (P, Q) if rng.random() < 0.6 else (Q, P)
    P = rand_curve(rng)
    Q = rand_curve(rng)
    if i % 4 == 0:
        # make Q pass through a point of P
        t, u = rng.uniform(0.1, 0.9), rng.uniform(0.1, 0.9)
        a, b = cr.bez(P, t), cr.bez(Q, u)
        Q = [(x + a[0] - b[0], y + a[1] - b[1]) for x, y in Q]
        if rng.random() < 0.5:
            Q = [(float(round(x)), float(round(y))) for x, y in Q]
    return P, Q


def rand_loop(rng):
    """cubic whose handles cross over: usually has a loop"""
    x0, y0 = float(rng.randint(-50, 50)), float(rng.randint(-50, 50))
    w = float(rng.randint(20, 120))
    h = float(rng.randint(40, 200))
    P = [(x0, y0), (x0 + w + rng.randint(10, 80), y0 + h), (x0 - rng.randint(10, 80), y0 + h + rng.randint(-20, 20)), (x0 + w, y0 + rng.randint(-10, 10))]
    P = [(float(x), float(y)) for x, y in P]
    # either rotational sense (mirror image) and either direction of travel
    if rng.random() < 0.5:
        P = [(x, 2 * y0 - y) for x, y in P]
    if rng.random() < 0.5:
        P = P[::-1]
    return P


def rand_closed(rng):
    n = rng.randint(3, 6)
    nodes = []
    while len(nodes) < n:
        p = (float(rng.randint(-100, 100)), float(rng.randint(-100, 100)))
        if p not in nodes:
            nodes.append(p)
    segs = []
    for k in range(n):
        a, b = nodes[k], nodes[(k + 1) % n]
        order = rng.choice([2, 3, 4, 4])
        inner = [(float(rng.randint(-120, 120)), float(rng.randint(-120, 120))) for _ in range(order - 2)]
        if k == 0 and rng.random() < 0.6:
            # a looping cubic between the first two nodes, of either rotational sense (mirror image) and either direction of travel:
            # a similarity maps the loop's ends onto the nodes
            L = rand_loop(rng)
            if rng.random() < 0.5:
                L = [(x, -y) for x, y in L]
            if rng.random() < 0.5:
                L = L[::-1]
            z = lambda p: complex(p[0], p[1])
            m = (z(b) - z(a)) / (z(L[3]) - z(L[0]))
            w = [z(a) + m * (z(q) - z(L[0])) for q in L]
            inner = [(w[1].real, w[1].imag), (w[2].real, w[2].imag)]
        segs.append([a] + inner + [b])
    return segs


# ----------------------------------------------------------------------------- correspondence

def model_corr(ctx):
    rng = ctx.rng
    lines, metas = [], []
    for i in range(14 * ctx.scale):
        fam = rng.choice(["int", "dyadic", "int", "grid"])
        P = rand_curve(rng, fam)
        Q = rand_curve(rng, fam)
        if i % 3 == 0:
            t, u = rng.choice([0.25, 0.5, 0.375, 0.75]), rng.choice([0.25, 0.5, 0.625])
            a, b = cr.bez(P, t), cr.bez(Q, u)
            Q = [(x + a[0] - b[0], y + a[1] - b[1]) for x, y in Q]
        A, B = oc.mkseg(P), oc.mkseg(Q)
        try:
            got = [tuple(x) for x in A._curve_curve_intersections_t(B)]
        except Exception as ex:
            continue
        lines.append("model cc.run 60 %s %s" % (oc.seg_tokens(P), oc.seg_tokens(Q)))
        metas.append((P, Q, got))
    replies = drive.run_lines(lines, timeout=3000)
    dis = []
    nonempty = 0
    borderline = 0
    for (P, Q, got), rep in zip(metas, replies):
        exp = drive.parse_ok(rep)
        flat = [F(v) for p in got for v in p]
        nonempty += bool(flat)
        if exp is None or exp != flat:
            # exact and float box arithmetic can legitimately differ when two boxes touch within rounding, or an area is within rounding of 1e-3
            if exp is not None and same_up_to_borderline(exp, flat):
                borderline += 1
                continue
            dis.append({"kind": "model-vs-impl", "model": "cc.run", "P": P, "Q": Q, "lean": rep[:300], "impl": repr(got)[:300]})
    return {"model_compared": len(metas), "model_nonempty": nonempty, "model_borderline": borderline}, dis


def self_corr(ctx):
    """second loop of getSelfIntersections against CC.selfPairs: the model gets what `intersections` returned for every pair, in loop
    order, and must report the same (t1, t2) sequence as the real query (after its loop entries)"""
    rng = ctx.rng
    lines, metas = [], []
    for i in range(10 * ctx.scale):
        segs = rand_closed(rng)
        if i % 3 == 2:
            # a crossing of two non-neighbouring segments close to an end of one of them (F26 family): bend segment 2 so that it passes
            # through a point of segment 0 just after that segment's start / before its end
            if len(segs) >= 4:
                t = rng.choice([rng.uniform(0.001, 0.009), rng.uniform(0.991, 0.999)])
                c = cr.bez(segs[0], t)
                s2 = segs[2]
                if len(s2) >= 3:
                    u = 0.5
                    m = cr.bez(s2, u)
                    k = 1 if len(s2) == 3 else rng.choice([1, 2])
                    w = {3: 0.5, 4: 0.375}[len(s2)]
                    s2 = list(s2)
                    s2[k] = (s2[k][0] + (c[0] - m[0]) / w, s2[k][1] + (c[1] - m[1]) / w)
                    segs[2] = s2
        closed = rng.random() < 0.75
        path = oc.path_from(segs, closed)
        sl = path.asSegments()
        n = len(sl)
        try:
            got = path.getSelfIntersections()
        except Exception:
            continue
        nloops = sum(1 for x in got if x.seg1 is x.seg2)
        groups = []
        for i1 in range(n):
            for i2 in range(i1 + 1, n):
                prs = [(x.t1, x.t2) for x in sl[i1].intersections(sl[i2])]
                groups.append("%d %d %s" % (i1, i2, " ".join("%s %s" % (drive.rat(a), drive.rat(b)) for a, b in prs)))
        lines.append("model self.pairs %d %d | %s" % (1 if closed else 0, n, " | ".join(groups)))
        metas.append((segs, closed, [(x.t1, x.t2) for x in got[nloops:]]))
    replies = drive.run_lines(lines, timeout=3000)
    dis = []
    kept = 0
    for (segs, closed, got), rep in zip(metas, replies):
        exp = drive.parse_ok(rep)
        flat = [F(v) for p in got for v in p]
        kept += len(got)
        if exp is None or [v for k, v in enumerate(exp) if k % 4 >= 2] != flat:
            dis.append({"kind": "model-vs-impl", "model": "self.pairs", "segs": segs, "closed": closed, "lean": rep[:300], "impl": repr(got)[:300]})
    return {"self_compared": len(metas), "self_reports": kept}, dis


def same_up_to_borderline(exp, flat):
    """the two reports describe the same crossings: every pair of one is within 2^-8 of a pair of the other"""
    a = list(zip(exp[0::2], exp[1::2]))
    b = list(zip(flat[0::2], flat[1::2]))
    if not a and not b:
        return True
    if not a or not b:
        return False
    near = lambda p, l: any(abs(p[0] - q[0]) <= F(1, 256) and abs(p[1] - q[1]) <= F(1, 256) for q in l)

    def tie_dropped(p, l):
        """a crossing that sits exactly on subdivision boundaries of BOTH curves (both parameters within 2^-11 of a dyadic rational of
        denominator <= 64) is found from several neighbouring pieces; which of them survives box tests decided by a tie differs between
        exact and float arithmetic, and the duplicate filter (one report per two-decimal bucket of the first parameter) then keeps the
        crossing in one report and drops it in the other in favour of a neighbour in the same or the adjacent bucket"""
        dy = lambda v: abs(v * 64 - round(v * 64)) <= F(64, 2048)
        if not (dy(p[0]) and dy(p[1])):
            return False
        return any(abs(round(p[0] * 100) - round(q[0] * 100)) <= 1 for q in l)
    return all(near(p, b) or tie_dropped(p, b) for p in a) and all(near(p, a) or tie_dropped(p, a) for p in b)


def env_hook(name, env, rng, fam):
    if name == "cubic_hasLoop" and rng.random() < 0.5:
        P = rand_loop(rng)
        for k, (x, y) in enumerate(P):
            env["p%dx" % k], env["p%dy" % k] = x, y
    return env


def correspondence(ctx):
    stats, dis = tv.validate(TV_DEFS, ctx.rng, 30 * ctx.scale, tol_rel=1e-7, env_hook=env_hook)
    m, d2 = model_corr(ctx)
    stats.update(m)
    m3, d3 = self_corr(ctx)
    stats.update(m3)
    stats["distinct_nontrivial"] = 0
    return stats, dis + d2 + d3


def check_after_edit(P, seed):
    """crossings are those of the curve as it is NOW: ask for the box and for crossings, change the control points in place (one of the
    routes of oracles/common.edit_in_place, or balance()), then intersect with a short curve laid through a point of the EDITED curve;
    the answer must be the answer of a fresh segment with the same control points"""
    import random
    rng = random.Random(seed)
    A = oc.mkseg(P)
    A.bounds()
    A.intersections(oc.mkseg([(P[0][0] + 1000.0, P[0][1]), (P[0][0] + 1010.0, P[0][1] + 7.0), (P[0][0] + 1020.0, P[0][1])]))
    if len(P) == 4 and rng.random() < 0.3:
        A.balance()
        route = "balance"
    else:
        route, _ = oc.edit_in_place(A, rng)
    new = [(q.x, q.y) for q in A.points]
    t = rng.uniform(0.25, 0.75)
    c = cr.bez(new, t)
    eps = 1e-3
    c2 = cr.bez(new, t + eps)
    dx, dy = c2[0] - c[0], c2[1] - c[1]
    n = math.hypot(dx, dy)
    if n == 0:
        return None
    nx, ny = -dy / n, dx / n                     # unit normal of the edited curve at t
    h = max(1.0, 0.05 * oc.extent(new))
    Q = [(c[0] - nx * h, c[1] - ny * h), (c[0] + ny * h * 0.1, c[1] - nx * h * 0.1), (c[0] + nx * h, c[1] + ny * h)]
    B = oc.mkseg(Q)
    key = lambda l: sorted((round(i.t1, 6), round(i.t2, 6)) for i in l)
    got = key(A.intersections(B))
    want = key(oc.mkseg(new).intersections(oc.mkseg(Q)))
    if got != want:
        return "after changing the control points in place (%s) the curve %r meets %r at %r; a fresh segment with the same control points at %r (stale state)" % (
            route, new, Q, got, want)
    return None


def run_one(kind, inp):
    if kind == "pair":
        return check_pair([tuple(p) for p in inp["P"]], [tuple(p) for p in inp["Q"]])
    if kind == "loop":
        return check_loop([tuple(p) for p in inp["P"]])
    if kind == "edit":
        return check_after_edit([tuple(p) for p in inp["P"]], inp["seed"])
    return check_path([[tuple(p) for p in s] for s in inp["segs"]], inp.get("closed", True))


def rand_open_crossing(rng):
    """an open path of three curves whose last segment crosses the first squarely within 1 % of the first's start or end (or well inside
    it): first and last are not neighbours in an open path, so the crossing belongs to the answer wherever it is"""
    S0 = rand_curve(rng, "int")
    while len(S0) < 3:
        S0 = rand_curve(rng, "int")
    t = rng.choice([rng.uniform(0.002, 0.008), rng.uniform(0.992, 0.998), rng.uniform(0.2, 0.8)])
    c = cr.bez(S0, t)
    d = cr.dbez(S0, t)
    n = math.hypot(*d) or 1.0
    nx, ny = -d[1] / n, d[0] / n                       # across the first segment
    h = rng.uniform(60, 140)
    k = rng.uniform(5, 15)
    tx, ty = d[0] / n, d[1] / n
    S2 = [(c[0] - nx * h - tx * k, c[1] - ny * h - ty * k), (c[0] - nx * h / 3, c[1] - ny * h / 3),
          (c[0] + nx * h / 3, c[1] + ny * h / 3), (c[0] + nx * h + tx * k, c[1] + ny * h + ty * k)]      # point-symmetric about c: S2(1/2) = c
    far = (S0[-1][0] + 400.0 + rng.uniform(0, 100), S0[-1][1] - 300.0)
    S1 = [S0[-1], (far[0], far[1] + 150.0), (far[0] - 50.0, far[1] - 200.0), S2[0]]
    return [S0, S1, S2]


def search(ctx, budget):
    rng = ctx.rng
    n = 192 * ctx.scale * budget
    seen = set()
    nontriv = 0
    skipped = {}
    viol, samples = [], []
    npairs = 0
    for i in range(n):
        r = i % 6
        if r < 3:
            P, Q = rand_pair(rng, npairs)          # the families of rand_pair are keyed on the running number of pairs
            npairs += 1
            kind, inp = "pair", {"P": P, "Q": Q}
        elif r == 3:
            kind, inp = "loop", {"P": rand_loop(rng) if rng.random() < 0.7 else rand_curve(rng, "int")[:4] if False else rand_loop(rng)}
        elif r == 4 and i % 12 == 4:
            kind, inp = "edit", {"P": rand_curve(rng), "seed": rng.randrange(1 << 30)}
        elif r == 4:
            P = oc.rand_seg_pts(rng, 4, rng.choice(["int", "grid", "float"]))
            kind, inp = "loop", {"P": P}
        elif i % 18 == 5:
            kind, inp = "path", {"segs": rand_open_crossing(rng), "closed": False}
        else:
            kind, inp = "path", {"segs": rand_closed(rng)}
        msg = run_one(kind, inp)
        if msg and msg.startswith("skip:"):
            skipped[msg[5:]] = skipped.get(msg[5:], 0) + 1
            continue
        key = repr(inp)
        if key not in seen:
            seen.add(key)
            nontriv += 1
        if msg:
            viol.append({"what": msg, "kind": kind, "input": inp})
            if len([v for v in viol if v["what"] not in ("K3", "K11", "K12", "K14")]) >= 5:
                break
        if len(samples) < 3:
            samples.append(inp)
    return {"evaluations": i + 1, "distinct_nontrivial": nontriv, "skipped": skipped, "samples": samples}, viol


def classify(v, entry):
    return entry["id"] in ("K3", "K11", "K12", "K14") and v.get("what") == entry["id"]


def replay(v):
    r = run_one(v["kind"], v["input"])
    return r is not None and not r.startswith("skip:")
