"""C02 — bounding boxes enclose the curve and are tight."""
from fractions import Fraction as F
from .. import tv, drive
from ..oracles import common as oc
from beziers.boundingbox import BoundingBox

ID = "C02"
TOPICS = ["Roots", "Box", "Eval"]
LEAN_TARGETS = ["BezierVerif.Props.Roots", "BezierVerif.Props.C02", "BezierVerif.Props.C03", "BezierVerif.Props.C02E"]
TV_DEFS = ["quadraticRoots", "cubic_dcoeffs", "quad_findDRoots", "bbox_extend_point", "bbox_extend_first"]
RULE = ("segments of the three kinds from the Appendix-B families (explicitly: symmetric arches and degree-elevated curves whose derivative "
        "loses its leading term); every box is tested against the exact curve at 401 rational parameters plus the exact critical points; "
        "paths of 1..6 segments; non-trivial = polygon with >= 2 distinct points; distinct = distinct polygons")
UNPROVED = ["float residuals of the root formulas and of the evaluation (theorems are over the reals; sampled at 1e-9 relative with exact-rational references)",
            "the enclosure / protrusion theorems speak about the hand model Model/Extremes.lean of findExtremes/bounds over the regenerated leaves; its agreement with the code is the per-run correspondence"]
ASSUMPTIONS = ["math.sqrt is the real square root", "the hand model Model/Extremes.lean mirrors findExtremes/bounds (correspondence per run)"]
LEVEL_TEXT = ("theorems: C02E.enclosure (for EVERY segment and EVERY t in [0,1] the point lies in the reported box enlarged by 6/10000 of the control polygon's extent), "
              "C02E.enclosure_exact (no allowance at all when no simple root of x' or y' lies strictly inside the first or last 1 %), built from le_end_or_simple (a function whose "
              "derivative is a quadratic is bounded by its values at 0, 1 and the interior SIMPLE roots: compactness + Fermat; a double root or a vanishing derivative means monotone), "
              "C01's HasDerivAt theorems, band_mem (every simple root in [0.01,0.99] is reported: cubic_extremes_mem_iff / quad_findDRoots_mem on the regenerated code), "
              "cubic_protrusion_lo/hi and quad_protrusion_lo/hi (f(e) - f(0) = -e^2((3-2e)D2P0 + 2e D2P1) when f'(e)=0, hence <= 6e^2 E: the property's 0.06 % is proved, not fitted); "
              "quadraticRoots_mem_iff (the regenerated solver returns exactly the simple roots in [0,1], including the linear fall-back), "
              "droots_coeffs (the solver is fed the derivative's coefficients), extend = min/max accumulation, bounds_is_hull (the box is the tight hull of the "
              "points at 0, 1 and every reported extreme: contains them, each side attained — tightness), path_bounds_smallest (least box containing the segment boxes)")
LEVEL_NOTE = ("trusted: Lean kernel + Mathlib, axioms {propext, Classical.choice, Quot.sound}, translator (validated per run), hand model of the list glue "
              "(correspondence per run)")
TECHNIQUE = "symbolic tracing to Lean; case analysis on the solver's decision tree + field algebra; real analysis (extreme value theorem, Fermat, monotonicity from the derivative's sign) for enclosure; list induction for the hull; exact-rational sampling oracle"


def close(a, b, scale, rel=1e-9):
    return abs(F(a) - F(b)) <= rel * scale


def model_corr(ctx):
    rng = ctx.rng
    lines, metas = [], []
    for i in range(30 * ctx.scale):
        order = rng.choice([2, 3, 4])
        fam = rng.choice(["int", "grid", "arch", "elevated", "float", "collinear", "coincident"])
        pts = oc.rand_seg_pts(rng, order, fam)
        lines.append("model extremes " + oc.seg_tokens(pts)); metas.append(("extremes", pts))
        lines.append("model bounds " + oc.seg_tokens(pts)); metas.append(("bounds", pts))
    for i in range(6 * ctx.scale):
        segs = [oc.rand_seg_pts(rng, rng.choice([2, 3, 4]), rng.choice(["int", "arch", "grid"])) for _ in range(rng.randint(1, 5))]
        lines.append("model pathbounds " + " ".join(oc.seg_tokens(s) for s in segs)); metas.append(("pathbounds", segs))
    replies = drive.run_lines(lines)
    dis = []
    for (kind, data), rep in zip(metas, replies):
        if kind == "extremes":
            seg = oc.mkseg(data)
            got = list(seg.findExtremes())
            exp = drive.parse_ok(rep)
            scale = 1.0
            ok = exp is not None and len(exp) == len(got) and all(close(a, b, 1.0, 1e-7) for a, b in zip(got, exp))
            if not ok and exp is not None and near_tie(data):
                continue
        elif kind == "bounds":
            seg = oc.mkseg(data)
            bb = seg.bounds()
            got = [bb.bl.x, bb.bl.y, bb.tr.x, bb.tr.y]
            exp = drive.parse_ok(rep)
            scale = max(1.0, oc.maxabs(data))
            ok = exp is not None and all(close(a, b, scale, 1e-7) for a, b in zip(got, exp))
            if not ok and exp is not None and near_tie(data):
                continue
        else:
            p = oc.path_from(data, False)
            bb = p.bounds()
            got = [bb.bl.x, bb.bl.y, bb.tr.x, bb.tr.y]
            exp = drive.parse_ok(rep)
            scale = max(1.0, max(oc.maxabs(s) for s in data))
            ok = exp is not None and all(close(a, b, scale, 1e-7) for a, b in zip(got, exp))
            if not ok and exp is not None and any(near_tie(s) for s in data):
                continue
        if not ok:
            dis.append({"kind": "model-vs-impl", "model": kind, "input": data, "lean": rep[:200], "impl": [repr(g) for g in got]})
    return {"model_compared": len(metas)}, dis


def near_tie(pts, ends=True):
    """a derivative root within 1e-7 of the 0.01/0.99 filter, of 0/1 (ends=True: the solver's own [0,1] filter; irrelevant to findExtremes,
    which keeps [0.01, 0.99] only), or a near-double root: float and exact may decide differently"""
    for coords in ([p[0] for p in pts], [p[1] for p in pts]):
        if len(coords) < 3:
            continue
        roots, d = oc.deriv_roots(coords)
        for r, simple in roots:
            for edge in ((F(1, 100), F(99, 100), F(0), F(1)) if ends else (F(1, 100), F(99, 100))):
                if abs(r - edge) < F(1, 10 ** 7):
                    return True
        if d[2] != 0:
            D = d[1] * d[1] - 4 * d[2] * d[0]
            if D == 0 and all(float(c).is_integer() and abs(c) < 2 ** 20 for c in coords):
                continue        # an exact double root of small-integer data: the float discriminant is exactly 0 too, nothing to disagree about
            if abs(D) <= F(1, 10 ** 9) * (d[1] * d[1] + abs(4 * d[2] * d[0])):
                return True
    return False


def correspondence(ctx):
    stats, dis = tv.validate(TV_DEFS, ctx.rng, 30 * ctx.scale, tol_rel=1e-7)
    m, d2 = model_corr(ctx)
    stats.update(m)
    stats["distinct_nontrivial"] = 0
    return stats, dis + d2


def check_segment(pts):
    seg = oc.mkseg(pts)
    bb = seg.bounds()
    scale = max(1.0, oc.maxabs(pts))
    ext = oc.extent(pts)
    crit = []
    band = False
    for coords in ([p[0] for p in pts], [p[1] for p in pts]):
        if len(coords) >= 3:
            for r, simple in oc.deriv_roots(coords)[0]:
                if 0 < r < 1:
                    crit.append(r)
                    if r < F(1, 100) or r > F(99, 100):
                        band = True
    allow = F(6, 10000) * F(ext) if band else F(0)
    eps = F(scale) / 10 ** 9
    ts = [F(k, 400) for k in range(401)] + crit
    l, b, r, t = F(bb.bl.x), F(bb.bl.y), F(bb.tr.x), F(bb.tr.y)
    touched = [False] * 4
    for tt in ts:
        x, y = oc.bern_pt(pts, tt)
        if x < l - allow - eps or x > r + allow + eps or y < b - allow - eps or y > t + allow + eps:
            return "the point at t=%s (%r, %r) lies outside the box [%r,%r]x[%r,%r]%s" % (
                float(tt), float(x), float(y), bb.bl.x, bb.tr.x, bb.bl.y, bb.tr.y, "" if not band else " beyond the 0.06% allowance")
        for k, (v, side) in enumerate(((x, l), (x, r), (y, b), (y, t))):
            if abs(v - side) <= eps:
                touched[k] = True
    if not all(touched):
        return "the box is not tight: side(s) %s not touched by the curve" % [n for n, ok in zip("lrbt", touched) if not ok]
    return None


def check_path(segs):
    p = oc.path_from(segs, False)
    bb = p.bounds()
    boxes = [oc.mkseg(s).bounds() for s in segs]
    exp = (min(b.bl.x for b in boxes), min(b.bl.y for b in boxes), max(b.tr.x for b in boxes), max(b.tr.y for b in boxes))
    if (bb.bl.x, bb.bl.y, bb.tr.x, bb.tr.y) != exp:
        return "path box %r is not the smallest box containing its segments' boxes %r" % ((bb.bl.x, bb.bl.y, bb.tr.x, bb.tr.y), exp)
    return None


def check_after_edit(pts):
    """the box is a function of the segment as it is NOW: ask for it, move a control point in place (the Point objects are mutable and the
    library mutates them itself, e.g. Point.rotate), ask again — the answer must be that of a fresh segment with the new control points"""
    seg = oc.mkseg(pts)
    seg.bounds()
    j = len(pts) // 2
    dx = oc.extent(pts) * 0.75 + 1.0
    seg[j].x = seg[j].x + dx
    seg[-1].y = seg[-1].y - dx
    new = [(p.x, p.y) for p in seg.points]
    a, b = seg.bounds(), oc.mkseg(new).bounds()
    if (a.left, a.bottom, a.right, a.top) != (b.left, b.bottom, b.right, b.top):
        return "after moving control points in place the box is %r, a fresh segment with the same control points has %r (stale answer)" % (
            (a.left, a.bottom, a.right, a.top), (b.left, b.bottom, b.right, b.top))
    return None


def run_one(kind, inp):
    if kind == "seg":
        pts = [tuple(p) for p in inp["pts"]]
        box = lambda g: (lambda b: (b.left, b.bottom, b.right, b.top))(g.bounds())
        return check_segment(pts) or check_after_edit(pts) or oc.repeat_check(pts, [("findExtremes()", lambda g: tuple(g.findExtremes())), ("bounds()", box)])
    segs = [[tuple(p) for p in s] for s in inp["segs"]]
    chained = []
    cur = segs[0][0]
    for sg in segs:        # translate every segment onto the end of the previous one: a connected path for the in-place operations
        dx, dy = cur[0] - sg[0][0], cur[1] - sg[0][1]
        sg2 = [(x + dx, y + dy) for x, y in sg]
        sg2[0] = cur
        chained.append(sg2)
        cur = sg2[-1]
    return check_path(segs) or oc.path_stale_check(chained, False, hash(repr(segs)) & 0xFFFFFF, [
        ("bounds()", lambda g: (lambda b: (b.left, b.bottom, b.right, b.top))(g.bounds()))])


def search(ctx, budget):
    rng = ctx.rng
    n = 300 * ctx.scale * budget
    viol, samples = [], []
    seen = set()
    nontriv = 0
    fams = {}
    for i in range(n):
        if i % 8 == 7:
            segs = [oc.rand_seg_pts(rng, rng.choice([2, 3, 4]), rng.choice(["int", "arch", "grid", "float"])) for _ in range(rng.randint(1, 6))]
            if rng.random() < 0.6:
                # a segment whose two ends lie inside the box of the segments before it while its middle bulges out of that box
                bx = [oc.mkseg(s).bounds() for s in segs]
                l, b_, r, tp = min(q.left for q in bx), min(q.bottom for q in bx), max(q.right for q in bx), max(q.top for q in bx)
                w, h = max(r - l, 1.0), max(tp - b_, 1.0)
                a = (l + 0.3 * w, b_ + 0.5 * h)
                c = (l + 0.7 * w, b_ + 0.5 * h)
                d = rng.choice([(0.0, 3 * h + 5), (0.0, -3 * h - 5), (3 * w + 5, 0.0), (-3 * w - 5, 0.0)])
                m = ((a[0] + c[0]) / 2 + d[0], (a[1] + c[1]) / 2 + d[1])
                bulge = [a, m, c] if rng.random() < 0.5 else [a, (a[0] + d[0], a[1] + d[1]), (c[0] + d[0], c[1] + d[1]), c]
                segs.insert(rng.randint(1, len(segs)), bulge)
            inp = {"segs": segs}
            kind = "path"
        else:
            order = 2 + i % 3
            fam = ["int", "grid", "arch", "elevated", "dyadic", "float", "collinear", "coincident", "arch", "evenspaced", "tiny", "retracted", "teardrop", "axishandles"][(i // 3) % 14]
            fams[fam] = fams.get(fam, 0) + 1
            inp = {"pts": oc.rand_seg_pts(rng, order, fam)}
            kind = "seg"
        if repr(inp) not in seen:
            seen.add(repr(inp))
            nontriv += 1
        msg = run_one(kind, inp)
        if msg:
            viol.append({"what": msg, "kind": kind, "input": inp})
            if len(viol) >= 5:
                break
        if len(samples) < 3:
            samples.append(inp)
    return {"evaluations": i + 1, "distinct_nontrivial": nontriv, "families": fams, "samples": samples}, viol


def classify(v, entry):
    return False


def replay(v):
    return run_one(v["kind"], v["input"]) is not None
