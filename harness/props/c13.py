"""C13 — curve-preserving Boolean operations invent no geometry."""
import math
from fractions import Fraction as F
from .. import drive
from ..oracles import common as oc
from ..oracles import clipcommon as cc
from . import c12

ID = "C13"
TOPICS = []
LEAN_TARGETS = ["BezierVerif.Props.C12"]
RULE = ("pairs of closed paths as in C12, the three operations in the default curve-preserving mode; every result segment is sampled at 9 parameters and "
        "its distance to the (finely flattened) input outlines measured; the recorded clipper polygons and the reconstruction table (rebuilt from the "
        "recorded segment-level flatten(2) calls) are replayed through the model; for sentence 2: pairs of rectangles / ellipses / circles with sizes "
        "20..240 and centres within +-100 whose outlines cross; non-trivial = outlines cross; distinct = distinct (pair, operation)")
UNPROVED = ["that every table value is a (reversed) piece of an input segment rests on C03's cutSeg_retrace plus the `_orig` back-pointer (object attribute; sampled)",
            "distance of the straight fall-back edges to the input outlines (depends on ClipperSpec) — sampled",
            "sentence 2 (connected closed contours with polygon-mode region semantics) is known finding K2: sampled and reported, not proved"]
ASSUMPTIONS = ["ClipperSpec (pyclipper computes the requested combination)", "point keys of the reconstruction table compare exactly (integer-valued floats)"]
LEVEL_TEXT = ("theorems for EVERY pyclipper answer and EVERY reconstruction table: recon_members (each result segment is a table value or a straight edge between two consecutive "
              "clipper vertices — nothing else can appear), wrapEdges_closed, no_polygons_no_paths; with C03 (pieces retrace the input segment) this gives sentence 1. "
              "Sentence 2 fails on the unchanged tree (known finding K2) and is reported as such. Model tied to clip() by replaying polygons + table")
LEVEL_NOTE = "trusted: Lean kernel, axioms {propext, Classical.choice, Quot.sound}, hand model Model/Clip.lean (replay correspondence per run); pyclipper NOT verified"
TECHNIQUE = "hand model of the reconstruction loop over arbitrary clipper answers and tables; list induction; distance sampling"


def correspondence(ctx):
    return c12.correspondence(ctx, flat=False, count=8)


def seg_samples(pts, n=9):
    out = []
    k = len(pts) - 1
    for i in range(n):
        t = i / (n - 1)
        mt = 1 - t
        out.append((sum(math.comb(k, j) * mt ** (k - j) * t ** j * pts[j][0] for j in range(k + 1)),
                    sum(math.comb(k, j) * mt ** (k - j) * t ** j * pts[j][1] for j in range(k + 1))))
    return out


def smooth(spec):
    if spec["kind"] == "ellipse":
        return min(spec["rx"], spec["ry"]) ** 2 / max(spec["rx"], spec["ry"]) >= 10
    if spec["kind"] == "circle":
        return spec["r"] >= 10
    return spec["kind"] == "rect"


def crosses(fa, fb):
    """do the two outlines cross? (some vertex of one inside the other and some outside)"""
    sa = max(1, len(fa) // 300)
    sb = max(1, len(fb) // 300)
    ia = [cc.evenodd(fb, p) for p in fa[::sa]]
    ib = [cc.evenodd(fa, p) for p in fb[::sb]]
    return (any(ia) and not all(ia)) or (any(ib) and not all(ib))


def check_pair(a, b, seed):
    A, B = cc.build(a), cc.build(b)
    beforeA = [oc.seg_pts(s) for s in A.asSegments()]
    beforeB = [oc.seg_pts(s) for s in B.asSegments()]
    fa, fb = cc.fine_polyline(A), cc.fine_polyline(B)
    tol = 0.1 if (smooth(a) and smooth(b)) else 1.5
    tol += 0.02
    gaps = None
    for op in cc.OPS:
        try:
            res = getattr(A, op)(B)
        except Exception as e:
            return "%s raised %s: %s" % (op, type(e).__name__, e)
        disjoint = not crosses(fa, fb) and not cc.evenodd(fb, fa[0]) and not cc.evenodd(fa, fb[0])
        if op == "intersection" and disjoint and res:
            return "intersection of disjoint shapes is not empty"
        for p in res:
            segs = p.asSegments()
            for s in segs:
                sp = oc.seg_pts(s)
                for q in seg_samples(sp):
                    d = min(cc.dist_poly(fa, q), cc.dist_poly(fb, q))
                    if d > tol:
                        return "%s: a result point %r is %r away from both input outlines (> %r): invented geometry" % (op, q, d, tol)
            for x, y in zip(segs, segs[1:] + segs[:1]):
                g = math.hypot(x.end.x - y.start.x, x.end.y - y.start.y)
                if g > 1e-6 and gaps is None:
                    gaps = (op, g)
    if [oc.seg_pts(s) for s in A.asSegments()] != beforeA or [oc.seg_pts(s) for s in B.asSegments()] != beforeB:
        return "an input was modified"
    if gaps is not None and a["kind"] != "contour" and b["kind"] != "contour" and crosses(fa, fb):
        return "K2"     # sentence 2: result not connected (gap %r in %s)" % (gaps[1], gaps[0])
    return None


def search(ctx, budget):
    rng = ctx.rng
    n = 10 * ctx.scale * budget
    viol, samples = [], []
    seen = set()
    nontriv = 0
    for i in range(n):
        simple = i % 2 == 0
        a, b = cc.rand_shape(rng, simple=simple), cc.rand_shape(rng, simple=simple)
        inp = {"a": a, "b": b, "seed": 0}
        if repr((a, b)) not in seen:
            seen.add(repr((a, b)))
            nontriv += 1
        msg = check_pair(a, b, 0)
        if msg:
            viol.append({"what": msg, "input": inp})
            if len([v for v in viol if v["what"] != "K2"]) >= 5:
                break
        if len(samples) < 3:
            samples.append(inp)
    return {"evaluations": i + 1, "distinct_nontrivial": nontriv, "samples": samples}, viol


def classify(v, entry):
    return entry["id"] == "K2" and v.get("what") == "K2"


def replay(v):
    inp = v["input"]
    return check_pair(inp["a"], inp["b"], inp.get("seed", 0)) is not None
