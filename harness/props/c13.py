"""C13 — curve-preserving Boolean operations invent no geometry."""
import math
from fractions import Fraction as F
from .. import drive
from ..oracles import common as oc
from ..oracles import clipcommon as cc
from . import c12

ID = "C13"
TOPICS = []
LEAN_TARGETS = ["BezierVerif.Props.C12"]
RULE = ("pairs of closed paths as in C12, the three operations in the default curve-preserving mode; every result segment is sampled at 9 parameters and "
        "its distance to the (finely flattened) input outlines measured; the recorded clipper polygons and the reconstruction table (rebuilt from the "
        "recorded segment-level flatten(2) calls) are replayed through the model; for sentence 2: pairs of rectangles / ellipses / circles with sizes "
        "20..240 and centres within +-100 whose outlines cross; non-trivial = outlines cross; distinct = distinct (pair, operation)")
UNPROVED = ["that every table value is a (reversed) piece of an input segment rests on C03's cutSeg_retrace plus the `_orig` back-pointer (object attribute; sampled)",
            "distance of the straight fall-back edges to the input outlines (depends on ClipperSpec) — sampled",
            "sentence 2: connectivity is known finding K2 (reported as such); the region part is sampled as agreement (within 1.5 units, both directions) between the outline traced by the curve-preserving result and by the polygon-mode result"]
ASSUMPTIONS = ["ClipperSpec (pyclipper computes the requested combination)", "point keys of the reconstruction table compare exactly (integer-valued floats)"]
LEVEL_TEXT = ("theorems for EVERY pyclipper answer and EVERY reconstruction table: recon_members (each result segment is a table value or a straight edge between two consecutive "
              "clipper vertices — nothing else can appear), wrapEdges_closed, no_polygons_no_paths; with C03 (pieces retrace the input segment) this gives sentence 1. "
              "Sentence 2 fails on the unchanged tree (known finding K2) and is reported as such. Model tied to clip() by replaying polygons + table")
LEVEL_NOTE = "trusted: Lean kernel, axioms {propext, Classical.choice, Quot.sound}, hand model Model/Clip.lean (replay correspondence per run); pyclipper NOT verified"
TECHNIQUE = "hand model of the reconstruction loop over arbitrary clipper answers and tables; list induction; distance sampling"


def correspondence(ctx):
    return c12.correspondence(ctx, flat=False, count=8)


def seg_samples(pts, n=9):
    out = []
    k = len(pts) - 1
    for i in range(n):
        t = i / (n - 1)
        mt = 1 - t
        out.append((sum(math.comb(k, j) * mt ** (k - j) * t ** j * pts[j][0] for j in range(k + 1)),
                    sum(math.comb(k, j) * mt ** (k - j) * t ** j * pts[j][1] for j in range(k + 1))))
    return out


def smooth(spec):
    if spec["kind"] == "ellipse":
        return min(spec["rx"], spec["ry"]) ** 2 / max(spec["rx"], spec["ry"]) >= 10
    if spec["kind"] == "circle":
        return spec["r"] >= 10
    return spec["kind"] in ("rect", "flat")


def crosses(fa, fb):
    """do the two outlines cross? (some vertex of one inside the other and some outside)"""
    sa = max(1, len(fa) // 300)
    sb = max(1, len(fb) // 300)
    ia = [cc.evenodd(fb, p) for p in fa[::sa]]
    ib = [cc.evenodd(fa, p) for p in fb[::sb]]
    return (any(ia) and not all(ia)) or (any(ib) and not all(ib))


def check_pair(a, b, seed):
    A, B = cc.build(a), cc.build(b)
    beforeA = [oc.seg_pts(s) for s in A.asSegments()]
    beforeB = [oc.seg_pts(s) for s in B.asSegments()]
    fa, fb = cc.fine_polyline(A), cc.fine_polyline(B)
    tol = 0.1 if (smooth(a) and smooth(b)) else 1.5
    tol += 0.02
    gaps = None
    for op in cc.OPS:
        try:
            res = getattr(A, op)(B)
        except Exception as e:
            return "%s raised %s: %s" % (op, type(e).__name__, e)
        disjoint = not crosses(fa, fb) and not cc.evenodd(fb, fa[0]) and not cc.evenodd(fa, fb[0])
        if op == "intersection" and disjoint and res:
            return "intersection of disjoint shapes is not empty"
        for p in res:
            segs = p.asSegments()
            if len(segs) > 1 and oc.seg_pts(segs[0]) == oc.seg_pts(segs[-1]):
                return "%s: a result contour ends with the segment it starts with (the same piece of an input twice): %r" % (op, oc.seg_pts(segs[0]))
            for s in segs:
                sp = oc.seg_pts(s)
                for q in seg_samples(sp):
                    d = min(cc.dist_poly(fa, q), cc.dist_poly(fb, q))
                    if d > tol:
                        return "%s: a result point %r is %r away from both input outlines (> %r): invented geometry" % (op, q, d, tol)
            for x, y in zip(segs, segs[1:] + segs[:1]):
                g = math.hypot(x.end.x - y.start.x, x.end.y - y.start.y)
                if g > 1e-6 and (gaps is None or g > gaps[1]):
                    gaps = (op, g)
    if [oc.seg_pts(s) for s in A.asSegments()] != beforeA or [oc.seg_pts(s) for s in B.asSegments()] != beforeB:
        return "an input was modified"
    simple_crossing = a["kind"] != "contour" and b["kind"] != "contour" and crosses(fa, fb)
    if simple_crossing:
        msg = region_check(A, B, fa, fb, seed)
        if msg:
            return msg
    if gaps is not None and a["kind"] != "contour" and b["kind"] != "contour" and crosses(fa, fb):
        return "K2"     # sentence 2: result not connected (gap %r in %s)" % (gaps[1], gaps[0])
    return None


def seg_dist(poly_open, q):
    """distance from q to an open polyline"""
    best = float("inf")
    for (ax, ay), (bx, by) in zip(poly_open, poly_open[1:]):
        dx, dy = bx - ax, by - ay
        L2 = dx * dx + dy * dy
        t = 0.0 if L2 == 0 else max(0.0, min(1.0, ((q[0] - ax) * dx + (q[1] - ay) * dy) / L2))
        d = math.hypot(q[0] - (ax + t * dx), q[1] - (ay + t * dy))
        if d < best:
            best = d
    return best


def region_check(A, B, fa, fb, seed):
    """sentence 2, region part, in a form that does not depend on how the (possibly disconnected: K2) pieces are ordered:
    the curve-preserving result and the polygon-mode result trace the same outline — every sampled point of either lies
    within 1 unit (+ 0.5 sampling / flattening slack) of the other"""
    tol = 1.5
    for op in cc.OPS:
        curve = getattr(A, op)(B)
        flat = getattr(A, op)(B, flat=True)
        cpolys = []
        for p in curve:
            for sgm in p.asSegments():
                cpolys.append(seg_samples(oc.seg_pts(sgm), 33) if len(sgm.points) > 2 else [(sgm.start.x, sgm.start.y), (sgm.end.x, sgm.end.y)])
        fpolys = []
        for p in flat:
            v = cc.path_vertices(p)
            fpolys.append(v + v[:1])
        if bool(cpolys) != bool(fpolys):
            return "%s: curve-preserving mode returns %d segment(s), polygon mode %d contour(s)" % (op, len(cpolys), len(fpolys))
        for poly in cpolys:
            for q in poly:
                d = min(seg_dist(f, q) for f in fpolys)
                if d > tol and max(cc.dist_poly(fa, q), cc.dist_poly(fb, q)) <= 2.5:
                    return "K10"
                if d > tol:
                    return "%s: point %r of the curve-preserving result is %.2f away from the polygon-mode result's outline (> %.1f)" % (op, q, d, tol)
        for f in fpolys:
            for (x0, y0), (x1, y1) in zip(f, f[1:]):
                for q in ((x0, y0), ((x0 + x1) / 2, (y0 + y1) / 2)):
                    d = min(seg_dist(c, q) for c in cpolys)
                    if d > tol and max(cc.dist_poly(fa, q), cc.dist_poly(fb, q)) <= 2.5:
                        return "K10"
                    if d > tol:
                        return "%s: point %r of the polygon-mode result's outline is %.2f away from every segment of the curve-preserving result (> %.1f)" % (op, q, d, tol)
    return None


def search(ctx, budget):
    rng = ctx.rng
    n = 24 * ctx.scale * budget
    viol, samples = [], []
    seen = set()
    nontriv = 0
    for i in range(n):
        simple = i % 2 == 0
        a, b = cc.rand_pair(rng, i, simple=simple)
        if i % 8 == 6:
            # one operand is a flattened shape (a polygon whose edges carry the back-pointer to the curve they were cut from):
            # the inputs are this polygon's edges, not the curves it once was
            big = {"kind": "circle", "r": float(rng.randint(50, 110)), "o": (float(rng.randint(-40, 40)), float(rng.randint(-40, 40)))}
            other = {"kind": "rect", "w": float(rng.randint(60, 200)), "h": float(rng.randint(40, 120)),
                     "o": (big["o"][0] + big["r"] * rng.uniform(0.6, 1.1), big["o"][1] + float(rng.randint(-30, 30)))}
            a, b = {"kind": "flat", "of": big, "d": rng.choice([50, 50, 30])}, other
            if rng.random() < 0.4:
                a, b = b, a
        inp = {"a": a, "b": b, "seed": 0}
        if repr((a, b)) not in seen:
            seen.add(repr((a, b)))
            nontriv += 1
        msg = check_pair(a, b, 0)
        if msg:
            viol.append({"what": msg, "input": inp})
            if len([v for v in viol if v["what"] not in ("K2", "K10")]) >= 5:
                break
        if len(samples) < 3:
            samples.append(inp)
    return {"evaluations": i + 1, "distinct_nontrivial": nontriv, "samples": samples}, viol


def classify(v, entry):
    return entry["id"] in ("K2", "K10") and v.get("what") == entry["id"]


def replay(v):
    inp = v["input"]
    return check_pair(inp["a"], inp["b"], inp.get("seed", 0)) is not None
