"""C05 — line/line and curve/line intersections are sound and complete."""
import math
from fractions import Fraction as F
from .. import tv, drive
from ..oracles import common as oc
from ..oracles import polyroots as pr
from beziers.point import Point

ID = "C05"
TOPICS = ["Inter", "Lookup", "Roots", "Affine", "Eval"]
LEAN_TARGETS = ["BezierVerif.Props.Roots", "BezierVerif.Props.C05", "BezierVerif.Props.C05M", "BezierVerif.Props.C11B", "BezierVerif.Props.Cardano", "BezierVerif.Props.CardanoC"]
TV_DEFS = ["line_line", "line_tOfPoint", "line_tOfPoint_sworn", "quadraticRoots", "quadraticRoots_unlimited", "quad_rootcoeffs_y", "cubic_rootcoeffs_y",
           "cubic_findRoots_dispatch", "cubic_cardano_roots", "alignmentTransformation", "quad_transformed", "cubic_transformed"]
RULE = ("(line | quadratic | cubic, line) pairs; curves from the families int, grid, dyadic, float, arch, elevated (degree-elevated lower order), collinear "
        "(straight-line curves), elevated with the leading coefficient re-introduced at 10^-k (k = 0..16); lines through a point of the curve in a random, "
        "vertical or horizontal direction (integer, grid and float end points), plus unrelated lines, near-parallel long line pairs and nearly vertical lines; "
        "true crossings by exact Sturm isolation of cross(e - s, A(t) - s) in Q; a pair is in general position when every carrier crossing has both parameters "
        "either in [1e-4, 1 - 1e-4] (a true crossing) or outside [-1e-4, 1 + 1e-4], the curve is not within 1e-9 of the extent of the carrier as a whole, the crossing angle has |sin| >= 0.02 "
        "(curves; lines: not exactly parallel) and the curve does not lie on the carrier; other pairs are skipped and counted; both receivers; "
        "non-trivial = at least one true crossing; distinct = distinct pair")
UNPROVED = ["the negligible-cubic-coefficient branch (|d| <= 1e-6 max|a,b,c|, d != 0): quadratic roots + Newton polish are approximations by design — sampled against exact Sturm root counts",
            "float rounding of the rotation (cos/sin/atan2) and of the root formulas (sampled: residual 1e-6 of the coordinate magnitude)",
            "the isclose zone of nearly vertical lines: the meeting point is placed at x = start.x (error <= 1e-9 relative; sampled, F17)"]
ASSUMPTIONS = ["math.sqrt / cos / sin / atan2 / acos are the real functions", "crossings in general position (see sampling rule)"]
LEVEL_TEXT = ("theorems on the regenerated code: line_line_window / line_line_at_most_one (every branch of _line_line_intersections: 131 paths), line_line_eq_model (the whole tree equals a readable transcription of the source), line_line_complete (general position: a meeting point with t1 in [2e-7, 1+2e-7] and t2 in [2e-7, 1) is reported as exactly [t1, t2]), line_line_sound (exact branches: "
              "the reported parameters give the same point on both lines), aligned_y_zero_iff (after alignmentTransformation the y-coordinate vanishes exactly on the "
              "line's carrier), aligned_ends, quadraticRoots_mem_iff (the solver returns exactly the roots in [0,1]); cubic_cardano_eq_tree + cubic_cardano_sound + cubicRoots_cardano_sound (the regenerated Cardano closed forms, all 11 paths, with the real sqrt / cos / arccos / rpow, produce exact roots; through polish, filter and sort every returned parameter is a root in [0,1]); CardanoC.cardanoTree_complete + cubic_cardano_complete + cubicRoots_cardano_complete (conversely EVERY real root is produced — three distinct trigonometric roots for negative discriminant, (y-2u)(y+u)^2 for zero, a positive-definite remaining factor for positive — so in the Cardano branch the returned list IS the set of parameters in [0,1] at which the aligned y-polynomial vanishes); hand model of the dispatch / curve-line "
              "loop / range filter (curveLine_window, curveLine_complete, quadLine_sound)")
LEVEL_NOTE = "trusted: Lean kernel + Mathlib, axioms {propext, Classical.choice, Quot.sound}, translator (validated per run), hand model Model/Inter.lean (correspondence per run)"
TECHNIQUE = "symbolic tracing to Lean (131-path decision tree) + field / real algebra; hand model of the curve-line loop; exact Sturm oracle for the search"

EPS = F(1, 10 ** 4)


def fr(p):
    return (F(p[0]), F(p[1]))


def carrier_poly(apts, lpts):
    """g(t) = cross(e - s, A(t) - s) as power-basis Fractions, and u(t) numerators"""
    s, e = fr(lpts[0]), fr(lpts[1])
    dx, dy = e[0] - s[0], e[1] - s[1]
    px = oc.power_basis([F(p[0]) for p in apts])
    py = oc.power_basis([F(p[1]) for p in apts])
    px = [px[0] - s[0]] + px[1:]
    py = [py[0] - s[1]] + py[1:]
    g = [dx * b - dy * a for a, b in zip(px, py)]
    return g, px, py, dx, dy


def expected(apts, lpts):
    """(list of (t, u) true crossings) or a string: why the pair is outside general position"""
    if lpts[0] == lpts[1] or len(set(apts)) == 1:
        return "degenerate"
    g, px, py, dx, dy = carrier_poly(apts, lpts)
    if not pr.trim(g):
        return "on-carrier"
    ext = F(max(oc.extent(list(apts) + list(lpts)), 1e-9))
    if max(abs(c) for c in g) ** 2 <= F(1, 10 ** 18) * (dx * dx + dy * dy) * ext * ext:
        return "on-carrier"          # the whole curve lies within 1e-9 of the extent of the line's carrier: tangential everywhere
    if len(pr.trim(g)) == 1:
        return []
    n2 = dx * dx + dy * dy
    roots = pr.real_roots(g, F(-1, 2), F(3, 2), F(1, 10 ** 14))
    sqf = pr.squarefree(g)
    out = []
    dg = pr.deriv(g)
    dpx, dpy = pr.deriv(px), pr.deriv(py)
    for a, b in roots:
        t = (a + b) / 2
        u = (pr.peval(px, t) * dx + pr.peval(py, t) * dy) / n2
        t_in = EPS <= t <= 1 - EPS
        t_out = t < -EPS or t > 1 + EPS
        u_in = EPS <= u <= 1 - EPS
        u_out = u < -EPS or u > 1 + EPS
        if t_out or u_out:
            continue
        if not (t_in and u_in):
            return "near-end"
        if len(apts) > 2:
            vx, vy = pr.peval(dpx, t), pr.peval(dpy, t)
            sp = vx * vx + vy * vy
            leg2 = max((F(q[0]) - F(p_[0])) ** 2 + (F(q[1]) - F(p_[1])) ** 2 for p_, q in zip(apts, apts[1:]))
            if sp <= F(1, 10 ** 16) * leg2:
                return "cusp"             # the velocity vanishes at the meeting point (t is the midpoint of a 1e-14 isolating interval, so
                                          # "vanishes" is a relative test): a turning point of a retracing curve touches, it does not cross
            gd = pr.peval(dg, t)
            if gd * gd < F(4, 10000) * sp * n2:
                return "tangent"          # includes every multiple root inside the window (g' vanishes there); a tangency of the
                                          # EXTENDED curve outside the segment does not make the pair tangential
        out.append((float(t), float(u)))
    return out


def slopes_close(apts, lpts):
    """K7: both lines non-vertical and |slope12 - slope34| < 2e-7 (exactly)"""
    if len(apts) != 2:
        return False
    (ax, ay), (bx, by) = fr(apts[0]), fr(apts[1])
    (cx, cy), (dx, dy) = fr(lpts[0]), fr(lpts[1])
    if bx == ax or dx == cx:
        return False
    return abs((by - ay) / (bx - ax) - (dy - cy) / (dx - cx)) < F(2, 10 ** 7)


def cardano_window(apts, lpts):
    """K16 classifier: a cubic whose aligned polynomial has a leading coefficient between 1e-6 and 3e-5 of its largest other coefficient
    (just above the threshold below which _findRoots solves a quadratic instead): the Cardano discriminant q2*q2 + p3*p3*p3 cancels"""
    if len(apts) != 4 or lpts[0] == lpts[1]:
        return False
    g, _px, _py, _dx, _dy = carrier_poly(apts, lpts)
    g = list(g) + [F(0)] * (4 - len(g))
    big = max(abs(g[0]), abs(g[1]), abs(g[2]))
    return big > 0 and F(1, 10 ** 6) < abs(g[3]) / big < F(3, 10 ** 5)


def check_pair(apts, lpts):
    r = check_pair_raw(apts, lpts)
    if r and not r.startswith("skip:") and r != "K7" and cardano_window(apts, lpts) and ("reports" in r or "apart" in r):
        return "K16"
    return r


def check_pair_raw(apts, lpts):
    exp = expected(apts, lpts)
    if isinstance(exp, str):
        return "skip:" + exp
    A, L = oc.mkseg(apts), oc.mkseg(lpts)
    M = max(1.0, oc.maxabs(apts), oc.maxabs(lpts))
    runs = []
    for recv, other in ((A, L), (L, A)):
        try:
            res = recv.intersections(other)
        except Exception as ex:
            return "intersections raised %r" % (ex,)
        runs.append(res)
    msgs = []
    for which, res in zip(("curve.intersections(line)", "line.intersections(curve)"), runs):
        if len(res) != len(exp):
            if slopes_close(apts, lpts) and not res:
                return "K7"
            return "%s reports %d intersection(s), there are %d true crossing(s) at (t,u) = %r" % (which, len(res), len(exp), exp)
        for i in res:
            if not (0 < i.t1 <= 1 and 0 < i.t2 <= 1):
                return "%s: parameters (%r, %r) not in (0,1]" % (which, i.t1, i.t2)
            p1, p2 = i.seg1.pointAtTime(i.t1), i.seg2.pointAtTime(i.t2)
            if math.hypot(p1.x - p2.x, p1.y - p2.y) > 1e-6 * M or math.hypot(p1.x - i.point.x, p1.y - i.point.y) > 1e-6 * M:
                return "%s: the points at t1=%r and t2=%r are %r apart (> 1e-6 * %r)" % (which, i.t1, i.t2, math.hypot(p1.x - p2.x, p1.y - p2.y), M)
        # each true crossing is reported (by curve parameter)
        ts = sorted((i.t1 if i.seg1 is A else i.t2) for i in res)
        for (t, u), got in zip(sorted(exp), ts):
            if abs(t - got) > 1e-5:
                return "%s: crossing at t=%r reported at t=%r" % (which, t, got)
    # the answer describes the operands as they are NOW: intersect, change one operand's control points in place (the line first, then the
    # curve), intersect again: exactly the answer of freshly built operands with the control points read back
    import random
    rng = random.Random(hash((tuple(apts), tuple(lpts))) & 0xFFFFFF)
    for victim in (L, A):
        route, new = oc.edit_in_place(victim, rng)
        A2 = oc.mkseg([(q.x, q.y) for q in A.points])
        L2 = oc.mkseg([(q.x, q.y) for q in L.points])
        for (r1, o1), (r2, o2), nm in (((A, L), (A2, L2), "curve.intersections(line)"), ((L, A), (L2, A2), "line.intersections(curve)")):
            try:
                live = sorted((i.t1, i.t2) for i in r1.intersections(o1))
                fresh = sorted((i.t1, i.t2) for i in r2.intersections(o2))
            except Exception as ex:
                return "intersections raised %r after an in-place edit" % (ex,)
            if live != fresh:
                return "after changing the %s's control points in place (%s) %s answers %r; freshly built operands with the same control points answer %r (stale state)" % (
                    "line" if victim is L else "curve", route, nm, live, fresh)
    # whichever operand is the receiver: same pairs up to swapping
    if len(apts) > 2:
        a = sorted((i.t1, i.t2) for i in runs[0])
        b = sorted((i.t1, i.t2) for i in runs[1])
        if a != b or any(i.seg1 is not A for r in runs for i in r):
            return "receiver order changes the answer: %r vs %r" % (a, b)
    else:
        a = sorted((i.t1, i.t2) for i in runs[0])
        b = sorted((i.t2, i.t1) for i in runs[1])
        if any(abs(x[0] - y[0]) > 1e-6 or abs(x[1] - y[1]) > 1e-6 for x, y in zip(a, b)):
            return "receiver order changes the answer: %r vs %r" % (a, b)
    return None


# ----------------------------------------------------------------------------- generators

def rcoord(rng, fam, v):
    if fam == "int":
        return float(round(v))
    if fam == "grid":
        return float(10 * round(v / 10))
    return float(v)


def line_through(rng, apts, fam):
    """a line through (close to) a point of the curve, in a random / vertical / horizontal direction"""
    t0 = rng.uniform(0.1, 0.9)
    p = oc.bern_pt(apts, F(t0))
    px, py = float(p[0]), float(p[1])
    ext = max(10.0, oc.extent(apts))
    r = rng.random()
    if r < 0.2:
        d = (0.0, rng.choice([-1, 1]) * rng.uniform(0.5, 2) * ext)
    elif r < 0.4:
        d = (rng.choice([-1, 1]) * rng.uniform(0.5, 2) * ext, 0.0)
    else:
        ang = rng.uniform(0, 2 * math.pi)
        L = rng.uniform(0.5, 3) * ext
        d = (L * math.cos(ang), L * math.sin(ang))
    u0 = rng.uniform(0.15, 0.85)
    s = (px - u0 * d[0], py - u0 * d[1])
    e = (px + (1 - u0) * d[0], py + (1 - u0) * d[1])
    if d[0] == 0.0:
        x = rcoord(rng, fam, px)
        return [(x, rcoord(rng, fam, s[1])), (x, rcoord(rng, fam, e[1]))]
    if d[1] == 0.0:
        y = rcoord(rng, fam, py)
        return [(rcoord(rng, fam, s[0]), y), (rcoord(rng, fam, e[0]), y)]
    return [(rcoord(rng, fam, s[0]), rcoord(rng, fam, s[1])), (rcoord(rng, fam, e[0]), rcoord(rng, fam, e[1]))]


def rand_pair(rng, i):
    order = 2 + i % 3
    fam = ["int", "grid", "arch", "elevated", "collinear", "float", "dyadic", "tiny-lead", "arch", "elevated"][(i // 3) % 10]
    lfam = rng.choice(["int", "grid", "float"])
    if order == 2 and fam in ("arch", "elevated", "tiny-lead", "collinear"):
        fam = rng.choice(["int", "grid", "float"])
    if fam == "tiny-lead":
        apts = oc.rand_seg_pts(rng, order, "elevated")
        k = rng.randint(0, 16)
        j = rng.randrange(1, order - 1) if order > 2 else 0
        apts = list(apts)
        apts[j] = (apts[j][0] + rng.choice([-1, 1]) * 10.0 ** -k, apts[j][1] + rng.choice([-1, 0, 1]) * 10.0 ** -k)
    else:
        apts = oc.rand_seg_pts(rng, order, fam)
    r = rng.random()
    if order == 2 and r < 0.08:
        # long nearly parallel pair crossing in the middle (K7 family)
        W = 10.0 ** rng.randint(3, 7)
        h = rng.choice([0.1, 0.5, 1.0, 5.0])
        y0 = float(rng.randint(-20, 20))
        sl = rng.choice([0.0, 0.5, -2.0])
        apts = [(-W, y0 - sl * W), (W * 1.5, y0 + sl * W * 1.5)]
        lpts = [(-W, y0 - sl * W - h), (W * 1.5, y0 + sl * W * 1.5 + 1.5 * h)]
        return apts, lpts
    if order == 2 and r < 0.14:
        # nearly vertical line inside the isclose zone (F17 family)
        x = float(rng.randint(100, 5000))
        apts = [(x, -float(rng.randint(10, 500))), (x * (1 + rng.uniform(1e-10, 9e-10)), float(rng.randint(10, 500)))]
        lpts = [(x - float(rng.randint(10, 300)), float(rng.randint(-5, 5))), (x + float(rng.randint(10, 300)), float(rng.randint(-5, 5)))]
        return apts, lpts
    if order == 4 and r < 0.06:
        # exactly vanishing Cardano discriminant: the polynomial along a horizontal left-to-right line is k (t - r0)(t - m)^2 with the double
        # root m outside the segment and the simple root r0 inside (dyadic data: the float discriminant is exactly 0)
        r0 = rng.choice([0.25, 0.5, 0.375, 0.75])
        m = rng.choice([2.0, -1.0, 1.5, 3.0, -0.5])
        k = rng.choice([1.0, -1.0, 2.0, 0.5, -4.0])
        c = [-k * r0 * m * m, k * (m * m + 2 * r0 * m), -k * (2 * m + r0), k]          # power basis
        ys = [c[0], c[0] + c[1] / 3, c[0] + 2 * c[1] / 3 + c[2] / 3, c[0] + c[1] + c[2] + c[3]]
        y0 = float(rng.randint(-20, 20))
        xs = [10.0, 40.0, 70.0, 100.0] if rng.random() < 0.5 else [100.0, 70.0, 40.0, 10.0]
        apts = [(x, y0 + y) for x, y in zip(xs, ys)]
        return apts, [(0.0, y0), (150.0, y0)]
    if order == 4 and r < 0.12:
        # a cubic with a small hook next to one end (a y- or x-extreme within the first or last 1 % of the parameter range, which the
        # reported bounding box ignores) and a SHORT line that crosses the hook twice, lying entirely in the sliver the box does not cover
        a, b = rng.uniform(60, 140), rng.uniform(8, 25)
        apts = [(0.0, 0.0), (a, -b), (rng.uniform(150, 250), rng.uniform(600, 1200)), (rng.uniform(250, 350), rng.uniform(500, 1000))]
        t0 = rng.uniform(0.001, 0.004)
        dlt = rng.uniform(0.004, 0.012)
        p = oc.bern_pt(apts, F(t0))
        q = oc.bern_pt(apts, F(t0 + dlt))
        p, q = (float(p[0]), float(p[1])), (float(q[0]), float(q[1]))
        k = rng.uniform(0.3, 2.0)
        lpts = [(p[0] - k * (q[0] - p[0]), p[1] - k * (q[1] - p[1])), (q[0] + k * (q[0] - p[0]), q[1] + k * (q[1] - p[1]))]
        if rng.random() < 0.5:
            apts, lpts = [(y, x) for x, y in apts], [(y, x) for x, y in lpts]
        if rng.random() < 0.5:
            apts = apts[::-1]
        o = (float(rng.randint(-200, 200)), float(rng.randint(-200, 200)))
        return [(x + o[0], y + o[1]) for x, y in apts], [(x + o[0], y + o[1]) for x, y in lpts]
    if order > 2 and r < 0.25:
        # a line through two nearby points of the curve: two crossings close together (the aligned polynomial is close to a double root)
        t0 = rng.uniform(0.1, 0.85)
        dlt = rng.choice([0.004, 0.006, 0.01, 0.02, 0.05])
        p = oc.bern_pt(apts, F(t0))
        q = oc.bern_pt(apts, F(t0 + dlt))
        p, q = (float(p[0]), float(p[1])), (float(q[0]), float(q[1]))
        dx, dy = q[0] - p[0], q[1] - p[1]
        if dx != 0 or dy != 0:
            k = rng.uniform(5, 40)
            return apts, [(p[0] - k * dx, p[1] - k * dy), (q[0] + k * dx, q[1] + k * dy)]
    if r < 0.85:
        lpts = line_through(rng, apts, lfam)
    else:
        lpts = oc.rand_seg_pts(rng, 2, lfam)
    if rng.random() < 0.08:
        # the same configuration scaled down by an exact power of two (operands 1e-3 .. 1e-5 units long): meeting is scale-covariant
        k = 2.0 ** -rng.choice([12, 17, 20])
        apts = [(x * k, y * k) for x, y in apts]
        lpts = [(x * k, y * k) for x, y in lpts]
    return apts, lpts


# ----------------------------------------------------------------------------- correspondence

def spy_cardano(f):
    """run f recording the `roots` argument of every cubicbezier._polishRoots call whose roots came from the closed forms"""
    import beziers.cubicbezier as cbm
    calls = []
    orig = cbm._polishRoots

    def rec(roots, a, b, c, d):
        calls.append(list(roots))
        return orig(roots, a, b, c, d)
    cbm._polishRoots = rec
    try:
        r = f()
    finally:
        cbm._polishRoots = orig
    return r, calls


def model_corr(ctx):
    rng = ctx.rng
    lines, metas = [], []
    for i in range(60 * ctx.scale):
        apts, lpts = rand_pair(rng, i)
        if lpts[0] == lpts[1] or len(set(apts)) == 1:
            continue
        A, L = oc.mkseg(apts), oc.mkseg(lpts)
        swap = rng.random() < 0.5
        recv, other = (L, A) if swap else (A, L)
        try:
            got, calls = spy_cardano(lambda: [(i.t1, i.t2) for i in recv.intersections(other)])
            aligned = A.transformed(L.alignmentTransformation()) if len(apts) > 2 else L
        except Exception as ex:
            metas.append(("exc", repr(ex), apts, lpts, swap))
            lines.append("ping")
            continue
        cardano = calls[0] if calls else []
        lines.append("model inter.run %s %s %s | %s" % (oc.seg_tokens(oc.seg_pts(recv)), oc.seg_tokens(oc.seg_pts(other)), oc.seg_tokens(oc.seg_pts(aligned)),
                                                        " ".join(drive.rat(r) for r in cardano)))
        metas.append(("ok", got, apts, lpts, swap))
    replies = drive.run_lines(lines)
    dis = []
    nonempty = 0
    for (kind, got, apts, lpts, swap), rep in zip(metas, replies):
        if kind == "exc":
            dis.append({"kind": "model-vs-impl", "model": "inter.run", "what": got, "apts": apts, "lpts": lpts})
            continue
        exp = drive.parse_ok(rep)
        flat = [v for p in got for v in p]
        nonempty += bool(flat)
        ok = exp is not None and len(exp) == len(flat) and all(abs(F(g) - e) <= F(1, 10 ** 7) * max(1, abs(e)) for g, e in zip(flat, exp))
        if not ok:
            if exp is not None and (near_window(exp, got) or isinstance(expected(apts, lpts), str)):
                continue
            dis.append({"kind": "model-vs-impl", "model": "inter.run", "apts": apts, "lpts": lpts, "receiver_is_line": swap, "lean": rep[:200], "impl": repr(got)[:200]})
    return {"model_compared": len(metas), "model_nonempty": nonempty}, dis


def near_window(exp, got):
    """a parameter within 1e-6 of the window's ends or of another root: float and exact evaluation may legitimately differ"""
    vals = [float(e) for e in exp] + [v for p in got for v in p]
    return any(abs(v - 2e-7) < 1e-6 or abs(v - 1 - 2e-7) < 1e-6 or abs(v) < 1e-6 for v in vals)


def env_hook(name, env, rng, fam):
    """steer line_line into its special branches (vertical / horizontal / crossing / parallel operands);
    cubics into the negligible-d and zero-discriminant branches"""
    if name == "line_line":
        r = rng.random()
        if r < 0.5:
            # make the lines cross inside both: q passes through the midpoint region of p
            t, u = rng.uniform(0.1, 0.9), rng.uniform(0.1, 0.9)
            mx = env["p0x"] + t * (env["p1x"] - env["p0x"])
            my = env["p0y"] + t * (env["p1y"] - env["p0y"])
            dx, dy = env["q1x"] - env["q0x"], env["q1y"] - env["q0y"]
            env["q0x"], env["q0y"] = mx - u * dx, my - u * dy
            env["q1x"], env["q1y"] = env["q0x"] + dx, env["q0y"] + dy
        r = rng.random()
        if r < 0.15:
            env["p1x"] = env["p0x"]
        elif r < 0.3:
            env["q1x"] = env["q0x"]
        elif r < 0.4:
            env["p1y"] = env["p0y"]
        elif r < 0.5:
            env["q1y"] = env["q0y"]
        elif r < 0.55:
            env["p1x"] = env["p0x"]
            env["q1y"] = env["q0y"]
        elif r < 0.6:
            env["q1x"] = env["q0x"]
            env["p1y"] = env["p0y"]
        elif r < 0.63:
            env["p1x"], env["p1y"] = env["p0x"], env["p0y"]
        elif r < 0.66:
            env["q1x"] = env["q0x"] + (env["p1x"] - env["p0x"])
            env["q1y"] = env["q0y"] + (env["p1y"] - env["p0y"])
    if name.startswith("cubic_findRoots") or name == "cubic_cardano_roots":
        r = rng.random()
        if r < 0.2:
            # degree-elevated quadratic: d == 0 exactly when the coordinates allow it
            env["p3y"] = env["p0y"] - 3 * env["p1y"] + 3 * env["p2y"]
        elif r < 0.4:
            env["p3y"] = env["p0y"] - 3 * env["p1y"] + 3 * env["p2y"] + rng.choice([-1, 1]) * 10.0 ** -rng.randint(1, 12)
        elif r < 0.5:
            # triple root: (t - s)^3 has zero discriminant
            s_ = rng.choice([0.25, 0.5, 0.75, 2.0])
            c = [-s_ ** 3, 3 * s_ * s_, -3 * s_, 1.0]
            env["p0y"] = c[0]
            env["p1y"] = c[0] + c[1] / 3
            env["p2y"] = c[0] + 2 * c[1] / 3 + c[2] / 3
            env["p3y"] = c[0] + c[1] + c[2] + c[3]
    return env


def correspondence(ctx):
    stats, dis = tv.validate(TV_DEFS, ctx.rng, 30 * ctx.scale, tol_rel=1e-7, env_hook=env_hook)
    m, d2 = model_corr(ctx)
    stats.update(m)
    stats["distinct_nontrivial"] = 0
    return stats, dis + d2


def search(ctx, budget):
    rng = ctx.rng
    n = 500 * ctx.scale * budget
    seen = set()
    nontriv = 0
    skipped = {}
    viol, samples = [], []
    fams = {}
    i = -1
    for i in range(n):
        apts, lpts = rand_pair(rng, i)
        if i % 50 == 37:
            # K16 family: an almost degree-elevated quadratic (cubic coefficient a few 1e-6 of the others) dipping a little through a
            # long line, or staying a little clear of it
            W = float(rng.choice([3000, 1500, 6000]))
            Hh = float(rng.choice([240000, 210000, 120000]))
            dip = rng.choice([-80020.0, -69998.0, -80010.0]) * Hh / 240000.0 if rng.random() < 0.7 else -Hh / 3 - rng.uniform(5, 40)
            x0, y0 = float(rng.randint(-100, 100)), float(rng.randint(-50, 50))
            apts = [(x0, y0 + Hh), (x0 + W / 3, y0 + dip), (x0 + 2 * W / 3, y0 + dip), (x0 + W, y0 + Hh + 1.0)]
            lpts = [(x0, y0), (x0 + W, y0)]
        inp = {"apts": apts, "lpts": lpts}
        msg = check_pair(apts, lpts)
        if msg and msg.startswith("skip:"):
            skipped[msg[5:]] = skipped.get(msg[5:], 0) + 1
            continue
        key = (tuple(apts), tuple(lpts))
        if key not in seen:
            seen.add(key)
            e = expected(apts, lpts)
            fams[len(apts)] = fams.get(len(apts), 0) + 1
            if e:
                nontriv += 1
        if msg:
            viol.append({"what": msg, "input": inp})
            if len([v for v in viol if v["what"] not in ("K7", "K16")]) >= 5:
                break
        if len(samples) < 3:
            samples.append(inp)
    return {"evaluations": i + 1, "distinct_nontrivial": nontriv, "skipped": skipped, "by_order": fams, "samples": samples}, viol


def classify(v, entry):
    return entry["id"] in ("K7", "K16") and v.get("what") == entry["id"]


def replay(v):
    inp = v["input"]
    r = check_pair([tuple(p) for p in inp["apts"]], [tuple(p) for p in inp["lpts"]])
    return r is not None and not r.startswith("skip:")
