"""C16 — arc-length parametrisation is monotone, complete and evenly spaced."""
import math
from fractions import Fraction as F
from .. import drive
from ..oracles import common as oc
from beziers.point import Point
from beziers.segment import Segment
from beziers.path import BezierPath
from beziers.path.geometricshapes import Rectangle, Ellipse

ID = "C16"
TOPICS = ["Eval"]
LEAN_TARGETS = ["BezierVerif.Props.C16"]
RULE = ("segments and open/closed paths of total length >= 10 (rectangles with integer / power-of-two perimeters so that the 1/length stepping "
        "lands exactly on 1.0, ellipses, random chains incl. very uneven segment lengths); t from {0, 1.0, k/64, uniform}; sample counts "
        "1 <= n <= length/4; the implementation's actual lookup table and stepping sequence are recorded and replayed through the model; "
        "non-trivial = path with >= 2 segments or a curve; distinct = distinct (shape, n) pairs")
UNPROVED = ["monotonicity of length-so-far *inside* a segment and the '5 % plus two lookup steps' spacing: they inherit quadrature accuracy (C04) — sampled",
            "strict increase of regular samples (needs lookup step < length/n; known finding K4 when it fails) — sampled; non-decrease is proved"]
ASSUMPTIONS = ["Segment.lengthAtTime(0) == 0.0 exactly (a degenerate left piece; checked on every recorded table)",
               "the float loops `t += step` / `desiredLength += length/samples` produce *some* increasing sequence starting at 0 (demonic parameters)"]
LEVEL_TEXT = ("theorems about the hand model of pointAtTime/lengthAtTime/regularSampleTValue/sample: path_queries_total (no IndexError for any t in [0,1] incl. exactly 1; "
              "pinned_lengthAtTime_one_fails shows the original code indexes past the end), path_point_spec / path_point_joint / path_point_end (segment floor(t n) at the "
              "fractional parameter, continuous across joints, the end at t=1), path_length_ends, regular_total (first sample exactly 0, last exactly 1, never empty), "
              "regular_nondecreasing, walk_mem — for every lookup table and every target sequence the float loops can produce; model tied to the code by replaying the "
              "recorded tables. partial: spacing and strictness sampled")
LEVEL_NOTE = "trusted: Lean kernel + Mathlib (floor), axioms {propext, Classical.choice, Quot.sound}, hand model Model/Sample.lean (correspondence per run on recorded tables and indices)"
TECHNIQUE = "hand model with demonic parameters for float-dependent loops; list induction; floor arithmetic"


def record_regular(obj, n):
    """run regularSampleTValue(n) with the lookup table recorded"""
    lut = []
    orig = obj.lengthAtTime

    def wrapped(t):
        v = orig(t)
        lut.append((t, v))
        return v
    obj.lengthAtTime = wrapped
    try:
        res = obj.regularSampleTValue(n)
    finally:
        del obj.lengthAtTime
    return lut, res


def targets_of(length, n):
    out = []
    d = 0.0
    while d < length:
        out.append(d)
        d += length / n
    return out


def shapes(rng):
    r = rng.random()
    if r < 0.25:
        w, h = rng.choice([(64, 64), (16, 16), (100, 50), (30, 2), (7, 25), (128, 128)])
        return ("rect", Rectangle(w, h, origin=Point(float(rng.randint(-9, 9)), float(rng.randint(-9, 9)))))
    if r < 0.4:
        return ("ellipse", Ellipse(float(rng.randint(5, 60)), float(rng.randint(5, 60))))
    if r < 0.55:
        # very uneven segment lengths
        segs = []
        cur = (0.0, 0.0)
        for k in range(rng.randint(2, 6)):
            L = rng.choice([1.0, 1.0, 2.0, 300.0, 1000.0])
            nxt = (cur[0] + L, cur[1]) if k % 2 == 0 else (cur[0], cur[1] + L)
            segs.append([cur, nxt])
            cur = nxt
        return ("uneven", oc.path_from(segs, False))
    if r < 0.8:
        segs = []
        cur = (float(rng.randint(-50, 50)), float(rng.randint(-50, 50)))
        for _ in range(rng.randint(1, 5)):
            pts = oc.rand_seg_pts(rng, rng.choice([2, 3, 4]), "int")
            pts[0] = cur
            cur = pts[-1]
            segs.append(pts)
        return ("chain", oc.path_from(segs, False))
    pts = oc.rand_seg_pts(rng, rng.choice([2, 3, 4]), rng.choice(["int", "grid"]))
    return ("segment", oc.mkseg(pts))


def correspondence(ctx):
    rng = ctx.rng
    lines, metas = [], []
    for i in range(16 * ctx.scale):
        kind, obj = shapes(rng)
        try:
            L = obj.length
        except Exception:
            continue
        if L < 10 or L > 3000:
            continue
        n = rng.randint(1, max(1, int(L / 4)))
        try:
            lut, res = record_regular(obj, n)
        except Exception as e:
            metas.append(("regular-exc", repr(e), None))
            lines.append("ping")
            continue
        lines.append("model sample.regular %s | %s" % (" ".join("%s %s" % (drive.rat(t), drive.rat(v)) for t, v in lut),
                                                       " ".join(drive.rat(d) for d in targets_of(L, n))))
        metas.append(("regular", (kind, n, lut[:3]), res))
    for i in range(30 * ctx.scale):
        segs = []
        cur = (float(rng.randint(-50, 50)), float(rng.randint(-50, 50)))
        nseg = rng.choice([1, 2, 3, 4, 5, 8])
        for _ in range(nseg):
            pts = oc.rand_seg_pts(rng, rng.choice([2, 3, 4]), "int")
            pts[0] = cur
            cur = pts[-1]
            segs.append(pts)
        t = rng.choice([0.0, 1.0, rng.randint(0, 64) / 64.0, rng.randint(0, 64) / 64.0])
        lines.append("model path.pointAt %s %s" % (drive.rat(t), " ".join(oc.seg_tokens(s) for s in segs)))
        metas.append(("pointAt", (segs, t), None))
        lines.append("model path.index %d %s" % (nseg, drive.rat(t)))
        metas.append(("index", (segs, t), None))
    replies = drive.run_lines(lines)
    dis = []
    for (kind, data, res), rep in zip(metas, replies):
        if kind == "regular-exc":
            dis.append({"kind": "model-vs-impl", "model": "sample.regular", "what": "implementation raised " + data})
        elif kind == "regular":
            exp = drive.parse_ok(rep)
            if exp is None or [F(x) for x in res] != exp:
                dis.append({"kind": "model-vs-impl", "model": "sample.regular", "input": repr(data)[:300], "lean": rep[:200], "impl": repr(res)[:200]})
        elif kind == "pointAt":
            segs, t = data
            p = oc.path_from(segs, False)
            try:
                q = p.pointAtTime(t)
                got = [F(q.x), F(q.y)]
            except IndexError:
                got = "IndexError"
            exp = drive.parse_ok(rep) if rep.startswith("ok") else rep
            if got != exp:
                dis.append({"kind": "model-vs-impl", "model": "path.pointAt", "input": repr(data)[:300], "lean": rep[:200], "impl": repr(got)[:200]})
        else:
            segs, t = data
            p = oc.path_from(segs, False)
            rec = []
            classes = {type(s) for s in p.asSegments()}
            saved = {c: c.splitAtTime for c in classes}

            def mkspy(orig):
                def spy(self, tt):
                    rec.append((id(self), tt))
                    return orig(self, tt)
                return spy
            for c in classes:
                c.splitAtTime = mkspy(saved[c])
            try:
                try:
                    p.lengthAtTime(t)
                    got = "ok"
                except IndexError:
                    got = "IndexError"
            finally:
                for c in classes:
                    c.splitAtTime = saved[c]
            ids = [id(s) for s in p.asSegments()]
            if rep == "end":
                ok = got == "ok" and not rec
            elif rep == "IndexError":
                ok = got == "IndexError"
            else:
                _, i, fr = rep.split()
                ok = got == "ok" and len(rec) >= 1 and rec[0][0] == ids[int(i)] and F(rec[0][1]) == F(fr)
            if not ok:
                dis.append({"kind": "model-vs-impl", "model": "path.index", "input": repr(data)[:300], "lean": rep, "impl": repr((got, rec[:1]))})
    return {"model_compared": len(metas), "evaluations": len(metas), "distinct_nontrivial": 0}, dis


# ----------------------------------------------------------------------------- property oracle

def build(spec):
    k = spec["kind"]
    if k == "rect":
        return Rectangle(spec["w"], spec["h"], origin=Point(*spec["o"]))
    if k == "ellipse":
        return Ellipse(spec["rx"], spec["ry"])
    if k == "path":
        return oc.path_from([[tuple(p) for p in s] for s in spec["segs"]], spec.get("closed", False))
    return oc.mkseg([tuple(p) for p in spec["pts"]])


def lookup_step(obj, L):
    """largest arc covered by a parameter increment of 1/length"""
    step = 1.0 / L
    worst = 0.0
    prev = 0.0
    t = 0.0
    while t <= 1.0:
        cur = obj.lengthAtTime(t)
        worst = max(worst, cur - prev)
        prev = cur
        t += step
    worst = max(worst, L - prev)
    return worst


def check(spec, n, ts):
    obj = build(spec)
    is_path = isinstance(obj, BezierPath)
    try:
        L = obj.length
        if L <= 0:
            return "skip"
        tol = 0.03 * L + 1e-9
        # length so far
        l0, l1 = obj.lengthAtTime(0.0), obj.lengthAtTime(1.0)
        if abs(l0) > 1e-9 * L or abs(l1 - L) > 1e-9 * L:
            return "length so far is %r at t=0 and %r at t=1 (full length %r)" % (l0, l1, L)
        prev = -1.0
        for t in sorted(ts):
            v = obj.lengthAtTime(t)
            if v < prev - tol:
                return "length so far decreases: %r at t=%r after %r" % (v, t, prev)
            prev = max(prev, v)
        if is_path:
            segs = obj.asSegments()
            N = len(segs)
            for t in ts:
                p = obj.pointAtTime(t)
                if t == 1.0:
                    e = segs[-1].pointAtTime(1.0)
                else:
                    u = F(t) * N
                    i = int(u)
                    e = segs[i].pointAtTime(float(u - i))
                if abs(p.x - e.x) > 1e-9 * max(1.0, abs(e.x)) or abs(p.y - e.y) > 1e-9 * max(1.0, abs(e.y)):
                    return "path at t=%r is not its segment number floor(t*n) at the fractional parameter" % t
            end = obj.pointAtTime(1.0)
            if (end.x, end.y) != (segs[-1].end.x, segs[-1].end.y):
                return "path at t=1 is not the path's end"
        # regular sampling
        rs = obj.regularSampleTValue(n)
        if not rs or rs[0] != 0.0 or rs[-1] != 1.0:
            return "regular sampling does not run from exactly 0 to exactly 1: %r" % (rs[:2] + rs[-2:],)
        if any(b <= a for a, b in zip(rs, rs[1:])):
            lk = lookup_step(obj, L)
            if lk > L / n:
                return "K4"
            return "regular sampling parameters are not strictly increasing (n=%d)" % n
        lk = lookup_step(obj, L)
        arcs = [obj.lengthAtTime(t) for t in rs]
        gaps = [b - a for a, b in zip(arcs, arcs[1:])][:-1]
        for g in gaps:
            if abs(g - L / n) > 0.05 * (L / n) + 2 * lk + 0.02 * L / n + 1e-6:
                return "regular sampling gap %r differs from length/n = %r by more than 5%% + two lookup steps (%r)" % (g, L / n, lk)
        pts = obj.sample(n)
        if len(pts) < 2:
            return "sample returned fewer than two points"
        s0, s1 = obj.pointAtTime(0.0), obj.pointAtTime(1.0)
        if (pts[0].x, pts[0].y) != (s0.x, s0.y) or (pts[-1].x, pts[-1].y) != (s1.x, s1.y):
            return "sample does not run from the start to the end"
        rp = obj.regularSample(n)
        if len(rp) != len(rs):
            return "regularSample and regularSampleTValue disagree in length"
    except (IndexError, ZeroDivisionError, ValueError) as e:
        return "query failed with %s: %s" % (type(e).__name__, e)
    return None


def rand_spec(rng):
    if rng.random() < 0.06:
        # long objects (3000 .. 8000 units): one line, or an open path of four long lines
        s = float(rng.choice([800, 1500, 2000]))
        if rng.random() < 0.5:
            return {"kind": "segment", "pts": [(0.0, 0.0), (4 * s, 0.0)]}
        return {"kind": "path", "segs": [[(0.0, 0.0), (s, 0.0)], [(s, 0.0), (s, s)], [(s, s), (0.0, s)], [(0.0, s), (0.0, 10.0)]], "closed": False}
    if rng.random() < 0.15:
        # short objects: a segment or an open path a fraction of a unit to a few units long ("for any path length")
        k = rng.choice([16.0, 64.0, 256.0, 1024.0])
        if rng.random() < 0.5:
            return {"kind": "segment", "pts": [(x / k, y / k) for x, y in oc.rand_seg_pts(rng, rng.choice([2, 3, 4]), "int")]}
        segs = []
        cur = (float(rng.randint(-50, 50)), float(rng.randint(-50, 50)))
        for _ in range(rng.randint(1, 4)):
            pts = oc.chain_seg(rng, cur, fams=("int",))
            cur = pts[-1]
            segs.append(pts)
        return {"kind": "path", "segs": [[(x / k, y / k) for x, y in s] for s in segs], "closed": False}
    r = rng.random()
    if r < 0.3:
        w, h = rng.choice([(64, 64), (16, 16), (100, 50), (30, 2), (7, 25), (128, 128), (rng.randint(3, 200), rng.randint(3, 200))])
        return {"kind": "rect", "w": w, "h": h, "o": (float(rng.randint(-9, 9)), float(rng.randint(-9, 9)))}
    if r < 0.4:
        return {"kind": "ellipse", "rx": float(rng.randint(5, 60)), "ry": float(rng.randint(5, 60))}
    if r < 0.55:
        segs = []
        cur = (0.0, 0.0)
        for k in range(rng.choice([rng.randint(2, 6), 5, 10, 7, 11])):
            Ls = rng.choice([1.0, 1.0, 2.0, 300.0, 1000.0]) if k < 6 else rng.choice([3.0, 7.0, 20.0])
            nxt = (cur[0] + Ls, cur[1]) if k % 2 == 0 else (cur[0], cur[1] + Ls)
            segs.append([cur, nxt])
            cur = nxt
        return {"kind": "path", "segs": segs}
    if r < 0.8:
        segs = []
        cur = (float(rng.randint(-50, 50)), float(rng.randint(-50, 50)))
        for _ in range(rng.randint(1, 5)):
            pts = oc.chain_seg(rng, cur, fams=("int", "int", "int", "teardrop", "retracted", "collinear"))
            cur = pts[-1]
            segs.append(pts)
        return {"kind": "path", "segs": segs, "closed": False}
    return {"kind": "segment", "pts": oc.rand_seg_pts(rng, rng.choice([2, 3, 4]), rng.choice(["int", "grid", "teardrop", "retracted", "collinear", "collinear"]))}


def search(ctx, budget):
    rng = ctx.rng
    n_cases = 120 * ctx.scale * budget
    viol, samples = [], []
    seen = set()
    nontriv = skipped = 0
    known = 0
    for i in range(n_cases):
        spec = rand_spec(rng)
        try:
            L = build(spec).length
        except Exception as e:
            viol.append({"what": "length raised %r" % e, "input": {"spec": spec, "n": 1, "ts": [0.0]}})
            continue
        if L <= 0 or L > 9000:
            skipped += 1          # regular sampling tabulates the arc length in unit steps: cost grows with the square of the length
            continue
        n = rng.randint(1, max(1, int(L / 4)))
        if rng.random() < 0.3:
            n = max(1, int(L / 4))
        if L > 2500:
            n = rng.choice([200, 300, 400])     # long objects: a requested gap of a few dozen units
        if spec["kind"] == "rect" and spec["w"] == spec["h"] and spec["w"] in (16, 64, 128) and rng.random() < 0.6:
            # lengths that are exact in binary with sample counts that are not: the accumulated target falls a rounding error short of the
            # full length, the loop runs once more and the walk itself arrives at t = 1
            n = rng.choice([7, 10, 13, 14, 20, 26])
        ts = [0.0, 1.0] + [rng.randint(0, 64) / 64.0 for _ in range(4)] + [rng.random() for _ in range(3)]
        if spec["kind"] in ("path", "rect", "ellipse"):
            # the segment boundaries k/n themselves (as floats: for n = 5, 10, 49, ... the product t*n and the quotient t/(1/n) round differently)
            nseg = len(build(spec).asSegments())
            ts += [k / nseg for k in range(1, nseg)][:12]
        inp = {"spec": spec, "n": n, "ts": ts}
        msg = check(spec, n, ts)
        if msg is None and spec["kind"] == "segment" and len(spec["pts"]) > 2 and L < 800:
            # sampling and length-so-far describe the segment as it is now
            m = min(n, 12)
            msg = oc.stale_check([tuple(p) for p in spec["pts"]], i, [
                ("regularSampleTValue(%d)" % m, lambda g: tuple(g.regularSampleTValue(m))), ("lengthAtTime(0.5)", lambda g: g.lengthAtTime(0.5)),
                ("sample(%d)" % m, lambda g: g.sample(m)), ("length", lambda g: g.length)])
        if msg is None and spec["kind"] == "path" and L < 1500:
            m = min(n, 10)
            msg = oc.path_stale_check([[tuple(p) for p in sg] for sg in spec["segs"]], spec.get("closed", False), i, [
                ("regularSampleTValue(%d)" % m, lambda g: tuple(g.regularSampleTValue(m))), ("lengthAtTime(0.3)", lambda g: g.lengthAtTime(0.3)),
                ("pointAtTime(0.7)", lambda g: g.pointAtTime(0.7)), ("length", lambda g: g.length)])
        if msg == "skip":
            skipped += 1
            continue
        key = repr((spec, n))
        if key not in seen:
            seen.add(key)
            nontriv += 1
        if msg:
            viol.append({"what": msg, "input": inp})
            if len([v for v in viol if v["what"] != "K4"]) >= 5:
                break
        if len(samples) < 3:
            samples.append(inp)
    return {"evaluations": i + 1, "distinct_nontrivial": nontriv, "skipped_short": skipped, "samples": samples}, viol


def classify(v, entry):
    return entry["id"] == "K4" and v.get("what") == "K4"


def replay(v):
    inp = v["input"]
    r = check(inp["spec"], inp["n"], inp["ts"])
    return r is not None and r != "skip"
