"""C18 — tangent, normal and curvature agree with the exact derivatives."""
import math
from fractions import Fraction as F
from .. import tv
from ..oracles import common as oc

ID = "C18"
TOPICS = ["Curv", "Eval"]
LEAN_TARGETS = ["BezierVerif.Props.C18"]
TV_DEFS = ["cubic_tangentAtTime", "quad_tangentAtTime", "cubic_normalAtTime", "quad_normalAtTime", "cubic_curvatureAtTime",
           "quad_curvatureAtTime", "line_tangentAtTime", "line_normalAtTime", "line_curvatureAtTime", "cubic_startAngle",
           "cubic_endAngle", "quad_startAngle", "quad_endAngle", "line_startAngle", "line_endAngle"]
RULE = ("segments of the three kinds from the Appendix-B families, t from {0,1,k/64,uniform}; cases with speed below 1e-6 of the "
        "control-polygon length are skipped and counted; reference = exact first/second derivatives of the Bernstein polynomial in "
        "Fractions, then one float sqrt/pow; non-trivial = polygon with >= 2 distinct points and speed above the threshold")
UNPROVED = ["Line.normalAtTime = tangent rotated by +pi/2 in polar form (sampled; needs cos(x+pi/2) = -sin x on the traced expression — planned)",
            "float residuals (sampled: 1e-9 relative for unit vectors, 1e-7 relative for curvature)"]
ASSUMPTIONS = ["math.sqrt, x ** 1.5, math.atan2, math.cos, math.sin are the real functions (atan2 y x := Complex.arg (x + iy))"]
LEVEL_TEXT = ("theorems about definitions regenerated from segment.py/line.py/quadraticbezier.py/cubicbezier.py/point.py: tangent = derivative/|derivative| "
              "when the derivative does not vanish (cubic, quadratic; line via the polar-form lemma), normal = (-t_y, t_x), start/end angles = atan2 of the "
              "first/last leg, curvature = (x'y''-y'x'')/(x'^2+y'^2)^(3/2) where x',x'' are proved (HasDerivAt) to be the first and second derivatives "
              "of the evaluated curve; a line's curvature is a constant below 1e-15")
LEVEL_NOTE = "trusted: Lean kernel + Mathlib, axioms {propext, Classical.choice, Quot.sound}, translator (validated per run), real semantics of sqrt/pow/trig"
TECHNIQUE = "symbolic tracing to Lean; ring + HasDerivAt (Polynomial) + Complex.arg polar lemma; exact-derivative oracle"


def correspondence(ctx):
    stats, dis = tv.validate(TV_DEFS, ctx.rng, 16 * ctx.scale, tol_rel=1e-7)
    stats["distinct_nontrivial"] = 0
    return stats, dis


def derivs(pts, t):
    xs, ys = [p[0] for p in pts], [p[1] for p in pts]
    d1x, d1y = oc.dcoeffs(xs), oc.dcoeffs(ys)
    x1, y1 = oc.bern(d1x, t), oc.bern(d1y, t)
    if len(pts) > 2:
        x2, y2 = oc.bern(oc.dcoeffs(d1x), t), oc.bern(oc.dcoeffs(d1y), t)
    else:
        x2, y2 = F(0), F(0)
    return x1, y1, x2, y2


def polylen(pts):
    return sum(math.hypot(b[0] - a[0], b[1] - a[1]) for a, b in zip(pts, pts[1:]))


def check_case(pts, t):
    seg = oc.mkseg(pts)
    x1, y1, x2, y2 = derivs(pts, t)
    speed = math.sqrt(float(x1 * x1 + y1 * y1))
    L = polylen(pts)
    if L == 0 or speed < 1e-6 * L:
        return "skip"
    tan = seg.tangentAtTime(t)
    ex = (float(x1) / speed, float(y1) / speed)
    if abs(tan.x - ex[0]) > 1e-9 or abs(tan.y - ex[1]) > 1e-9:
        return "tangent %r is not the unit vector along the exact derivative %r" % (tan, ex)
    nor = seg.normalAtTime(t)
    if abs(nor.x + ex[1]) > 1e-9 or abs(nor.y - ex[0]) > 1e-9:
        return "normal %r is not the tangent rotated 90 degrees counter-clockwise %r" % (nor, (-ex[1], ex[0]))
    a0 = math.atan2(pts[1][1] - pts[0][1], pts[1][0] - pts[0][0])
    a1 = math.atan2(pts[-1][1] - pts[-2][1], pts[-1][0] - pts[-2][0])
    if seg.startAngle != a0 or seg.endAngle != a1:
        return "start/end angle is not the direction of the first/last control-polygon leg"
    k = seg.curvatureAtTime(t)
    if len(pts) == 2:
        if abs(k) > 1e-15:
            return "a line's curvature %r is not negligible" % k
    else:
        exk = float(x1 * y2 - y1 * x2) / speed ** 3
        # rounding of the cancelling numerator x'y'' - y'x'' is proportional to |x'y''| + |y'x''|
        noise = 1e-9 * float(abs(x1 * y2) + abs(y1 * x2)) / speed ** 3
        # ... and the second differences themselves carry an absolute rounding error of a few ulps of the coordinate magnitude
        # (they can be pure rounding noise for a straight or degree-elevated curve, whose true curvature is 0)
        noise += 1e-12 * max(1.0, oc.maxabs(pts)) * float(abs(x1) + abs(y1)) / speed ** 3
        if abs(k - exk) > 1e-7 * abs(exk) + noise + 1e-300:
            return "curvature %r differs from (x'y''-y'x'')/(x'^2+y'^2)^1.5 = %r" % (k, exk)
    # the answers describe the segment as it is now, not as it was when first asked
    return oc.stale_check(pts, hash((tuple(pts), t)) & 0xFFFFFF, [
        ("tangentAtTime(%r)" % t, lambda s: s.tangentAtTime(t)), ("normalAtTime(%r)" % t, lambda s: s.normalAtTime(t)),
        ("curvatureAtTime(%r)" % t, lambda s: s.curvatureAtTime(t)), ("startAngle", lambda s: s.startAngle), ("endAngle", lambda s: s.endAngle)])


def check_flat_edges(pts, d):
    """a line's curvature is negligibly small — also for the lines that come out of flatten(), which remember the curve they came from"""
    seg = oc.mkseg(pts)
    if polylen(pts) > 600:
        return None                    # regular sampling tabulates the arc length in unit steps: long curves cost too much here
    if polylen(pts) / d > 40:
        d = polylen(pts) / 40
    try:
        edges = seg.flatten(d)
    except Exception as ex:
        return "flatten raised %r" % (ex,)
    for e in edges[:6] + edges[-2:]:
        if len(e.points) != 2:
            continue
        L = math.hypot(e.end.x - e.start.x, e.end.y - e.start.y)
        for t in (0.0, 0.5, 1.0, 0.3):
            k = e.curvatureAtTime(t)
            if not (abs(k) * max(L, 1.0) <= 1e-9):
                return "an edge of flatten(%r) has curvature %r at t=%r (a line's curvature is negligibly small)" % (d, k, t)
    return None


def search(ctx, budget):
    rng = ctx.rng
    n = 1500 * ctx.scale * budget
    seen = set()
    nontriv = skipped = 0
    viol, samples = [], []
    for i in range(n):
        order = 2 + i % 3
        fam = oc.COORD_FAMILIES[(i // 3) % len(oc.COORD_FAMILIES)]
        pts = oc.rand_seg_pts(rng, order, fam)
        t = oc.rand_t(rng)
        msg = check_case(pts, t)
        if msg == "skip":
            skipped += 1
            continue
        if not msg and i % 50 == 7 and order > 2:
            msg = check_flat_edges(pts, rng.choice([2.0, 8.0, 50.0]))
        key = (tuple(pts), t)
        if key not in seen:
            seen.add(key)
            nontriv += 1
        if msg:
            viol.append({"what": msg, "input": {"pts": pts, "t": t}})
            if len(viol) >= 5:
                break
        if len(samples) < 3:
            samples.append({"pts": pts, "t": t})
    return {"evaluations": i + 1, "distinct_nontrivial": nontriv, "skipped_low_speed": skipped, "samples": samples}, viol


def classify(v, entry):
    return False


def replay(v):
    inp = v["input"]
    pts = [tuple(p) for p in inp["pts"]]
    r = check_case(pts, inp["t"])
    if r is not None and r != "skip":
        return True
    return len(pts) > 2 and any(check_flat_edges(pts, d) for d in (2.0, 8.0, 50.0))
