"""C04 — arc length is accurate, additive and invariant under rigid motion."""
import math
from fractions import Fraction as F
from .. import tv, specs
from ..oracles import common as oc
from beziers.point import Point

ID = "C04"
TOPICS = ["Length", "Eval", "Affine"]
LEAN_TARGETS = ["BezierVerif.Props.C04"]
TV_DEFS = ["cubic_length", "quad_length", "line_length"]
RULE = ("segments of the three kinds from the Appendix-B families plus cusped, looping and collinear self-retracing cubics; "
        "reference = certified enclosure of the true arc length by recursive subdivision (sum of chords <= L <= sum of control "
        "polygons) refined to 1e-7 relative; split parameters, rotations, translations, scale factors random; "
        "non-trivial = length > 0; distinct = distinct inputs")
UNPROVED = ["'within 2 % of the true arc length, 0.01 % when well parametrised' (quadrature accuracy: analytic, no Mathlib quadrature-error library) — sampled against certified enclosures",
            "additivity under splitting, 'never less than the chord, never more than the control polygon' — consequences of the accuracy clause, sampled",
            "the float evaluation of z*T[i]+z (the model reads it as real arithmetic)"]
ASSUMPTIONS = ["math.sqrt is the real square root", "legendregauss tables are read as the exact rationals of the doubles Python holds"]
LEVEL_TEXT = ("partial: theorems about the regenerated 24-point formula: length = z*sum C_i*|B'(z*T_i+z)| (structure, any tables), hence exactly invariant under "
              "translation, rotation (c^2+s^2=1), reversal (proved from the +- symmetry of the actual table), multiplied by |k| under scaling, non-negative; "
              "line length = Euclidean; table facts (24 entries, positive weights, abscissae in (-1,1), weights sum to 2 within 1e-15). The accuracy clause "
              "(2 % / 0.01 %) and its consequences are decided by sampling against certified enclosures, not by a theorem")
LEVEL_NOTE = ("trusted: Lean kernel + Mathlib, axioms {propext, Classical.choice, Quot.sound}, translator (tables passed as parameters; validated per run); "
              "quadrature accuracy is NOT proved")
TECHNIQUE = "symbolic tracing to Lean (tables as parameters); ring + list induction over the quadrature sum; certified-enclosure sampling for accuracy"


def env_hook(name, env, rng, fam):
    if name in ("cubic_length", "quad_length"):
        env.update(specs.gl_table_env())
    return env


def correspondence(ctx):
    stats, dis = tv.validate(TV_DEFS, ctx.rng, 25 * ctx.scale, tol_rel=1e-9, env_hook=env_hook)
    stats["distinct_nontrivial"] = 0
    return stats, dis


def enclosure(pts, rel=1e-7, maxdepth=16):
    """(lower, upper) bounds of the arc length by adaptive subdivision"""
    def chord(p): return math.hypot(p[-1][0] - p[0][0], p[-1][1] - p[0][1])
    def poly(p): return sum(math.hypot(b[0] - a[0], b[1] - a[1]) for a, b in zip(p, p[1:]))
    pieces = [(pts, 0)]
    lo = hi = 0.0
    total_hi = poly(pts)
    if total_hi == 0:
        return 0.0, 0.0
    stack = [(list(map(tuple, pts)), 0)]
    budget = rel * total_hi
    while stack:
        p, d = stack.pop()
        c, g = chord(p), poly(p)
        if g - c <= budget * (0.5 ** d) * 4 + 1e-300 or d >= maxdepth:
            lo += c
            hi += g
        else:
            from .c20 import split_pts
            a, b = split_pts(p)
            stack.append((a, d + 1))
            stack.append((b, d + 1))
    return lo * (1 - 1e-12), hi * (1 + 1e-12)


def speeds(pts, n=200):
    xs, ys = oc.dcoeffs([p[0] for p in pts]), oc.dcoeffs([p[1] for p in pts])
    out = []
    for i in range(n + 1):
        t = i / n
        def bern(cs):
            k = len(cs) - 1
            return sum(math.comb(k, j) * (1 - t) ** (k - j) * t ** j * float(c) for j, c in enumerate(cs))
        out.append(math.hypot(bern(xs), bern(ys)))
    return out


def check_case(pts, t, k, th, v):
    return check_case_fresh(pts, t, k, th, v) or oc.stale_check(pts, hash((tuple(pts), t)) & 0xFFFFFF, [
        ("length", lambda g: g.length), ("lengthAtTime(%r)" % t, lambda g: g.lengthAtTime(t))])


def check_case_fresh(pts, t, k, th, v):
    seg = oc.mkseg(pts)
    L = seg.length
    lo, hi = enclosure(pts)
    if not (L == L) or L < 0:
        return "length is not a non-negative number: %r" % L
    if len(pts) == 2:
        e = math.hypot(pts[1][0] - pts[0][0], pts[1][1] - pts[0][1])
        if abs(L - e) > 1e-12 * max(1.0, e):
            return "a line's length %r is not its Euclidean length %r" % (L, e)
    tol = 0.02
    if len(pts) > 2 and hi > 0:
        sp = speeds(pts)
        mean = sum(sp) / len(sp)
        if min(sp) >= 0.6 * mean:
            tol = 1e-4
    if L < lo * (1 - tol) - 1e-9 or L > hi * (1 + tol) + 1e-9:
        return "length %r not within %g of the true arc length in [%r, %r]" % (L, tol, lo, hi)
    T = 0.02
    a, b = seg.splitAtTime(t)
    if abs(a.length + b.length - L) > 2 * T * hi + 1e-9:
        return "length not additive under splitting: %r + %r vs %r" % (a.length, b.length, L)
    if abs(seg.reversed().length - L) > 1e-9 * max(1.0, L):
        return "length changed by reversal: %r vs %r" % (seg.reversed().length, L)
    M = oc.maxabs(pts)       # moved / scaled coordinates are rounded to their own magnitude: a few ulps of it go into the length
    if abs(seg.translated(Point(*v)).length - L) > 1e-9 * max(1.0, L, abs(v[0]), abs(v[1])) + 1e-14 * (M + abs(v[0]) + abs(v[1])):
        return "length changed by translation"
    if abs(seg.rotated(Point(*pts[0]), th).length - L) > 1e-7 * max(1.0, L) + 1e-9 * oc.maxabs(pts):
        return "length changed by rotation: %r vs %r" % (seg.rotated(Point(*pts[0]), th).length, L)
    if abs(seg.scaled(k).length - abs(k) * L) > 1e-9 * max(1.0, abs(k) * L) + 1e-14 * (1 + abs(k)) * M:
        return "length not multiplied by |k| under scaling"
    chord = math.hypot(pts[-1][0] - pts[0][0], pts[-1][1] - pts[0][1])
    poly = sum(math.hypot(q[0] - p[0], q[1] - p[1]) for p, q in zip(pts, pts[1:]))
    if L < chord * (1 - T) - 1e-9 or L > poly * (1 + T) + 1e-9:
        return "length %r outside [chord, control polygon] = [%r, %r] beyond tolerance" % (L, chord, poly)
    if abs(seg.lengthAtTime(0.0)) > 1e-9 * max(1.0, L) or abs(seg.lengthAtTime(1.0) - L) > 1e-9 * max(1.0, L):
        return "lengthAtTime(0) != 0 or lengthAtTime(1) != length"
    return None


def seg_sum(p):
    tot = 0
    for s in p.asSegments():
        tot += s.length
    return tot


def check_path(segs, hist=None):
    p = oc.path_from(segs, False)
    tot = seg_sum(p)
    if p.length != tot:
        return "path length %r is not the sum of its segments' lengths %r" % (p.length, tot)
    # ... and stays so through a history of in-place operations, with the length read in between (a remembered value must not go stale);
    # under scaling by k the length is multiplied by |k|, rigid motions and reversal leave it alone (to the C04 tolerance)
    for op in hist or []:
        before = p.length
        if op[0] == "scale":
            p.scale(op[1]); want = abs(op[1]) * before
        elif op[0] == "translate":
            p.translate(Point(*op[1])); want = before
        elif op[0] == "rotate":
            p.rotate(Point(*op[1]), op[2]); want = before
        elif op[0] == "reverse":
            p.reverse(); want = before
        else:
            p.round(); want = None
        now, tot = p.length, seg_sum(p)
        if now != tot:
            return "after %r (length read before it) the path length %r is not the sum of its segments' lengths %r" % (op, now, tot)
        if want is not None and abs(now - want) > 2e-2 * max(want, 1e-9) + 1e-9:
            return "after %r the path length is %r, expected %r" % (op, now, want)
    return None


def special_cubic(rng):
    r = rng.random()
    c = lambda: float(rng.randint(-300, 300))
    if r < 0.3:   # cusp / loop: handles cross
        a, b = (c(), c()), (c(), c())
        return [a, (b[0] + c() / 3, b[1] + c() / 3), (a[0] + c() / 3, a[1] + c() / 3), b]
    if r < 0.6:   # collinear, retracing
        a = (c(), c())
        d = (c() / 10 + 1, c() / 10)
        ks = [0.0, rng.uniform(-2, 3), rng.uniform(-2, 3), 1.0]
        return [(a[0] + k * d[0] * 100, a[1] + k * d[1] * 100) for k in ks]
    return [(c(), c()) for _ in range(4)]


def run_one(kind, inp):
    if kind == "seg":
        return check_case([tuple(p) for p in inp["pts"]], inp["t"], inp["k"], inp["th"], tuple(inp["v"]))
    segs = [[tuple(p) for p in s] for s in inp["segs"]]
    return check_path(segs, inp.get("hist")) or oc.path_stale_check(segs, False, hash(repr(segs)) & 0xFFFFFF, [
        ("length", lambda g: g.length), ("lengthAtTime(0.4)", lambda g: g.lengthAtTime(0.4))])


def search(ctx, budget):
    rng = ctx.rng
    n = 500 * ctx.scale * budget
    viol, samples = [], []
    seen = set()
    nontriv = 0
    for i in range(n):
        if i % 10 == 9:
            segs = []
            cur = (float(rng.randint(-200, 200)), float(rng.randint(-200, 200)))
            for _ in range(rng.randint(1, 6)):
                pts = oc.chain_seg(rng, cur)
                cur = pts[-1]
                segs.append(pts)
            hist = []
            for _ in range(rng.randint(0, 4)):
                r = rng.random()
                if r < 0.4:
                    hist.append(["scale", rng.choice([-1.0, 2.0, -2.5, 0.5, -0.25, 3.0])])
                elif r < 0.6:
                    hist.append(["translate", [float(rng.randint(-50, 50)), float(rng.randint(-50, 50))]])
                elif r < 0.8:
                    hist.append(["rotate", [float(rng.randint(-50, 50)), float(rng.randint(-50, 50))], rng.uniform(-3, 3)])
                else:
                    hist.append(["reverse"])
            inp = {"segs": segs, "hist": hist}
            kind = "path"
        else:
            order = 2 + i % 3
            fam = oc.COORD_FAMILIES[(i // 3) % len(oc.COORD_FAMILIES)]
            if fam == "big":
                fam = "float"
            pts = oc.rand_seg_pts(rng, order, fam) if (order < 4 or i % 2) else special_cubic(rng)
            inp = {"pts": pts, "t": oc.rand_t(rng), "k": rng.choice([2.0, -1.0, 0.5, -3.0, rng.uniform(-4, 4)]),
                   "th": rng.uniform(-3.1, 3.1), "v": (float(rng.randint(-500, 500)), float(rng.randint(-500, 500)))}
            kind = "seg"
        if repr(inp) not in seen:
            seen.add(repr(inp))
            nontriv += 1
        msg = run_one(kind, inp)
        if msg:
            viol.append({"what": msg, "kind": kind, "input": inp})
            if len(viol) >= 5:
                break
        if len(samples) < 3:
            samples.append(inp)
    return {"evaluations": i + 1, "distinct_nontrivial": nontriv, "samples": samples}, viol


def classify(v, entry):
    return False


def replay(v):
    return run_one(v["kind"], v["input"]) is not None
