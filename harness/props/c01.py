"""C01 — evaluation and subdivision reproduce the Bezier polynomial exactly."""
from fractions import Fraction as F
from .. import tv
from ..oracles import common as oc

ID = "C01"
TOPICS = ["Eval"]
LEAN_TARGETS = ["BezierVerif.Props.C01"]
TV_DEFS = ["point_lerp", "line_pointAtTime", "quad_pointAtTime", "cubic_pointAtTime", "line_splitAtTime",
           "quad_splitAtTime", "cubic_splitAtTime", "quad_derivative", "cubic_derivative"]
RULE = ("segments of order 2,3,4 from the families int/grid/dyadic/float/big(1e6)/collinear/coincident/arch/elevated, "
        "t and s from {0,1,k/64,near-end,uniform}; a case is non-trivial when the control polygon has two distinct "
        "points and t is not 0 or 1; distinct = distinct (polygon,t,s) tuples")
UNPROVED = ["'in floating point they hold to within 1e-12 of the largest control coordinate magnitude' — sampled: "
            "the implementation's float result is compared with the exact rational Bernstein value on every generated input"]
ASSUMPTIONS = ["Python floats are IEEE-754 binary64 (exact-float certificate argument)",
               "the derivative theorems are over the reals (Mathlib HasDerivAt); all other C01 theorems hold over any ordered field"]
TOL = 1e-12


def correspondence(ctx):
    n = 40 * ctx.scale
    stats, dis = tv.validate(TV_DEFS, ctx.rng, n)
    stats["distinct_nontrivial"] = 0
    return stats, dis


def check_case(pts, t, s):
    """Returns None or a description of the failed clause (implementation vs exact Bernstein spec)."""
    seg = oc.mkseg(pts)
    M = oc.maxabs(pts)
    tol = TOL * M

    def near(p, q, k=1.0):
        return abs(F(p.x) - q[0]) <= k * tol and abs(F(p.y) - q[1]) <= k * tol
    ex = oc.bern_pt(pts, t)
    if not near(seg.pointAtTime(t), ex):
        return "pointAtTime(t) differs from the Bernstein polynomial: %r vs %s" % (seg.pointAtTime(t), [float(v) for v in ex])
    if not near(seg.pointAtTime(0.0), (F(pts[0][0]), F(pts[0][1]))) or not near(seg.pointAtTime(1.0), (F(pts[-1][0]), F(pts[-1][1]))):
        return "end points not reproduced at t=0 / t=1"
    a, b = seg.splitAtTime(t)
    if type(a) is not type(seg) or type(b) is not type(seg):
        return "split pieces are not of the same kind: %s %s" % (type(a).__name__, type(b).__name__)
    if not near(a.end, ex) or not near(b.start, ex):
        return "pieces do not meet at the point at t"
    if not near(a.start, (F(pts[0][0]), F(pts[0][1]))) or not near(b.end, (F(pts[-1][0]), F(pts[-1][1]))):
        return "pieces do not start/end at the original ends"
    e1 = oc.bern_pt(pts, F(s) * F(t))
    if not near(a.pointAtTime(s), e1, 2):
        return "first piece at s is not the original at s*t"
    e2 = oc.bern_pt(pts, F(t) + F(s) * (1 - F(t)))
    if not near(b.pointAtTime(s), e2, 2):
        return "second piece at s is not the original at t+s*(1-t)"
    if len(pts) > 2:
        d = seg.derivative()
        dx = oc.bern(oc.dcoeffs([p[0] for p in pts]), t)
        dy = oc.bern(oc.dcoeffs([p[1] for p in pts]), t)
        if not near(d.pointAtTime(t), (dx, dy), 12):
            return "derivative segment does not evaluate to the exact parametric derivative"
        if len(d.points) != len(pts) - 1:
            return "derivative segment has the wrong order"
    return None


def search(ctx, budget):
    rng = ctx.rng
    n = 1500 * ctx.scale * budget
    seen = set()
    nontriv = 0
    viol = []
    samples = []
    fams = {}
    for i in range(n):
        order = 2 + i % 3
        fam = oc.COORD_FAMILIES[(i // 3) % len(oc.COORD_FAMILIES)]
        pts = oc.rand_seg_pts(rng, order, fam)
        t, s = oc.rand_t(rng), oc.rand_t(rng)
        fams[fam] = fams.get(fam, 0) + 1
        key = (tuple(pts), t, s)
        if key not in seen:
            seen.add(key)
            if oc.nontrivial_polygon(pts) and 0 < t < 1:
                nontriv += 1
        msg = check_case(pts, t, s)
        if not msg and i % 4 == 0:
            # evaluation, subdivision and the derivative describe the segment as it is now (not as it was when first asked)
            msg = oc.stale_check(pts, i, [("pointAtTime(%r)" % t, lambda g: g.pointAtTime(t)), ("splitAtTime(%r)" % t, lambda g: g.splitAtTime(t)),
                                          ("derivative()", lambda g: g.derivative() if len(g.points) > 2 else None)])
        if msg:
            viol.append({"what": msg, "input": {"pts": pts, "t": t, "s": s}})
            if len(viol) >= 5:
                break
        if len(samples) < 3:
            samples.append({"pts": pts, "t": t, "s": s})
    return {"evaluations": i + 1, "distinct_nontrivial": nontriv, "families": fams, "samples": samples}, viol


def classify(v, entry):
    return False


def replay(v):
    inp = v["input"] if "input" in v else v
    return check_case([tuple(p) for p in inp["pts"]], inp["t"], inp["s"]) is not None

LEVEL_TEXT = ("every real-arithmetic sentence of C01 is a Lean theorem about definitions regenerated from the source on every run: "
              "evaluation = Bernstein polynomial (general Σ C(n,i)(1-t)^(n-i)t^i P_i), end points, both split pieces retrace the original, "
              "pieces meet at the point at t, same kind, derivative segment = HasDerivAt derivative; the 1e-12 float clause is sampled against exact rationals")
LEVEL_NOTE = ("trusted: Lean kernel; axioms {propext, Classical.choice, Quot.sound}; the tracing translator (validated per run: bit-exact against the "
              "untraced code on exact-float-certified inputs, exact against Lean at K=Q); IEEE rounding not modelled")
TECHNIQUE = "symbolic tracing of the Python code to Lean definitions; ring / Polynomial.hasDerivAt proofs; exact-rational differential oracle"
