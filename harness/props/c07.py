"""C07 — paths stay connected chains under any history of operations; clones are independent."""
import math
from fractions import Fraction as F
from .. import drive
from ..oracles import common as oc
from beziers.point import Point
from beziers.line import Line
from beziers.cubicbezier import CubicBezier
from beziers.quadraticbezier import QuadraticBezier
from beziers.path import BezierPath

ID = "C07"
TOPICS = ["Eval", "Affine"]
LEAN_TARGETS = ["BezierVerif.Props.C07", "BezierVerif.Props.C07A"]
RULE = ("random histories (quick: length <= 12, thorough: <= 40) of translate / rotate / scale / reverse / addExtremes / splitAtPoints / balance / "
        "round / quadraticsToCubics / removeIrrelevantSegments / flatten / append / clone / representation switches on open and closed paths "
        "of 1..5 mixed segments with integer coordinates (points identical or >= 1 unit apart, so isclose-equality is exact equality); every live "
        "path (clones, flatten results, append arguments incl. clones of the receiver) can be the receiver of later operations; after every step the "
        "implementation's values and alias partition (id() of list and segment objects) are compared with the heap model's; "
        "non-trivial = history with >= 3 operations including a clone or an in-place operation; distinct = distinct histories")
UNPROVED = ["rotate values (float trigonometry) enter the model as a point table taken from the implementation (the theorem holds for every point map)",
            "Point-object sharing (reversed(), toCubicBezier share Point objects) is outside the model: no listed operation mutates a Point in place (checked by grep in the run)"]
ASSUMPTIONS = ["isclose-equality of points coincides with exact equality on the generated domain",
               "segments of a path are distinct objects (the generator never repeats an object inside one path)"]
LEVEL_TEXT = ("heap model with object identities (list objects, segment objects): step_refines (the heap-level step of every operation computes its value-level "
              "result), step_frame (an operation only touches its receiver's objects), clone_spec, clone_independent (for every interleaved history of "
              "operations on a path and its clone, each ends where its own operations alone take it), op_chain / history_chain (every operation, hence every "
              "history, maps connected chains to connected chains, keeps closed paths closed, moves end points as stated; removeIrrelevantSegments for every "
              "merge pattern; splitAtPoints for every cut outcome). Model tied to path/__init__.py by comparing values and alias partition after every step")
LEVEL_NOTE = ("trusted: Lean kernel (core Lean; axioms propext / Quot.sound / Classical.choice at most), hand model Model/Heap.lean + HeapDriver "
              "(correspondence per run, including the alias partition)")
TECHNIQUE = "heap model with object identities; frame + refinement lemmas; induction over operation histories"

OPS = ["translate", "scale", "rotate", "reverse", "addExtremes", "splitAtPoints", "balance", "round", "quadraticsToCubics",
       "removeIrrelevantSegments", "flatten", "append", "clone", "reconvert"]


# ----------------------------------------------------------------------------- building and running histories

def rand_start(rng, small=False):
    n = rng.randint(1, 5)
    closed = rng.random() < 0.5 and n >= 2
    used = set()

    def pt():
        while True:
            p = (float(rng.randint(-12, 12)), float(rng.randint(-12, 12))) if small else (float(4 * rng.randint(-60, 60)), float(4 * rng.randint(-60, 60)))
            if p not in used:
                used.add(p)
                return p
    nodes = [pt() for _ in range(n + 1)]
    if closed:
        nodes[-1] = nodes[0]
    segs = []
    for i in range(n):
        order = rng.choice([2, 2, 3, 4])
        segs.append([nodes[i]] + [pt() for _ in range(order - 2)] + [nodes[i + 1]])
    return {"segs": segs, "closed": closed}


def rand_nodelist_start(rng):
    """a closed outline given as a node list that does not repeat its start node, read from a random position (also an off-curve one);
    handles are often retracted onto on-curve nodes — including the LAST handle of the closing curve onto the start node"""
    from . import c08
    segs = c08.rand_chain(rng, True, fam="int", maxn=5)
    if len(segs[-1]) > 2 and rng.random() < 0.5:
        segs[-1] = segs[-1][:-2] + [segs[0][0], segs[-1][-1]]        # closing curve's last handle on the start node
    nl = c08.nodes_of(segs)
    r = rng.randrange(len(nl))
    return {"segs": segs, "nodes": nl[r:] + nl[:r]}


def rand_history(rng, maxlen):
    hist = [("new", rand_start(rng))] if rng.random() < 0.8 else [("newnl", rand_nodelist_start(rng))]
    npaths = 1
    if rng.random() < 0.3:
        # alias hunting: fractional coordinates, a copy-producing operation, then in-place operations on either of the two paths;
        # half of the time on a small path (curves shorter than the flattening step become chords)
        if rng.random() < 0.5:
            hist = [("new", rand_start(rng, small=True))]
        hist.append(("translate", 0, (rng.choice([0.5, 0.25, 1.5]), rng.choice([0.5, 0.75, 2.5]))))
        if rng.random() < 0.5:
            hist.append(("scale", 0, rng.choice([0.125, 0.25, 0.5])))
        hist.append(rng.choice([("flatten", 0, 50), ("flatten", 0, 8), ("flatten", 0, 2), ("clone", 0)]))
        for _ in range(rng.randint(1, 3)):
            op = rng.choice(["round", "balance", "quadraticsToCubics", "reverse", "removeIrrelevantSegments", "round"])
            h = rng.randrange(2)
            hist.append((op, h, 0.02, 30) if op == "removeIrrelevantSegments" else (op, h))
        return hist
    for _ in range(rng.randint(1, maxlen)):
        op = rng.choice(OPS)
        h = rng.randrange(npaths)
        if op == "translate":
            hist.append((op, h, (float(rng.randint(-50, 50)), float(rng.randint(-50, 50)))))
        elif op == "scale":
            hist.append((op, h, rng.choice([2.0, 0.5, -1.0, 3.0, 0.25, 0.125])))
        elif op == "rotate":
            hist.append((op, h, (float(rng.randint(-20, 20)), float(rng.randint(-20, 20))), rng.choice([math.pi / 2, 1.0, -0.7, math.pi])))
        elif op == "splitAtPoints":
            hist.append((op, h, [(rng.randrange(6), rng.choice([0.25, 0.5, 0.75, 0.5, 0.0])) for _ in range(rng.randint(0, 3))]))
        elif op == "flatten":
            hist.append((op, h, rng.choice([2, 8, 50])))
            npaths += 1
        elif op == "append" and rng.random() < 0.3:
            # the argument starts (or ends) exactly where the receiver ends: built at run time from the receiver's current end point
            sp = rand_start(rng)
            sp["closed"] = False
            hist.append(("newat", h, sp, rng.randrange(2)))
            hist.append((op, h, npaths))
            npaths += 1
        elif op == "append":
            o = rng.randrange(npaths + 1)
            if o == npaths:
                hist.append(("new", rand_start(rng)))
                npaths += 1
            if o == h:
                continue
            hist.append((op, h, o))   # skipped at run time when the receiver is closed (see Run.apply)
        elif op == "clone":
            hist.append((op, h))
            npaths += 1
        elif op == "removeIrrelevantSegments":
            hist.append((op, h, rng.choice([1 / 50000, 0.02, 0.1]), rng.choice([0, 0, 30, 100])))
        else:
            hist.append((op, h))
    return hist


def seglist(p):
    return p.asSegments()


def vals_of(p):
    return [oc.seg_pts(s) for s in p.activeRepresentation.segments]


def tok_vals(vals):
    return " ".join(oc.seg_tokens(v) for v in vals)


class Run:
    """Executes a history on the real library, producing the wire commands for the model (with the
    numerical outcomes as oracle data), a dump after every step, and the property verdicts."""

    def __init__(self):
        self.paths = []
        self.cmds = []
        self.dumps = []
        self.problem = None
        self.family = []      # clone families: index -> set of indices related by clone()
        self.applied = 0

    def dump(self):
        out = []
        for p in self.paths:
            lst = p.activeRepresentation.segments
            out.append((id(lst), p.closed, [(id(s), oc.seg_pts(s)) for s in lst]))
        return out

    def fail(self, msg):
        if self.problem is None:
            self.problem = msg

    def check_chain(self, p, what):
        segs = p.activeRepresentation.segments
        for a, b in zip(segs, segs[1:]):
            if (a.end.x, a.end.y) != (b.start.x, b.start.y):
                self.fail("after %s: a segment does not start where the previous one ends (%r vs %r)" % (what, a.end, b.start))
        if p.closed and segs and (segs[-1].end.x, segs[-1].end.y) != (segs[0].start.x, segs[0].start.y):
            self.fail("after %s: a closed path no longer ends where it starts" % what)

    def apply(self, step):
        op = step[0]
        if op == "new":
            p = oc.path_from(step[1]["segs"], step[1]["closed"])
            self.paths.append(p)
            self.family.append({len(self.paths) - 1})
            self.cmds.append("new %d %s" % (step[1]["closed"], tok_vals(step[1]["segs"])))
            self.dumps.append(self.dump())
            return
        if op == "newnl":
            # conversion from the node-list representation: a closed path must come out as a chain that ends where it starts and has the
            # outline's segments (as a cyclic sequence)
            from beziers.path import BezierPath
            from beziers.path.representations.Nodelist import Node
            spec = step[1]
            p = BezierPath.fromNodelist([Node(q[0], q[1], t) for q, t in spec["nodes"]], closed=True)
            got = vals_of(p)
            want = [list(map(tuple, sg)) for sg in spec["segs"]]
            if not any(got == want[r:] + want[:r] for r in range(len(want))):
                self.fail("fromNodelist (closed): the segments %r are not a cyclic rotation of the outline's %r" % (got, want))
            self.check_chain(p, "fromNodelist")
            return self.apply(("new", {"segs": got if got else want, "closed": True}))
        if op == "newat":
            # a new open path translated so that its start (mode 0) or its end (mode 1) is exactly the current end of path step[1]
            q = self.paths[step[1]]
            segs = [[tuple(pt) for pt in sg] for sg in step[2]["segs"]]
            live = isinstance(q.activeRepresentation.segments, list) and len(q.asSegments()) > 0
            if live:
                e = vals_of(q)[-1][-1]
                anchor = segs[0][0] if step[3] == 0 else segs[-1][-1]
                dx, dy = e[0] - anchor[0], e[1] - anchor[1]
                segs = [[(e if pt == anchor else (pt[0] + dx, pt[1] + dy)) for pt in sg] for sg in segs]
            return self.apply(("new", {"segs": segs, "closed": False}))
        h = step[1]
        p = self.paths[h]
        if not isinstance(p.activeRepresentation.segments, list) or len(p.asSegments()) == 0:
            return
        before = {i: vals_of(q) for i, q in enumerate(self.paths)}
        closed_before = p.closed
        ends_before = (vals_of(p)[0][0], vals_of(p)[-1][-1])
        old_objs = list(p.asSegments())
        exp_ends = None
        receiver_mutated = True
        if op == "translate":
            v = step[2]
            p.translate(Point(*v))
            tb = {pt: (pt[0] + v[0], pt[1] + v[1]) for s in before[h] for pt in s}
            self.cmds.append("map %d %s" % (h, " ".join("%s %s %s %s" % (drive.rat(a[0]), drive.rat(a[1]), drive.rat(b[0]), drive.rat(b[1])) for a, b in tb.items())))
            exp_ends = tuple(tb[e] for e in ends_before)
        elif op == "scale":
            k = step[2]
            p.scale(k)
            tb = {pt: (pt[0] * k, pt[1] * k) for s in before[h] for pt in s}
            self.cmds.append("map %d %s" % (h, " ".join("%s %s %s %s" % (drive.rat(a[0]), drive.rat(a[1]), drive.rat(b[0]), drive.rat(b[1])) for a, b in tb.items())))
            exp_ends = tuple(tb[e] for e in ends_before)
        elif op == "rotate":
            c, th = step[2], step[3]
            p.rotate(Point(*c), th)
            tb = {}
            for s_old, s_new in zip(before[h], vals_of(p)):
                for a, b in zip(s_old, s_new):
                    if a in tb and tb[a] != b:
                        self.fail("rotate maps one point to two different points")
                    tb[a] = b
            self.cmds.append("map %d %s" % (h, " ".join("%s %s %s %s" % (drive.rat(a[0]), drive.rat(a[1]), drive.rat(b[0]), drive.rat(b[1])) for a, b in tb.items())))
            exp_ends = tuple(tb[e] for e in ends_before)
        elif op == "reverse":
            p.reverse()
            self.cmds.append("reverse %d" % h)
            exp_ends = (ends_before[1], ends_before[0])
        elif op in ("splitAtPoints", "addExtremes"):
            keyset = [tuple(map(tuple, v)) for v in before[h]]
            if len(set(keyset)) != len(keyset) or any(v[0] == v[-1] for v in before[h]):
                # two value-equal segments share one dict key in splitAtPoints (known limitation, DESIGN C03),
                # zero-length/closed single segments make piece grouping ambiguous: not part of this check
                self.skipped_equal_segments = getattr(self, "skipped_equal_segments", 0) + 1
                return
            if op == "splitAtPoints":
                cuts = [(old_objs[i % len(old_objs)], t) for i, t in step[2]]
                per = {}
                for s, t in cuts:
                    per.setdefault(id(s), []).append(t)
                p.splitAtPoints(cuts)
            else:
                per = {id(s): list(s.findExtremes()) for s in old_objs}
                p.addExtremes()
            res = p.asSegments()
            groups = []
            j = 0
            for s in old_objs:
                if j < len(res) and res[j] is s:
                    groups.append([])       # passed through as the same object
                    j += 1
                    continue
                g = []
                end = (s.end.x, s.end.y)
                while j < len(res):
                    g.append(oc.seg_pts(res[j]))
                    j += 1
                    if g[-1][-1] == end:
                        break
                groups.append(g)
            if j != len(res):
                self.fail("%s: unexpected number of result segments" % op)
            self.cmds.append("split %d %s" % (h, " ".join("%d %s" % (len(g), tok_vals(g)) for g in groups)))
            exp_ends = ends_before
        elif op == "balance":
            p.balance()
            groups = []
            for s, old in zip(p.asSegments(), before[h]):
                new = oc.seg_pts(s)
                groups.append([new] if new != old else [])
            self.cmds.append("mutate %d %s" % (h, " ".join("%d %s" % (len(g), tok_vals(g)) for g in groups)))
            exp_ends = ends_before
        elif op == "round":
            p.round()
            self.cmds.append("round %d" % h)
            exp_ends = tuple((float(int(e[0])), float(int(e[1]))) for e in ends_before)
        elif op == "quadraticsToCubics":
            p.quadraticsToCubics()
            groups = [[oc.seg_pts(s)] if len(old) == 3 else [] for s, old in zip(p.asSegments(), before[h])]
            self.cmds.append("q2c %d %s" % (h, " ".join("%d %s" % (len(g), tok_vals(g)) for g in groups)))
            exp_ends = ends_before
        elif op == "removeIrrelevantSegments":
            p.removeIrrelevantSegments(relLength=step[2], absLength=step[3])
            res_ids = {id(s) for s in p.asSegments()}
            merges = [id(old_objs[i - 1]) not in res_ids for i in range(1, len(old_objs))]
            self.cmds.append("remove %d %s" % (h, " ".join("1" if m else "0" for m in merges)))
            exp_ends = ends_before
        elif op == "reconvert":
            p.asNodelist()
            p.asSegments()
            self.cmds.append("reconvert %d" % h)
            exp_ends = ends_before
        elif op == "append":
            o = step[2]
            other = self.paths[o]
            if len(other.asSegments()) == 0:
                return
            if p.closed:
                # outside the domain: for a closed receiver "closedness unchanged" and "ends where it starts"
                # cannot both hold for any implementation of append
                self.skipped_closed_append = getattr(self, "skipped_closed_append", 0) + 1
                return
            ov = vals_of(other)
            p.append(other)
            tail = vals_of(p)[len(before[h]):]
            flip = not (len(tail) >= len(ov) and tail[-len(ov):] == ov)
            self.cmds.append("append %d %d %d" % (h, o, flip))
            exp_ends = (ends_before[0], vals_of(p)[-1][-1])
            want_end = ov[0][0] if flip else ov[-1][-1]
            if vals_of(p)[-1][-1] != want_end:
                self.fail("append: the path does not end where the appended path ends")
            # what was appended is the argument's segments, in order or reversed, after at most one joining line; only the very first
            # point may have been moved, and only onto the receiver's end from within Point equality's tolerance (F24)
            rev = [list(reversed(sv)) for sv in reversed(ov)]
            want = rev if flip else ov
            body = tail[-len(want):] if len(tail) >= len(want) else tail
            close = lambda a, b: all(abs(u - v) <= 1e-9 * max(abs(u), abs(v)) for u, v in zip(a, b))
            ok = len(body) == len(want) and len(tail) - len(want) in (0, 1)
            if ok:
                for k, (sg, wg) in enumerate(zip(body, want)):
                    for j, (pa, pb) in enumerate(zip(sg, wg)):
                        if pa != pb and not (k == 0 and j == 0 and close(pa, pb) and pa == ends_before[1]):
                            ok = False
                    ok = ok and len(sg) == len(wg)
            if ok and len(tail) - len(want) == 1:
                jl = tail[0]
                ok = len(jl) == 2 and jl[0] == ends_before[1] and jl[1] == want[0][0]
            if not ok:
                self.fail("append: the appended part %r is not the argument's segments %r (in order or reversed) after at most one joining line" % (tail, ov))
        elif op == "clone":
            c = p.clone()
            self.paths.append(c)
            fam = self.family[h]
            fam.add(len(self.paths) - 1)
            self.family.append(fam)
            self.cmds.append("clone %d" % h)
            receiver_mutated = False
            if vals_of(c) != before[h] or c.closed != p.closed:
                self.fail("clone differs from its original")
        elif op == "flatten":
            f = p.flatten(step[2])
            self.paths.append(f)
            self.family.append({len(self.paths) - 1})
            groups = []
            res = f.asSegments()
            j = 0
            for s in old_objs:
                if isinstance(s, Line):
                    groups.append([])
                    j += 1
                else:
                    g = []
                    while j < len(res) and getattr(res[j], "_orig", None) is s:
                        g.append(oc.seg_pts(res[j]))
                        j += 1
                    if not g and j < len(res):
                        g.append(oc.seg_pts(res[j]))
                        j += 1
                    groups.append(g)
            self.cmds.append("flatten %d %s" % (h, " ".join("%d %s" % (len(g), tok_vals(g)) for g in groups)))
            receiver_mutated = False
        else:
            raise ValueError(op)
        self.applied += 1
        self.dumps.append(self.dump())
        # ---- property verdicts on the implementation
        what = "%s on path %d" % (op, h)
        self.check_chain(p, what)
        if op in ("clone", "flatten"):
            self.check_chain(self.paths[-1], what)
        if p.closed != closed_before:
            self.fail("after %s: closedness changed" % what)
        if exp_ends is not None and vals_of(p):
            now = (vals_of(p)[0][0], vals_of(p)[-1][-1])
            if now != exp_ends:
                self.fail("after %s: end points %r are not the correspondingly transformed end points %r" % (what, now, exp_ends))
        if not receiver_mutated and vals_of(p) != before[h]:
            self.fail("%s changed its receiver" % what)
        if op == "append" and vals_of(self.paths[step[2]]) != before[step[2]]:
            self.fail("append changed its argument")
        # clone independence: nobody related to the receiver by clone() may change
        for i in self.family[h]:
            if i != h and i < len(before) and vals_of(self.paths[i]) != before[i]:
                self.fail("after %s: path %d (related to the receiver by clone()) changed: a clone is not independent" % (what, i))
        # every live path is a path of this history: whatever was done to another one, it is still the same connected chain
        # (flatten() and append() hand out copies, so nothing an operation is not applied to may move)
        for i, q in enumerate(self.paths):
            if i == h or i >= len(before):
                continue
            if vals_of(q) != before[i]:
                self.fail("after %s: path %d, which the operation was not applied to, changed" % (what, i))
            else:
                self.check_chain(q, "%s (path %d, not operated on)" % (what, i))


def canon(dump):
    """rename object ids in order of first appearance"""
    names = {}

    def nm(x):
        if x not in names:
            names[x] = len(names)
        return names[x]
    return [(nm(("l", l)), bool(c), [(nm(("s", s)), [tuple((F(a), F(b)) for a, b in v)]) for s, v in segs]) for l, c, segs in dump]


def parse_model_dump(txt):
    out = []
    for part in txt.split(" | "):
        head, _, body = part.partition(" : ")
        hs = head.split()
        lid = int(hs[1].split("=")[1])
        closed = hs[2].split("=")[1] == "1"
        segs = []
        for item in body.split(" , "):
            item = item.strip()
            if not item:
                continue
            sid, _, val = item.partition("=")
            pts = oc.parse_segs(val.split())[0]
            segs.append((int(sid), pts))
        out.append((lid, closed, segs))
    return out


def canon_model(dump):
    names = {}

    def nm(x):
        if x not in names:
            names[x] = len(names)
        return names[x]
    return [(nm(("l", l)), c, [(nm(("s", s)), [tuple(v)]) for s, v in segs]) for l, c, segs in dump]


def compare(run, reply):
    if not reply.startswith("ok "):
        return "model rejected the history: " + reply[:200]
    steps = reply[3:].split(" ## ")
    if len(steps) != len(run.dumps):
        return "model produced %d dumps, implementation %d" % (len(steps), len(run.dumps))
    for k, (mine, theirs) in enumerate(zip(run.dumps, steps)):
        a = canon(mine)
        b = canon_model(parse_model_dump(theirs))
        if a != b:
            va = [(c, [v for _, v in segs]) for _, c, segs in a]
            vb = [(c, [v for _, v in segs]) for _, c, segs in b]
            kind = "values" if va != vb else "alias partition (which list / segment objects are shared)"
            return "step %d (%s): %s differ between implementation and model" % (k, run.cmds[k][:60], kind)
    return None


def run_history(hist):
    r = Run()
    for st in hist:
        try:
            r.apply(st)
        except Exception as e:
            r.fail("%s raised %s: %s" % (st[0], type(e).__name__, e))
            break
        if r.problem:
            break
    return r


def correspondence(ctx):
    rng = ctx.rng
    maxlen = 12 if ctx.tier == "quick" else 40
    runs, lines = [], []
    for i in range(25 * ctx.scale):
        hist = rand_history(rng, maxlen)
        r = run_history(hist)
        if r.problem and "raised" in r.problem:
            continue
        runs.append((hist, r))
        lines.append("model heap.history " + " ; ".join(r.cmds))
    replies = drive.run_lines(lines)
    dis = []
    nsteps = 0
    for (hist, r), rep in zip(runs, replies):
        nsteps += len(r.dumps)
        msg = compare(r, rep)
        if msg:
            dis.append({"kind": "model-vs-impl", "model": "heap.history", "what": msg, "history": repr(hist)[:1500]})
    return {"model_compared": nsteps, "evaluations": len(runs), "distinct_nontrivial": 0}, dis


def check_segment_pure_ops(pts, v, k, th):
    """segment-level operations documented as returning a new object leave their receiver unchanged"""
    seg = oc.mkseg(pts)
    before = repr(seg)
    from beziers.affinetransformation import AffineTransformation
    m = AffineTransformation.translation(Point(*v))
    outs = [seg.translated(Point(*v)), seg.rotated(Point(*v), th), seg.scaled(k), seg.transformed(m), seg.reversed(), seg.clone()]
    if repr(seg) != before:
        return "a segment operation documented as returning a new object changed its receiver"
    for o in outs:
        if o is seg:
            return "a segment operation returned its receiver instead of a new object"
    return None


def run_one(kind, inp):
    if kind == "history":
        return run_history(inp["history"]).problem
    return check_segment_pure_ops([tuple(p) for p in inp["pts"]], tuple(inp["v"]), inp["k"], inp["th"])


def search(ctx, budget):
    rng = ctx.rng
    maxlen = 12 if ctx.tier == "quick" else 40
    n = 150 * ctx.scale * budget
    viol, samples = [], []
    seen = set()
    nontriv = 0
    opcount = {}
    for i in range(n):
        if i % 10 == 9:
            inp = {"pts": oc.rand_seg_pts(rng, rng.choice([2, 3, 4]), "int"), "v": (3.0, -4.0), "k": 2.0, "th": 0.5}
            kind = "segment"
        else:
            hist = rand_history(rng, maxlen)
            inp = {"history": hist}
            kind = "history"
            for st in hist:
                opcount[st[0]] = opcount.get(st[0], 0) + 1
            if len(hist) >= 4 and any(st[0] in ("clone", "round", "balance", "quadraticsToCubics", "removeIrrelevantSegments", "append") for st in hist):
                if repr(hist) not in seen:
                    seen.add(repr(hist))
                    nontriv += 1
        msg = run_one(kind, inp)
        if msg:
            viol.append({"what": msg, "kind": kind, "input": inp})
            if len(viol) >= 5:
                break
        if len(samples) < 3 and kind == "history":
            samples.append(inp)
    return {"evaluations": i + 1, "distinct_nontrivial": nontriv, "operations": opcount, "samples": samples}, viol


def classify(v, entry):
    return False


def _detuple(x):
    if isinstance(x, list):
        return tuple(_detuple(y) for y in x) if x and not isinstance(x[0], (list, dict, str)) and False else [_detuple(y) for y in x]
    return x


def replay(v):
    inp = v["input"]
    if v["kind"] == "history":
        hist = []
        for st in inp["history"]:
            st = list(st)
            if st[0] == "new":
                st[1] = {"segs": [[tuple(p) for p in s] for s in st[1]["segs"]], "closed": st[1]["closed"]}
            elif st[0] in ("translate",):
                st[2] = tuple(st[2])
            elif st[0] == "rotate":
                st[2] = tuple(st[2])
            elif st[0] == "splitAtPoints":
                st[2] = [tuple(c) for c in st[2]]
            hist.append(tuple(st))
        return run_history(hist).problem is not None
    return run_one(v["kind"], inp) is not None
