"""Client for the Lean line-protocol driver (`lake env lean --run Main.lean`)."""
import os
import sys
import subprocess
import tempfile
from fractions import Fraction

if hasattr(sys, "set_int_max_str_digits"):
    sys.set_int_max_str_digits(0)      # exact rationals from the model (Newton steps in Q) can have thousands of digits

ROOT = os.path.dirname(os.path.dirname(os.path.abspath(__file__)))
LEAN_DIR = os.path.join(ROOT, "lean")


def rat(v):
    """Canonical text of an exact rational (floats are lifted exactly)."""
    if isinstance(v, float):
        v = Fraction(v)
    v = Fraction(v)
    return str(v.numerator) if v.denominator == 1 else "%d/%d" % (v.numerator, v.denominator)


def parse_rat(s):
    return Fraction(s)


def run_lines(lines, timeout=1800):
    """Feed request lines to the driver, return reply lines (same length)."""
    if not lines:
        return []
    data = "\n".join(lines) + "\n"
    p = subprocess.run(["lake", "env", "lean", "--run", "Main.lean"], cwd=LEAN_DIR, input=data,
                       capture_output=True, text=True, timeout=timeout)
    out = p.stdout.split("\n")
    if out and out[-1] == "":
        out.pop()
    if p.returncode != 0 or len(out) != len(lines):
        raise RuntimeError("driver failed rc=%s, %d replies for %d requests\nstderr: %s\nlast: %s" % (
            p.returncode, len(out), len(lines), p.stderr[-2000:], out[-3:]))
    return out


def gen_line(name, args, table=()):
    s = "gen %s %s" % (name, " ".join(rat(a) for a in args))
    if table:
        ents = []
        seen = set()
        for f, a, v in table:
            if f == "sqrt":
                continue
            k = (f, a)
            if k in seen:
                continue
            seen.add(k)
            ents.append("%s:%s=%s" % (f, ",".join(rat(x) for x in a), rat(v)))
        if ents:
            s += " | " + " ".join(ents)
    return s


def parse_ok(reply):
    """'ok a b c' -> [Fraction]; anything else -> None"""
    if not reply.startswith("ok"):
        return None
    return [Fraction(x) for x in reply.split()[1:]]
