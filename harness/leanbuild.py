"""lake build / axiom audit / forbidden-token scan for the Lean side."""
import os
import re
import subprocess
import fcntl
import time

ROOT = os.path.dirname(os.path.dirname(os.path.abspath(__file__)))
LEAN_DIR = os.path.join(ROOT, "lean")
ALLOWED_AXIOMS = {"propext", "Classical.choice", "Quot.sound"}
FORBIDDEN = re.compile(r"\bsorry\b|\badmit\b|^\s*axiom\s|native_decide|bv_decide|implemented_by|\bunsafe\s|maxHeartbeats\s+0\b", re.M)


class Lock:
    def __enter__(self):
        self.fh = open(os.path.join(LEAN_DIR, ".build.lock"), "w")
        fcntl.flock(self.fh, fcntl.LOCK_EX)
        return self

    def __exit__(self, *a):
        fcntl.flock(self.fh, fcntl.LOCK_UN)
        self.fh.close()


def module_path(mod):
    return os.path.join(LEAN_DIR, mod.replace(".", "/") + ".lean")


def strip_comments(src):
    out = []
    i = 0
    depth = 0
    n = len(src)
    while i < n:
        if src.startswith("/-", i):
            depth += 1
            i += 2
        elif depth and src.startswith("-/", i):
            depth -= 1
            i += 2
        elif depth:
            if src[i] == "\n":
                out.append("\n")
            i += 1
        elif src.startswith("--", i):
            while i < n and src[i] != "\n":
                i += 1
        else:
            out.append(src[i])
            i += 1
    return "".join(out)


def theorems_in(mod):
    """Fully qualified names of the (non-private) theorems declared in a module, with line numbers."""
    src = open(module_path(mod)).read()
    code = strip_comments(src)
    ns = []
    res = []
    for ln, line in enumerate(code.split("\n"), 1):
        m = re.match(r"\s*namespace\s+(\S+)", line)
        if m:
            ns.append(m.group(1))
            continue
        m = re.match(r"\s*end\s+(\S+)\s*$", line)
        if m and ns and ns[-1] == m.group(1):
            ns.pop()
            continue
        m = re.match(r"\s*(private\s+)?(theorem|lemma)\s+([^\s:({\[]+)", line)
        if m and not m.group(1):
            res.append((".".join(ns + [m.group(3)]), ln))
    return res


def build(targets, timeout=3000):
    with Lock():
        t0 = time.time()
        p = subprocess.run(["lake", "build"] + list(targets), cwd=LEAN_DIR, capture_output=True, text=True,
                           timeout=timeout)
    out = p.stdout + p.stderr
    errors = []
    for m in re.finditer(r"^error: (BezierVerif/\S+?\.lean):(\d+):(\d+): (.*)$", out, re.M):
        errors.append({"file": m.group(1), "line": int(m.group(2)), "msg": m.group(4)[:300]})
    return {"ok": p.returncode == 0, "errors": errors, "secs": round(time.time() - t0, 1),
            "log_tail": out[-4000:] if p.returncode != 0 else ""}


def failing_theorems(mod, errors):
    rel = mod.replace(".", "/") + ".lean"
    ths = theorems_in(mod)
    bad = set()
    for e in errors:
        if e["file"] != rel:
            continue
        cur = None
        for name, ln in ths:
            if ln <= e["line"]:
                cur = name
        bad.add(cur or "<file-level>")
    return sorted(bad)


def audit(mods, tag):
    """#print axioms for every theorem of the given (already built) modules."""
    names = []
    for mod in mods:
        names += [n for n, _ in theorems_in(mod)]
    path = os.path.join(LEAN_DIR, ".audit_%s.lean" % tag)
    with open(path, "w") as fh:
        for mod in mods:
            fh.write("import %s\n" % mod)
        for n in names:
            fh.write("#print axioms %s\n" % n)
    with Lock():
        p = subprocess.run(["lake", "env", "lean", os.path.basename(path)], cwd=LEAN_DIR, capture_output=True,
                           text=True, timeout=1800)
    out = p.stdout + p.stderr
    res = {}
    for m in re.finditer(r"'(\S+?)' depends on axioms: \[([^\]]*)\]", out, re.S):
        res[m.group(1)] = [a.strip() for a in m.group(2).replace("\n", " ").split(",") if a.strip()]
    for m in re.finditer(r"'(\S+?)' does not depend on any axioms", out):
        res[m.group(1)] = []
    bad = {}
    for n in names:
        if n not in res:
            bad[n] = "no axiom report (theorem missing?)"
        else:
            extra = [a for a in res[n] if a not in ALLOWED_AXIOMS]
            if extra:
                bad[n] = "axioms: " + ", ".join(extra)
    try:
        os.remove(path)
    except OSError:
        pass
    return {"theorems": names, "axioms": res, "bad": bad, "raw_tail": out[-1500:] if p.returncode != 0 else ""}


def forbidden_scan(mods):
    hits = []
    for mod in mods:
        p = module_path(mod)
        if not os.path.exists(p):
            continue
        code = strip_comments(open(p).read())
        for m in FORBIDDEN.finditer(code):
            ln = code.count("\n", 0, m.start()) + 1
            hits.append("%s:%d: %s" % (mod, ln, m.group(0).strip()))
    return hits


def imports_closure(mods):
    """Project-local modules imported (transitively) by mods."""
    seen = []
    stack = list(mods)
    while stack:
        m = stack.pop()
        if m in seen:
            continue
        p = module_path(m)
        if not os.path.exists(p):
            continue
        seen.append(m)
        for mm in re.finditer(r"^import\s+(BezierVerif\.\S+)", open(p).read(), re.M):
            stack.append(mm.group(1))
    return seen


def leanchecker(mods, timeout=3000):
    with Lock():
        p = subprocess.run(["lake", "env", "leanchecker"] + list(mods), cwd=LEAN_DIR, capture_output=True,
                           text=True, timeout=timeout)
    return {"ok": p.returncode == 0, "out": (p.stdout + p.stderr)[-1500:]}
