"""Tracing specifications: which functions of the library are translated, grouped by topic.

Each spec is (name, params, wrapper, outnames, doc).  `wrapper()` calls the *real* library
function on symbolic inputs and returns a bool or a flat list of numbers.  One Lean file
Gen/<Topic>.lean is produced per topic.
"""
import sys
from .tracer import Sym, install, explore, trace_under, Untraceable
from . import tracer

install()

from beziers.point import Point  # noqa: E402
from beziers.line import Line  # noqa: E402
from beziers.quadraticbezier import QuadraticBezier  # noqa: E402
from beziers.cubicbezier import CubicBezier  # noqa: E402
from beziers.boundingbox import BoundingBox  # noqa: E402
from beziers.affinetransformation import AffineTransformation as AT  # noqa: E402
import beziers.utils as bu  # noqa: E402
import beziers.cubicbezier as cbm  # noqa: E402
import beziers.quadraticbezier as qbm  # noqa: E402
import beziers.utils.curvedistance as cdm  # noqa: E402
import beziers.utils.curvefitter as cfm  # noqa: E402
import beziers.utils.intersectionsmixin as ixm  # noqa: E402

TOPICS = {}
CONCRETE = None  # when a dict name -> float, wrappers run the real code on those numbers


def V(name):
    if CONCRETE is not None:
        return CONCRETE[name]
    return tracer.V(name)


def run_concrete(f, env):
    """Run a spec wrapper on concrete floats (the library's own float path; shims are inert)."""
    global CONCRETE
    CONCRETE = env
    try:
        return f()
    finally:
        CONCRETE = None


COLLAPSE = set()     # definitions whose decision tree is emitted with `if c then X else X` collapsed to X


def spec(topic, name, params, outnames=None, doc="", collapse=False):
    if collapse:
        COLLAPSE.add(name)

    def deco(f):
        TOPICS.setdefault(topic, []).append((name, params, f, outnames, doc))
        return f
    return deco


def P(n):
    return Point(V(n + "x"), V(n + "y"))


def pp(*names):
    out = []
    for n in names:
        out += [n + "x", n + "y"]
    return out


def lin(a="p0", b="p1"): return Line(P(a), P(b))
def quad(a="p0", b="p1", c="p2"): return QuadraticBezier(P(a), P(b), P(c))
def cub(a="p0", b="p1", c="p2", d="p3"): return CubicBezier(P(a), P(b), P(c), P(d))


KINDS = {"Line": "L", "QuadraticBezier": "Q", "CubicBezier": "C"}


def flat(x):
    out = []

    def go(y):
        if isinstance(y, (Sym, int, float)) and not isinstance(y, bool):
            out.append(y)
        elif isinstance(y, Point):
            out.extend([y.x, y.y])
        elif isinstance(y, (list, tuple)):
            for z in y:
                go(z)
        elif hasattr(y, "points"):
            for p in y.points:
                go(p)
        elif hasattr(y, "matrix"):
            go(y.matrix)
        elif isinstance(y, BoundingBox):
            go([y.bl, y.tr])
        else:
            raise Untraceable("cannot flatten %r" % type(y))
    go(x)
    return out


def shape(x):
    if isinstance(x, (list, tuple)):
        return "(" + ",".join(shape(y) for y in x) + ")"
    return type(x).__name__


MAT = [["m%d%d" % (i, j) for j in range(3)] for i in range(3)]
MATP = [n for r in MAT for n in r]
NAT = [["n%d%d" % (i, j) for j in range(3)] for i in range(3)]
NATP = [n for r in NAT for n in r]


def mat(names=MAT):
    return AT([[V(n) for n in r] for r in names])


XY = ["x", "y"]


def cn(*prefixes):
    out = []
    for p in prefixes:
        out += [p + "x", p + "y"]
    return out


# =============================================================================== Eval (C01)

spec("Eval", "point_lerp", pp("p", "q") + ["t"], XY, "Point.lerp")(lambda: flat(P("p").lerp(P("q"), V("t"))))
spec("Eval", "line_pointAtTime", pp("p0", "p1") + ["t"], XY, "Line.pointAtTime")(lambda: flat(lin().pointAtTime(V("t"))))
spec("Eval", "quad_pointAtTime", pp("p0", "p1", "p2") + ["t"], XY, "QuadraticBezier.pointAtTime")(lambda: flat(quad().pointAtTime(V("t"))))
spec("Eval", "cubic_pointAtTime", pp("p0", "p1", "p2", "p3") + ["t"], XY, "CubicBezier.pointAtTime")(lambda: flat(cub().pointAtTime(V("t"))))
spec("Eval", "line_splitAtTime", pp("p0", "p1") + ["t"], cn("l0", "l1", "r0", "r1"), "Line.splitAtTime")(lambda: flat(lin().splitAtTime(V("t"))))
spec("Eval", "quad_splitAtTime", pp("p0", "p1", "p2") + ["t"], cn("l0", "l1", "l2", "r0", "r1", "r2"), "QuadraticBezier.splitAtTime")(lambda: flat(quad().splitAtTime(V("t"))))
spec("Eval", "cubic_splitAtTime", pp("p0", "p1", "p2", "p3") + ["t"], cn("l0", "l1", "l2", "l3", "r0", "r1", "r2", "r3"), "CubicBezier.splitAtTime")(lambda: flat(cub().splitAtTime(V("t"))))
spec("Eval", "quad_derivative", pp("p0", "p1", "p2"), cn("d0", "d1"), "QuadraticBezier.derivative (a Line)")(lambda: flat(quad().derivative()))
spec("Eval", "cubic_derivative", pp("p0", "p1", "p2", "p3"), cn("d0", "d1", "d2"), "CubicBezier.derivative (a QuadraticBezier)")(lambda: flat(cub().derivative()))

SHAPES = {
    "line_splitAtTime": lambda: shape(lin().splitAtTime(V("t"))),
    "quad_splitAtTime": lambda: shape(quad().splitAtTime(V("t"))),
    "cubic_splitAtTime": lambda: shape(cub().splitAtTime(V("t"))),
    "quad_derivative": lambda: shape(quad().derivative()),
    "cubic_derivative": lambda: shape(cub().derivative()),
    "quad_toCubicBezier": lambda: shape(quad().toCubicBezier()),
}

# =============================================================================== Affine (C09)

spec("Affine", "point_transformed", ["px", "py"] + MATP, XY, "Point.transformed")(lambda: flat(P("p").transformed(mat())))


@spec("Affine", "at_apply", MATP + NATP, MATP, "AffineTransformation.apply (self := self x other)")
def _():
    m = mat(); m.apply(mat(NAT)); return flat(m)


@spec("Affine", "at_apply_backwards", MATP + NATP, MATP, "AffineTransformation.apply_backwards (self := other x self)")
def _():
    m = mat(); m.apply_backwards(mat(NAT)); return flat(m)


spec("Affine", "at_translation", ["vx", "vy"], MATP, "AffineTransformation.translation")(lambda: flat(AT.translation(P("v"))))
spec("Affine", "at_scaling2", ["fx", "fy"], None, "AffineTransformation.scaling(fx, fy)")(lambda: flat(AT.scaling(V("fx"), V("fy"))))
spec("Affine", "at_scaling1", ["fx"], MATP, "AffineTransformation.scaling(fx)")(lambda: flat(AT.scaling(V("fx"))))
spec("Affine", "at_reflection", [], MATP, "AffineTransformation.reflection")(lambda: flat(AT.reflection()))
spec("Affine", "at_rotation", ["angle"], MATP, "AffineTransformation.rotation")(lambda: flat(AT.rotation(V("angle"))))


@spec("Affine", "at_translate", MATP + ["vx", "vy"], MATP, "m.translate(v)")
def _():
    m = mat(); m.translate(P("v")); return flat(m)


@spec("Affine", "at_scale2", MATP + ["fx", "fy"], None, "m.scale(fx, fy)")
def _():
    m = mat(); m.scale(V("fx"), V("fy")); return flat(m)


@spec("Affine", "at_reflect", MATP, MATP, "m.reflect()")
def _():
    m = mat(); m.reflect(); return flat(m)


@spec("Affine", "at_rotate", MATP + ["angle"], MATP, "m.rotate(angle)")
def _():
    m = mat(); m.rotate(V("angle")); return flat(m)


@spec("Affine", "at_invert", MATP, None, "m.invert(): [] when the determinant guard fires, else the 9 entries")
def _():
    m = mat()
    before = m.matrix
    m.invert()
    if m.matrix is before:
        return []
    return flat(m)


spec("Affine", "line_transformed", pp("p0", "p1") + MATP, cn("q0", "q1"), "Segment.transformed on a Line")(lambda: flat(lin().transformed(mat())))
spec("Affine", "quad_transformed", pp("p0", "p1", "p2") + MATP, cn("q0", "q1", "q2"), "Segment.transformed on a QuadraticBezier")(lambda: flat(quad().transformed(mat())))
spec("Affine", "cubic_transformed", pp("p0", "p1", "p2", "p3") + MATP, cn("q0", "q1", "q2", "q3"), "Segment.transformed on a CubicBezier")(lambda: flat(cub().transformed(mat())))
spec("Affine", "cubic_translated", pp("p0", "p1", "p2", "p3") + ["vx", "vy"], cn("q0", "q1", "q2", "q3"), "Segment.translated on a CubicBezier")(lambda: flat(cub().translated(P("v"))))
spec("Affine", "quad_translated", pp("p0", "p1", "p2") + ["vx", "vy"], cn("q0", "q1", "q2"), "Segment.translated on a QuadraticBezier")(lambda: flat(quad().translated(P("v"))))
spec("Affine", "line_translated", pp("p0", "p1") + ["vx", "vy"], cn("q0", "q1"), "Segment.translated on a Line")(lambda: flat(lin().translated(P("v"))))
spec("Affine", "cubic_scaled", pp("p0", "p1", "p2", "p3") + ["k"], cn("q0", "q1", "q2", "q3"), "Segment.scaled on a CubicBezier")(lambda: flat(cub().scaled(V("k"))))
spec("Affine", "quad_scaled", pp("p0", "p1", "p2") + ["k"], cn("q0", "q1", "q2"), "Segment.scaled on a QuadraticBezier")(lambda: flat(quad().scaled(V("k"))))
spec("Affine", "line_scaled", pp("p0", "p1") + ["k"], cn("q0", "q1"), "Segment.scaled on a Line")(lambda: flat(lin().scaled(V("k"))))
spec("Affine", "cubic_reversed", pp("p0", "p1", "p2", "p3"), cn("q0", "q1", "q2", "q3"), "Segment.reversed on a CubicBezier")(lambda: flat(cub().reversed()))
spec("Affine", "quad_reversed", pp("p0", "p1", "p2"), cn("q0", "q1", "q2"), "Segment.reversed on a QuadraticBezier")(lambda: flat(quad().reversed()))
spec("Affine", "line_reversed", pp("p0", "p1"), cn("q0", "q1"), "Segment.reversed on a Line")(lambda: flat(lin().reversed()))
spec("Affine", "point_rotated", ["px", "py", "cx", "cy", "th"], None, "Point.rotated(around, by) (polar form)")(lambda: flat(P("p").rotated(P("c"), V("th"))))
spec("Affine", "alignmentTransformation", ["sx", "sy", "ex", "ey"], MATP, "Segment.alignmentTransformation (depends on start and end only)")(lambda: flat(Line(P("s"), P("e")).alignmentTransformation()))

# =============================================================================== Area (C10)

spec("Area", "line_area", pp("p0", "p1"), ["v"], "Line.area")(lambda: [lin().area])
spec("Area", "quad_area", pp("p0", "p1", "p2"), ["v"], "QuadraticBezier.area")(lambda: [quad().area])
spec("Area", "cubic_area", pp("p0", "p1", "p2", "p3"), ["v"], "CubicBezier.area")(lambda: [cub().area])
spec("Area", "quad_toCubicBezier", pp("p0", "p1", "p2"), cn("c0", "c1", "c2", "c3"), "QuadraticBezier.toCubicBezier")(lambda: flat(quad().toCubicBezier()))

# =============================================================================== Box (C19, C02)

def _box(l, b, r, t):
    bb = BoundingBox()
    bb.bl = Point(V(l), V(b))
    bb.tr = Point(V(r), V(t))
    return bb


spec("Box", "bbox_includes", ["l1", "b1", "r1", "t1", "px", "py"], None, "BoundingBox.includes")(lambda: bool(_box("l1", "b1", "r1", "t1").includes(P("p"))))
spec("Box", "bbox_overlaps", ["l1", "b1", "r1", "t1", "l2", "b2", "r2", "t2"], None, "BoundingBox.overlaps")(lambda: bool(_box("l1", "b1", "r1", "t1").overlaps(_box("l2", "b2", "r2", "t2"))))
spec("Box", "bbox_area", ["l1", "b1", "r1", "t1"], ["v"], "BoundingBox.area")(lambda: [_box("l1", "b1", "r1", "t1").area])


@spec("Box", "bbox_extend_point", ["l1", "b1", "r1", "t1", "px", "py"], None, "BoundingBox.extend(Point) on a non-empty box")
def _():
    bb = _box("l1", "b1", "r1", "t1")
    bb.extend(P("p"))
    return flat(bb)


@spec("Box", "bbox_extend_first", ["px", "py"], None, "BoundingBox.extend(Point) on an empty box")
def _():
    bb = BoundingBox()
    bb.extend(P("p"))
    return flat(bb)


# =============================================================================== Roots (C02, C03, C05, C15)

spec("Roots", "quadraticRoots", ["a", "b", "c"], None, "utils.quadraticRoots")(lambda: list(bu.quadraticRoots(V("a"), V("b"), V("c"))))


def _capture_qr(module, f, ret=()):
    """Run f with `quadraticRoots` in `module` replaced by a recorder; returns the argument triples.
    `ret`: what the recorder answers (a non-empty answer keeps callers out of their no-root fall-backs, which are modelled by hand)."""
    calls = []
    orig = module.quadraticRoots

    def rec(a, b, c, *rest, **kw):
        calls.append((a, b, c))
        return list(ret)
    module.quadraticRoots = rec
    try:
        f()
    finally:
        module.quadraticRoots = orig
    return [x for tr in calls for x in tr]


spec("Roots", "cubic_dcoeffs", pp("p0", "p1", "p2", "p3"), ["ax", "bx", "cx", "ay", "by", "cy"],
     "arguments CubicBezier._findDRoots passes to quadraticRoots (x then y)")(lambda: _capture_qr(cbm, lambda: cub()._findDRoots()))
spec("Roots", "quad_findDRoots", pp("p0", "p1", "p2"), None, "QuadraticBezier._findDRoots (= findExtremes)")(lambda: list(quad()._findDRoots()))
spec("Roots", "quad_rootcoeffs_y", pp("p0", "p1", "p2"), ["a", "b", "c"],
     "arguments QuadraticBezier._findRoots('y') passes to quadraticRoots")(lambda: _capture_qr(qbm, lambda: quad()._findRoots("y")))
spec("Roots", "quadraticRoots_unlimited", ["a", "b", "c"], None, "utils.quadraticRoots(a, b, c, limited=False)")(
    lambda: list(bu.quadraticRoots(V("a"), V("b"), V("c"), limited=False)))


class _Stop(Exception):
    pass


def _cubic_rootcoeffs():
    """the power-basis coefficients CubicBezier._findRoots('y') computes: the arguments of its first four abs() calls (d, a, b, c)"""
    got = []

    def rec_abs(x):
        got.append(x)
        if len(got) == 4:
            raise _Stop()
        return abs(x)
    cbm.abs = rec_abs
    try:
        cub()._findRoots("y")
    except _Stop:
        pass
    finally:
        del cbm.abs
    d, a, b, c = got
    return [a, b, c, d]


def _cubic_pre(mode):
    """Run CubicBezier._findRoots('y') with quadraticRoots / _polishRoots replaced by recorders.
    mode 'dispatch': [0] = exact quadratic (d == 0), [1] = negligible d (polished quadratic roots), [2] = Cardano;
    mode 'cardano': the closed-form roots handed to _polishRoots ([] in the quadratic fallbacks)."""
    out = []
    oq, op = cbm.quadraticRoots, cbm._polishRoots

    def rq(a, b, c, limited=True):
        out.append(("q", limited))
        return []

    def rp(roots, a, b, c, d):
        out.append(("p", list(roots)))
        return []
    cbm.quadraticRoots, cbm._polishRoots = rq, rp
    try:
        cub()._findRoots("y")
    finally:
        cbm.quadraticRoots, cbm._polishRoots = oq, op
    kinds = [k for k, _ in out]
    if kinds == ["q"]:
        return [0] if mode == "dispatch" else []
    if kinds == ["q", "p"]:
        return [1] if mode == "dispatch" else []
    assert kinds == ["p"], kinds
    return [2] if mode == "dispatch" else list(out[0][1])


spec("Roots", "cubic_rootcoeffs_y", pp("p0", "p1", "p2", "p3"), ["a", "b", "c", "d"],
     "coefficients a t^2 + b t + c + d t^3 that CubicBezier._findRoots('y') extracts")(_cubic_rootcoeffs)
spec("Roots", "cubic_findRoots_dispatch", pp("p0", "p1", "p2", "p3"), "list",
     "which solver CubicBezier._findRoots('y') uses: [0] exact quadratic, [1] polished quadratic (negligible d), [2] Cardano", collapse=True)(lambda: _cubic_pre("dispatch"))
spec("Roots", "cubic_cardano_roots", pp("p0", "p1", "p2", "p3"), "list",
     "the closed-form roots CubicBezier._findRoots('y') hands to _polishRoots ([] in the quadratic fallbacks)", collapse=True)(lambda: _cubic_pre("cardano"))
spec("Roots", "quad_tOfPoint_coeffs", pp("p0", "p1", "p2", "q"), ["ax", "bx", "cx", "ay", "by", "cy"],
     "arguments QuadraticBezier.tOfPoint passes to quadraticRoots (x then y)")(lambda: _capture_qr(qbm, lambda: quad().tOfPoint(P("q")), ret=(0.5,)))

# =============================================================================== Curv (C18)

spec("Curv", "cubic_tangentAtTime", pp("p0", "p1", "p2", "p3") + ["t"], None, "Segment.tangentAtTime on a CubicBezier")(lambda: flat(cub().tangentAtTime(V("t"))))
spec("Curv", "quad_tangentAtTime", pp("p0", "p1", "p2") + ["t"], None, "Segment.tangentAtTime on a QuadraticBezier")(lambda: flat(quad().tangentAtTime(V("t"))))
spec("Curv", "cubic_normalAtTime", pp("p0", "p1", "p2", "p3") + ["t"], None, "Segment.normalAtTime on a CubicBezier")(lambda: flat(cub().normalAtTime(V("t"))))
spec("Curv", "quad_normalAtTime", pp("p0", "p1", "p2") + ["t"], None, "Segment.normalAtTime on a QuadraticBezier")(lambda: flat(quad().normalAtTime(V("t"))))
spec("Curv", "cubic_curvatureAtTime", pp("p0", "p1", "p2", "p3") + ["t"], ["v"], "CubicBezier.curvatureAtTime")(lambda: [cub().curvatureAtTime(V("t"))])
spec("Curv", "quad_curvatureAtTime", pp("p0", "p1", "p2") + ["t"], ["v"], "QuadraticBezier.curvatureAtTime")(lambda: [quad().curvatureAtTime(V("t"))])
spec("Curv", "line_tangentAtTime", pp("p0", "p1") + ["t"], None, "Line.tangentAtTime")(lambda: flat(lin().tangentAtTime(V("t"))))
spec("Curv", "line_normalAtTime", pp("p0", "p1") + ["t"], None, "Line.normalAtTime")(lambda: flat(lin().normalAtTime(V("t"))))
spec("Curv", "line_curvatureAtTime", pp("p0", "p1") + ["t"], ["v"], "Line.curvatureAtTime")(lambda: [lin().curvatureAtTime(V("t"))])
spec("Curv", "cubic_startAngle", pp("p0", "p1", "p2", "p3"), ["v"], "Segment.startAngle on a CubicBezier")(lambda: [cub().startAngle])
spec("Curv", "cubic_endAngle", pp("p0", "p1", "p2", "p3"), ["v"], "Segment.endAngle on a CubicBezier")(lambda: [cub().endAngle])
spec("Curv", "quad_startAngle", pp("p0", "p1", "p2"), ["v"], "Segment.startAngle on a QuadraticBezier")(lambda: [quad().startAngle])
spec("Curv", "quad_endAngle", pp("p0", "p1", "p2"), ["v"], "Segment.endAngle on a QuadraticBezier")(lambda: [quad().endAngle])
spec("Curv", "line_startAngle", pp("p0", "p1"), ["v"], "Segment.startAngle on a Line")(lambda: [lin().startAngle])
spec("Curv", "line_endAngle", pp("p0", "p1"), ["v"], "Segment.endAngle on a Line")(lambda: [lin().endAngle])

# =============================================================================== Dist (C20)

_KL = {1: lin, 2: quad, 3: cub}


def _S(n, m):
    def f():
        a = _KL[n](*["p%d" % i for i in range(n + 1)])
        b = _KL[m](*["q%d" % i for i in range(m + 1)])
        fd = cdm.MinimumCurveDistanceFinder(a, b)
        return [fd.S(V("u"), V("v"))]
    return f


for _n in (1, 2, 3):
    for _m in (1, 2, 3):
        spec("Dist", "S_%d_%d" % (_n, _m),
             pp(*["p%d" % i for i in range(_n + 1)]) + pp(*["q%d" % i for i in range(_m + 1)]) + ["u", "v"],
             ["v"], "MinimumCurveDistanceFinder.S(u, v) for orders %d x %d" % (_n + 1, _m + 1))(_S(_n, _m))

def _D(n, m):
    def f():
        a = _KL[n](*["p%d" % i for i in range(n + 1)])
        b = _KL[m](*["q%d" % i for i in range(m + 1)])
        fd = cdm.MinimumCurveDistanceFinder(a, b)
        return [fd.D(r, k) for r in range(2 * n + 1) for k in range(2 * m + 1)]
    return f


for _n in (1, 2, 3):
    for _m in (1, 2, 3):
        spec("Dist", "D_%d_%d" % (_n, _m),
             pp(*["p%d" % i for i in range(_n + 1)]) + pp(*["q%d" % i for i in range(_m + 1)]),
             "list", "MinimumCurveDistanceFinder.D(r, k) for r <= %d, k <= %d, row major" % (2 * _n, 2 * _m))(_D(_n, _m))

# =============================================================================== Length (C04)
import beziers.utils.arclengthmixin as alm  # noqa: E402
import beziers.utils.legendregauss as lgm  # noqa: E402

GL_N = len(lgm.Tvalues)
GL_T = ["T%d" % i for i in range(GL_N)]
GL_C = ["C%d" % i for i in range(GL_N)]


def _with_tables(f):
    """Run f with the Gauss-Legendre tables replaced by variables T0.., C0.. (symbolic when tracing, the
    library's own floats when run concretely), so that `z*T[i] + z` is traced as real arithmetic."""
    def g():
        oT, oC = alm.Tvalues, alm.Cvalues
        alm.Tvalues = [V(n) for n in GL_T]
        alm.Cvalues = [V(n) for n in GL_C]
        try:
            return f()
        finally:
            alm.Tvalues, alm.Cvalues = oT, oC
    return g


def gl_table_env():
    env = {}
    for n, v in zip(GL_T, lgm.Tvalues):
        env[n] = v
    for n, v in zip(GL_C, lgm.Cvalues):
        env[n] = v
    return env


spec("Length", "cubic_length", GL_T + GL_C + pp("p0", "p1", "p2", "p3"), ["v"], "ArcLengthMixin.length on a CubicBezier (Gauss-Legendre; tables as parameters)")(_with_tables(lambda: [cub().length]))
spec("Length", "quad_length", GL_T + GL_C + pp("p0", "p1", "p2"), ["v"], "ArcLengthMixin.length on a QuadraticBezier")(_with_tables(lambda: [quad().length]))
spec("Length", "line_length", pp("p0", "p1"), ["v"], "Line.length")(lambda: [lin().length])

# =============================================================================== Lookup (C15)

def _line_tofpoint():
    import io, contextlib
    with contextlib.redirect_stdout(io.StringIO()):     # the degenerate branch prints a diagnostic
        r = lin().tOfPoint(P("q"))
    return [r]


spec("Lookup", "line_tOfPoint", pp("p0", "p1", "q"), None, "Line.tOfPoint(point) (its_on_the_line_i_swear=False)")(_line_tofpoint)


def _line_tofpoint_sworn():
    return [lin().tOfPoint(P("q"), its_on_the_line_i_swear=True)]


spec("Lookup", "line_tOfPoint_sworn", pp("p0", "p1", "q"), None, "Line.tOfPoint(point, its_on_the_line_i_swear=True)")(_line_tofpoint_sworn)

# =============================================================================== Inter (C05, C11)


def _with_opaque_tOfPoint(f):
    """While tracing, calls of Line.tOfPoint become calls of the generated definitions line_tOfPoint /
    line_tOfPoint_sworn (compositional tracing); concretely the real method runs."""
    def g():
        if CONCRETE is not None:
            return f()
        orig = Line.tOfPoint

        def shim(self, point, its_on_the_line_i_swear=False):
            name = "line_tOfPoint_sworn" if its_on_the_line_i_swear else "line_tOfPoint"
            return tracer.app(name, self[0].x, self[0].y, self[1].x, self[1].y, point.x, point.y)
        Line.tOfPoint = shim
        try:
            return f()
        finally:
            Line.tOfPoint = orig
    return g


def _line_line():
    res = lin("p0", "p1").intersections(lin("q0", "q1"))
    out = []
    for i in res:
        out += [i.t1, i.t2]
    return out


spec("Inter", "line_line", pp("p0", "p1", "q0", "q1"), None,
     "Line.intersections(Line): [t1, t2] of the reported intersection or [] (IntersectionsMixin.intersections + _line_line_intersections; "
     "tOfPoint calls are calls of the generated line_tOfPoint definitions)")(_with_opaque_tOfPoint(_line_line))


def _ray_line():
    ray = Line(Point(V("lx"), V("py")), Point(V("px"), V("py")))
    res = lin("p0", "p1").intersections(ray)
    out = []
    for i in res:
        out += [i.t1, i.t2]
    return out


spec("Inter", "ray_line", pp("p0", "p1") + ["lx", "px", "py"], None,
     "Line(p0,p1).intersections(ray) for the horizontal ray from (lx, py) to (px, py) that windingNumberOfPoint builds: [t1, t2] or []")(_with_opaque_tOfPoint(_ray_line))


def _has_loop():
    r = cub().hasLoop
    return [] if r is False else list(r)


spec("Inter", "cubic_hasLoop", pp("p0", "p1", "p2", "p3"), None,
     "CubicBezier.hasLoop: [] for False, else the two parameters (t1, t2) of the canonical-form test")(_has_loop)
