"""Regenerate lean/BezierVerif/Gen/*.lean from /repo's current source (translator driver)."""
import os
import io
import contextlib
import sys
import json
import time
import traceback

ROOT = os.path.dirname(os.path.dirname(os.path.abspath(__file__)))
GEN_DIR = os.path.join(ROOT, "lean", "BezierVerif", "Gen")


def regenerate(topics=None, verbose=False):
    """Returns meta: {topic: {"changed": bool, "defs": {name: {paths, funcs, params}}, "errors": {name: msg}}}"""
    from . import specs
    from .tracer import explore
    from .emit import GenDef, emit_file
    meta = {}
    os.makedirs(GEN_DIR, exist_ok=True)
    for topic, lst in specs.TOPICS.items():
        if topics and topic not in topics:
            continue
        t0 = time.time()
        defs = []
        info = {"defs": {}, "errors": {}}
        for name, params, f, outnames, doc in lst:
            try:
                with contextlib.redirect_stdout(io.StringIO()):      # the traced code prints diagnostics on degenerate paths
                    paths = explore(f)
                d = GenDef(name, params, paths, outnames, doc, collapse=name in specs.COLLAPSE)
                defs.append(d)
                from . import emit as _emit
                _emit.APP_FUNCS[name] = d.funcs
                info["defs"][name] = {"paths": d.npaths, "funcs": d.funcs, "params": params,
                                       "bool": d.is_bool}
            except Exception as e:
                info["errors"][name] = "%s: %s" % (type(e).__name__, e)
                if verbose:
                    traceback.print_exc()
        extra = ""
        if topic == "Eval":
            lines = []
            for n, f in specs.SHAPES.items():
                try:
                    lines.append('def shape_%s : String := "%s"' % (n, f()))
                except Exception as e:
                    info["errors"]["shape_" + n] = repr(e)
            extra = "\n".join(lines) + "\n"
        if topic == "Length":
            from fractions import Fraction
            from .emit import lean_const
            extra = ("/-- legendregauss.Tvalues: the exact values of the doubles Python holds -/\n"
                     "def gl_Tvalues : List K := [" + ", ".join(lean_const(Fraction(v)) for v in specs.lgm.Tvalues) + "]\n\n"
                     "/-- legendregauss.Cvalues -/\n"
                     "def gl_Cvalues : List K := [" + ", ".join(lean_const(Fraction(v)) for v in specs.lgm.Cvalues) + "]\n")
        text = emit_file(topic, defs, extra)
        path = os.path.join(GEN_DIR, topic + ".lean")
        old = open(path).read() if os.path.exists(path) else None
        info["changed"] = old != text
        if old != text:
            with open(path, "w") as fh:
                fh.write(text)
        info["secs"] = round(time.time() - t0, 2)
        meta[topic] = info
    return meta


if __name__ == "__main__":
    sys.path.insert(0, ROOT)
    m = regenerate(sys.argv[1:] or None, verbose=True)
    for t, i in m.items():
        print(t, "changed" if i["changed"] else "same", i["secs"], "s",
              {k: v["paths"] for k, v in i["defs"].items()}, i["errors"])
