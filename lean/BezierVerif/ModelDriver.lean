/-
  Line-protocol entry points for the hand models (run at K = ℚ).
-/
import BezierVerif.Basic
import BezierVerif.Model.Polygon
import BezierVerif.Model.Sweep
import BezierVerif.Model.MinDist
import BezierVerif.Model.Extremes
import BezierVerif.Model.Nodelist
import BezierVerif.Model.Sample
import BezierVerif.Model.Fit
import BezierVerif.Model.Clip
import BezierVerif.Model.Lookup
import BezierVerif.Model.Inter
import BezierVerif.Model.Winding
import BezierVerif.Model.CC
import BezierVerif.Gen.Box

namespace ModelDriver

def edgesOf : List ℚ → Option (List (Polygon.Edge ℚ))
  | [] => some []
  | a :: b :: c :: d :: rest => (edgesOf rest).map (fun l => ⟨a, b, c, d⟩ :: l)
  | _ => none

/-- boxes: 4 rationals per shape -/
def boxesOf : List ℚ → Option (List (ℚ × ℚ × ℚ × ℚ))
  | [] => some []
  | a :: b :: c :: d :: rest => (boxesOf rest).map (fun l => (a, b, c, d) :: l)
  | _ => none

def showObj (o : Sweep.Obj) : String := (if o.side then "b" else "a") ++ toString o.idx

/-- `sweep nA l b r t ...` (first nA boxes = seta): instructions, stable sort by (key, verb), event loop.
    The overlap test is the generated `BoundingBox.overlaps`. -/
def sweep (nA : Nat) (bs : List (ℚ × ℚ × ℚ × ℚ)) : String :=
  let A := bs.take nA
  let B := bs.drop nA
  let box (o : Sweep.Obj) : ℚ × ℚ × ℚ × ℚ := (if o.side then B else A).getD o.idx (0, 0, 0, 0)
  let key : Sweep.Ev → ℚ
    | .add o => (box o).1
    | .rem o => (box o).2.2.1
  let isRem : Sweep.Ev → Bool
    | .add _ => false
    | .rem _ => true
  -- sorted(instructions, key = (x, verb is remove_from)): stable, additions before removals at equal x (F27)
  let evs := (Sweep.instructions A.length B.length).mergeSort (fun a b => key a < key b || (key a == key b && (!isRem a || isRem b)))
  let ov (o o2 : Sweep.Obj) : Bool :=
    Gen.bbox_overlaps (box o).1 (box o).2.1 (box o).2.2.1 (box o).2.2.2 (box o2).1 (box o2).2.1 (box o2).2.2.1 (box o2).2.2.2
  let st := Sweep.run ov evs
  "ok " ++ " ".intercalate (st.out.map fun p => showObj p.1 ++ ":" ++ showObj p.2)

def parseOptRat (s : String) : Option (Option ℚ) :=
  if s == "none" then some none else (parseRat s).map some

def showOptRat : Option ℚ → String
  | none => "none"
  | some q => showRat q

/-- one `minDist` call of the model on recorded inputs: corner values of S, the D table (row width W) -/
def mindistNode (n m W : Nat) (eps : ℚ) (best : Option ℚ) (umin umax vmin vmax s00 s01 s10 s11 : ℚ) (D : List ℚ) : String :=
  let S (a b : ℚ) : ℚ :=
    if a = umin ∧ b = vmin then s00 else if a = umin ∧ b = vmax then s01
    else if a = umax ∧ b = vmin then s10 else s11
  let P : MinDist.Params ℚ := { n := n, m := m, S := S, D := fun r k => D.getD (r * W + k) 0, eps := eps }
  match MinDist.act P best (umin, umax) (vmin, vmax) with
  | none => "none"
  | some (.ret t, b) => "ret " ++ showRats [t.1, t.2.1, t.2.2] ++ " " ++ showOptRat b
  | some (.split nu nv, b) => "split " ++ showRats [nu, nv] ++ " " ++ showOptRat b

/-- the bucket of `"%.2f" % t` for an exactly representable t ≥ 0: 100·t rounded half-to-even -/
def key2 (t : ℚ) : Int :=
  let x := 100 * t
  let f := Int.fdiv x.num x.den
  let r := x - f
  if r < 1 / 2 then f else if r > 1 / 2 then f + 1 else if f % 2 = 0 then f else f + 1

/-- split a token list at every occurrence of `sep` -/
def splitTok (sep : String) (l : List String) : List (List String) :=
  let (cur, acc) := l.foldr (fun tok (st : List String × List (List String)) => if tok = sep then ([], st.1 :: st.2) else (tok :: st.1, st.2)) ([], [])
  cur :: acc

/-- segments on the wire: `L x0 y0 x1 y1`, `Q` + 6 numbers, `C` + 8 numbers -/
partial def parseSegs : List String → Option (List (Seg ℚ) × List String)
  | "L" :: a :: b :: c :: d :: rest => do
      let a ← parseRat a; let b ← parseRat b; let c ← parseRat c; let d ← parseRat d
      let (l, r) ← parseSegs rest
      some (Seg.line ⟨a, b⟩ ⟨c, d⟩ :: l, r)
  | "Q" :: a :: b :: c :: d :: e :: f :: rest => do
      let a ← parseRat a; let b ← parseRat b; let c ← parseRat c; let d ← parseRat d; let e ← parseRat e; let f ← parseRat f
      let (l, r) ← parseSegs rest
      some (Seg.quad ⟨a, b⟩ ⟨c, d⟩ ⟨e, f⟩ :: l, r)
  | "C" :: a :: b :: c :: d :: e :: f :: g :: h :: rest => do
      let a ← parseRat a; let b ← parseRat b; let c ← parseRat c; let d ← parseRat d
      let e ← parseRat e; let f ← parseRat f; let g ← parseRat g; let h ← parseRat h
      let (l, r) ← parseSegs rest
      some (Seg.cubic ⟨a, b⟩ ⟨c, d⟩ ⟨e, f⟩ ⟨g, h⟩ :: l, r)
  | rest => some ([], rest)

def showSeg : Seg ℚ → String
  | .line a b => "L " ++ showRats [a.x, a.y, b.x, b.y]
  | .quad a b c => "Q " ++ showRats [a.x, a.y, b.x, b.y, c.x, c.y]
  | .cubic a b c d => "C " ++ showRats [a.x, a.y, b.x, b.y, c.x, c.y, d.x, d.y]

def showSegs (l : List (Seg ℚ)) : String := " ".intercalate (l.map showSeg)

def showBox : Option (Extremes.Box ℚ) → String
  | none => "empty"
  | some b => "ok " ++ showRats [b.l, b.b, b.r, b.t]

/-- cut lists: `n t1 .. tn` per segment -/
partial def parseCuts : List String → Option (List (List ℚ))
  | [] => some []
  | n :: rest => do
      let n ← n.toNat?
      let ts ← (rest.take n).mapM parseRat
      if ts.length ≠ n then none else
      let more ← parseCuts (rest.drop n)
      some (ts :: more)

abbrev QP := ℚ × ℚ

def toNSeg : Seg ℚ → Nodelist.Seg QP
  | .line a b => .line (a.x, a.y) (b.x, b.y)
  | .quad a b c => .quad (a.x, a.y) (b.x, b.y) (c.x, c.y)
  | .cubic a b c d => .cubic (a.x, a.y) (b.x, b.y) (c.x, c.y) (d.x, d.y)

def ofNSeg : Nodelist.Seg QP → Seg ℚ
  | .line a b => .line ⟨a.1, a.2⟩ ⟨b.1, b.2⟩
  | .quad a b c => .quad ⟨a.1, a.2⟩ ⟨b.1, b.2⟩ ⟨c.1, c.2⟩
  | .cubic a b c d => .cubic ⟨a.1, a.2⟩ ⟨b.1, b.2⟩ ⟨c.1, c.2⟩ ⟨d.1, d.2⟩

def showNode (n : Nodelist.Node QP) : String :=
  (match n.ty with | .line => "l" | .curve => "c" | .offcurve => "o") ++ " " ++ showRats [n.p.1, n.p.2]

partial def parseNodes : List String → Option (List (Nodelist.Node QP))
  | [] => some []
  | t :: x :: y :: rest => do
      let ty ← (match t with | "l" => some Nodelist.NType.line | "c" => some .curve | "o" => some .offcurve | _ => none)
      let x ← parseRat x; let y ← parseRat y
      let more ← parseNodes rest
      some (⟨(x, y), ty⟩ :: more)
  | _ => none

def showTok : Nodelist.Tok QP → String
  | .M p => "M " ++ showRats [p.1, p.2]
  | .L p => "L " ++ showRats [p.1, p.2]
  | .Q c p => "Q " ++ showRats [c.1, c.2, p.1, p.2]
  | .C a b p => "C " ++ showRats [a.1, a.2, b.1, b.2, p.1, p.2]
  | .Z => "Z"

partial def parsePairs2 : List String → Option (List (ℚ × ℚ))
  | [] => some []
  | a :: b :: rest => do
      let a ← parseRat a; let b ← parseRat b
      let more ← parsePairs2 rest
      some ((a, b) :: more)
  | _ => none

/-- tape entries: `D deg k` then k × (8 coordinates, ratio, split) -/
partial def parseTape : List String → Option (List (Fit.CallData QP ℚ))
  | [] => some []
  | "D" :: deg :: k :: rest => do
      let k ← k.toNat?
      let rec attempts (n : Nat) (toks : List String) : Option (List (Fit.Attempt QP ℚ) × List String) :=
        match n with
        | 0 => some ([], toks)
        | n + 1 =>
          match toks with
          | a :: b :: c :: d :: e :: f :: g :: h :: ratio :: sp :: more => do
              let xs ← [a, b, c, d, e, f, g, h].mapM parseRat
              let ratio ← parseRat ratio
              let sp ← sp.toNat?
              let (as, r) ← attempts n more
              some (⟨[(xs[0]!, xs[1]!), (xs[2]!, xs[3]!), (xs[4]!, xs[5]!), (xs[6]!, xs[7]!)], ratio, sp⟩ :: as, r)
          | _ => none
      let (as, r) ← attempts k rest
      let more ← parseTape r
      some (⟨deg == "1", as⟩ :: more)
  | _ => none

def showBez (b : List QP) : String := "C " ++ showRats (b.flatMap fun p => [p.1, p.2])

/-- LUT entries: `sx sy ex ey` followed by one segment -/
partial def parseLut : List String → Option (List ((QP × QP) × Seg ℚ))
  | [] => some []
  | a :: b :: c :: d :: rest => do
      let a ← parseRat a; let b ← parseRat b; let c ← parseRat c; let d ← parseRat d
      match rest with
      | "L" :: _ =>
        let (segs, r) ← parseSegs (rest.take 5)
        let seg ← segs.head?
        if r ≠ [] then none else
        let more ← parseLut (rest.drop 5)
        some ((((a, b), (c, d)), seg) :: more)
      | "Q" :: _ =>
        let (segs, r) ← parseSegs (rest.take 7)
        let seg ← segs.head?
        if r ≠ [] then none else
        let more ← parseLut (rest.drop 7)
        some ((((a, b), (c, d)), seg) :: more)
      | "C" :: _ =>
        let (segs, r) ← parseSegs (rest.take 9)
        let seg ← segs.head?
        if r ≠ [] then none else
        let more ← parseLut (rest.drop 9)
        some ((((a, b), (c, d)), seg) :: more)
      | _ => none
  | _ => none

def handle (name : String) (args : List String) : String :=
  match name with
  | "polygon.signedArea" =>
    match args.mapM parseRat >>= edgesOf with
    | some es => "ok " ++ showRat (Polygon.signedAreaFrom es) ++ " " ++ showRat (Polygon.areaFrom es) ++ " " ++ showRat (Polygon.directionFrom es)
    | none => "bad-args"
  | "sweep" =>
    match args with
    | n :: rest =>
      match n.toNat?, rest.mapM parseRat >>= boxesOf with
      | some nA, some bs => sweep nA bs
      | _, _ => "bad-args"
    | _ => "bad-args"
  | "mindist.node" =>
    match args with
    | n :: m :: w :: eps :: best :: rest =>
      match n.toNat?, m.toNat?, w.toNat?, parseRat eps, parseOptRat best, rest.mapM parseRat with
      | some n, some m, some w, some eps, some best, some (umin :: umax :: vmin :: vmax :: s00 :: s01 :: s10 :: s11 :: D) =>
        mindistNode n m w eps best umin umax vmin vmax s00 s01 s10 s11 D
      | _, _, _, _, _, _ => "bad-args"
    | _ => "bad-args"
  | "mindist.combine" =>
    match args.mapM parseRat with
    | some [a1, a2, a3, b1, b2, b3, c1, c2, c3, d1, d2, d3] =>
      match MinDist.minBy [(a1, a2, a3), (b1, b2, b3), (c1, c2, c3), (d1, d2, d3)] with
      | some r => "ok " ++ showRats [r.1, r.2.1, r.2.2]
      | none => "none"
    | _ => "bad-args"
  | "extremes" =>
    match parseSegs args with
    | some ([s], []) => "ok " ++ showRats (Extremes.extremes ratSqrt s)
    | _ => "bad-args"
  | "bounds" =>
    match parseSegs args with
    | some ([s], []) => showBox (Extremes.bounds ratSqrt s)
    | _ => "bad-args"
  | "pathbounds" =>
    match parseSegs args with
    | some (l, []) => showBox (Extremes.pathBounds ratSqrt l)
    | _ => "bad-args"
  | "splitAtPoints" =>
    match parseSegs args with
    | some (l, "|" :: rest) =>
      match parseCuts rest with
      | some cuts => "ok " ++ showSegs (Extremes.splitAtPointsDict l cuts)
      | none => "bad-args"
    | _ => "bad-args"
  | "addExtremes" =>
    match parseSegs args with
    | some (l, []) => "ok " ++ showSegs (Extremes.addExtremesDict ratSqrt l)
    | _ => "bad-args"
  | "nodelist.to" =>
    match parseSegs args with
    | some (l, []) =>
      match Nodelist.toNodelist (l.map toNSeg) with
      | some nl => "ok " ++ " ".intercalate (nl.map showNode)
      | none => "IndexError"
    | _ => "bad-args"
  | "nodelist.from" =>
    match args with
    | c :: rest =>
      match parseNodes rest with
      | some nl =>
        match Nodelist.fromNodelist (c == "1") nl with
        | some segs => "ok " ++ showSegs (segs.map ofNSeg)
        | none => "error"
      | none => "bad-args"
    | _ => "bad-args"
  | "svg" =>
    match args with
    | c :: rest =>
      match parseSegs rest with
      | some (l, []) =>
        match Nodelist.svg (c == "1") (l.map toNSeg) with
        | some toks => "ok " ++ " ".intercalate (toks.map showTok)
        | none => "IndexError"
      | _ => "bad-args"
    | _ => "bad-args"
  | "sample.regular" =>
    -- lut pairs | targets
    let (l, r) := args.span (· ≠ "|")
    match parsePairs2 l, (r.drop 1).mapM parseRat with
    | some lut, some ds =>
      match Sample.regular lut ds with
      | some res => "ok " ++ showRats res
      | none => "IndexError"
    | _, _ => "bad-args"
  | "path.index" =>
    match args with
    | [n, t] =>
      match n.toNat?, parseRat t with
      | some n, some t =>
        if t = 1 then "end"
        else
          let r := Sample.pathIndex (K := ℚ) n t
          if r.1 < n then "ok " ++ toString r.1 ++ " " ++ showRat r.2 else "IndexError"
      | _, _ => "bad-args"
    | _ => "bad-args"
  | "path.pointAt" =>
    match args with
    | t :: rest =>
      match parseRat t, parseSegs rest with
      | some t, some (l, []) =>
        match Sample.pathPointAt l t with
        | some p => "ok " ++ showRats [p.x, p.y]
        | none => "IndexError"
      | _, _ => "bad-args"
    | _ => "bad-args"
  | "sample.joinLines" =>
    match args.mapM parseRat with
    | some xs =>
      match parsePairs2 (xs.map showRat) with
      | some ps => "ok " ++ showSegs (Sample.joinLines (ps.map fun p => (⟨p.1, p.2⟩ : Pt ℚ)))
      | none => "bad-args"
    | none => "bad-args"
  | "fit" =>
    -- fit <fixed|pinned> <budget> <npts> x y ... | tape
    match args with
    | acc :: budget :: npts :: rest =>
      match budget.toNat?, npts.toNat? with
      | some budget, some n =>
        match ((rest.take (2 * n)).mapM parseRat) >>= parsePairs2 ∘ (fun l => l.map showRat), parseTape ((rest.drop (2 * n)).drop 1) with
        | some pts, some tape =>
          let rb := if acc == "pinned" then Fit.budgetPinned else Fit.budgetFixed
          match Fit.fit rb 200 pts false false budget tape with
          | some (out, left) => "ok " ++ toString left.length ++ " " ++ " ".intercalate (out.map showBez)
          | none => "none"
        | _, _ => "bad-args"
      | _, _ => "bad-args"
    | _ => "bad-args"
  | "clip.recon" =>
    -- clip.recon <flat 0/1> <fixed|pinned> <prec> <n> x y ... | lut entries (later entries override earlier)
    match args with
    | flat :: mode :: prec :: n :: rest =>
      match parseRat prec, n.toNat? with
      | some prec, some n =>
        match ((rest.take (2 * n)).mapM parseRat) >>= parsePairs2 ∘ (fun l => l.map showRat), parseLut ((rest.drop (2 * n)).drop 1) with
        | some poly, some lutl =>
          let lut (k : QP × QP) : Option (Seg ℚ) := (lutl.reverse.find? (fun e => e.1 == k)).map (·.2)
          let line (s e : QP) : Seg ℚ := Seg.line ⟨s.1 / prec, s.2 / prec⟩ ⟨e.1 / prec, e.2 / prec⟩
          let out := if mode == "pinned" then Clip.reconPinned lut line (flat == "1") poly
                     else Clip.recon lut line (flat == "1") poly
          "ok " ++ showSegs out
        | _, _ => "bad-args"
      | _, _ => "bad-args"
    | _ => "bad-args"
  | "lookup.quad" =>
    match parseSegs (args.take 7), (args.drop 7).mapM parseRat with
    | some ([Seg.quad a b c], []), some [qx, qy] => "ok " ++ showRat (Lookup.quadTOfPoint ratSqrt a b c ⟨qx, qy⟩)
    | _, _ => "bad-args"
  | "lookup.cubic" =>
    -- lookup.cubic C .. qx qy | samples
    match parseSegs (args.take 9), ((args.drop 9).take 2).mapM parseRat, ((args.drop 11).drop 1).mapM parseRat with
    | some ([s], []), some [qx, qy], some samples =>
      let dist (t : ℚ) : ℚ := let p := s.eval t; ratSqrt ((p.x - qx) * (p.x - qx) + (p.y - qy) * (p.y - qy))
      "ok " ++ showRat (Lookup.cubicTOfPointFull dist samples)
    | _, _, _ => "bad-args"
  | "inter.run" =>
    -- inter.run <self> <other> <aligned> | cardano roots...   (aligned = a line when both operands are lines)
    match parseSegs args with
    | some ([sf, ot, al], rest) =>
      match (rest.drop 1).mapM parseRat with
      | some cardano =>
        "ok " ++ showRats ((Inter.intersections ratSqrt sf ot al cardano).flatMap fun p => [p.1, p.2])
      | none => "bad-args"
    | _ => "bad-args"
  | "inter.roots" =>
    -- inter.roots <aligned curve> | cardano roots...   (`_curve_line_intersections_t`)
    match parseSegs args with
    | some ([al], rest) =>
      match (rest.drop 1).mapM parseRat with
      | some cardano => "ok " ++ showRats (Inter.curveLineT ratSqrt al cardano)
      | none => "bad-args"
    | _ => "bad-args"
  | "winding" =>
    -- winding <own|last> px py lx rx | seg ; alignedL ; cardanoL... ; alignedR ; cardanoR... | seg ; ...
    match splitTok "|" args with
    | hd :: groups =>
      match hd with
      | [wh, px, py, lx, rx] =>
        match parseRat px, parseRat py, parseRat lx, parseRat rx with
        | some px, some py, some lx, some rx =>
          let parsed : Option (List (Seg ℚ × List (ℚ × ℚ) × List (ℚ × ℚ))) := groups.mapM fun g =>
            match splitTok ";" g with
            | [sg, al, cl, ar, cr] =>
              match parseSegs sg, parseSegs al, cl.mapM parseRat, parseSegs ar, cr.mapM parseRat with
              | some ([s], []), some ([al], []), some cl, some ([ar], []), some cr =>
                some (s, Winding.segHits ratSqrt s lx px py al cl, Winding.segHits ratSqrt s rx px py ar cr)
              | _, _, _, _, _ => none
            | _ => none
          match parsed with
          | some rows =>
            let segs := rows.map (·.1)
            let which : Winding.Hit ℚ → Nat := if wh = "last" then Winding.lastSeg segs.length else Winding.own
            let w := Winding.windingNumber which segs (rows.map (·.2.1)) (rows.map (·.2.2))
            let nl := (Winding.collect 0 (segs.zip (rows.map (·.2.1))) []).length
            let nr := (Winding.collect 0 (segs.zip (rows.map (·.2.2))) []).length
            let ins := Winding.inside which segs (rows.map (·.2.1)) (rows.map (·.2.2))
            s!"ok {w} {nl} {nr} {ins}"
          | none => "bad-args"
        | _, _, _, _ => "bad-args"
      | _ => "bad-args"
    | [] => "bad-args"
  | "self.pairs" =>
    -- self.pairs <closed 0|1> <n> | i1 i2 t1 u1 t2 u2 ... | i1 i2 ... : second loop of getSelfIntersections
    match splitTok "|" args with
    | [cl, n] :: groups =>
      match n.toNat? with
      | some n =>
        let parsed : Option (List (Nat × Nat × List (ℚ × ℚ))) := groups.mapM fun g =>
          match g with
          | a :: b :: rest =>
            match a.toNat?, b.toNat?, parsePairs2 rest with
            | some a, some b, some l => some (a, b, l)
            | _, _, _ => none
          | _ => none
        match parsed with
        | some hits =>
          "ok " ++ showRats ((CC.selfPairs (cl == "1") n hits).flatMap fun q => [(q.1 : ℚ), (q.2.1 : ℚ), q.2.2.1, q.2.2.2])
        | none => "bad-args"
      | none => "bad-args"
    | _ => "bad-args"
  | "cc.run" =>
    -- cc.run <fuel> <curve a> <curve b>: `_curve_curve_intersections_t` on the whole curves
    match args with
    | fu :: rest =>
      match fu.toNat?, parseSegs rest with
      | some fuel, some ([a, b], []) =>
        match CC.cc (CC.segEnv ratSqrt key2) fuel a (0, 1) b (0, 1) with
        | some out => "ok " ++ showRats (out.flatMap fun p => [p.1, p.2])
        | none => "fuel"
      | _, _ => "bad-args"
    | _ => "bad-args"
  | _ => "nomodel"

end ModelDriver
