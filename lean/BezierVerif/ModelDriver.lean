/-
  Line-protocol entry points for the hand models (run at K = ℚ).
-/
import BezierVerif.Basic
import BezierVerif.Model.Polygon

namespace ModelDriver

def edgesOf : List ℚ → Option (List (Polygon.Edge ℚ))
  | [] => some []
  | a :: b :: c :: d :: rest => (edgesOf rest).map (fun l => ⟨a, b, c, d⟩ :: l)
  | _ => none

def handle (name : String) (args : List String) : String :=
  match name with
  | "polygon.signedArea" =>
    match args.mapM parseRat >>= edgesOf with
    | some es => "ok " ++ showRat (Polygon.signedArea es) ++ " " ++ showRat (Polygon.area es) ++ " " ++ showRat (Polygon.direction es)
    | none => "bad-args"
  | _ => "nomodel"

end ModelDriver
