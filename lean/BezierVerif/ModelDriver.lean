/-
  Line-protocol entry points for the hand models (run at K = ℚ).
-/
import BezierVerif.Basic
import BezierVerif.Model.Polygon
import BezierVerif.Model.Sweep
import BezierVerif.Gen.Box

namespace ModelDriver

def edgesOf : List ℚ → Option (List (Polygon.Edge ℚ))
  | [] => some []
  | a :: b :: c :: d :: rest => (edgesOf rest).map (fun l => ⟨a, b, c, d⟩ :: l)
  | _ => none

/-- boxes: 4 rationals per shape -/
def boxesOf : List ℚ → Option (List (ℚ × ℚ × ℚ × ℚ))
  | [] => some []
  | a :: b :: c :: d :: rest => (boxesOf rest).map (fun l => (a, b, c, d) :: l)
  | _ => none

def showObj (o : Sweep.Obj) : String := (if o.side then "b" else "a") ++ toString o.idx

/-- `sweep nA l b r t ...` (first nA boxes = seta): instructions, stable sort by key, event loop.
    The overlap test is the generated `BoundingBox.overlaps`. -/
def sweep (nA : Nat) (bs : List (ℚ × ℚ × ℚ × ℚ)) : String :=
  let A := bs.take nA
  let B := bs.drop nA
  let box (o : Sweep.Obj) : ℚ × ℚ × ℚ × ℚ := (if o.side then B else A).getD o.idx (0, 0, 0, 0)
  let key : Sweep.Ev → ℚ
    | .add o => (box o).1
    | .rem o => (box o).2.2.1
  let evs := (Sweep.instructions A.length B.length).mergeSort (fun a b => key a ≤ key b)
  let ov (o o2 : Sweep.Obj) : Bool :=
    Gen.bbox_overlaps (box o).1 (box o).2.1 (box o).2.2.1 (box o).2.2.2 (box o2).1 (box o2).2.1 (box o2).2.2.1 (box o2).2.2.2
  let st := Sweep.run ov evs
  "ok " ++ " ".intercalate (st.out.map fun p => showObj p.1 ++ ":" ++ showObj p.2)

def handle (name : String) (args : List String) : String :=
  match name with
  | "polygon.signedArea" =>
    match args.mapM parseRat >>= edgesOf with
    | some es => "ok " ++ showRat (Polygon.signedArea es) ++ " " ++ showRat (Polygon.area es) ++ " " ++ showRat (Polygon.direction es)
    | none => "bad-args"
  | "sweep" =>
    match args with
    | n :: rest =>
      match n.toNat?, rest.mapM parseRat >>= boxesOf with
      | some nA, some bs => sweep nA bs
      | _, _ => "bad-args"
    | _ => "bad-args"
  | _ => "nomodel"

end ModelDriver
