/-
  C08 — segment, node-list and textual representations are lossless (structural part).
  Theorems about the hand model Model/Nodelist.lean, tied to path/representations/Segment.py and
  BezierPath.asSVGPath by the correspondence run.  The textual clause (repr/fromRepr bit-identical,
  six decimals in SVG) depends on Python's float printing and is sampled, not proved.
-/
import BezierVerif.Model.Nodelist

namespace C08
open Nodelist
variable {P : Type}

theorem scan_tail (s : Seg P) (ns : List (Node P)) :
    scan [s.start] (s.tailNodes ++ ns) = (scan [s.end] ns).map (fun r => (s :: r.1, r.2)) := by
  cases s <;> simp [Seg.tailNodes, scan, mkSeg, Seg.start, Seg.end, Option.map, bind, Option.bind] <;>
    cases scan _ ns <;> simp

/-- end of a chain that starts at `p` -/
def lastEnd (p : P) : List (Seg P) → P
  | [] => p
  | s :: ss => lastEnd s.end ss

theorem scan_chain : ∀ (segs : List (Seg P)) (p : P), Chain segs → (∀ s, segs.head? = some s → s.start = p) →
    scan [p] (segs.flatMap Seg.tailNodes) = some (segs, [lastEnd p segs]) := by
  intro segs
  induction segs with
  | nil => intro p _ _; simp [scan, lastEnd]
  | cons s rest ih =>
    intro p hc hs
    have hp : s.start = p := hs s rfl
    subst hp
    simp only [List.flatMap_cons]
    rw [scan_tail]
    have hc' : Chain rest := by
      cases rest with
      | nil => trivial
      | cons b r => exact hc.2
    have hs' : ∀ t, rest.head? = some t → t.start = s.end := by
      intro t ht
      cases rest with
      | nil => simp at ht
      | cons b r => simp at ht; subst ht; exact hc.1.symm
    rw [ih s.end hc' hs']
    simp [lastEnd]

theorem firstOncurve_toNodelist (s : Seg P) (rest : List (Node P)) :
    firstOncurve (⟨s.start, s.firstType⟩ :: rest) = some 0 := by
  cases s <;> simp [firstOncurve, Seg.firstType]

theorem fromNodelist_toNodelist [DecidableEq P] (closed : Bool) (s : Seg P) (rest : List (Seg P)) (hc : Chain (s :: rest)) :
    fromNodelist closed (⟨s.start, s.firstType⟩ :: (s :: rest).flatMap Seg.tailNodes)
      = close closed s.start (s :: rest) [lastEnd s.start (s :: rest)] := by
  have h := scan_chain (s :: rest) s.start hc (by intro t ht; simp at ht; subst ht; rfl)
  simp only [fromNodelist, firstOncurve_toNodelist, List.getElem?_cons_zero, Nat.zero_add, List.drop_succ_cons,
    List.drop_zero, h, List.take_zero, scan, List.append_nil]

/-- **open paths**: segments → nodes → segments is the identity on every non-empty connected chain -/
theorem roundtrip_open [DecidableEq P] (segs : List (Seg P)) (hne : segs ≠ []) (hc : Chain segs) :
    (toNodelist segs).bind (fromNodelist false) = some segs := by
  cases segs with
  | nil => exact absurd rfl hne
  | cons s rest =>
    simp only [toNodelist, Option.bind]
    rw [fromNodelist_toNodelist false s rest hc]
    simp [close]

/-- **closed paths**: when the chain returns to its first point no closing segment is added -/
theorem roundtrip_closed [DecidableEq P] (segs : List (Seg P)) (hne : segs ≠ []) (hc : Chain segs)
    (hclosed : ∀ s, segs.head? = some s → lastEnd s.start segs = s.start) :
    (toNodelist segs).bind (fromNodelist true) = some segs := by
  cases segs with
  | nil => exact absurd rfl hne
  | cons s rest =>
    have hcl := hclosed s rfl
    simp only [toNodelist, Option.bind]
    rw [fromNodelist_toNodelist true s rest hc]
    simp [close, hcl]

/-- a chain flagged closed that does *not* return to its first point gets exactly one closing line -/
theorem roundtrip_closed_open_ends [DecidableEq P] (segs : List (Seg P)) (hne : segs ≠ []) (hc : Chain segs)
    (hopen : ∀ s, segs.head? = some s → lastEnd s.start segs ≠ s.start) :
    ∃ s, segs.head? = some s ∧
      (toNodelist segs).bind (fromNodelist true) = some (segs ++ [Seg.line (lastEnd s.start segs) s.start]) := by
  cases segs with
  | nil => exact absurd rfl hne
  | cons s rest =>
    refine ⟨s, rfl, ?_⟩
    have hcl := hopen s rfl
    simp only [toNodelist, Option.bind]
    rw [fromNodelist_toNodelist true s rest hc]
    simp [close, hcl, mkSeg]

/-- any number of round trips -/
def roundtrip [DecidableEq P] (closed : Bool) (segs : List (Seg P)) : Option (List (Seg P)) :=
  (toNodelist segs).bind (fromNodelist closed)

def iterate {α : Type} (f : α → Option α) : Nat → α → Option α
  | 0, x => some x
  | n + 1, x => (iterate f n x).bind f

theorem roundtrip_iter_open [DecidableEq P] (segs : List (Seg P)) (hne : segs ≠ []) (hc : Chain segs) (n : Nat) :
    iterate (roundtrip false) n segs = some segs := by
  induction n with
  | zero => rfl
  | succ n ih => simp only [iterate, ih, Option.bind]; exact roundtrip_open segs hne hc

theorem roundtrip_iter_closed [DecidableEq P] (segs : List (Seg P)) (hne : segs ≠ []) (hc : Chain segs)
    (hclosed : ∀ s, segs.head? = some s → lastEnd s.start segs = s.start) (n : Nat) :
    iterate (roundtrip true) n segs = some segs := by
  induction n with
  | zero => rfl
  | succ n ih => simp only [iterate, ih, Option.bind]; exact roundtrip_closed segs hne hc hclosed

/-- the node list lists every control point of every segment in order, after the first start -/
theorem toNodelist_points (s : Seg P) (rest : List (Seg P)) :
    (toNodelist (s :: rest)).map (fun nl => nl.map Node.p) = some (s.start :: (s :: rest).flatMap (fun t => t.points.tail)) := by
  simp only [toNodelist, Option.map, List.map_cons, List.map_flatMap]
  congr 2
  have : ∀ l : List (Seg P), List.flatMap (fun t => List.map Node.p t.tailNodes) l = List.flatMap (fun t => t.points.tail) l := by
    intro l; induction l with
    | nil => rfl
    | cons t ts ih => simp only [List.flatMap_cons, ih]; cases t <;> rfl
  exact this _

/-- **SVG shape**: one move to the first start, exactly one drawing command per segment whose letter is
    fixed by the segment's kind and whose arguments are that segment's remaining control points, and a
    close command iff the path is closed. -/
theorem svg_shape (closed : Bool) (s : Seg P) (rest : List (Seg P)) :
    ∃ toks, svg closed (s :: rest) = some toks ∧
      toks.head? = some (Tok.M s.start) ∧
      toks.length = 1 + (s :: rest).length + (if closed then 1 else 0) ∧
      (toks.drop 1).take (s :: rest).length = (s :: rest).map segTok ∧
      (Tok.Z ∈ toks ↔ closed = true) := by
  refine ⟨_, rfl, rfl, ?_, ?_, ?_⟩
  · cases closed <;> simp <;> omega
  · simp
  · have hz : ∀ t : Seg P, segTok t ≠ Tok.Z := by intro t; cases t <;> simp [segTok]
    cases closed
    · simp; exact ⟨fun h => hz s h.symm, fun x _ hx => hz x hx⟩
    · simp

/-- non-vacuity: a two-segment open chain -/
example : roundtrip (P := Nat) false [Seg.line 0 1, Seg.cubic 1 2 3 4] = some [Seg.line 0 1, Seg.cubic 1 2 3 4] := by
  decide
/-- a closed triangle given starting on its second node, first listed node off-curve-free -/
example : fromNodelist (P := Nat) true [⟨1, .line⟩, ⟨2, .line⟩, ⟨0, .line⟩]
    = some [Seg.line 1 2, Seg.line 2 0, Seg.line 0 1] := by decide

end C08
