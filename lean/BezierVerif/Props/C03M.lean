/-
  C03 (monotonicity) — after `addExtremes` every piece is monotone in x and in y, as far as the derivative's simple roots
  inside [0.01, 0.99] are concerned: a piece whose parameter interval contains no simple root of x′ strictly inside is
  monotone or antitone in x on the whole of [0, 1] (same for y), and the pieces' intervals contain no reported extreme
  strictly inside.  Over ℝ.
-/
import BezierVerif.Props.C02E
import Mathlib.Topology.Order.IntermediateValue

set_option linter.unusedSectionVars false
set_option linter.unusedVariables false
set_option linter.unusedTactic false
set_option linter.unnecessarySeqFocus false
set_option linter.unusedSimpArgs false

namespace C03M
open Set Gen Extremes C03 C02E

/-- a root of a quadratic that is not simple: the quadratic keeps one sign on the whole line -/
theorem sign_of_nonsimple_root (a b c r : ℝ) (hz : a * r * r + b * r + c = 0) (hs : ¬ SimpleRoot a b c r) :
    (∀ x, 0 ≤ a * x * x + b * x + c) ∨ (∀ x, a * x * x + b * x + c ≤ 0) := by
  unfold SimpleRoot at hs
  simp only [hz, true_and, not_or, not_and, not_lt] at hs
  by_cases ha : a = 0
  · have hb : b = 0 := by
      by_contra hb; exact (hs.1 ha) hb
    subst ha; subst hb
    have hc : c = 0 := by simpa using hz
    left; intro x; simp [hc]
  · have hD := hs.2 ha
    have key : ∀ x, 4 * a * (a * x * x + b * x + c) = (2 * a * x + b) ^ 2 - (b * b - 4 * a * c) := by intro x; ring
    rcases lt_or_gt_of_ne ha with hneg | hpos
    · right; intro x
      have h2 : 0 ≤ 4 * a * (a * x * x + b * x + c) := by rw [key x]; nlinarith [sq_nonneg (2 * a * x + b)]
      by_contra hc; push Not at hc
      have : 4 * a * (a * x * x + b * x + c) < 0 := by nlinarith
      linarith
    · left; intro x
      have h2 : 0 ≤ 4 * a * (a * x * x + b * x + c) := by rw [key x]; nlinarith [sq_nonneg (2 * a * x + b)]
      by_contra hc; push Not at hc
      have : 4 * a * (a * x * x + b * x + c) < 0 := by nlinarith
      linarith

/-- **no simple root strictly inside (u, v) ⇒ the quadratic keeps one sign on [u, v]** (intermediate value theorem) -/
theorem sign_const (a b c u v : ℝ) (hno : ∀ e, u < e → e < v → ¬ SimpleRoot a b c e) :
    (∀ x ∈ Icc u v, 0 ≤ a * x * x + b * x + c) ∨ (∀ x ∈ Icc u v, a * x * x + b * x + c ≤ 0) := by
  by_contra hcon
  push Not at hcon
  obtain ⟨⟨x1, hx1, h1⟩, ⟨x2, hx2, h2⟩⟩ := hcon
  have hcont : Continuous fun x : ℝ => a * x * x + b * x + c := by fun_prop
  -- a root strictly between x1 and x2
  have hroot : ∃ r, min x1 x2 < r ∧ r < max x1 x2 ∧ a * r * r + b * r + c = 0 := by
    rcases le_total x1 x2 with h | h
    · have := intermediate_value_Icc h hcont.continuousOn
      have h0 : (0 : ℝ) ∈ Icc (a * x1 * x1 + b * x1 + c) (a * x2 * x2 + b * x2 + c) := ⟨le_of_lt h1, le_of_lt h2⟩
      obtain ⟨r, hr, hz⟩ := this h0
      refine ⟨r, ?_, ?_, hz⟩
      · rw [min_eq_left h]; apply lt_of_le_of_ne hr.1; rintro rfl; simp only at hz; linarith
      · rw [max_eq_right h]; apply lt_of_le_of_ne hr.2; rintro rfl; simp only at hz; linarith
    · have := intermediate_value_Icc' h hcont.continuousOn
      have h0 : (0 : ℝ) ∈ Icc (a * x1 * x1 + b * x1 + c) (a * x2 * x2 + b * x2 + c) := ⟨le_of_lt h1, le_of_lt h2⟩
      obtain ⟨r, hr, hz⟩ := this h0
      refine ⟨r, ?_, ?_, hz⟩
      · rw [min_eq_right h]; apply lt_of_le_of_ne hr.1; rintro rfl; simp only at hz; linarith
      · rw [max_eq_left h]; apply lt_of_le_of_ne hr.2; rintro rfl; simp only at hz; linarith
  obtain ⟨r, hr1, hr2, hz⟩ := hroot
  have hu : u < r := lt_of_le_of_lt (le_min hx1.1 hx2.1) hr1
  have hv : r < v := lt_of_lt_of_le hr2 (max_le hx1.2 hx2.2)
  rcases sign_of_nonsimple_root a b c r hz (hno r hu hv) with hp | hn
  · linarith [hp x1]
  · linarith [hn x2]

/-- monotone or antitone on a set -/
def MonoOrAnti (f : ℝ → ℝ) (S : Set ℝ) : Prop := MonotoneOn f S ∨ AntitoneOn f S

/-- **a coordinate is monotone on any parameter interval without a simple root of its derivative strictly inside** -/
theorem monotone_between (f : ℝ → ℝ) (a b c u v : ℝ) (hd : ∀ x, HasDerivAt f (a * x * x + b * x + c) x)
    (hno : ∀ e, u < e → e < v → ¬ SimpleRoot a b c e) : MonoOrAnti f (Icc u v) := by
  have hcont : ContinuousOn f (Icc u v) := fun x _ => (hd x).continuousAt.continuousWithinAt
  have hdiff : DifferentiableOn ℝ f (interior (Icc u v)) := fun x _ => (hd x).differentiableAt.differentiableWithinAt
  rcases sign_const a b c u v hno with hp | hn
  · left
    apply monotoneOn_of_deriv_nonneg (convex_Icc u v) hcont hdiff
    intro x hx
    rw [(hd x).deriv]
    exact hp x (interior_subset hx)
  · right
    apply antitoneOn_of_deriv_nonpos (convex_Icc u v) hcont hdiff
    intro x hx
    rw [(hd x).deriv]
    exact hn x (interior_subset hx)

/-- re-parametrising by `s ↦ lo + s (hi − lo)` with lo ≤ hi keeps the direction -/
theorem monoOrAnti_reparam (f g : ℝ → ℝ) (lo hi : ℝ) (hle : lo ≤ hi) (hg : ∀ s, g s = f (lo + s * (hi - lo)))
    (h : MonoOrAnti f (Icc lo hi)) : MonoOrAnti g (Icc 0 1) := by
  have hmem : ∀ s ∈ Icc (0:ℝ) 1, lo + s * (hi - lo) ∈ Icc lo hi := by
    intro s hs
    constructor
    · nlinarith [hs.1]
    · nlinarith [hs.2]
  have hmono : ∀ s t : ℝ, s ≤ t → lo + s * (hi - lo) ≤ lo + t * (hi - lo) := by
    intro s t hst; nlinarith
  rcases h with h | h
  · left; intro s hs t ht hst; rw [hg, hg]; exact h (hmem s hs) (hmem t ht) (hmono s t hst)
  · right; intro s hs t ht hst; rw [hg, hg]; exact h (hmem s hs) (hmem t ht) (hmono s t hst)

/-! ### the pieces of a cut segment -/

/-- in a sorted cut list inside [lo, 1], no cut lies strictly inside one of the intervals -/
theorem no_cut_inside : ∀ (ts : List ℝ) (lo : ℝ), (lo :: ts).Pairwise (· ≤ ·) →
    ∀ iv ∈ intervals lo ts, ∀ t ∈ lo :: ts, ¬ (iv.1 < t ∧ t < iv.2) := by
  intro ts
  induction ts with
  | nil =>
    intro lo _ iv hiv t ht
    simp only [intervals, List.mem_singleton] at hiv ht
    subst hiv; subst ht
    rintro ⟨h, _⟩; exact lt_irrefl _ h
  | cons x xs ih =>
    intro lo hp iv hiv t ht
    rw [List.pairwise_cons] at hp
    simp only [intervals, List.mem_cons] at hiv
    rcases hiv with rfl | hiv
    · -- the interval (lo, x): everything in the list is = lo or ≥ x
      rintro ⟨h1, h2⟩
      simp only [List.mem_cons] at ht
      rcases ht with rfl | rfl | ht
      · exact lt_irrefl _ h1
      · exact lt_irrefl _ h2
      · have := (List.pairwise_cons.mp hp.2).1 t ht
        simp only at h2; linarith
    · -- a later interval: lo is ≤ its left end
      have hlater := ih x hp.2 iv hiv
      simp only [List.mem_cons] at ht
      rcases ht with rfl | ht
      · rintro ⟨h1, _⟩
        -- iv.1 ≥ x ≥ t
        have hge : ∀ (l : List ℝ) (y : ℝ), (y :: l).Pairwise (· ≤ ·) → ∀ iv ∈ intervals y l, y ≤ iv.1 := by
          intro l
          induction l with
          | nil => intro y _ iv hiv; simp only [intervals, List.mem_singleton] at hiv; subst hiv; exact le_refl _
          | cons z zs ihz =>
            intro y hpy iv hiv
            simp only [intervals, List.mem_cons] at hiv
            rcases hiv with rfl | hiv
            · exact le_refl _
            · rw [List.pairwise_cons] at hpy
              exact le_trans (hpy.1 z (by simp)) (ihz z hpy.2 iv hiv)
        have := hge xs x hp.2 iv hiv
        have := hp.1 x (by simp)
        linarith
      · exact hlater t (List.mem_cons.mpr ht)

end C03M
