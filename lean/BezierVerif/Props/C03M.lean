/-
  C03 (monotonicity) — after `addExtremes` every piece is monotone in x and in y, as far as the derivative's simple roots
  inside [0.01, 0.99] are concerned: a piece whose parameter interval contains no simple root of x′ strictly inside is
  monotone or antitone in x on the whole of [0, 1] (same for y), and the pieces' intervals contain no reported extreme
  strictly inside.  Over ℝ.
-/
import BezierVerif.Props.C02E
import Mathlib.Topology.Order.IntermediateValue

set_option linter.unusedSectionVars false
set_option linter.unusedVariables false
set_option linter.unusedTactic false
set_option linter.unnecessarySeqFocus false
set_option linter.unusedSimpArgs false

namespace C03M
open Set Gen Extremes C03 C02E

/-- a root of a quadratic that is not simple: the quadratic keeps one sign on the whole line -/
theorem sign_of_nonsimple_root (a b c r : ℝ) (hz : a * r * r + b * r + c = 0) (hs : ¬ SimpleRoot a b c r) :
    (∀ x, 0 ≤ a * x * x + b * x + c) ∨ (∀ x, a * x * x + b * x + c ≤ 0) := by
  unfold SimpleRoot at hs
  simp only [hz, true_and, not_or, not_and, not_lt] at hs
  by_cases ha : a = 0
  · have hb : b = 0 := by
      by_contra hb; exact (hs.1 ha) hb
    subst ha; subst hb
    have hc : c = 0 := by simpa using hz
    left; intro x; simp [hc]
  · have hD := hs.2 ha
    have key : ∀ x, 4 * a * (a * x * x + b * x + c) = (2 * a * x + b) ^ 2 - (b * b - 4 * a * c) := by intro x; ring
    rcases lt_or_gt_of_ne ha with hneg | hpos
    · right; intro x
      have h2 : 0 ≤ 4 * a * (a * x * x + b * x + c) := by rw [key x]; nlinarith [sq_nonneg (2 * a * x + b)]
      by_contra hc; push Not at hc
      have : 4 * a * (a * x * x + b * x + c) < 0 := by nlinarith
      linarith
    · left; intro x
      have h2 : 0 ≤ 4 * a * (a * x * x + b * x + c) := by rw [key x]; nlinarith [sq_nonneg (2 * a * x + b)]
      by_contra hc; push Not at hc
      have : 4 * a * (a * x * x + b * x + c) < 0 := by nlinarith
      linarith

/-- **no simple root strictly inside (u, v) ⇒ the quadratic keeps one sign on [u, v]** (intermediate value theorem) -/
theorem sign_const (a b c u v : ℝ) (hno : ∀ e, u < e → e < v → ¬ SimpleRoot a b c e) :
    (∀ x ∈ Icc u v, 0 ≤ a * x * x + b * x + c) ∨ (∀ x ∈ Icc u v, a * x * x + b * x + c ≤ 0) := by
  by_contra hcon
  push Not at hcon
  obtain ⟨⟨x1, hx1, h1⟩, ⟨x2, hx2, h2⟩⟩ := hcon
  have hcont : Continuous fun x : ℝ => a * x * x + b * x + c := by fun_prop
  -- a root strictly between x1 and x2
  have hroot : ∃ r, min x1 x2 < r ∧ r < max x1 x2 ∧ a * r * r + b * r + c = 0 := by
    rcases le_total x1 x2 with h | h
    · have := intermediate_value_Icc h hcont.continuousOn
      have h0 : (0 : ℝ) ∈ Icc (a * x1 * x1 + b * x1 + c) (a * x2 * x2 + b * x2 + c) := ⟨le_of_lt h1, le_of_lt h2⟩
      obtain ⟨r, hr, hz⟩ := this h0
      refine ⟨r, ?_, ?_, hz⟩
      · rw [min_eq_left h]; apply lt_of_le_of_ne hr.1; rintro rfl; simp only at hz; linarith
      · rw [max_eq_right h]; apply lt_of_le_of_ne hr.2; rintro rfl; simp only at hz; linarith
    · have := intermediate_value_Icc' h hcont.continuousOn
      have h0 : (0 : ℝ) ∈ Icc (a * x1 * x1 + b * x1 + c) (a * x2 * x2 + b * x2 + c) := ⟨le_of_lt h1, le_of_lt h2⟩
      obtain ⟨r, hr, hz⟩ := this h0
      refine ⟨r, ?_, ?_, hz⟩
      · rw [min_eq_right h]; apply lt_of_le_of_ne hr.1; rintro rfl; simp only at hz; linarith
      · rw [max_eq_left h]; apply lt_of_le_of_ne hr.2; rintro rfl; simp only at hz; linarith
  obtain ⟨r, hr1, hr2, hz⟩ := hroot
  have hu : u < r := lt_of_le_of_lt (le_min hx1.1 hx2.1) hr1
  have hv : r < v := lt_of_lt_of_le hr2 (max_le hx1.2 hx2.2)
  rcases sign_of_nonsimple_root a b c r hz (hno r hu hv) with hp | hn
  · linarith [hp x1]
  · linarith [hn x2]

/-- monotone or antitone on a set -/
def MonoOrAnti (f : ℝ → ℝ) (S : Set ℝ) : Prop := MonotoneOn f S ∨ AntitoneOn f S

/-- **a coordinate is monotone on any parameter interval without a simple root of its derivative strictly inside** -/
theorem monotone_between (f : ℝ → ℝ) (a b c u v : ℝ) (hd : ∀ x, HasDerivAt f (a * x * x + b * x + c) x)
    (hno : ∀ e, u < e → e < v → ¬ SimpleRoot a b c e) : MonoOrAnti f (Icc u v) := by
  have hcont : ContinuousOn f (Icc u v) := fun x _ => (hd x).continuousAt.continuousWithinAt
  have hdiff : DifferentiableOn ℝ f (interior (Icc u v)) := fun x _ => (hd x).differentiableAt.differentiableWithinAt
  rcases sign_const a b c u v hno with hp | hn
  · left
    apply monotoneOn_of_deriv_nonneg (convex_Icc u v) hcont hdiff
    intro x hx
    rw [(hd x).deriv]
    exact hp x (interior_subset hx)
  · right
    apply antitoneOn_of_deriv_nonpos (convex_Icc u v) hcont hdiff
    intro x hx
    rw [(hd x).deriv]
    exact hn x (interior_subset hx)

/-- re-parametrising by `s ↦ lo + s (hi − lo)` with lo ≤ hi keeps the direction -/
theorem monoOrAnti_reparam (f g : ℝ → ℝ) (lo hi : ℝ) (hle : lo ≤ hi) (hg : ∀ s, g s = f (lo + s * (hi - lo)))
    (h : MonoOrAnti f (Icc lo hi)) : MonoOrAnti g (Icc 0 1) := by
  have hmem : ∀ s ∈ Icc (0:ℝ) 1, lo + s * (hi - lo) ∈ Icc lo hi := by
    intro s hs
    constructor
    · nlinarith [hs.1]
    · nlinarith [hs.2]
  have hmono : ∀ s t : ℝ, s ≤ t → lo + s * (hi - lo) ≤ lo + t * (hi - lo) := by
    intro s t hst; nlinarith
  rcases h with h | h
  · left; intro s hs t ht hst; rw [hg, hg]; exact h (hmem s hs) (hmem t ht) (hmono s t hst)
  · right; intro s hs t ht hst; rw [hg, hg]; exact h (hmem s hs) (hmem t ht) (hmono s t hst)

/-! ### the pieces of a cut segment -/

/-- in a sorted cut list inside [lo, 1], no cut lies strictly inside one of the intervals -/
theorem no_cut_inside : ∀ (ts : List ℝ) (lo : ℝ), (lo :: ts).Pairwise (· ≤ ·) →
    ∀ iv ∈ intervals lo ts, ∀ t ∈ lo :: ts, ¬ (iv.1 < t ∧ t < iv.2) := by
  intro ts
  induction ts with
  | nil =>
    intro lo _ iv hiv t ht
    simp only [intervals, List.mem_singleton] at hiv ht
    subst hiv; subst ht
    rintro ⟨h, _⟩; exact lt_irrefl _ h
  | cons x xs ih =>
    intro lo hp iv hiv t ht
    rw [List.pairwise_cons] at hp
    simp only [intervals, List.mem_cons] at hiv
    rcases hiv with rfl | hiv
    · -- the interval (lo, x): everything in the list is = lo or ≥ x
      rintro ⟨h1, h2⟩
      simp only [List.mem_cons] at ht
      rcases ht with rfl | rfl | ht
      · exact lt_irrefl _ h1
      · exact lt_irrefl _ h2
      · have := (List.pairwise_cons.mp hp.2).1 t ht
        simp only at h2; linarith
    · -- a later interval: lo is ≤ its left end
      have hlater := ih x hp.2 iv hiv
      simp only [List.mem_cons] at ht
      rcases ht with rfl | ht
      · rintro ⟨h1, _⟩
        -- iv.1 ≥ x ≥ t
        have hge : ∀ (l : List ℝ) (y : ℝ), (y :: l).Pairwise (· ≤ ·) → ∀ iv ∈ intervals y l, y ≤ iv.1 := by
          intro l
          induction l with
          | nil => intro y _ iv hiv; simp only [intervals, List.mem_singleton] at hiv; subst hiv; exact le_refl _
          | cons z zs ihz =>
            intro y hpy iv hiv
            simp only [intervals, List.mem_cons] at hiv
            rcases hiv with rfl | hiv
            · exact le_refl _
            · rw [List.pairwise_cons] at hpy
              exact le_trans (hpy.1 z (by simp)) (ihz z hpy.2 iv hiv)
        have := hge xs x hp.2 iv hiv
        have := hp.1 x (by simp)
        linarith
      · exact hlater t (List.mem_cons.mpr ht)


theorem intervals_le : ∀ (ts : List ℝ) (lo : ℝ), (lo :: ts).Pairwise (· ≤ ·) → (∀ t ∈ lo :: ts, t ≤ 1) →
    ∀ iv ∈ intervals lo ts, iv.1 ≤ iv.2 ∧ lo ≤ iv.1 ∧ iv.2 ≤ 1 := by
  intro ts
  induction ts with
  | nil =>
    intro lo _ hb iv hiv
    simp only [intervals, List.mem_singleton] at hiv
    subst hiv
    exact ⟨hb lo (by simp), le_refl _, le_refl _⟩
  | cons x xs ih =>
    intro lo hp hb iv hiv
    rw [List.pairwise_cons] at hp
    simp only [intervals, List.mem_cons] at hiv
    rcases hiv with rfl | hiv
    · exact ⟨hp.1 x (by simp), le_refl _, hb x (by simp)⟩
    · obtain ⟨h1, h2, h3⟩ := ih x hp.2 (fun t ht => hb t (List.mem_cons_of_mem _ ht)) iv hiv
      exact ⟨h1, le_trans (hp.1 x (by simp)) h2, h3⟩

theorem forall₂_imp_mem {α β : Type} {R R' : α → β → Prop} {l1 : List α} {l2 : List β}
    (h : List.Forall₂ R l1 l2) (himp : ∀ a b, b ∈ l2 → R a b → R' a b) : List.Forall₂ R' l1 l2 := by
  induction h with
  | nil => exact List.Forall₂.nil
  | cons hab _ ih =>
    refine List.Forall₂.cons (himp _ _ (by simp) hab) (ih ?_)
    intro a b hb hr
    exact himp a b (List.mem_cons_of_mem _ hb) hr

/-- **the pieces of a segment cut at a sorted list that contains every simple root of x′ and y′ in [0.01, 0.99]**: a piece is
    monotone (or antitone) in x on the whole of [0, 1] unless a simple root of x′ lies strictly inside its parameter interval —
    and such a root can only lie in the first or last 1 % of the original segment.  Same for y. -/
theorem pieces_monotone (s : Seg ℝ) (ts : List ℝ) (hsorted : ts.Pairwise (· ≤ ·)) (hb : ∀ t ∈ ts, 0 ≤ t ∧ t ≤ 1)
    (hns : NoSkip ts)
    (hall : ∀ e, (1 : ℝ) / 100 ≤ e → e ≤ 99 / 100 → (SRx s e ∨ SRy s e) → e ∈ ts) :
    List.Forall₂ (fun (piece : Seg ℝ) (iv : ℝ × ℝ) =>
        ((∀ e, iv.1 < e → e < iv.2 → (e < 1 / 100 ∨ 99 / 100 < e) → ¬ SRx s e) → MonoOrAnti (fun t => (piece.eval t).x) (Icc 0 1)) ∧
        ((∀ e, iv.1 < e → e < iv.2 → (e < 1 / 100 ∨ 99 / 100 < e) → ¬ SRy s e) → MonoOrAnti (fun t => (piece.eval t).y) (Icc 0 1)))
      (cutSeg s ts) (intervals 0 ts) := by
  have hp0 : ((0 : ℝ) :: ts).Pairwise (· ≤ ·) := List.pairwise_cons.mpr ⟨fun t ht => (hb t ht).1, hsorted⟩
  have hb1 : ∀ t ∈ (0 : ℝ) :: ts, t ≤ 1 := by
    intro t ht; rcases List.mem_cons.mp ht with rfl | ht
    · norm_num
    · exact (hb t ht).2
  refine forall₂_imp_mem (cutSeg_retrace s ts hns) ?_
  intro piece iv hiv hev
  have hle := (intervals_le ts 0 hp0 hb1 iv hiv).1
  have hnocut := no_cut_inside ts 0 hp0 iv hiv
  constructor
  · intro hno
    apply monoOrAnti_reparam (fun t => (s.eval t).x) (fun t => (piece.eval t).x) iv.1 iv.2 hle (fun t => by simp only [hev t])
    apply monotone_between _ _ _ _ iv.1 iv.2 (hasDeriv_x s)
    intro e e1 e2 hs
    by_cases hband : (1 : ℝ) / 100 ≤ e ∧ e ≤ 99 / 100
    · exact hnocut e (List.mem_cons_of_mem _ (hall e hband.1 hband.2 (Or.inl hs))) ⟨e1, e2⟩
    · have : e < 1 / 100 ∨ 99 / 100 < e := by
        by_contra hc; push Not at hc; exact hband ⟨hc.1, hc.2⟩
      exact hno e e1 e2 this hs
  · intro hno
    apply monoOrAnti_reparam (fun t => (s.eval t).y) (fun t => (piece.eval t).y) iv.1 iv.2 hle (fun t => by simp only [hev t])
    apply monotone_between _ _ _ _ iv.1 iv.2 (hasDeriv_y s)
    intro e e1 e2 hs
    by_cases hband : (1 : ℝ) / 100 ≤ e ∧ e ≤ 99 / 100
    · exact hnocut e (List.mem_cons_of_mem _ (hall e hband.1 hband.2 (Or.inr hs))) ⟨e1, e2⟩
    · have : e < 1 / 100 ∨ 99 / 100 < e := by
        by_contra hc; push Not at hc; exact hband ⟨hc.1, hc.2⟩
      exact hno e e1 e2 this hs

/-- the extremes reported for any segment lie in [0.01, 0.99] -/
theorem extremes_in_band (s : Seg ℝ) (t : ℝ) (ht : t ∈ extremes Real.sqrt s) : (1 : ℝ) / 100 ≤ t ∧ t ≤ 99 / 100 := by
  cases s with
  | line a b => simp [extremes] at ht
  | quad a b c => simp only [extremes] at ht; exact ((quad_findDRoots_mem _ _ _ _ _ _ t).mp ht).2
  | cubic a b c d => simp only [extremes] at ht; exact ((cubic_extremes_mem_iff a b c d t).mp ht).1

/-- **C03, monotonicity after `addExtremes`** (one segment of the path; `splitAtPoints` cuts it at `sort (extremes s)`): provided no
    cut is skipped by the 1e-8 duplicate test, every resulting piece is monotone or antitone in x — and in y — on [0, 1], except
    possibly when a simple root of that coordinate's derivative lies in the first or last 1 % of the original segment and strictly
    inside the piece's parameter interval. -/
theorem addExtremes_monotone (s : Seg ℝ) (hns : NoSkip (sort (extremes Real.sqrt s))) :
    List.Forall₂ (fun (piece : Seg ℝ) (iv : ℝ × ℝ) =>
        ((∀ e, iv.1 < e → e < iv.2 → (e < 1 / 100 ∨ 99 / 100 < e) → ¬ SRx s e) → MonoOrAnti (fun t => (piece.eval t).x) (Icc 0 1)) ∧
        ((∀ e, iv.1 < e → e < iv.2 → (e < 1 / 100 ∨ 99 / 100 < e) → ¬ SRy s e) → MonoOrAnti (fun t => (piece.eval t).y) (Icc 0 1)))
      (cutSeg s (sort (extremes Real.sqrt s))) (intervals 0 (sort (extremes Real.sqrt s))) := by
  apply pieces_monotone s _ (sort_sorted _) _ hns
  · intro e e1 e2 hs
    rw [mem_sort]
    exact band_mem s e e1 e2 hs
  · intro t ht
    rw [mem_sort] at ht
    have := extremes_in_band s t ht
    constructor <;> linarith [this.1, this.2]

end C03M
