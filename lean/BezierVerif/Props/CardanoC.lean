/-
  C05 — the Cardano closed forms of `CubicBezier._findRoots` are COMPLETE: every real root of the cubic is among the values
  they produce (over ℝ, with the real sqrt / cos / arccos / rpow), so in the Cardano branch no crossing parameter in [0, 1] is missed.
  Negative discriminant: the three trigonometric values are pairwise different (cos is strictly decreasing on [0, π]) and a monic
  cubic with three distinct roots has no other; zero discriminant: (y − 2u)(y + u)²; positive: the remaining quadratic factor is
  (y + y₀/2)² + ¾(u + v)² > 0.
-/
import BezierVerif.Props.Cardano

set_option linter.unusedSectionVars false
set_option linter.unusedVariables false
set_option linter.unusedSimpArgs false
set_option maxHeartbeats 4000000

open Real Cardano Gen

namespace CardanoC

/-- a monic cubic with three distinct roots has no other root -/
theorem three_roots_all (a b c r1 r2 r3 t : ℝ)
    (h1 : r1 ^ 3 + a * r1 ^ 2 + b * r1 + c = 0) (h2 : r2 ^ 3 + a * r2 ^ 2 + b * r2 + c = 0)
    (h3 : r3 ^ 3 + a * r3 ^ 2 + b * r3 + c = 0) (h12 : r1 ≠ r2) (h13 : r1 ≠ r3) (h23 : r2 ≠ r3)
    (ht : t ^ 3 + a * t ^ 2 + b * t + c = 0) : t = r1 ∨ t = r2 ∨ t = r3 := by
  by_cases e1 : t = r1
  · exact Or.inl e1
  by_cases e2 : t = r2
  · exact Or.inr (Or.inl e2)
  right; right
  -- g(y) = y² + y r1 + r1² + a (y + r1) + b vanishes at t, r2, r3
  have g : ∀ y, y ^ 3 + a * y ^ 2 + b * y + c = 0 → y ≠ r1 → y ^ 2 + y * r1 + r1 ^ 2 + a * (y + r1) + b = 0 := by
    intro y hy hne
    have : (y - r1) * (y ^ 2 + y * r1 + r1 ^ 2 + a * (y + r1) + b) = 0 := by linear_combination hy - h1
    rcases mul_eq_zero.mp this with h | h
    · exact absurd (sub_eq_zero.mp h) hne
    · exact h
  have gt := g t ht e1
  have g2 := g r2 h2 (Ne.symm h12)
  have g3 := g r3 h3 (Ne.symm h13)
  have lin : ∀ y, y ^ 2 + y * r1 + r1 ^ 2 + a * (y + r1) + b = 0 → y ≠ r2 → y = -r1 - r2 - a := by
    intro y hy hne
    have : (y - r2) * (y + r2 + r1 + a) = 0 := by linear_combination hy - g2
    rcases mul_eq_zero.mp this with h | h
    · exact absurd (sub_eq_zero.mp h) hne
    · linarith
  rw [lin t gt e2, lin r3 g3 (Ne.symm h23)]

/-- one real root (positive discriminant): completeness -/
theorem one_complete (a b c x y sd t : ℝ) (hsd : sd * sd = Disc a b c) (hpos : 0 < sd)
    (hx : x ^ 3 = sd - Q2 a b c) (hy : y ^ 3 = sd + Q2 a b c)
    (ht : t ^ 3 + a * t ^ 2 + b * t + c = 0) : t ∈ one a x y := by
  have hxy : x * y = P3 a b := by
    apply cube_inj
    have : (x * y) ^ 3 = x ^ 3 * y ^ 3 := by ring
    rw [this, hx, hy]
    have : (sd - Q2 a b c) * (sd + Q2 a b c) = sd * sd - Q2 a b c * Q2 a b c := by ring
    rw [this, hsd]; unfold Disc; ring
  unfold one
  simp only [List.mem_singleton]
  set s := t + a / 3 with hs
  have hts : t = s - a / 3 := by rw [hs]; ring
  rw [hts, depress'] at ht
  have hroot0 : (x - y) ^ 3 + 3 * P3 a b * (x - y) + 2 * Q2 a b c = 0 := by
    have e : (x - y) ^ 3 = x ^ 3 - y ^ 3 - 3 * (x * y) * (x - y) := by ring
    rw [e, hx, hy, hxy]; ring
  have hfac : (s - (x - y)) * (s ^ 2 + s * (x - y) + (x - y) ^ 2 + 3 * P3 a b) = 0 := by linear_combination ht - hroot0
  have hxyne : x + y ≠ 0 := by
    intro h
    have : x = -y := by linarith
    have h3 : x ^ 3 = -(y ^ 3) := by rw [this]; ring
    rw [hx, hy] at h3
    linarith
  have hpos2 : 0 < s ^ 2 + s * (x - y) + (x - y) ^ 2 + 3 * P3 a b := by
    rw [← hxy]
    have e : s ^ 2 + s * (x - y) + (x - y) ^ 2 + 3 * (x * y) = (s + (x - y) / 2) ^ 2 + 3 / 4 * (x + y) ^ 2 := by ring
    rw [e]
    have : 0 < (x + y) ^ 2 := by positivity
    nlinarith [sq_nonneg (s + (x - y) / 2)]
  rcases mul_eq_zero.mp hfac with h | h
  · rw [hts]; linarith
  · exact absurd h (ne_of_gt hpos2)

/-- zero discriminant: completeness -/
theorem zero_complete (a b c u t : ℝ) (hd : Disc a b c = 0) (hu : u ^ 3 = -(Q2 a b c))
    (ht : t ^ 3 + a * t ^ 2 + b * t + c = 0) : t ∈ zero a u := by
  have hp : P3 a b = -(u ^ 2) := by
    apply cube_inj
    have : P3 a b ^ 3 = -(Q2 a b c * Q2 a b c) := by unfold Disc at hd; linarith [hd, (by ring : P3 a b ^ 3 = P3 a b * P3 a b * P3 a b)]
    rw [this]
    have hq : Q2 a b c = -(u ^ 3) := by linarith
    rw [hq]; ring
  have hq : Q2 a b c = -(u ^ 3) := by linarith
  unfold zero
  simp only [List.mem_cons, List.mem_nil_iff, or_false]
  set s := t + a / 3 with hs
  have hts : t = s - a / 3 := by rw [hs]; ring
  rw [hts, depress', hp, hq] at ht
  have hfac : (s - 2 * u) * ((s + u) * (s + u)) = 0 := by linear_combination ht
  rcases mul_eq_zero.mp hfac with h | h
  · left; rw [hts]; linarith
  · right
    have : s + u = 0 := by rcases mul_eq_zero.mp h with h | h <;> exact h
    rw [hts]; linarith


/-- three real roots (negative discriminant): the three trigonometric values are pairwise different -/
theorem trig_three (a b c : ℝ) (hd : Disc a b c < 0) :
    ∃ r1 r2 r3 : ℝ, trig Real.pi Real.cos Real.arccos a b c (Real.sqrt (MP3 a b * MP3 a b * MP3 a b))
        (2 * Real.rpow (Real.sqrt (MP3 a b * MP3 a b * MP3 a b)) ((1 : ℝ) / 3)) = [r1, r2, r3] ∧ r1 ≠ r2 ∧ r1 ≠ r3 ∧ r2 ≠ r3 := by
  set r := Real.sqrt (MP3 a b * MP3 a b * MP3 a b) with hr
  set t1 := 2 * Real.rpow r ((1 : ℝ) / 3) with ht1
  -- MP3³ > Q2² ≥ 0
  have hM3 : Q2 a b c * Q2 a b c < MP3 a b * MP3 a b * MP3 a b := by
    have : P3 a b * P3 a b * P3 a b = -(MP3 a b * MP3 a b * MP3 a b) := by unfold P3 MP3; ring
    unfold Disc at hd; rw [this] at hd; linarith
  have hM3pos : 0 < MP3 a b * MP3 a b * MP3 a b := lt_of_le_of_lt (mul_self_nonneg _) hM3
  have hrpos : 0 < r := Real.sqrt_pos.mpr hM3pos
  have hr2 : r * r = MP3 a b * MP3 a b * MP3 a b := Real.mul_self_sqrt (le_of_lt hM3pos)
  have ht1pos : 0 < t1 := by
    have : 0 < Real.rpow r ((1 : ℝ) / 3) := Real.rpow_pos_of_pos hrpos _
    rw [ht1]; linarith
  -- the argument of arccos lies strictly inside (-1, 1)
  set x := -(Q a b c) / (2 * r) with hx
  have hQ : Q a b c = 2 * Q2 a b c := by unfold Q Q2; ring
  have hxsq : x * x < 1 := by
    have h2r : (2 * r) ≠ 0 := by positivity
    have : x * x = (Q2 a b c * Q2 a b c) / (r * r) := by
      rw [hx, hQ]; field_simp
    rw [this, div_lt_one (by positivity), hr2]; exact hM3
  have hx1 : x < 1 := by nlinarith
  have hx2 : -1 < x := by nlinarith
  have hclamp : max (min x 1) (-1) = x := by
    rw [min_eq_left (le_of_lt hx1), max_eq_left (le_of_lt hx2)]
  set φ := Real.arccos x with hφ
  have hφ0 : 0 < φ := Real.arccos_pos.mpr hx1
  have hφπ : φ < π := Real.arccos_lt_pi.mpr hx2
  have hπ := Real.pi_pos
  -- the three cosines are strictly ordered
  have c01 : Real.cos ((φ + 2 * π) / 3) < Real.cos (φ / 3) :=
    Real.strictAntiOn_cos ⟨by positivity, by linarith⟩ ⟨by positivity, by linarith⟩ (by linarith)
  have e2 : Real.cos ((φ + 4 * π) / 3) = Real.cos ((2 * π - φ) / 3) := by
    have : (φ + 4 * π) / 3 = 2 * π - (2 * π - φ) / 3 := by ring
    rw [this, Real.cos_two_pi_sub]
  have c02 : Real.cos ((2 * π - φ) / 3) < Real.cos (φ / 3) :=
    Real.strictAntiOn_cos ⟨by positivity, by linarith⟩ ⟨by linarith, by linarith⟩ (by linarith)
  have c21 : Real.cos ((φ + 2 * π) / 3) < Real.cos ((2 * π - φ) / 3) :=
    Real.strictAntiOn_cos ⟨by linarith, by linarith⟩ ⟨by positivity, by linarith⟩ (by linarith)
  -- the listed values
  have hlist : trig Real.pi Real.cos Real.arccos a b c r t1 =
      [t1 * Real.cos (φ / 3) - a / 3, t1 * Real.cos ((φ + 2 * π) / 3) - a / 3, t1 * Real.cos ((φ + 4 * π) / 3) - a / 3] := by
    unfold trig
    simp only [← hx, hclamp, ← hφ]
  have d01 : t1 * Real.cos (φ / 3) - a / 3 ≠ t1 * Real.cos ((φ + 2 * π) / 3) - a / 3 := by
    intro h; have := mul_lt_mul_of_pos_left c01 ht1pos; linarith
  have d02 : t1 * Real.cos (φ / 3) - a / 3 ≠ t1 * Real.cos ((φ + 4 * π) / 3) - a / 3 := by
    intro h; rw [e2] at h; have := mul_lt_mul_of_pos_left c02 ht1pos; linarith
  have d12 : t1 * Real.cos ((φ + 2 * π) / 3) - a / 3 ≠ t1 * Real.cos ((φ + 4 * π) / 3) - a / 3 := by
    intro h; rw [e2] at h; have := mul_lt_mul_of_pos_left c21 ht1pos; linarith
  exact ⟨_, _, _, hlist, d01, d02, d12⟩

/-- … so they are all the roots -/
theorem trig_complete (a b c t : ℝ) (hd : Disc a b c < 0) (ht : t ^ 3 + a * t ^ 2 + b * t + c = 0) :
    t ∈ trig Real.pi Real.cos Real.arccos a b c (Real.sqrt (MP3 a b * MP3 a b * MP3 a b))
        (2 * Real.rpow (Real.sqrt (MP3 a b * MP3 a b * MP3 a b)) ((1 : ℝ) / 3)) := by
  have hsound := trig_sound a b c hd
  obtain ⟨r1, r2, r3, hlist, d01, d02, d12⟩ := trig_three a b c hd
  rw [hlist] at hsound ⊢
  have := three_roots_all a b c r1 r2 r3 t (hsound r1 (by simp)) (hsound r2 (by simp)) (hsound r3 (by simp)) d01 d02 d12 ht
  simp only [List.mem_cons, List.mem_nil_iff, or_false]
  exact this

/-- **Cardano completeness**: every real root of the monic cubic t³ + a t² + b t + c is a value of the tree -/
theorem cardanoTree_complete (a b c t : ℝ) (ht : t ^ 3 + a * t ^ 2 + b * t + c = 0) :
    t ∈ cardanoTree Real.pi Real.sqrt Real.cos Real.arccos Real.rpow a b c := by
  unfold cardanoTree
  by_cases hd : Disc a b c < 0
  · rw [if_pos hd, if_neg (not_lt.mpr (Real.sqrt_nonneg _))]
    exact trig_complete a b c t hd ht
  rw [if_neg hd]
  by_cases h0 : Disc a b c = 0
  · rw [if_pos h0]
    by_cases hq : Q2 a b c < 0
    · rw [if_pos hq, if_neg (by linarith : ¬ -(Q2 a b c) < 0)]
      apply zero_complete a b c _ t h0 _ ht
      exact rpow_third_cube (by linarith)
    · rw [if_neg hq]
      apply zero_complete a b c _ t h0 _ ht
      have := rpow_third_cube (x := Q2 a b c) (le_of_not_gt hq)
      have e : (-(Real.rpow (Q2 a b c) ((1 : ℝ) / 3))) ^ 3 = -((Real.rpow (Q2 a b c) ((1 : ℝ) / 3)) ^ 3) := by ring
      rw [e]; show -((Q2 a b c ^ ((1 : ℝ) / 3)) ^ 3) = _; rw [this]
  · rw [if_neg h0]
    have hpos : 0 < Disc a b c := lt_of_le_of_ne (le_of_not_gt hd) (Ne.symm h0)
    have hsd : Real.sqrt (Disc a b c) * Real.sqrt (Disc a b c) = Disc a b c := Real.mul_self_sqrt (le_of_lt hpos)
    have hsdpos : 0 < Real.sqrt (Disc a b c) := Real.sqrt_pos.mpr hpos
    have cx := cuberoot_cube (Real.sqrt (Disc a b c) - Q2 a b c)
    have cy := cuberoot_cube (Real.sqrt (Disc a b c) + Q2 a b c)
    by_cases h1 : Real.sqrt (Disc a b c) - Q2 a b c < 0 <;> by_cases h2 : Real.sqrt (Disc a b c) + Q2 a b c < 0
    · rw [if_pos h1, if_pos h2]; rw [if_pos h1] at cx; rw [if_pos h2] at cy
      exact one_complete a b c _ _ _ t hsd hsdpos cx cy ht
    · rw [if_pos h1, if_neg h2]; rw [if_pos h1] at cx; rw [if_neg h2] at cy
      exact one_complete a b c _ _ _ t hsd hsdpos cx cy ht
    · rw [if_neg h1, if_pos h2]; rw [if_neg h1] at cx; rw [if_pos h2] at cy
      exact one_complete a b c _ _ _ t hsd hsdpos cx cy ht
    · rw [if_neg h1, if_neg h2]; rw [if_neg h1] at cx; rw [if_neg h2] at cy
      exact one_complete a b c _ _ _ t hsd hsdpos cx cy ht


/-- **completeness of the closed-form candidates of `CubicBezier._findRoots('y')`**: when the cubic coefficient is not
    negligible (the Cardano branch), EVERY real root of d t³ + a t² + b t + c is among the values the regenerated
    definition computes (real sqrt, cos, arccos, rpow). -/
theorem cubic_cardano_complete (p0x p0y p1x p1y p2x p2y p3x p3y t : ℝ)
    (hbig : ¬ |cubic_rootcoeffs_y_d p0x p0y p1x p1y p2x p2y p3x p3y| ≤ (1 : ℝ) / 1000000 *
          max (max |cubic_rootcoeffs_y_a p0x p0y p1x p1y p2x p2y p3x p3y| |cubic_rootcoeffs_y_b p0x p0y p1x p1y p2x p2y p3x p3y|)
            |cubic_rootcoeffs_y_c p0x p0y p1x p1y p2x p2y p3x p3y|)
    (hroot : ((cubic_rootcoeffs_y_d p0x p0y p1x p1y p2x p2y p3x p3y * t + cubic_rootcoeffs_y_a p0x p0y p1x p1y p2x p2y p3x p3y) * t
        + cubic_rootcoeffs_y_b p0x p0y p1x p1y p2x p2y p3x p3y) * t + cubic_rootcoeffs_y_c p0x p0y p1x p1y p2x p2y p3x p3y = 0) :
    t ∈ cubic_cardano_roots Real.pi Real.sqrt Real.cos Real.arccos Real.rpow p0x p0y p1x p1y p2x p2y p3x p3y := by
  rw [cubic_cardano_eq_tree, if_neg hbig]
  set A := cubic_rootcoeffs_y_a p0x p0y p1x p1y p2x p2y p3x p3y
  set B := cubic_rootcoeffs_y_b p0x p0y p1x p1y p2x p2y p3x p3y
  set C := cubic_rootcoeffs_y_c p0x p0y p1x p1y p2x p2y p3x p3y
  set D := cubic_rootcoeffs_y_d p0x p0y p1x p1y p2x p2y p3x p3y
  have hD : D ≠ 0 := by
    intro h0
    apply hbig
    rw [h0, abs_zero]; positivity
  apply cardanoTree_complete
  have e : ((D * t + A) * t + B) * t + C = D * (t ^ 3 + A / D * t ^ 2 + B / D * t + C / D) := by
    field_simp
  rw [e] at hroot
  rcases mul_eq_zero.mp hroot with h | h
  · exact absurd h hD
  · exact h

/-- **cubic / line, Cardano branch: no root in [0, 1] is missed.**  When the dispatch takes the Cardano branch, every t ∈ [0, 1]
    at which the aligned y-polynomial vanishes is returned by `CubicBezier._findRoots('y')` (closed forms, Newton polish,
    range filter, sort).  With `aligned_y_zero_iff` (C05) these are exactly the parameters at which the curve meets the line's
    carrier; together with `cubicRoots_cardano_sound` the returned list IS the set of such parameters. -/
theorem cubicRoots_cardano_complete (p0 p1 p2 p3 : Pt ℝ) (t : ℝ)
    (hcode : cubic_findRoots_dispatch_v p0.x p0.y p1.x p1.y p2.x p2.y p3.x p3.y = 2)
    (hbig : ¬ |cubic_rootcoeffs_y_d p0.x p0.y p1.x p1.y p2.x p2.y p3.x p3.y| ≤ (1 : ℝ) / 1000000 *
          max (max |cubic_rootcoeffs_y_a p0.x p0.y p1.x p1.y p2.x p2.y p3.x p3.y| |cubic_rootcoeffs_y_b p0.x p0.y p1.x p1.y p2.x p2.y p3.x p3.y|)
            |cubic_rootcoeffs_y_c p0.x p0.y p1.x p1.y p2.x p2.y p3.x p3.y|)
    (h0 : 0 ≤ t) (h1 : t ≤ 1)
    (hroot : ((cubic_rootcoeffs_y_d p0.x p0.y p1.x p1.y p2.x p2.y p3.x p3.y * t + cubic_rootcoeffs_y_a p0.x p0.y p1.x p1.y p2.x p2.y p3.x p3.y) * t
        + cubic_rootcoeffs_y_b p0.x p0.y p1.x p1.y p2.x p2.y p3.x p3.y) * t + cubic_rootcoeffs_y_c p0.x p0.y p1.x p1.y p2.x p2.y p3.x p3.y = 0) :
    t ∈ Inter.cubicRoots Real.sqrt p0 p1 p2 p3
        (cubic_cardano_roots Real.pi Real.sqrt Real.cos Real.arccos Real.rpow p0.x p0.y p1.x p1.y p2.x p2.y p3.x p3.y) := by
  rw [C05.cubicRoots_cardano _ _ _ _ _ _ hcode]
  exact C05.polishRoots_keeps_exact _ _ _ _ _ t (cubic_cardano_complete _ _ _ _ _ _ _ _ t hbig hroot) h0 h1 hroot


/-! ### the list handed on by the root finder: increasing, without repetition, exactly the roots in (0, 1) -/

/-- the values of the tree that survive a filter are pairwise different, provided no root that passes the filter is a multiple root -/
theorem cardanoTree_filter_nodup (a b c : ℝ) (p : ℝ → Bool)
    (hsimple : ∀ t, p t = true → t ^ 3 + a * t ^ 2 + b * t + c = 0 → 3 * t ^ 2 + 2 * a * t + b ≠ 0) :
    ((cardanoTree Real.pi Real.sqrt Real.cos Real.arccos Real.rpow a b c).filter p).Nodup := by
  unfold cardanoTree
  by_cases hd : Disc a b c < 0
  · rw [if_pos hd, if_neg (not_lt.mpr (Real.sqrt_nonneg _))]
    obtain ⟨r1, r2, r3, hlist, d01, d02, d12⟩ := trig_three a b c hd
    rw [hlist]
    apply List.Nodup.filter
    simp [d01, d02, d12]
  rw [if_neg hd]
  by_cases h0 : Disc a b c = 0
  · rw [if_pos h0]
    -- both sub-branches are `zero a u` with u³ = −q/2
    have key : ∀ u : ℝ, u ^ 3 = -(Q2 a b c) → ((zero a u).filter p).Nodup := by
      intro u hu
      unfold zero
      by_cases hu0 : u = 0
      · -- triple root −a/3: a multiple root, so it does not pass the filter
        subst hu0
        have hq : Q2 a b c = 0 := by linarith [hu, (by ring : (0:ℝ) ^ 3 = 0)]
        have hp3 : P3 a b = 0 := by
          have : P3 a b ^ 3 = 0 := by
            have e : P3 a b ^ 3 = P3 a b * P3 a b * P3 a b := by ring
            unfold Disc at h0; rw [hq] at h0; rw [e]; linarith
          exact pow_eq_zero_iff (by norm_num) |>.mp this
        have hroot : (2 * 0 - a / 3) ^ 3 + a * (2 * 0 - a / 3) ^ 2 + b * (2 * 0 - a / 3) + c = 0 := by
          have := depress' a b c 0
          rw [hp3, hq] at this
          simp only [mul_zero, zero_sub] at this ⊢
          rw [this]; ring
        have hder : 3 * (2 * 0 - a / 3) ^ 2 + 2 * a * (2 * 0 - a / 3) + b = 0 := by
          have : 3 * (2 * 0 - a / 3) ^ 2 + 2 * a * (2 * 0 - a / 3) + b = 3 * (3 * P3 a b) / 3 := by unfold P3; ring
          rw [this, hp3]; ring
        have hnp : p (2 * 0 - a / 3) = false := by
          by_contra hc
          exact hsimple _ (by simpa using hc) hroot hder
        have e2 : (-0 - a / 3 : ℝ) = 2 * 0 - a / 3 := by ring
        simp only [List.filter_cons, e2, hnp, List.filter_nil, Bool.false_eq_true, if_false]
        exact List.nodup_nil
      · apply List.Nodup.filter
        have : 2 * u - a / 3 ≠ -u - a / 3 := by
          intro h; apply hu0; linarith
        simp [this]
    by_cases hq : Q2 a b c < 0
    · rw [if_pos hq, if_neg (by linarith : ¬ -(Q2 a b c) < 0)]
      exact key _ (rpow_third_cube (by linarith))
    · rw [if_neg hq]
      apply key
      have := rpow_third_cube (x := Q2 a b c) (le_of_not_gt hq)
      have e : (-(Real.rpow (Q2 a b c) ((1 : ℝ) / 3))) ^ 3 = -((Real.rpow (Q2 a b c) ((1 : ℝ) / 3)) ^ 3) := by ring
      rw [e]; show -((Q2 a b c ^ ((1 : ℝ) / 3)) ^ 3) = _; rw [this]
  · rw [if_neg h0]
    split_ifs <;> (apply List.Nodup.filter; simp [one])

/-- **what `CubicBezier._findRoots('y')` returns in the Cardano branch is the increasing, repetition-free list of exactly the
    parameters in (0, 1) at which the y-polynomial vanishes** — provided every root in [0, 1] is simple and neither end is a root.
    This is the list `C11B.curve_hseg` calls `crossings`. -/
theorem cubic_root_list (p0 p1 p2 p3 : Pt ℝ)
    (hcode : cubic_findRoots_dispatch_v p0.x p0.y p1.x p1.y p2.x p2.y p3.x p3.y = 2)
    (hbig : ¬ |cubic_rootcoeffs_y_d p0.x p0.y p1.x p1.y p2.x p2.y p3.x p3.y| ≤ (1 : ℝ) / 1000000 *
          max (max |cubic_rootcoeffs_y_a p0.x p0.y p1.x p1.y p2.x p2.y p3.x p3.y| |cubic_rootcoeffs_y_b p0.x p0.y p1.x p1.y p2.x p2.y p3.x p3.y|)
            |cubic_rootcoeffs_y_c p0.x p0.y p1.x p1.y p2.x p2.y p3.x p3.y|)
    (hsimple : ∀ t, 0 ≤ t → t ≤ 1 →
      ((cubic_rootcoeffs_y_d p0.x p0.y p1.x p1.y p2.x p2.y p3.x p3.y * t + cubic_rootcoeffs_y_a p0.x p0.y p1.x p1.y p2.x p2.y p3.x p3.y) * t
        + cubic_rootcoeffs_y_b p0.x p0.y p1.x p1.y p2.x p2.y p3.x p3.y) * t + cubic_rootcoeffs_y_c p0.x p0.y p1.x p1.y p2.x p2.y p3.x p3.y = 0 →
      (3 * cubic_rootcoeffs_y_d p0.x p0.y p1.x p1.y p2.x p2.y p3.x p3.y * t + 2 * cubic_rootcoeffs_y_a p0.x p0.y p1.x p1.y p2.x p2.y p3.x p3.y) * t
        + cubic_rootcoeffs_y_b p0.x p0.y p1.x p1.y p2.x p2.y p3.x p3.y ≠ 0)
    (h0 : cubic_rootcoeffs_y_c p0.x p0.y p1.x p1.y p2.x p2.y p3.x p3.y ≠ 0)
    (h1 : cubic_rootcoeffs_y_d p0.x p0.y p1.x p1.y p2.x p2.y p3.x p3.y + cubic_rootcoeffs_y_a p0.x p0.y p1.x p1.y p2.x p2.y p3.x p3.y
        + cubic_rootcoeffs_y_b p0.x p0.y p1.x p1.y p2.x p2.y p3.x p3.y + cubic_rootcoeffs_y_c p0.x p0.y p1.x p1.y p2.x p2.y p3.x p3.y ≠ 0) :
    let L := Inter.curveLineT Real.sqrt (Seg.cubic p0 p1 p2 p3)
      (cubic_cardano_roots Real.pi Real.sqrt Real.cos Real.arccos Real.rpow p0.x p0.y p1.x p1.y p2.x p2.y p3.x p3.y)
    L.Pairwise (· < ·) ∧ (∀ t ∈ L, 0 < t ∧ t < 1) ∧
      ∀ t, 0 < t → t < 1 →
        ((((cubic_rootcoeffs_y_d p0.x p0.y p1.x p1.y p2.x p2.y p3.x p3.y * t + cubic_rootcoeffs_y_a p0.x p0.y p1.x p1.y p2.x p2.y p3.x p3.y) * t
          + cubic_rootcoeffs_y_b p0.x p0.y p1.x p1.y p2.x p2.y p3.x p3.y) * t + cubic_rootcoeffs_y_c p0.x p0.y p1.x p1.y p2.x p2.y p3.x p3.y = 0) ↔ t ∈ L) := by
  intro L
  set A := cubic_rootcoeffs_y_a p0.x p0.y p1.x p1.y p2.x p2.y p3.x p3.y with hA
  set B := cubic_rootcoeffs_y_b p0.x p0.y p1.x p1.y p2.x p2.y p3.x p3.y with hB
  set C := cubic_rootcoeffs_y_c p0.x p0.y p1.x p1.y p2.x p2.y p3.x p3.y with hC
  set D := cubic_rootcoeffs_y_d p0.x p0.y p1.x p1.y p2.x p2.y p3.x p3.y with hD
  set cd := cubic_cardano_roots Real.pi Real.sqrt Real.cos Real.arccos Real.rpow p0.x p0.y p1.x p1.y p2.x p2.y p3.x p3.y with hcd
  have hD0 : D ≠ 0 := by
    intro h; apply hbig; rw [h, abs_zero]; positivity
  have hL : L = Inter.sortK (Inter.cubicRoots Real.sqrt p0 p1 p2 p3 cd) := rfl
  have hmem : ∀ t, t ∈ L ↔ t ∈ Inter.cubicRoots Real.sqrt p0 p1 p2 p3 cd := fun t => by rw [hL, C05.mem_sortK]
  -- sound and complete
  have hsound : ∀ t ∈ L, (0 ≤ t ∧ t ≤ 1) ∧ ((D * t + A) * t + B) * t + C = 0 := fun t ht =>
    Cardano.cubicRoots_cardano_sound p0 p1 p2 p3 t hcode ((hmem t).mp ht)
  have hcomplete : ∀ t, 0 ≤ t → t ≤ 1 → ((D * t + A) * t + B) * t + C = 0 → t ∈ L := fun t a0 a1 hr =>
    (hmem t).mpr (cubicRoots_cardano_complete p0 p1 p2 p3 t hcode hbig a0 a1 hr)
  have hopen : ∀ t ∈ L, 0 < t ∧ t < 1 := by
    intro t ht
    obtain ⟨⟨a0, a1⟩, hr⟩ := hsound t ht
    constructor
    · apply lt_of_le_of_ne a0
      rintro rfl
      apply h0; simpa using hr
    · apply lt_of_le_of_ne a1
      rintro rfl
      apply h1; linarith [hr]
  refine ⟨?_, hopen, ?_⟩
  · -- strictly increasing = sorted + no repetition
    have hsorted : L.Pairwise (· ≤ ·) := by rw [hL]; exact C05.sortK_sorted _
    have hnodup : L.Nodup := by
      rw [hL, C05.cubicRoots_cardano _ _ _ _ _ _ hcode]
      unfold Inter.polishRoots Inter.sortK
      rw [List.Perm.nodup_iff (List.mergeSort_perm _ _), List.Perm.nodup_iff (List.mergeSort_perm _ _)]
      -- every closed-form value is an exact root, so polishing does not move it
      have hfix : cd.map (Inter.polish A B C D) = cd := by
        conv_rhs => rw [← List.map_id cd]
        apply List.map_congr_left
        intro x hx
        exact C05.polish_fix A B C D x (Cardano.cubic_cardano_sound _ _ _ _ _ _ _ _ x hx)
      rw [hfix, hcd, cubic_cardano_eq_tree, if_neg hbig]
      apply cardanoTree_filter_nodup
      intro t hp hr
      simp only [Bool.and_eq_true, decide_eq_true_eq] at hp
      have hr' : ((D * t + A) * t + B) * t + C = 0 := by
        have e : ((D * t + A) * t + B) * t + C = D * (t ^ 3 + A / D * t ^ 2 + B / D * t + C / D) := by field_simp
        rw [e, hr, mul_zero]
      have := hsimple t hp.1 hp.2 hr'
      intro hder
      apply this
      have e : (3 * D * t + 2 * A) * t + B = D * (3 * t ^ 2 + 2 * (A / D) * t + B / D) := by field_simp
      rw [e, hder, mul_zero]
    exact (List.pairwise_and_iff.mpr ⟨hsorted, hnodup⟩).imp (fun h => lt_of_le_of_ne h.1 h.2)
  · intro t t0 t1
    constructor
    · intro hr; exact hcomplete t (le_of_lt t0) (le_of_lt t1) hr
    · intro ht; exact (hsound t ht).2

end CardanoC
