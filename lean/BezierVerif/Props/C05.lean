/-
  C05 — line/line and curve/line intersections.
  Theorems about Gen/Inter.lean (`line_line`: the whole of Line.intersections(Line), regenerated from
  intersectionsmixin.py / line.py with tOfPoint calls kept as calls), Gen/Affine.lean
  (alignmentTransformation), Gen/Roots.lean (the solver and the coefficient extraction).
-/
import BezierVerif.Gen.Inter
import BezierVerif.Model.Inter
import Mathlib.Data.List.Sort
import BezierVerif.Gen.Eval
import BezierVerif.Props.Roots
import BezierVerif.Lemmas.Polar
import BezierVerif.Tactics

set_option linter.unusedSectionVars false
set_option linter.unusedVariables false
set_option linter.unusedTactic false
set_option linter.unnecessarySeqFocus false
set_option maxHeartbeats 4000000

namespace C05
open Gen

/-! ### line/line: every reported pair of parameters lies in the window the code implements -/

section window
variable {K : Type} [Field K] [LinearOrder K] [IsStrictOrderedRing K]

def Win (l : List K) : Prop :=
  ∀ t1 t2 : K, l = [t1, t2] → ((1 : K) / 5000000 ≤ t1 ∧ t1 ≤ (5000001 : K) / 5000000) ∧ ((1 : K) / 5000000 ≤ t2 ∧ t2 ≤ (5000001 : K) / 5000000)

theorem win_ite {c : Prop} [Decidable c] {a b : List K} (ha : c → Win a) (hb : ¬ c → Win b) :
    Win (if c then a else b) := by
  by_cases h : c
  · simp only [if_pos h]; exact ha h
  · simp only [if_neg h]; exact hb h

theorem win_nil : Win ([] : List K) := by
  intro t1 t2 h; exact absurd h.symm (List.cons_ne_nil _ _)

theorem win_pair {a b : K} (h1 : ¬ a < (1 : K) / 5000000) (h2 : ¬ a > (5000001 : K) / 5000000)
    (h3 : ¬ b < (1 : K) / 5000000) (h4 : ¬ b > (5000001 : K) / 5000000) : Win [a, b] := by
  intro t1 t2 h
  simp only [List.cons.injEq, and_true] at h
  obtain ⟨rfl, rfl⟩ := h
  exact ⟨⟨le_of_not_gt h1, le_of_not_gt h2⟩, ⟨le_of_not_gt h3, le_of_not_gt h4⟩⟩

def Len02 (l : List K) : Prop := l.length = 0 ∨ l.length = 2

theorem len_ite {c : Prop} [Decidable c] {a b : List K} (ha : Len02 a) (hb : Len02 b) :
    Len02 (if c then a else b) := by
  by_cases h : c
  · simp only [if_pos h]; exact ha
  · simp only [if_neg h]; exact hb

theorem line_line_win (p0x p0y p1x p1y q0x q0y q1x q1y : K) :
    Win (line_line p0x p0y p1x p1y q0x q0y q1x q1y) := by
  unfold line_line
  repeat' (first
    | exact win_nil
    | (refine win_ite (fun _ => ?_) (fun _ => ?_))
    | (apply win_pair <;> assumption))

/-- **window**: whatever branch is taken (vertical, horizontal, general), a reported intersection has both
    parameters in [2e-7, 1 + 2e-7] — in particular never outside the segments by more than the tolerance,
    and never at a segment's start.  (The property's "(0,1]" up to the 2e-7 tolerance.) -/
theorem line_line_window (p0x p0y p1x p1y q0x q0y q1x q1y t1 t2 : K)
    (h : line_line p0x p0y p1x p1y q0x q0y q1x q1y = [t1, t2]) :
    ((1 : K) / 5000000 ≤ t1 ∧ t1 ≤ (5000001 : K) / 5000000) ∧ ((1 : K) / 5000000 ≤ t2 ∧ t2 ≤ (5000001 : K) / 5000000) :=
  line_line_win p0x p0y p1x p1y q0x q0y q1x q1y t1 t2 h

/-- a reported intersection is a single pair -/
theorem line_line_at_most_one (p0x p0y p1x p1y q0x q0y q1x q1y : K) :
    (line_line p0x p0y p1x p1y q0x q0y q1x q1y).length = 0 ∨ (line_line p0x p0y p1x p1y q0x q0y q1x q1y).length = 2 := by
  show Len02 _
  unfold line_line
  repeat' (first
    | exact Or.inl rfl
    | exact Or.inr rfl
    | (refine len_ite ?_ ?_))
end window


/-! ### line/line soundness: the reported parameters name the same point on both lines -/

section sound
variable {K : Type} [Field K] [LinearOrder K] [IsStrictOrderedRing K]

theorem not_isclose_ne {a b r : K} (hr : 0 ≤ r) (h : ¬ isclose a b r 0) : a ≠ b := by
  intro hab
  apply h
  unfold isclose
  rw [hab, sub_self, abs_zero]
  exact le_max_of_le_right (le_refl _)

theorem isclose_comm (a b r t : K) : isclose a b r t ↔ isclose b a r t := by
  unfold isclose; rw [abs_sub_comm, max_comm |a| |b|]

theorem isclose_refl (a r : K) : isclose a a r 0 := by
  unfold isclose; rw [sub_self, abs_zero]; exact le_max_of_le_right (le_refl _)

/-- the two lines evaluated at the reported parameters coincide -/
def Snd (p0x p0y p1x p1y q0x q0y q1x q1y : K) (l : List K) : Prop :=
  ∀ t1 t2 : K, l = [t1, t2] →
    p0x + t1 * (p1x - p0x) = q0x + t2 * (q1x - q0x) ∧ p0y + t1 * (p1y - p0y) = q0y + t2 * (q1y - q0y)

theorem snd_ite {p0x p0y p1x p1y q0x q0y q1x q1y : K} {c : Prop} [Decidable c] {a b : List K}
    (ha : c → Snd p0x p0y p1x p1y q0x q0y q1x q1y a) (hb : ¬ c → Snd p0x p0y p1x p1y q0x q0y q1x q1y b) :
    Snd p0x p0y p1x p1y q0x q0y q1x q1y (if c then a else b) := by
  by_cases h : c
  · simp only [if_pos h]; exact ha h
  · simp only [if_neg h]; exact hb h

theorem snd_nil {p0x p0y p1x p1y q0x q0y q1x q1y : K} : Snd p0x p0y p1x p1y q0x q0y q1x q1y [] := by
  intro t1 t2 h; exact absurd h.symm (List.cons_ne_nil _ _)

theorem sworn_x {p0x p0y p1x p1y qx qy : K} (h : ¬ isclose p1x p0x ((1 : K) / 1000000000) 0) :
    line_tOfPoint_sworn_v p0x p0y p1x p1y qx qy = (qx - p0x) / (p1x - p0x) := by
  simp only [line_tOfPoint_sworn_v, line_tOfPoint_sworn, if_neg h, List.headD_cons]

/-- the general branch's answer: both lines non-vertical, slopes distinct -/
theorem snd_general_pair {p0x p0y p1x p1y q0x q0y q1x q1y : K}
    (hp : ¬ isclose p1x p0x ((1 : K) / 1000000000) 0) (hq0 : ¬ isclose q0x q1x ((1 : K) / 1000000000) 0)
    (hs : ¬ |(p1y - p0y) / (p1x - p0x) - (q1y - q0y) / (q1x - q0x)| < (1 : K) / 5000000) :
    Snd p0x p0y p1x p1y q0x q0y q1x q1y
      [line_tOfPoint_sworn_v p0x p0y p1x p1y
          ((((p1y - p0y) / (p1x - p0x) * p0x - p0y - (q1y - q0y) / (q1x - q0x) * q0x + q0y)) / ((p1y - p0y) / (p1x - p0x) - (q1y - q0y) / (q1x - q0x)))
          ((p1y - p0y) / (p1x - p0x) * ((((p1y - p0y) / (p1x - p0x) * p0x - p0y - (q1y - q0y) / (q1x - q0x) * q0x + q0y)) / ((p1y - p0y) / (p1x - p0x) - (q1y - q0y) / (q1x - q0x)) - p0x) + p0y),
       line_tOfPoint_sworn_v q0x q0y q1x q1y
          ((((p1y - p0y) / (p1x - p0x) * p0x - p0y - (q1y - q0y) / (q1x - q0x) * q0x + q0y)) / ((p1y - p0y) / (p1x - p0x) - (q1y - q0y) / (q1x - q0x)))
          ((p1y - p0y) / (p1x - p0x) * ((((p1y - p0y) / (p1x - p0x) * p0x - p0y - (q1y - q0y) / (q1x - q0x) * q0x + q0y)) / ((p1y - p0y) / (p1x - p0x) - (q1y - q0y) / (q1x - q0x)) - p0x) + p0y)] := by
  intro t1 t2 h
  simp only [List.cons.injEq, and_true] at h
  obtain ⟨rfl, rfl⟩ := h
  have hq : ¬ isclose q1x q0x ((1 : K) / 1000000000) 0 := by rwa [isclose_comm]
  rw [sworn_x hp, sworn_x hq]
  have hp' : p1x - p0x ≠ 0 := sub_ne_zero.mpr (not_isclose_ne (by norm_num) hp)
  have hq' : q1x - q0x ≠ 0 := sub_ne_zero.mpr (not_isclose_ne (by norm_num) hq)
  set s12 := (p1y - p0y) / (p1x - p0x) with h12
  set s34 := (q1y - q0y) / (q1x - q0x) with h34
  have e12 : p1y - p0y = s12 * (p1x - p0x) := by rw [h12]; field_simp
  have e34 : q1y - q0y = s34 * (q1x - q0x) := by rw [h34]; field_simp
  have hs' : s12 - s34 ≠ 0 := by
    intro h0; apply hs; rw [h0, abs_zero]; norm_num
  set v2 := (s12 * p0x - p0y - s34 * q0x + q0y) / (s12 - s34) with hv2
  have hv : v2 * (s12 - s34) = s12 * p0x - p0y - s34 * q0x + q0y := by rw [hv2]; field_simp
  constructor
  · rw [div_mul_cancel₀ _ hp', div_mul_cancel₀ _ hq']; ring
  · rw [e12, e34]
    have a1 : (v2 - p0x) / (p1x - p0x) * (s12 * (p1x - p0x)) = s12 * (v2 - p0x) := by field_simp
    have a2 : (v2 - q0x) / (q1x - q0x) * (s34 * (q1x - q0x)) = s34 * (v2 - q0x) := by field_simp
    rw [a1, a2]
    linear_combination hv

/-- a vertical first operand (exactly: p1x = p0x) against a non-vertical second one -/
theorem snd_vertical_p_pair {p0x p0y p1x p1y q0x q0y q1x q1y : K}
    (hpx : p1x = p0x) (hq0 : ¬ isclose q0x q1x ((1 : K) / 1000000000) 0)
    (hw : ¬ line_tOfPoint_sworn_v p0x p0y p1x p1y p0x ((q1y - q0y) / (q1x - q0x) * (p0x - q0x) + q0y) < (1 : K) / 5000000) :
    Snd p0x p0y p1x p1y q0x q0y q1x q1y
      [line_tOfPoint_sworn_v p0x p0y p1x p1y p0x ((q1y - q0y) / (q1x - q0x) * (p0x - q0x) + q0y),
       line_tOfPoint_sworn_v q0x q0y q1x q1y p0x ((q1y - q0y) / (q1x - q0x) * (p0x - q0x) + q0y)] := by
  intro t1 t2 h
  simp only [List.cons.injEq, and_true] at h
  obtain ⟨rfl, rfl⟩ := h
  have hq : ¬ isclose q1x q0x ((1 : K) / 1000000000) 0 := by rwa [isclose_comm]
  have hq' : q1x - q0x ≠ 0 := sub_ne_zero.mpr (not_isclose_ne (by norm_num) hq)
  rw [sworn_x hq]
  subst hpx
  have hic : isclose p1x p1x ((1 : K) / 1000000000) 0 := by
    unfold isclose; rw [sub_self, abs_zero]; exact le_max_of_le_right (le_refl _)
  simp only [line_tOfPoint_sworn_v, line_tOfPoint_sworn, if_pos hic] at hw ⊢
  by_cases hy : isclose p1y p0y ((1 : K) / 1000000000) 0
  · simp only [if_pos hy, List.headD_cons] at hw
    exact absurd (by norm_num : (-1 : K) < 1 / 5000000) hw
  · simp only [if_neg hy, List.headD_cons]
    have hy' : p1y - p0y ≠ 0 := sub_ne_zero.mpr (not_isclose_ne (by norm_num) hy)
    constructor
    · rw [div_mul_cancel₀ _ hq']; ring
    · rw [div_mul_cancel₀ _ hy']
      set s34 := (q1y - q0y) / (q1x - q0x) with h34
      have e34 : q1y - q0y = s34 * (q1x - q0x) := by rw [h34]; field_simp
      rw [e34]
      have a2 : (p1x - q0x) / (q1x - q0x) * (s34 * (q1x - q0x)) = s34 * (p1x - q0x) := by field_simp
      rw [a2]; ring

/-- a vertical second operand (exactly: q1x = q0x) against a non-vertical first one -/
theorem snd_vertical_q_pair {p0x p0y p1x p1y q0x q0y q1x q1y : K}
    (hqx : q1x = q0x) (hp : ¬ isclose p1x p0x ((1 : K) / 1000000000) 0)
    (hw : ¬ line_tOfPoint_sworn_v q0x q0y q1x q1y q0x ((p1y - p0y) / (p1x - p0x) * (q0x - p0x) + p0y) < (1 : K) / 5000000) :
    Snd p0x p0y p1x p1y q0x q0y q1x q1y
      [line_tOfPoint_sworn_v p0x p0y p1x p1y q0x ((p1y - p0y) / (p1x - p0x) * (q0x - p0x) + p0y),
       line_tOfPoint_sworn_v q0x q0y q1x q1y q0x ((p1y - p0y) / (p1x - p0x) * (q0x - p0x) + p0y)] := by
  intro t1 t2 h
  simp only [List.cons.injEq, and_true] at h
  obtain ⟨rfl, rfl⟩ := h
  have hp' : p1x - p0x ≠ 0 := sub_ne_zero.mpr (not_isclose_ne (by norm_num) hp)
  rw [sworn_x hp]
  subst hqx
  have hic : isclose q1x q1x ((1 : K) / 1000000000) 0 := isclose_refl _ _
  simp only [line_tOfPoint_sworn_v, line_tOfPoint_sworn, if_pos hic] at hw ⊢
  by_cases hy : isclose q1y q0y ((1 : K) / 1000000000) 0
  · simp only [if_pos hy, List.headD_cons] at hw
    exact absurd (by norm_num : (-1 : K) < 1 / 5000000) hw
  · simp only [if_neg hy, List.headD_cons]
    have hy' : q1y - q0y ≠ 0 := sub_ne_zero.mpr (not_isclose_ne (by norm_num) hy)
    constructor
    · rw [div_mul_cancel₀ _ hp']; ring
    · rw [div_mul_cancel₀ _ hy']
      set s12 := (p1y - p0y) / (p1x - p0x) with h12
      have e12 : p1y - p0y = s12 * (p1x - p0x) := by rw [h12]; field_simp
      rw [e12]
      have a2 : (q1x - p0x) / (p1x - p0x) * (s12 * (p1x - p0x)) = s12 * (q1x - p0x) := by field_simp
      rw [a2]; ring

/-- a branch whose guards contradict each other (isclose is symmetric) -/
theorem snd_absurd {p0x p0y p1x p1y q0x q0y q1x q1y : K} {l : List K} (a b : K)
    (h1 : ¬ isclose a b ((1 : K) / 1000000000) 0) (h2 : isclose b a ((1 : K) / 1000000000) 0) :
    Snd p0x p0y p1x p1y q0x q0y q1x q1y l :=
  absurd ((isclose_comm _ _ _ _).mp h2) h1

/-- **line/line soundness**: whenever `_line_line_intersections` reports a pair (t1, t2), the first line at t1 and the
    second line at t2 are the same point — for every pair of lines each of which is either exactly vertical or
    outside `isclose`'s verticality zone (in the zone the code places the point at x = start.x: error ≤ 1e-9 relative). -/
theorem line_line_sound (p0x p0y p1x p1y q0x q0y q1x q1y : K)
    (hp : isclose p1x p0x ((1 : K) / 1000000000) 0 → p1x = p0x)
    (hq : isclose q0x q1x ((1 : K) / 1000000000) 0 → q1x = q0x) :
    Snd p0x p0y p1x p1y q0x q0y q1x q1y (line_line p0x p0y p1x p1y q0x q0y q1x q1y) := by
  unfold line_line
  repeat' (first
    | exact snd_nil
    | (refine snd_ite (fun _ => ?_) (fun _ => ?_))
    | (exact snd_absurd p0x p1x ‹_› ‹_›)
    | (exact snd_general_pair ‹_› ‹_› ‹_›)
    | (exact snd_vertical_p_pair (hp ‹_›) ‹_› ‹_›)
    | (exact snd_vertical_q_pair (hq ‹_›) ‹_› ‹_›))


/-! non-vacuity: concrete runs of the regenerated definition (kernel evaluation at ℚ) -/
example : line_line (0 : ℚ) 0 2 2 0 2 2 0 = [1 / 2, 1 / 2] := by decide +kernel
example : line_line (1 : ℚ) (-1) 1 3 0 0 4 2 = [3 / 8, 1 / 4] := by decide +kernel      -- vertical first operand
example : line_line (0 : ℚ) 0 4 2 1 (-1) 1 3 = [1 / 4, 3 / 8] := by decide +kernel      -- vertical second operand
example : line_line (0 : ℚ) 0 1 1 0 1 1 2 = [] := by decide +kernel                      -- parallel

end sound

/-! ### the hand model of the dispatch, the curve/line loop and the range filter -/

section model
variable {K : Type} [Field K] [LinearOrder K] [IsStrictOrderedRing K]
open Inter

theorem within_iff (t : K) : within t = true ↔ (1 : K) / 5000000 ≤ t ∧ t ≤ (5000001 : K) / 5000000 := by
  simp [within, not_lt]

theorem mem_sortK (l : List K) (t : K) : t ∈ sortK l ↔ t ∈ l := by
  unfold sortK; exact List.mem_mergeSort

theorem sortK_sorted (l : List K) : (sortK l).Pairwise (· ≤ ·) := by
  unfold sortK
  have := List.pairwise_mergeSort (le := fun a b : K => decide (a ≤ b))
    (by intro a b c hab hbc; simp only [decide_eq_true_eq] at *; exact le_trans hab hbc)
    (by intro a b; simp only [Bool.or_eq_true, decide_eq_true_eq]; exact le_total a b) l
  simpa using this

theorem sortK_perm (l : List K) : (sortK l).Perm l := List.mergeSort_perm _ _

/-- **range filter**: every reported pair has both parameters inside the window -/
theorem curveLine_window (ts : List K) (c l : Seg K) (p : K × K) (h : p ∈ curveLine ts c l) :
    ((1 : K) / 5000000 ≤ p.1 ∧ p.1 ≤ (5000001 : K) / 5000000) ∧ ((1 : K) / 5000000 ≤ p.2 ∧ p.2 ≤ (5000001 : K) / 5000000) := by
  unfold curveLine at h
  rw [List.mem_filter] at h
  simp only [Bool.and_eq_true] at h
  exact ⟨(within_iff _).mp h.2.1, (within_iff _).mp h.2.2⟩

/-- **no root is dropped**: a root of the aligned polynomial whose two parameters pass the window is reported -/
theorem curveLine_complete (ts : List K) (c l : Seg K) (t : K) (ht : t ∈ ts) (h1 : within t = true)
    (h2 : within (tOfPointSworn l (c.eval t)) = true) :
    (t, tOfPointSworn l (c.eval t)) ∈ curveLine ts c l := by
  unfold curveLine
  rw [List.mem_filter]
  refine ⟨List.mem_map.mpr ⟨t, ht, rfl⟩, ?_⟩
  simp [h1, h2]

/-- **one report per root, in order**: the curve parameters reported are a sublist of the root list -/
theorem curveLine_sublist (ts : List K) (c l : Seg K) : ((curveLine ts c l).map Prod.fst).Sublist ts := by
  unfold curveLine
  induction ts with
  | nil => simp
  | cons t ts ih =>
    simp only [List.map_cons, List.filter_cons]
    split
    · simp only [List.map_cons]; exact ih.cons₂ t
    · exact ih.cons t

/-- a reported pair's second parameter is the line parameter of the curve's point at the first -/
theorem curveLine_pair (ts : List K) (c l : Seg K) (p : K × K) (h : p ∈ curveLine ts c l) :
    p.1 ∈ ts ∧ p.2 = tOfPointSworn l (c.eval p.1) := by
  unfold curveLine at h
  rw [List.mem_filter, List.mem_map] at h
  obtain ⟨⟨t, ht, rfl⟩, -⟩ := h
  exact ⟨ht, rfl⟩

/-- **whichever operand is the receiver**: a curve and a line give the same pairs in either order -/
theorem intersections_receiver (sqrt : K → K) (c l al : Seg K) (cd : List K) (hc : 2 < c.order) (hl : l.order = 2) :
    intersections sqrt c l al cd = intersections sqrt l c al cd := by
  unfold intersections
  have h1 : ¬ l.order > c.order := by omega
  have h2 : c.order > l.order := by omega
  simp only [h1, h2, if_true, if_false]

/-- line/line through the model: at most one pair, inside the window -/
theorem lineLine_window (a b c d : Pt K) (p : K × K) (h : p ∈ lineLine a b c d) :
    ((1 : K) / 5000000 ≤ p.1 ∧ p.1 ≤ (5000001 : K) / 5000000) ∧ ((1 : K) / 5000000 ≤ p.2 ∧ p.2 ≤ (5000001 : K) / 5000000) := by
  unfold lineLine at h
  split at h
  · rename_i t1 t2 heq
    split at h
    · simp only [List.mem_singleton] at h; subst h
      exact line_line_window _ _ _ _ _ _ _ _ _ _ heq
    · simp at h
  · simp at h

theorem lineLine_length (a b c d : Pt K) : (lineLine a b c d).length ≤ 1 := by
  unfold lineLine; split <;> (try split) <;> simp

/-! #### `_polishRoots` -/

/-- a Newton step leaves an exact root where it is -/
theorem polishStep_fix (a b c d t : K) (h : ((d * t + a) * t + b) * t + c = 0) : polishStep a b c d t = t := by
  unfold polishStep
  simp only [h, zero_div, sub_zero, ite_self]

theorem polish_fix (a b c d t : K) (h : ((d * t + a) * t + b) * t + c = 0) : polish a b c d t = t := by
  unfold polish
  simp only [polishStep_fix a b c d t h]

/-- the polished list lies in [0,1], ascending -/
theorem polishRoots_unit (roots : List K) (a b c d t : K) (h : t ∈ polishRoots roots a b c d) : 0 ≤ t ∧ t ≤ 1 := by
  unfold polishRoots at h
  rw [mem_sortK, List.mem_filter] at h
  simpa using h.2

theorem polishRoots_sorted (roots : List K) (a b c d : K) : (polishRoots roots a b c d).Pairwise (· ≤ ·) :=
  sortK_sorted _

/-- exact roots in [0,1] among the closed-form candidates survive polishing -/
theorem polishRoots_keeps_exact (roots : List K) (a b c d t : K) (ht : t ∈ roots) (h0 : 0 ≤ t) (h1 : t ≤ 1)
    (h : ((d * t + a) * t + b) * t + c = 0) : t ∈ polishRoots roots a b c d := by
  unfold polishRoots
  rw [mem_sortK, List.mem_filter]
  refine ⟨List.mem_map.mpr ⟨t, ht, polish_fix a b c d t h⟩, ?_⟩
  simp [h0, h1]

/-- **degenerate cubic**: when the cubic coefficient of the aligned y-polynomial is zero the roots are
    exactly what the quadratic solver returns for the remaining coefficients (the pinned code returned []) -/
theorem cubicRoots_d_zero (sqrt : K → K) (p0 p1 p2 p3 : Pt K) (cd : List K)
    (hd : cubic_rootcoeffs_y_d p0.x p0.y p1.x p1.y p2.x p2.y p3.x p3.y = 0) :
    cubicRoots sqrt p0 p1 p2 p3 cd =
      sortK (quadraticRoots sqrt (cubic_rootcoeffs_y_a p0.x p0.y p1.x p1.y p2.x p2.y p3.x p3.y)
        (cubic_rootcoeffs_y_b p0.x p0.y p1.x p1.y p2.x p2.y p3.x p3.y) (cubic_rootcoeffs_y_c p0.x p0.y p1.x p1.y p2.x p2.y p3.x p3.y)) := by
  have hcode : cubic_findRoots_dispatch_v p0.x p0.y p1.x p1.y p2.x p2.y p3.x p3.y = 0 := by
    simp only [cubic_rootcoeffs_y_d] at hd
    simp only [cubic_findRoots_dispatch_v, cubic_findRoots_dispatch, hd, abs_zero, if_true]
    rw [if_pos]
    · rfl
    · positivity
  unfold cubicRoots
  simp only [hcode, if_true]

/-- a non-negligible cubic coefficient sends the closed-form candidates through the polish -/
theorem cubicRoots_cardano (sqrt : K → K) (p0 p1 p2 p3 : Pt K) (cd : List K)
    (h : cubic_findRoots_dispatch_v p0.x p0.y p1.x p1.y p2.x p2.y p3.x p3.y = 2) :
    cubicRoots sqrt p0 p1 p2 p3 cd =
      polishRoots cd (cubic_rootcoeffs_y_a p0.x p0.y p1.x p1.y p2.x p2.y p3.x p3.y) (cubic_rootcoeffs_y_b p0.x p0.y p1.x p1.y p2.x p2.y p3.x p3.y)
        (cubic_rootcoeffs_y_c p0.x p0.y p1.x p1.y p2.x p2.y p3.x p3.y) (cubic_rootcoeffs_y_d p0.x p0.y p1.x p1.y p2.x p2.y p3.x p3.y) := by
  unfold cubicRoots
  simp only [h]
  norm_num

/-- the dispatch code is 0, 1 or 2, and it is 2 only when d ≠ 0 -/
theorem dispatch_codes (p0x p0y p1x p1y p2x p2y p3x p3y : K) :
    (cubic_findRoots_dispatch_v p0x p0y p1x p1y p2x p2y p3x p3y = 0 ∧ cubic_rootcoeffs_y_d p0x p0y p1x p1y p2x p2y p3x p3y = 0) ∨
    (cubic_findRoots_dispatch_v p0x p0y p1x p1y p2x p2y p3x p3y = 1 ∧ cubic_rootcoeffs_y_d p0x p0y p1x p1y p2x p2y p3x p3y ≠ 0) ∨
    (cubic_findRoots_dispatch_v p0x p0y p1x p1y p2x p2y p3x p3y = 2 ∧ cubic_rootcoeffs_y_d p0x p0y p1x p1y p2x p2y p3x p3y ≠ 0) := by
  simp only [cubic_findRoots_dispatch_v, cubic_findRoots_dispatch, cubic_rootcoeffs_y_d]
  split_ifs with h1 h2
  · left; exact ⟨rfl, h2⟩
  · right; left; exact ⟨rfl, h2⟩
  · right; right
    refine ⟨rfl, ?_⟩
    intro h0
    apply h1
    rw [h0, abs_zero]
    positivity

/-- the coefficients the cubic solver extracts are the power basis of the y-coordinate -/
theorem cubic_rootcoeffs_spec (p0x p0y p1x p1y p2x p2y p3x p3y t : K) :
    ((cubic_rootcoeffs_y_d p0x p0y p1x p1y p2x p2y p3x p3y * t + cubic_rootcoeffs_y_a p0x p0y p1x p1y p2x p2y p3x p3y) * t
        + cubic_rootcoeffs_y_b p0x p0y p1x p1y p2x p2y p3x p3y) * t + cubic_rootcoeffs_y_c p0x p0y p1x p1y p2x p2y p3x p3y
      = cubic_pointAtTime_y p0x p0y p1x p1y p2x p2y p3x p3y t := by
  simp only [gen_def]; ring

theorem quad_rootcoeffs_spec (p0x p0y p1x p1y p2x p2y t : K) :
    quad_rootcoeffs_y_a p0x p0y p1x p1y p2x p2y * t * t + quad_rootcoeffs_y_b p0x p0y p1x p1y p2x p2y * t
        + quad_rootcoeffs_y_c p0x p0y p1x p1y p2x p2y
      = quad_pointAtTime_y p0x p0y p1x p1y p2x p2y t := by
  simp only [gen_def]; ring

/-- evaluation commutes with the affine map (y-coordinate), for every matrix -/
theorem quad_transformed_eval_y (p0x p0y p1x p1y p2x p2y m00 m01 m02 m10 m11 m12 m20 m21 m22 t : K) :
    quad_pointAtTime_y (quad_transformed_q0x p0x p0y p1x p1y p2x p2y m00 m01 m02 m10 m11 m12 m20 m21 m22)
      (quad_transformed_q0y p0x p0y p1x p1y p2x p2y m00 m01 m02 m10 m11 m12 m20 m21 m22)
      (quad_transformed_q1x p0x p0y p1x p1y p2x p2y m00 m01 m02 m10 m11 m12 m20 m21 m22)
      (quad_transformed_q1y p0x p0y p1x p1y p2x p2y m00 m01 m02 m10 m11 m12 m20 m21 m22)
      (quad_transformed_q2x p0x p0y p1x p1y p2x p2y m00 m01 m02 m10 m11 m12 m20 m21 m22)
      (quad_transformed_q2y p0x p0y p1x p1y p2x p2y m00 m01 m02 m10 m11 m12 m20 m21 m22) t
    = m10 * quad_pointAtTime_x p0x p0y p1x p1y p2x p2y t + m11 * quad_pointAtTime_y p0x p0y p1x p1y p2x p2y t + m12 := by
  simp only [gen_def]; ring

theorem cubic_transformed_eval_y (p0x p0y p1x p1y p2x p2y p3x p3y m00 m01 m02 m10 m11 m12 m20 m21 m22 t : K) :
    cubic_pointAtTime_y (cubic_transformed_q0x p0x p0y p1x p1y p2x p2y p3x p3y m00 m01 m02 m10 m11 m12 m20 m21 m22)
      (cubic_transformed_q0y p0x p0y p1x p1y p2x p2y p3x p3y m00 m01 m02 m10 m11 m12 m20 m21 m22)
      (cubic_transformed_q1x p0x p0y p1x p1y p2x p2y p3x p3y m00 m01 m02 m10 m11 m12 m20 m21 m22)
      (cubic_transformed_q1y p0x p0y p1x p1y p2x p2y p3x p3y m00 m01 m02 m10 m11 m12 m20 m21 m22)
      (cubic_transformed_q2x p0x p0y p1x p1y p2x p2y p3x p3y m00 m01 m02 m10 m11 m12 m20 m21 m22)
      (cubic_transformed_q2y p0x p0y p1x p1y p2x p2y p3x p3y m00 m01 m02 m10 m11 m12 m20 m21 m22)
      (cubic_transformed_q3x p0x p0y p1x p1y p2x p2y p3x p3y m00 m01 m02 m10 m11 m12 m20 m21 m22)
      (cubic_transformed_q3y p0x p0y p1x p1y p2x p2y p3x p3y m00 m01 m02 m10 m11 m12 m20 m21 m22) t
    = m10 * cubic_pointAtTime_x p0x p0y p1x p1y p2x p2y p3x p3y t + m11 * cubic_pointAtTime_y p0x p0y p1x p1y p2x p2y p3x p3y t + m12 := by
  simp only [gen_def]; ring
end model

/-! ### curve/line: the alignment reduces "on the line's carrier" to "y = 0" -/

theorem atan2_args (sx sy ex ey : ℝ) :
    (0 * ex + 1 * ey + sy * (-1) = ey - sy) ∧ (1 * ex + 0 * ey + sx * (-1) = ex - sx) := by
  constructor <;> ring

/-- **alignment**: the y-coordinate of the aligned image of p is the signed distance of p from the line's
    carrier: cross((e − s), (p − s)) / ‖e − s‖.  So it vanishes exactly on the carrier. -/
theorem aligned_y_eq_cross (sx sy ex ey px py : ℝ) (hne : ex - sx ≠ 0 ∨ ey - sy ≠ 0) :
    alignmentTransformation_m10 Real.cos Real.sin Polar.atan2 sx sy ex ey * px
      + alignmentTransformation_m11 Real.cos Real.sin Polar.atan2 sx sy ex ey * py
      + alignmentTransformation_m12 Real.cos Real.sin Polar.atan2 sx sy ex ey
    = ((ex - sx) * (py - sy) - (ey - sy) * (px - sx)) / Real.sqrt ((ex - sx) * (ex - sx) + (ey - sy) * (ey - sy)) := by
  simp only [gen_def]
  rw [(atan2_args sx sy ex ey).1, (atan2_args sx sy ex ey).2]
  have hv : -(Polar.atan2 (ey - sy) (ex - sx) * -1) = Polar.atan2 (ey - sy) (ex - sx) := by ring
  rw [hv, Polar.cos_atan2 _ _ hne, Polar.sin_atan2 _ _ hne]
  have h0 := Polar.sqrt_ss_ne_zero _ _ hne
  field_simp
  ring

theorem aligned_y_zero_iff (sx sy ex ey px py : ℝ) (hne : ex - sx ≠ 0 ∨ ey - sy ≠ 0) :
    alignmentTransformation_m10 Real.cos Real.sin Polar.atan2 sx sy ex ey * px
      + alignmentTransformation_m11 Real.cos Real.sin Polar.atan2 sx sy ex ey * py
      + alignmentTransformation_m12 Real.cos Real.sin Polar.atan2 sx sy ex ey = 0
    ↔ (ex - sx) * (py - sy) - (ey - sy) * (px - sx) = 0 := by
  rw [aligned_y_eq_cross _ _ _ _ _ _ hne]
  have h0 := Polar.sqrt_ss_ne_zero _ _ hne
  constructor
  · intro h; exact (div_eq_zero_iff.mp h).resolve_right h0
  · intro h; rw [h]; simp

/-- the alignment sends the line's start to the origin and its end onto the non-negative x-axis at the
    chord's length (C09's last sentence) -/
theorem aligned_ends (sx sy ex ey : ℝ) (hne : ex - sx ≠ 0 ∨ ey - sy ≠ 0) :
    point_transformed sx sy (alignmentTransformation_m00 Real.cos Real.sin Polar.atan2 sx sy ex ey)
      (alignmentTransformation_m01 Real.cos Real.sin Polar.atan2 sx sy ex ey) (alignmentTransformation_m02 Real.cos Real.sin Polar.atan2 sx sy ex ey)
      (alignmentTransformation_m10 Real.cos Real.sin Polar.atan2 sx sy ex ey) (alignmentTransformation_m11 Real.cos Real.sin Polar.atan2 sx sy ex ey)
      (alignmentTransformation_m12 Real.cos Real.sin Polar.atan2 sx sy ex ey) 0 0 1 = [0, 0] ∧
    point_transformed ex ey (alignmentTransformation_m00 Real.cos Real.sin Polar.atan2 sx sy ex ey)
      (alignmentTransformation_m01 Real.cos Real.sin Polar.atan2 sx sy ex ey) (alignmentTransformation_m02 Real.cos Real.sin Polar.atan2 sx sy ex ey)
      (alignmentTransformation_m10 Real.cos Real.sin Polar.atan2 sx sy ex ey) (alignmentTransformation_m11 Real.cos Real.sin Polar.atan2 sx sy ex ey)
      (alignmentTransformation_m12 Real.cos Real.sin Polar.atan2 sx sy ex ey) 0 0 1
      = [Real.sqrt ((ex - sx) * (ex - sx) + (ey - sy) * (ey - sy)), 0] := by
  have h0 := Polar.sqrt_ss_ne_zero _ _ hne
  have hnn : (0 : ℝ) ≤ (ex - sx) * (ex - sx) + (ey - sy) * (ey - sy) := add_nonneg (mul_self_nonneg _) (mul_self_nonneg _)
  have hs := Real.mul_self_sqrt hnn
  simp only [gen_def, List.cons.injEq, and_true]
  rw [(atan2_args sx sy ex ey).1, (atan2_args sx sy ex ey).2]
  have hv : -(Polar.atan2 (ey - sy) (ex - sx) * -1) = Polar.atan2 (ey - sy) (ex - sx) := by ring
  rw [hv, Polar.cos_atan2 _ _ hne, Polar.sin_atan2 _ _ hne]
  set n := Real.sqrt ((ex - sx) * (ex - sx) + (ey - sy) * (ey - sy)) with hn
  refine ⟨⟨?_, ?_⟩, ⟨?_, ?_⟩⟩
  · field_simp; ring
  · field_simp; ring
  · have e : ((ex - sx) / n * 1 + (ey - sy) / n * 0 + 0) * ex + ((ex - sx) / n * 0 + (ey - sy) / n * 1 + 0) * ey
        + ((ex - sx) / n * (sx * -1) + (ey - sy) / n * (sy * -1) + 0)
        = ((ex - sx) * (ex - sx) + (ey - sy) * (ey - sy)) / n := by field_simp; ring
    rw [e, ← hs]; field_simp
  · field_simp; ring

/-! ### the whole quadratic/line and degenerate-cubic/line chains over ℝ -/

section chain
open Inter

/-- the quadratic after `line.alignmentTransformation()` — the regenerated rotation entries applied by the
    regenerated `transformed` -/
noncomputable def alignedQuad (sx sy ex ey : ℝ) (q0 q1 q2 : Pt ℝ) : Seg ℝ :=
  Seg.quad ⟨(quad_transformed_q0x q0.x q0.y q1.x q1.y q2.x q2.y (alignmentTransformation_m00 Real.cos Real.sin Polar.atan2 sx sy ex ey) (alignmentTransformation_m01 Real.cos Real.sin Polar.atan2 sx sy ex ey) (alignmentTransformation_m02 Real.cos Real.sin Polar.atan2 sx sy ex ey) (alignmentTransformation_m10 Real.cos Real.sin Polar.atan2 sx sy ex ey) (alignmentTransformation_m11 Real.cos Real.sin Polar.atan2 sx sy ex ey) (alignmentTransformation_m12 Real.cos Real.sin Polar.atan2 sx sy ex ey) (alignmentTransformation_m20 Real.cos Real.sin Polar.atan2 sx sy ex ey) (alignmentTransformation_m21 Real.cos Real.sin Polar.atan2 sx sy ex ey) (alignmentTransformation_m22 Real.cos Real.sin Polar.atan2 sx sy ex ey)), (quad_transformed_q0y q0.x q0.y q1.x q1.y q2.x q2.y (alignmentTransformation_m00 Real.cos Real.sin Polar.atan2 sx sy ex ey) (alignmentTransformation_m01 Real.cos Real.sin Polar.atan2 sx sy ex ey) (alignmentTransformation_m02 Real.cos Real.sin Polar.atan2 sx sy ex ey) (alignmentTransformation_m10 Real.cos Real.sin Polar.atan2 sx sy ex ey) (alignmentTransformation_m11 Real.cos Real.sin Polar.atan2 sx sy ex ey) (alignmentTransformation_m12 Real.cos Real.sin Polar.atan2 sx sy ex ey) (alignmentTransformation_m20 Real.cos Real.sin Polar.atan2 sx sy ex ey) (alignmentTransformation_m21 Real.cos Real.sin Polar.atan2 sx sy ex ey) (alignmentTransformation_m22 Real.cos Real.sin Polar.atan2 sx sy ex ey))⟩ ⟨(quad_transformed_q1x q0.x q0.y q1.x q1.y q2.x q2.y (alignmentTransformation_m00 Real.cos Real.sin Polar.atan2 sx sy ex ey) (alignmentTransformation_m01 Real.cos Real.sin Polar.atan2 sx sy ex ey) (alignmentTransformation_m02 Real.cos Real.sin Polar.atan2 sx sy ex ey) (alignmentTransformation_m10 Real.cos Real.sin Polar.atan2 sx sy ex ey) (alignmentTransformation_m11 Real.cos Real.sin Polar.atan2 sx sy ex ey) (alignmentTransformation_m12 Real.cos Real.sin Polar.atan2 sx sy ex ey) (alignmentTransformation_m20 Real.cos Real.sin Polar.atan2 sx sy ex ey) (alignmentTransformation_m21 Real.cos Real.sin Polar.atan2 sx sy ex ey) (alignmentTransformation_m22 Real.cos Real.sin Polar.atan2 sx sy ex ey)), (quad_transformed_q1y q0.x q0.y q1.x q1.y q2.x q2.y (alignmentTransformation_m00 Real.cos Real.sin Polar.atan2 sx sy ex ey) (alignmentTransformation_m01 Real.cos Real.sin Polar.atan2 sx sy ex ey) (alignmentTransformation_m02 Real.cos Real.sin Polar.atan2 sx sy ex ey) (alignmentTransformation_m10 Real.cos Real.sin Polar.atan2 sx sy ex ey) (alignmentTransformation_m11 Real.cos Real.sin Polar.atan2 sx sy ex ey) (alignmentTransformation_m12 Real.cos Real.sin Polar.atan2 sx sy ex ey) (alignmentTransformation_m20 Real.cos Real.sin Polar.atan2 sx sy ex ey) (alignmentTransformation_m21 Real.cos Real.sin Polar.atan2 sx sy ex ey) (alignmentTransformation_m22 Real.cos Real.sin Polar.atan2 sx sy ex ey))⟩ ⟨(quad_transformed_q2x q0.x q0.y q1.x q1.y q2.x q2.y (alignmentTransformation_m00 Real.cos Real.sin Polar.atan2 sx sy ex ey) (alignmentTransformation_m01 Real.cos Real.sin Polar.atan2 sx sy ex ey) (alignmentTransformation_m02 Real.cos Real.sin Polar.atan2 sx sy ex ey) (alignmentTransformation_m10 Real.cos Real.sin Polar.atan2 sx sy ex ey) (alignmentTransformation_m11 Real.cos Real.sin Polar.atan2 sx sy ex ey) (alignmentTransformation_m12 Real.cos Real.sin Polar.atan2 sx sy ex ey) (alignmentTransformation_m20 Real.cos Real.sin Polar.atan2 sx sy ex ey) (alignmentTransformation_m21 Real.cos Real.sin Polar.atan2 sx sy ex ey) (alignmentTransformation_m22 Real.cos Real.sin Polar.atan2 sx sy ex ey)), (quad_transformed_q2y q0.x q0.y q1.x q1.y q2.x q2.y (alignmentTransformation_m00 Real.cos Real.sin Polar.atan2 sx sy ex ey) (alignmentTransformation_m01 Real.cos Real.sin Polar.atan2 sx sy ex ey) (alignmentTransformation_m02 Real.cos Real.sin Polar.atan2 sx sy ex ey) (alignmentTransformation_m10 Real.cos Real.sin Polar.atan2 sx sy ex ey) (alignmentTransformation_m11 Real.cos Real.sin Polar.atan2 sx sy ex ey) (alignmentTransformation_m12 Real.cos Real.sin Polar.atan2 sx sy ex ey) (alignmentTransformation_m20 Real.cos Real.sin Polar.atan2 sx sy ex ey) (alignmentTransformation_m21 Real.cos Real.sin Polar.atan2 sx sy ex ey) (alignmentTransformation_m22 Real.cos Real.sin Polar.atan2 sx sy ex ey))⟩

noncomputable def alignedCubic (sx sy ex ey : ℝ) (q0 q1 q2 q3 : Pt ℝ) : Seg ℝ :=
  Seg.cubic ⟨(cubic_transformed_q0x q0.x q0.y q1.x q1.y q2.x q2.y q3.x q3.y (alignmentTransformation_m00 Real.cos Real.sin Polar.atan2 sx sy ex ey) (alignmentTransformation_m01 Real.cos Real.sin Polar.atan2 sx sy ex ey) (alignmentTransformation_m02 Real.cos Real.sin Polar.atan2 sx sy ex ey) (alignmentTransformation_m10 Real.cos Real.sin Polar.atan2 sx sy ex ey) (alignmentTransformation_m11 Real.cos Real.sin Polar.atan2 sx sy ex ey) (alignmentTransformation_m12 Real.cos Real.sin Polar.atan2 sx sy ex ey) (alignmentTransformation_m20 Real.cos Real.sin Polar.atan2 sx sy ex ey) (alignmentTransformation_m21 Real.cos Real.sin Polar.atan2 sx sy ex ey) (alignmentTransformation_m22 Real.cos Real.sin Polar.atan2 sx sy ex ey)), (cubic_transformed_q0y q0.x q0.y q1.x q1.y q2.x q2.y q3.x q3.y (alignmentTransformation_m00 Real.cos Real.sin Polar.atan2 sx sy ex ey) (alignmentTransformation_m01 Real.cos Real.sin Polar.atan2 sx sy ex ey) (alignmentTransformation_m02 Real.cos Real.sin Polar.atan2 sx sy ex ey) (alignmentTransformation_m10 Real.cos Real.sin Polar.atan2 sx sy ex ey) (alignmentTransformation_m11 Real.cos Real.sin Polar.atan2 sx sy ex ey) (alignmentTransformation_m12 Real.cos Real.sin Polar.atan2 sx sy ex ey) (alignmentTransformation_m20 Real.cos Real.sin Polar.atan2 sx sy ex ey) (alignmentTransformation_m21 Real.cos Real.sin Polar.atan2 sx sy ex ey) (alignmentTransformation_m22 Real.cos Real.sin Polar.atan2 sx sy ex ey))⟩ ⟨(cubic_transformed_q1x q0.x q0.y q1.x q1.y q2.x q2.y q3.x q3.y (alignmentTransformation_m00 Real.cos Real.sin Polar.atan2 sx sy ex ey) (alignmentTransformation_m01 Real.cos Real.sin Polar.atan2 sx sy ex ey) (alignmentTransformation_m02 Real.cos Real.sin Polar.atan2 sx sy ex ey) (alignmentTransformation_m10 Real.cos Real.sin Polar.atan2 sx sy ex ey) (alignmentTransformation_m11 Real.cos Real.sin Polar.atan2 sx sy ex ey) (alignmentTransformation_m12 Real.cos Real.sin Polar.atan2 sx sy ex ey) (alignmentTransformation_m20 Real.cos Real.sin Polar.atan2 sx sy ex ey) (alignmentTransformation_m21 Real.cos Real.sin Polar.atan2 sx sy ex ey) (alignmentTransformation_m22 Real.cos Real.sin Polar.atan2 sx sy ex ey)), (cubic_transformed_q1y q0.x q0.y q1.x q1.y q2.x q2.y q3.x q3.y (alignmentTransformation_m00 Real.cos Real.sin Polar.atan2 sx sy ex ey) (alignmentTransformation_m01 Real.cos Real.sin Polar.atan2 sx sy ex ey) (alignmentTransformation_m02 Real.cos Real.sin Polar.atan2 sx sy ex ey) (alignmentTransformation_m10 Real.cos Real.sin Polar.atan2 sx sy ex ey) (alignmentTransformation_m11 Real.cos Real.sin Polar.atan2 sx sy ex ey) (alignmentTransformation_m12 Real.cos Real.sin Polar.atan2 sx sy ex ey) (alignmentTransformation_m20 Real.cos Real.sin Polar.atan2 sx sy ex ey) (alignmentTransformation_m21 Real.cos Real.sin Polar.atan2 sx sy ex ey) (alignmentTransformation_m22 Real.cos Real.sin Polar.atan2 sx sy ex ey))⟩ ⟨(cubic_transformed_q2x q0.x q0.y q1.x q1.y q2.x q2.y q3.x q3.y (alignmentTransformation_m00 Real.cos Real.sin Polar.atan2 sx sy ex ey) (alignmentTransformation_m01 Real.cos Real.sin Polar.atan2 sx sy ex ey) (alignmentTransformation_m02 Real.cos Real.sin Polar.atan2 sx sy ex ey) (alignmentTransformation_m10 Real.cos Real.sin Polar.atan2 sx sy ex ey) (alignmentTransformation_m11 Real.cos Real.sin Polar.atan2 sx sy ex ey) (alignmentTransformation_m12 Real.cos Real.sin Polar.atan2 sx sy ex ey) (alignmentTransformation_m20 Real.cos Real.sin Polar.atan2 sx sy ex ey) (alignmentTransformation_m21 Real.cos Real.sin Polar.atan2 sx sy ex ey) (alignmentTransformation_m22 Real.cos Real.sin Polar.atan2 sx sy ex ey)), (cubic_transformed_q2y q0.x q0.y q1.x q1.y q2.x q2.y q3.x q3.y (alignmentTransformation_m00 Real.cos Real.sin Polar.atan2 sx sy ex ey) (alignmentTransformation_m01 Real.cos Real.sin Polar.atan2 sx sy ex ey) (alignmentTransformation_m02 Real.cos Real.sin Polar.atan2 sx sy ex ey) (alignmentTransformation_m10 Real.cos Real.sin Polar.atan2 sx sy ex ey) (alignmentTransformation_m11 Real.cos Real.sin Polar.atan2 sx sy ex ey) (alignmentTransformation_m12 Real.cos Real.sin Polar.atan2 sx sy ex ey) (alignmentTransformation_m20 Real.cos Real.sin Polar.atan2 sx sy ex ey) (alignmentTransformation_m21 Real.cos Real.sin Polar.atan2 sx sy ex ey) (alignmentTransformation_m22 Real.cos Real.sin Polar.atan2 sx sy ex ey))⟩ ⟨(cubic_transformed_q3x q0.x q0.y q1.x q1.y q2.x q2.y q3.x q3.y (alignmentTransformation_m00 Real.cos Real.sin Polar.atan2 sx sy ex ey) (alignmentTransformation_m01 Real.cos Real.sin Polar.atan2 sx sy ex ey) (alignmentTransformation_m02 Real.cos Real.sin Polar.atan2 sx sy ex ey) (alignmentTransformation_m10 Real.cos Real.sin Polar.atan2 sx sy ex ey) (alignmentTransformation_m11 Real.cos Real.sin Polar.atan2 sx sy ex ey) (alignmentTransformation_m12 Real.cos Real.sin Polar.atan2 sx sy ex ey) (alignmentTransformation_m20 Real.cos Real.sin Polar.atan2 sx sy ex ey) (alignmentTransformation_m21 Real.cos Real.sin Polar.atan2 sx sy ex ey) (alignmentTransformation_m22 Real.cos Real.sin Polar.atan2 sx sy ex ey)), (cubic_transformed_q3y q0.x q0.y q1.x q1.y q2.x q2.y q3.x q3.y (alignmentTransformation_m00 Real.cos Real.sin Polar.atan2 sx sy ex ey) (alignmentTransformation_m01 Real.cos Real.sin Polar.atan2 sx sy ex ey) (alignmentTransformation_m02 Real.cos Real.sin Polar.atan2 sx sy ex ey) (alignmentTransformation_m10 Real.cos Real.sin Polar.atan2 sx sy ex ey) (alignmentTransformation_m11 Real.cos Real.sin Polar.atan2 sx sy ex ey) (alignmentTransformation_m12 Real.cos Real.sin Polar.atan2 sx sy ex ey) (alignmentTransformation_m20 Real.cos Real.sin Polar.atan2 sx sy ex ey) (alignmentTransformation_m21 Real.cos Real.sin Polar.atan2 sx sy ex ey) (alignmentTransformation_m22 Real.cos Real.sin Polar.atan2 sx sy ex ey))⟩

/-- signed area form: zero exactly when p is on the carrier of the line s–e -/
def cross (sx sy ex ey px py : ℝ) : ℝ := (ex - sx) * (py - sy) - (ey - sy) * (px - sx)

/-- the y-polynomial of the aligned quadratic vanishes at t iff the curve's point at t is on the carrier -/
theorem alignedQuad_y_zero_iff (sx sy ex ey : ℝ) (q0 q1 q2 : Pt ℝ) (hne : ex - sx ≠ 0 ∨ ey - sy ≠ 0) (t : ℝ) :
    (match alignedQuad sx sy ex ey q0 q1 q2 with
      | Seg.quad a b c => quad_rootcoeffs_y_a a.x a.y b.x b.y c.x c.y * t * t + quad_rootcoeffs_y_b a.x a.y b.x b.y c.x c.y * t
          + quad_rootcoeffs_y_c a.x a.y b.x b.y c.x c.y
      | _ => 1) = 0
    ↔ cross sx sy ex ey (quad_pointAtTime_x q0.x q0.y q1.x q1.y q2.x q2.y t) (quad_pointAtTime_y q0.x q0.y q1.x q1.y q2.x q2.y t) = 0 := by
  unfold alignedQuad cross
  simp only []
  rw [quad_rootcoeffs_spec, quad_transformed_eval_y, aligned_y_zero_iff _ _ _ _ _ _ hne]

/-- **quadratic / line, soundness and completeness of the root list** (ℝ, real sqrt/cos/sin/atan2): the sorted list
    `_curve_line_intersections_t` produces for a quadratic holds exactly the parameters in [0,1] at which the
    curve meets the line's carrier — provided the aligned y-polynomial is a genuine quadratic with two distinct
    roots or a genuine linear polynomial (the solver's own case split, `quadraticRoots_mem_iff`). -/
theorem quad_line_roots_iff (sx sy ex ey : ℝ) (q0 q1 q2 : Pt ℝ) (hne : ex - sx ≠ 0 ∨ ey - sy ≠ 0) (t : ℝ) (cd : List ℝ) :
    t ∈ curveLineT Real.sqrt (alignedQuad sx sy ex ey q0 q1 q2) cd ↔
      (0 ≤ t ∧ t ≤ 1) ∧
      cross sx sy ex ey (quad_pointAtTime_x q0.x q0.y q1.x q1.y q2.x q2.y t) (quad_pointAtTime_y q0.x q0.y q1.x q1.y q2.x q2.y t) = 0 ∧
      (match alignedQuad sx sy ex ey q0 q1 q2 with
        | Seg.quad a b c =>
          (quad_rootcoeffs_y_a a.x a.y b.x b.y c.x c.y = 0 ∧ quad_rootcoeffs_y_b a.x a.y b.x b.y c.x c.y ≠ 0) ∨
          (quad_rootcoeffs_y_a a.x a.y b.x b.y c.x c.y ≠ 0 ∧
            quad_rootcoeffs_y_b a.x a.y b.x b.y c.x c.y * quad_rootcoeffs_y_b a.x a.y b.x b.y c.x c.y
              - 4 * quad_rootcoeffs_y_a a.x a.y b.x b.y c.x c.y * quad_rootcoeffs_y_c a.x a.y b.x b.y c.x c.y > 0)
        | _ => False) := by
  have key := alignedQuad_y_zero_iff sx sy ex ey q0 q1 q2 hne t
  unfold alignedQuad at key ⊢
  simp only [] at key
  simp only [curveLineT, mem_sortK, quadRoots, Roots.quadraticRoots_mem_iff]
  rw [key]

/-- **every reported quadratic/line intersection is a true meeting point of curve and carrier, with both
    parameters in the window** -/
theorem quad_line_sound (sx sy ex ey : ℝ) (q0 q1 q2 : Pt ℝ) (hne : ex - sx ≠ 0 ∨ ey - sy ≠ 0) (p : ℝ × ℝ)
    (h : p ∈ intersections Real.sqrt (Seg.quad q0 q1 q2) (Seg.line ⟨sx, sy⟩ ⟨ex, ey⟩) (alignedQuad sx sy ex ey q0 q1 q2) []) :
    cross sx sy ex ey (quad_pointAtTime_x q0.x q0.y q1.x q1.y q2.x q2.y p.1) (quad_pointAtTime_y q0.x q0.y q1.x q1.y q2.x q2.y p.1) = 0 ∧
    ((1 : ℝ) / 5000000 ≤ p.1 ∧ p.1 ≤ 1) ∧ ((1 : ℝ) / 5000000 ≤ p.2 ∧ p.2 ≤ (5000001 : ℝ) / 5000000) := by
  have h' : p ∈ curveLine (curveLineT Real.sqrt (alignedQuad sx sy ex ey q0 q1 q2) []) (Seg.quad q0 q1 q2) (Seg.line ⟨sx, sy⟩ ⟨ex, ey⟩) := by
    simpa [intersections, Seg.order, Seg.points] using h
  have hw := curveLine_window _ _ _ _ h'
  have hp := (curveLine_pair _ _ _ _ h').1
  have hr := (quad_line_roots_iff sx sy ex ey q0 q1 q2 hne p.1 []).mp hp
  exact ⟨hr.2.1, ⟨hw.1.1, hr.1.2⟩, hw.2⟩

/-- **degenerate cubic / line** (what the pinned code got wrong): when the aligned y-polynomial has no cubic term,
    the root list holds exactly the roots in [0,1] of the remaining quadratic — which *is* the aligned
    y-coordinate, so exactly the parameters at which the curve meets the carrier. -/
theorem cubic_line_degenerate_roots_iff (sx sy ex ey : ℝ) (q0 q1 q2 q3 : Pt ℝ) (hne : ex - sx ≠ 0 ∨ ey - sy ≠ 0) (t : ℝ) (cd : List ℝ)
    (a b c : ℝ)
    (hd : (match alignedCubic sx sy ex ey q0 q1 q2 q3 with
      | Seg.cubic p0 p1 p2 p3 => cubic_rootcoeffs_y_d p0.x p0.y p1.x p1.y p2.x p2.y p3.x p3.y = 0 ∧
          a = cubic_rootcoeffs_y_a p0.x p0.y p1.x p1.y p2.x p2.y p3.x p3.y ∧ b = cubic_rootcoeffs_y_b p0.x p0.y p1.x p1.y p2.x p2.y p3.x p3.y ∧
          c = cubic_rootcoeffs_y_c p0.x p0.y p1.x p1.y p2.x p2.y p3.x p3.y
      | _ => False)) :
    t ∈ curveLineT Real.sqrt (alignedCubic sx sy ex ey q0 q1 q2 q3) cd ↔
      (0 ≤ t ∧ t ≤ 1) ∧
      cross sx sy ex ey (cubic_pointAtTime_x q0.x q0.y q1.x q1.y q2.x q2.y q3.x q3.y t) (cubic_pointAtTime_y q0.x q0.y q1.x q1.y q2.x q2.y q3.x q3.y t) = 0 ∧
      ((a = 0 ∧ b ≠ 0) ∨ (a ≠ 0 ∧ b * b - 4 * a * c > 0)) := by
  unfold alignedCubic at hd ⊢
  simp only [] at hd
  obtain ⟨hd0, ha, hb, hc⟩ := hd
  simp only [curveLineT, mem_sortK]
  rw [cubicRoots_d_zero _ _ _ _ _ _ hd0, mem_sortK, Roots.quadraticRoots_mem_iff, ← ha, ← hb, ← hc]
  have hpoly : a * t * t + b * t + c = 0 ↔
      cross sx sy ex ey (cubic_pointAtTime_x q0.x q0.y q1.x q1.y q2.x q2.y q3.x q3.y t) (cubic_pointAtTime_y q0.x q0.y q1.x q1.y q2.x q2.y q3.x q3.y t) = 0 := by
    have hs := cubic_rootcoeffs_spec (cubic_transformed_q0x q0.x q0.y q1.x q1.y q2.x q2.y q3.x q3.y (alignmentTransformation_m00 Real.cos Real.sin Polar.atan2 sx sy ex ey) (alignmentTransformation_m01 Real.cos Real.sin Polar.atan2 sx sy ex ey) (alignmentTransformation_m02 Real.cos Real.sin Polar.atan2 sx sy ex ey) (alignmentTransformation_m10 Real.cos Real.sin Polar.atan2 sx sy ex ey) (alignmentTransformation_m11 Real.cos Real.sin Polar.atan2 sx sy ex ey) (alignmentTransformation_m12 Real.cos Real.sin Polar.atan2 sx sy ex ey) (alignmentTransformation_m20 Real.cos Real.sin Polar.atan2 sx sy ex ey) (alignmentTransformation_m21 Real.cos Real.sin Polar.atan2 sx sy ex ey) (alignmentTransformation_m22 Real.cos Real.sin Polar.atan2 sx sy ex ey)) (cubic_transformed_q0y q0.x q0.y q1.x q1.y q2.x q2.y q3.x q3.y (alignmentTransformation_m00 Real.cos Real.sin Polar.atan2 sx sy ex ey) (alignmentTransformation_m01 Real.cos Real.sin Polar.atan2 sx sy ex ey) (alignmentTransformation_m02 Real.cos Real.sin Polar.atan2 sx sy ex ey) (alignmentTransformation_m10 Real.cos Real.sin Polar.atan2 sx sy ex ey) (alignmentTransformation_m11 Real.cos Real.sin Polar.atan2 sx sy ex ey) (alignmentTransformation_m12 Real.cos Real.sin Polar.atan2 sx sy ex ey) (alignmentTransformation_m20 Real.cos Real.sin Polar.atan2 sx sy ex ey) (alignmentTransformation_m21 Real.cos Real.sin Polar.atan2 sx sy ex ey) (alignmentTransformation_m22 Real.cos Real.sin Polar.atan2 sx sy ex ey)) (cubic_transformed_q1x q0.x q0.y q1.x q1.y q2.x q2.y q3.x q3.y (alignmentTransformation_m00 Real.cos Real.sin Polar.atan2 sx sy ex ey) (alignmentTransformation_m01 Real.cos Real.sin Polar.atan2 sx sy ex ey) (alignmentTransformation_m02 Real.cos Real.sin Polar.atan2 sx sy ex ey) (alignmentTransformation_m10 Real.cos Real.sin Polar.atan2 sx sy ex ey) (alignmentTransformation_m11 Real.cos Real.sin Polar.atan2 sx sy ex ey) (alignmentTransformation_m12 Real.cos Real.sin Polar.atan2 sx sy ex ey) (alignmentTransformation_m20 Real.cos Real.sin Polar.atan2 sx sy ex ey) (alignmentTransformation_m21 Real.cos Real.sin Polar.atan2 sx sy ex ey) (alignmentTransformation_m22 Real.cos Real.sin Polar.atan2 sx sy ex ey)) (cubic_transformed_q1y q0.x q0.y q1.x q1.y q2.x q2.y q3.x q3.y (alignmentTransformation_m00 Real.cos Real.sin Polar.atan2 sx sy ex ey) (alignmentTransformation_m01 Real.cos Real.sin Polar.atan2 sx sy ex ey) (alignmentTransformation_m02 Real.cos Real.sin Polar.atan2 sx sy ex ey) (alignmentTransformation_m10 Real.cos Real.sin Polar.atan2 sx sy ex ey) (alignmentTransformation_m11 Real.cos Real.sin Polar.atan2 sx sy ex ey) (alignmentTransformation_m12 Real.cos Real.sin Polar.atan2 sx sy ex ey) (alignmentTransformation_m20 Real.cos Real.sin Polar.atan2 sx sy ex ey) (alignmentTransformation_m21 Real.cos Real.sin Polar.atan2 sx sy ex ey) (alignmentTransformation_m22 Real.cos Real.sin Polar.atan2 sx sy ex ey)) (cubic_transformed_q2x q0.x q0.y q1.x q1.y q2.x q2.y q3.x q3.y (alignmentTransformation_m00 Real.cos Real.sin Polar.atan2 sx sy ex ey) (alignmentTransformation_m01 Real.cos Real.sin Polar.atan2 sx sy ex ey) (alignmentTransformation_m02 Real.cos Real.sin Polar.atan2 sx sy ex ey) (alignmentTransformation_m10 Real.cos Real.sin Polar.atan2 sx sy ex ey) (alignmentTransformation_m11 Real.cos Real.sin Polar.atan2 sx sy ex ey) (alignmentTransformation_m12 Real.cos Real.sin Polar.atan2 sx sy ex ey) (alignmentTransformation_m20 Real.cos Real.sin Polar.atan2 sx sy ex ey) (alignmentTransformation_m21 Real.cos Real.sin Polar.atan2 sx sy ex ey) (alignmentTransformation_m22 Real.cos Real.sin Polar.atan2 sx sy ex ey)) (cubic_transformed_q2y q0.x q0.y q1.x q1.y q2.x q2.y q3.x q3.y (alignmentTransformation_m00 Real.cos Real.sin Polar.atan2 sx sy ex ey) (alignmentTransformation_m01 Real.cos Real.sin Polar.atan2 sx sy ex ey) (alignmentTransformation_m02 Real.cos Real.sin Polar.atan2 sx sy ex ey) (alignmentTransformation_m10 Real.cos Real.sin Polar.atan2 sx sy ex ey) (alignmentTransformation_m11 Real.cos Real.sin Polar.atan2 sx sy ex ey) (alignmentTransformation_m12 Real.cos Real.sin Polar.atan2 sx sy ex ey) (alignmentTransformation_m20 Real.cos Real.sin Polar.atan2 sx sy ex ey) (alignmentTransformation_m21 Real.cos Real.sin Polar.atan2 sx sy ex ey) (alignmentTransformation_m22 Real.cos Real.sin Polar.atan2 sx sy ex ey)) (cubic_transformed_q3x q0.x q0.y q1.x q1.y q2.x q2.y q3.x q3.y (alignmentTransformation_m00 Real.cos Real.sin Polar.atan2 sx sy ex ey) (alignmentTransformation_m01 Real.cos Real.sin Polar.atan2 sx sy ex ey) (alignmentTransformation_m02 Real.cos Real.sin Polar.atan2 sx sy ex ey) (alignmentTransformation_m10 Real.cos Real.sin Polar.atan2 sx sy ex ey) (alignmentTransformation_m11 Real.cos Real.sin Polar.atan2 sx sy ex ey) (alignmentTransformation_m12 Real.cos Real.sin Polar.atan2 sx sy ex ey) (alignmentTransformation_m20 Real.cos Real.sin Polar.atan2 sx sy ex ey) (alignmentTransformation_m21 Real.cos Real.sin Polar.atan2 sx sy ex ey) (alignmentTransformation_m22 Real.cos Real.sin Polar.atan2 sx sy ex ey)) (cubic_transformed_q3y q0.x q0.y q1.x q1.y q2.x q2.y q3.x q3.y (alignmentTransformation_m00 Real.cos Real.sin Polar.atan2 sx sy ex ey) (alignmentTransformation_m01 Real.cos Real.sin Polar.atan2 sx sy ex ey) (alignmentTransformation_m02 Real.cos Real.sin Polar.atan2 sx sy ex ey) (alignmentTransformation_m10 Real.cos Real.sin Polar.atan2 sx sy ex ey) (alignmentTransformation_m11 Real.cos Real.sin Polar.atan2 sx sy ex ey) (alignmentTransformation_m12 Real.cos Real.sin Polar.atan2 sx sy ex ey) (alignmentTransformation_m20 Real.cos Real.sin Polar.atan2 sx sy ex ey) (alignmentTransformation_m21 Real.cos Real.sin Polar.atan2 sx sy ex ey) (alignmentTransformation_m22 Real.cos Real.sin Polar.atan2 sx sy ex ey)) t
    rw [hd0, ← ha, ← hb, ← hc, cubic_transformed_eval_y] at hs
    unfold cross
    rw [← aligned_y_zero_iff _ _ _ _ _ _ hne, ← hs]
    constructor <;> (intro h; linarith)
  rw [hpoly]
end chain

end C05
