/-
  C05 / C11 — the regenerated `Line.intersections(Line)` decision tree (131 paths) equals a readable model that
  follows the source's structure; consequences: completeness of line/line, and the ray crossing rule used by
  the winding number.
-/
import BezierVerif.Gen.Inter
import BezierVerif.Tactics

set_option linter.unusedSectionVars false
set_option linter.unusedVariables false
set_option linter.unusedTactic false
set_option linter.unnecessarySeqFocus false
set_option maxHeartbeats 4000000

namespace C05M
open Gen
variable {K : Type} [Field K] [LinearOrder K] [IsStrictOrderedRing K]

/-- the `limited` filter on a single candidate pair, in the order the source tests -/
def winFilter (t1 t2 : K) : List K :=
  if t1 < (1 : K) / 5000000 then [] else if t1 > (5000001 : K) / 5000000 then []
  else if t2 < (1 : K) / 5000000 then [] else if t2 > (5000001 : K) / 5000000 then [] else [t1, t2]

/-- `_line_line_intersections` + the `limited` filter, following the source line by line -/
def llModel (p0x p0y p1x p1y q0x q0y q1x q1y : K) : List K :=
  if isclose q0x q1x ((1 : K) / 1000000000) 0 ∧ isclose p0x p1x ((1 : K) / 1000000000) 0 then []
  else if isclose q0y q1y ((1 : K) / 1000000000) 0 ∧ isclose p0y p1y ((1 : K) / 1000000000) 0 then []
  else if (isclose q0x q1x ((1 : K) / 1000000000) 0 ∧ isclose q0y q1y ((1 : K) / 1000000000) 0) ∨
          (isclose p0x p1x ((1 : K) / 1000000000) 0 ∧ isclose p0y p1y ((1 : K) / 1000000000) 0) then []
  else if isclose p1x p0x ((1 : K) / 1000000000) 0 then
    winFilter (line_tOfPoint_sworn_v p0x p0y p1x p1y p0x ((q1y - q0y) / (q1x - q0x) * (p0x - q0x) + q0y))
      (line_tOfPoint_sworn_v q0x q0y q1x q1y p0x ((q1y - q0y) / (q1x - q0x) * (p0x - q0x) + q0y))
  else if isclose q0x q1x ((1 : K) / 1000000000) 0 then
    winFilter (line_tOfPoint_sworn_v p0x p0y p1x p1y q0x ((p1y - p0y) / (p1x - p0x) * (q0x - p0x) + p0y))
      (line_tOfPoint_sworn_v q0x q0y q1x q1y q0x ((p1y - p0y) / (p1x - p0x) * (q0x - p0x) + p0y))
  else if |(p1y - p0y) / (p1x - p0x) - (q1y - q0y) / (q1x - q0x)| < (1 : K) / 5000000 then []
  else
    let x := ((p1y - p0y) / (p1x - p0x) * p0x - p0y - (q1y - q0y) / (q1x - q0x) * q0x + q0y) / ((p1y - p0y) / (p1x - p0x) - (q1y - q0y) / (q1x - q0x))
    let y := (p1y - p0y) / (p1x - p0x) * (x - p0x) + p0y
    if ((x - p0x) * (p1x - p0x) ≤ 0 ∧ (y - p0y) * (p1y - p0y) ≤ 0) then []
    else if ((x - q1x) * (q0x - q1x) ≤ 0 ∧ (y - q1y) * (q0y - q1y) ≤ 0) then []
    else winFilter (line_tOfPoint_sworn_v p0x p0y p1x p1y x y) (line_tOfPoint_sworn_v q0x q0y q1x q1y x y)

theorem eq_ite {α : Type} {c : Prop} [Decidable c] {a b m : α} (ha : c → a = m) (hb : ¬ c → b = m) :
    (if c then a else b) = m := by
  by_cases h : c
  · simp only [if_pos h]; exact ha h
  · simp only [if_neg h]; exact hb h

/-- **the 131-path decision tree is the source's algorithm** -/
theorem line_line_eq_model (p0x p0y p1x p1y q0x q0y q1x q1y : K) :
    line_line p0x p0y p1x p1y q0x q0y q1x q1y = llModel p0x p0y p1x p1y q0x q0y q1x q1y := by
  unfold line_line
  repeat' (first
    | (refine eq_ite (fun _ => ?_) (fun _ => ?_))
    | (simp only [llModel, winFilter, *, if_true, if_false, and_true, true_and, and_false, false_and, or_false, false_or, or_true, true_or,
        not_true_eq_false, not_false_eq_true, and_self, or_self]; done))

theorem isclose_self (a r : K) : isclose a a r 0 := by
  unfold isclose; rw [sub_self, abs_zero]; exact le_max_of_le_right (le_refl _)

/-- **the ray crossing test of the winding number is the line/line code**: the regenerated
    `Line(p0,p1).intersections(Line((lx,py),(px,py)))` (62 paths) is the regenerated general line/line tree at a
    horizontal second operand, hence the readable model -/
theorem ray_line_eq_model (p0x p0y p1x p1y lx px py : K) :
    ray_line p0x p0y p1x p1y lx px py = llModel p0x p0y p1x p1y lx py px py := by
  have hs : isclose py py ((1 : K) / 1000000000) 0 := isclose_self _ _
  unfold ray_line
  repeat' (first
    | (refine eq_ite (fun _ => ?_) (fun _ => ?_))
    | (simp only [llModel, winFilter, hs, *, if_true, if_false, and_true, true_and, and_false, false_and, or_false, false_or, or_true, true_or,
        not_true_eq_false, not_false_eq_true, and_self, or_self]; done))

end C05M
