/-
  C11, second clause for paths with curved segments: the signed crossings of a level by a segment telescope to the change of side
  of its end points (`Parity.signed_simple_roots`), each ray keeps exactly the crossings on its side of the query point
  (`ray_keep_iff`), so for a closed path in clear position all of whose level crossings lie on one side of the query point the
  winding number is 0 (`winding_zero_one_side`), in particular outside the bounding box (`winding_zero_outside_box_mixed`).
-/
import BezierVerif.Props.C11Q
open Set Filter Topology

namespace Parity


/-- side of a value: 0 below, 1 above -/
noncomputable def sd (v : ℝ) : Int := if v < 0 then 0 else 1
/-- sign of a slope as the winding code takes it -/
noncomputable def sg (d : ℝ) : Int := if d < 0 then -1 else 1

/-- one step: past a simple root r (the first zero after a) there is a point m before the next zero / b at which f has the sign of
    f′(r), while f(a) has the opposite sign -/
theorem step_simple_root (f f' : ℝ → ℝ) (hd : ∀ x, HasDerivAt f (f' x) x) (a r ub : ℝ) (har : a < r) (hrub : r < ub)
    (hno : ∀ x, a < x → x < r → f x ≠ 0) (hfr : f r = 0) (hsimple : f' r ≠ 0) (ha : f a ≠ 0) :
    ∃ m, r < m ∧ m < ub ∧ f m ≠ 0 ∧ f a * f' r < 0 ∧ 0 < f m * f' r := by
  have hc : Continuous f := continuous_iff_continuousAt.mpr fun x => (hd x).continuousAt
  obtain ⟨δ, hδ, hnear⟩ := sign_near_simple_root f (f' r) r (hd r) hfr hsimple
  set xl := r - min δ (r - a) / 2 with hxl
  have hmin1 : 0 < min δ (r - a) := lt_min hδ (by linarith)
  have hxl1 : a < xl := by
    have : min δ (r - a) ≤ r - a := min_le_right _ _
    rw [hxl]; linarith
  have hxl2 : xl < r := by rw [hxl]; linarith
  have hxl3 : |xl - r| < δ := by
    have : min δ (r - a) ≤ δ := min_le_left _ _
    rw [hxl, abs_lt]; constructor <;> linarith
  have hl := hnear xl (ne_of_lt hxl2) hxl3
  have hfxl : f xl ≠ 0 := by
    intro h0; rw [h0, zero_mul] at hl; exact lt_irrefl _ hl
  have hsl := same_sign_of_no_root f hc a xl (le_of_lt hxl1) (fun x h1 h2 => hno x h1 (by linarith)) ha hfxl
  set m := r + min δ (ub - r) / 2 with hm
  have hmin2 : 0 < min δ (ub - r) := lt_min hδ (by linarith)
  have hm1 : r < m := by rw [hm]; linarith
  have hm2 : m < ub := by
    have : min δ (ub - r) ≤ ub - r := min_le_right _ _
    rw [hm]; linarith
  have hm3 : |m - r| < δ := by
    have : min δ (ub - r) ≤ δ := min_le_left _ _
    rw [hm, abs_lt]; constructor <;> linarith
  have hr' := hnear m (ne_of_gt hm1) hm3
  have hfm : f m ≠ 0 := by
    intro h0; rw [h0, zero_mul] at hr'; exact lt_irrefl _ hr'
  have h1 : f xl * f' r < 0 := by
    have : f xl * (f' r * (xl - r)) = (f xl * f' r) * (xl - r) := by ring
    rw [this] at hl
    by_contra hcon; push Not at hcon
    have : (f xl * f' r) * (xl - r) ≤ 0 := mul_nonpos_of_nonneg_of_nonpos hcon (by linarith)
    linarith
  have h2 : 0 < f m * f' r := by
    have : f m * (f' r * (m - r)) = (f m * f' r) * (m - r) := by ring
    rw [this] at hr'
    by_contra hcon; push Not at hcon
    have : (f m * f' r) * (m - r) ≤ 0 := mul_nonpos_of_nonpos_of_nonneg hcon (by linarith)
    linarith
  refine ⟨m, hm1, hm2, hfm, ?_, h2⟩
  -- f a has the sign of f xl
  have e : (f a * f' r) * (f xl * f xl) = (f a * f xl) * (f xl * f' r) := by ring
  have hsq : 0 < f xl * f xl := mul_self_pos.mpr hfxl
  have : (f a * f xl) * (f xl * f' r) < 0 := mul_neg_of_pos_of_neg hsl h1
  rw [← e] at this
  by_contra hcon; push Not at hcon
  have := mul_nonneg hcon (le_of_lt hsq)
  linarith

/-- **the signed crossings of a level telescope**: the sum over the simple roots in (a, b) of the sign of the slope is the change of
    side between a and b -/
theorem signed_simple_roots (f f' : ℝ → ℝ) (hd : ∀ x, HasDerivAt f (f' x) x) :
    ∀ (roots : List ℝ) (a b : ℝ), a < b → roots.Pairwise (· < ·) → (∀ r ∈ roots, a < r ∧ r < b) →
      (∀ x, a < x → x < b → (f x = 0 ↔ x ∈ roots)) → (∀ r ∈ roots, f' r ≠ 0) → f a ≠ 0 → f b ≠ 0 →
      (roots.map fun r => sg (f' r)).sum = sd (f b) - sd (f a) := by
  have hc : Continuous f := continuous_iff_continuousAt.mpr fun x => (hd x).continuousAt
  intro roots
  induction roots with
  | nil =>
    intro a b hab _ _ hroots _ ha hb
    have := same_sign_of_no_root f hc a b (le_of_lt hab) (fun x h1 h2 hz => by simpa using (hroots x h1 h2).mp hz) ha hb
    simp only [List.map_nil, List.sum_nil, sd]
    rcases lt_or_gt_of_ne ha with ha' | ha' <;> rcases lt_or_gt_of_ne hb with hb' | hb'
    · simp [ha', hb']
    · exfalso; have := mul_neg_of_neg_of_pos ha' hb'; linarith
    · exfalso; have := mul_neg_of_pos_of_neg ha' hb'; linarith
    · simp [not_lt.mpr (le_of_lt ha'), not_lt.mpr (le_of_lt hb')]
  | cons r rs ih =>
    intro a b hab hsorted hin hroots hsimple ha hb
    rw [List.pairwise_cons] at hsorted
    obtain ⟨hr_lt, hrs_sorted⟩ := hsorted
    obtain ⟨har, hrb⟩ := hin r (by simp)
    have hfr : f r = 0 := (hroots r har hrb).mpr (by simp)
    set ub := rs.head?.getD b with hub
    have hub1 : r < ub := by
      cases rs with
      | nil => simpa [hub] using hrb
      | cons s ss => simpa [hub] using hr_lt s (by simp)
    have hub2 : ub ≤ b := by
      cases rs with
      | nil => simp [hub]
      | cons s ss => simpa [hub] using le_of_lt (hin s (by simp)).2
    have hub3 : ∀ s ∈ rs, ub ≤ s := by
      intro s hs
      cases rs with
      | nil => simp at hs
      | cons t ts =>
        simp only [hub, List.head?_cons, Option.getD_some]
        rcases List.mem_cons.mp hs with rfl | hs'
        · exact le_refl _
        · exact le_of_lt ((List.pairwise_cons.mp hrs_sorted).1 s hs')
    have hno_left : ∀ x, a < x → x < r → f x ≠ 0 := by
      intro x h1 h2 hz
      have hx := (hroots x h1 (by linarith)).mp hz
      rcases List.mem_cons.mp hx with rfl | hx
      · linarith
      · have := hr_lt x hx; linarith
    obtain ⟨m, hm1, hm2, hfm, hopp, hsame⟩ := step_simple_root f f' hd a r ub har hub1 hno_left hfr (hsimple r (by simp)) ha
    have hmb : m < b := lt_of_lt_of_le hm2 hub2
    have ih' := ih m b hmb hrs_sorted
      (fun s hs => ⟨lt_of_lt_of_le hm2 (hub3 s hs), (hin s (List.mem_cons_of_mem _ hs)).2⟩)
      (fun x h1 h2 => by
        constructor
        · intro hz
          have hx := (hroots x (by linarith) h2).mp hz
          rcases List.mem_cons.mp hx with rfl | hx
          · linarith
          · exact hx
        · intro hx
          exact (hroots x (by linarith) h2).mpr (List.mem_cons_of_mem _ hx))
      (fun s hs => hsimple s (List.mem_cons_of_mem _ hs)) hfm hb
    simp only [List.map_cons, List.sum_cons, ih']
    -- sg (f' r) = sd (f m) - sd (f a)
    have hstep : sg (f' r) = sd (f m) - sd (f a) := by
      simp only [sg, sd]
      rcases lt_or_gt_of_ne (hsimple r (by simp)) with hneg | hpos
      · have h1 : 0 < f a := by
          by_contra hcon; push Not at hcon
          have := mul_nonneg_of_nonpos_of_nonpos hcon (le_of_lt hneg); linarith
        have h2 : f m < 0 := by
          by_contra hcon; push Not at hcon
          have := mul_nonpos_of_nonneg_of_nonpos hcon (le_of_lt hneg); linarith
        simp [hneg, h2, not_lt.mpr (le_of_lt h1)]
      · have h1 : f a < 0 := by
          by_contra hcon; push Not at hcon
          have := mul_nonneg hcon (le_of_lt hpos); linarith
        have h2 : 0 < f m := by
          by_contra hcon; push Not at hcon
          have := mul_nonpos_of_nonpos_of_nonneg hcon (le_of_lt hpos); linarith
        simp [not_lt.mpr (le_of_lt hpos), h1, not_lt.mpr (le_of_lt h2)]
    rw [hstep]; ring

end Parity

namespace C11B
open Gen C05M Winding Inter Roots

theorem dY_eq_dYpoly (s : Seg ℝ) (t : ℝ) : dY s t = dYpoly s t := by
  cases s with
  | line a b => simp only [dY, dYpoly, C02E.dcoeffs]; ring
  | quad a b c => simp only [dY, dYpoly, C02E.dcoeffs, gen_def]; ring
  | cubic a b c d => simp only [dY, dYpoly, C02E.dcoeffs, gen_def]; ring

theorem tanSign_simple (s : Seg ℝ) (t : ℝ) (h : dYpoly s t ≠ 0) : tanSign s t = Parity.sg (dYpoly s t) := by
  unfold tanSign Parity.sg
  rw [dY_eq_dYpoly, if_neg h]

/-- **the signed level crossings of a segment telescope**: the tangent signs at its (simple) crossings add up to the change of
    side between its end points -/
theorem signed_crossings (s : Seg ℝ) (py : ℝ) (crossings : List ℝ)
    (hsorted : crossings.Pairwise (· < ·)) (hin : ∀ t ∈ crossings, 0 < t ∧ t < 1)
    (hall : ∀ t, 0 < t → t < 1 → ((s.eval t).y = py ↔ t ∈ crossings))
    (hsimple : ∀ t ∈ crossings, dYpoly s t ≠ 0) (h0 : s.start.y ≠ py) (h1 : s.end.y ≠ py) :
    (crossings.map (tanSign s)).sum = side py s.end - side py s.start := by
  have hd : ∀ x, HasDerivAt (fun t => (s.eval t).y - py) (dYpoly s x) x := fun x => (C02E.hasDeriv_y s x).sub_const py
  have e0 : (s.eval 0).y = s.start.y := by rw [Seg.eval_zero]
  have e1 : (s.eval 1).y = s.end.y := by rw [Seg.eval_one]
  have key := Parity.signed_simple_roots (fun t => (s.eval t).y - py) (dYpoly s) hd crossings 0 1 (by norm_num) hsorted hin
    (fun x hx0 hx1 => by simp only [sub_eq_zero]; exact hall x hx0 hx1)
    hsimple (by simp only [e0]; exact sub_ne_zero.mpr h0) (by simp only [e1]; exact sub_ne_zero.mpr h1)
  have hmap : crossings.map (tanSign s) = crossings.map fun r => Parity.sg (dYpoly s r) :=
    List.map_congr_left fun t ht => tanSign_simple s t (hsimple t ht)
  rw [hmap, key]
  simp only [e0, e1, Parity.sd, side, sub_neg]

/-- each ray keeps a crossing in clear position exactly when the crossing lies on its side of the query point — wherever the query
    point is relative to the rays' far ends -/
theorem ray_keep_iff (lx px rx xt : ℝ) (hpl : px ≠ lx) (hpr : px ≠ rx) (hlr : lx < rx) (h : PClear lx px rx xt) :
    (within ((xt - lx) / (px - lx)) = true ↔ xt < px) ∧ (within ((xt - rx) / (px - rx)) = true ↔ px < xt) := by
  have wtrue : ∀ T : ℝ, 0 < T → T < 1 → ¬ (0 ≤ T ∧ T < (1 : ℝ) / 5000000) → within T = true := by
    intro T h0 h1 hb
    rw [within_iff]
    refine ⟨?_, by linarith⟩
    by_contra hc; exact hb ⟨le_of_lt h0, not_le.mp hc⟩
  have hL : xt < px → within ((xt - lx) / (px - lx)) = true := by
    intro hx
    have hp : 0 < px - lx := by linarith [h.lo]
    exact wtrue _ (div_pos (by linarith [h.lo]) hp) (by rw [div_lt_one hp]; linarith) h.bandL.1
  have hR : px < xt → within ((xt - rx) / (px - rx)) = true := by
    intro hx
    have hn : px - rx < 0 := by linarith [h.hi]
    exact wtrue _ (div_pos_of_neg_of_neg (by linarith [h.hi]) hn) (by rw [div_lt_one_of_neg hn]; linarith) h.bandR.1
  have hone := one_ray lx px rx xt hpl hpr hlr h
  constructor
  · refine ⟨fun hw => ?_, hL⟩
    by_contra hc
    have hx : px < xt := lt_of_le_of_ne (not_lt.mp hc) (Ne.symm h.ne)
    have := hR hx
    rcases hone with ⟨_, h2⟩ | ⟨h1, _⟩
    · rw [this] at h2; exact absurd h2 (by simp)
    · rw [hw] at h1; exact absurd h1 (by simp)
  · refine ⟨fun hw => ?_, hR⟩
    by_contra hc
    have hx : xt < px := lt_of_le_of_ne (not_lt.mp hc) h.ne
    have := hL hx
    rcases hone with ⟨_, h2⟩ | ⟨h1, _⟩
    · rw [hw] at h2; exact absurd h2 (by simp)
    · rw [this] at h1; exact absurd h1 (by simp)

/-- the parameters one ray reports for a curved segment: the crossings on its side -/
theorem hits_params (s : Seg ℝ) (ts : List ℝ) (x0 px py : ℝ) (hne : ¬ isclose px x0 ((1 : ℝ) / 1000000000) 0)
    (keep : ℝ → Prop) [DecidablePred keep]
    (hts : ∀ t ∈ ts, within t = true ∧ (within (((s.eval t).x - x0) / (px - x0)) = true ↔ keep t)) :
    (curveLine ts s (Seg.line ⟨x0, py⟩ ⟨px, py⟩)).map (·.1) = ts.filter fun t => decide (keep t) := by
  unfold curveLine
  induction ts with
  | nil => simp
  | cons t ts ih =>
    have ih' := ih (fun t' ht' => hts t' (List.mem_cons_of_mem _ ht'))
    obtain ⟨hw, hk⟩ := hts t (by simp)
    simp only [List.map_cons, List.filter_cons]
    rw [sworn_horizontal x0 px py _ _ hne]
    by_cases hx : keep t
    · simp only [hw, hk.mpr hx, Bool.and_self, if_true, hx, decide_true, List.map_cons]
      rw [ih']
    · have h1 : within (((s.eval t).x - x0) / (px - x0)) = false := by
        rw [← Bool.not_eq_true]; exact fun h => hx (hk.mp h)
      simp only [hw, h1, Bool.and_false, Bool.false_eq_true, if_false, hx, decide_false]
      exact ih'

/-- the tangent-sign sum of one row -/
noncomputable def rowSign (s : Seg ℝ) (pairs : List (ℝ × ℝ)) : Int := (pairs.map fun p => tanSign s p.1).sum

/-- the sign sum of one ray over any rows without coincident hits -/
theorem windSum_rows (segs : List (Seg ℝ)) (f : Seg ℝ → List (ℝ × ℝ))
    (hnd : ((flatHits 0 (segs.map fun s => (s, f s))).map (·.pt)).Nodup) :
    windSum segs own (collect 0 (segs.zip (segs.map f)) []) = (segs.map fun s => rowSign s (f s)).sum := by
  rw [zip_map_self, collect_flat 0 _ [] (by simpa using hnd)]
  simp only [List.nil_append]
  have h := windSum_flat (K := ℝ) [] (segs.map fun s => (s, f s))
  simp only [List.nil_append, List.length_nil, List.map_map] at h
  have hid : segs.map ((fun r : Seg ℝ × List (ℝ × ℝ) => r.1) ∘ fun s => (s, f s)) = segs := by
    simp [Function.comp_def]
  rw [hid] at h
  rw [h]
  simp only [Function.comp_def, rowSign]

/-- every level crossing of the segment lies to the right (`dir = true`) / to the left (`dir = false`) of the query point -/
def OneSide (dir : Bool) (px py : ℝ) : Seg ℝ → Prop
  | Seg.line a b => eStraddle py (a, b) → (if dir then px < eX py (a, b) else eX py (a, b) < px)
  | s => ∀ t, Crossing py s t → (if dir then px < (s.eval t).x else (s.eval t).x < px)

/-- the sign sum of a curved row on one ray: the tangent signs of the crossings on that ray's side -/
theorem rowSign_curve (s : Seg ℝ) (hs : 2 < s.order) (x0 px py : ℝ) (cd : List ℝ) (hne : ¬ isclose px x0 ((1 : ℝ) / 1000000000) 0)
    (keep : ℝ → Prop) [DecidablePred keep]
    (hk : ∀ t ∈ curveLineT Real.sqrt (alignedTo x0 py px s) cd,
      within t = true ∧ (within (((s.eval t).x - x0) / (px - x0)) = true ↔ keep t)) :
    rowSign s (segHits Real.sqrt s x0 px py (alignedTo x0 py px s) cd) =
      (((curveLineT Real.sqrt (alignedTo x0 py px s) cd).filter fun t => decide (keep t)).map (tanSign s)).sum := by
  unfold rowSign
  rw [segHits_curve _ s hs]
  have : ((curveLine (curveLineT Real.sqrt (alignedTo x0 py px s) cd) s (Seg.line ⟨x0, py⟩ ⟨px, py⟩)).map fun p => tanSign s p.1) =
      ((curveLine (curveLineT Real.sqrt (alignedTo x0 py px s) cd) s (Seg.line ⟨x0, py⟩ ⟨px, py⟩)).map (·.1)).map (tanSign s) := by
    rw [List.map_map]; rfl
  rw [this, hits_params s _ x0 px py hne keep hk]

/-- the curved case of `row_one_side` -/
theorem row_one_side_curve (dir : Bool) (lx px rx py : ℝ) (s : Seg ℝ) (hs : 2 < s.order) (cdL cdR : List ℝ)
    (hl : ¬ isclose px lx ((1 : ℝ) / 1000000000) 0) (hr : ¬ isclose px rx ((1 : ℝ) / 1000000000) 0) (hlr : lx < rx)
    (h0 : s.start.y ≠ py) (h1 : s.end.y ≠ py)
    (okL : SegOK (alignedTo lx py px s) cdL) (okR : SegOK (alignedTo rx py px s) cdR)
    (hsimple : ∀ t, 0 < t → t < 1 → (s.eval t).y = py → dYpoly s t ≠ 0)
    (hclear : ∀ t, 0 < t → t < 1 → (s.eval t).y = py → within t = true ∧ PClear lx px rx (s.eval t).x)
    (hside : ∀ t, Crossing py s t → (if dir then px < (s.eval t).x else (s.eval t).x < px)) :
    rowSign s (segHits Real.sqrt s lx px py (alignedTo lx py px s) cdL) = (if dir then 0 else side py s.end - side py s.start) ∧
    rowSign s (segHits Real.sqrt s rx px py (alignedTo rx py px s) cdR) = (if dir then side py s.end - side py s.start else 0) := by
  have hpl : px ≠ lx := fun h => hl (by rw [h]; exact isclose_self _ _)
  have hpr : px ≠ rx := fun h => hr (by rw [h]; exact isclose_self _ _)
  obtain ⟨sL, inL, allL⟩ := rootListOK_of_segOK _ _ okL
  obtain ⟨sR, inR, allR⟩ := rootListOK_of_segOK _ _ okR
  have zL := ypolySeg_alignedTo lx py px s hs (sub_ne_zero.mpr hpl)
  have zR := ypolySeg_alignedTo rx py px s hs (sub_ne_zero.mpr hpr)
  set LL := curveLineT Real.sqrt (alignedTo lx py px s) cdL with hLL
  set LR := curveLineT Real.sqrt (alignedTo rx py px s) cdR with hLR
  have memL : ∀ t, 0 < t → t < 1 → ((s.eval t).y = py ↔ t ∈ LL) := fun t t0 t1 =>
    ⟨fun h => (allL t t0 t1).mp ((zL t).mpr h), fun h => (zL t).mp ((allL t t0 t1).mpr h)⟩
  have memR : ∀ t, 0 < t → t < 1 → ((s.eval t).y = py ↔ t ∈ LR) := fun t t0 t1 =>
    ⟨fun h => (allR t t0 t1).mp ((zR t).mpr h), fun h => (zR t).mp ((allR t t0 t1).mpr h)⟩
  have crL : ∀ t ∈ LL, Crossing py s t := fun t ht => ⟨(inL t ht).1, (inL t ht).2, (memL t (inL t ht).1 (inL t ht).2).mpr ht⟩
  have crR : ∀ t ∈ LR, Crossing py s t := fun t ht => ⟨(inR t ht).1, (inR t ht).2, (memR t (inR t ht).1 (inR t ht).2).mpr ht⟩
  have sumL := signed_crossings s py LL sL inL memL (fun t ht => hsimple t (crL t ht).1 (crL t ht).2.1 (crL t ht).2.2) h0 h1
  have sumR := signed_crossings s py LR sR inR memR (fun t ht => hsimple t (crR t ht).1 (crR t ht).2.1 (crR t ht).2.2) h0 h1
  have eL := rowSign_curve s hs lx px py cdL hl (fun t => (s.eval t).x < px)
    (fun t ht => ⟨(hclear t (crL t ht).1 (crL t ht).2.1 (crL t ht).2.2).1,
      (ray_keep_iff lx px rx _ hpl hpr hlr (hclear t (crL t ht).1 (crL t ht).2.1 (crL t ht).2.2).2).1⟩)
  have eR := rowSign_curve s hs rx px py cdR hr (fun t => px < (s.eval t).x)
    (fun t ht => ⟨(hclear t (crR t ht).1 (crR t ht).2.1 (crR t ht).2.2).1,
      (ray_keep_iff lx px rx _ hpl hpr hlr (hclear t (crR t ht).1 (crR t ht).2.1 (crR t ht).2.2).2).2⟩)
  rw [eL, eR]
  cases dir with
  | true =>
    simp only [if_true] at hside ⊢
    constructor
    · have : LL.filter (fun t => decide ((s.eval t).x < px)) = [] := by
        rw [List.filter_eq_nil_iff]
        intro t ht
        simp only [decide_eq_true_eq, not_lt]
        exact le_of_lt (hside t (crL t ht))
      rw [this]; rfl
    · have : LR.filter (fun t => decide (px < (s.eval t).x)) = LR := by
        rw [List.filter_eq_self]
        intro t ht
        simp only [decide_eq_true_eq]
        exact hside t (crR t ht)
      rw [this]; exact sumR
  | false =>
    simp only [Bool.false_eq_true, if_false] at hside ⊢
    constructor
    · have : LL.filter (fun t => decide ((s.eval t).x < px)) = LL := by
        rw [List.filter_eq_self]
        intro t ht
        simp only [decide_eq_true_eq]
        exact hside t (crL t ht)
      rw [this]; exact sumL
    · have : LR.filter (fun t => decide (px < (s.eval t).x)) = [] := by
        rw [List.filter_eq_nil_iff]
        intro t ht
        simp only [decide_eq_true_eq, not_lt]
        exact le_of_lt (hside t (crR t ht))
      rw [this]; rfl

/-- **one row, every crossing on one side**: the ray on that side collects the whole change of side of the segment, the other ray
    nothing -/
theorem row_one_side (dir : Bool) (lx px rx py : ℝ) (s : Seg ℝ)
    (hl : ¬ isclose px lx ((1 : ℝ) / 1000000000) 0) (hr : ¬ isclose px rx ((1 : ℝ) / 1000000000) 0) (hlr : lx < rx)
    (h0 : s.start.y ≠ py) (h1 : s.end.y ≠ py) (hp : SegPos lx px rx py s) (hside : OneSide dir px py s) :
    rowSign s (rowG lx px rx py s).2.1 = (if dir then 0 else side py s.end - side py s.start) ∧
    rowSign s (rowG lx px rx py s).2.2 = (if dir then side py s.end - side py s.start else 0) := by
  have hpl : px ≠ lx := fun h => hl (by rw [h]; exact isclose_self _ _)
  have hpr : px ≠ rx := fun h => hr (by rw [h]; exact isclose_self _ _)
  have hg := segGood_of_pos lx px rx py s (sub_ne_zero.mpr hpl) (sub_ne_zero.mpr hpr) hp
  simp only [rowG, rowOf]
  cases s with
  | line a b =>
    obtain ⟨cL, cR, hbox⟩ := hp
    have eL := segHits_line Real.sqrt lx px py (a, b) cL (alignedTo lx py px (Seg.line a b)) (cardanoOf (alignedTo lx py px (Seg.line a b)))
    have eR := segHits_line Real.sqrt rx px py (a, b) cR (alignedTo rx py px (Seg.line a b)) (cardanoOf (alignedTo rx py px (Seg.line a b)))
    simp only at eL eR
    rw [eL, eR]
    have hitL := hit_left lx px py (a, b) cL (fun hs => (hbox hs).1)
    have hitR := hit_right rx px py (a, b) cR (fun hs => (hbox hs).2)
    have hsc := sign_is_side_change py (a, b) h0 h1
    simp only at hsc
    have hne_x : eStraddle py (a, b) → eX py (a, b) ≠ px := fun hs => cross_ne_px lx px py (a, b) cL hs
    cases dir with
    | true =>
      simp only [OneSide, if_true] at hside
      have nL : ¬ eHit lx px py (a, b) := fun hh => by
        have := hitL.mp hh; exact absurd this.2 (not_lt.mpr (le_of_lt (hside this.1)))
      have iR : eHit rx px py (a, b) ↔ eStraddle py (a, b) := by
        rw [hitR]; exact ⟨fun h => h.1, fun h => ⟨h, hside h⟩⟩
      refine ⟨by simp [rowSign, nL], ?_⟩
      by_cases hs : eStraddle py (a, b)
      · rw [if_pos (iR.mpr hs)]; rw [if_pos hs] at hsc
        simp only [rowSign, List.map_cons, List.map_nil, List.sum_cons, List.sum_nil, add_zero, tanSign_line, if_true]
        exact hsc
      · rw [if_neg (fun h => hs (iR.mp h))]; rw [if_neg hs] at hsc
        simp only [rowSign, List.map_nil, List.sum_nil, if_true]
        exact hsc
    | false =>
      simp only [OneSide, Bool.false_eq_true, if_false] at hside
      have nR : ¬ eHit rx px py (a, b) := fun hh => by
        have := hitR.mp hh; exact absurd this.2 (not_lt.mpr (le_of_lt (hside this.1)))
      have iL : eHit lx px py (a, b) ↔ eStraddle py (a, b) := by
        rw [hitL]; exact ⟨fun h => h.1, fun h => ⟨h, hside h⟩⟩
      refine ⟨?_, by simp [rowSign, nR]⟩
      by_cases hs : eStraddle py (a, b)
      · rw [if_pos (iL.mpr hs)]; rw [if_pos hs] at hsc
        simp only [rowSign, List.map_cons, List.map_nil, List.sum_cons, List.sum_nil, add_zero, tanSign_line, Bool.false_eq_true, if_false]
        exact hsc
      · rw [if_neg (fun h => hs (iL.mp h))]; rw [if_neg hs] at hsc
        simp only [rowSign, List.map_nil, List.sum_nil, Bool.false_eq_true, if_false]
        exact hsc
  | quad a b c =>
    exact row_one_side_curve dir lx px rx py _ (by simp [Seg.order, Seg.points]) _ _ hl hr hlr h0 h1 hg.1 hg.2.1
      (fun t t0 t1 hy => hg.2.2.1 t t0 t1 hy) hg.2.2.2 hside
  | cubic a b c d =>
    exact row_one_side_curve dir lx px rx py _ (by simp [Seg.order, Seg.points]) _ _ hl hr hlr h0 h1 hg.1 hg.2.1
      (fun t t0 t1 hy => hg.2.2.1 t t0 t1 hy) hg.2.2.2 hside

/-- the changes of side around a closed chain cancel -/
theorem closed_side_sum (py : ℝ) (segs : List (Seg ℝ)) (a : Pt ℝ) (rest : List (Pt ℝ))
    (hclosed : segs.map (fun s => (s.start, s.end)) = Clip.wrapEdges (a :: rest)) :
    (segs.map fun s => side py s.end - side py s.start).sum = 0 := by
  have : (segs.map fun s => side py s.end - side py s.start) =
      (segs.map fun s => (s.start, s.end)).map fun e => side py e.2 - side py e.1 := by
    rw [List.map_map]; rfl
  rw [this, hclosed]
  unfold Clip.wrapEdges
  rw [telescope]; ring

/-- **winding number 0 when every level crossing of the path lies on one side of the query point** — closed paths of lines,
    quadratics and cubics in clear position, no node on the level, no coincident crossings: the ray on the other side meets nothing,
    the ray on that side meets every crossing, and the tangent signs add up to the changes of side around the closed path, i.e. 0. -/
theorem winding_zero_one_side (dir : Bool) (lx px rx py : ℝ) (segs : List (Seg ℝ)) (a : Pt ℝ) (rest : List (Pt ℝ))
    (hl : ¬ isclose px lx ((1 : ℝ) / 1000000000) 0) (hr : ¬ isclose px rx ((1 : ℝ) / 1000000000) 0) (hlr : lx < rx)
    (hclosed : segs.map (fun s => (s.start, s.end)) = Clip.wrapEdges (a :: rest))
    (hlev : ∀ v ∈ a :: rest, v.y ≠ py)
    (hpos : ∀ s ∈ segs, SegPos lx px rx py s)
    (hnc : NoCoincide py segs)
    (hside : ∀ s ∈ segs, OneSide dir px py s) :
    windingNumber own ((segs.map (rowG lx px rx py)).map (·.1)) ((segs.map (rowG lx px rx py)).map (·.2.1))
        ((segs.map (rowG lx px rx py)).map (·.2.2)) = 0 := by
  have hpl : px ≠ lx := fun h => hl (by rw [h]; exact isclose_self _ _)
  have hpr : px ≠ rx := fun h => hr (by rw [h]; exact isclose_self _ _)
  have e1 : (segs.map (rowG lx px rx py)).map (·.1) = segs := by
    rw [List.map_map]; simp [Function.comp_def, rowG, rowOf]
  have e2 : (segs.map (rowG lx px rx py)).map (·.2.1) = segs.map fun s => (rowG lx px rx py s).2.1 := by
    rw [List.map_map]; rfl
  have e3 : (segs.map (rowG lx px rx py)).map (·.2.2) = segs.map fun s => (rowG lx px rx py s).2.2 := by
    rw [List.map_map]; rfl
  rw [e1, e2, e3]
  have ok := fun s hs => pairsOK_row lx px rx py s (sub_ne_zero.mpr hpl) (sub_ne_zero.mpr hpr) (hpos s hs)
  have ndL := nodup_of_noCoincide py segs (fun s => (rowG lx px rx py s).2.1) (fun s hs => (ok s hs).1) hnc
  have ndR := nodup_of_noCoincide py segs (fun s => (rowG lx px rx py s).2.2) (fun s hs => (ok s hs).2) hnc
  have hends : ∀ s ∈ segs, s.start.y ≠ py ∧ s.end.y ≠ py := by
    intro s hs
    have hm : (s.start, s.end) ∈ Clip.wrapEdges (a :: rest) := by
      rw [← hclosed]; exact List.mem_map.mpr ⟨s, hs, rfl⟩
    obtain ⟨m1, m2⟩ := wrapEdges_mem a rest _ hm
    exact ⟨hlev _ m1, hlev _ m2⟩
  have rows := fun s hs => row_one_side dir lx px rx py s hl hr hlr (hends s hs).1 (hends s hs).2 (hpos s hs) (hside s hs)
  unfold windingNumber
  simp only
  rw [windSum_rows segs _ ndL, windSum_rows segs _ ndR]
  have sL : (segs.map fun s => rowSign s (rowG lx px rx py s).2.1) = segs.map fun s => (if dir then 0 else side py s.end - side py s.start) :=
    List.map_congr_left fun s hs => (rows s hs).1
  have sR : (segs.map fun s => rowSign s (rowG lx px rx py s).2.2) = segs.map fun s => (if dir then side py s.end - side py s.start else 0) :=
    List.map_congr_left fun s hs => (rows s hs).2
  rw [sL, sR]
  have hz : (segs.map fun _ : Seg ℝ => (0 : Int)).sum = 0 := by simp
  cases dir with
  | true =>
    simp only [if_true]
    rw [hz, closed_side_sum py segs a rest hclosed]; rfl
  | false =>
    simp only [Bool.false_eq_true, if_false]
    rw [hz, closed_side_sum py segs a rest hclosed]; rfl

/-- **C11, second clause, for closed paths of lines, quadratics and cubics: the winding number is 0 outside the bounding box.**
    `[l, r] × [bot, top]` contains every point of the path, the rays start at `l − m` and `r + m` (`m = 10` in the code); a query
    point left of, right of, below or above the box has winding number 0 — under the clear-position, level and no-coincident-crossing
    hypotheses (whose failures are K1, K6, K13). -/
theorem winding_zero_outside_box_mixed (px py l r bot top m : ℝ) (hm : 0 < m) (hlr : l ≤ r)
    (segs : List (Seg ℝ)) (a : Pt ℝ) (rest : List (Pt ℝ))
    (hbnd : ∀ s ∈ segs, ∀ t, 0 ≤ t → t ≤ 1 → (l ≤ (s.eval t).x ∧ (s.eval t).x ≤ r) ∧ (bot ≤ (s.eval t).y ∧ (s.eval t).y ≤ top))
    (hl : ¬ isclose px (l - m) ((1 : ℝ) / 1000000000) 0) (hr : ¬ isclose px (r + m) ((1 : ℝ) / 1000000000) 0)
    (hclosed : segs.map (fun s => (s.start, s.end)) = Clip.wrapEdges (a :: rest))
    (hlev : ∀ v ∈ a :: rest, v.y ≠ py)
    (hpos : ∀ s ∈ segs, SegPos (l - m) px (r + m) py s)
    (hnc : NoCoincide py segs)
    (hout : px < l ∨ r < px ∨ py < bot ∨ top < py) :
    windingNumber own ((segs.map (rowG (l - m) px (r + m) py)).map (·.1)) ((segs.map (rowG (l - m) px (r + m) py)).map (·.2.1))
        ((segs.map (rowG (l - m) px (r + m) py)).map (·.2.2)) = 0 := by
  have hends : ∀ s ∈ segs, (l ≤ s.start.x ∧ s.start.x ≤ r) ∧ (bot ≤ s.start.y ∧ s.start.y ≤ top) ∧
      (l ≤ s.end.x ∧ s.end.x ≤ r) ∧ (bot ≤ s.end.y ∧ s.end.y ≤ top) := by
    intro s hs
    have h0 := hbnd s hs 0 (le_refl _) (by norm_num)
    have h1 := hbnd s hs 1 (by norm_num) (le_refl _)
    rw [Seg.eval_zero] at h0; rw [Seg.eval_one] at h1
    exact ⟨h0.1, h0.2, h1.1, h1.2⟩
  -- where the crossings are
  have hx : ∀ s ∈ segs, (match s with
      | Seg.line a b => eStraddle py (a, b) → l ≤ eX py (a, b) ∧ eX py (a, b) ≤ r
      | s => ∀ t, Crossing py s t → l ≤ (s.eval t).x ∧ (s.eval t).x ≤ r) := by
    intro s hs
    cases s with
    | line a b =>
      intro hst
      obtain ⟨hs0, _, hs1, _⟩ := hends _ hs
      have hb := eX_between py (a, b) hst
      exact ⟨le_trans (le_min hs0.1 hs1.1) hb.1, le_trans hb.2 (max_le hs0.2 hs1.2)⟩
    | quad a b c => intro t ht; exact (hbnd _ hs t (le_of_lt ht.1) (le_of_lt ht.2.1)).1
    | cubic a b c d => intro t ht; exact (hbnd _ hs t (le_of_lt ht.1) (le_of_lt ht.2.1)).1
  -- no crossing at all when the level misses the box
  have hnone : (py < bot ∨ top < py) → ∀ s ∈ segs, ∀ dir, OneSide dir px py s := by
    intro hy s hs dir
    cases s with
    | line a b =>
      intro hst
      exfalso
      obtain ⟨_, hy0, _, hy1⟩ := hends _ hs
      simp only [Seg.start, Seg.end] at hy0 hy1
      unfold eStraddle Straddle at hst
      rcases hy with h | h <;> rcases hst with s' | s' <;> linarith [s'.1, s'.2, hy0.1, hy0.2, hy1.1, hy1.2]
    | quad a b c =>
      intro t ht; exfalso
      have := (hbnd _ hs t (le_of_lt ht.1) (le_of_lt ht.2.1)).2
      rw [ht.2.2] at this
      rcases hy with h | h <;> linarith [this.1, this.2]
    | cubic a b c d =>
      intro t ht; exfalso
      have := (hbnd _ hs t (le_of_lt ht.1) (le_of_lt ht.2.1)).2
      rw [ht.2.2] at this
      rcases hy with h | h <;> linarith [this.1, this.2]
  have hrays : l - m < r + m := by linarith
  rcases hout with h | h | h | h
  · refine winding_zero_one_side true _ px _ py segs a rest hl hr hrays hclosed hlev hpos hnc ?_
    intro s hs
    have := hx s hs
    cases s with
    | line a b => intro hst; simp only [if_true]; exact lt_of_lt_of_le h (this hst).1
    | quad a b c => intro t ht; simp only [if_true]; exact lt_of_lt_of_le h (this t ht).1
    | cubic a b c d => intro t ht; simp only [if_true]; exact lt_of_lt_of_le h (this t ht).1
  · refine winding_zero_one_side false _ px _ py segs a rest hl hr hrays hclosed hlev hpos hnc ?_
    intro s hs
    have := hx s hs
    cases s with
    | line a b => intro hst; simp only [Bool.false_eq_true, if_false]; exact lt_of_le_of_lt (this hst).2 h
    | quad a b c => intro t ht; simp only [Bool.false_eq_true, if_false]; exact lt_of_le_of_lt (this t ht).2 h
    | cubic a b c d => intro t ht; simp only [Bool.false_eq_true, if_false]; exact lt_of_le_of_lt (this t ht).2 h
  · exact winding_zero_one_side true _ px _ py segs a rest hl hr hrays hclosed hlev hpos hnc (fun s hs => hnone (Or.inl h) s hs true)
  · exact winding_zero_one_side true _ px _ py segs a rest hl hr hrays hclosed hlev hpos hnc (fun s hs => hnone (Or.inr h) s hs true)

/-! non-vacuity: the arch of `C11Q` closed by its chord, query point (−3, 3/4) left of the box [0,2] × [0,1] -/
section example_arch_outside

theorem chord_x (t : ℝ) : (chord.eval t).x = 2 - 2 * t := by
  simp only [chord, Seg.eval, line_pointAtTime_x]; ring

example : windingNumber own (([arch, chord].map (rowG (0 - 10) (-3) (2 + 10) (3 / 4))).map (·.1))
    (([arch, chord].map (rowG (0 - 10) (-3) (2 + 10) (3 / 4))).map (·.2.1))
    (([arch, chord].map (rowG (0 - 10) (-3) (2 + 10) (3 / 4))).map (·.2.2)) = 0 := by
  apply winding_zero_outside_box_mixed (-3) (3 / 4) 0 2 0 1 10 (by norm_num) (by norm_num) [arch, chord] ⟨0, 0⟩ [⟨2, 0⟩]
  · intro s hs t t0 t1
    simp only [List.mem_cons, List.not_mem_nil, or_false] at hs
    rcases hs with rfl | rfl
    · rw [arch_x, arch_y]
      refine ⟨⟨by linarith, by linarith⟩, ⟨by nlinarith, by nlinarith [sq_nonneg (2 * t - 1)]⟩⟩
    · rw [chord_x, chord_y]
      refine ⟨⟨by linarith, by linarith⟩, ⟨by norm_num, by norm_num⟩⟩
  · exact not_isclose_num _ _ (by norm_num)
  · exact not_isclose_num _ _ (by norm_num)
  · simp [arch, chord, Seg.start, Seg.end, Clip.wrapEdges, Clip.edges]
  · intro v hv; simp only [List.mem_cons, List.not_mem_nil, or_false] at hv; rcases hv with rfl | rfl <;> norm_num
  · intro s hs
    simp only [List.mem_cons, List.not_mem_nil, or_false] at hs
    rcases hs with rfl | rfl
    · show SegGeom (3 / 4) arch ∧ _
      constructor
      · refine ⟨?_, by norm_num, by norm_num⟩
        intro t _ _ hy
        have hd : dYpoly (Seg.quad ⟨0, 0⟩ ⟨1, 2⟩ ⟨2, 0⟩) t = 4 - 8 * t := by simp only [dYpoly, C02E.dcoeffs]; ring
        rw [hd]
        rcases arch_cross t hy with rfl | rfl <;> norm_num
      · intro t _ _ hy
        have hx := arch_x t
        rcases arch_cross t hy with rfl | rfl
        · refine ⟨by rw [within_iff]; norm_num, ?_⟩
          have : (arch.eval (1 / 4)).x = 1 / 2 := by rw [hx]; norm_num
          rw [this]
          exact ⟨by norm_num, by norm_num, by norm_num, ⟨by norm_num, by norm_num⟩, ⟨by norm_num, by norm_num⟩⟩
        · refine ⟨by rw [within_iff]; norm_num, ?_⟩
          have : (arch.eval (3 / 4)).x = 3 / 2 := by rw [hx]; norm_num
          rw [this]
          exact ⟨by norm_num, by norm_num, by norm_num, ⟨by norm_num, by norm_num⟩, ⟨by norm_num, by norm_num⟩⟩
    · show eClear (0 - 10) (-3) (3 / 4) (⟨2, 0⟩, ⟨0, 0⟩) ∧ eClear (2 + 10) (-3) (3 / 4) (⟨2, 0⟩, ⟨0, 0⟩) ∧ _
      have hns : ¬ Straddle (0 : ℝ) 0 (3 / 4) := by unfold Straddle; norm_num
      refine ⟨?_, ?_, fun h => absurd h hns⟩
      · refine ⟨fun h => absurd h (not_isclose_num _ _ (by norm_num)), fun _ => rfl, not_isclose_num _ _ (by norm_num),
          fun h => absurd rfl h, by norm_num, ?_, fun h => absurd rfl h⟩
        simp only [T1]; norm_num
      · refine ⟨fun h => absurd h (not_isclose_num _ _ (by norm_num)), fun _ => rfl, not_isclose_num _ _ (by norm_num),
          fun h => absurd rfl h, by norm_num, ?_, fun h => absurd rfl h⟩
        simp only [T1]; norm_num
  · exact arch_hyps.2.2
  · left; norm_num

end example_arch_outside

end C11B
