/-
  C02 (enclosure) — every point of a segment lies in its reported box, up to the 0.06 % protrusion of extremes in the
  first / last 1 % of the parameter range.  Over ℝ.
  Built on: C01 (the derivative segments are the parametric derivatives, `HasDerivAt`), C02.bounds_is_hull (the box is the
  hull of the curve's points at 0, 1 and the reported extremes), C03.cubic_extremes_mem_iff (the reported extremes are
  exactly the simple derivative roots in [0.01, 0.99]) and the regenerated quad_findDRoots.
-/
import BezierVerif.Props.C01
import BezierVerif.Props.C02
import BezierVerif.Props.C03
import Mathlib.Analysis.Calculus.LocalExtr.Basic
import Mathlib.Topology.Order.Compact
import Mathlib.Analysis.Calculus.Deriv.MeanValue
import Mathlib.Tactic.Linarith
import Mathlib.Tactic.Ring
import Mathlib.Tactic.LinearCombination

set_option linter.unusedSectionVars false
set_option linter.unusedVariables false
set_option linter.unusedTactic false
set_option linter.unnecessarySeqFocus false
set_option linter.unusedSimpArgs false

namespace C02E
open Set Gen Extremes C03

/-! ### analysis: a function whose derivative is a quadratic is bounded by its values at 0, 1 and the SIMPLE interior roots -/

theorem le_end_or_critical (f f' : ℝ → ℝ) (hd : ∀ x, HasDerivAt f (f' x) x) (t : ℝ) (ht : t ∈ Icc (0:ℝ) 1) :
    ∃ e ∈ Icc (0:ℝ) 1, (e = 0 ∨ e = 1 ∨ (0 < e ∧ e < 1 ∧ f' e = 0)) ∧ f t ≤ f e := by
  have hcont : ContinuousOn f (Icc 0 1) := fun x _ => (hd x).continuousAt.continuousWithinAt
  obtain ⟨m, hm, hmax⟩ := isCompact_Icc.exists_isMaxOn ⟨t, ht⟩ hcont
  refine ⟨m, hm, ?_, hmax ht⟩
  by_cases h0 : m = 0
  · exact Or.inl h0
  by_cases h1 : m = 1
  · exact Or.inr (Or.inl h1)
  right; right
  have hlt : 0 < m := lt_of_le_of_ne hm.1 (Ne.symm h0)
  have hlt1 : m < 1 := lt_of_le_of_ne hm.2 h1
  have hnhds : Icc (0:ℝ) 1 ∈ nhds m := Icc_mem_nhds hlt hlt1
  have hloc : IsLocalMax f m := hmax.isLocalMax hnhds
  exact ⟨hlt, hlt1, hloc.hasDerivAt_eq_zero (hd m)⟩

/-- bounded above by the value at 0, at 1, or at an interior SIMPLE root of the derivative: a double root, or an identically
    vanishing derivative, means the function is monotone and the bound falls back to an end -/
theorem le_end_or_simple (f : ℝ → ℝ) (a b c : ℝ) (hd : ∀ x, HasDerivAt f (a * x * x + b * x + c) x) (t : ℝ) (ht : t ∈ Icc (0:ℝ) 1) :
    ∃ e ∈ Icc (0:ℝ) 1, (e = 0 ∨ e = 1 ∨ (0 < e ∧ e < 1 ∧ SimpleRoot a b c e)) ∧ f t ≤ f e := by
  obtain ⟨m, hm, hcase, hle⟩ := le_end_or_critical f (fun x => a * x * x + b * x + c) hd t ht
  rcases hcase with h | h | ⟨h0, h1, hz⟩
  · exact ⟨m, hm, Or.inl h, hle⟩
  · exact ⟨m, hm, Or.inr (Or.inl h), hle⟩
  have hdiff : Differentiable ℝ f := fun x => (hd x).differentiableAt
  have hderiv : ∀ x, deriv f x = a * x * x + b * x + c := fun x => (hd x).deriv
  by_cases hs : SimpleRoot a b c m
  · exact ⟨m, hm, Or.inr (Or.inr ⟨h0, h1, hs⟩), hle⟩
  have hsign : (∀ x, 0 ≤ a * x * x + b * x + c) ∨ (∀ x, a * x * x + b * x + c ≤ 0) := by
    unfold SimpleRoot at hs
    simp only [hz, true_and, not_or, not_and, not_lt] at hs
    by_cases ha : a = 0
    · have hb : b = 0 := by
        by_contra hb; exact (hs.1 ha) hb
      subst ha; subst hb
      have hc : c = 0 := by simpa using hz
      left; intro x; simp [hc]
    · have hD := hs.2 ha
      have key : ∀ x, 4 * a * (a * x * x + b * x + c) = (2 * a * x + b) ^ 2 - (b * b - 4 * a * c) := by intro x; ring
      rcases lt_or_gt_of_ne ha with hneg | hpos
      · right; intro x
        have h2 : 0 ≤ 4 * a * (a * x * x + b * x + c) := by rw [key x]; nlinarith [sq_nonneg (2 * a * x + b)]
        by_contra hc; push Not at hc
        have : 4 * a * (a * x * x + b * x + c) < 0 := by nlinarith
        linarith
      · left; intro x
        have h2 : 0 ≤ 4 * a * (a * x * x + b * x + c) := by rw [key x]; nlinarith [sq_nonneg (2 * a * x + b)]
        by_contra hc; push Not at hc
        have : 4 * a * (a * x * x + b * x + c) < 0 := by nlinarith
        linarith
  rcases hsign with hp | hn
  · have hmono : Monotone f := monotone_of_deriv_nonneg hdiff (fun x => by rw [hderiv]; exact hp x)
    exact ⟨1, ⟨by norm_num, le_refl _⟩, Or.inr (Or.inl rfl), le_trans hle (hmono hm.2)⟩
  · have hanti : Antitone f := antitone_of_deriv_nonpos hdiff (fun x => by rw [hderiv]; exact hn x)
    exact ⟨0, ⟨le_refl _, by norm_num⟩, Or.inl rfl, le_trans hle (hanti hm.1)⟩

theorem simpleRoot_neg (a b c t : ℝ) : SimpleRoot (-a) (-b) (-c) t ↔ SimpleRoot a b c t := by
  unfold SimpleRoot
  constructor
  · rintro ⟨h, hh⟩
    refine ⟨by linarith, ?_⟩
    rcases hh with ⟨h1, h2⟩ | ⟨h1, h2⟩
    · exact Or.inl ⟨by linarith, fun hb => h2 (by rw [hb]; ring)⟩
    · exact Or.inr ⟨fun ha => h1 (by rw [ha]; ring), by nlinarith⟩
  · rintro ⟨h, hh⟩
    refine ⟨by linarith, ?_⟩
    rcases hh with ⟨h1, h2⟩ | ⟨h1, h2⟩
    · exact Or.inl ⟨by linarith, fun hb => h2 (by linarith)⟩
    · exact Or.inr ⟨fun ha => h1 (by linarith), by nlinarith⟩

theorem ge_end_or_simple (f : ℝ → ℝ) (a b c : ℝ) (hd : ∀ x, HasDerivAt f (a * x * x + b * x + c) x) (t : ℝ) (ht : t ∈ Icc (0:ℝ) 1) :
    ∃ e ∈ Icc (0:ℝ) 1, (e = 0 ∨ e = 1 ∨ (0 < e ∧ e < 1 ∧ SimpleRoot a b c e)) ∧ f e ≤ f t := by
  have hd' : ∀ x, HasDerivAt (fun y => - f y) ((-a) * x * x + (-b) * x + (-c)) x := by
    intro x
    exact (hd x).neg.congr_deriv (by ring)
  obtain ⟨e, he, hc, hle⟩ := le_end_or_simple (fun y => - f y) (-a) (-b) (-c) hd' t ht
  refine ⟨e, he, ?_, by linarith⟩
  rcases hc with h | h | ⟨h0, h1, hs⟩
  · exact Or.inl h
  · exact Or.inr (Or.inl h)
  · exact Or.inr (Or.inr ⟨h0, h1, (simpleRoot_neg a b c e).mp hs⟩)

/-- **one coordinate, both sides**: values at 0 and 1 and at the simple roots inside [0.01, 0.99] lie in [L, R]; a simple
    root in the first (last) 1 % stays within δ of the value at 0 (at 1).  Then the whole curve stays in [L − δ, R + δ]. -/
theorem coord_enclosed (f : ℝ → ℝ) (a b c L R δ : ℝ) (hδ : 0 ≤ δ) (hd : ∀ x, HasDerivAt f (a * x * x + b * x + c) x)
    (h0 : L ≤ f 0 ∧ f 0 ≤ R) (h1 : L ≤ f 1 ∧ f 1 ≤ R)
    (hband : ∀ e, (1 : ℝ) / 100 ≤ e → e ≤ 99 / 100 → SimpleRoot a b c e → L ≤ f e ∧ f e ≤ R)
    (hlo : ∀ e, 0 < e → e < (1 : ℝ) / 100 → SimpleRoot a b c e → |f e - f 0| ≤ δ)
    (hhi : ∀ e, (99 : ℝ) / 100 < e → e < 1 → SimpleRoot a b c e → |f e - f 1| ≤ δ)
    (t : ℝ) (ht : t ∈ Icc (0:ℝ) 1) : L - δ ≤ f t ∧ f t ≤ R + δ := by
  have key : ∀ e, (e = 0 ∨ e = 1 ∨ (0 < e ∧ e < 1 ∧ SimpleRoot a b c e)) → L - δ ≤ f e ∧ f e ≤ R + δ := by
    intro e hc
    rcases hc with rfl | rfl | ⟨e0, e1, hs⟩
    · constructor <;> linarith [h0.1, h0.2]
    · constructor <;> linarith [h1.1, h1.2]
    · by_cases hl : e < 1 / 100
      · have := abs_le.mp (hlo e e0 hl hs)
        constructor <;> linarith [h0.1, h0.2, this.1, this.2]
      · by_cases hh : 99 / 100 < e
        · have := abs_le.mp (hhi e hh e1 hs)
          constructor <;> linarith [h1.1, h1.2, this.1, this.2]
        · have := hband e (not_lt.mp hl) (not_lt.mp hh) hs
          constructor <;> linarith [this.1, this.2]
  obtain ⟨e, he, hc, hle⟩ := le_end_or_simple f a b c hd t ht
  obtain ⟨e', he', hc', hle'⟩ := ge_end_or_simple f a b c hd t ht
  exact ⟨le_trans (key e' hc').1 hle', le_trans hle (key e hc).2⟩

/-! ### the protrusion of an extreme in the first / last 1 %: power-basis identities using f′(e) = 0 -/

/-- a cubic coordinate in Bernstein form -/
def cub (p0 p1 p2 p3 t : ℝ) : ℝ :=
  (1 - t) * (1 - t) * (1 - t) * p0 + 3 * (1 - t) * (1 - t) * t * p1 + 3 * (1 - t) * t * t * p2 + t * t * t * p3
def qd (p0 p1 p2 t : ℝ) : ℝ := (1 - t) * (1 - t) * p0 + 2 * (1 - t) * t * p1 + t * t * p2

/-- **cubic, first 1 %**: f(e) − f(0) = −e²·((3 − 2e)·Δ²P₀ + 2e·Δ²P₁) when f′(e) = 0, and |Δ²Pᵢ| ≤ 2E -/
theorem cubic_protrusion_lo (p0 p1 p2 p3 E e : ℝ)
    (h01 : |p0 - p1| ≤ E) (h12 : |p1 - p2| ≤ E) (h23 : |p2 - p3| ≤ E) (he0 : 0 ≤ e) (he1 : e ≤ 1 / 100)
    (hz : (3 * (p3 - 3 * p2 + 3 * p1 - p0)) * e * e + (6 * (p2 - 2 * p1 + p0)) * e + 3 * (p1 - p0) = 0) :
    |cub p0 p1 p2 p3 e - cub p0 p1 p2 p3 0| ≤ 6 / 10000 * E := by
  have hE : 0 ≤ E := le_trans (abs_nonneg _) h01
  obtain ⟨a1, a2⟩ := abs_le.mp h01
  obtain ⟨b1, b2⟩ := abs_le.mp h12
  obtain ⟨c1, c2⟩ := abs_le.mp h23
  have key : cub p0 p1 p2 p3 e - cub p0 p1 p2 p3 0 =
      -(e * e) * ((p2 - 2 * p1 + p0) * (3 - 2 * e) + 2 * (p3 - 2 * p2 + p1) * e) := by
    unfold cub; linear_combination e * hz
  rw [key]
  set A := p2 - 2 * p1 + p0
  set B := p3 - 2 * p2 + p1
  have hA : |A| ≤ 2 * E := abs_le.mpr ⟨by simp only [A]; linarith, by simp only [A]; linarith⟩
  have hB : |B| ≤ 2 * E := abs_le.mpr ⟨by simp only [B]; linarith, by simp only [B]; linarith⟩
  have hu : |A * (3 - 2 * e) + 2 * B * e| ≤ 6 * E := by
    have h3 : 0 ≤ 3 - 2 * e := by linarith
    calc |A * (3 - 2 * e) + 2 * B * e| ≤ |A * (3 - 2 * e)| + |2 * B * e| := abs_add_le _ _
      _ = |A| * (3 - 2 * e) + 2 * |B| * e := by
          rw [abs_mul, abs_mul, abs_mul, abs_of_nonneg h3, abs_of_nonneg he0, abs_of_pos (by norm_num : (0:ℝ) < 2)]
      _ ≤ 2 * E * (3 - 2 * e) + 2 * (2 * E) * e := by
          have := mul_le_mul_of_nonneg_right hA h3
          have := mul_le_mul_of_nonneg_right hB he0
          linarith
      _ = 6 * E := by ring
  have hee : e * e ≤ 1 / 10000 := by nlinarith
  rw [abs_mul, abs_neg, abs_of_nonneg (mul_self_nonneg e)]
  calc e * e * |A * (3 - 2 * e) + 2 * B * e| ≤ (1 / 10000) * (6 * E) :=
        mul_le_mul hee hu (abs_nonneg _) (by norm_num)
    _ = 6 / 10000 * E := by ring

theorem cub_rev (p0 p1 p2 p3 t : ℝ) : cub p3 p2 p1 p0 (1 - t) = cub p0 p1 p2 p3 t := by unfold cub; ring

/-- **cubic, last 1 %** (the mirror image) -/
theorem cubic_protrusion_hi (p0 p1 p2 p3 E e : ℝ)
    (h01 : |p0 - p1| ≤ E) (h12 : |p1 - p2| ≤ E) (h23 : |p2 - p3| ≤ E) (he0 : 99 / 100 ≤ e) (he1 : e ≤ 1)
    (hz : (3 * (p3 - 3 * p2 + 3 * p1 - p0)) * e * e + (6 * (p2 - 2 * p1 + p0)) * e + 3 * (p1 - p0) = 0) :
    |cub p0 p1 p2 p3 e - cub p0 p1 p2 p3 1| ≤ 6 / 10000 * E := by
  have h := cubic_protrusion_lo p3 p2 p1 p0 E (1 - e) (by rw [abs_sub_comm]; exact h23) (by rw [abs_sub_comm]; exact h12)
    (by rw [abs_sub_comm]; exact h01) (by linarith) (by linarith) (by linear_combination (-1) * hz)
  rw [cub_rev] at h
  have e0 : cub p3 p2 p1 p0 0 = cub p0 p1 p2 p3 1 := by unfold cub; ring
  rwa [e0] at h

/-- **quadratic**: f(e) − f(0) = −e²·Δ²P₀ -/
theorem quad_protrusion_lo (p0 p1 p2 E e : ℝ) (h01 : |p0 - p1| ≤ E) (h12 : |p1 - p2| ≤ E) (he0 : 0 ≤ e) (he1 : e ≤ 1 / 100)
    (hz : (2 * (p0 - 2 * p1 + p2)) * e + 2 * (p1 - p0) = 0) :
    |qd p0 p1 p2 e - qd p0 p1 p2 0| ≤ 6 / 10000 * E := by
  have hE : 0 ≤ E := le_trans (abs_nonneg _) h01
  obtain ⟨a1, a2⟩ := abs_le.mp h01
  obtain ⟨b1, b2⟩ := abs_le.mp h12
  have key : qd p0 p1 p2 e - qd p0 p1 p2 0 = -(e * e) * (p0 - 2 * p1 + p2) := by
    unfold qd; linear_combination e * hz
  rw [key]
  have hA : |p0 - 2 * p1 + p2| ≤ 2 * E := abs_le.mpr ⟨by linarith, by linarith⟩
  have hee : e * e ≤ 1 / 10000 := by nlinarith
  rw [abs_mul, abs_neg, abs_of_nonneg (mul_self_nonneg e)]
  calc e * e * |p0 - 2 * p1 + p2| ≤ (1 / 10000) * (2 * E) := mul_le_mul hee hA (abs_nonneg _) (by norm_num)
    _ ≤ 6 / 10000 * E := by linarith

theorem quad_protrusion_hi (p0 p1 p2 E e : ℝ) (h01 : |p0 - p1| ≤ E) (h12 : |p1 - p2| ≤ E) (he0 : 99 / 100 ≤ e) (he1 : e ≤ 1)
    (hz : (2 * (p0 - 2 * p1 + p2)) * e + 2 * (p1 - p0) = 0) :
    |qd p0 p1 p2 e - qd p0 p1 p2 1| ≤ 6 / 10000 * E := by
  have h := quad_protrusion_lo p2 p1 p0 E (1 - e) (by rw [abs_sub_comm]; exact h12) (by rw [abs_sub_comm]; exact h01)
    (by linarith) (by linarith) (by linear_combination (-1) * hz)
  have e1 : qd p2 p1 p0 (1 - e) = qd p0 p1 p2 e := by unfold qd; ring
  have e0 : qd p2 p1 p0 0 = qd p0 p1 p2 1 := by unfold qd; ring
  rwa [e1, e0] at h


/-! ### the reported extremes of a quadratic (regenerated `quad_findDRoots`) -/

theorem quad_findDRoots_mem (p0x p0y p1x p1y p2x p2y e : ℝ) :
    e ∈ quad_findDRoots p0x p0y p1x p1y p2x p2y ↔
      ((p0x - 2 * p1x + p2x ≠ 0 ∧ e = (p0x - p1x) / (p0x - 2 * p1x + p2x)) ∨
       (p0y - 2 * p1y + p2y ≠ 0 ∧ e = (p0y - p1y) / (p0y - 2 * p1y + p2y))) ∧ ((1 : ℝ) / 100 ≤ e ∧ e ≤ 99 / 100) := by
  unfold quad_findDRoots
  generalize (p0x - p1x) / (p0x - 2 * p1x + p2x) = rx
  generalize (p0y - p1y) / (p0y - 2 * p1y + p2y) = ry
  generalize p0x - 2 * p1x + p2x = ax
  generalize p0y - 2 * p1y + p2y = ay
  split_ifs <;> simp only [List.mem_cons, List.not_mem_nil, or_false] <;> grind

/-! ### per segment: coordinate functions, derivative coefficients, and "simple root in the band ⇒ reported" -/

/-- power coefficients (a, b, c) of x′ and of y′ -/
noncomputable def dcoeffs : Seg ℝ → (ℝ × ℝ × ℝ) × (ℝ × ℝ × ℝ)
  | .line a b => ((0, 0, b.x - a.x), (0, 0, b.y - a.y))
  | .quad a b c => ((0, 2 * (a.x - 2 * b.x + c.x), 2 * (b.x - a.x)), (0, 2 * (a.y - 2 * b.y + c.y), 2 * (b.y - a.y)))
  | .cubic a b c d =>
    ((cubic_dcoeffs_ax a.x a.y b.x b.y c.x c.y d.x d.y, cubic_dcoeffs_bx a.x a.y b.x b.y c.x c.y d.x d.y,
      cubic_dcoeffs_cx a.x a.y b.x b.y c.x c.y d.x d.y),
     (cubic_dcoeffs_ay a.x a.y b.x b.y c.x c.y d.x d.y, cubic_dcoeffs_by a.x a.y b.x b.y c.x c.y d.x d.y,
      cubic_dcoeffs_cy a.x a.y b.x b.y c.x c.y d.x d.y))

/-- e is a simple root of x′ (of y′) -/
def SRx (s : Seg ℝ) (e : ℝ) : Prop := SimpleRoot (dcoeffs s).1.1 (dcoeffs s).1.2.1 (dcoeffs s).1.2.2 e
def SRy (s : Seg ℝ) (e : ℝ) : Prop := SimpleRoot (dcoeffs s).2.1 (dcoeffs s).2.2.1 (dcoeffs s).2.2.2 e

theorem line_hasDeriv (p0 p1 x : ℝ) : HasDerivAt (fun s => p0 * (1 - s) + p1 * s) (p1 - p0) x := by
  have h := (((hasDerivAt_const x (1 : ℝ)).sub (hasDerivAt_id x)).const_mul p0).add ((hasDerivAt_id x).const_mul p1)
  exact h.congr_deriv (by ring)

theorem hasDeriv_x (s : Seg ℝ) (x : ℝ) :
    HasDerivAt (fun t => (s.eval t).x) ((dcoeffs s).1.1 * x * x + (dcoeffs s).1.2.1 * x + (dcoeffs s).1.2.2) x := by
  cases s with
  | line a b =>
    simp only [Seg.eval, dcoeffs, line_pointAtTime_x]
    exact (line_hasDeriv a.x b.x x).congr_deriv (by ring)
  | quad a b c =>
    simp only [Seg.eval, dcoeffs]
    exact (C01.quad_deriv_x a.x a.y b.x b.y c.x c.y x).congr_deriv (by simp only [gen_def]; ring)
  | cubic a b c d =>
    simp only [Seg.eval, dcoeffs]
    exact (C01.cubic_deriv_x a.x a.y b.x b.y c.x c.y d.x d.y x).congr_deriv (C02.droots_coeffs _ _ _ _ _ _ _ _ x).1.symm

theorem hasDeriv_y (s : Seg ℝ) (x : ℝ) :
    HasDerivAt (fun t => (s.eval t).y) ((dcoeffs s).2.1 * x * x + (dcoeffs s).2.2.1 * x + (dcoeffs s).2.2.2) x := by
  cases s with
  | line a b =>
    simp only [Seg.eval, dcoeffs, line_pointAtTime_y]
    exact (line_hasDeriv a.y b.y x).congr_deriv (by ring)
  | quad a b c =>
    simp only [Seg.eval, dcoeffs]
    exact (C01.quad_deriv_y a.x a.y b.x b.y c.x c.y x).congr_deriv (by simp only [gen_def]; ring)
  | cubic a b c d =>
    simp only [Seg.eval, dcoeffs]
    exact (C01.cubic_deriv_y a.x a.y b.x b.y c.x c.y d.x d.y x).congr_deriv (C02.droots_coeffs _ _ _ _ _ _ _ _ x).2.symm

/-- **every simple root of x′ or y′ inside [0.01, 0.99] is one of the reported extremes** -/
theorem band_mem (s : Seg ℝ) (e : ℝ) (h1 : (1 : ℝ) / 100 ≤ e) (h2 : e ≤ 99 / 100) (h : SRx s e ∨ SRy s e) :
    e ∈ extremes Real.sqrt s := by
  cases s with
  | line a b =>
    exfalso
    unfold SRx SRy SimpleRoot dcoeffs at h
    rcases h with ⟨_, (⟨_, hb⟩ | ⟨ha, _⟩)⟩ | ⟨_, (⟨_, hb⟩ | ⟨ha, _⟩)⟩ <;> simp at *
  | quad a b c =>
    simp only [extremes]
    rw [quad_findDRoots_mem]
    refine ⟨?_, h1, h2⟩
    unfold SRx SRy SimpleRoot dcoeffs at h
    simp only at h
    rcases h with ⟨hz, (⟨_, hb⟩ | ⟨ha, _⟩)⟩ | ⟨hz, (⟨_, hb⟩ | ⟨ha, _⟩)⟩
    · left
      have hA : a.x - 2 * b.x + c.x ≠ 0 := fun hh => hb (by rw [hh]; ring)
      refine ⟨hA, ?_⟩
      rw [eq_div_iff hA]
      linear_combination (1 / 2 : ℝ) * hz
    · exact absurd rfl ha
    · right
      have hA : a.y - 2 * b.y + c.y ≠ 0 := fun hh => hb (by rw [hh]; ring)
      refine ⟨hA, ?_⟩
      rw [eq_div_iff hA]
      linear_combination (1 / 2 : ℝ) * hz
    · exact absurd rfl ha
  | cubic a b c d =>
    simp only [extremes]
    rw [cubic_extremes_mem_iff]
    exact ⟨⟨h1, h2⟩, h⟩

/-! ### enclosure -/

/-- E bounds the control polygon's extent in x and in y -/
def Extent (s : Seg ℝ) (E : ℝ) : Prop := ∀ p ∈ s.points, ∀ q ∈ s.points, |p.x - q.x| ≤ E ∧ |p.y - q.y| ≤ E

/-- the generic step: the box is the hull of the points at 0, 1 and the reported extremes (`C02.bounds_is_hull`); every other
    candidate for a coordinate's maximum or minimum is a simple root in an end band, assumed to stay within δ of the end value -/
theorem enclosure_core (s : Seg ℝ) (δ : ℝ) (hδ : 0 ≤ δ)
    (hlo : ∀ e, 0 < e → e < (1 : ℝ) / 100 →
      (SRx s e → |(s.eval e).x - (s.eval 0).x| ≤ δ) ∧ (SRy s e → |(s.eval e).y - (s.eval 0).y| ≤ δ))
    (hhi : ∀ e, (99 : ℝ) / 100 < e → e < 1 →
      (SRx s e → |(s.eval e).x - (s.eval 1).x| ≤ δ) ∧ (SRy s e → |(s.eval e).y - (s.eval 1).y| ≤ δ)) :
    ∃ bb, bounds Real.sqrt s = some bb ∧ ∀ t ∈ Icc (0:ℝ) 1,
      (bb.l - δ ≤ (s.eval t).x ∧ (s.eval t).x ≤ bb.r + δ) ∧ (bb.b - δ ≤ (s.eval t).y ∧ (s.eval t).y ≤ bb.t + δ) := by
  obtain ⟨bb, hb, hh⟩ := C02.bounds_is_hull Real.sqrt s
  refine ⟨bb, hb, ?_⟩
  have hin : ∀ e, e ∈ boundsParams Real.sqrt s →
      bb.l ≤ (s.eval e).x ∧ (s.eval e).x ≤ bb.r ∧ bb.b ≤ (s.eval e).y ∧ (s.eval e).y ≤ bb.t :=
    fun e he => hh.1 (s.eval e) (List.mem_map.mpr ⟨e, he, rfl⟩)
  have h0 := hin 0 (by simp [boundsParams])
  have h1 := hin 1 (by simp [boundsParams])
  have hband : ∀ e, (1 : ℝ) / 100 ≤ e → e ≤ 99 / 100 → (SRx s e ∨ SRy s e) →
      bb.l ≤ (s.eval e).x ∧ (s.eval e).x ≤ bb.r ∧ bb.b ≤ (s.eval e).y ∧ (s.eval e).y ≤ bb.t := by
    intro e e1 e2 hs
    exact hin e (by unfold boundsParams; exact List.mem_append_left _ (band_mem s e e1 e2 hs))
  intro t ht
  constructor
  · exact coord_enclosed (fun t => (s.eval t).x) _ _ _ bb.l bb.r δ hδ (hasDeriv_x s) ⟨h0.1, h0.2.1⟩ ⟨h1.1, h1.2.1⟩
      (fun e e1 e2 hs => ⟨(hband e e1 e2 (Or.inl hs)).1, (hband e e1 e2 (Or.inl hs)).2.1⟩)
      (fun e e0 e1 hs => (hlo e e0 e1).1 hs) (fun e e0 e1 hs => (hhi e e0 e1).1 hs) t ht
  · exact coord_enclosed (fun t => (s.eval t).y) _ _ _ bb.b bb.t δ hδ (hasDeriv_y s) ⟨h0.2.2.1, h0.2.2.2⟩ ⟨h1.2.2.1, h1.2.2.2⟩
      (fun e e1 e2 hs => ⟨(hband e e1 e2 (Or.inr hs)).2.2.1, (hband e e1 e2 (Or.inr hs)).2.2.2⟩)
      (fun e e0 e1 hs => (hlo e e0 e1).2 hs) (fun e e0 e1 hs => (hhi e e0 e1).2 hs) t ht

/-- **C02, exact enclosure**: if no simple root of x′ or y′ lies strictly inside the first or the last 1 % of the parameter
    range, every point of the segment lies in the reported box. -/
theorem enclosure_exact (s : Seg ℝ)
    (hno : ∀ e, ((0 < e ∧ e < (1 : ℝ) / 100) ∨ ((99 : ℝ) / 100 < e ∧ e < 1)) → ¬ SRx s e ∧ ¬ SRy s e) :
    ∃ bb, bounds Real.sqrt s = some bb ∧ ∀ t ∈ Icc (0:ℝ) 1,
      (bb.l ≤ (s.eval t).x ∧ (s.eval t).x ≤ bb.r) ∧ (bb.b ≤ (s.eval t).y ∧ (s.eval t).y ≤ bb.t) := by
  obtain ⟨bb, hb, h⟩ := enclosure_core s 0 (le_refl _)
    (fun e e0 e1 => ⟨fun hs => absurd hs (hno e (Or.inl ⟨e0, e1⟩)).1, fun hs => absurd hs (hno e (Or.inl ⟨e0, e1⟩)).2⟩)
    (fun e e0 e1 => ⟨fun hs => absurd hs (hno e (Or.inr ⟨e0, e1⟩)).1, fun hs => absurd hs (hno e (Or.inr ⟨e0, e1⟩)).2⟩)
  refine ⟨bb, hb, fun t ht => ?_⟩
  have := h t ht
  simpa using this

/-- **C02, enclosure with the 0.06 % allowance**: for every segment and every t ∈ [0, 1] the point lies in the reported box
    enlarged by 6/10000 of the control polygon's extent. -/
theorem enclosure (s : Seg ℝ) (E : ℝ) (hE : Extent s E) :
    ∃ bb, bounds Real.sqrt s = some bb ∧ ∀ t ∈ Icc (0:ℝ) 1,
      (bb.l - 6 / 10000 * E ≤ (s.eval t).x ∧ (s.eval t).x ≤ bb.r + 6 / 10000 * E) ∧
      (bb.b - 6 / 10000 * E ≤ (s.eval t).y ∧ (s.eval t).y ≤ bb.t + 6 / 10000 * E) := by
  have hE0 : 0 ≤ E := by
    have := (hE s.start (by cases s <;> simp [Seg.start, Seg.points]) s.start (by cases s <;> simp [Seg.start, Seg.points])).1
    exact le_trans (abs_nonneg _) this
  apply enclosure_core s (6 / 10000 * E) (by positivity)
  · intro e e0 e1
    cases s with
    | line a b =>
      constructor <;> intro hs <;> exfalso <;> simp only [SRx, SRy, SimpleRoot, dcoeffs] at hs <;>
        (rcases hs with ⟨_, (⟨_, hb⟩ | ⟨ha, _⟩)⟩ <;> simp at *)
    | quad a b c =>
      have hab := hE a (by simp [Seg.points]) b (by simp [Seg.points])
      have hbc := hE b (by simp [Seg.points]) c (by simp [Seg.points])
      constructor <;> intro hs
      · have hz := hs.1
        simp only [dcoeffs] at hz
        have := quad_protrusion_lo a.x b.x c.x E e hab.1 hbc.1 (le_of_lt e0) (le_of_lt e1) (by linear_combination hz)
        simpa only [Seg.eval, quad_pointAtTime_x, qd] using this
      · have hz := hs.1
        simp only [dcoeffs] at hz
        have := quad_protrusion_lo a.y b.y c.y E e hab.2 hbc.2 (le_of_lt e0) (le_of_lt e1) (by linear_combination hz)
        simpa only [Seg.eval, quad_pointAtTime_y, qd] using this
    | cubic a b c d =>
      have hab := hE a (by simp [Seg.points]) b (by simp [Seg.points])
      have hbc := hE b (by simp [Seg.points]) c (by simp [Seg.points])
      have hcd := hE c (by simp [Seg.points]) d (by simp [Seg.points])
      constructor <;> intro hs
      · have hz := hs.1
        simp only [dcoeffs, gen_def] at hz
        have := cubic_protrusion_lo a.x b.x c.x d.x E e hab.1 hbc.1 hcd.1 (le_of_lt e0) (le_of_lt e1) (by linear_combination hz)
        simpa only [Seg.eval, cubic_pointAtTime_x, cub] using this
      · have hz := hs.1
        simp only [dcoeffs, gen_def] at hz
        have := cubic_protrusion_lo a.y b.y c.y d.y E e hab.2 hbc.2 hcd.2 (le_of_lt e0) (le_of_lt e1) (by linear_combination hz)
        simpa only [Seg.eval, cubic_pointAtTime_y, cub] using this
  · intro e e0 e1
    cases s with
    | line a b =>
      constructor <;> intro hs <;> exfalso <;> simp only [SRx, SRy, SimpleRoot, dcoeffs] at hs <;>
        (rcases hs with ⟨_, (⟨_, hb⟩ | ⟨ha, _⟩)⟩ <;> simp at *)
    | quad a b c =>
      have hab := hE a (by simp [Seg.points]) b (by simp [Seg.points])
      have hbc := hE b (by simp [Seg.points]) c (by simp [Seg.points])
      constructor <;> intro hs
      · have hz := hs.1
        simp only [dcoeffs] at hz
        have := quad_protrusion_hi a.x b.x c.x E e hab.1 hbc.1 (le_of_lt e0) (le_of_lt e1) (by linear_combination hz)
        simpa only [Seg.eval, quad_pointAtTime_x, qd] using this
      · have hz := hs.1
        simp only [dcoeffs] at hz
        have := quad_protrusion_hi a.y b.y c.y E e hab.2 hbc.2 (le_of_lt e0) (le_of_lt e1) (by linear_combination hz)
        simpa only [Seg.eval, quad_pointAtTime_y, qd] using this
    | cubic a b c d =>
      have hab := hE a (by simp [Seg.points]) b (by simp [Seg.points])
      have hbc := hE b (by simp [Seg.points]) c (by simp [Seg.points])
      have hcd := hE c (by simp [Seg.points]) d (by simp [Seg.points])
      constructor <;> intro hs
      · have hz := hs.1
        simp only [dcoeffs, gen_def] at hz
        have := cubic_protrusion_hi a.x b.x c.x d.x E e hab.1 hbc.1 hcd.1 (le_of_lt e0) (le_of_lt e1) (by linear_combination hz)
        simpa only [Seg.eval, cubic_pointAtTime_x, cub] using this
      · have hz := hs.1
        simp only [dcoeffs, gen_def] at hz
        have := cubic_protrusion_hi a.y b.y c.y d.y E e hab.2 hbc.2 hcd.2 (le_of_lt e0) (le_of_lt e1) (by linear_combination hz)
        simpa only [Seg.eval, cubic_pointAtTime_y, cub] using this

end C02E

/-! non-vacuity: a concrete arch.  x′ = 3(1 + 2t − 2t²) has no root in [0,1]; y′ = 6 − 12t vanishes at 1/2 only -/
namespace C02E
open Set Gen Extremes C03

example : Extent (Seg.cubic ⟨0, 0⟩ ⟨1, 2⟩ ⟨3, 2⟩ ⟨4, 0⟩ : Seg ℝ) 4 := by
  intro p hp q hq
  simp only [Seg.points, List.mem_cons, List.not_mem_nil, or_false] at hp hq
  rcases hp with rfl | rfl | rfl | rfl <;> rcases hq with rfl | rfl | rfl | rfl <;> norm_num [abs_le]

example : ∃ bb, bounds Real.sqrt (Seg.cubic ⟨0, 0⟩ ⟨1, 2⟩ ⟨3, 2⟩ ⟨4, 0⟩ : Seg ℝ) = some bb ∧ ∀ t ∈ Icc (0:ℝ) 1,
    (bb.l ≤ ((Seg.cubic ⟨0, 0⟩ ⟨1, 2⟩ ⟨3, 2⟩ ⟨4, 0⟩ : Seg ℝ).eval t).x ∧ ((Seg.cubic ⟨0, 0⟩ ⟨1, 2⟩ ⟨3, 2⟩ ⟨4, 0⟩ : Seg ℝ).eval t).x ≤ bb.r) ∧
    (bb.b ≤ ((Seg.cubic ⟨0, 0⟩ ⟨1, 2⟩ ⟨3, 2⟩ ⟨4, 0⟩ : Seg ℝ).eval t).y ∧ ((Seg.cubic ⟨0, 0⟩ ⟨1, 2⟩ ⟨3, 2⟩ ⟨4, 0⟩ : Seg ℝ).eval t).y ≤ bb.t) := by
  apply enclosure_exact
  intro e he
  constructor
  · intro hs
    have hz := hs.1
    simp only [dcoeffs, gen_def] at hz
    rcases he with ⟨h0, h1⟩ | ⟨h0, h1⟩ <;> nlinarith
  · intro hs
    have hz := hs.1
    simp only [dcoeffs, gen_def] at hz
    rcases he with ⟨h0, h1⟩ | ⟨h0, h1⟩ <;> nlinarith

end C02E
