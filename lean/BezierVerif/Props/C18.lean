/-
  C18 — tangent, normal and curvature agree with the exact derivatives.
  Theorems about Gen/Curv.lean (regenerated from segment.py, line.py, quadraticbezier.py,
  cubicbezier.py, point.py), with the first and second derivatives taken from C01's theorems.
-/
import BezierVerif.Gen.Eval
import BezierVerif.Gen.Curv
import BezierVerif.Props.C01
import BezierVerif.Lemmas.Polar
import BezierVerif.Tactics
import Mathlib.Analysis.SpecialFunctions.Pow.Real

set_option linter.unusedSectionVars false
set_option linter.unusedVariables false
set_option linter.unusedTactic false
set_option linter.unnecessarySeqFocus false

namespace C18
open Gen

/-! ### first and second derivative values (the derivative segments of C01) -/

section defs
variable {K : Type} [Field K] [LinearOrder K] [IsStrictOrderedRing K]
variable (p0x p0y p1x p1y p2x p2y p3x p3y t : K)

/-- value of the derivative segment of a cubic at t -/
def cD1x : K := quad_pointAtTime_x (cubic_derivative_d0x p0x p0y p1x p1y p2x p2y p3x p3y) (cubic_derivative_d0y p0x p0y p1x p1y p2x p2y p3x p3y)
  (cubic_derivative_d1x p0x p0y p1x p1y p2x p2y p3x p3y) (cubic_derivative_d1y p0x p0y p1x p1y p2x p2y p3x p3y)
  (cubic_derivative_d2x p0x p0y p1x p1y p2x p2y p3x p3y) (cubic_derivative_d2y p0x p0y p1x p1y p2x p2y p3x p3y) t
def cD1y : K := quad_pointAtTime_y (cubic_derivative_d0x p0x p0y p1x p1y p2x p2y p3x p3y) (cubic_derivative_d0y p0x p0y p1x p1y p2x p2y p3x p3y)
  (cubic_derivative_d1x p0x p0y p1x p1y p2x p2y p3x p3y) (cubic_derivative_d1y p0x p0y p1x p1y p2x p2y p3x p3y)
  (cubic_derivative_d2x p0x p0y p1x p1y p2x p2y p3x p3y) (cubic_derivative_d2y p0x p0y p1x p1y p2x p2y p3x p3y) t
/-- second derivative of a cubic at t (exact: 6((1-t)(P2-2P1+P0) + t(P3-2P2+P1))) -/
def cD2x (p0x p1x p2x p3x t : K) : K := 6 * ((1 - t) * (p2x - 2 * p1x + p0x) + t * (p3x - 2 * p2x + p1x))
def cD2y (p0y p1y p2y p3y t : K) : K := 6 * ((1 - t) * (p2y - 2 * p1y + p0y) + t * (p3y - 2 * p2y + p1y))
def qD1x : K := line_pointAtTime_x (quad_derivative_d0x p0x p0y p1x p1y p2x p2y) (quad_derivative_d0y p0x p0y p1x p1y p2x p2y)
  (quad_derivative_d1x p0x p0y p1x p1y p2x p2y) (quad_derivative_d1y p0x p0y p1x p1y p2x p2y) t
def qD1y : K := line_pointAtTime_y (quad_derivative_d0x p0x p0y p1x p1y p2x p2y) (quad_derivative_d0y p0x p0y p1x p1y p2x p2y)
  (quad_derivative_d1x p0x p0y p1x p1y p2x p2y) (quad_derivative_d1y p0x p0y p1x p1y p2x p2y) t
/-- second derivative of a quadratic (constant): 2(P2 - 2P1 + P0) -/
def qD2x (p0x p1x p2x : K) : K := 2 * (p2x - 2 * p1x + p0x)
def qD2y (p0y p1y p2y : K) : K := 2 * (p2y - 2 * p1y + p0y)
end defs

/-- `cD1`, `cD2` really are the first and second derivatives of the evaluated cubic. -/
theorem cubic_derivatives (p0x p0y p1x p1y p2x p2y p3x p3y t : ℝ) :
    HasDerivAt (fun s => cubic_pointAtTime_x p0x p0y p1x p1y p2x p2y p3x p3y s) (cD1x p0x p0y p1x p1y p2x p2y p3x p3y t) t ∧
    HasDerivAt (fun s => cubic_pointAtTime_y p0x p0y p1x p1y p2x p2y p3x p3y s) (cD1y p0x p0y p1x p1y p2x p2y p3x p3y t) t ∧
    HasDerivAt (fun s => cD1x p0x p0y p1x p1y p2x p2y p3x p3y s) (cD2x p0x p1x p2x p3x t) t ∧
    HasDerivAt (fun s => cD1y p0x p0y p1x p1y p2x p2y p3x p3y s) (cD2y p0y p1y p2y p3y t) t := by
  refine ⟨C01.cubic_deriv_x _ _ _ _ _ _ _ _ t, C01.cubic_deriv_y _ _ _ _ _ _ _ _ t, ?_, ?_⟩
  · exact (C01.quad_deriv_x _ _ _ _ _ _ t).congr_deriv (by simp only [gen_def, cD2x]; ring)
  · exact (C01.quad_deriv_y _ _ _ _ _ _ t).congr_deriv (by simp only [gen_def, cD2y]; ring)

theorem quad_derivatives (p0x p0y p1x p1y p2x p2y t : ℝ) :
    HasDerivAt (fun s => quad_pointAtTime_x p0x p0y p1x p1y p2x p2y s) (qD1x p0x p0y p1x p1y p2x p2y t) t ∧
    HasDerivAt (fun s => quad_pointAtTime_y p0x p0y p1x p1y p2x p2y s) (qD1y p0x p0y p1x p1y p2x p2y t) t ∧
    HasDerivAt (fun s => qD1x p0x p0y p1x p1y p2x p2y s) (qD2x p0x p1x p2x) t ∧
    HasDerivAt (fun s => qD1y p0x p0y p1x p1y p2x p2y s) (qD2y p0y p1y p2y) t := by
  refine ⟨C01.quad_deriv_x _ _ _ _ _ _ t, C01.quad_deriv_y _ _ _ _ _ _ t, ?_, ?_⟩
  · have h : HasDerivAt (fun s : ℝ => qD1x p0x p0y p1x p1y p2x p2y s) (qD2x p0x p1x p2x) t := by
      have e : (fun s : ℝ => qD1x p0x p0y p1x p1y p2x p2y s) = fun s => (p1x - p0x) * 2 + (qD2x p0x p1x p2x) * s := by
        funext s; simp only [qD1x, qD2x, gen_def]; ring
      rw [e]
      simpa using ((hasDerivAt_id t).const_mul (qD2x p0x p1x p2x)).const_add ((p1x - p0x) * 2)
    exact h
  · have e : (fun s : ℝ => qD1y p0x p0y p1x p1y p2x p2y s) = fun s => (p1y - p0y) * 2 + (qD2y p0y p1y p2y) * s := by
      funext s; simp only [qD1y, qD2y, gen_def]; ring
    rw [e]
    simpa using ((hasDerivAt_id t).const_mul (qD2y p0y p1y p2y)).const_add ((p1y - p0y) * 2)

/-! ### tangent = unit vector along the derivative; normal = tangent rotated 90° counter-clockwise -/

theorem cubic_tangent_spec (p0x p0y p1x p1y p2x p2y p3x p3y t : ℝ)
    (hne : cD1x p0x p0y p1x p1y p2x p2y p3x p3y t ≠ 0 ∨ cD1y p0x p0y p1x p1y p2x p2y p3x p3y t ≠ 0) :
    cubic_tangentAtTime Real.sqrt p0x p0y p1x p1y p2x p2y p3x p3y t =
      [cD1x p0x p0y p1x p1y p2x p2y p3x p3y t / Real.sqrt (cD1x p0x p0y p1x p1y p2x p2y p3x p3y t * cD1x p0x p0y p1x p1y p2x p2y p3x p3y t
          + cD1y p0x p0y p1x p1y p2x p2y p3x p3y t * cD1y p0x p0y p1x p1y p2x p2y p3x p3y t),
       cD1y p0x p0y p1x p1y p2x p2y p3x p3y t / Real.sqrt (cD1x p0x p0y p1x p1y p2x p2y p3x p3y t * cD1x p0x p0y p1x p1y p2x p2y p3x p3y t
          + cD1y p0x p0y p1x p1y p2x p2y p3x p3y t * cD1y p0x p0y p1x p1y p2x p2y p3x p3y t)] := by
  have h0 := Polar.sqrt_ss_ne_zero _ _ hne
  simp only [cD1x, cD1y, gen_def] at h0 ⊢
  rw [if_neg h0]

theorem quad_tangent_spec (p0x p0y p1x p1y p2x p2y t : ℝ)
    (hne : qD1x p0x p0y p1x p1y p2x p2y t ≠ 0 ∨ qD1y p0x p0y p1x p1y p2x p2y t ≠ 0) :
    quad_tangentAtTime Real.sqrt p0x p0y p1x p1y p2x p2y t =
      [qD1x p0x p0y p1x p1y p2x p2y t / Real.sqrt (qD1x p0x p0y p1x p1y p2x p2y t * qD1x p0x p0y p1x p1y p2x p2y t
          + qD1y p0x p0y p1x p1y p2x p2y t * qD1y p0x p0y p1x p1y p2x p2y t),
       qD1y p0x p0y p1x p1y p2x p2y t / Real.sqrt (qD1x p0x p0y p1x p1y p2x p2y t * qD1x p0x p0y p1x p1y p2x p2y t
          + qD1y p0x p0y p1x p1y p2x p2y t * qD1y p0x p0y p1x p1y p2x p2y t)] := by
  have h0 := Polar.sqrt_ss_ne_zero _ _ hne
  simp only [qD1x, qD1y, gen_def] at h0 ⊢
  rw [if_neg h0]

section normal
variable {K : Type} [Field K] [LinearOrder K] [IsStrictOrderedRing K]
/-- the normal of a curve is (−t_y, t_x) of its tangent — whatever `sqrt` is -/
theorem cubic_normal_spec (sqrt : K → K) (p0x p0y p1x p1y p2x p2y p3x p3y t : K) :
    cubic_normalAtTime sqrt p0x p0y p1x p1y p2x p2y p3x p3y t =
      (match cubic_tangentAtTime sqrt p0x p0y p1x p1y p2x p2y p3x p3y t with
       | [tx, ty] => [-ty, tx]
       | _ => []) := by
  simp only [gen_def]; split_ifs <;> simp
theorem quad_normal_spec (sqrt : K → K) (p0x p0y p1x p1y p2x p2y t : K) :
    quad_normalAtTime sqrt p0x p0y p1x p1y p2x p2y t =
      (match quad_tangentAtTime sqrt p0x p0y p1x p1y p2x p2y t with
       | [tx, ty] => [-ty, tx]
       | _ => []) := by
  simp only [gen_def]; split_ifs <;> simp

/-- start / end angle = direction (atan2) of the first / last control-polygon leg -/
theorem angles_spec (atan2 : K → K → K) (p0x p0y p1x p1y p2x p2y p3x p3y : K) :
    cubic_startAngle_v atan2 p0x p0y p1x p1y p2x p2y p3x p3y = atan2 (p1y - p0y) (p1x - p0x) ∧
    cubic_endAngle_v atan2 p0x p0y p1x p1y p2x p2y p3x p3y = atan2 (p3y - p2y) (p3x - p2x) ∧
    quad_startAngle_v atan2 p0x p0y p1x p1y p2x p2y = atan2 (p1y - p0y) (p1x - p0x) ∧
    quad_endAngle_v atan2 p0x p0y p1x p1y p2x p2y = atan2 (p2y - p1y) (p2x - p1x) ∧
    line_startAngle_v atan2 p0x p0y p1x p1y = atan2 (p1y - p0y) (p1x - p0x) ∧
    line_endAngle_v atan2 p0x p0y p1x p1y = atan2 (p1y - p0y) (p1x - p0x) := by
  simp only [gen_def, and_self]

/-! ### curvature = (x'y'' − y'x'') / (x'² + y'²)^(3/2) with the exact derivatives -/

theorem cubic_curvature_spec (rpow : K → K → K) (p0x p0y p1x p1y p2x p2y p3x p3y t : K) :
    cubic_curvatureAtTime_v rpow p0x p0y p1x p1y p2x p2y p3x p3y t =
      (cD1x p0x p0y p1x p1y p2x p2y p3x p3y t * cD2y p0y p1y p2y p3y t
        - cD1y p0x p0y p1x p1y p2x p2y p3x p3y t * cD2x p0x p1x p2x p3x t) /
      rpow (cD1x p0x p0y p1x p1y p2x p2y p3x p3y t ^ 2 + cD1y p0x p0y p1x p1y p2x p2y p3x p3y t ^ 2) (3 / 2) := by
  simp only [gen_def, cD1x, cD1y, cD2x, cD2y]
  congr 1
  ring

theorem quad_curvature_spec (rpow : K → K → K) (p0x p0y p1x p1y p2x p2y t : K) :
    quad_curvatureAtTime_v rpow p0x p0y p1x p1y p2x p2y t =
      (qD1x p0x p0y p1x p1y p2x p2y t * qD2y p0y p1y p2y
        - qD1y p0x p0y p1x p1y p2x p2y t * qD2x p0x p1x p2x) /
      rpow (qD1x p0x p0y p1x p1y p2x p2y t ^ 2 + qD1y p0x p0y p1x p1y p2x p2y t ^ 2) (3 / 2) := by
  simp only [gen_def, qD1x, qD1y, qD2x, qD2y]
  congr 1
  ring

/-- a line's curvature is a negligible constant -/
theorem line_curvature_negligible (p0x p0y p1x p1y t : K) :
    |line_curvatureAtTime_v p0x p0y p1x p1y t| < 1 / 1000000000000000 := by
  simp only [gen_def]; rw [abs_of_pos] <;> norm_num
end normal

/-! ### lines: tangent = unit chord direction (polar form: atan2 ↦ Complex.arg, cos, sin, sqrt real) -/

theorem line_tangent_spec (p0x p0y p1x p1y t : ℝ) (hne : p1x - p0x ≠ 0 ∨ p1y - p0y ≠ 0) :
    line_tangentAtTime Real.sqrt Real.cos Real.sin Polar.atan2 p0x p0y p1x p1y t =
      [(p1x - p0x) / Real.sqrt ((p1x - p0x) * (p1x - p0x) + (p1y - p0y) * (p1y - p0y)),
       (p1y - p0y) / Real.sqrt ((p1x - p0x) * (p1x - p0x) + (p1y - p0y) * (p1y - p0y))] := by
  simp only [gen_def, Polar.cos_sin_sq_sqrt, one_ne_zero, if_false, div_one]
  rw [Polar.cos_atan2 _ _ hne, Polar.sin_atan2 _ _ hne]

end C18
