/-
  C11 — the analytic heart of the even-odd rule for CURVED segments: a coordinate function crosses a level an odd number of
  times between two parameters iff its values there lie on opposite sides of the level, provided every crossing is simple
  (the derivative does not vanish there).  Intermediate value theorem + the sign of a function next to a simple root; induction
  over the sorted list of crossings.  `segment_crossing_parity` states it for the segments of the library (over ℝ).
-/
import BezierVerif.Props.C02E
import BezierVerif.Props.C11B
import BezierVerif.Props.CardanoC
import Mathlib.Analysis.Calculus.Deriv.Slope
import Mathlib.Topology.Order.IntermediateValue

set_option linter.unusedSectionVars false
set_option linter.unusedVariables false
set_option linter.unusedSimpArgs false

open Set Filter Topology

namespace Parity

/-- no root strictly between ⇒ same sign at both ends (both non-zero) -/
theorem same_sign_of_no_root (f : ℝ → ℝ) (hc : Continuous f) (a b : ℝ) (hab : a ≤ b)
    (hno : ∀ x, a < x → x < b → f x ≠ 0) (ha : f a ≠ 0) (hb : f b ≠ 0) : 0 < f a * f b := by
  rcases lt_or_gt_of_ne ha with ha' | ha' <;> rcases lt_or_gt_of_ne hb with hb' | hb'
  · exact mul_pos_of_neg_of_neg ha' hb'
  · exfalso
    have h0 : (0 : ℝ) ∈ Icc (f a) (f b) := ⟨le_of_lt ha', le_of_lt hb'⟩
    obtain ⟨x, hx, hz⟩ := intermediate_value_Icc hab hc.continuousOn h0
    have h1 : a < x := lt_of_le_of_ne hx.1 (by rintro rfl; exact ha hz)
    have h2 : x < b := lt_of_le_of_ne hx.2 (by rintro rfl; exact hb hz)
    exact hno x h1 h2 hz
  · exfalso
    have h0 : (0 : ℝ) ∈ Icc (f b) (f a) := ⟨le_of_lt hb', le_of_lt ha'⟩
    obtain ⟨x, hx, hz⟩ := intermediate_value_Icc' hab hc.continuousOn h0
    have h1 : a < x := lt_of_le_of_ne hx.1 (by rintro rfl; exact ha hz)
    have h2 : x < b := lt_of_le_of_ne hx.2 (by rintro rfl; exact hb hz)
    exact hno x h1 h2 hz
  · exact mul_pos ha' hb'

/-- at a simple root the function has the sign of f′(r)(x − r) on a punctured neighbourhood -/
theorem sign_near_simple_root (f : ℝ → ℝ) (d r : ℝ) (hd : HasDerivAt f d r) (hz : f r = 0) (hne : d ≠ 0) :
    ∃ δ > 0, ∀ x, x ≠ r → |x - r| < δ → 0 < f x * (d * (x - r)) := by
  have hs := hasDerivAt_iff_tendsto_slope.mp hd
  have hpos : ∀ᶠ x in 𝓝[≠] r, 0 < slope f r x * d := by
    have : Tendsto (fun x => slope f r x * d) (𝓝[≠] r) (𝓝 (d * d)) := hs.mul_const d
    exact this.eventually (lt_mem_nhds (mul_self_pos.mpr hne))
  rw [eventually_nhdsWithin_iff, Metric.eventually_nhds_iff] at hpos
  obtain ⟨δ, hδ, h⟩ := hpos
  refine ⟨δ, hδ, ?_⟩
  intro x hx hdist
  have := h (by rw [Real.dist_eq]; exact hdist) hx
  rw [slope_def_field, hz, sub_zero] at this
  have hxr : x - r ≠ 0 := sub_ne_zero.mpr hx
  have e : f x * (d * (x - r)) = (f x / (x - r) * d) * ((x - r) * (x - r)) := by field_simp
  rw [e]
  exact mul_pos this (mul_self_pos.mpr hxr)


/-- **the number of simple roots strictly between a and b has the parity of the sign change**: `roots` lists, in increasing order,
    exactly the zeros of f in (a, b); at each the derivative does not vanish; f(a), f(b) ≠ 0.  Then the list has odd length
    iff f(a) and f(b) have opposite signs. -/
theorem parity_simple_roots (f f' : ℝ → ℝ) (hd : ∀ x, HasDerivAt f (f' x) x) :
    ∀ (roots : List ℝ) (a b : ℝ), a < b → roots.Pairwise (· < ·) → (∀ r ∈ roots, a < r ∧ r < b) →
      (∀ x, a < x → x < b → (f x = 0 ↔ x ∈ roots)) → (∀ r ∈ roots, f' r ≠ 0) → f a ≠ 0 → f b ≠ 0 →
      (roots.length % 2 = 1 ↔ f a * f b < 0) := by
  have hc : Continuous f := continuous_iff_continuousAt.mpr fun x => (hd x).continuousAt
  intro roots
  induction roots with
  | nil =>
    intro a b hab _ _ hroots _ ha hb
    have := same_sign_of_no_root f hc a b (le_of_lt hab) (fun x h1 h2 hz => by simpa using (hroots x h1 h2).mp hz) ha hb
    constructor
    · intro h; simp at h
    · intro h; linarith
  | cons r rs ih =>
    intro a b hab hsorted hin hroots hsimple ha hb
    rw [List.pairwise_cons] at hsorted
    obtain ⟨hr_lt, hrs_sorted⟩ := hsorted
    obtain ⟨har, hrb⟩ := hin r (by simp)
    have hfr : f r = 0 := (hroots r har hrb).mpr (by simp)
    obtain ⟨δ, hδ, hnear⟩ := sign_near_simple_root f (f' r) r (hd r) hfr (hsimple r (by simp))
    -- a point just left of r
    set xl := r - min δ (r - a) / 2 with hxl
    have hmin1 : 0 < min δ (r - a) := lt_min hδ (by linarith)
    have hxl1 : a < xl := by
      have : min δ (r - a) ≤ r - a := min_le_right _ _
      rw [hxl]; linarith
    have hxl2 : xl < r := by rw [hxl]; linarith
    have hxl3 : |xl - r| < δ := by
      have : min δ (r - a) ≤ δ := min_le_left _ _
      rw [hxl, abs_lt]; constructor <;> linarith
    have hl := hnear xl (ne_of_lt hxl2) hxl3
    have hno_left : ∀ x, a < x → x < xl → f x ≠ 0 := by
      intro x h1 h2 hz
      have hx := (hroots x h1 (by linarith)).mp hz
      rcases List.mem_cons.mp hx with rfl | hx
      · linarith
      · have := hr_lt x hx; linarith
    have hfxl : f xl ≠ 0 := by
      intro h0; rw [h0, zero_mul] at hl; exact lt_irrefl _ hl
    have hsl := same_sign_of_no_root f hc a xl (le_of_lt hxl1) hno_left ha hfxl
    -- a point just right of r, before the next root
    set ub := rs.head?.getD b with hub
    have hub1 : r < ub := by
      cases rs with
      | nil => simpa [hub] using hrb
      | cons s ss => simpa [hub] using hr_lt s (by simp)
    have hub2 : ub ≤ b := by
      cases rs with
      | nil => simp [hub]
      | cons s ss => simpa [hub] using le_of_lt (hin s (by simp)).2
    have hub3 : ∀ s ∈ rs, ub ≤ s := by
      intro s hs
      cases rs with
      | nil => simp at hs
      | cons t ts =>
        simp only [hub, List.head?_cons, Option.getD_some]
        rcases List.mem_cons.mp hs with rfl | hs'
        · exact le_refl _
        · exact le_of_lt ((List.pairwise_cons.mp hrs_sorted).1 s hs')
    set m := r + min δ (ub - r) / 2 with hm
    have hmin2 : 0 < min δ (ub - r) := lt_min hδ (by linarith)
    have hm1 : r < m := by rw [hm]; linarith
    have hm2 : m < ub := by
      have : min δ (ub - r) ≤ ub - r := min_le_right _ _
      rw [hm]; linarith
    have hm3 : |m - r| < δ := by
      have : min δ (ub - r) ≤ δ := min_le_left _ _
      rw [hm, abs_lt]; constructor <;> linarith
    have hr' := hnear m (ne_of_gt hm1) hm3
    have hfm : f m ≠ 0 := by
      intro h0; rw [h0, zero_mul] at hr'; exact lt_irrefl _ hr'
    have hmb : m < b := lt_of_lt_of_le hm2 hub2
    -- f a and f m have opposite signs
    have hopp : f a * f m < 0 := by
      have h1 : f xl * f' r < 0 := by
        have : f xl * (f' r * (xl - r)) = (f xl * f' r) * (xl - r) := by ring
        rw [this] at hl
        by_contra hcon; push Not at hcon
        have : (f xl * f' r) * (xl - r) ≤ 0 := mul_nonpos_of_nonneg_of_nonpos hcon (by linarith)
        linarith
      have h2 : 0 < f m * f' r := by
        have : f m * (f' r * (m - r)) = (f m * f' r) * (m - r) := by ring
        rw [this] at hr'
        by_contra hcon; push Not at hcon
        have : (f m * f' r) * (m - r) ≤ 0 := mul_nonpos_of_nonpos_of_nonneg hcon (by linarith)
        linarith
      -- (f a f xl)(f xl f')(f m f') < 0 and equals (f a f m) (f xl)² (f')²
      have h3 : (f a * f xl) * (f xl * f' r) * (f m * f' r) < 0 :=
        mul_neg_of_neg_of_pos (mul_neg_of_pos_of_neg hsl h1) h2
      have e : (f a * f xl) * (f xl * f' r) * (f m * f' r) = (f a * f m) * ((f xl * f' r) * (f xl * f' r)) := by ring
      rw [e] at h3
      have hsq : 0 < (f xl * f' r) * (f xl * f' r) := mul_self_pos.mpr (ne_of_lt h1)
      by_contra hcon; push Not at hcon
      have := mul_nonneg hcon (le_of_lt hsq)
      linarith
    -- the remaining roots are exactly the zeros in (m, b)
    have ih' := ih m b hmb hrs_sorted
      (fun s hs => ⟨lt_of_lt_of_le hm2 (hub3 s hs), (hin s (List.mem_cons_of_mem _ hs)).2⟩)
      (fun x h1 h2 => by
        constructor
        · intro hz
          have hx := (hroots x (by linarith) h2).mp hz
          rcases List.mem_cons.mp hx with rfl | hx
          · linarith
          · exact hx
        · intro hx
          exact (hroots x (by linarith) h2).mpr (List.mem_cons_of_mem _ hx))
      (fun s hs => hsimple s (List.mem_cons_of_mem _ hs)) hfm hb
    -- combine
    have hkey : (f a * f b < 0) ↔ ¬ (f m * f b < 0) := by
      have e : (f a * f b) * (f m * f m) = (f a * f m) * (f m * f b) := by ring
      have hsq : 0 < f m * f m := mul_self_pos.mpr hfm
      have hmb' : f m * f b ≠ 0 := mul_ne_zero hfm hb
      constructor
      · intro h hcon
        have h1 : (f a * f b) * (f m * f m) < 0 := mul_neg_of_neg_of_pos h hsq
        rw [e] at h1
        have : 0 < (f a * f m) * (f m * f b) := mul_pos_of_neg_of_neg hopp hcon
        linarith
      · intro h
        have hpos : 0 < f m * f b := lt_of_le_of_ne (not_lt.mp h) (Ne.symm hmb')
        have h1 : (f a * f m) * (f m * f b) < 0 := mul_neg_of_neg_of_pos hopp hpos
        rw [← e] at h1
        by_contra hcon; push Not at hcon
        have := mul_nonneg hcon (le_of_lt hsq)
        linarith
    rw [hkey, ← ih']
    simp only [List.length_cons]
    omega


open Gen Extremes C02E in
/-- **every segment crosses a horizontal level an odd number of times iff its end points lie on opposite sides of it**, when the
    level avoids the end points and every crossing is simple (ẏ ≠ 0 there): `crossings` is the increasing list of ALL parameters in
    (0, 1) at which the segment is level with py.  (For the library's cubic / line machinery the list is what
    `CubicBezier._findRoots` returns: sound and complete by `Cardano.cubicRoots_cardano_sound` / `CardanoC.cubicRoots_cardano_complete`.) -/
theorem segment_crossing_parity (s : Seg ℝ) (py : ℝ) (crossings : List ℝ)
    (hsorted : crossings.Pairwise (· < ·)) (hin : ∀ t ∈ crossings, 0 < t ∧ t < 1)
    (hall : ∀ t, 0 < t → t < 1 → ((s.eval t).y = py ↔ t ∈ crossings))
    (hsimple : ∀ t ∈ crossings, (dcoeffs s).2.1 * t * t + (dcoeffs s).2.2.1 * t + (dcoeffs s).2.2.2 ≠ 0)
    (h0 : s.start.y ≠ py) (h1 : s.end.y ≠ py) :
    crossings.length % 2 = 1 ↔ ((s.start.y < py ∧ py < s.end.y) ∨ (s.end.y < py ∧ py < s.start.y)) := by
  have hd : ∀ x, HasDerivAt (fun t => (s.eval t).y - py)
      ((dcoeffs s).2.1 * x * x + (dcoeffs s).2.2.1 * x + (dcoeffs s).2.2.2) x := fun x => (hasDeriv_y s x).sub_const py
  have e0 : (s.eval 0).y = s.start.y := by rw [Seg.eval_zero]
  have e1 : (s.eval 1).y = s.end.y := by rw [Seg.eval_one]
  have key := parity_simple_roots (fun t => (s.eval t).y - py) _ hd crossings 0 1 (by norm_num) hsorted hin
    (fun x hx0 hx1 => by
      simp only [sub_eq_zero]
      exact hall x hx0 hx1)
    hsimple (by simp only [e0]; exact sub_ne_zero.mpr h0) (by simp only [e1]; exact sub_ne_zero.mpr h1)
  rw [key]
  simp only [e0, e1]
  constructor
  · intro h
    rcases lt_or_gt_of_ne h0 with a | a <;> rcases lt_or_gt_of_ne h1 with b | b
    · exfalso; have := mul_pos_of_neg_of_neg (sub_neg.mpr a) (sub_neg.mpr b); linarith
    · exact Or.inl ⟨a, b⟩
    · exact Or.inr ⟨b, a⟩
    · exfalso; have := mul_pos (sub_pos.mpr a) (sub_pos.mpr b); linarith
  · rintro (⟨a, b⟩ | ⟨a, b⟩)
    · exact mul_neg_of_neg_of_pos (sub_neg.mpr a) (sub_pos.mpr b)
    · exact mul_neg_of_pos_of_neg (sub_pos.mpr b) (sub_neg.mpr a)

end Parity

/-! ### even-odd for closed paths MIXING lines and curves, under a per-segment hypothesis -/

namespace C11B
open Gen C05M Winding
variable {K : Type} [Field K] [LinearOrder K] [IsStrictOrderedRing K] [DecidableEq K]

theorem zip_map_map {α β γ : Type} (l : List α) (f : α → β) (g : α → γ) : (l.map f).zip (l.map g) = l.map fun x => (f x, g x) := by
  induction l with
  | nil => rfl
  | cons a l ih => simp [ih]

/-- **even-odd for any closed path**: `rows` = every segment with the crossing pairs the two rays report for it.  If
    (Hseg) for every segment the two rays together report an odd number of crossings exactly when the segment's end points lie on
    opposite sides of the query level, (closed) the chords of the segments are the wrap-around edges of a vertex list none of whose
    vertices is level with the query point, and (K6) no two crossings on one ray coincide, then `pointIsInside` answers true exactly
    when the left ray reports an odd number of crossings. -/
theorem mixed_even_odd (rows : List (Seg K × List (K × K) × List (K × K))) (py : K) (a : Pt K) (rest : List (Pt K))
    (hclosed : rows.map (fun r => (r.1.start, r.1.end)) = Clip.wrapEdges (a :: rest))
    (hlev : ∀ v ∈ a :: rest, v.y ≠ py)
    (hseg : ∀ r ∈ rows, (r.2.1.length + r.2.2.length) % 2 = if Straddle r.1.start.y r.1.end.y py then 1 else 0)
    (hdL : ((flatHits 0 (rows.map fun r => (r.1, r.2.1))).map (·.pt)).Nodup)
    (hdR : ((flatHits 0 (rows.map fun r => (r.1, r.2.2))).map (·.pt)).Nodup) :
    inside own (rows.map (·.1)) (rows.map (·.2.1)) (rows.map (·.2.2)) = true ↔ (rows.map (·.2.1.length)).sum % 2 = 1 := by
  have lenL : (collect 0 ((rows.map (·.1)).zip (rows.map (·.2.1))) []).length = (rows.map (·.2.1.length)).sum := by
    rw [zip_map_map, collect_flat 0 _ [] (by simpa using hdL)]
    simp only [List.nil_append]
    rw [flatHits_length, List.map_map]; rfl
  have lenR : (collect 0 ((rows.map (·.1)).zip (rows.map (·.2.2))) []).length = (rows.map (·.2.2.length)).sum := by
    rw [zip_map_map, collect_flat 0 _ [] (by simpa using hdR)]
    simp only [List.nil_append]
    rw [flatHits_length, List.map_map]; rfl
  -- the straddling segments are even in number (closed chain)
  have heven : (rows.countP fun r => decide (Straddle r.1.start.y r.1.end.y py)) % 2 = 0 := by
    have h := straddle_even py a rest hlev
    rw [← hclosed, List.countP_map] at h
    exact h
  -- Σ (left + right) ≡ number of straddling segments (mod 2)
  have hsum : ∀ (l : List (Seg K × List (K × K) × List (K × K))),
      (∀ r ∈ l, (r.2.1.length + r.2.2.length) % 2 = if Straddle r.1.start.y r.1.end.y py then 1 else 0) →
      ((l.map (·.2.1.length)).sum + (l.map (·.2.2.length)).sum) % 2 =
        (l.countP fun r => decide (Straddle r.1.start.y r.1.end.y py)) % 2 := by
    intro l
    induction l with
    | nil => intro _; rfl
    | cons r l ih =>
      intro h
      have h1 := h r (by simp)
      have h2 := ih (fun r' hr' => h r' (List.mem_cons_of_mem _ hr'))
      simp only [List.map_cons, List.sum_cons, List.countP_cons]
      by_cases hs : Straddle r.1.start.y r.1.end.y py
      · rw [if_pos hs] at h1
        simp only [hs, decide_true, if_true]
        omega
      · rw [if_neg hs] at h1
        simp only [hs, decide_false, Bool.false_eq_true, if_false]
        omega
  have hpar := hsum rows hseg
  rw [heven] at hpar
  rw [C11.inside_iff_odd_left own _ _ _ (by rw [lenL, lenR]; omega), lenL]

/-- (Hseg) for a curved segment from the analytic parity theorem: if the two rays together report each level crossing of the segment
    exactly once — `crossings` being the increasing list of all parameters in (0, 1) where the segment is level with py, all of them
    simple — then the reported number is odd exactly when the segment straddles the level. -/
theorem hseg_of_partition (s : Seg ℝ) (py : ℝ) (crossings : List ℝ) (nL nR : Nat)
    (hsorted : crossings.Pairwise (· < ·)) (hin : ∀ t ∈ crossings, 0 < t ∧ t < 1)
    (hall : ∀ t, 0 < t → t < 1 → ((s.eval t).y = py ↔ t ∈ crossings))
    (hsimple : ∀ t ∈ crossings, (C02E.dcoeffs s).2.1 * t * t + (C02E.dcoeffs s).2.2.1 * t + (C02E.dcoeffs s).2.2.2 ≠ 0)
    (h0 : s.start.y ≠ py) (h1 : s.end.y ≠ py) (hpart : nL + nR = crossings.length) :
    (nL + nR) % 2 = if Straddle s.start.y s.end.y py then 1 else 0 := by
  have := Parity.segment_crossing_parity s py crossings hsorted hin hall hsimple h0 h1
  rw [hpart]
  by_cases hs : Straddle s.start.y s.end.y py
  · rw [if_pos hs]; exact this.mpr hs
  · rw [if_neg hs]
    have : ¬ crossings.length % 2 = 1 := fun h => hs (this.mp h)
    omega

end C11B

/-! ### the two rays partition the level crossings of a curved segment -/

namespace C11B
open Gen C05M Winding Inter
variable {K : Type} [Field K] [LinearOrder K] [IsStrictOrderedRing K]

/-- a level crossing at abscissa `xt` in clear position with respect to the two rays (far ends lx < rx, common near end px):
    strictly between the far ends, not at px, and neither ray parameter inside a tolerance band of the range filter -/
structure PClear (lx px rx xt : K) : Prop where
  lo : lx < xt
  hi : xt < rx
  ne : xt ≠ px
  bandL : ¬ (0 ≤ (xt - lx) / (px - lx) ∧ (xt - lx) / (px - lx) < (1 : K) / 5000000) ∧
          ¬ (1 ≤ (xt - lx) / (px - lx) ∧ (xt - lx) / (px - lx) ≤ (5000001 : K) / 5000000)
  bandR : ¬ (0 ≤ (xt - rx) / (px - rx) ∧ (xt - rx) / (px - rx) < (1 : K) / 5000000) ∧
          ¬ (1 ≤ (xt - rx) / (px - rx) ∧ (xt - rx) / (px - rx) ≤ (5000001 : K) / 5000000)

theorem within_iff (t : K) : within t = true ↔ (1 : K) / 5000000 ≤ t ∧ t ≤ (5000001 : K) / 5000000 := by
  unfold within
  simp only [Bool.and_eq_true, Bool.not_eq_true', decide_eq_false_iff_not, not_lt]

/-- **exactly one of the two rays keeps the crossing** -/
theorem one_ray (lx px rx xt : K) (hl : px ≠ lx) (hr : px ≠ rx) (hlr : lx < rx) (h : PClear lx px rx xt) :
    (within ((xt - lx) / (px - lx)) = true ∧ within ((xt - rx) / (px - rx)) = false) ∨
    (within ((xt - lx) / (px - lx)) = false ∧ within ((xt - rx) / (px - rx)) = true) := by
  obtain ⟨lo, hi, ne, ⟨bL0, bL1⟩, ⟨bR0, bR1⟩⟩ := h
  set TL := (xt - lx) / (px - lx) with hTL
  set TR := (xt - rx) / (px - rx) with hTR
  have wfalse : ∀ T : K, (T < 0 ∨ (5000001 : K) / 5000000 < T) → within T = false := by
    intro T hT
    rw [← Bool.not_eq_true, within_iff]
    rintro ⟨h1, h2⟩
    rcases hT with h | h
    · have : (0 : K) < 1 / 5000000 := by norm_num
      linarith
    · linarith
  have wtrue : ∀ T : K, 0 < T → T < 1 → ¬ (0 ≤ T ∧ T < (1 : K) / 5000000) → within T = true := by
    intro T h0 h1 hb
    rw [within_iff]
    refine ⟨?_, ?_⟩
    · by_contra hc; push Not at hc; exact hb ⟨le_of_lt h0, hc⟩
    · have : (1 : K) < 5000001 / 5000000 := by norm_num
      linarith
  have big : ∀ T : K, 1 < T → ¬ (1 ≤ T ∧ T ≤ (5000001 : K) / 5000000) → (5000001 : K) / 5000000 < T := by
    intro T h1 hb
    by_contra hc; push Not at hc; exact hb ⟨le_of_lt h1, hc⟩
  have hpl : px - lx ≠ 0 := sub_ne_zero.mpr hl
  have hpr : px - rx ≠ 0 := sub_ne_zero.mpr hr
  rcases lt_or_gt_of_ne hl with hpl' | hpl'
  · -- px < lx: the left ray points away; the right ray spans lx .. rx and beyond
    right
    constructor
    · apply wfalse; left
      exact div_neg_of_pos_of_neg (by linarith) (by linarith)
    · apply wtrue
      · exact div_pos_of_neg_of_neg (by linarith) (by linarith)
      · rw [div_lt_one_of_neg (by linarith)]; linarith
      · exact bR0
  · rcases lt_or_gt_of_ne hr with hpr' | hpr'
    · -- lx < px < rx
      rcases lt_or_gt_of_ne ne with hx | hx
      · left
        constructor
        · apply wtrue
          · exact div_pos (by linarith) (by linarith)
          · rw [div_lt_one (by linarith)]; linarith
          · exact bL0
        · apply wfalse; right
          apply big
          · rw [lt_div_iff_of_neg (by linarith)]; linarith
          · exact bR1
      · right
        constructor
        · apply wfalse; right
          apply big
          · rw [lt_div_iff₀ (by linarith)]; linarith
          · exact bL1
        · apply wtrue
          · exact div_pos_of_neg_of_neg (by linarith) (by linarith)
          · rw [div_lt_one_of_neg (by linarith)]; linarith
          · exact bR0
    · -- rx < px: the right ray points away
      left
      constructor
      · apply wtrue
        · exact div_pos (by linarith) (by linarith)
        · rw [div_lt_one (by linarith)]; linarith
        · exact bL0
      · apply wfalse; left
        exact div_neg_of_neg_of_pos (by linarith) (by linarith)

/-- the ray parameter of a point for a horizontal ray that is not degenerate -/
theorem sworn_horizontal (x0 px py qx qy : K) (hne : ¬ isclose px x0 ((1 : K) / 1000000000) 0) :
    tOfPointSworn (Seg.line ⟨x0, py⟩ ⟨px, py⟩) ⟨qx, qy⟩ = (qx - x0) / (px - x0) := by
  simp only [tOfPointSworn, line_tOfPoint_sworn_v, line_tOfPoint_sworn, if_neg hne, List.headD_cons]

/-- **the two rays together report every level crossing of a curved segment exactly once**: `ts` = the parameters the root finder
    hands to both rays, each of them inside the range filter and in clear position -/
theorem curve_partition (s : Seg K) (ts : List K) (lx px rx py : K)
    (hl : ¬ isclose px lx ((1 : K) / 1000000000) 0) (hr : ¬ isclose px rx ((1 : K) / 1000000000) 0) (hlr : lx < rx)
    (hts : ∀ t ∈ ts, within t = true ∧ PClear lx px rx (s.eval t).x) :
    (curveLine ts s (Seg.line ⟨lx, py⟩ ⟨px, py⟩)).length + (curveLine ts s (Seg.line ⟨rx, py⟩ ⟨px, py⟩)).length = ts.length := by
  have hpl : px ≠ lx := fun h => hl (by rw [h]; exact isclose_self _ _)
  have hpr : px ≠ rx := fun h => hr (by rw [h]; exact isclose_self _ _)
  unfold curveLine
  induction ts with
  | nil => simp
  | cons t ts ih =>
    have ih' := ih (fun t' ht' => hts t' (List.mem_cons_of_mem _ ht'))
    obtain ⟨hw, hc⟩ := hts t (by simp)
    simp only [List.map_cons, List.filter_cons]
    rw [sworn_horizontal lx px py _ _ hl, sworn_horizontal rx px py _ _ hr]
    rcases one_ray lx px rx _ hpl hpr hlr hc with ⟨h1, h2⟩ | ⟨h1, h2⟩
    · simp only [hw, h1, h2, Bool.and_self, Bool.and_false, if_true, Bool.false_eq_true, if_false, List.length_cons]
      omega
    · simp only [hw, h1, h2, Bool.and_self, Bool.and_false, if_true, Bool.false_eq_true, if_false, List.length_cons]
      omega

end C11B

namespace C11B
open Gen C05M Winding Inter

theorem segHits_curve (sqrt : ℝ → ℝ) (s : Seg ℝ) (hs : 2 < s.order) (x0 px py : ℝ) (aligned : Seg ℝ) (cardano : List ℝ) :
    segHits sqrt s x0 px py aligned cardano = curveLine (curveLineT sqrt aligned cardano) s (Seg.line ⟨x0, py⟩ ⟨px, py⟩) := by
  cases s with
  | line a b => simp [Seg.order, Seg.points] at hs
  | quad a b c => simp [segHits, intersections, Seg.order, Seg.points]
  | cubic a b c d => simp [segHits, intersections, Seg.order, Seg.points]

/-- **(Hseg) for a curved segment of the winding model.**  If the root finder hands both rays exactly the level crossings of the
    segment (`crossings`: increasing, all of them, each simple — for cubics in the Cardano branch that is
    `cubicRoots_cardano_sound` / `cubicRoots_cardano_complete`), and every crossing is inside the range filter and in clear position
    with respect to the rays, then the two rays together report an odd number of crossings exactly when the segment's end points lie on
    opposite sides of the level. -/
theorem curve_hseg (s : Seg ℝ) (hs : 2 < s.order) (lx px rx py : ℝ) (alignedL alignedR : Seg ℝ) (cardL cardR crossings : List ℝ)
    (hL : curveLineT Real.sqrt alignedL cardL = crossings) (hR : curveLineT Real.sqrt alignedR cardR = crossings)
    (hl : ¬ isclose px lx ((1 : ℝ) / 1000000000) 0) (hr : ¬ isclose px rx ((1 : ℝ) / 1000000000) 0) (hlr : lx < rx)
    (hsorted : crossings.Pairwise (· < ·)) (hin : ∀ t ∈ crossings, 0 < t ∧ t < 1)
    (hall : ∀ t, 0 < t → t < 1 → ((s.eval t).y = py ↔ t ∈ crossings))
    (hsimple : ∀ t ∈ crossings, (C02E.dcoeffs s).2.1 * t * t + (C02E.dcoeffs s).2.2.1 * t + (C02E.dcoeffs s).2.2.2 ≠ 0)
    (h0 : s.start.y ≠ py) (h1 : s.end.y ≠ py)
    (hclear : ∀ t ∈ crossings, within t = true ∧ PClear lx px rx (s.eval t).x) :
    ((segHits Real.sqrt s lx px py alignedL cardL).length + (segHits Real.sqrt s rx px py alignedR cardR).length) % 2 =
      if Straddle s.start.y s.end.y py then 1 else 0 := by
  rw [segHits_curve _ s hs, segHits_curve _ s hs, hL, hR]
  exact hseg_of_partition s py crossings _ _ hsorted hin hall hsimple h0 h1
    (curve_partition s crossings lx px rx py hl hr hlr hclear)

end C11B

namespace C11B
open Gen C05M Winding Inter
variable {K : Type} [Field K] [LinearOrder K] [IsStrictOrderedRing K] [DecidableEq K]

/-- **(Hseg) for a line segment**: an edge in clear position with respect to both rays whose crossing (if it straddles the level) lies
    strictly between the rays' far ends is reported by exactly one ray if it straddles the level and by none otherwise -/
theorem line_hseg (sqrt : K → K) (lx px rx py : K) (e : Edge K) (hcL : eClear lx px py e) (hcR : eClear rx px py e)
    (hbox : eStraddle py e → lx < eX py e ∧ eX py e < rx) :
    ((segHits sqrt (Seg.line e.1 e.2) lx px py (Seg.line e.1 e.2) []).length +
     (segHits sqrt (Seg.line e.1 e.2) rx px py (Seg.line e.1 e.2) []).length) % 2 =
      if Straddle e.1.y e.2.y py then 1 else 0 := by
  rw [segHits_line sqrt lx px py e hcL, segHits_line sqrt rx px py e hcR]
  have hL := hit_left lx px py e hcL (fun hs => (hbox hs).1)
  have hR := hit_right rx px py e hcR (fun hs => (hbox hs).2)
  by_cases hs : eStraddle py e
  · have hs' : Straddle e.1.y e.2.y py := hs
    rw [if_pos hs']
    have hne := cross_ne_px lx px py e hcL hs
    rcases lt_or_gt_of_ne hne with h | h
    · have h1 : eHit lx px py e := hL.mpr ⟨hs, h⟩
      have h2 : ¬ eHit rx px py e := fun hh => absurd (hR.mp hh).2 (not_lt.mpr (le_of_lt h))
      simp only [h1, h2, if_true, if_false, List.length_singleton, List.length_nil]
    · have h1 : ¬ eHit lx px py e := fun hh => absurd (hL.mp hh).2 (not_lt.mpr (le_of_lt h))
      have h2 : eHit rx px py e := hR.mpr ⟨hs, h⟩
      simp only [h1, h2, if_true, if_false, List.length_singleton, List.length_nil]
  · have hs' : ¬ Straddle e.1.y e.2.y py := hs
    rw [if_neg hs']
    have h1 : ¬ eHit lx px py e := fun hh => hs (hL.mp hh).1
    have h2 : ¬ eHit rx px py e := fun hh => hs (hR.mp hh).1
    simp only [h1, h2, if_false, List.length_nil]

end C11B

/-! ### (Hseg) for a cubic in the Cardano branch, from the regenerated root finder -/

namespace C11B
open Gen C05M Winding Inter

/-- the y-polynomial `_findRoots('y')` solves for a cubic with these control points -/
noncomputable def ypoly (q0 q1 q2 q3 : Pt ℝ) (t : ℝ) : ℝ :=
  ((cubic_rootcoeffs_y_d q0.x q0.y q1.x q1.y q2.x q2.y q3.x q3.y * t + cubic_rootcoeffs_y_a q0.x q0.y q1.x q1.y q2.x q2.y q3.x q3.y) * t
    + cubic_rootcoeffs_y_b q0.x q0.y q1.x q1.y q2.x q2.y q3.x q3.y) * t + cubic_rootcoeffs_y_c q0.x q0.y q1.x q1.y q2.x q2.y q3.x q3.y
noncomputable def ypoly' (q0 q1 q2 q3 : Pt ℝ) (t : ℝ) : ℝ :=
  (3 * cubic_rootcoeffs_y_d q0.x q0.y q1.x q1.y q2.x q2.y q3.x q3.y * t + 2 * cubic_rootcoeffs_y_a q0.x q0.y q1.x q1.y q2.x q2.y q3.x q3.y) * t
    + cubic_rootcoeffs_y_b q0.x q0.y q1.x q1.y q2.x q2.y q3.x q3.y

/-- "in the Cardano branch, every root in [0,1] simple, no root at an end" for an aligned copy -/
structure CardanoOK (q0 q1 q2 q3 : Pt ℝ) : Prop where
  code : cubic_findRoots_dispatch_v q0.x q0.y q1.x q1.y q2.x q2.y q3.x q3.y = 2
  big : ¬ |cubic_rootcoeffs_y_d q0.x q0.y q1.x q1.y q2.x q2.y q3.x q3.y| ≤ (1 : ℝ) / 1000000 *
          max (max |cubic_rootcoeffs_y_a q0.x q0.y q1.x q1.y q2.x q2.y q3.x q3.y| |cubic_rootcoeffs_y_b q0.x q0.y q1.x q1.y q2.x q2.y q3.x q3.y|)
            |cubic_rootcoeffs_y_c q0.x q0.y q1.x q1.y q2.x q2.y q3.x q3.y|
  simple : ∀ t, 0 ≤ t → t ≤ 1 → ypoly q0 q1 q2 q3 t = 0 → ypoly' q0 q1 q2 q3 t ≠ 0
  e0 : ypoly q0 q1 q2 q3 0 ≠ 0
  e1 : ypoly q0 q1 q2 q3 1 ≠ 0

/-- two strictly increasing lists with the same members are equal -/
theorem sorted_ext (l1 l2 : List ℝ) (h1 : l1.Pairwise (· < ·)) (h2 : l2.Pairwise (· < ·)) (h : ∀ t, t ∈ l1 ↔ t ∈ l2) : l1 = l2 := by
  have n1 : l1.Nodup := h1.imp (fun h => ne_of_lt h)
  have n2 : l2.Nodup := h2.imp (fun h => ne_of_lt h)
  have hp : l1.Perm l2 := (List.perm_ext_iff_of_nodup n1 n2).mpr h
  exact List.Perm.eq_of_pairwise (le := fun a b => a < b) (fun a b _ _ hab hba => absurd hab (not_lt.mpr (le_of_lt hba))) h1 h2 hp

/-- **(Hseg) for a cubic segment, Cardano branch, from the regenerated code.**  The two aligned copies handed to the root finder are
    cubics whose y-polynomials vanish exactly where the segment is level with the query point (for the exact alignment of a horizontal ray
    they are ±(y − py)); both are in the Cardano branch with simple roots and no root at an end.  Then, in clear position, the crossings
    the two rays report have the parity of the straddle indicator.  No hypothesis about what the root finder returns is left:
    `cubic_root_list` (sound + complete + repetition-free) supplies it. -/
theorem cubic_hseg_cardano (a b c d : Pt ℝ) (lx px rx py : ℝ) (l0 l1 l2 l3 r0 r1 r2 r3 : Pt ℝ)
    (okL : CardanoOK l0 l1 l2 l3) (okR : CardanoOK r0 r1 r2 r3)
    (zL : ∀ t, ypoly l0 l1 l2 l3 t = 0 ↔ ((Seg.cubic a b c d).eval t).y = py)
    (zR : ∀ t, ypoly r0 r1 r2 r3 t = 0 ↔ ((Seg.cubic a b c d).eval t).y = py)
    (hl : ¬ isclose px lx ((1 : ℝ) / 1000000000) 0) (hr : ¬ isclose px rx ((1 : ℝ) / 1000000000) 0) (hlr : lx < rx)
    (hsimple : ∀ t, 0 < t → t < 1 → ((Seg.cubic a b c d).eval t).y = py →
      (C02E.dcoeffs (Seg.cubic a b c d)).2.1 * t * t + (C02E.dcoeffs (Seg.cubic a b c d)).2.2.1 * t + (C02E.dcoeffs (Seg.cubic a b c d)).2.2.2 ≠ 0)
    (h0 : a.y ≠ py) (h1 : d.y ≠ py)
    (hclear : ∀ t, 0 < t → t < 1 → ((Seg.cubic a b c d).eval t).y = py →
      within t = true ∧ PClear lx px rx ((Seg.cubic a b c d).eval t).x) :
    ((segHits Real.sqrt (Seg.cubic a b c d) lx px py (Seg.cubic l0 l1 l2 l3)
        (cubic_cardano_roots Real.pi Real.sqrt Real.cos Real.arccos Real.rpow l0.x l0.y l1.x l1.y l2.x l2.y l3.x l3.y)).length +
     (segHits Real.sqrt (Seg.cubic a b c d) rx px py (Seg.cubic r0 r1 r2 r3)
        (cubic_cardano_roots Real.pi Real.sqrt Real.cos Real.arccos Real.rpow r0.x r0.y r1.x r1.y r2.x r2.y r3.x r3.y)).length) % 2 =
      if Straddle a.y d.y py then 1 else 0 := by
  obtain ⟨sL, inL, allL⟩ := CardanoC.cubic_root_list l0 l1 l2 l3 okL.code okL.big okL.simple
    (by have := okL.e0; simpa [ypoly] using this) (by have := okL.e1; simp only [ypoly] at this; intro h; apply this; linarith)
  obtain ⟨sR, inR, allR⟩ := CardanoC.cubic_root_list r0 r1 r2 r3 okR.code okR.big okR.simple
    (by have := okR.e0; simpa [ypoly] using this) (by have := okR.e1; simp only [ypoly] at this; intro h; apply this; linarith)
  set LL := curveLineT Real.sqrt (Seg.cubic l0 l1 l2 l3)
    (cubic_cardano_roots Real.pi Real.sqrt Real.cos Real.arccos Real.rpow l0.x l0.y l1.x l1.y l2.x l2.y l3.x l3.y) with hLL
  set LR := curveLineT Real.sqrt (Seg.cubic r0 r1 r2 r3)
    (cubic_cardano_roots Real.pi Real.sqrt Real.cos Real.arccos Real.rpow r0.x r0.y r1.x r1.y r2.x r2.y r3.x r3.y) with hLR
  have hsame : LR = LL := by
    apply sorted_ext _ _ sR sL
    intro t
    constructor
    · intro ht
      obtain ⟨t0, t1⟩ := inR t ht
      exact (allL t t0 t1).mp ((zL t).mpr ((zR t).mp ((allR t t0 t1).mpr ht)))
    · intro ht
      obtain ⟨t0, t1⟩ := inL t ht
      exact (allR t t0 t1).mp ((zR t).mpr ((zL t).mp ((allL t t0 t1).mpr ht)))
  have hallS : ∀ t, 0 < t → t < 1 → (((Seg.cubic a b c d).eval t).y = py ↔ t ∈ LL) := fun t t0 t1 =>
    ⟨fun h => (allL t t0 t1).mp ((zL t).mpr h), fun h => (zL t).mp ((allL t t0 t1).mpr h)⟩
  have := curve_hseg (Seg.cubic a b c d) (by simp [Seg.order, Seg.points]) lx px rx py (Seg.cubic l0 l1 l2 l3) (Seg.cubic r0 r1 r2 r3) _ _ LL
    rfl hsame hl hr hlr sL inL hallS
    (fun t ht => hsimple t (inL t ht).1 (inL t ht).2 ((hallS t (inL t ht).1 (inL t ht).2).mpr ht))
    h0 h1
    (fun t ht => hclear t (inL t ht).1 (inL t ht).2 ((hallS t (inL t ht).1 (inL t ht).2).mpr ht))
  exact this

end C11B

/-! ### (Hseg) for a quadratic segment, from the regenerated solver -/

namespace C11B
open Gen C05M Winding Inter Roots

theorem inUnit_nodup (x : ℝ) : (inUnit x).Nodup := by unfold inUnit; split_ifs <;> simp

theorem inUnit_append_nodup (x y : ℝ) (h : x ≠ y) : (inUnit x ++ inUnit y).Nodup := by
  unfold inUnit; split_ifs <;> simp [h]

/-- the solver never lists a root twice -/
theorem quadraticRoots_nodup (a b c : ℝ) : (quadraticRoots Real.sqrt a b c).Nodup := by
  rw [quadraticRoots_eq_model]
  unfold qrModel
  by_cases ha : a = 0
  · rw [if_pos ha]; split_ifs
    · exact inUnit_nodup _
    · exact List.nodup_nil
  rw [if_neg ha]
  by_cases hd : b * b - 4 * a * c > 0
  · rw [if_pos hd]
    have hs : Real.sqrt (b * b - 4 * a * c) * Real.sqrt (b * b - 4 * a * c) = b * b - 4 * a * c := Real.mul_self_sqrt (le_of_lt hd)
    have hpos : 0 < Real.sqrt (b * b - 4 * a * c) := Real.sqrt_pos.mpr hd
    set sd := Real.sqrt (b * b - 4 * a * c)
    have key : ∀ q : ℝ, q ≠ 0 → 0 < q * q - a * c → (qrBranch a c q).Nodup := by
      intro q hq hpos'
      unfold qrBranch
      rw [if_pos hq]
      have hne : c / q ≠ q / a := by
        intro h
        rw [div_eq_div_iff hq ha] at h
        nlinarith
      split_ifs
      · exact inUnit_append_nodup _ _ hne
      · exact inUnit_append_nodup _ _ (Ne.symm hne)
    by_cases hb : b ≥ 0
    · rw [if_pos hb]
      apply key
      · intro h; linarith
      · have : -(b + sd) / 2 * (-(b + sd) / 2) - a * c = sd * (sd + b) / 2 := by linear_combination (-1 / 4) * hs
        rw [this]; positivity
    · rw [if_neg hb]
      push Not at hb
      apply key
      · intro h; linarith
      · have : -(b - sd) / 2 * (-(b - sd) / 2) - a * c = sd * (sd - b) / 2 := by linear_combination (-1 / 4) * hs
        rw [this]
        have : 0 < sd - b := by linarith
        positivity
  · rw [if_neg hd]; exact List.nodup_nil

/-- the y-polynomial `QuadraticBezier._findRoots('y')` solves -/
noncomputable def ypolyQ (q0 q1 q2 : Pt ℝ) (t : ℝ) : ℝ :=
  quad_rootcoeffs_y_a q0.x q0.y q1.x q1.y q2.x q2.y * t * t + quad_rootcoeffs_y_b q0.x q0.y q1.x q1.y q2.x q2.y * t
    + quad_rootcoeffs_y_c q0.x q0.y q1.x q1.y q2.x q2.y

structure QuadOK (q0 q1 q2 : Pt ℝ) : Prop where
  simple : ∀ t, 0 ≤ t → t ≤ 1 → ypolyQ q0 q1 q2 t = 0 →
    2 * quad_rootcoeffs_y_a q0.x q0.y q1.x q1.y q2.x q2.y * t + quad_rootcoeffs_y_b q0.x q0.y q1.x q1.y q2.x q2.y ≠ 0
  e0 : ypolyQ q0 q1 q2 0 ≠ 0
  e1 : ypolyQ q0 q1 q2 1 ≠ 0

/-- **what `QuadraticBezier._findRoots('y')` returns is the increasing, repetition-free list of exactly the parameters in (0, 1) at
    which the y-polynomial vanishes**, when every root in [0, 1] is simple and neither end is a root -/
theorem quad_root_list (q0 q1 q2 : Pt ℝ) (ok : QuadOK q0 q1 q2) :
    let L := curveLineT Real.sqrt (Seg.quad q0 q1 q2) []
    L.Pairwise (· < ·) ∧ (∀ t ∈ L, 0 < t ∧ t < 1) ∧ ∀ t, 0 < t → t < 1 → (ypolyQ q0 q1 q2 t = 0 ↔ t ∈ L) := by
  intro L
  set A := quad_rootcoeffs_y_a q0.x q0.y q1.x q1.y q2.x q2.y with hA
  set B := quad_rootcoeffs_y_b q0.x q0.y q1.x q1.y q2.x q2.y with hB
  set C := quad_rootcoeffs_y_c q0.x q0.y q1.x q1.y q2.x q2.y with hC
  have hL : L = sortK (quadraticRoots Real.sqrt A B C) := rfl
  have hmem : ∀ t, t ∈ L ↔ (0 ≤ t ∧ t ≤ 1) ∧ A * t * t + B * t + C = 0 ∧ ((A = 0 ∧ B ≠ 0) ∨ (A ≠ 0 ∧ B * B - 4 * A * C > 0)) := by
    intro t; rw [hL, C05.mem_sortK, quadraticRoots_mem_iff]
  -- a root with non-vanishing derivative is of the solver's "simple" type
  have htype : ∀ t, A * t * t + B * t + C = 0 → 2 * A * t + B ≠ 0 → ((A = 0 ∧ B ≠ 0) ∨ (A ≠ 0 ∧ B * B - 4 * A * C > 0)) := by
    intro t hr hd
    by_cases ha : A = 0
    · left; refine ⟨ha, ?_⟩
      rw [ha] at hd; simpa using hd
    · right; refine ⟨ha, ?_⟩
      have : B * B - 4 * A * C = (2 * A * t + B) ^ 2 := by linear_combination (-4 * A) * hr
      rw [this]; positivity
  have hopen : ∀ t ∈ L, 0 < t ∧ t < 1 := by
    intro t ht
    obtain ⟨⟨a0, a1⟩, hr, _⟩ := (hmem t).mp ht
    constructor
    · apply lt_of_le_of_ne a0
      rintro rfl
      apply ok.e0; simp only [ypolyQ]; linarith [hr]
    · apply lt_of_le_of_ne a1
      rintro rfl
      apply ok.e1; simp only [ypolyQ]; linarith [hr]
  refine ⟨?_, hopen, ?_⟩
  · have hsorted : L.Pairwise (· ≤ ·) := by rw [hL]; exact C05.sortK_sorted _
    have hnodup : L.Nodup := by
      rw [hL]; unfold sortK
      rw [List.Perm.nodup_iff (List.mergeSort_perm _ _)]
      exact quadraticRoots_nodup A B C
    exact (List.pairwise_and_iff.mpr ⟨hsorted, hnodup⟩).imp (fun h => lt_of_le_of_ne h.1 h.2)
  · intro t t0 t1
    constructor
    · intro hr
      have hr' : A * t * t + B * t + C = 0 := hr
      exact (hmem t).mpr ⟨⟨le_of_lt t0, le_of_lt t1⟩, hr', htype t hr' (ok.simple t (le_of_lt t0) (le_of_lt t1) hr)⟩
    · intro ht; exact ((hmem t).mp ht).2.1

/-- **(Hseg) for a quadratic segment, from the regenerated solver** — the analogue of `cubic_hseg_cardano` -/
theorem quad_hseg (a b c : Pt ℝ) (lx px rx py : ℝ) (l0 l1 l2 r0 r1 r2 : Pt ℝ)
    (okL : QuadOK l0 l1 l2) (okR : QuadOK r0 r1 r2)
    (zL : ∀ t, ypolyQ l0 l1 l2 t = 0 ↔ ((Seg.quad a b c).eval t).y = py)
    (zR : ∀ t, ypolyQ r0 r1 r2 t = 0 ↔ ((Seg.quad a b c).eval t).y = py)
    (hl : ¬ isclose px lx ((1 : ℝ) / 1000000000) 0) (hr : ¬ isclose px rx ((1 : ℝ) / 1000000000) 0) (hlr : lx < rx)
    (hsimple : ∀ t, 0 < t → t < 1 → ((Seg.quad a b c).eval t).y = py →
      (C02E.dcoeffs (Seg.quad a b c)).2.1 * t * t + (C02E.dcoeffs (Seg.quad a b c)).2.2.1 * t + (C02E.dcoeffs (Seg.quad a b c)).2.2.2 ≠ 0)
    (h0 : a.y ≠ py) (h1 : c.y ≠ py)
    (hclear : ∀ t, 0 < t → t < 1 → ((Seg.quad a b c).eval t).y = py →
      within t = true ∧ PClear lx px rx ((Seg.quad a b c).eval t).x) :
    ((segHits Real.sqrt (Seg.quad a b c) lx px py (Seg.quad l0 l1 l2) []).length +
     (segHits Real.sqrt (Seg.quad a b c) rx px py (Seg.quad r0 r1 r2) []).length) % 2 =
      if Straddle a.y c.y py then 1 else 0 := by
  obtain ⟨sL, inL, allL⟩ := quad_root_list l0 l1 l2 okL
  obtain ⟨sR, inR, allR⟩ := quad_root_list r0 r1 r2 okR
  set LL := curveLineT Real.sqrt (Seg.quad l0 l1 l2) [] with hLL
  set LR := curveLineT Real.sqrt (Seg.quad r0 r1 r2) [] with hLR
  have hsame : LR = LL := by
    apply sorted_ext _ _ sR sL
    intro t
    constructor
    · intro ht
      obtain ⟨t0, t1⟩ := inR t ht
      exact (allL t t0 t1).mp ((zL t).mpr ((zR t).mp ((allR t t0 t1).mpr ht)))
    · intro ht
      obtain ⟨t0, t1⟩ := inL t ht
      exact (allR t t0 t1).mp ((zR t).mpr ((zL t).mp ((allL t t0 t1).mpr ht)))
  have hallS : ∀ t, 0 < t → t < 1 → (((Seg.quad a b c).eval t).y = py ↔ t ∈ LL) := fun t t0 t1 =>
    ⟨fun h => (allL t t0 t1).mp ((zL t).mpr h), fun h => (zL t).mp ((allL t t0 t1).mpr h)⟩
  have := curve_hseg (Seg.quad a b c) (by simp [Seg.order, Seg.points]) lx px rx py (Seg.quad l0 l1 l2) (Seg.quad r0 r1 r2) [] [] LL
    rfl hsame hl hr hlr sL inL hallS
    (fun t ht => hsimple t (inL t ht).1 (inL t ht).2 ((hallS t (inL t ht).1 (inL t ht).2).mpr ht))
    h0 h1
    (fun t ht => hclear t (inL t ht).1 (inL t ht).2 ((hallS t (inL t ht).1 (inL t ht).2).mpr ht))
  exact this

/-- what an aligned copy must deliver: the root finder's list is increasing, inside (0, 1), and holds exactly the zeros of `poly` there -/
def RootListOK (al : Seg ℝ) (cd : List ℝ) (poly : ℝ → ℝ) : Prop :=
  (curveLineT Real.sqrt al cd).Pairwise (· < ·) ∧ (∀ t ∈ curveLineT Real.sqrt al cd, 0 < t ∧ t < 1) ∧
    ∀ t, 0 < t → t < 1 → (poly t = 0 ↔ t ∈ curveLineT Real.sqrt al cd)

/-- **(Hseg) for any curved segment from the two root lists** — the common core of `cubic_hseg_cardano`, `quad_hseg` and the
    degenerate-cubic case -/
theorem curve_hseg_of_lists (s : Seg ℝ) (hs : 2 < s.order) (lx px rx py : ℝ) (alL alR : Seg ℝ) (cdL cdR : List ℝ) (polyL polyR : ℝ → ℝ)
    (okL : RootListOK alL cdL polyL) (okR : RootListOK alR cdR polyR)
    (zL : ∀ t, polyL t = 0 ↔ (s.eval t).y = py) (zR : ∀ t, polyR t = 0 ↔ (s.eval t).y = py)
    (hl : ¬ isclose px lx ((1 : ℝ) / 1000000000) 0) (hr : ¬ isclose px rx ((1 : ℝ) / 1000000000) 0) (hlr : lx < rx)
    (hsimple : ∀ t, 0 < t → t < 1 → (s.eval t).y = py →
      (C02E.dcoeffs s).2.1 * t * t + (C02E.dcoeffs s).2.2.1 * t + (C02E.dcoeffs s).2.2.2 ≠ 0)
    (h0 : s.start.y ≠ py) (h1 : s.end.y ≠ py)
    (hclear : ∀ t, 0 < t → t < 1 → (s.eval t).y = py → within t = true ∧ PClear lx px rx (s.eval t).x) :
    ((segHits Real.sqrt s lx px py alL cdL).length + (segHits Real.sqrt s rx px py alR cdR).length) % 2 =
      if Straddle s.start.y s.end.y py then 1 else 0 := by
  obtain ⟨sL, inL, allL⟩ := okL
  obtain ⟨sR, inR, allR⟩ := okR
  have hsame : curveLineT Real.sqrt alR cdR = curveLineT Real.sqrt alL cdL := by
    apply sorted_ext _ _ sR sL
    intro t
    constructor
    · intro ht
      obtain ⟨t0, t1⟩ := inR t ht
      exact (allL t t0 t1).mp ((zL t).mpr ((zR t).mp ((allR t t0 t1).mpr ht)))
    · intro ht
      obtain ⟨t0, t1⟩ := inL t ht
      exact (allR t t0 t1).mp ((zR t).mpr ((zL t).mp ((allL t t0 t1).mpr ht)))
  have hallS : ∀ t, 0 < t → t < 1 → ((s.eval t).y = py ↔ t ∈ curveLineT Real.sqrt alL cdL) := fun t t0 t1 =>
    ⟨fun h => (allL t t0 t1).mp ((zL t).mpr h), fun h => (zL t).mp ((allL t t0 t1).mpr h)⟩
  exact curve_hseg s hs lx px rx py alL alR cdL cdR _ rfl hsame hl hr hlr sL inL hallS
    (fun t ht => hsimple t (inL t ht).1 (inL t ht).2 ((hallS t (inL t ht).1 (inL t ht).2).mpr ht))
    h0 h1
    (fun t ht => hclear t (inL t ht).1 (inL t ht).2 ((hallS t (inL t ht).1 (inL t ht).2).mpr ht))

/-- the Cardano branch and quadratics deliver such lists … -/
theorem rootListOK_cardano (q0 q1 q2 q3 : Pt ℝ) (ok : CardanoOK q0 q1 q2 q3) :
    RootListOK (Seg.cubic q0 q1 q2 q3)
      (cubic_cardano_roots Real.pi Real.sqrt Real.cos Real.arccos Real.rpow q0.x q0.y q1.x q1.y q2.x q2.y q3.x q3.y) (ypoly q0 q1 q2 q3) :=
  CardanoC.cubic_root_list q0 q1 q2 q3 ok.code ok.big ok.simple
    (by have := ok.e0; simpa [ypoly] using this) (by have := ok.e1; simp only [ypoly] at this; intro h; apply this; linarith)

theorem rootListOK_quad (q0 q1 q2 : Pt ℝ) (ok : QuadOK q0 q1 q2) : RootListOK (Seg.quad q0 q1 q2) [] (ypolyQ q0 q1 q2) :=
  quad_root_list q0 q1 q2 ok

/-- … and so does the branch taken when the cubic coefficient of the aligned y-polynomial is exactly zero (the remaining
    quadratic goes to the quadratic solver) -/
theorem rootListOK_d_zero (q0 q1 q2 q3 : Pt ℝ) (cd : List ℝ)
    (hd : cubic_rootcoeffs_y_d q0.x q0.y q1.x q1.y q2.x q2.y q3.x q3.y = 0)
    (hsimple : ∀ t, 0 ≤ t → t ≤ 1 → ypoly q0 q1 q2 q3 t = 0 → ypoly' q0 q1 q2 q3 t ≠ 0)
    (e0 : ypoly q0 q1 q2 q3 0 ≠ 0) (e1 : ypoly q0 q1 q2 q3 1 ≠ 0) :
    RootListOK (Seg.cubic q0 q1 q2 q3) cd (ypoly q0 q1 q2 q3) := by
  set A := cubic_rootcoeffs_y_a q0.x q0.y q1.x q1.y q2.x q2.y q3.x q3.y with hA
  set B := cubic_rootcoeffs_y_b q0.x q0.y q1.x q1.y q2.x q2.y q3.x q3.y with hB
  set C := cubic_rootcoeffs_y_c q0.x q0.y q1.x q1.y q2.x q2.y q3.x q3.y with hC
  have hpoly : ∀ t, ypoly q0 q1 q2 q3 t = A * t * t + B * t + C := by
    intro t; simp only [ypoly, hd, ← hA, ← hB, ← hC]; ring
  have hpoly' : ∀ t, ypoly' q0 q1 q2 q3 t = 2 * A * t + B := by
    intro t; simp only [ypoly', hd, ← hA, ← hB]; ring
  have hL : curveLineT Real.sqrt (Seg.cubic q0 q1 q2 q3) cd = sortK (sortK (quadraticRoots Real.sqrt A B C)) := by
    simp only [curveLineT]
    rw [C05.cubicRoots_d_zero _ _ _ _ _ _ hd]
  have hmem : ∀ t, t ∈ curveLineT Real.sqrt (Seg.cubic q0 q1 q2 q3) cd ↔
      (0 ≤ t ∧ t ≤ 1) ∧ A * t * t + B * t + C = 0 ∧ ((A = 0 ∧ B ≠ 0) ∨ (A ≠ 0 ∧ B * B - 4 * A * C > 0)) := by
    intro t; rw [hL, C05.mem_sortK, C05.mem_sortK, quadraticRoots_mem_iff]
  have htype : ∀ t, A * t * t + B * t + C = 0 → 2 * A * t + B ≠ 0 → ((A = 0 ∧ B ≠ 0) ∨ (A ≠ 0 ∧ B * B - 4 * A * C > 0)) := by
    intro t hr hdv
    by_cases ha : A = 0
    · left; refine ⟨ha, ?_⟩
      rw [ha] at hdv; simpa using hdv
    · right; refine ⟨ha, ?_⟩
      have : B * B - 4 * A * C = (2 * A * t + B) ^ 2 := by linear_combination (-4 * A) * hr
      rw [this]; positivity
  have hopen : ∀ t ∈ curveLineT Real.sqrt (Seg.cubic q0 q1 q2 q3) cd, 0 < t ∧ t < 1 := by
    intro t ht
    obtain ⟨⟨a0, a1⟩, hr, _⟩ := (hmem t).mp ht
    constructor
    · apply lt_of_le_of_ne a0
      rintro rfl
      apply e0; rw [hpoly]; linarith [hr]
    · apply lt_of_le_of_ne a1
      rintro rfl
      apply e1; rw [hpoly]; linarith [hr]
  refine ⟨?_, hopen, ?_⟩
  · have hsorted : (curveLineT Real.sqrt (Seg.cubic q0 q1 q2 q3) cd).Pairwise (· ≤ ·) := by rw [hL]; exact C05.sortK_sorted _
    have hnodup : (curveLineT Real.sqrt (Seg.cubic q0 q1 q2 q3) cd).Nodup := by
      rw [hL]; unfold sortK
      rw [List.Perm.nodup_iff (List.mergeSort_perm _ _), List.Perm.nodup_iff (List.mergeSort_perm _ _)]
      exact quadraticRoots_nodup A B C
    exact (List.pairwise_and_iff.mpr ⟨hsorted, hnodup⟩).imp (fun h => lt_of_le_of_ne h.1 h.2)
  · intro t t0 t1
    constructor
    · intro hr
      have hr' : A * t * t + B * t + C = 0 := by rw [← hpoly]; exact hr
      have hdv := hsimple t (le_of_lt t0) (le_of_lt t1) hr
      rw [hpoly'] at hdv
      exact (hmem t).mpr ⟨⟨le_of_lt t0, le_of_lt t1⟩, hr', htype t hr' hdv⟩
    · intro ht; rw [hpoly]; exact ((hmem t).mp ht).2.1

/-- the y-polynomial the root finder is run on, for an aligned copy of either kind -/
noncomputable def ypolySeg : Seg ℝ → ℝ → ℝ
  | Seg.cubic q0 q1 q2 q3, t => ypoly q0 q1 q2 q3 t
  | Seg.quad q0 q1 q2, t => ypolyQ q0 q1 q2 t
  | Seg.line _ _, _ => 1

/-- the conditions under which the root finder's list is exactly the crossings, per kind and branch -/
def SegOK : Seg ℝ → List ℝ → Prop
  | Seg.cubic q0 q1 q2 q3, cd =>
    (CardanoOK q0 q1 q2 q3 ∧
      cd = cubic_cardano_roots Real.pi Real.sqrt Real.cos Real.arccos Real.rpow q0.x q0.y q1.x q1.y q2.x q2.y q3.x q3.y) ∨
    (cubic_rootcoeffs_y_d q0.x q0.y q1.x q1.y q2.x q2.y q3.x q3.y = 0 ∧
      (∀ t, 0 ≤ t → t ≤ 1 → ypoly q0 q1 q2 q3 t = 0 → ypoly' q0 q1 q2 q3 t ≠ 0) ∧ ypoly q0 q1 q2 q3 0 ≠ 0 ∧ ypoly q0 q1 q2 q3 1 ≠ 0)
  | Seg.quad q0 q1 q2, cd => QuadOK q0 q1 q2 ∧ cd = []
  | Seg.line _ _, _ => False

theorem rootListOK_of_segOK (al : Seg ℝ) (cd : List ℝ) (ok : SegOK al cd) : RootListOK al cd (ypolySeg al) := by
  cases al with
  | line _ _ => exact absurd ok (by simp [SegOK])
  | quad q0 q1 q2 =>
    obtain ⟨h, rfl⟩ := ok
    exact rootListOK_quad q0 q1 q2 h
  | cubic q0 q1 q2 q3 =>
    rcases ok with ⟨h, rfl⟩ | ⟨hd, hs, e0, e1⟩
    · exact rootListOK_cardano q0 q1 q2 q3 h
    · exact rootListOK_d_zero q0 q1 q2 q3 cd hd hs e0 e1

/-- for a horizontal ray the regenerated alignment (real cos, sin, atan2) sends the level of the ray, and nothing else, to y = 0 -/
theorem cross_horizontal (x0 py px X Y : ℝ) (hne : px - x0 ≠ 0) : C05.cross x0 py px py X Y = 0 ↔ Y = py := by
  unfold C05.cross
  constructor
  · intro h
    have : (px - x0) * (Y - py) = 0 := by linarith
    rcases mul_eq_zero.mp this with h | h
    · exact absurd h hne
    · linarith
  · intro h; rw [h]; ring

theorem ypolySeg_alignedCubic (x0 py px : ℝ) (a b c d : Pt ℝ) (hne : px - x0 ≠ 0) (t : ℝ) :
    ypolySeg (C05.alignedCubic x0 py px py a b c d) t = 0 ↔ ((Seg.cubic a b c d).eval t).y = py := by
  unfold C05.alignedCubic
  simp only [ypolySeg, ypoly]
  rw [C05.cubic_rootcoeffs_spec, C05.cubic_transformed_eval_y, C05.aligned_y_zero_iff _ _ _ _ _ _ (Or.inl hne)]
  exact cross_horizontal x0 py px _ _ hne

theorem ypolySeg_alignedQuad (x0 py px : ℝ) (a b c : Pt ℝ) (hne : px - x0 ≠ 0) (t : ℝ) :
    ypolySeg (C05.alignedQuad x0 py px py a b c) t = 0 ↔ ((Seg.quad a b c).eval t).y = py := by
  unfold C05.alignedQuad
  simp only [ypolySeg, ypolyQ]
  rw [C05.quad_rootcoeffs_spec, C05.quad_transformed_eval_y, C05.aligned_y_zero_iff _ _ _ _ _ _ (Or.inl hne)]
  exact cross_horizontal x0 py px _ _ hne

/-- `s.aligned()` for the ray from (x0, py) to (px, py), as the regenerated code computes it -/
noncomputable def alignedTo (x0 py px : ℝ) : Seg ℝ → Seg ℝ
  | Seg.cubic a b c d => C05.alignedCubic x0 py px py a b c d
  | Seg.quad a b c => C05.alignedQuad x0 py px py a b c
  | s => s

theorem ypolySeg_alignedTo (x0 py px : ℝ) (s : Seg ℝ) (hs : 2 < s.order) (hne : px - x0 ≠ 0) (t : ℝ) :
    ypolySeg (alignedTo x0 py px s) t = 0 ↔ (s.eval t).y = py := by
  cases s with
  | line _ _ => simp [Seg.order, Seg.points] at hs
  | quad a b c => exact ypolySeg_alignedQuad x0 py px a b c hne t
  | cubic a b c d => exact ypolySeg_alignedCubic x0 py px a b c d hne t

/-- **(Hseg) for every curved segment, with the aligned copies computed by the regenerated `alignmentTransformation`/`transformed`**:
    no hypothesis about the root finder or about the alignment is left; what remains is the position of the query point (clear of the
    rays' ends and of the range filter's boundary), simple crossings, and that each aligned copy is in one of the three proved
    branches (`SegOK`: Cardano branch, vanishing cubic coefficient, quadratic) -/
theorem curve_hseg_aligned (s : Seg ℝ) (hs : 2 < s.order) (lx px rx py : ℝ) (cdL cdR : List ℝ)
    (okL : SegOK (alignedTo lx py px s) cdL) (okR : SegOK (alignedTo rx py px s) cdR)
    (hl : ¬ isclose px lx ((1 : ℝ) / 1000000000) 0) (hr : ¬ isclose px rx ((1 : ℝ) / 1000000000) 0) (hlx : lx < px) (hrx : px < rx)
    (hsimple : ∀ t, 0 < t → t < 1 → (s.eval t).y = py →
      (C02E.dcoeffs s).2.1 * t * t + (C02E.dcoeffs s).2.2.1 * t + (C02E.dcoeffs s).2.2.2 ≠ 0)
    (h0 : s.start.y ≠ py) (h1 : s.end.y ≠ py)
    (hclear : ∀ t, 0 < t → t < 1 → (s.eval t).y = py → within t = true ∧ PClear lx px rx (s.eval t).x) :
    ((segHits Real.sqrt s lx px py (alignedTo lx py px s) cdL).length +
      (segHits Real.sqrt s rx px py (alignedTo rx py px s) cdR).length) % 2 =
      if Straddle s.start.y s.end.y py then 1 else 0 :=
  curve_hseg_of_lists s hs lx px rx py _ _ cdL cdR _ _ (rootListOK_of_segOK _ _ okL) (rootListOK_of_segOK _ _ okR)
    (ypolySeg_alignedTo lx py px s hs (by linarith)) (ypolySeg_alignedTo rx py px s hs (by linarith))
    hl hr (by linarith) hsimple h0 h1 hclear

/-- the hypotheses are satisfiable: a quadratic aligned copy (y = -1 + 4t crosses the level once, simply) … -/
example : SegOK (Seg.quad ⟨0, -1⟩ ⟨1, 1⟩ ⟨2, 3⟩) [] := by
  refine ⟨⟨?_, ?_, ?_⟩, rfl⟩
  · intro t _ _ _
    simp only [quad_rootcoeffs_y_a, quad_rootcoeffs_y_b]; norm_num
  · simp only [ypolyQ, quad_rootcoeffs_y_a, quad_rootcoeffs_y_b, quad_rootcoeffs_y_c]; norm_num
  · simp only [ypolyQ, quad_rootcoeffs_y_a, quad_rootcoeffs_y_b, quad_rootcoeffs_y_c]; norm_num

/-- … and a cubic aligned copy in the vanishing-cubic-coefficient branch (y = -1 + 6t - 6t², two simple crossings) -/
example : SegOK (Seg.cubic ⟨0, -1⟩ ⟨1, 1⟩ ⟨2, 1⟩ ⟨3, -1⟩) [] := by
  right
  refine ⟨?_, ?_, ?_, ?_⟩
  · simp only [cubic_rootcoeffs_y_d]; norm_num
  · intro t _ _ h h'
    simp only [ypoly, ypoly', cubic_rootcoeffs_y_a, cubic_rootcoeffs_y_b, cubic_rootcoeffs_y_c, cubic_rootcoeffs_y_d] at h h'
    have ht : t = 1 / 2 := by linarith
    subst ht; norm_num at h
  · simp only [ypoly, cubic_rootcoeffs_y_a, cubic_rootcoeffs_y_b, cubic_rootcoeffs_y_c, cubic_rootcoeffs_y_d]; norm_num
  · simp only [ypoly, cubic_rootcoeffs_y_a, cubic_rootcoeffs_y_b, cubic_rootcoeffs_y_c, cubic_rootcoeffs_y_d]; norm_num

end C11B
