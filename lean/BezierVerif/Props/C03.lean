/-
  C03 — extreme finding is exact; adding extremes cuts segments without changing the curve.
  Leaves: Gen/Roots.lean, Gen/Eval.lean.  Glue: Model/Extremes.lean (correspondence per run).
-/
import BezierVerif.Model.Extremes
import BezierVerif.Props.Roots
import BezierVerif.Props.C02
import BezierVerif.Lemmas.SegLemmas
import BezierVerif.Tactics
import Mathlib.Data.List.Perm.Basic
import Mathlib.Data.List.Sort

set_option linter.unusedSectionVars false
set_option linter.unusedVariables false
set_option linter.unusedTactic false
set_option linter.unnecessarySeqFocus false

namespace C03
open Gen Extremes

section lists
variable {K : Type} [Field K] [LinearOrder K] [IsStrictOrderedRing K]

theorem mem_insertSorted (x t : K) (l : List K) : t ∈ insertSorted x l ↔ t = x ∨ t ∈ l := by
  induction l with
  | nil => simp [insertSorted]
  | cons y ys ih =>
    simp only [insertSorted]
    split_ifs
    · simp
    · simp [ih]; tauto

theorem mem_sort (t : K) (l : List K) : t ∈ sort l ↔ t ∈ l := by
  induction l with
  | nil => simp [sort]
  | cons x xs ih => simp [sort, mem_insertSorted, ih]

theorem insertSorted_sorted (x : K) (l : List K) (h : l.Pairwise (· ≤ ·)) : (insertSorted x l).Pairwise (· ≤ ·) := by
  induction l with
  | nil => simp [insertSorted]
  | cons y ys ih =>
    simp only [insertSorted]
    rw [List.pairwise_cons] at h
    split_ifs with hxy
    · rw [List.pairwise_cons]
      refine ⟨?_, by rw [List.pairwise_cons]; exact h⟩
      intro z hz
      rcases List.mem_cons.mp hz with rfl | hz
      · exact le_of_lt hxy
      · exact le_trans (le_of_lt hxy) (h.1 z hz)
    · rw [List.pairwise_cons]
      refine ⟨?_, ih h.2⟩
      intro z hz
      rcases (mem_insertSorted x z ys).mp hz with rfl | hz
      · exact le_of_not_gt hxy
      · exact h.1 z hz

theorem sort_sorted (l : List K) : (sort l).Pairwise (· ≤ ·) := by
  induction l with
  | nil => simp [sort]
  | cons x xs ih => exact insertSorted_sorted x _ ih

/-- the cubic's extreme list is non-decreasing -/
theorem cubicExtremes_sorted (sqrt : K → K) (a b c d : Pt K) : (cubicExtremes sqrt a b c d).Pairwise (· ≤ ·) := by
  unfold cubicExtremes
  split
  · exact List.Pairwise.filter _ (sort_sorted _)
  · simp

/-- a line has no extremes -/
theorem line_extremes (sqrt : K → K) (a b : Pt K) : extremes sqrt (.line a b) = [] := rfl
end lists

/-! ### exactness over ℝ: reported parameters = simple roots of x' or y' inside [0.01, 0.99] -/

/-- x'(t) of a cubic (the derivative segment of C01 evaluated at t) -/
noncomputable def dX (a b c d : Pt ℝ) (t : ℝ) : ℝ :=
  quad_pointAtTime_x (cubic_derivative_d0x a.x a.y b.x b.y c.x c.y d.x d.y) (cubic_derivative_d0y a.x a.y b.x b.y c.x c.y d.x d.y)
    (cubic_derivative_d1x a.x a.y b.x b.y c.x c.y d.x d.y) (cubic_derivative_d1y a.x a.y b.x b.y c.x c.y d.x d.y)
    (cubic_derivative_d2x a.x a.y b.x b.y c.x c.y d.x d.y) (cubic_derivative_d2y a.x a.y b.x b.y c.x c.y d.x d.y) t
noncomputable def dY (a b c d : Pt ℝ) (t : ℝ) : ℝ :=
  quad_pointAtTime_y (cubic_derivative_d0x a.x a.y b.x b.y c.x c.y d.x d.y) (cubic_derivative_d0y a.x a.y b.x b.y c.x c.y d.x d.y)
    (cubic_derivative_d1x a.x a.y b.x b.y c.x c.y d.x d.y) (cubic_derivative_d1y a.x a.y b.x b.y c.x c.y d.x d.y)
    (cubic_derivative_d2x a.x a.y b.x b.y c.x c.y d.x d.y) (cubic_derivative_d2y a.x a.y b.x b.y c.x c.y d.x d.y) t

/-- a quadratic polynomial (given by power coefficients) has a *simple* root at t:
    it vanishes there and is either genuinely quadratic with positive discriminant or genuinely linear -/
def SimpleRoot (a b c t : ℝ) : Prop :=
  a * t * t + b * t + c = 0 ∧ ((a = 0 ∧ b ≠ 0) ∨ (a ≠ 0 ∧ b * b - 4 * a * c > 0))

/-- **findExtremes of a cubic is exact**: the reported parameters are exactly the simple roots of the
    x-derivative or of the y-derivative lying in [0.01, 0.99]. -/
theorem cubic_extremes_mem_iff (a b c d : Pt ℝ) (t : ℝ) :
    t ∈ cubicExtremes Real.sqrt a b c d ↔
      ((1 : ℝ) / 100 ≤ t ∧ t ≤ 99 / 100) ∧
      (SimpleRoot (cubic_dcoeffs_ax a.x a.y b.x b.y c.x c.y d.x d.y) (cubic_dcoeffs_bx a.x a.y b.x b.y c.x c.y d.x d.y)
          (cubic_dcoeffs_cx a.x a.y b.x b.y c.x c.y d.x d.y) t ∨
       SimpleRoot (cubic_dcoeffs_ay a.x a.y b.x b.y c.x c.y d.x d.y) (cubic_dcoeffs_by a.x a.y b.x b.y c.x c.y d.x d.y)
          (cubic_dcoeffs_cy a.x a.y b.x b.y c.x c.y d.x d.y) t) := by
  unfold cubicExtremes
  simp only [cubic_dcoeffs, List.mem_filter, mem_sort, List.mem_append, Roots.quadraticRoots_mem_iff, inBand,
    decide_eq_true_eq, SimpleRoot]
  constructor
  · rintro ⟨h | h, hb⟩
    · exact ⟨hb, Or.inl h.2⟩
    · exact ⟨hb, Or.inr h.2⟩
  · rintro ⟨hb, h | h⟩
    · exact ⟨Or.inl ⟨⟨by linarith [hb.1], by linarith [hb.2]⟩, h⟩, hb⟩
    · exact ⟨Or.inr ⟨⟨by linarith [hb.1], by linarith [hb.2]⟩, h⟩, hb⟩

/-- the polynomial whose simple roots are reported *is* the derivative (C02.droots_coeffs) -/
theorem simple_root_is_derivative_root (a b c d : Pt ℝ) (t : ℝ)
    (h : SimpleRoot (cubic_dcoeffs_ax a.x a.y b.x b.y c.x c.y d.x d.y) (cubic_dcoeffs_bx a.x a.y b.x b.y c.x c.y d.x d.y)
          (cubic_dcoeffs_cx a.x a.y b.x b.y c.x c.y d.x d.y) t) : dX a b c d t = 0 := by
  unfold dX; rw [← (C02.droots_coeffs _ _ _ _ _ _ _ _ t).1]; exact h.1

/-! ### cutting: the pieces retrace the original segment -/

section cut
variable {K : Type} [Field K] [LinearOrder K] [IsStrictOrderedRing K]

/-- parameter intervals of the pieces: from `lo` through the cuts to 1 -/
def intervals : K → List K → List (K × K)
  | lo, [] => [(lo, 1)]
  | lo, t :: ts => (lo, t) :: intervals t ts

/-- no cut is skipped by the `t < 1e-8` test, and no cut is at 1 (division by 1 − t) -/
def NoSkip : List K → Prop
  | [] => True
  | t :: ts => (1 : K) / 100000000 ≤ t ∧ t < 1 ∧ NoSkip (ts.map fun v => mapx v t)
termination_by ts => ts.length
decreasing_by simp

theorem intervals_remap (t : K) (ht : t < 1) (lo' : K) (ts : List K) :
    intervals (t + lo' * (1 - t)) ts
      = (intervals lo' (ts.map fun v => mapx v t)).map fun p => (t + p.1 * (1 - t), t + p.2 * (1 - t)) := by
  have h1 : (1 : K) - t ≠ 0 := by linarith
  induction ts generalizing lo' with
  | nil => simp [intervals]
  | cons v vs ih =>
    simp only [intervals, List.map_cons, List.map]
    have hv : t + mapx v t * (1 - t) = v := by unfold mapx; field_simp; ring
    rw [hv]
    congr 1
    have := ih (mapx v t)
    rw [hv] at this
    exact this

/-- **retrace**: the walk over a cut list that is not skipped emits one piece per interval, and piece
    number j evaluated at s is the original segment at `lo_j + s (hi_j − lo_j)`. -/
theorem cutSeg_retrace_aux : ∀ (n : Nat) (seg : Seg K) (ts : List K), ts.length = n → NoSkip ts →
    List.Forall₂ (fun (piece : Seg K) (iv : K × K) => ∀ s, piece.eval s = seg.eval (iv.1 + s * (iv.2 - iv.1)))
      (cutSeg seg ts) (intervals 0 ts) := by
  intro n
  induction n with
  | zero =>
    intro seg ts hl _
    have : ts = [] := List.length_eq_zero_iff.mp hl
    subst this
    simp only [cutSeg, intervals]
    refine List.Forall₂.cons ?_ List.Forall₂.nil
    intro s; congr 1; ring
  | succ n ih =>
    intro seg ts hl h
    cases ts with
    | nil => simp at hl
    | cons t ts =>
      unfold NoSkip at h
      obtain ⟨h0, h1, hrest⟩ := h
      rw [cutSeg, if_neg (not_lt.mpr h0)]
      simp only [intervals]
      refine List.Forall₂.cons ?_ ?_
      · intro s; rw [Seg.eval_split_left]; congr 1; ring
      · have hlen : (ts.map fun v => mapx v t).length = n := by simpa using hl
        have := ih (seg.split t).2 (ts.map fun v => mapx v t) hlen hrest
        have hr := intervals_remap t h1 0 ts
        simp only [zero_mul, add_zero] at hr
        rw [hr, List.forall₂_map_right_iff]
        refine List.Forall₂.imp ?_ this
        intro piece iv hp s
        rw [hp s, Seg.eval_split_right]
        congr 1; ring

/-- **retrace**: the walk over a cut list that is not skipped emits one piece per interval, and piece
    number j evaluated at s is the original segment at `lo_j + s (hi_j − lo_j)`. -/
theorem cutSeg_retrace (seg : Seg K) (ts : List K) (h : NoSkip ts) :
    List.Forall₂ (fun (piece : Seg K) (iv : K × K) => ∀ s, piece.eval s = seg.eval (iv.1 + s * (iv.2 - iv.1)))
      (cutSeg seg ts) (intervals 0 ts) :=
  cutSeg_retrace_aux ts.length seg ts rfl h

/-- one piece per cut plus one -/
theorem cutSeg_length (seg : Seg K) (ts : List K) (h : NoSkip ts) : (cutSeg seg ts).length = ts.length + 1 := by
  have h1 := (cutSeg_retrace seg ts h).length_eq
  have h2 : ∀ (lo : K) (l : List K), (intervals lo l).length = l.length + 1 := by
    intro lo l; induction l generalizing lo with
    | nil => rfl
    | cons x xs ih => simp [intervals, ih]
  rw [h1, h2]

/-- whatever the cut list (skipped cuts included): the pieces form a connected chain from the segment's
    start to its end, all of the segment's kind — the original nodes stay nodes. -/
def ChainFrom (p : Pt K) : List (Seg K) → Prop
  | [] => True
  | s :: ss => s.start = p ∧ ChainFrom s.end ss
def lastEnd (p : Pt K) : List (Seg K) → Pt K
  | [] => p
  | s :: ss => lastEnd s.end ss

theorem cutSeg_chain_aux : ∀ (n : Nat) (seg : Seg K) (ts : List K), ts.length = n →
    ChainFrom seg.start (cutSeg seg ts) ∧ lastEnd seg.start (cutSeg seg ts) = seg.end ∧
    ∀ piece ∈ cutSeg seg ts, piece.order = seg.order := by
  intro n
  induction n with
  | zero =>
    intro seg ts hl
    have : ts = [] := List.length_eq_zero_iff.mp hl
    subst this
    simp [cutSeg, ChainFrom, lastEnd]
  | succ n ih =>
    intro seg ts hl
    cases ts with
    | nil => simp at hl
    | cons t ts =>
      rw [cutSeg]
      split_ifs
      · exact ih seg ts (by simpa using hl)
      · have hlen : (ts.map fun v => mapx v t).length = n := by simpa using hl
        obtain ⟨c1, c2, c3⟩ := ih (seg.split t).2 (ts.map fun v => mapx v t) hlen
        refine ⟨⟨Seg.split_left_start seg t, ?_⟩, ?_, ?_⟩
        · rw [Seg.split_left_end, ← Seg.split_right_start]; exact c1
        · simp only [lastEnd]
          rw [Seg.split_left_end, ← Seg.split_right_start, c2, Seg.split_right_end]
        · intro piece hp
          rcases List.mem_cons.mp hp with rfl | hp
          · exact (Seg.split_order seg t).1
          · rw [c3 piece hp]; exact (Seg.split_order seg t).2

theorem cutSeg_chain (seg : Seg K) (ts : List K) :
    ChainFrom seg.start (cutSeg seg ts) ∧ lastEnd seg.start (cutSeg seg ts) = seg.end ∧
    ∀ piece ∈ cutSeg seg ts, piece.order = seg.order :=
  cutSeg_chain_aux ts.length seg ts rfl

/-- a segment without cuts is passed through unchanged -/
theorem cutSeg_nil (seg : Seg K) : cutSeg seg [] = [seg] := by simp [cutSeg]

/-- the re-mapping after a cut lands the next cut where it should -/
theorem mapx_inverse (v t : K) (ht : t < 1) : t + mapx v t * (1 - t) = v := by
  have h1 : (1 : K) - t ≠ 0 := by linarith
  unfold mapx; field_simp; ring

/-- sorted cuts at least 1e-8 apart, inside [1e-8, 1), are never skipped -/
theorem noSkip_of_gaps : ∀ (n : Nat) (ts : List K), ts.length = n →
    ts.Pairwise (fun a b => a + 1 / 100000000 ≤ b) → (∀ t ∈ ts, (1 : K) / 100000000 ≤ t ∧ t < 1) → NoSkip ts := by
  intro n
  induction n with
  | zero => intro ts hl _ _; have : ts = [] := List.length_eq_zero_iff.mp hl; subst this; simp [NoSkip]
  | succ n ih =>
    intro ts hl hp hb
    cases ts with
    | nil => simp at hl
    | cons t ts =>
      unfold NoSkip
      rw [List.pairwise_cons] at hp
      obtain ⟨ht0, ht1⟩ := hb t (by simp)
      refine ⟨ht0, ht1, ?_⟩
      have hpos : 0 < 1 - t := by linarith
      have hle : 1 - t ≤ 1 := by linarith
      apply ih _ (by simpa using hl)
      · rw [List.pairwise_map]
        refine hp.2.imp ?_
        intro a b hab
        unfold mapx
        rw [div_add' _ _ _ (ne_of_gt hpos), div_le_div_iff_of_pos_right hpos]
        nlinarith
      · intro v hv
        simp only [List.mem_map] at hv
        obtain ⟨w, hw, rfl⟩ := hv
        have hwt := hp.1 w hw
        obtain ⟨_, hw1⟩ := hb w (by simp [hw])
        unfold mapx
        constructor
        · rw [le_div_iff₀ hpos]; nlinarith
        · rw [div_lt_one hpos]; linarith

end cut


section dict
variable {K : Type} [Field K] [LinearOrder K] [IsStrictOrderedRing K] [DecidableEq K]

/-- a repeated cut parameter does nothing the second time: the remainder's copy of it is re-mapped to 0 and skipped -/
theorem cutSeg_cons_dup (seg : Seg K) (t : K) (ts : List K) : cutSeg seg (t :: t :: ts) = cutSeg seg (t :: ts) := by
  by_cases h : t < (1 : K) / 100000000
  · rw [cutSeg, if_pos h, cutSeg, if_pos h]
  · rw [cutSeg, if_neg h]
    conv_rhs => rw [cutSeg, if_neg h]
    congr 1
    have h0 : mapx t t < (1 : K) / 100000000 := by
      unfold mapx; rw [sub_self, zero_div]; norm_num
    simp only [List.map_cons]
    rw [cutSeg, if_pos h0]

/-- in a path whose segments are pairwise different the dict is a map per segment: the general model is the positional one (about
    which the C03 theorems are stated) -/
theorem cutsFor_nodup (segs : List (Seg K)) (cuts : List (List K)) (hlen : segs.length = cuts.length) (hnd : segs.Nodup) :
    ∀ (i : Nat) (hi : i < segs.length), cutsFor segs cuts segs[i] = cuts[i]'(hlen ▸ hi) := by
  induction segs generalizing cuts with
  | nil => intro i hi; simp at hi
  | cons s rest ih =>
    cases cuts with
    | nil => simp at hlen
    | cons c cs =>
      intro i hi
      have hs : s ∉ rest := (List.nodup_cons.mp hnd).1
      have hr := (List.nodup_cons.mp hnd).2
      have hlen' : rest.length = cs.length := by simpa using hlen
      cases i with
      | zero =>
        simp only [List.getElem_cons_zero, cutsFor, List.zip_cons_cons, List.filter_cons, if_true, decide_true, List.flatMap_cons]
        have : ((rest.zip cs).filter fun e => decide (e.1 = s)) = [] := by
          rw [List.filter_eq_nil_iff]
          intro e he
          simp only [decide_eq_true_eq]
          intro h
          exact hs (h ▸ (List.of_mem_zip he).1)
        rw [this]; simp
      | succ j =>
        have hj : j < rest.length := by simpa using hi
        have hne : s ≠ rest[j] := fun h => hs (h ▸ List.getElem_mem hj)
        simp only [List.getElem_cons_succ, cutsFor, List.zip_cons_cons, List.filter_cons]
        rw [if_neg (by simpa using hne)]
        exact ih cs hlen' hr j hj

theorem splitAtPointsDict_eq (segs : List (Seg K)) (cuts : List (List K)) (hlen : segs.length = cuts.length) (hnd : segs.Nodup) :
    splitAtPointsDict segs cuts = splitAtPoints segs cuts := by
  unfold splitAtPointsDict splitAtPoints
  congr 1
  apply List.ext_getElem
  · simp [hlen]
  · intro i h1 h2
    simp only [List.getElem_map, List.getElem_zipWith]
    have hi : i < segs.length := by simpa using h1
    rw [cutsFor_nodup segs cuts hlen hnd i hi]

/-- **F28**: a path running twice over the same quadratic (0,0) (2,4) (4,0), both occurrences to be cut at 1/2: the pinned walk cuts
    the first occurrence only, the repaired one both -/
theorem pinned_repeated_segment_counterexample :
    splitAtPointsPinned [Seg.quad (⟨0, 0⟩ : Pt ℚ) ⟨2, 4⟩ ⟨4, 0⟩, Seg.quad ⟨0, 0⟩ ⟨2, 4⟩ ⟨4, 0⟩]
        [(Seg.quad ⟨0, 0⟩ ⟨2, 4⟩ ⟨4, 0⟩, [1 / 2, 1 / 2])]
      = [Seg.quad ⟨0, 0⟩ ⟨1, 2⟩ ⟨2, 2⟩, Seg.quad ⟨2, 2⟩ ⟨3, 2⟩ ⟨4, 0⟩, Seg.quad ⟨0, 0⟩ ⟨2, 4⟩ ⟨4, 0⟩]
    ∧ splitAtPointsDict [Seg.quad (⟨0, 0⟩ : Pt ℚ) ⟨2, 4⟩ ⟨4, 0⟩, Seg.quad ⟨0, 0⟩ ⟨2, 4⟩ ⟨4, 0⟩] [[1 / 2], [1 / 2]]
      = [Seg.quad ⟨0, 0⟩ ⟨1, 2⟩ ⟨2, 2⟩, Seg.quad ⟨2, 2⟩ ⟨3, 2⟩ ⟨4, 0⟩, Seg.quad ⟨0, 0⟩ ⟨1, 2⟩ ⟨2, 2⟩, Seg.quad ⟨2, 2⟩ ⟨3, 2⟩ ⟨4, 0⟩] := by
  decide +kernel
theorem insertSorted_perm (x : K) (l : List K) : (insertSorted x l).Perm (x :: l) := by
  induction l with
  | nil => simp [insertSorted]
  | cons y ys ih =>
    unfold insertSorted
    split_ifs
    · exact List.Perm.refl _
    · exact (List.Perm.cons y ih).trans (List.Perm.swap x y ys)

theorem sort_perm (l : List K) : (sort l).Perm l := by
  induction l with
  | nil => exact List.Perm.refl _
  | cons x xs ih => exact (insertSorted_perm x (sort xs)).trans (List.Perm.cons x ih)

/-- every element k times in a row -/
def stutter (k : Nat) (l : List K) : List K := l.flatMap (List.replicate k)

theorem cutSeg_replicate (seg : Seg K) (t : K) (k : Nat) (rest : List K) :
    cutSeg seg (List.replicate (k + 1) t ++ rest) = cutSeg seg (t :: rest) := by
  induction k with
  | zero => rfl
  | succ k ih =>
    have : List.replicate (k + 1 + 1) t ++ rest = t :: t :: (List.replicate k t ++ rest) := by
      simp [List.replicate_succ]
    rw [this, cutSeg_cons_dup]
    have : t :: (List.replicate k t ++ rest) = List.replicate (k + 1) t ++ rest := by simp [List.replicate_succ]
    rw [this, ih]

theorem stutter_map (k : Nat) (f : K → K) (l : List K) : (stutter k l).map f = stutter k (l.map f) := by
  unfold stutter
  induction l with
  | nil => rfl
  | cons x xs ih => simp [List.flatMap_cons, ih]

/-- **cutting at a list in which every parameter is repeated is cutting at the list** -/
theorem cutSeg_stutter_aux (k : Nat) : ∀ (n : Nat) (l : List K) (seg : Seg K), l.length = n →
    cutSeg seg (stutter (k + 1) l) = cutSeg seg l := by
  intro n
  induction n with
  | zero =>
    intro l seg hl
    rw [List.length_eq_zero_iff.mp hl]; rfl
  | succ n ih =>
    intro l seg hl
    cases l with
    | nil => simp at hl
    | cons t ts =>
      have hts : ts.length = n := by simpa using hl
      have hs : stutter (k + 1) (t :: ts) = List.replicate (k + 1) t ++ stutter (k + 1) ts := by
        simp [stutter, List.flatMap_cons]
      rw [hs, cutSeg_replicate]
      by_cases h : t < (1 : K) / 100000000
      · rw [cutSeg, if_pos h]
        conv_rhs => rw [cutSeg, if_pos h]
        exact ih ts seg hts
      · rw [cutSeg, if_neg h]
        conv_rhs => rw [cutSeg, if_neg h]
        congr 1
        rw [stutter_map]
        exact ih _ _ (by simpa using hts)

theorem cutSeg_stutter (k : Nat) (l : List K) (seg : Seg K) : cutSeg seg (stutter (k + 1) l) = cutSeg seg l :=
  cutSeg_stutter_aux k l.length l seg rfl

theorem stutter_sorted (k : Nat) (l : List K) (h : l.Pairwise (· ≤ ·)) : (stutter k l).Pairwise (· ≤ ·) := by
  unfold stutter
  induction l with
  | nil => simp
  | cons x xs ih =>
    rw [List.pairwise_cons] at h
    simp only [List.flatMap_cons]
    rw [List.pairwise_append]
    refine ⟨?_, ih h.2, ?_⟩
    · rw [List.pairwise_replicate]; right; exact le_refl _
    · intro a ha b hb
      rw [List.mem_replicate] at ha
      rw [List.mem_flatMap] at hb
      obtain ⟨y, hy, hb⟩ := hb
      rw [List.mem_replicate] at hb
      rw [ha.2, hb.2]; exact h.1 y hy

theorem stutter_perm (k : Nat) (l1 l2 : List K) (h : l1.Perm l2) : (stutter k l1).Perm (stutter k l2) := by
  unfold stutter; exact h.flatMap_right _

theorem count_stutter (k : Nat) (a : K) (l : List K) : (stutter k l).count a = k * l.count a := by
  unfold stutter
  induction l with
  | nil => simp
  | cons x xs ih =>
    simp only [List.flatMap_cons, List.count_append, ih, List.count_replicate, List.count_cons]
    by_cases h : x = a
    · subst h; simp; ring
    · have h' : ¬ (x == a) = true := by simpa using h
      simp [h']

theorem count_copies (k : Nat) (a : K) (l : List K) : ((List.replicate k l).flatten).count a = k * l.count a := by
  induction k with
  | zero => simp
  | succ k ih => rw [List.replicate_succ, List.flatten_cons, List.count_append, ih]; ring

/-- the sorted list of `k` copies of a list is the sorted list with every element `k` times in a row -/
theorem sort_copies (k : Nat) (l : List K) : sort ((List.replicate k l).flatten) = stutter k (sort l) := by
  apply List.Perm.eq_of_pairwise (le := (· ≤ ·)) (fun a b _ _ hab hba => le_antisymm hab hba) (sort_sorted _) (stutter_sorted k _ (sort_sorted _))
  refine (sort_perm _).trans ?_
  rw [List.perm_iff_count]
  intro a
  rw [count_copies, count_stutter, (sort_perm l).count_eq]

theorem cutsFor_map (f : Seg K → List K) (segs : List (Seg K)) (s : Seg K) :
    cutsFor segs (segs.map f) s = (List.replicate (segs.count s) (f s)).flatten := by
  unfold cutsFor
  induction segs with
  | nil => simp
  | cons x xs ih =>
    simp only [List.map_cons, List.zip_cons_cons, List.filter_cons, List.count_cons]
    by_cases h : x = s
    · subst h
      simp only [decide_true, if_true, List.flatMap_cons, ih, beq_self_eq_true]
      rw [List.replicate_succ', List.flatten_append]
      simp only [List.flatten_cons, List.flatten_nil, List.append_nil]
      clear ih
      induction xs.count x with
      | zero => simp
      | succ n ihn => rw [List.replicate_succ, List.flatten_cons, List.append_assoc, ← ihn]
    · have h' : ¬ (x == s) = true := by simpa using h
      simp only [h, decide_false, Bool.false_eq_true, if_false, h', ih, Nat.add_zero]

/-- **`addExtremes` on ANY path — repeated segments included — is the positional model**: every occurrence of a segment is cut at the
    sorted extremes of that segment, so the C03 theorems about `addExtremes` (monotone pieces, retracing, chain) hold for every path -/
theorem addExtremesDict_eq (sqrt : K → K) (segs : List (Seg K)) : addExtremesDict sqrt segs = addExtremes sqrt segs := by
  unfold addExtremesDict addExtremes splitAtPointsDict splitAtPoints
  congr 1
  rw [List.zipWith_map_right, List.zipWith_self]
  apply List.map_congr_left
  intro s hs
  rw [cutsFor_map, sort_copies]
  obtain ⟨n, hn⟩ : ∃ n, segs.count s = n + 1 := ⟨segs.count s - 1, by have := List.count_pos_iff.mpr hs; omega⟩
  rw [hn, cutSeg_stutter]
end dict

end C03
