/-
  C02 — bounding boxes enclose the curve and are tight.
  Leaves: Gen/Roots.lean, Gen/Box.lean, Gen/Eval.lean (regenerated from the source).
  List glue: Model/Extremes.lean (tied to segment.py / path/__init__.py by the correspondence run).
-/
import BezierVerif.Model.Extremes
import BezierVerif.Props.Roots
import BezierVerif.Lemmas.SegLemmas
import BezierVerif.Tactics

set_option linter.unusedSectionVars false
set_option linter.unusedVariables false
set_option linter.unusedTactic false
set_option linter.unnecessarySeqFocus false

namespace C02
open Gen Extremes
variable {K : Type} [Field K] [LinearOrder K] [IsStrictOrderedRing K]

/-! ### the coefficients handed to the quadratic solver are those of the derivative polynomial -/

theorem droots_coeffs (p0x p0y p1x p1y p2x p2y p3x p3y t : K) :
    cubic_dcoeffs_ax p0x p0y p1x p1y p2x p2y p3x p3y * t * t + cubic_dcoeffs_bx p0x p0y p1x p1y p2x p2y p3x p3y * t
        + cubic_dcoeffs_cx p0x p0y p1x p1y p2x p2y p3x p3y
      = quad_pointAtTime_x (cubic_derivative_d0x p0x p0y p1x p1y p2x p2y p3x p3y) (cubic_derivative_d0y p0x p0y p1x p1y p2x p2y p3x p3y)
          (cubic_derivative_d1x p0x p0y p1x p1y p2x p2y p3x p3y) (cubic_derivative_d1y p0x p0y p1x p1y p2x p2y p3x p3y)
          (cubic_derivative_d2x p0x p0y p1x p1y p2x p2y p3x p3y) (cubic_derivative_d2y p0x p0y p1x p1y p2x p2y p3x p3y) t ∧
    cubic_dcoeffs_ay p0x p0y p1x p1y p2x p2y p3x p3y * t * t + cubic_dcoeffs_by p0x p0y p1x p1y p2x p2y p3x p3y * t
        + cubic_dcoeffs_cy p0x p0y p1x p1y p2x p2y p3x p3y
      = quad_pointAtTime_y (cubic_derivative_d0x p0x p0y p1x p1y p2x p2y p3x p3y) (cubic_derivative_d0y p0x p0y p1x p1y p2x p2y p3x p3y)
          (cubic_derivative_d1x p0x p0y p1x p1y p2x p2y p3x p3y) (cubic_derivative_d1y p0x p0y p1x p1y p2x p2y p3x p3y)
          (cubic_derivative_d2x p0x p0y p1x p1y p2x p2y p3x p3y) (cubic_derivative_d2y p0x p0y p1x p1y p2x p2y p3x p3y) t := by
  constructor <;> (simp only [gen_def]; ring)

/-! ### `extend` accumulates min / max -/

theorem extend_point_spec (l b r t px py : K) :
    bbox_extend_point l b r t px py = [min l px, min b py, max r px, max t py] := by
  simp only [gen_def]
  split_ifs <;> simp_all [min_def, max_def] <;> (repeat' constructor) <;>
    (intros; first | linarith | (exfalso; linarith) | rfl)

theorem extend_first_spec (px py : K) : bbox_extend_first px py = [px, py, px, py] := by
  simp [gen_def]

/-- `bb` is the tight hull of the points: contains all of them, every side attained -/
def IsHull (bb : Box K) (pts : List (Pt K)) : Prop :=
  (∀ p ∈ pts, bb.l ≤ p.x ∧ p.x ≤ bb.r ∧ bb.b ≤ p.y ∧ p.y ≤ bb.t) ∧
  (∃ p ∈ pts, p.x = bb.l) ∧ (∃ p ∈ pts, p.x = bb.r) ∧ (∃ p ∈ pts, p.y = bb.b) ∧ (∃ p ∈ pts, p.y = bb.t)

theorem extend_none (p : Pt K) : extend none p = some ⟨p.x, p.y, p.x, p.y⟩ := by
  simp [extend, extend_first_spec]

theorem extend_some (bb : Box K) (p : Pt K) :
    extend (some bb) p = some ⟨min bb.l p.x, min bb.b p.y, max bb.r p.x, max bb.t p.y⟩ := by
  simp [extend, extend_point_spec]

theorem hull_step (bb : Box K) (pts : List (Pt K)) (p : Pt K) (h : IsHull bb pts) :
    IsHull ⟨min bb.l p.x, min bb.b p.y, max bb.r p.x, max bb.t p.y⟩ (pts ++ [p]) := by
  obtain ⟨hin, ⟨pl, hpl, el⟩, ⟨pr, hpr, er⟩, ⟨pb, hpb, eb⟩, ⟨pt, hpt, et⟩⟩ := h
  refine ⟨?_, ?_, ?_, ?_, ?_⟩
  · intro q hq
    rcases List.mem_append.mp hq with hq | hq
    · obtain ⟨h1, h2, h3, h4⟩ := hin q hq
      exact ⟨le_trans (min_le_left _ _) h1, le_trans h2 (le_max_left _ _),
             le_trans (min_le_left _ _) h3, le_trans h4 (le_max_left _ _)⟩
    · simp at hq; subst hq
      exact ⟨min_le_right _ _, le_max_right _ _, min_le_right _ _, le_max_right _ _⟩
  · by_cases hc : bb.l ≤ p.x
    · exact ⟨pl, by simp [hpl], by simp [min_eq_left hc, el]⟩
    · exact ⟨p, by simp, by simp [min_eq_right (le_of_not_ge hc)]⟩
  · by_cases hc : p.x ≤ bb.r
    · exact ⟨pr, by simp [hpr], by simp [max_eq_left hc, er]⟩
    · exact ⟨p, by simp, by simp [max_eq_right (le_of_not_ge hc)]⟩
  · by_cases hc : bb.b ≤ p.y
    · exact ⟨pb, by simp [hpb], by simp [min_eq_left hc, eb]⟩
    · exact ⟨p, by simp, by simp [min_eq_right (le_of_not_ge hc)]⟩
  · by_cases hc : p.y ≤ bb.t
    · exact ⟨pt, by simp [hpt], by simp [max_eq_left hc, et]⟩
    · exact ⟨p, by simp, by simp [max_eq_right (le_of_not_ge hc)]⟩

theorem fold_extend_hull_aux (pts : List (Pt K)) :
    ∀ (bb : Box K) (done : List (Pt K)), IsHull bb done →
      ∃ bb', pts.foldl extend (some bb) = some bb' ∧ IsHull bb' (done ++ pts) := by
  induction pts with
  | nil => intro bb done h; exact ⟨bb, rfl, by simpa using h⟩
  | cons p ps ih =>
    intro bb done h
    simp only [List.foldl_cons, extend_some]
    obtain ⟨bb', h1, h2⟩ := ih _ (done ++ [p]) (hull_step bb done p h)
    exact ⟨bb', h1, by simpa using h2⟩

/-- folding `extend` over a non-empty list of points yields their tight hull -/
theorem fold_extend_hull (p : Pt K) (ps : List (Pt K)) :
    ∃ bb, (p :: ps).foldl extend none = some bb ∧ IsHull bb (p :: ps) := by
  simp only [List.foldl_cons, extend_none]
  have h0 : IsHull (⟨p.x, p.y, p.x, p.y⟩ : Box K) [p] := by
    refine ⟨?_, ⟨p, by simp, rfl⟩, ⟨p, by simp, rfl⟩, ⟨p, by simp, rfl⟩, ⟨p, by simp, rfl⟩⟩
    intro q hq; simp at hq; subst hq; simp
  obtain ⟨bb, h1, h2⟩ := fold_extend_hull_aux ps _ [p] h0
  exact ⟨bb, h1, by simpa using h2⟩

/-- **a segment's box is the tight hull of the curve's points at t = 0, t = 1 and every reported extreme**:
    it contains those points and each of its four sides passes through one of them. -/
theorem bounds_is_hull (sqrt : K → K) (s : Seg K) :
    ∃ bb, bounds sqrt s = some bb ∧ IsHull bb ((boundsParams sqrt s).map s.eval) := by
  unfold bounds
  have hfold : ∀ (l : List K) (acc : Option (Box K)),
      l.foldl (fun bb t => extend bb (s.eval t)) acc = (l.map s.eval).foldl extend acc := by
    intro l; induction l with
    | nil => intro acc; rfl
    | cons t ts ih => intro acc; simp [ih]
  rw [hfold]
  cases hp : boundsParams sqrt s with
  | nil => simp [boundsParams] at hp
  | cons t ts => simpa using fold_extend_hull (s.eval t) (ts.map s.eval)

/-- in particular the box contains the segment's start and end points -/
theorem bounds_contains_ends (sqrt : K → K) (s : Seg K) :
    ∃ bb, bounds sqrt s = some bb ∧
      (bb.l ≤ s.start.x ∧ s.start.x ≤ bb.r ∧ bb.b ≤ s.start.y ∧ s.start.y ≤ bb.t) ∧
      (bb.l ≤ s.end.x ∧ s.end.x ≤ bb.r ∧ bb.b ≤ s.end.y ∧ s.end.y ≤ bb.t) := by
  obtain ⟨bb, h1, h2⟩ := bounds_is_hull sqrt s
  refine ⟨bb, h1, ?_, ?_⟩
  · have := h2.1 (s.eval 0) (by simp [boundsParams])
    rwa [Seg.eval_zero] at this
  · have := h2.1 (s.eval 1) (by simp [boundsParams])
    rwa [Seg.eval_one] at this

/-! ### the box of a path is the least box containing its segments' boxes -/

def Sub (a b : Box K) : Prop := b.l ≤ a.l ∧ a.r ≤ b.r ∧ b.b ≤ a.b ∧ a.t ≤ b.t
def WF (a : Box K) : Prop := a.l ≤ a.r ∧ a.b ≤ a.t

theorem hull_wf (bb : Box K) (pts : List (Pt K)) (h : IsHull bb pts) : WF bb := by
  obtain ⟨hin, ⟨pl, hpl, _⟩, _⟩ := h
  obtain ⟨h1, h2, h3, h4⟩ := hin pl hpl
  exact ⟨le_trans h1 h2, le_trans h3 h4⟩

/-- corner points (bl, tr) of a list of boxes, in the order `extend(BoundingBox)` visits them -/
def corners : List (Box K) → List (Pt K)
  | [] => []
  | b :: bs => ⟨b.l, b.b⟩ :: ⟨b.r, b.t⟩ :: corners bs

theorem fold_extendBox (bs : List (Box K)) (acc : Option (Box K)) :
    bs.foldl (fun bb o => extendBox bb (some o)) acc = (corners bs).foldl extend acc := by
  induction bs generalizing acc with
  | nil => rfl
  | cons b bs ih =>
    simp only [List.foldl_cons, corners]
    exact ih _

/-- least box: contains every segment box, and is contained in every box that does -/
theorem path_bounds_smallest (b : Box K) (bs : List (Box K)) (hwf : ∀ x ∈ b :: bs, WF x) :
    ∃ bb, (b :: bs).foldl (fun acc o => extendBox acc (some o)) none = some bb ∧
      (∀ x ∈ b :: bs, Sub x bb) ∧ (∀ bb', (∀ x ∈ b :: bs, Sub x bb') → Sub bb bb') := by
  rw [fold_extendBox]
  obtain ⟨bb, h1, h2⟩ := fold_extend_hull (⟨b.l, b.b⟩ : Pt K) ((⟨b.r, b.t⟩ : Pt K) :: corners bs)
  have hc : corners (b :: bs) = (⟨b.l, b.b⟩ : Pt K) :: ⟨b.r, b.t⟩ :: corners bs := rfl
  rw [hc]
  refine ⟨bb, h1, ?_, ?_⟩
  · -- contains every box
    have hmem : ∀ (l : List (Box K)) (x : Box K), x ∈ l → (⟨x.l, x.b⟩ : Pt K) ∈ corners l ∧ (⟨x.r, x.t⟩ : Pt K) ∈ corners l := by
      intro l; induction l with
      | nil => intro x hx; simp at hx
      | cons y ys ih =>
        intro x hx
        rcases List.mem_cons.mp hx with rfl | hx
        · simp [corners]
        · obtain ⟨a1, a2⟩ := ih x hx
          simp [corners, a1, a2]
    intro x hx
    obtain ⟨m1, m2⟩ := hmem (b :: bs) x hx
    rw [hc] at m1 m2
    have c1 := h2.1 _ m1
    have c2 := h2.1 _ m2
    exact ⟨c1.1, c2.2.1, c1.2.2.1, c2.2.2.2⟩
  · intro bb' hall
    -- every corner point comes from a well-formed box contained in bb'
    have hcorner : ∀ (l : List (Box K)), (∀ x ∈ l, WF x ∧ Sub x bb') → ∀ p ∈ corners l,
        bb'.l ≤ p.x ∧ p.x ≤ bb'.r ∧ bb'.b ≤ p.y ∧ p.y ≤ bb'.t := by
      intro l; induction l with
      | nil => intro _ p hp; simp [corners] at hp
      | cons y ys ih =>
        intro hl p hp
        obtain ⟨⟨w1, w2⟩, s1, s2, s3, s4⟩ := hl y (by simp)
        simp only [corners, List.mem_cons] at hp
        rcases hp with rfl | rfl | hp
        · exact ⟨s1, le_trans w1 s2, s3, le_trans w2 s4⟩
        · exact ⟨le_trans s1 w1, s2, le_trans s3 w2, s4⟩
        · exact ih (fun x hx => hl x (List.mem_cons_of_mem _ hx)) p hp
    have hall' := hcorner (b :: bs) (fun x hx => ⟨hwf x hx, hall x hx⟩)
    rw [hc] at hall'
    obtain ⟨_, ⟨pl, hpl, el⟩, ⟨pr, hpr, er⟩, ⟨pb, hpb, eb⟩, ⟨pt, hpt, et⟩⟩ := h2
    exact ⟨by rw [← el]; exact (hall' pl hpl).1, by rw [← er]; exact (hall' pr hpr).2.1,
           by rw [← eb]; exact (hall' pb hpb).2.2.1, by rw [← et]; exact (hall' pt hpt).2.2.2⟩

/-- non-vacuity: a two-point hull -/
example : IsHull (⟨0, 0, 2, 3⟩ : Box ℚ) [⟨0, 3⟩, ⟨2, 0⟩] := by
  refine ⟨?_, ⟨⟨0, 3⟩, by simp, rfl⟩, ⟨⟨2, 0⟩, by simp, rfl⟩, ⟨⟨2, 0⟩, by simp, rfl⟩, ⟨⟨0, 3⟩, by simp, rfl⟩⟩
  intro p hp; simp at hp; rcases hp with rfl | rfl <;> norm_num

end C02
