/-
  C03 (backtracking bound) — after `addExtremes` every piece is NEARLY monotone in x and in y: in one of the two directions the
  coordinate never moves back by more than 0.06 % of the extent of the original segment's control polygon.  Over ℝ.
  Ingredients: the explicit antiderivative (`antideriv`), the exact Taylor expansion at a root of the derivative (`taylor_root`),
  the variation next to a root (`var_above/below`, `window_var`), the sign on the core [0.01, 0.99] ∩ piece (`C03M.sign_const`),
  and `rise_dominates` for a piece with hooks at both ends.
-/
import BezierVerif.Props.C03M
import Mathlib.Analysis.Calculus.MeanValue
import Mathlib.Analysis.Calculus.Deriv.Pow

set_option linter.unusedSectionVars false
set_option linter.unusedVariables false
set_option linter.unusedTactic false
set_option linter.unnecessarySeqFocus false
set_option linter.unusedSimpArgs false

namespace C03N
open Set Gen Extremes C03 C02E C03M


/-- the explicit antiderivative: increments of f are increments of a x³/3 + b x²/2 + c x -/
theorem antideriv (f : ℝ → ℝ) (a b c : ℝ) (hd : ∀ x, HasDerivAt f (a * x * x + b * x + c) x) (x y : ℝ) :
    f y - f x = a * (y ^ 3 - x ^ 3) / 3 + b * (y ^ 2 - x ^ 2) / 2 + c * (y - x) := by
  have hg : ∀ z, HasDerivAt (fun z => f z - (a * z ^ 3 / 3 + b * z ^ 2 / 2 + c * z)) 0 z := by
    intro z
    have h1 : HasDerivAt (fun z : ℝ => a * z ^ 3 / 3 + b * z ^ 2 / 2 + c * z) (a * z * z + b * z + c) z := by
      have := ((((hasDerivAt_pow 3 z).const_mul a).div_const 3).add (((hasDerivAt_pow 2 z).const_mul b).div_const 2)).add
        ((hasDerivAt_id z).const_mul c)
      exact this.congr_deriv (by simp; ring)
    exact ((hd z).sub h1).congr_deriv (by ring)
  have hconst := is_const_of_deriv_eq_zero (fun z => (hg z).differentiableAt) (fun z => (hg z).deriv) x y
  linarith

/-- exact Taylor expansion at a root r of the derivative -/
theorem taylor_root (f : ℝ → ℝ) (a b c : ℝ) (hd : ∀ x, HasDerivAt f (a * x * x + b * x + c) x) (r s : ℝ)
    (hz : a * r * r + b * r + c = 0) : f s - f r = (s - r) ^ 2 * (b / 2 + a * (2 * r + s) / 3) := by
  rw [antideriv f a b c hd r s]
  linear_combination (s - r) * hz

/-- the coefficient bound: for a cubic coordinate b/2 + a w/3 = (3 − w)·Δ²P₀ + w·Δ²P₁ with 0 ≤ w ≤ 3 -/
def CoefBound (a b K : ℝ) : Prop := ∀ w, 0 ≤ w → w ≤ 3 → |b / 2 + a * w / 3| ≤ K

theorem root_dist (f : ℝ → ℝ) (a b c K : ℝ) (hd : ∀ x, HasDerivAt f (a * x * x + b * x + c) x) (hK : CoefBound a b K)
    (r s : ℝ) (hr : 0 ≤ r ∧ r ≤ 1) (hs : 0 ≤ s ∧ s ≤ 1) (hz : a * r * r + b * r + c = 0) : |f s - f r| ≤ K * (s - r) ^ 2 := by
  rw [taylor_root f a b c hd r s hz, abs_mul, abs_of_nonneg (sq_nonneg _), mul_comm]
  exact mul_le_mul_of_nonneg_right (hK (2 * r + s) (by linarith [hr.1, hs.1]) (by linarith [hr.2, hs.2])) (sq_nonneg _)

/-- |q(x)| ≤ 2K|x − r| at distance from a root -/
theorem q_near_root (a b c K : ℝ) (hK : CoefBound a b K) (r x : ℝ) (hr : 0 ≤ r ∧ r ≤ 1) (hx : 0 ≤ x ∧ x ≤ 1)
    (hz : a * r * r + b * r + c = 0) : |a * x * x + b * x + c| ≤ 2 * K * |x - r| := by
  have e : a * x * x + b * x + c = (x - r) * (2 * (b / 2 + a * (3 * (r + x) / 2) / 3)) := by linear_combination hz
  rw [e, abs_mul, abs_mul, abs_of_pos (by norm_num : (0:ℝ) < 2)]
  have := hK (3 * (r + x) / 2) (by linarith [hr.1, hx.1]) (by linarith [hr.2, hx.2])
  nlinarith [abs_nonneg (x - r)]

/-- **variation next to a root** (same side, above): for r ≤ s1 ≤ s2, |f s2 − f s1| ≤ K((s2 − r)² − (s1 − r)²) -/
theorem var_above (f : ℝ → ℝ) (a b c K : ℝ) (hd : ∀ x, HasDerivAt f (a * x * x + b * x + c) x) (hK : CoefBound a b K)
    (r s1 s2 : ℝ) (hr : 0 ≤ r) (h1 : r ≤ s1) (h12 : s1 ≤ s2) (h2 : s2 ≤ 1) (hz : a * r * r + b * r + c = 0) :
    |f s2 - f s1| ≤ K * ((s2 - r) ^ 2 - (s1 - r) ^ 2) := by
  have hmono : ∀ σ : ℝ, (σ = 1 ∨ σ = -1) → MonotoneOn (fun x => K * (x - r) ^ 2 - σ * f x) (Icc r 1) := by
    intro σ hσ
    have hder : ∀ x, HasDerivAt (fun x => K * (x - r) ^ 2 - σ * f x) (2 * K * (x - r) - σ * (a * x * x + b * x + c)) x := by
      intro x
      have h1 : HasDerivAt (fun x : ℝ => K * (x - r) ^ 2) (2 * K * (x - r)) x := by
        have := (((hasDerivAt_id x).sub_const r).pow 2).const_mul K
        exact this.congr_deriv (by simp; ring)
      exact (h1.sub ((hd x).const_mul σ))
    apply monotoneOn_of_deriv_nonneg (convex_Icc r 1) (fun x _ => (hder x).continuousAt.continuousWithinAt)
      (fun x _ => (hder x).differentiableAt.differentiableWithinAt)
    intro x hx
    rw [(hder x).deriv]
    have hx' := interior_subset hx
    have hq := q_near_root a b c K hK r x ⟨hr, le_trans hx'.1 hx'.2⟩ ⟨le_trans hr hx'.1, hx'.2⟩ hz
    rw [abs_of_nonneg (by linarith [hx'.1] : 0 ≤ x - r)] at hq
    have := abs_le.mp hq
    rcases hσ with rfl | rfl <;> linarith [this.1, this.2]
  have m1 := hmono 1 (Or.inl rfl) ⟨h1, le_trans h12 h2⟩ ⟨le_trans h1 h12, h2⟩ h12
  have m2 := hmono (-1) (Or.inr rfl) ⟨h1, le_trans h12 h2⟩ ⟨le_trans h1 h12, h2⟩ h12
  simp only at m1 m2
  rw [abs_le]; constructor <;> linarith


theorem var_below (f : ℝ → ℝ) (a b c K : ℝ) (hd : ∀ x, HasDerivAt f (a * x * x + b * x + c) x) (hK : CoefBound a b K)
    (r s1 s2 : ℝ) (h0 : 0 ≤ s1) (h12 : s1 ≤ s2) (h2 : s2 ≤ r) (hr : r ≤ 1) (hz : a * r * r + b * r + c = 0) :
    |f s2 - f s1| ≤ K * ((s1 - r) ^ 2 - (s2 - r) ^ 2) := by
  have hmono : ∀ σ : ℝ, (σ = 1 ∨ σ = -1) → MonotoneOn (fun x => -(K * (x - r) ^ 2) - σ * f x) (Icc 0 r) := by
    intro σ hσ
    have hder : ∀ x, HasDerivAt (fun x => -(K * (x - r) ^ 2) - σ * f x) (-(2 * K * (x - r)) - σ * (a * x * x + b * x + c)) x := by
      intro x
      have h1 : HasDerivAt (fun x : ℝ => K * (x - r) ^ 2) (2 * K * (x - r)) x := by
        have := (((hasDerivAt_id x).sub_const r).pow 2).const_mul K
        exact this.congr_deriv (by simp; ring)
      exact (h1.neg.sub ((hd x).const_mul σ))
    apply monotoneOn_of_deriv_nonneg (convex_Icc 0 r) (fun x _ => (hder x).continuousAt.continuousWithinAt)
      (fun x _ => (hder x).differentiableAt.differentiableWithinAt)
    intro x hx
    rw [(hder x).deriv]
    have hx' := interior_subset hx
    have hq := q_near_root a b c K hK r x ⟨le_trans hx'.1 hx'.2, hr⟩ ⟨hx'.1, le_trans hx'.2 hr⟩ hz
    rw [abs_of_nonpos (by linarith [hx'.2] : x - r ≤ 0)] at hq
    have := abs_le.mp hq
    rcases hσ with rfl | rfl <;> linarith [this.1, this.2]
  have m1 := hmono 1 (Or.inl rfl) ⟨h0, le_trans h12 h2⟩ ⟨le_trans h0 h12, h2⟩ h12
  have m2 := hmono (-1) (Or.inr rfl) ⟨h0, le_trans h12 h2⟩ ⟨le_trans h0 h12, h2⟩ h12
  simp only at m1 m2
  rw [abs_le]; constructor <;> linarith

theorem coefBound_nonneg {a b K : ℝ} (hK : CoefBound a b K) : 0 ≤ K :=
  le_trans (abs_nonneg _) (hK 0 (le_refl _) (by norm_num))

/-- **variation inside a window of width ≤ η that contains a root of the derivative**: any two values differ by at most K η² -/
theorem window_var (f : ℝ → ℝ) (a b c K : ℝ) (hd : ∀ x, HasDerivAt f (a * x * x + b * x + c) x) (hK : CoefBound a b K)
    (lo hi η r s1 s2 : ℝ) (hlo : 0 ≤ lo) (hhi : hi ≤ 1) (hη : hi - lo ≤ η)
    (hr : lo ≤ r ∧ r ≤ hi) (h1 : lo ≤ s1 ∧ s1 ≤ hi) (h2 : lo ≤ s2 ∧ s2 ≤ hi) (hz : a * r * r + b * r + c = 0) :
    |f s1 - f s2| ≤ K * η ^ 2 := by
  have hK0 := coefBound_nonneg hK
  have hη0 : 0 ≤ η := by linarith [hr.1, hr.2]
  wlog h12 : s1 ≤ s2 generalizing s1 s2
  · rw [abs_sub_comm]; exact this s2 s1 h2 h1 (le_of_not_ge h12)
  have key : |f s2 - f s1| ≤ K * η ^ 2 := by
    by_cases ha : r ≤ s1
    · have := var_above f a b c K hd hK r s1 s2 (le_trans hlo hr.1) ha h12 (le_trans h2.2 hhi) hz
      have hb : (s2 - r) ^ 2 - (s1 - r) ^ 2 ≤ η ^ 2 := by nlinarith [sq_nonneg (s1 - r)]
      exact le_trans this (mul_le_mul_of_nonneg_left hb hK0)
    · by_cases hb : s2 ≤ r
      · have := var_below f a b c K hd hK r s1 s2 (le_trans hlo h1.1) h12 hb (le_trans hr.2 hhi) hz
        have hb' : (s1 - r) ^ 2 - (s2 - r) ^ 2 ≤ η ^ 2 := by nlinarith [sq_nonneg (s2 - r)]
        exact le_trans this (mul_le_mul_of_nonneg_left hb' hK0)
      · push Not at ha hb
        have d1 := root_dist f a b c K hd hK r s1 ⟨le_trans hlo hr.1, le_trans hr.2 hhi⟩ ⟨le_trans hlo h1.1, le_trans h1.2 hhi⟩ hz
        have d2 := root_dist f a b c K hd hK r s2 ⟨le_trans hlo hr.1, le_trans hr.2 hhi⟩ ⟨le_trans hlo h2.1, le_trans h2.2 hhi⟩ hz
        have e : f s2 - f s1 = (f s2 - f r) - (f s1 - f r) := by ring
        rw [e]
        have t := abs_sub (f s2 - f r) (f s1 - f r)
        have hb' : (s2 - r) ^ 2 + (s1 - r) ^ 2 ≤ η ^ 2 := by nlinarith
        calc |f s2 - f r - (f s1 - f r)| ≤ |f s2 - f r| + |f s1 - f r| := t
          _ ≤ K * (s2 - r) ^ 2 + K * (s1 - r) ^ 2 := add_le_add d2 d1
          _ = K * ((s2 - r) ^ 2 + (s1 - r) ^ 2) := by ring
          _ ≤ K * η ^ 2 := mul_le_mul_of_nonneg_left hb' hK0
  rwa [abs_sub_comm]


/-- where the derivative is non-negative the function does not decrease -/
theorem mono_of_nonneg (f : ℝ → ℝ) (a b c p y : ℝ) (hd : ∀ x, HasDerivAt f (a * x * x + b * x + c) x)
    (hq : ∀ x ∈ Icc p y, 0 ≤ a * x * x + b * x + c) : MonotoneOn f (Icc p y) := by
  apply monotoneOn_of_deriv_nonneg (convex_Icc p y) (fun x _ => (hd x).continuousAt.continuousWithinAt)
    (fun x _ => (hd x).differentiableAt.differentiableWithinAt)
  intro x hx
  rw [(hd x).deriv]
  exact hq x (interior_subset hx)

/-- on an interval containing a point where the quadratic is ≥ 0: it is ≥ 0 throughout, or it has a root there -/
theorem nonneg_or_root (a b c p y m : ℝ) (hm : m ∈ Icc p y) (hqm : 0 ≤ a * m * m + b * m + c) :
    (∀ x ∈ Icc p y, 0 ≤ a * x * x + b * x + c) ∨ (∃ r ∈ Icc p y, a * r * r + b * r + c = 0) := by
  by_cases hall : ∀ x ∈ Icc p y, 0 ≤ a * x * x + b * x + c
  · exact Or.inl hall
  right
  push Not at hall
  obtain ⟨x, hx, hneg⟩ := hall
  have hcont : Continuous fun x : ℝ => a * x * x + b * x + c := by fun_prop
  rcases le_total x m with h | h
  · have h0 : (0 : ℝ) ∈ Icc (a * x * x + b * x + c) (a * m * m + b * m + c) := ⟨le_of_lt hneg, hqm⟩
    obtain ⟨r, hr, hz⟩ := intermediate_value_Icc h hcont.continuousOn h0
    exact ⟨r, ⟨le_trans hx.1 hr.1, le_trans hr.2 hm.2⟩, hz⟩
  · have h0 : (0 : ℝ) ∈ Icc (a * x * x + b * x + c) (a * m * m + b * m + c) := ⟨le_of_lt hneg, hqm⟩
    obtain ⟨r, hr, hz⟩ := intermediate_value_Icc' h hcont.continuousOn h0
    exact ⟨r, ⟨le_trans hm.1 hr.1, le_trans hr.2 hx.2⟩, hz⟩

/-- **the rise between two far-apart roots outweighs the dips outside them**: roots r1 ≤ 1/100 and r2 ≥ 99/100, derivative ≥ 0
    at 1/2; then f s1 ≤ f s2 for s1 ≤ r1 and s2 ≥ r2 -/
theorem rise_dominates (f : ℝ → ℝ) (a b c : ℝ) (hd : ∀ x, HasDerivAt f (a * x * x + b * x + c) x) (r1 r2 s1 s2 : ℝ)
    (h0 : 0 ≤ s1) (h1 : s1 ≤ r1) (hr1 : r1 ≤ 1 / 100) (hr2 : (99 : ℝ) / 100 ≤ r2) (h2 : r2 ≤ s2) (h3 : s2 ≤ 1)
    (hz1 : a * r1 * r1 + b * r1 + c = 0) (hz2 : a * r2 * r2 + b * r2 + c = 0)
    (hmid : 0 ≤ a * (1 / 2) * (1 / 2) + b * (1 / 2) + c) : f s1 ≤ f s2 := by
  have hne : r1 - r2 ≠ 0 := by intro h; linarith
  have hb : b = -a * (r1 + r2) := by
    have : (r1 - r2) * (a * (r1 + r2) + b) = 0 := by linear_combination hz1 - hz2
    rcases mul_eq_zero.mp this with h | h
    · exact absurd h hne
    · linarith
  have hc : c = a * r1 * r2 := by rw [hb] at hz1; linear_combination hz1
  have ha : a ≤ 0 := by
    rw [hb, hc] at hmid
    have e : a * (1 / 2) * (1 / 2) + -a * (r1 + r2) * (1 / 2) + a * r1 * r2 = a * ((1 / 2 - r1) * (1 / 2 - r2)) := by ring
    rw [e] at hmid
    have hneg : (1 / 2 - r1) * (1 / 2 - r2) < 0 := mul_neg_of_pos_of_neg (by linarith) (by linarith)
    by_contra hpos; push Not at hpos
    have := mul_neg_of_pos_of_neg hpos hneg
    linarith
  have key := antideriv f a b c hd s1 s2
  set d1 := r1 - s1 with hd1
  set d2 := s2 - r2 with hd2
  set w := r2 - r1 with hw
  have hQ : f s2 - f s1 = a * (-(w ^ 3) / 6 + d1 ^ 2 * (d1 / 3 + w / 2) + d2 ^ 2 * (d2 / 3 + w / 2)) := by
    rw [key, hb, hc]; simp only [hd1, hd2, hw]; ring
  have hd1b : 0 ≤ d1 ∧ d1 ≤ 1 / 100 := ⟨by linarith, by linarith⟩
  have hd2b : 0 ≤ d2 ∧ d2 ≤ 1 / 100 := ⟨by linarith, by linarith⟩
  have hwb : (49 : ℝ) / 50 ≤ w ∧ w ≤ 1 := ⟨by linarith, by linarith⟩
  have t1 : d1 ^ 2 * (d1 / 3 + w / 2) ≤ (1 / 10000) * 1 := by
    apply mul_le_mul _ _ _ (by norm_num)
    · nlinarith [hd1b.1, hd1b.2]
    · linarith [hd1b.2, hwb.2]
    · linarith [hd1b.1, hwb.1]
  have t2 : d2 ^ 2 * (d2 / 3 + w / 2) ≤ (1 / 10000) * 1 := by
    apply mul_le_mul _ _ _ (by norm_num)
    · nlinarith [hd2b.1, hd2b.2]
    · linarith [hd2b.2, hwb.2]
    · linarith [hd2b.1, hwb.1]
  have t3 : (49 / 50 : ℝ) ^ 3 ≤ w ^ 3 := pow_le_pow_left₀ (by norm_num) hwb.1 3
  have hQneg : -(w ^ 3) / 6 + d1 ^ 2 * (d1 / 3 + w / 2) + d2 ^ 2 * (d2 / 3 + w / 2) ≤ 0 := by
    have : (49 / 50 : ℝ) ^ 3 / 6 > 2 / 10000 := by norm_num
    linarith
  have : 0 ≤ f s2 - f s1 := by rw [hQ]; exact mul_nonneg_of_nonpos_of_nonpos ha hQneg
  linarith


/-- **nearly non-decreasing**: on [u, v] ⊆ [0, 1], if the derivative is ≥ 0 on the core [max u 0.01, min v 0.99] (non-empty), the
    function never falls by more than K/10000 between an earlier and a later parameter -/
theorem nearly_nondecreasing (f : ℝ → ℝ) (a b c K u v : ℝ) (hd : ∀ x, HasDerivAt f (a * x * x + b * x + c) x) (hK : CoefBound a b K)
    (hu : 0 ≤ u) (hv : v ≤ 1) (hcore : max u (1 / 100) ≤ min v (99 / 100))
    (hpos : ∀ x ∈ Icc (max u (1 / 100)) (min v (99 / 100)), 0 ≤ a * x * x + b * x + c)
    (s1 s2 : ℝ) (h1 : u ≤ s1) (h12 : s1 ≤ s2) (h2 : s2 ≤ v) : f s1 - f s2 ≤ K * (1 / 100) ^ 2 := by
  have hK0 := coefBound_nonneg hK
  have hδ : 0 ≤ K * (1 / 100) ^ 2 := by positivity
  set u' := max u (1 / 100) with hu'
  set v' := min v (99 / 100) with hv'
  have hu'0 : 0 ≤ u' := le_trans hu (le_max_left _ _)
  have hv'1 : v' ≤ 1 := le_trans (min_le_left _ _) hv
  -- the low window [0, 1/100] and the high window [99/100, 1]
  have lowwin : ∀ s t, u ≤ s → s ≤ t → t ≤ u' → s < u' → f s - f t ≤ K * (1 / 100) ^ 2 := by
    intro s t hs hst ht hlt
    have hh : u' = 1 / 100 := by
      rcases max_choice u (1 / 100) with h | h
      · rw [← hu'] at h; linarith
      · rw [← hu'] at h; exact h
    have hqm : 0 ≤ a * u' * u' + b * u' + c := hpos u' ⟨le_refl _, hcore⟩
    rcases nonneg_or_root a b c s u' u' ⟨le_of_lt hlt, le_refl _⟩ hqm with hall | ⟨r, hr, hz⟩
    · have := mono_of_nonneg f a b c s u' hd hall ⟨le_refl _, le_of_lt hlt⟩ ⟨hst, ht⟩ hst
      linarith
    · have := window_var f a b c K hd hK 0 (1 / 100) (1 / 100) r s t (le_refl _) (by norm_num) (by norm_num)
        ⟨le_trans (le_trans hu hs) hr.1, by rw [← hh]; exact hr.2⟩ ⟨le_trans hu hs, by rw [← hh]; exact le_of_lt hlt⟩
        ⟨le_trans (le_trans hu hs) hst, by rw [← hh]; exact ht⟩ hz
      exact le_trans (le_abs_self _) this
  have highwin : ∀ s t, v' ≤ s → s ≤ t → t ≤ v → v' < t → f s - f t ≤ K * (1 / 100) ^ 2 := by
    intro s t hs hst ht hlt
    have hh : v' = 99 / 100 := by
      rcases min_choice v (99 / 100) with h | h
      · rw [← hv'] at h; linarith
      · rw [← hv'] at h; exact h
    have hqm : 0 ≤ a * v' * v' + b * v' + c := hpos v' ⟨hcore, le_refl _⟩
    rcases nonneg_or_root a b c v' t v' ⟨le_refl _, le_of_lt hlt⟩ hqm with hall | ⟨r, hr, hz⟩
    · have := mono_of_nonneg f a b c v' t hd hall ⟨hs, hst⟩ ⟨le_of_lt hlt, le_refl _⟩ hst
      linarith
    · have := window_var f a b c K hd hK (99 / 100) 1 (1 / 100) r s t (by norm_num) (le_refl _) (by norm_num)
        ⟨by rw [← hh]; exact hr.1, le_trans hr.2 (le_trans ht hv)⟩ ⟨by rw [← hh]; exact hs, le_trans hst (le_trans ht hv)⟩
        ⟨by rw [← hh]; exact le_of_lt hlt, le_trans ht hv⟩ hz
      exact le_trans (le_abs_self _) this
  by_cases hA : s2 ≤ u'
  · by_cases hlt : s1 < u'
    · exact lowwin s1 s2 h1 h12 hA hlt
    · have : s1 = s2 := le_antisymm h12 (le_trans hA (not_lt.mp hlt))
      rw [this]; simpa using hδ
  by_cases hB : v' ≤ s1
  · by_cases hlt : v' < s2
    · exact highwin s1 s2 hB h12 h2 hlt
    · have : s1 = s2 := le_antisymm h12 (le_trans (not_lt.mp hlt) hB)
      rw [this]; simpa using hδ
  push Not at hA hB
  -- s1 < v' and u' < s2: compare through the core
  set a' := max s1 u' with ha'
  set b' := min s2 v' with hb'
  have hab : a' ≤ b' := by
    apply max_le
    · exact le_min h12 (le_of_lt hB)
    · exact le_min (le_of_lt hA) hcore
  have hcoremono : f a' ≤ f b' :=
    mono_of_nonneg f a b c u' v' hd hpos ⟨le_max_right _ _, le_trans hab (min_le_right _ _)⟩
      ⟨le_trans (le_max_right _ _) hab, min_le_right _ _⟩ hab
  -- the low side
  have low : (f s1 ≤ f a') ∨ (∃ r, s1 ≤ r ∧ r ≤ 1 / 100 ∧ a' = 1 / 100 ∧ a * r * r + b * r + c = 0 ∧ f s1 - f a' ≤ K * (1 / 100) ^ 2) := by
    by_cases hlt : s1 < u'
    · have hh : u' = 1 / 100 := by
        rcases max_choice u (1 / 100) with h | h
        · rw [← hu'] at h; linarith
        · rw [← hu'] at h; exact h
      have ea : a' = u' := max_eq_right (le_of_lt hlt)
      have hqm : 0 ≤ a * u' * u' + b * u' + c := hpos u' ⟨le_refl _, hcore⟩
      rcases nonneg_or_root a b c s1 u' u' ⟨le_of_lt hlt, le_refl _⟩ hqm with hall | ⟨r, hr, hz⟩
      · left; rw [ea]
        exact mono_of_nonneg f a b c s1 u' hd hall ⟨le_refl _, le_of_lt hlt⟩ ⟨le_of_lt hlt, le_refl _⟩ (le_of_lt hlt)
      · right
        refine ⟨r, hr.1, by rw [← hh]; exact hr.2, by rw [ea, hh], hz, ?_⟩
        rw [ea]
        exact lowwin s1 u' h1 (le_of_lt hlt) (le_refl _) hlt
    · left
      have : a' = s1 := max_eq_left (not_lt.mp hlt)
      rw [this]
  have high : (f b' ≤ f s2) ∨ (∃ r, (99 : ℝ) / 100 ≤ r ∧ r ≤ s2 ∧ b' = 99 / 100 ∧ a * r * r + b * r + c = 0 ∧ f b' - f s2 ≤ K * (1 / 100) ^ 2) := by
    by_cases hlt : v' < s2
    · have hh : v' = 99 / 100 := by
        rcases min_choice v (99 / 100) with h | h
        · rw [← hv'] at h; linarith
        · rw [← hv'] at h; exact h
      have eb : b' = v' := min_eq_right (le_of_lt hlt)
      have hqm : 0 ≤ a * v' * v' + b * v' + c := hpos v' ⟨hcore, le_refl _⟩
      rcases nonneg_or_root a b c v' s2 v' ⟨le_refl _, le_of_lt hlt⟩ hqm with hall | ⟨r, hr, hz⟩
      · left; rw [eb]
        exact mono_of_nonneg f a b c v' s2 hd hall ⟨le_refl _, le_of_lt hlt⟩ ⟨le_of_lt hlt, le_refl _⟩ (le_of_lt hlt)
      · right
        refine ⟨r, by rw [← hh]; exact hr.1, hr.2, by rw [eb, hh], hz, ?_⟩
        rw [eb]
        exact highwin v' s2 (le_refl _) (le_of_lt hlt) h2 hlt
    · left
      have : b' = s2 := min_eq_left (not_lt.mp hlt)
      rw [this]
  rcases low with hl | ⟨r1, hr1a, hr1b, ea, hz1, hl⟩ <;> rcases high with hh | ⟨r2, hr2a, hr2b, eb, hz2, hh⟩
  · linarith
  · linarith
  · linarith
  · -- both windows hold a root: the rise across the core dominates
    have hmid : 0 ≤ a * (1 / 2) * (1 / 2) + b * (1 / 2) + c := by
      apply hpos
      constructor
      · have : u' ≤ a' := le_max_right _ _
        rw [ea] at this; linarith
      · have : b' ≤ v' := min_le_right _ _
        rw [eb] at this; linarith
    have := rise_dominates f a b c hd r1 r2 s1 s2 (le_trans hu h1) hr1a hr1b hr2a hr2b (le_trans h2 hv) hz1 hz2 hmid
    linarith


/-- nearly monotone on [u, v]: in one of the two directions the function never moves back by more than δ -/
def NearlyMono (f : ℝ → ℝ) (u v δ : ℝ) : Prop :=
  (∀ s1 s2, u ≤ s1 → s1 ≤ s2 → s2 ≤ v → f s1 - f s2 ≤ δ) ∨ (∀ s1 s2, u ≤ s1 → s1 ≤ s2 → s2 ≤ v → f s2 - f s1 ≤ δ)

theorem coefBound_neg {a b K : ℝ} (hK : CoefBound a b K) : CoefBound (-a) (-b) K := by
  intro w h0 h3
  have := hK w h0 h3
  have e : -b / 2 + -a * w / 3 = -(b / 2 + a * w / 3) := by ring
  rw [e, abs_neg]; exact this

/-- a piece inside a window of width ≤ η -/
theorem window_nearly (f : ℝ → ℝ) (a b c K lo hi η u v : ℝ) (hd : ∀ x, HasDerivAt f (a * x * x + b * x + c) x) (hK : CoefBound a b K)
    (hlo : 0 ≤ lo) (hhi : hi ≤ 1) (hη : hi - lo ≤ η) (hu : lo ≤ u) (hv : v ≤ hi) : NearlyMono f u v (K * η ^ 2) := by
  have hK0 := coefBound_nonneg hK
  by_cases huv : u ≤ v
  · have hδ : 0 ≤ K * η ^ 2 := mul_nonneg hK0 (sq_nonneg _)
    by_cases hroot : ∃ r ∈ Icc u v, a * r * r + b * r + c = 0
    · obtain ⟨r, hr, hz⟩ := hroot
      left
      intro s1 s2 h1 h12 h2
      have := window_var f a b c K hd hK lo hi η r s1 s2 hlo hhi hη ⟨le_trans hu hr.1, le_trans hr.2 hv⟩
        ⟨le_trans hu h1, le_trans (le_trans h12 h2) hv⟩ ⟨le_trans hu (le_trans h1 h12), le_trans h2 hv⟩ hz
      exact le_trans (le_abs_self _) this
    · push Not at hroot
      rcases le_total 0 (a * u * u + b * u + c) with hq | hq
      · left
        rcases nonneg_or_root a b c u v u ⟨le_refl _, huv⟩ hq with hall | ⟨r, hr, hz⟩
        · intro s1 s2 h1 h12 h2
          have := mono_of_nonneg f a b c u v hd hall ⟨h1, le_trans h12 h2⟩ ⟨le_trans h1 h12, h2⟩ h12
          linarith
        · exact absurd hz (hroot r hr)
      · right
        have hq' : 0 ≤ (-a) * u * u + (-b) * u + (-c) := by linarith
        rcases nonneg_or_root (-a) (-b) (-c) u v u ⟨le_refl _, huv⟩ hq' with hall | ⟨r, hr, hz⟩
        · intro s1 s2 h1 h12 h2
          have hd' : ∀ x, HasDerivAt (fun y => - f y) ((-a) * x * x + (-b) * x + (-c)) x :=
            fun x => (hd x).neg.congr_deriv (by ring)
          have := mono_of_nonneg (fun y => - f y) (-a) (-b) (-c) u v hd' hall ⟨h1, le_trans h12 h2⟩ ⟨le_trans h1 h12, h2⟩ h12
          simp only at this
          linarith
        · exact absurd (by linarith : a * r * r + b * r + c = 0) (hroot r hr)
  · left
    intro s1 s2 h1 h12 h2
    exact absurd (le_trans h1 (le_trans h12 h2)) huv

/-- **nearly monotone**: a coordinate on [u, v] ⊆ [0, 1] whose derivative has no simple root strictly inside the core
    (max u 0.01, min v 0.99) never moves back by more than K/10000 in one of the two directions -/
theorem nearly_monotone (f : ℝ → ℝ) (a b c K u v : ℝ) (hd : ∀ x, HasDerivAt f (a * x * x + b * x + c) x) (hK : CoefBound a b K)
    (hu : 0 ≤ u) (hv : v ≤ 1)
    (hno : ∀ e, max u (1 / 100) < e → e < min v (99 / 100) → ¬ SimpleRoot a b c e) : NearlyMono f u v (K * (1 / 100) ^ 2) := by
  by_cases hcore : max u (1 / 100) ≤ min v (99 / 100)
  · rcases sign_const a b c _ _ hno with hp | hn
    · left
      intro s1 s2 h1 h12 h2
      exact nearly_nondecreasing f a b c K u v hd hK hu hv hcore hp s1 s2 h1 h12 h2
    · right
      intro s1 s2 h1 h12 h2
      have hd' : ∀ x, HasDerivAt (fun y => - f y) ((-a) * x * x + (-b) * x + (-c)) x :=
        fun x => (hd x).neg.congr_deriv (by ring)
      have hp' : ∀ x ∈ Icc (max u (1 / 100)) (min v (99 / 100)), 0 ≤ (-a) * x * x + (-b) * x + (-c) := by
        intro x hx; have := hn x hx; linarith
      have := nearly_nondecreasing (fun y => - f y) (-a) (-b) (-c) K u v hd' (coefBound_neg hK) hu hv hcore hp' s1 s2 h1 h12 h2
      linarith
  · push Not at hcore
    by_cases h1 : v ≤ 1 / 100
    · exact window_nearly f a b c K 0 (1 / 100) (1 / 100) u v hd hK (le_refl _) (by norm_num) (by norm_num) hu h1
    by_cases h2 : (99 : ℝ) / 100 ≤ u
    · exact window_nearly f a b c K (99 / 100) 1 (1 / 100) u v hd hK (by norm_num) (le_refl _) (by norm_num) h2 hv
    push Not at h1 h2
    -- the interval is empty
    have hvu : v < u := by
      rcases le_total u (1 / 100) with hle | hle
      · rw [max_eq_right hle] at hcore
        have := lt_min h1 (by norm_num : (1 : ℝ) / 100 < 99 / 100)
        linarith
      · rw [max_eq_left hle] at hcore
        rcases le_total v (99 / 100) with hv' | hv'
        · rw [min_eq_left hv'] at hcore; exact hcore
        · rw [min_eq_right hv'] at hcore; linarith
    left
    intro s1 s2 a1 a12 a2
    exact absurd (le_trans a1 (le_trans a12 a2)) (not_le.mpr hvu)

theorem nearlyMono_reparam (f g : ℝ → ℝ) (lo hi δ : ℝ) (hle : lo ≤ hi) (hg : ∀ s, g s = f (lo + s * (hi - lo)))
    (h : NearlyMono f lo hi δ) : NearlyMono g 0 1 δ := by
  have hmem : ∀ s : ℝ, 0 ≤ s → s ≤ 1 → lo ≤ lo + s * (hi - lo) ∧ lo + s * (hi - lo) ≤ hi := by
    intro s h0 h1; constructor <;> nlinarith
  have hmono : ∀ s t : ℝ, s ≤ t → lo + s * (hi - lo) ≤ lo + t * (hi - lo) := by
    intro s t hst; nlinarith
  rcases h with h | h
  · left; intro s1 s2 h1 h12 h2; rw [hg, hg]
    exact h _ _ (hmem s1 h1 (le_trans h12 h2)).1 (hmono s1 s2 h12) (hmem s2 (le_trans h1 h12) h2).2
  · right; intro s1 s2 h1 h12 h2; rw [hg, hg]
    exact h _ _ (hmem s1 h1 (le_trans h12 h2)).1 (hmono s1 s2 h12) (hmem s2 (le_trans h1 h12) h2).2


/-! ### the coefficient bound for a segment's coordinates: K = 6 E -/

theorem coefBound_of_diffs (p0 p1 p2 p3 E : ℝ) (h01 : |p0 - p1| ≤ E) (h12 : |p1 - p2| ≤ E) (h23 : |p2 - p3| ≤ E) :
    CoefBound (3 * (p3 - 3 * p2 + 3 * p1 - p0)) (6 * (p2 - 2 * p1 + p0)) (6 * E) := by
  intro w h0 h3
  obtain ⟨a1, a2⟩ := abs_le.mp h01
  obtain ⟨b1, b2⟩ := abs_le.mp h12
  obtain ⟨c1, c2⟩ := abs_le.mp h23
  have e : 6 * (p2 - 2 * p1 + p0) / 2 + 3 * (p3 - 3 * p2 + 3 * p1 - p0) * w / 3 =
      (p2 - 2 * p1 + p0) * (3 - w) + (p3 - 2 * p2 + p1) * w := by ring
  rw [e, abs_le]
  have hA1 : p2 - 2 * p1 + p0 ≤ 2 * E := by linarith
  have hA2 : -(2 * E) ≤ p2 - 2 * p1 + p0 := by linarith
  have hB1 : p3 - 2 * p2 + p1 ≤ 2 * E := by linarith
  have hB2 : -(2 * E) ≤ p3 - 2 * p2 + p1 := by linarith
  have h3w : 0 ≤ 3 - w := by linarith
  constructor
  · nlinarith [mul_le_mul_of_nonneg_right hA2 h3w, mul_le_mul_of_nonneg_right hB2 h0]
  · nlinarith [mul_le_mul_of_nonneg_right hA1 h3w, mul_le_mul_of_nonneg_right hB1 h0]

theorem extent_nonneg (s : Seg ℝ) (E : ℝ) (hE : Extent s E) : 0 ≤ E := by
  have := (hE s.start (by cases s <;> simp [Seg.start, Seg.points]) s.start (by cases s <;> simp [Seg.start, Seg.points])).1
  exact le_trans (abs_nonneg _) this

theorem coefBound_x (s : Seg ℝ) (E : ℝ) (hE : Extent s E) : CoefBound (dcoeffs s).1.1 (dcoeffs s).1.2.1 (6 * E) := by
  have hE0 := extent_nonneg s E hE
  cases s with
  | line a b =>
    intro w _ _; simp only [dcoeffs]; norm_num; linarith
  | quad a b c =>
    have hab := (hE a (by simp [Seg.points]) b (by simp [Seg.points])).1
    have hbc := (hE b (by simp [Seg.points]) c (by simp [Seg.points])).1
    obtain ⟨a1, a2⟩ := abs_le.mp hab
    obtain ⟨b1, b2⟩ := abs_le.mp hbc
    intro w _ _
    simp only [dcoeffs]
    have e : 2 * (a.x - 2 * b.x + c.x) / 2 + 0 * w / 3 = a.x - 2 * b.x + c.x := by ring
    rw [e, abs_le]; constructor <;> linarith
  | cubic a b c d =>
    have hab := (hE a (by simp [Seg.points]) b (by simp [Seg.points])).1
    have hbc := (hE b (by simp [Seg.points]) c (by simp [Seg.points])).1
    have hcd := (hE c (by simp [Seg.points]) d (by simp [Seg.points])).1
    have := coefBound_of_diffs a.x b.x c.x d.x E hab hbc hcd
    intro w h0 h3
    have := this w h0 h3
    simp only [dcoeffs, gen_def]
    convert this using 2; ring

theorem coefBound_y (s : Seg ℝ) (E : ℝ) (hE : Extent s E) : CoefBound (dcoeffs s).2.1 (dcoeffs s).2.2.1 (6 * E) := by
  have hE0 := extent_nonneg s E hE
  cases s with
  | line a b =>
    intro w _ _; simp only [dcoeffs]; norm_num; linarith
  | quad a b c =>
    have hab := (hE a (by simp [Seg.points]) b (by simp [Seg.points])).2
    have hbc := (hE b (by simp [Seg.points]) c (by simp [Seg.points])).2
    obtain ⟨a1, a2⟩ := abs_le.mp hab
    obtain ⟨b1, b2⟩ := abs_le.mp hbc
    intro w _ _
    simp only [dcoeffs]
    have e : 2 * (a.y - 2 * b.y + c.y) / 2 + 0 * w / 3 = a.y - 2 * b.y + c.y := by ring
    rw [e, abs_le]; constructor <;> linarith
  | cubic a b c d =>
    have hab := (hE a (by simp [Seg.points]) b (by simp [Seg.points])).2
    have hbc := (hE b (by simp [Seg.points]) c (by simp [Seg.points])).2
    have hcd := (hE c (by simp [Seg.points]) d (by simp [Seg.points])).2
    have := coefBound_of_diffs a.y b.y c.y d.y E hab hbc hcd
    intro w h0 h3
    have := this w h0 h3
    simp only [dcoeffs, gen_def]
    convert this using 2; ring

/-- **C03, the backtracking bound.**  One segment of the path, cut by `addExtremes` at `sort (extremes s)` (no cut skipped by the
    1e-8 duplicate test); E bounds the extent of the ORIGINAL segment's control polygon.  Every resulting piece is nearly
    monotone in x and in y: in one of the two directions the coordinate never moves back by more than 6/10000 · E = 0.06 % of E. -/
theorem addExtremes_nearly_monotone (s : Seg ℝ) (E : ℝ) (hE : Extent s E) (hns : NoSkip (sort (extremes Real.sqrt s))) :
    List.Forall₂ (fun (piece : Seg ℝ) (_ : ℝ × ℝ) =>
        NearlyMono (fun t => (piece.eval t).x) 0 1 (6 / 10000 * E) ∧ NearlyMono (fun t => (piece.eval t).y) 0 1 (6 / 10000 * E))
      (cutSeg s (sort (extremes Real.sqrt s))) (intervals 0 (sort (extremes Real.sqrt s))) := by
  set ts := sort (extremes Real.sqrt s) with hts
  have hb : ∀ t ∈ ts, 0 ≤ t ∧ t ≤ 1 := by
    intro t ht
    rw [hts, mem_sort] at ht
    have := extremes_in_band s t ht
    constructor <;> linarith [this.1, this.2]
  have hp0 : ((0 : ℝ) :: ts).Pairwise (· ≤ ·) := List.pairwise_cons.mpr ⟨fun t ht => (hb t ht).1, sort_sorted _⟩
  have hb1 : ∀ t ∈ (0 : ℝ) :: ts, t ≤ 1 := by
    intro t ht; rcases List.mem_cons.mp ht with rfl | ht
    · norm_num
    · exact (hb t ht).2
  have hδ : (6 * E) * (1 / 100) ^ 2 = 6 / 10000 * E := by ring
  refine forall₂_imp_mem (cutSeg_retrace s ts hns) ?_
  intro piece iv hiv hev
  obtain ⟨hle, hlo, hhi⟩ := intervals_le ts 0 hp0 hb1 iv hiv
  have hnocut := no_cut_inside ts 0 hp0 iv hiv
  have core : ∀ e, max iv.1 (1 / 100) < e → e < min iv.2 (99 / 100) → ¬ SRx s e ∧ ¬ SRy s e := by
    intro e e1 e2
    have h1 : iv.1 < e := lt_of_le_of_lt (le_max_left _ _) e1
    have h2 : (1 : ℝ) / 100 < e := lt_of_le_of_lt (le_max_right _ _) e1
    have h3 : e < iv.2 := lt_of_lt_of_le e2 (min_le_left _ _)
    have h4 : e < 99 / 100 := lt_of_lt_of_le e2 (min_le_right _ _)
    constructor
    · intro hs
      have : e ∈ ts := by rw [hts, mem_sort]; exact band_mem s e (le_of_lt h2) (le_of_lt h4) (Or.inl hs)
      exact hnocut e (List.mem_cons_of_mem _ this) ⟨h1, h3⟩
    · intro hs
      have : e ∈ ts := by rw [hts, mem_sort]; exact band_mem s e (le_of_lt h2) (le_of_lt h4) (Or.inr hs)
      exact hnocut e (List.mem_cons_of_mem _ this) ⟨h1, h3⟩
  constructor
  · rw [← hδ]
    apply nearlyMono_reparam (fun t => (s.eval t).x) (fun t => (piece.eval t).x) iv.1 iv.2 _ hle (fun t => by simp only [hev t])
    exact nearly_monotone _ _ _ _ (6 * E) iv.1 iv.2 (hasDeriv_x s) (coefBound_x s E hE) hlo hhi (fun e e1 e2 => (core e e1 e2).1)
  · rw [← hδ]
    apply nearlyMono_reparam (fun t => (s.eval t).y) (fun t => (piece.eval t).y) iv.1 iv.2 _ hle (fun t => by simp only [hev t])
    exact nearly_monotone _ _ _ _ (6 * E) iv.1 iv.2 (hasDeriv_y s) (coefBound_y s E hE) hlo hhi (fun e e1 e2 => (core e e1 e2).2)


/-! non-vacuity: a quadratic whose x-extreme lies at t = 1/102 < 0.01 (so it is not reported and the segment is not cut):
    the hypotheses hold, and x really does move back (x(1/102) < x(0)) — the bound is about something -/
example : NoSkip (sort (extremes Real.sqrt (Seg.quad ⟨0, 0⟩ ⟨-1, 50⟩ ⟨100, 100⟩ : Seg ℝ))) := by
  have : extremes Real.sqrt (Seg.quad ⟨0, 0⟩ ⟨-1, 50⟩ ⟨100, 100⟩ : Seg ℝ) = [] := by
    simp only [extremes, quad_findDRoots]; norm_num
  rw [this]; simp [sort, NoSkip]
example : Extent (Seg.quad ⟨0, 0⟩ ⟨-1, 50⟩ ⟨100, 100⟩ : Seg ℝ) 101 := by
  intro p hp q hq
  simp only [Seg.points, List.mem_cons, List.not_mem_nil, or_false] at hp hq
  rcases hp with rfl | rfl | rfl <;> rcases hq with rfl | rfl | rfl <;> norm_num [abs_le]
example : ((Seg.quad ⟨0, 0⟩ ⟨-1, 50⟩ ⟨100, 100⟩ : Seg ℝ).eval (1 / 102)).x < ((Seg.quad ⟨0, 0⟩ ⟨-1, 50⟩ ⟨100, 100⟩ : Seg ℝ).eval 0).x := by
  simp only [Seg.eval, quad_pointAtTime_x]; norm_num

end C03N
