/-
  C14 — curve fitting honours its contract, for every behaviour of its numerical sub-procedures.
  Theorems about Model/Fit.lean (the control flow of `_fitCurve` with generateBezier / reparameterize /
  computeMaxError as a tape of recorded answers), tied to utils/curvefitter.py by the correspondence
  run: the answers recorded from a real run are replayed and the decision trace and output must match.
-/
import BezierVerif.Model.Fit
import Mathlib.Tactic.Linarith

set_option linter.unusedSectionVars false
set_option linter.unusedVariables false

namespace C14
open Fit
variable {P K : Type} [Field K] [LinearOrder K] [IsStrictOrderedRing K] [DecidableEq P]

/-! ### one call -/

theorem iterate_mem : ∀ (as : List (Attempt P K)) (last : K × Nat) (bez : List P),
    iterate as last = Sum.inl bez → ∃ a ∈ as, a.bez = bez := by
  intro as
  induction as with
  | nil => intro last bez h; simp [iterate] at h
  | cons a rest ih =>
    intro last bez h
    simp only [iterate] at h
    split_ifs at h
    · simp at h; exact ⟨a, by simp, h⟩
    · obtain ⟨b, hb, he⟩ := ih _ bez h
      exact ⟨b, List.mem_cons_of_mem _ hb, he⟩

theorem adjust_inside (sp n : Nat) (hn : 3 ≤ n) (hsp : sp ≤ n - 1) : 0 < adjust true sp n ∧ adjust true sp n < n - 1 := by
  unfold adjust
  simp only [true_and]
  split_ifs <;> omega

theorem adjust_false (sp n : Nat) : adjust false sp n = sp := by simp [adjust]

theorem afterLoop_ret (n : Nat) (t1 t2 : Bool) (budget : Nat) (ratio : K) (sp : Nat) (out : List (List P))
    (h : afterLoop (P := P) n t1 t2 budget ratio sp = .ret out) : out = [] := by
  unfold afterLoop at h
  split_ifs at h <;> first | (simp at h; exact h) | (simp at h; exact h.symm) | (simp at h)

theorem afterLoop_split (n : Nat) (t1 t2 : Bool) (budget : Nat) (ratio : K) (sp k : Nat) (c : Bool)
    (h : afterLoop (P := P) n t1 t2 budget ratio sp = .split k c) : 0 < k ∧ k < n - 1 ∧ 1 < budget := by
  unfold afterLoop at h
  split_ifs at h with h1 h2 h3 h4 h5 h6
  all_goals (first | (simp at h; done) | skip)
  simp only [Action.split.injEq] at h
  obtain ⟨rfl, _⟩ := h
  by_cases hc : decide (ratio < 0) = true
  · have := not_and.mp h6 hc
    push Not at this
    exact ⟨this.1, this.2, h5⟩
  · have hcf : decide (ratio < 0) = false := by simpa using hc
    rw [hcf, adjust_false]
    have := not_and.mp h4 hc
    push Not at this
    exact ⟨this.1, this.2, h5⟩

/-- a call that returns without recursing returns nothing or exactly one of the candidate cubics -/
theorem callAction_ret (n : Nat) (t1 t2 : Bool) (budget : Nat) (d : CallData P K) (out : List (List P))
    (h : callAction n t1 t2 budget d = .ret out) : out = [] ∨ ∃ a ∈ d.attempts, out = [a.bez] := by
  unfold callAction at h
  split_ifs at h with hdeg
  · simp at h; exact Or.inl (by first | exact h | exact h.symm)
  · cases hat : d.attempts with
    | nil => rw [hat] at h; simp at h; exact Or.inl (by first | exact h | exact h.symm)
    | cons a rest =>
      rw [hat] at h
      simp only at h
      split_ifs at h with hacc hrange
      · simp at h; exact Or.inr ⟨a, by simp, h.symm⟩
      · cases hit : iterate (rest.take 4) (a.ratio, a.split) with
        | inl bez =>
          rw [hit] at h
          simp at h
          obtain ⟨b, hb, he⟩ := iterate_mem _ _ _ hit
          exact Or.inr ⟨b, List.mem_cons_of_mem _ (List.mem_of_mem_take hb), by rw [he]; exact h.symm⟩
        | inr rs =>
          rw [hit] at h
          exact Or.inl (afterLoop_ret _ _ _ _ _ _ _ h)
      · exact Or.inl (afterLoop_ret _ _ _ _ _ _ _ h)

/-- a call that recurses splits strictly inside the point list and has budget left -/
theorem callAction_split (n : Nat) (t1 t2 : Bool) (budget : Nat) (d : CallData P K) (k : Nat) (c : Bool)
    (h : callAction n t1 t2 budget d = .split k c) : 0 < k ∧ k < n - 1 ∧ 1 < budget := by
  unfold callAction at h
  split_ifs at h with hdeg
  · cases hat : d.attempts with
    | nil => rw [hat] at h; simp at h
    | cons a rest =>
      rw [hat] at h
      simp only at h
      split_ifs at h with hacc hrange
      · cases hit : iterate (rest.take 4) (a.ratio, a.split) with
        | inl bez => rw [hit] at h; simp at h
        | inr rs => rw [hit] at h; exact afterLoop_split _ _ _ _ _ _ _ _ h
      · exact afterLoop_split _ _ _ _ _ _ _ _ h

/-- a call that gives up (returns []) although it is not degenerate and has a candidate: only when the
    budget is exhausted -/
theorem callAction_giveup (n : Nat) (hn : 3 ≤ n) (t1 t2 : Bool) (budget : Nat) (d : CallData P K)
    (hdeg : d.degenerate = false) (hat : d.attempts ≠ [])
    (h : callAction n t1 t2 budget d = .ret []) : budget ≤ 1 := by
  unfold callAction at h
  rw [hdeg] at h
  simp only [Bool.false_eq_true, if_false] at h
  cases hatt : d.attempts with
  | nil => exact absurd hatt hat
  | cons a rest =>
    rw [hatt] at h
    simp only at h
    have key : ∀ (ratio : K) (sp : Nat), afterLoop (P := P) n t1 t2 budget ratio sp = .ret [] → budget ≤ 1 := by
      intro ratio sp hh
      unfold afterLoop at hh
      split_ifs at hh with h1 h2 h3 h4 h5 h6
      all_goals (first | (simp at hh; done) | skip)
      · exfalso
        obtain ⟨hc, hnot⟩ := h6
        rw [hc] at hnot
        exact hnot (adjust_inside sp n hn (by omega))
      · omega
    split_ifs at h with hacc hrange
    · simp at h
    · cases hit : iterate (rest.take 4) (a.ratio, a.split) with
      | inl bez => rw [hit] at h; simp at h
      | inr rs => rw [hit] at h; exact key _ _ h
    · exact key _ _ h

end C14

namespace C14
open Fit
variable {P K : Type} [Field K] [LinearOrder K] [IsStrictOrderedRing K] [DecidableEq P]

/-! ### the whole recursion -/

def Chain : List (List P) → Prop
  | [] => True
  | [_] => True
  | a :: b :: rest => a.getLast? = b.head? ∧ Chain (b :: rest)

/-- the contract of C14 on the model: a non-empty connected chain of cubics (4 control points each) that
    starts exactly at the first input point and ends exactly at the last -/
structure Good (pts : List P) (out : List (List P)) : Prop where
  nonempty : out ≠ []
  first : ∀ c, out.head? = some c → c.head? = pts.head?
  last : ∀ c, out.getLast? = some c → c.getLast? = pts.getLast?
  chain : Chain out
  cubic : ∀ c ∈ out, c.length = 4

theorem chain_append : ∀ (l r : List (List P)), Chain l → Chain r →
    (∀ a b, l.getLast? = some a → r.head? = some b → a.getLast? = b.head?) → Chain (l ++ r) := by
  intro l
  induction l with
  | nil => intro r _ hr _; simpa using hr
  | cons x xs ih =>
    intro r hl hr hj
    cases xs with
    | nil =>
      cases r with
      | nil => simp [Chain]
      | cons y ys =>
        simp only [List.cons_append, List.nil_append, Chain]
        exact ⟨hj x y (by simp) (by simp), hr⟩
    | cons x2 xs2 =>
      simp only [List.cons_append, Chain]
      refine ⟨hl.1, ?_⟩
      have := ih r hl.2 hr (by
        intro a b ha hb
        apply hj a b _ hb
        simpa [List.getLast?_cons_cons] using ha)
      simpa using this

theorem good_single (pts : List P) (bez : List P) (h : endsOK pts bez = true) : Good pts [bez] := by
  simp only [endsOK, Bool.and_eq_true, decide_eq_true_eq] at h
  refine ⟨by simp, ?_, ?_, trivial, ?_⟩
  · intro c hc; simp at hc; subst hc; exact h.1.1
  · intro c hc; simp at hc; subst hc; exact h.1.2
  · intro c hc; simp at hc; subst hc; exact h.2

def TapeOK (tape : List (CallData P K)) : Prop := ∀ d ∈ tape, d.degenerate = false ∧ d.attempts ≠ []

/-- **the contract, for every tape** (every behaviour of generateBezier / reparameterize / computeMaxError that
    is not degenerate), with the repaired budget accounting: whenever the budget is at least the number
    of gaps between the points, the fitter returns a non-empty connected chain of cubics from the first
    point to the last, with at most one cubic per gap (hence within the budget). -/
theorem fit_good : ∀ (fuel : Nat) (pts : List P) (t1 t2 : Bool) (budget : Nat) (tape : List (CallData P K))
    (out : List (List P)) (tape' : List (CallData P K)),
    2 ≤ pts.length → TapeOK tape → pts.length - 1 ≤ budget →
    fit budgetFixed fuel pts t1 t2 budget tape = some (out, tape') →
    Good pts out ∧ out.length ≤ pts.length - 1 ∧ TapeOK tape' := by
  intro fuel
  induction fuel with
  | zero => intro pts t1 t2 budget tape out tape' _ _ _ h; simp [fit] at h
  | succ fuel ih =>
    intro pts t1 t2 budget tape out tape' hlen hok hb h
    unfold fit at h
    cases tape with
    | nil => simp at h
    | cons d rest =>
      have hd := hok d (by simp)
      have hrest : TapeOK rest := fun x hx => hok x (List.mem_cons_of_mem _ hx)
      simp only at h
      split_ifs at h with hall h2
      · -- two points
        cases hat : d.attempts with
        | nil => exact absurd hat hd.2
        | cons a as =>
          rw [hat] at h
          simp only [Option.some.injEq, Prod.mk.injEq] at h
          obtain ⟨rfl, rfl⟩ := h
          have ha : endsOK pts a.bez = true := by
            have this : d.attempts.all (fun a => endsOK pts a.bez) = true := by
              first | exact hall | exact not_not.mp hall | simpa using hall
            rw [hat] at this
            simp only [List.all_cons, Bool.and_eq_true] at this
            exact this.1
          exact ⟨good_single pts a.bez ha, by simp; omega, hrest⟩
      · -- three or more points
        have hn3 : 3 ≤ pts.length := by omega
        have hallp : ∀ a ∈ d.attempts, endsOK pts a.bez = true := by
          have this : d.attempts.all (fun a => endsOK pts a.bez) = true := by
            first | exact hall | exact not_not.mp hall | simpa using hall
          exact fun a ha => (List.all_eq_true.mp this) a ha
        cases hact : callAction pts.length t1 t2 budget d with
        | bad => rw [hact] at h; simp at h
        | ret o =>
          rw [hact] at h
          simp only [Option.some.injEq, Prod.mk.injEq] at h
          obtain ⟨rfl, rfl⟩ := h
          rcases callAction_ret _ _ _ _ _ _ hact with rfl | ⟨a, ha, rfl⟩
          · have := callAction_giveup pts.length hn3 t1 t2 budget d hd.1 hd.2 hact
            omega
          · exact ⟨good_single pts a.bez (hallp a ha), by simp; omega, hrest⟩
        | retry t1' t2' =>
          rw [hact] at h
          exact ih pts t1' t2' budget rest out tape' hlen hrest hb h
        | split k c =>
          rw [hact] at h
          simp only at h
          obtain ⟨hk0, hk1, hbud⟩ := callAction_split _ _ _ _ _ _ _ hact
          cases hl : fit budgetFixed fuel (pts.take (k + 1)) t1 true (budget - 1) rest with
          | none => rw [hl] at h; simp at h
          | some lr =>
            obtain ⟨l, tapeL⟩ := lr
            rw [hl] at h
            simp only at h
            have hlenL : 2 ≤ (pts.take (k + 1)).length := by simp [List.length_take]; omega
            have hbL : (pts.take (k + 1)).length - 1 ≤ budget - 1 := by simp [List.length_take]; omega
            obtain ⟨gl, hll, hokL⟩ := ih _ _ _ _ _ _ _ hlenL hrest hbL hl
            have hlne : l ≠ [] := gl.nonempty
            simp only [hlne, if_false] at h
            cases hr : fit budgetFixed fuel (pts.drop k) true t2 (budgetFixed budget l.length) tapeL with
            | none => rw [hr] at h; simp at h
            | some rr =>
              obtain ⟨r, tapeR⟩ := rr
              rw [hr] at h
              simp only [Option.some.injEq, Prod.mk.injEq] at h
              obtain ⟨rfl, rfl⟩ := h
              have hlenR : 2 ≤ (pts.drop k).length := by simp [List.length_drop]; omega
              have hlk : l.length ≤ k := by
                have : (pts.take (k + 1)).length - 1 = k := by simp [List.length_take]; omega
                omega
              have hbR : (pts.drop k).length - 1 ≤ budgetFixed budget l.length := by
                simp [List.length_drop, budgetFixed]; omega
              obtain ⟨gr, hrl, hokR⟩ := ih _ _ _ _ _ _ _ hlenR hokL hbR hr
              have hkk : k < pts.length := by omega
              have hshare : (pts.take (k + 1)).getLast? = some pts[k] := by
                rw [List.getLast?_take]; simp [hkk]
              have hshare' : (pts.drop k).head? = some pts[k] := by
                simp [List.head?_drop, hkk]
              refine ⟨⟨by simp [hlne], ?_, ?_, ?_, ?_⟩, ?_, hokR⟩
              · intro c hc
                have : (l ++ r).head? = l.head? := by
                  cases l with
                  | nil => exact absurd rfl hlne
                  | cons x xs => rfl
                rw [this] at hc
                rw [gl.first c hc, List.head?_take]; simp
              · intro c hc
                have hne : r ≠ [] := gr.nonempty
                have : (l ++ r).getLast? = r.getLast? := by
                  rw [List.getLast?_append]
                  cases hx : r.getLast? with
                  | none => exact absurd (List.getLast?_eq_none_iff.mp hx) hne
                  | some z => simp
                rw [this] at hc
                rw [gr.last c hc, List.getLast?_drop]; simp; omega
              · apply chain_append l r gl.chain gr.chain
                intro a b ha hb'
                rw [gl.last a ha, gr.first b hb', hshare, hshare']
              · intro c hc
                rcases List.mem_append.mp hc with h1 | h1
                · exact gl.cubic c h1
                · exact gr.cubic c h1
              · have h1 : (pts.drop k).length - 1 = pts.length - k - 1 := by simp [List.length_drop]
                simp only [List.length_append]
                omega

end C14

namespace C14
open Fit

/-! ### the pinned budget accounting loses the end of the chain (defect F11), the repaired one does not -/

def exTape : List (CallData Nat ℚ) :=
  [ ⟨false, [⟨[0, 9, 9, 4], 5, 1⟩]⟩,      -- 5 points: rejected (ratio 5 > 3: no iteration), worst point = index 1
    ⟨false, [⟨[0, 9, 9, 1], 0, 0⟩]⟩,      -- [0,1]: fitLine
    ⟨false, [⟨[1, 9, 9, 4], 5, 1⟩]⟩,      -- [1,2,3,4]: rejected, split at 1
    ⟨false, [⟨[1, 9, 9, 2], 0, 0⟩]⟩,      -- [1,2]: fitLine
    ⟨false, [⟨[2, 9, 9, 4], 5, 1⟩]⟩,      -- [2,3,4]: rejected, split at 1
    ⟨false, [⟨[2, 9, 9, 3], 0, 0⟩]⟩,      -- [2,3]: fitLine
    ⟨false, [⟨[3, 9, 9, 4], 0, 0⟩]⟩ ]     -- [3,4]: fitLine

/-- five points, budget five (≥ the number of points): with `segmentsRemaining - len(lbeziers)` the last
    recursive call is left with budget 1 and gives up: the chain stops at point 2 -/
theorem pinned_budget_counterexample :
    (fit budgetPinned 10 [0, 1, 2, 3, 4] false false 5 exTape).map (fun r => r.1) = some [[0, 9, 9, 1], [1, 9, 9, 2]] := by
  decide +kernel

/-- the same run with `maxSegments - len(lbeziers)` reaches the last point -/
theorem fixed_budget_example :
    (fit budgetFixed 10 [0, 1, 2, 3, 4] false false 5 exTape).map (fun r => r.1)
      = some [[0, 9, 9, 1], [1, 9, 9, 2], [2, 9, 9, 3], [3, 9, 9, 4]] := by
  decide +kernel

end C14
