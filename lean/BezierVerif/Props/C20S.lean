/-
  C20 (part 1) — the squared-distance surface S(u,v) assembled by MinimumCurveDistanceFinder from
  Bernstein products of the two control polygons *is* the squared distance between the two curves'
  points, for all nine kind pairs.  Theorems about Gen/Dist.lean (regenerated from curvedistance.py).
-/
import BezierVerif.Gen.Dist
import BezierVerif.Model.Spec
import BezierVerif.Tactics

set_option linter.unusedSectionVars false
set_option linter.unusedVariables false
set_option maxRecDepth 100000

namespace C20
open Gen
variable {K : Type} [Field K] [LinearOrder K] [IsStrictOrderedRing K]

/-- S(u,v) for orders 2 × 2 is |B₁(u) − B₂(v)|² (Bernstein forms written out) -/
theorem S_1_1_is_sqdist (p0x p0y p1x p1y q0x q0y q1x q1y u v : K) :
    S_1_1_v p0x p0y p1x p1y q0x q0y q1x q1y u v = ((1 * (1 - u)^1 * u^0 * p0x + 1 * (1 - u)^0 * u^1 * p1x) - (1 * (1 - v)^1 * v^0 * q0x + 1 * (1 - v)^0 * v^1 * q1x))^2 + ((1 * (1 - u)^1 * u^0 * p0y + 1 * (1 - u)^0 * u^1 * p1y) - (1 * (1 - v)^1 * v^0 * q0y + 1 * (1 - v)^0 * v^1 * q1y))^2 := by
  simp only [gen_def]
  ring

/-- S(u,v) for orders 2 × 3 is |B₁(u) − B₂(v)|² (Bernstein forms written out) -/
theorem S_1_2_is_sqdist (p0x p0y p1x p1y q0x q0y q1x q1y q2x q2y u v : K) :
    S_1_2_v p0x p0y p1x p1y q0x q0y q1x q1y q2x q2y u v = ((1 * (1 - u)^1 * u^0 * p0x + 1 * (1 - u)^0 * u^1 * p1x) - (1 * (1 - v)^2 * v^0 * q0x + 2 * (1 - v)^1 * v^1 * q1x + 1 * (1 - v)^0 * v^2 * q2x))^2 + ((1 * (1 - u)^1 * u^0 * p0y + 1 * (1 - u)^0 * u^1 * p1y) - (1 * (1 - v)^2 * v^0 * q0y + 2 * (1 - v)^1 * v^1 * q1y + 1 * (1 - v)^0 * v^2 * q2y))^2 := by
  simp only [gen_def]
  ring

/-- S(u,v) for orders 2 × 4 is |B₁(u) − B₂(v)|² (Bernstein forms written out) -/
theorem S_1_3_is_sqdist (p0x p0y p1x p1y q0x q0y q1x q1y q2x q2y q3x q3y u v : K) :
    S_1_3_v p0x p0y p1x p1y q0x q0y q1x q1y q2x q2y q3x q3y u v = ((1 * (1 - u)^1 * u^0 * p0x + 1 * (1 - u)^0 * u^1 * p1x) - (1 * (1 - v)^3 * v^0 * q0x + 3 * (1 - v)^2 * v^1 * q1x + 3 * (1 - v)^1 * v^2 * q2x + 1 * (1 - v)^0 * v^3 * q3x))^2 + ((1 * (1 - u)^1 * u^0 * p0y + 1 * (1 - u)^0 * u^1 * p1y) - (1 * (1 - v)^3 * v^0 * q0y + 3 * (1 - v)^2 * v^1 * q1y + 3 * (1 - v)^1 * v^2 * q2y + 1 * (1 - v)^0 * v^3 * q3y))^2 := by
  simp only [gen_def]
  ring

/-- S(u,v) for orders 3 × 2 is |B₁(u) − B₂(v)|² (Bernstein forms written out) -/
theorem S_2_1_is_sqdist (p0x p0y p1x p1y p2x p2y q0x q0y q1x q1y u v : K) :
    S_2_1_v p0x p0y p1x p1y p2x p2y q0x q0y q1x q1y u v = ((1 * (1 - u)^2 * u^0 * p0x + 2 * (1 - u)^1 * u^1 * p1x + 1 * (1 - u)^0 * u^2 * p2x) - (1 * (1 - v)^1 * v^0 * q0x + 1 * (1 - v)^0 * v^1 * q1x))^2 + ((1 * (1 - u)^2 * u^0 * p0y + 2 * (1 - u)^1 * u^1 * p1y + 1 * (1 - u)^0 * u^2 * p2y) - (1 * (1 - v)^1 * v^0 * q0y + 1 * (1 - v)^0 * v^1 * q1y))^2 := by
  simp only [gen_def]
  ring

/-- S(u,v) for orders 3 × 3 is |B₁(u) − B₂(v)|² (Bernstein forms written out) -/
theorem S_2_2_is_sqdist (p0x p0y p1x p1y p2x p2y q0x q0y q1x q1y q2x q2y u v : K) :
    S_2_2_v p0x p0y p1x p1y p2x p2y q0x q0y q1x q1y q2x q2y u v = ((1 * (1 - u)^2 * u^0 * p0x + 2 * (1 - u)^1 * u^1 * p1x + 1 * (1 - u)^0 * u^2 * p2x) - (1 * (1 - v)^2 * v^0 * q0x + 2 * (1 - v)^1 * v^1 * q1x + 1 * (1 - v)^0 * v^2 * q2x))^2 + ((1 * (1 - u)^2 * u^0 * p0y + 2 * (1 - u)^1 * u^1 * p1y + 1 * (1 - u)^0 * u^2 * p2y) - (1 * (1 - v)^2 * v^0 * q0y + 2 * (1 - v)^1 * v^1 * q1y + 1 * (1 - v)^0 * v^2 * q2y))^2 := by
  simp only [gen_def]
  ring

/-- S(u,v) for orders 3 × 4 is |B₁(u) − B₂(v)|² (Bernstein forms written out) -/
theorem S_2_3_is_sqdist (p0x p0y p1x p1y p2x p2y q0x q0y q1x q1y q2x q2y q3x q3y u v : K) :
    S_2_3_v p0x p0y p1x p1y p2x p2y q0x q0y q1x q1y q2x q2y q3x q3y u v = ((1 * (1 - u)^2 * u^0 * p0x + 2 * (1 - u)^1 * u^1 * p1x + 1 * (1 - u)^0 * u^2 * p2x) - (1 * (1 - v)^3 * v^0 * q0x + 3 * (1 - v)^2 * v^1 * q1x + 3 * (1 - v)^1 * v^2 * q2x + 1 * (1 - v)^0 * v^3 * q3x))^2 + ((1 * (1 - u)^2 * u^0 * p0y + 2 * (1 - u)^1 * u^1 * p1y + 1 * (1 - u)^0 * u^2 * p2y) - (1 * (1 - v)^3 * v^0 * q0y + 3 * (1 - v)^2 * v^1 * q1y + 3 * (1 - v)^1 * v^2 * q2y + 1 * (1 - v)^0 * v^3 * q3y))^2 := by
  simp only [gen_def]
  ring

/-- S(u,v) for orders 4 × 2 is |B₁(u) − B₂(v)|² (Bernstein forms written out) -/
theorem S_3_1_is_sqdist (p0x p0y p1x p1y p2x p2y p3x p3y q0x q0y q1x q1y u v : K) :
    S_3_1_v p0x p0y p1x p1y p2x p2y p3x p3y q0x q0y q1x q1y u v = ((1 * (1 - u)^3 * u^0 * p0x + 3 * (1 - u)^2 * u^1 * p1x + 3 * (1 - u)^1 * u^2 * p2x + 1 * (1 - u)^0 * u^3 * p3x) - (1 * (1 - v)^1 * v^0 * q0x + 1 * (1 - v)^0 * v^1 * q1x))^2 + ((1 * (1 - u)^3 * u^0 * p0y + 3 * (1 - u)^2 * u^1 * p1y + 3 * (1 - u)^1 * u^2 * p2y + 1 * (1 - u)^0 * u^3 * p3y) - (1 * (1 - v)^1 * v^0 * q0y + 1 * (1 - v)^0 * v^1 * q1y))^2 := by
  simp only [gen_def]
  ring

/-- S(u,v) for orders 4 × 3 is |B₁(u) − B₂(v)|² (Bernstein forms written out) -/
theorem S_3_2_is_sqdist (p0x p0y p1x p1y p2x p2y p3x p3y q0x q0y q1x q1y q2x q2y u v : K) :
    S_3_2_v p0x p0y p1x p1y p2x p2y p3x p3y q0x q0y q1x q1y q2x q2y u v = ((1 * (1 - u)^3 * u^0 * p0x + 3 * (1 - u)^2 * u^1 * p1x + 3 * (1 - u)^1 * u^2 * p2x + 1 * (1 - u)^0 * u^3 * p3x) - (1 * (1 - v)^2 * v^0 * q0x + 2 * (1 - v)^1 * v^1 * q1x + 1 * (1 - v)^0 * v^2 * q2x))^2 + ((1 * (1 - u)^3 * u^0 * p0y + 3 * (1 - u)^2 * u^1 * p1y + 3 * (1 - u)^1 * u^2 * p2y + 1 * (1 - u)^0 * u^3 * p3y) - (1 * (1 - v)^2 * v^0 * q0y + 2 * (1 - v)^1 * v^1 * q1y + 1 * (1 - v)^0 * v^2 * q2y))^2 := by
  simp only [gen_def]
  ring

/-- S(u,v) for orders 4 × 4 is |B₁(u) − B₂(v)|² (Bernstein forms written out) -/
theorem S_3_3_is_sqdist (p0x p0y p1x p1y p2x p2y p3x p3y q0x q0y q1x q1y q2x q2y q3x q3y u v : K) :
    S_3_3_v p0x p0y p1x p1y p2x p2y p3x p3y q0x q0y q1x q1y q2x q2y q3x q3y u v = ((1 * (1 - u)^3 * u^0 * p0x + 3 * (1 - u)^2 * u^1 * p1x + 3 * (1 - u)^1 * u^2 * p2x + 1 * (1 - u)^0 * u^3 * p3x) - (1 * (1 - v)^3 * v^0 * q0x + 3 * (1 - v)^2 * v^1 * q1x + 3 * (1 - v)^1 * v^2 * q2x + 1 * (1 - v)^0 * v^3 * q3x))^2 + ((1 * (1 - u)^3 * u^0 * p0y + 3 * (1 - u)^2 * u^1 * p1y + 3 * (1 - u)^1 * u^2 * p2y + 1 * (1 - u)^0 * u^3 * p3y) - (1 * (1 - v)^3 * v^0 * q0y + 3 * (1 - v)^2 * v^1 * q1y + 3 * (1 - v)^1 * v^2 * q2y + 1 * (1 - v)^0 * v^3 * q3y))^2 := by
  simp only [gen_def]
  ring

end C20
