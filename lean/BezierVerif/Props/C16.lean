/-
  C16 — arc-length parametrisation: no query fails, path evaluation indexes the right segment,
  regular sampling starts at exactly 0, ends at exactly 1 and is non-decreasing — for *every*
  behaviour of the floating-point stepping loops (demonic parameters).
  Theorems about Model/Sample.lean, tied to samplemixin.py / path/__init__.py by the correspondence
  run (recorded stepping sequences, lookup tables and segment indices).
-/
import BezierVerif.Model.Sample
import BezierVerif.Lemmas.SegLemmas
import Mathlib.Tactic.Linarith

set_option linter.unusedSectionVars false
set_option linter.unusedVariables false

namespace C16
open Sample
variable {K : Type} [Field K] [LinearOrder K] [IsStrictOrderedRing K] [FloorRing K]

/-! ### path queries never fail on [0, 1] -/

theorem floor_lt_of_lt_one (n : Nat) (hn : 0 < n) (t : K) (h0 : 0 ≤ t) (h1 : t < 1) : ⌊t * (n : K)⌋₊ < n := by
  have hpos : (0 : K) < (n : K) := by exact_mod_cast hn
  have : t * (n : K) < (n : K) := by nlinarith
  exact (Nat.floor_lt (by positivity)).mpr this

/-- **total**: for a non-empty path and every t in [0, 1] — including exactly 1 — evaluation and
    length-so-far return a value (no IndexError). -/
theorem path_queries_total (len : Seg K → K → K) (segs : List (Seg K)) (hne : segs ≠ []) (t : K) (h0 : 0 ≤ t) (h1 : t ≤ 1) :
    (pathPointAt segs t).isSome ∧ (pathLengthAt len segs t).isSome := by
  have hn : 0 < segs.length := List.length_pos_iff.mpr hne
  by_cases ht : t = 1
  · subst ht
    simp only [pathPointAt, pathLengthAt, if_true]
    cases hl : segs.getLast? with
    | none => rw [List.getLast?_eq_none_iff] at hl; exact absurd hl hne
    | some s => simp
  · have hlt : t < 1 := lt_of_le_of_ne h1 ht
    have hi := floor_lt_of_lt_one segs.length hn t h0 hlt
    simp only [pathPointAt, pathLengthAt, if_neg ht]
    rw [List.getElem?_eq_getElem hi]
    simp

/-- without the t == 1 case (the pinned `lengthAtTime`) the query at t = 1 indexes past the end -/
theorem pinned_lengthAtTime_one_fails (len : Seg K → K → K) (segs : List (Seg K)) :
    pathLengthAtPinned len segs 1 = none := by
  simp only [pathLengthAtPinned, one_mul, Nat.floor_natCast]
  rw [List.getElem?_eq_none (le_refl _)]

/-- evaluation of a path: segment number floor(t·n) at the fractional parameter, the end at t = 1 -/
theorem path_point_spec (segs : List (Seg K)) (t : K) (h0 : 0 ≤ t) (h1 : t < 1) (hne : segs ≠ []) :
    ∃ s, segs[(pathIndex segs.length t).1]? = some s ∧
      pathPointAt segs t = some (s.eval (pathIndex segs.length t).2) ∧
      0 ≤ (pathIndex segs.length t).2 ∧ (pathIndex segs.length t).2 < 1 := by
  have hn : 0 < segs.length := List.length_pos_iff.mpr hne
  have hi := floor_lt_of_lt_one segs.length hn t h0 h1
  have hu : (0 : K) ≤ t * (segs.length : K) := by positivity
  refine ⟨segs[⌊t * (segs.length : K)⌋₊], by simp [pathIndex, List.getElem?_eq_getElem hi], ?_, ?_, ?_⟩
  · simp only [pathPointAt, if_neg (ne_of_lt h1), pathIndex, List.getElem?_eq_getElem hi, Option.map_some]
  · simp only [pathIndex]; linarith [Nat.floor_le hu]
  · simp only [pathIndex]; linarith [Nat.lt_floor_add_one (t * (segs.length : K))]

theorem path_point_end (segs : List (Seg K)) (s : Seg K) (h : segs.getLast? = some s) :
    pathPointAt segs 1 = some s.end := by
  simp [pathPointAt, h, Seg.eval_one]

/-- at a joint t = k/n the path evaluates to the start of segment k — which is the end of segment k−1
    for a connected chain: evaluation is continuous across joints -/
theorem path_point_joint (segs : List (Seg K)) (k : Nat) (hk : k < segs.length) :
    pathPointAt segs ((k : K) / (segs.length : K)) = some (segs[k]).start := by
  have hn : (0 : K) < (segs.length : K) := by exact_mod_cast (Nat.lt_of_le_of_lt (Nat.zero_le k) hk)
  have hne1 : (k : K) / (segs.length : K) ≠ 1 := by
    rw [Ne, div_eq_one_iff_eq (ne_of_gt hn)]
    exact_mod_cast (ne_of_lt hk)
  have hu : (k : K) / (segs.length : K) * (segs.length : K) = (k : K) := by field_simp
  simp only [pathPointAt, if_neg hne1, hu, Nat.floor_natCast, List.getElem?_eq_getElem hk, Option.map_some, sub_self,
    Seg.eval_zero]

/-- length so far: 0 at t = 0 (when the segment's own length-so-far is 0 at 0), the total at t = 1 -/
theorem path_length_ends (len : Seg K → K → K) (segs : List (Seg K)) (hne : segs ≠ []) (h0 : ∀ s, len s 0 = 0) :
    pathLengthAt len segs 0 = some 0 ∧ pathLengthAt len segs 1 = some ((segs.map fun s => len s 1).sum) := by
  constructor
  · have hn : 0 < segs.length := List.length_pos_iff.mpr hne
    simp only [pathLengthAt, if_neg (zero_ne_one' K), zero_mul, Nat.floor_zero, List.getElem?_eq_getElem hn]
    simp [h0]
  · simp [pathLengthAt]

/-! ### regular sampling, for every lookup table tail and every target sequence -/

theorem popWhile_suffix (d : K) (l : List (K × K)) : popWhile d l <:+ l := by
  induction l with
  | nil => simp [popWhile]
  | cons e rest ih =>
    simp only [popWhile]
    split
    · exact ih.trans (List.suffix_cons e rest)
    · exact List.suffix_refl _

/-- every selected parameter is a parameter of the lookup table -/
theorem walk_mem (lut : List (K × K)) (ts : List K) : ∀ t ∈ walk lut ts, ∃ e ∈ lut, e.1 = t := by
  induction ts generalizing lut with
  | nil => simp [walk]
  | cons d ds ih =>
    intro t ht
    simp only [walk] at ht
    have hsuf := popWhile_suffix d lut
    cases hp : popWhile d lut with
    | nil => simp [hp] at ht
    | cons e rest =>
      rw [hp] at hsuf
      simp only [hp, List.mem_cons] at ht
      rcases ht with rfl | ht
      · exact ⟨e, hsuf.subset (by simp), rfl⟩
      · obtain ⟨e', he', h⟩ := ih (e :: rest) t ht
        exact ⟨e', hsuf.subset he', h⟩

/-- selected parameters are non-decreasing whenever the table's parameters are -/
theorem walk_sorted (lut : List (K × K)) (ts : List K) (hs : (lut.map (·.1)).Pairwise (· ≤ ·)) :
    (walk lut ts).Pairwise (· ≤ ·) := by
  induction ts generalizing lut with
  | nil => simp [walk]
  | cons d ds ih =>
    simp only [walk]
    have hsuf := popWhile_suffix d lut
    cases hp : popWhile d lut with
    | nil => simp
    | cons e rest =>
      rw [hp] at hsuf
      have hs' : ((e :: rest).map (·.1)).Pairwise (· ≤ ·) :=
        List.Pairwise.sublist ((List.IsSuffix.map _ hsuf).sublist) hs
      simp only [List.pairwise_cons]
      refine ⟨?_, ih (e :: rest) hs'⟩
      intro t ht
      obtain ⟨e', he', rfl⟩ := walk_mem (e :: rest) ds t ht
      simp only [List.map_cons, List.pairwise_cons] at hs'
      rcases List.mem_cons.mp he' with rfl | h
      · exact le_refl _
      · exact hs'.1 _ (List.mem_map_of_mem h)

/-- **no IndexError, first sample exactly 0, last exactly 1** — for every stepping behaviour: the table
    starts with (0, ℓ(0)) with ℓ(0) not negative... (ℓ(0) = 0), the targets start with 0. -/
theorem regular_total (rest : List (K × K)) (ds : List K) :
    ∃ r, regular ((0, 0) :: rest) (0 :: ds) = some r ∧ r.head? = some 0 ∧ r.getLast? = some 1 := by
  have h0 : popWhile (0 : K) ((0, 0) :: rest) = (0, 0) :: rest := by simp [popWhile]
  have hw : walk ((0, 0) :: rest) (0 :: ds) = 0 :: walk ((0, 0) :: rest) ds := by simp [walk, h0]
  unfold regular finish
  rw [hw]
  cases hl : (0 :: walk ((0, 0) :: rest) ds).getLast? with
  | none => simp at hl
  | some l =>
    simp only
    split
    · rename_i h1; subst h1; exact ⟨_, rfl, by simp, hl⟩
    · refine ⟨_, rfl, by simp, ?_⟩
      exact List.getLast?_concat (l := 0 :: walk ((0, 0) :: rest) ds) (a := 1)

/-- the returned parameters are non-decreasing and all ≤ 1 when the table's parameters are sorted and ≤ 1 -/
theorem regular_nondecreasing (lut : List (K × K)) (ds : List K) (r : List K)
    (hs : (lut.map (·.1)).Pairwise (· ≤ ·)) (hle : ∀ e ∈ lut, e.1 ≤ 1) (h : regular lut ds = some r) :
    r.Pairwise (· ≤ ·) := by
  unfold regular finish at h
  have hw := walk_sorted lut ds hs
  cases hl : (walk lut ds).getLast? with
  | none => rw [hl] at h; simp at h
  | some l =>
    rw [hl] at h
    simp only at h
    split_ifs at h
    · simp at h; rw [← h]; exact hw
    · simp at h; rw [← h]
      rw [List.pairwise_append]
      refine ⟨hw, by simp, ?_⟩
      intro a ha b hb
      simp at hb; subst hb
      obtain ⟨e, he, rfl⟩ := walk_mem lut ds a ha
      exact hle e he

/-! ### plain sampling -/

/-- `sample`: one point per stepping parameter, in that order, followed by the end point -/
theorem sample_order (evalAt : K → Pt K) (ts : List K) :
    (sample evalAt ts).length = ts.length + 1 ∧ (sample evalAt ts).getLast? = some (evalAt 1) ∧
    (sample evalAt (0 :: ts)).head? = some (evalAt 0) := by
  simp [sample]

end C16

namespace C16
open Sample

/-- K4 (known finding), on the model: when one lookup step covers more arc than the spacing of the
    targets, the same table entry is selected twice — the result is not strictly increasing. -/
theorem regular_not_strict_counterexample :
    regular (K := ℚ) [(0, 0), (1 / 2, 10), (1, 20)] [0, 4, 8] = some [0, 1 / 2, 1 / 2, 1] := by
  decide +kernel

end C16
