/-
  C15 — parameter lookup inverts evaluation.
  Line: theorems about Gen/Lookup.lean (regenerated from line.py).  Quadratic / cubic: theorems about the
  hand models of Model/Lookup.lean built on the generated solver, tied to the code by correspondence.
-/
import BezierVerif.Gen.Lookup
import BezierVerif.Gen.Eval
import BezierVerif.Model.Lookup
import BezierVerif.Props.Roots
import BezierVerif.Tactics
import Mathlib.Analysis.SpecialFunctions.Sqrt

set_option linter.unusedSectionVars false
set_option linter.unusedVariables false
set_option linter.unusedTactic false
set_option linter.unnecessarySeqFocus false

namespace C15
open Gen Lookup

/-! ### lines -/

/-- **a line's lookup inverts its evaluation exactly**: unless the line is (isclose-)degenerate in both
    coordinates, asking for the parameter of the point at t returns t — for every real t. -/
theorem line_tOfPoint_inverse (p0x p0y p1x p1y t : ℝ)
    (hnd : ¬ (isclose p1x p0x ((1 : ℝ) / 1000000000) 0 ∧ isclose p1y p0y ((1 : ℝ) / 1000000000) 0)) :
    line_tOfPoint Real.sqrt p0x p0y p1x p1y (line_pointAtTime_x p0x p0y p1x p1y t) (line_pointAtTime_y p0x p0y p1x p1y t) = [t] := by
  have hz : ∀ (a b : ℝ), isclose a b ((1 : ℝ) / 1000000000) 0 → a ≠ b → False ∨ True := fun _ _ _ _ => Or.inr trivial
  simp only [line_tOfPoint, gen_def]
  by_cases hx : isclose p1x p0x ((1 : ℝ) / 1000000000) 0
  · have hy : ¬ isclose p1y p0y ((1 : ℝ) / 1000000000) 0 := fun h => hnd ⟨hx, h⟩
    have hyne : p1y - p0y ≠ 0 := by
      intro h0
      apply hy
      have : p1y = p0y := by linarith
      rw [this]; unfold isclose; simp
    simp only [hx, hy, if_true, if_false]
    have ht : (p0y * (1 - t) + p1y * t - p0y) / (p1y - p0y) = t := by field_simp; ring
    simp only [ht]
    have hzero : (p0x * (1 - t) + p1x * t - (p0x * (1 - t) + p1x * t)) * (p0x * (1 - t) + p1x * t - (p0x * (1 - t) + p1x * t))
        + (p0y * (1 - t) + p1y * t - (p0y * (1 - t) + p1y * t)) * (p0y * (1 - t) + p1y * t - (p0y * (1 - t) + p1y * t)) = 0 := by ring
    rw [hzero, Real.sqrt_zero]
    norm_num
  · have hxne : p1x - p0x ≠ 0 := by
      intro h0
      apply hx
      have : p1x = p0x := by linarith
      rw [this]; unfold isclose; simp
    simp only [hx, if_false]
    have ht : (p0x * (1 - t) + p1x * t - p0x) / (p1x - p0x) = t := by field_simp; ring
    simp only [ht]
    have hzero : (p0x * (1 - t) + p1x * t - (p0x * (1 - t) + p1x * t)) * (p0x * (1 - t) + p1x * t - (p0x * (1 - t) + p1x * t))
        + (p0y * (1 - t) + p1y * t - (p0y * (1 - t) + p1y * t)) * (p0y * (1 - t) + p1y * t - (p0y * (1 - t) + p1y * t)) = 0 := by ring
    rw [hzero, Real.sqrt_zero]
    norm_num

/-- **off the carrier → −1**: if every point of the line's carrier is at least 2e-7 away from the query
    point, the lookup returns −1 (the property's 1e-6 · length with length ≥ 1 is a weaker premise). -/
theorem line_off_carrier (p0x p0y p1x p1y qx qy : ℝ)
    (hfar : ∀ s : ℝ, (2 : ℝ) / 10000000 ≤ Real.sqrt ((line_pointAtTime_x p0x p0y p1x p1y s - qx) * (line_pointAtTime_x p0x p0y p1x p1y s - qx)
        + (line_pointAtTime_y p0x p0y p1x p1y s - qy) * (line_pointAtTime_y p0x p0y p1x p1y s - qy))) :
    line_tOfPoint Real.sqrt p0x p0y p1x p1y qx qy = [-1] := by
  simp only [gen_def] at hfar
  simp only [line_tOfPoint]
  split_ifs with h1 h2 h3 h4
  · rfl
  · exfalso
    have := hfar ((qy - p0y) / (p1y - p0y))
    have e : (2 : ℝ) / 10000000 = 1 / 5000000 := by norm_num
    rw [e] at this
    linarith
  · rfl
  · exfalso
    have := hfar ((qx - p0x) / (p1x - p0x))
    have e : (2 : ℝ) / 10000000 = 1 / 5000000 := by norm_num
    rw [e] at this
    linarith
  · rfl

/-! ### quadratics -/

section quad
variable {K : Type} [Field K] [LinearOrder K] [IsStrictOrderedRing K]

/-- a non-negative result of the matching loop is one of the x-roots and within 2e-7 of some y-root -/
theorem matchRoots_spec (xs ys : List K) (hpos : ∀ x ∈ xs, 0 ≤ x) :
    matchRoots xs ys = -1 ∨
    (matchRoots xs ys ∈ xs ∧ ∃ y ∈ ys, -((1 : K) / 5000000) < matchRoots xs ys - y ∧ matchRoots xs ys - y < (1 : K) / 5000000) := by
  induction xs with
  | nil => left; rfl
  | cons x rest ih =>
    simp only [matchRoots]
    split_ifs with h
    · right
      simp only [List.any_eq_true, decide_eq_true_eq] at h
      obtain ⟨y, hy, h1⟩ := h
      exact ⟨by simp, y, hy, h1⟩
    · rcases ih (fun z hz => hpos z (List.mem_cons_of_mem _ hz)) with h1 | ⟨h1, h2⟩
      · left; exact h1
      · right; exact ⟨List.mem_cons_of_mem _ h1, h2⟩

/-- completeness of the matching loop: if some x-root coincides with some y-root the result is not −1
    (roots are non-negative) -/
theorem matchRoots_complete (xs ys : List K) (t : K) (hx : t ∈ xs) (hy : t ∈ ys) (hpos : ∀ x ∈ xs, 0 ≤ x) :
    matchRoots xs ys ≠ -1 := by
  induction xs with
  | nil => simp at hx
  | cons x rest ih =>
    simp only [matchRoots]
    split_ifs with h
    · have := hpos x (by simp); intro he; linarith
    · rcases List.mem_cons.mp hx with rfl | hx'
      · exfalso
        apply h
        simp only [List.any_eq_true, decide_eq_true_eq]
        exact ⟨t, hy, by simp <;> norm_num, by simp <;> norm_num⟩
      · exact ih hx' (fun z hz => hpos z (List.mem_cons_of_mem _ hz))
end quad

/-- what the helper `roots` returns: a genuine root in [0,1], or the vertex of a parabola whose discriminant is negligible — where the
    equation's residual is D/(4a), at most 1e-9 of the larger of b² and |4ac| over 4|a| -/
theorem rootsOrDouble_spec (a b c r : ℝ) (h : r ∈ rootsOrDouble Real.sqrt a b c) :
    (0 ≤ r ∧ r ≤ 1) ∧ |a * r * r + b * r + c| ≤ (1 : ℝ) / 1000000000 * max (b * b) |4 * a * c| / (4 * |a|) := by
  unfold rootsOrDouble at h
  simp only at h
  split_ifs at h with h1 h2 h3
  · simp only [List.mem_singleton] at h
    subst h
    refine ⟨h3, ?_⟩
    have ha : a ≠ 0 := h1.2
    have hres : a * (-b / (2 * a)) * (-b / (2 * a)) + b * (-b / (2 * a)) + c = -(b * b - 4 * a * c) / (4 * a) := by
      field_simp; ring
    rw [hres, abs_div, abs_neg, abs_mul, abs_of_pos (by norm_num : (0 : ℝ) < 4)]
    exact div_le_div_of_nonneg_right h2 (by positivity)
  · simp at h
  · simp at h
  · obtain ⟨hr, heq, _⟩ := (Roots.quadraticRoots_mem_iff _ _ _ r).mp h
    refine ⟨hr, ?_⟩
    rw [heq, abs_zero]
    positivity

/-- **quadratic lookup**: a result other than −1 lies in [0,1], satisfies the x-equation B_x(r) = q_x up to the residual bound of
    `rootsOrDouble_spec` (exactly, unless q sits where x turns round), and is within 2e-7 of a parameter y in [0,1] that satisfies the
    y-equation in the same sense. -/
theorem quad_tOfPoint_root (a b c q : Pt ℝ) (r : ℝ) (hr : quadTOfPoint Real.sqrt a b c q = r) (hne : r ≠ -1) :
    ((0 ≤ r ∧ r ≤ 1) ∧ |quad_pointAtTime_x a.x a.y b.x b.y c.x c.y r - q.x| ≤
        (1 : ℝ) / 1000000000 * max (quad_tOfPoint_coeffs_bx a.x a.y b.x b.y c.x c.y q.x q.y * quad_tOfPoint_coeffs_bx a.x a.y b.x b.y c.x c.y q.x q.y)
          |4 * quad_tOfPoint_coeffs_ax a.x a.y b.x b.y c.x c.y q.x q.y * quad_tOfPoint_coeffs_cx a.x a.y b.x b.y c.x c.y q.x q.y|
          / (4 * |quad_tOfPoint_coeffs_ax a.x a.y b.x b.y c.x c.y q.x q.y|)) ∧
    ∃ y, (0 ≤ y ∧ y ≤ 1) ∧ |quad_pointAtTime_y a.x a.y b.x b.y c.x c.y y - q.y| ≤
        (1 : ℝ) / 1000000000 * max (quad_tOfPoint_coeffs_by a.x a.y b.x b.y c.x c.y q.x q.y * quad_tOfPoint_coeffs_by a.x a.y b.x b.y c.x c.y q.x q.y)
          |4 * quad_tOfPoint_coeffs_ay a.x a.y b.x b.y c.x c.y q.x q.y * quad_tOfPoint_coeffs_cy a.x a.y b.x b.y c.x c.y q.x q.y|
          / (4 * |quad_tOfPoint_coeffs_ay a.x a.y b.x b.y c.x c.y q.x q.y|) ∧ |r - y| < 1 / 5000000 := by
  unfold quadTOfPoint at hr
  simp only [quad_tOfPoint_coeffs] at hr
  split_ifs at hr with hempty
  · exact absurd hr.symm hne
  · set xr := rootsOrDouble Real.sqrt (quad_tOfPoint_coeffs_ax a.x a.y b.x b.y c.x c.y q.x q.y)
      (quad_tOfPoint_coeffs_bx a.x a.y b.x b.y c.x c.y q.x q.y) (quad_tOfPoint_coeffs_cx a.x a.y b.x b.y c.x c.y q.x q.y) with hxr
    set yr := rootsOrDouble Real.sqrt (quad_tOfPoint_coeffs_ay a.x a.y b.x b.y c.x c.y q.x q.y)
      (quad_tOfPoint_coeffs_by a.x a.y b.x b.y c.x c.y q.x q.y) (quad_tOfPoint_coeffs_cy a.x a.y b.x b.y c.x c.y q.x q.y) with hyr
    have hpos : ∀ x ∈ xr, 0 ≤ x := fun x hx => (rootsOrDouble_spec _ _ _ x hx).1.1
    rcases matchRoots_spec xr yr hpos with h1 | ⟨h1, y, hy, h2, h3⟩
    · rw [h1] at hr; exact absurd hr.symm hne
    · rw [hr] at h1 h2 h3
      obtain ⟨hr01, hres⟩ := rootsOrDouble_spec _ _ _ r h1
      obtain ⟨hy01, hyres⟩ := rootsOrDouble_spec _ _ _ y hy
      refine ⟨⟨hr01, ?_⟩, y, hy01, ?_, ?_⟩
      · have e : quad_pointAtTime_x a.x a.y b.x b.y c.x c.y r - q.x =
            quad_tOfPoint_coeffs_ax a.x a.y b.x b.y c.x c.y q.x q.y * r * r + quad_tOfPoint_coeffs_bx a.x a.y b.x b.y c.x c.y q.x q.y * r
              + quad_tOfPoint_coeffs_cx a.x a.y b.x b.y c.x c.y q.x q.y := by simp only [gen_def]; ring
        rw [e]; exact hres
      · have e : quad_pointAtTime_y a.x a.y b.x b.y c.x c.y y - q.y =
            quad_tOfPoint_coeffs_ay a.x a.y b.x b.y c.x c.y q.x q.y * y * y + quad_tOfPoint_coeffs_by a.x a.y b.x b.y c.x c.y q.x q.y * y
              + quad_tOfPoint_coeffs_cy a.x a.y b.x b.y c.x c.y q.x q.y := by simp only [gen_def]; ring
        rw [e]; exact hyres
      · rw [abs_lt]; exact ⟨by linarith, h3⟩

/-- **F29**: the point of the quadratic (0,0) (1,1) (0,3) at t = 1/2, where x turns round: the x-equation has a double root, which the
    solver alone does not report (it wants a positive discriminant); with the helper the lookup answers 1/2 -/
theorem quad_stationary_lookup :
    quadraticRoots Real.sqrt (0 - 2 * 1 + 0) (2 * (1 - 0)) (0 - 1 / 2) = [] ∧
    rootsOrDouble Real.sqrt (0 - 2 * 1 + 0) (2 * (1 - 0)) (0 - 1 / 2) = [1 / 2] := by
  constructor
  · norm_num [Roots.quadraticRoots_eq_model, Roots.qrModel]
  · unfold rootsOrDouble
    norm_num [Roots.quadraticRoots_eq_model, Roots.qrModel]

/-- **the helper finds every root in [0,1] of a non-degenerate equation** (real arithmetic): a simple root through the solver, a
    double root through the vanishing discriminant -/
theorem rootsOrDouble_complete (a b c t : ℝ) (h0 : 0 ≤ t) (h1 : t ≤ 1) (hr : a * t * t + b * t + c = 0) (hnd : a ≠ 0 ∨ b ≠ 0) :
    t ∈ rootsOrDouble Real.sqrt a b c := by
  unfold rootsOrDouble
  simp only
  by_cases ha : a = 0
  · -- linear
    have hb : b ≠ 0 := hnd.resolve_left (not_not.mpr ha)
    have hm : t ∈ quadraticRoots Real.sqrt a b c :=
      (Roots.quadraticRoots_mem_iff a b c t).mpr ⟨⟨h0, h1⟩, hr, Or.inl ⟨ha, hb⟩⟩
    rw [if_neg (fun h => ha.symm ▸ h.2 <| rfl)]
    exact hm
  · have hD : b * b - 4 * a * c = (2 * a * t + b) ^ 2 := by linear_combination (-4 * a) * hr
    by_cases hpos : b * b - 4 * a * c > 0
    · have hm : t ∈ quadraticRoots Real.sqrt a b c :=
        (Roots.quadraticRoots_mem_iff a b c t).mpr ⟨⟨h0, h1⟩, hr, Or.inr ⟨ha, hpos⟩⟩
      rw [if_neg (fun h => by rw [h.1] at hm; simp at hm)]
      exact hm
    · -- double root
      have hz : b * b - 4 * a * c = 0 := le_antisymm (not_lt.mp hpos) (by rw [hD]; positivity)
      have ht : t = -b / (2 * a) := by
        have : 2 * a * t + b = 0 := by
          have := hz; rw [hD] at this; exact pow_eq_zero_iff (by norm_num) |>.mp this
        field_simp; linarith
      have hempty : quadraticRoots Real.sqrt a b c = [] := by
        rw [List.eq_nil_iff_forall_not_mem]
        intro x hx
        have := ((Roots.quadraticRoots_mem_iff a b c x).mp hx).2.2
        rcases this with ⟨h, _⟩ | ⟨_, h⟩
        · exact ha h
        · exact hpos h
      rw [if_pos ⟨hempty, ha⟩, if_pos (by rw [hz, abs_zero]; positivity), if_pos (by rw [← ht]; exact ⟨h0, h1⟩), ← ht]
      simp

/-- **quadratic lookup, positive clause, in real arithmetic**: for the curve's own point at any t in [0,1] the lookup returns a parameter
    (never −1), provided neither coordinate is constant along the curve (K5) — and by `quad_tOfPoint_root` what it returns lies in
    [0,1] and solves both coordinate equations up to the stated residuals -/
theorem quad_tOfPoint_complete (a b c : Pt ℝ) (t : ℝ) (h0 : 0 ≤ t) (h1 : t ≤ 1)
    (hx : quad_tOfPoint_coeffs_ax a.x a.y b.x b.y c.x c.y 0 0 ≠ 0 ∨ quad_tOfPoint_coeffs_bx a.x a.y b.x b.y c.x c.y 0 0 ≠ 0)
    (hy : quad_tOfPoint_coeffs_ay a.x a.y b.x b.y c.x c.y 0 0 ≠ 0 ∨ quad_tOfPoint_coeffs_by a.x a.y b.x b.y c.x c.y 0 0 ≠ 0) :
    quadTOfPoint Real.sqrt a b c ((Seg.quad a b c).eval t) ≠ -1 := by
  set q := (Seg.quad a b c).eval t with hq
  have hqx : quad_pointAtTime_x a.x a.y b.x b.y c.x c.y t = q.x := rfl
  have hqy : quad_pointAtTime_y a.x a.y b.x b.y c.x c.y t = q.y := rfl
  have ex : quad_tOfPoint_coeffs_ax a.x a.y b.x b.y c.x c.y q.x q.y * t * t + quad_tOfPoint_coeffs_bx a.x a.y b.x b.y c.x c.y q.x q.y * t
      + quad_tOfPoint_coeffs_cx a.x a.y b.x b.y c.x c.y q.x q.y = 0 := by
    have : quad_pointAtTime_x a.x a.y b.x b.y c.x c.y t - q.x = 0 := by rw [hqx]; ring
    simp only [gen_def] at this ⊢; linarith
  have ey : quad_tOfPoint_coeffs_ay a.x a.y b.x b.y c.x c.y q.x q.y * t * t + quad_tOfPoint_coeffs_by a.x a.y b.x b.y c.x c.y q.x q.y * t
      + quad_tOfPoint_coeffs_cy a.x a.y b.x b.y c.x c.y q.x q.y = 0 := by
    have : quad_pointAtTime_y a.x a.y b.x b.y c.x c.y t - q.y = 0 := by rw [hqy]; ring
    simp only [gen_def] at this ⊢; linarith
  have mx := rootsOrDouble_complete _ _ _ t h0 h1 ex (by simpa [gen_def] using hx)
  have my := rootsOrDouble_complete _ _ _ t h0 h1 ey (by simpa [gen_def] using hy)
  unfold quadTOfPoint
  simp only [quad_tOfPoint_coeffs]
  rw [if_neg]
  · exact matchRoots_complete _ _ t mx my (fun x hx' => (rootsOrDouble_spec _ _ _ x hx').1.1)
  · rintro (h | h)
    · rw [h] at mx; simp at mx
    · rw [h] at my; simp at my

/-- K5 (known finding) on the model: a quadratic that is constant in x never finds its own points -/
theorem quad_constant_coordinate_counterexample :
    quadTOfPoint Real.sqrt ⟨40, -200⟩ ⟨40, 190⟩ ⟨40, 130⟩ ⟨40, 0⟩ = -1 := by
  unfold quadTOfPoint
  simp only [quad_tOfPoint_coeffs, gen_def]
  norm_num [rootsOrDouble, Roots.quadraticRoots_eq_model, Roots.qrModel]

/-! ### cubics: the coarse search always answers inside [0, 1] -/

section cubic
variable {K : Type} [Field K] [LinearOrder K] [IsStrictOrderedRing K]

theorem bestSample_mem (dist : K → K) : ∀ (ts : List K) (acc : Option (K × K)) (r : K × K),
    bestSample dist ts acc = some r → (r.1 ∈ ts ∨ ∃ a, acc = some a ∧ a.1 = r.1) := by
  intro ts
  induction ts with
  | nil => intro acc r h; right; exact ⟨r, h, rfl⟩
  | cons t rest ih =>
    intro acc r h
    cases acc with
    | none =>
      simp only [bestSample] at h
      rcases ih _ r h with h1 | ⟨a, ha, h2⟩
      · left; exact List.mem_cons_of_mem _ h1
      · left; simp at ha; rw [← h2, ← ha]; simp
    | some b =>
      obtain ⟨bt, bd⟩ := b
      simp only [bestSample] at h
      split_ifs at h
      · rcases ih _ r h with h1 | ⟨a, ha, h2⟩
        · left; exact List.mem_cons_of_mem _ h1
        · left; simp at ha; rw [← h2, ← ha]; simp
      · rcases ih _ r h with h1 | ⟨a, ha, h2⟩
        · left; exact List.mem_cons_of_mem _ h1
        · right; exact ⟨a, ha, h2⟩

/-- one halving round keeps the candidate in [0,1] -/
theorem refine_range (dist : K → K) (prec : K) (hp : 0 < prec) (st : K × Option K)
    (h : 0 ≤ st.1 ∧ st.1 ≤ 1) :
    0 ≤ (refine dist prec st).1 ∧ (refine dist prec st).1 ≤ 1 := by
  have hlow : ∀ b : K, (0 : K) ≤ (if b - prec < 0 then 0 else b - prec) := by
    intro b; split_ifs with h1 <;> [exact le_refl _; exact le_of_not_gt h1]
  unfold refine
  simp only
  obtain ⟨h0, h1⟩ := h
  have hl1 : (if st.1 - prec < 0 then (0 : K) else st.1 - prec) ≤ 1 := by split_ifs <;> linarith
  have hu0 : (0 : K) ≤ (if st.1 + prec > 1 then (1 : K) else st.1 + prec) := by split_ifs <;> linarith
  have hu1 : (if st.1 + prec > 1 then (1 : K) else st.1 + prec) ≤ 1 := by
    split_ifs with hh <;> [exact le_refl _; exact le_of_not_gt hh]
  split_ifs <;> simp_all

theorem bestSample_some (dist : K → K) : ∀ (ts : List K) (acc : Option (K × K)),
    (ts ≠ [] ∨ acc ≠ none) → bestSample dist ts acc ≠ none := by
  intro ts
  induction ts with
  | nil => intro acc h; rcases h with h | h; exact absurd rfl h; simpa [bestSample] using h
  | cons t rest ih =>
    intro acc _
    cases acc with
    | none => simp only [bestSample]; exact ih _ (Or.inr (by simp))
    | some b =>
      obtain ⟨bt, bd⟩ := b
      simp only [bestSample]
      split_ifs <;> exact ih _ (Or.inr (by simp))

theorem precisions_pos : ∀ p ∈ (precisions : List K), 0 < p := by
  intro p hp
  simp only [precisions, List.mem_map, List.mem_range] at hp
  obtain ⟨k, _, rfl⟩ := hp
  positivity

/-- **the cubic's lookup answers in [0,1]** for every non-empty list of sample parameters in [0,1] (the regular sampler
    always returns at least the parameter 0: C16) and every distance function -/
theorem cubic_tOfPoint_range (dist : K → K) (samples : List K) (hne : samples ≠ []) (hs : ∀ t ∈ samples, 0 ≤ t ∧ t ≤ 1) :
    0 ≤ cubicTOfPoint dist samples ∧ cubicTOfPoint dist samples ≤ 1 := by
  unfold cubicTOfPoint
  have hstart : ∀ st : K × Option K,
      st = (match bestSample dist samples none with | none => ((-1 : K), (none : Option K)) | some (t, d) => (t, some d)) →
      (0 ≤ st.1 ∧ st.1 ≤ 1) := by
    intro st hst
    cases hb : bestSample dist samples none with
    | none => exact absurd hb (bestSample_some dist samples none (Or.inl hne))
    | some r =>
      rw [hb] at hst
      rcases bestSample_mem dist samples none r hb with h1 | ⟨a, ha, _⟩
      · rw [hst]; exact hs _ h1
      · simp at ha
  have hfold : ∀ (ps : List K) (st : K × Option K), (∀ p ∈ ps, 0 < p) →
      (0 ≤ st.1 ∧ st.1 ≤ 1) →
      0 ≤ (ps.foldl (fun st p => refine dist p st) st).1 ∧ (ps.foldl (fun st p => refine dist p st) st).1 ≤ 1 := by
    intro ps
    induction ps with
    | nil => intro st _ hst; simpa using hst
    | cons p rest ih =>
      intro st hp hst
      have h1 := refine_range dist p (hp p (by simp)) st hst
      simp only [List.foldl_cons]
      exact ih _ (fun x hx => hp x (List.mem_cons_of_mem _ hx)) h1
  exact hfold precisions _ precisions_pos (hstart _ rfl)

/-- the pinned loop measured the right-hand candidate at `lower` (F21): with it the upper candidate is never an improvement
    over the lower one, so refinement only ever moves left — a concrete run where the repaired loop moves right -/
example : (refine (fun t : ℚ => |t - 3 / 4|) (1 / 100) (1 / 2, some (1 / 4))).1 = 51 / 100 := by decide +kernel

/-! #### since F23: the regular samples merged with a uniform grid -/

theorem mem_mergeGrid (regular : List K) (t : K) : t ∈ mergeGrid regular ↔ t ∈ regular ∨ t ∈ (grid : List K) := by
  unfold mergeGrid
  rw [List.mem_dedup, List.mem_mergeSort, List.mem_append]

theorem grid_range : ∀ t ∈ (grid : List K), 0 ≤ t ∧ t ≤ 1 := by
  intro t ht
  simp only [grid, List.mem_map, List.mem_range] at ht
  obtain ⟨i, hi, rfl⟩ := ht
  constructor
  · positivity
  · rw [div_le_one (by norm_num)]
    have : (i : K) ≤ 64 := by exact_mod_cast Nat.le_of_lt_succ hi
    exact this

theorem mergeGrid_ne_nil (regular : List K) : mergeGrid regular ≠ [] := by
  intro h
  have : (0 : K) ∈ mergeGrid regular := by
    rw [mem_mergeGrid]; right
    simp only [grid, List.mem_map, List.mem_range]
    exact ⟨0, by norm_num, by simp⟩
  rw [h] at this; simp at this

/-- **the cubic's lookup answers in [0,1]**, whatever the regular sampler returned (even nothing) -/
theorem cubic_tOfPointFull_range (dist : K → K) (regular : List K) (hs : ∀ t ∈ regular, 0 ≤ t ∧ t ≤ 1) :
    0 ≤ cubicTOfPointFull dist regular ∧ cubicTOfPointFull dist regular ≤ 1 := by
  unfold cubicTOfPointFull
  apply cubic_tOfPoint_range dist _ (mergeGrid_ne_nil regular)
  intro t ht
  rcases (mem_mergeGrid regular t).mp ht with h | h
  · exact hs t h
  · exact grid_range t h

/-- the coarse search returns a sample at least as close as every sample it visited -/
theorem bestSample_le (dist : K → K) : ∀ (ts : List K) (acc : Option (K × K)) (r : K × K),
    bestSample dist ts acc = some r → (∀ t ∈ ts, r.2 ≤ dist t) ∧ (∀ a, acc = some a → r.2 ≤ a.2) := by
  intro ts
  induction ts with
  | nil =>
    intro acc r h
    simp only [bestSample] at h
    exact ⟨by simp, fun a ha => by rw [h] at ha; simp at ha; rw [ha]⟩
  | cons t rest ih =>
    intro acc r h
    cases acc with
    | none =>
      simp only [bestSample] at h
      obtain ⟨h1, h2⟩ := ih _ r h
      refine ⟨?_, by simp⟩
      intro u hu
      rcases List.mem_cons.mp hu with rfl | hu
      · exact h2 (u, dist u) rfl
      · exact h1 u hu
    | some b =>
      obtain ⟨bt, bd⟩ := b
      simp only [bestSample] at h
      split_ifs at h with hlt
      · obtain ⟨h1, h2⟩ := ih _ r h
        have h3 := h2 (t, dist t) rfl
        refine ⟨?_, ?_⟩
        · intro u hu
          rcases List.mem_cons.mp hu with rfl | hu
          · exact h3
          · exact h1 u hu
        · intro a ha; simp at ha; rw [← ha]; exact le_trans h3 (le_of_lt hlt)
      · obtain ⟨h1, h2⟩ := ih _ r h
        have h3 := h2 (bt, bd) rfl
        refine ⟨?_, ?_⟩
        · intro u hu
          rcases List.mem_cons.mp hu with rfl | hu
          · exact le_trans h3 (le_of_not_gt hlt)
          · exact h1 u hu
        · intro a ha; simp at ha; rw [← ha]; exact h3

/-- every parameter in [0, 1] has a grid point at most 1/64 below it: the halving loop (reach 0.02) always starts close enough -/
theorem grid_dense (t : ℝ) (h0 : 0 ≤ t) (h1 : t ≤ 1) : ∃ g ∈ (grid : List ℝ), g ≤ t ∧ t - g < 1 / 64 := by
  refine ⟨(⌊64 * t⌋₊ : ℝ) / 64, ?_, ?_, ?_⟩
  · simp only [grid, List.mem_map, List.mem_range]
    refine ⟨⌊64 * t⌋₊, ?_, rfl⟩
    have : ⌊64 * t⌋₊ ≤ 64 := by
      apply Nat.floor_le_of_le
      push_cast; linarith
    omega
  · rw [div_le_iff₀ (by norm_num)]
    have := Nat.floor_le (by positivity : 0 ≤ 64 * t)
    linarith
  · have := Nat.lt_floor_add_one (64 * t)
    rw [sub_lt_iff_lt_add, ← sub_lt_iff_lt_add']
    have h64 : (0:ℝ) < 64 := by norm_num
    rw [lt_div_iff₀ h64]
    linarith

end cubic

end C15
