/-
  C07 — paths stay connected chains under any history of operations; clones are independent.
  Theorems about the hand model Model/Heap.lean (object identities) — tied to path/__init__.py by
  the correspondence run (values and alias partition after every step of random histories).
  Part B (this file, first): frame and separation.  Part A: chain / closedness / end points.
-/
import BezierVerif.Model.Heap
import BezierVerif.Lemmas.HeapLemmas

namespace C07
open HeapModel HeapModel.Heap
variable {P : Type}

/-! ### Part B — what an operation on one path can do to another -/

theorem filterMap_congr' {α β : Type} {f g : α → Option β} :
    ∀ l : List α, (∀ a ∈ l, f a = g a) → l.filterMap f = l.filterMap g := by
  intro l
  induction l with
  | nil => intro _; rfl
  | cons a l ih =>
    intro h
    have ha := h a (by simp)
    have hl := ih (fun b hb => h b (by simp [hb]))
    simp [List.filterMap_cons, ha, hl]

theorem obs_congr (h h' : Heap P) (q : Path) (hids : h'.segIds q = h.segIds q)
    (hsegs : ∀ i ∈ h.segIds q, h'.segs i = h.segs i) : h'.obs q = h.obs q := by
  unfold obs
  rw [hids]
  exact filterMap_congr' _ hsegs

theorem wf_id_lt (h : Heap P) (hwf : WF h) (i : Nat) (hi : (h.segs i).isSome) : i < h.next := by
  apply Classical.byContradiction
  intro hn
  have := hwf.segs_lt i (Nat.le_of_not_lt hn)
  rw [this] at hi; simp at hi

theorem wf_list_lt (h : Heap P) (hwf : WF h) (l : Nat) (hl : (h.lists l).isSome) : l < h.next := by
  apply Classical.byContradiction
  intro hn
  have := hwf.lists_lt l (Nat.le_of_not_lt hn)
  rw [this] at hl; simp at hl

theorem segIds_lt (h : Heap P) (hwf : WF h) (p : Path) : ∀ i ∈ h.segIds p, i < h.next ∧ (h.segs i).isSome := by
  intro i hi
  unfold segIds at hi
  cases hl : h.lists p.rep with
  | none => rw [hl] at hi; simp at hi
  | some ids =>
    rw [hl] at hi; simp at hi
    have := hwf.members p.rep ids hl i hi
    exact ⟨wf_id_lt h hwf i this, this⟩

/-- **frame**: an operation on `p` whose slots refer only to `p`'s own objects leaves every path that is
    separated from `p` exactly as it was, keeps it separated, and keeps the heap well-formed. -/
theorem applySlots_frame (h : Heap P) (hwf : WF h) (p q : Path) (hp : Live h p) (hq : Live h q)
    (hsep : Sep h p q) (slots : List (VSlot P)) (nl : Bool) (hr : InRange slots (h.segIds p).length) :
    let r := h.applySlots p slots nl
    r.1.segIds q = h.segIds q ∧ r.1.obs q = h.obs q ∧ Sep r.1 r.2 q ∧ Live r.1 q := by
  intro r
  have hqlt : q.rep < h.next := wf_list_lt h hwf q.rep hq
  have hplt : p.rep < h.next := wf_list_lt h hwf p.rep hp
  -- q's list object is untouched
  have hlist : r.1.lists q.rep = h.lists q.rep := by
    show (h.applySlots p slots nl).1.lists q.rep = _
    unfold applySlots
    cases nl with
    | true =>
      simp only [if_true]
      have hne : q.rep ≠ (runSlots (h.segIds p) h slots).1.next := by
        have := runSlots_next_le (h.segIds p) slots h; omega
      simp only [hne, if_false, runSlots_lists]
    | false =>
      simp only [Bool.false_eq_true, if_false]
      simp only [Ne.symm hsep.1, if_false, runSlots_lists]
  have hids : r.1.segIds q = h.segIds q := by unfold segIds; rw [hlist]
  -- q's segment objects are untouched
  have hsegs : ∀ i ∈ h.segIds q, r.1.segs i = h.segs i := by
    intro i hi
    have hilt := (segIds_lt h hwf q i hi).1
    have hnm : i ∉ mutIds (h.segIds p) slots := by
      intro hm
      exact hsep.2 i (mutIds_subset _ slots hr i hm) hi
    show (h.applySlots p slots nl).1.segs i = _
    unfold applySlots
    cases nl <;> simp only [if_true, Bool.false_eq_true, if_false] <;>
      exact runSlots_segs_frame (h.segIds p) slots h i hilt hnm
  refine ⟨hids, ?_, ?_, ?_⟩
  · unfold obs
    rw [hids]
    exact filterMap_congr' _ (fun i hi => hsegs i hi)
  · -- separation is preserved
    constructor
    · show (h.applySlots p slots nl).2.rep ≠ q.rep
      unfold applySlots
      cases nl with
      | true =>
        simp only [if_true]
        have := runSlots_next_le (h.segIds p) slots h
        omega
      | false => simp only [Bool.false_eq_true, if_false]; exact hsep.1
    · intro s hs hsq
      rw [hids] at hsq
      -- s is in the new id list of p
      have hnew : s ∈ (runSlots (h.segIds p) h slots).2 := by
        have : (h.applySlots p slots nl).1.segIds (h.applySlots p slots nl).2 = (runSlots (h.segIds p) h slots).2 := by
          unfold applySlots segIds
          cases nl <;> simp
        rw [← this]; exact hs
      rcases runSlots_ids (h.segIds p) slots h hr s hnew with h1 | h1
      · exact hsep.2 s h1 hsq
      · have := (segIds_lt h hwf q s hsq).1; omega
  · unfold Live; rw [hlist]; exact hq

/-- the heap stays well-formed and the receiver stays live -/
theorem applySlots_wf (h : Heap P) (hwf : WF h) (p : Path) (hp : Live h p)
    (slots : List (VSlot P)) (nl : Bool) (hr : InRange slots (h.segIds p).length) :
    WF (h.applySlots p slots nl).1 ∧ Live (h.applySlots p slots nl).1 (h.applySlots p slots nl).2 := by
  have hidslt : ∀ i ∈ h.segIds p, i < h.next := fun i hi => (segIds_lt h hwf p i hi).1
  have hidssome : ∀ i ∈ h.segIds p, (h.segs i).isSome := fun i hi => (segIds_lt h hwf p i hi).2
  have hplt : p.rep < h.next := wf_list_lt h hwf p.rep hp
  have hnext := runSlots_next_le (h.segIds p) slots h
  have hmem := runSlots_members (h.segIds p) slots h hidssome hr
  have hsegslt := runSlots_segs_lt (h.segIds p) slots h hwf.segs_lt hidslt hr
  unfold applySlots
  cases nl with
  | true =>
    simp only [if_true]
    refine ⟨⟨?_, ?_, ?_⟩, ?_⟩
    · intro i hi
      simp only at hi ⊢
      have : i ≠ (runSlots (h.segIds p) h slots).1.next := by omega
      simp only [this, if_false, runSlots_lists]
      exact hwf.lists_lt i (by omega)
    · intro i hi
      simp only at hi ⊢
      exact hsegslt i (by omega)
    · intro l ids hl s hs
      simp only at hl ⊢
      by_cases hc : l = (runSlots (h.segIds p) h slots).1.next
      · simp only [hc, if_true, Option.some.injEq] at hl
        subst hl; exact hmem s hs
      · simp only [hc, if_false, runSlots_lists] at hl
        exact runSlots_isSome _ _ _ _ (hwf.members l ids hl s hs)
    · unfold Live; simp
  | false =>
    simp only [Bool.false_eq_true, if_false]
    refine ⟨⟨?_, ?_, ?_⟩, ?_⟩
    · intro i hi
      simp only at hi ⊢
      have : i ≠ p.rep := by omega
      simp only [this, if_false, runSlots_lists]
      exact hwf.lists_lt i (by omega)
    · intro i hi; simp only at hi ⊢; exact hsegslt i hi
    · intro l ids hl s hs
      simp only at hl ⊢
      by_cases hc : l = p.rep
      · simp only [hc, if_true, Option.some.injEq] at hl
        subst hl; exact hmem s hs
      · simp only [hc, if_false, runSlots_lists] at hl
        exact runSlots_isSome _ _ _ _ (hwf.members l ids hl s hs)
    · unfold Live; simp

end C07

namespace C07
open HeapModel HeapModel.Heap
variable {P : Type}

/-! ### every operation's slot list uses each old position at most once and stays in range -/

def olds (slots : List (VSlot P)) : List Nat := slots.filterMap VSlot.old

/-- old positions used, in order, form a sublist of `a, a+1, …, a+n-1` -/
def OldsIn (slots : List (VSlot P)) (a n : Nat) : Prop := (olds slots).Sublist (List.range' a n)

theorem oldsIn_inRange (slots : List (VSlot P)) (a n N : Nat) (h : OldsIn slots a n) (hN : a + n ≤ N) :
    InRange slots N := by
  intro s hs k hk
  have hm : k ∈ olds slots := List.mem_filterMap.mpr ⟨s, hs, hk⟩
  have := h.subset hm
  simp [List.mem_range'] at this
  omega

theorem oldsIn_linear (slots : List (VSlot P)) (a n : Nat) (h : OldsIn slots a n) : Linear slots :=
  List.Nodup.sublist h (List.nodup_range' (step := 1) (by omega))

theorem olds_append (a b : List (VSlot P)) : olds (a ++ b) = olds a ++ olds b := by
  simp [olds, List.filterMap_append]

theorem olds_fresh (vs : List (SegVal P)) : olds (vs.map VSlot.fresh) = [] := by
  induction vs with
  | nil => rfl
  | cons v vs ih => simpa [olds, List.filterMap_cons, VSlot.old] using ih

theorem range'_cons' (a n : Nat) : List.range' a (n + 1) = a :: List.range' (a + 1) n := by
  simp [List.range'_succ]

theorem zipMut_olds : ∀ (n k : Nat) (vs : List (Option (SegVal P))), OldsIn (Op.zipMut k n vs) k n := by
  intro n
  induction n with
  | zero => intro k vs; simp [Op.zipMut, OldsIn, olds]
  | succ n ih =>
    intro k vs
    unfold OldsIn
    rw [range'_cons']
    cases vs with
    | nil => simp only [Op.zipMut, olds, List.filterMap_cons, VSlot.old]; exact (ih (k + 1) []).cons₂ k
    | cons v vs =>
      cases v with
      | none => simp only [Op.zipMut, olds, List.filterMap_cons, VSlot.old]; exact (ih (k + 1) vs).cons₂ k
      | some w => simp only [Op.zipMut, olds, List.filterMap_cons, VSlot.old]; exact (ih (k + 1) vs).cons₂ k

theorem zipReplace_olds : ∀ (n k : Nat) (vs : List (Option (SegVal P))), OldsIn (Op.zipReplace k n vs) k n := by
  intro n
  induction n with
  | zero => intro k vs; simp [Op.zipReplace, OldsIn, olds]
  | succ n ih =>
    intro k vs
    unfold OldsIn
    rw [range'_cons']
    cases vs with
    | nil => simp only [Op.zipReplace, olds, List.filterMap_cons, VSlot.old]; exact (ih (k + 1) []).cons₂ k
    | cons v vs =>
      cases v with
      | none => simp only [Op.zipReplace, olds, List.filterMap_cons, VSlot.old]; exact (ih (k + 1) vs).cons₂ k
      | some w => simp only [Op.zipReplace, olds, List.filterMap_cons, VSlot.old]; exact (ih (k + 1) vs).cons k

theorem splitSlots_olds : ∀ (n k : Nat) (ps : List (List (SegVal P))), OldsIn (Op.splitSlots k n ps) k n := by
  intro n
  induction n with
  | zero => intro k ps; simp [Op.splitSlots, OldsIn, olds]
  | succ n ih =>
    intro k ps
    unfold OldsIn
    rw [range'_cons']
    cases ps with
    | nil => simp only [Op.splitSlots, olds, List.filterMap_cons, VSlot.old]; exact (ih (k + 1) []).cons₂ k
    | cons p ps =>
      cases p with
      | nil => simp only [Op.splitSlots, olds, List.filterMap_cons, VSlot.old]; exact (ih (k + 1) ps).cons₂ k
      | cons v vs =>
        simp only [Op.splitSlots]
        have e : olds ((VSlot.fresh v :: vs.map VSlot.fresh) ++ Op.splitSlots (k + 1) n ps) = olds (Op.splitSlots (k + 1) n ps) := by
          rw [olds_append]
          have : olds (VSlot.fresh v :: vs.map VSlot.fresh) = [] := olds_fresh (v :: vs)
          rw [this]; rfl
        rw [e]
        exact (ih (k + 1) ps).cons k

theorem olds_dropLast_sublist (acc : List (VSlot P)) : (olds acc.dropLast).Sublist (olds acc) := by
  unfold olds
  exact List.Sublist.filterMap _ (List.dropLast_sublist acc)

theorem removeSlots_olds (vals : List (SegVal P)) : ∀ (n k : Nat) (acc : List (VSlot P)) (ms : List Bool),
    OldsIn acc 0 k → OldsIn (Op.removeSlots vals acc k n ms) 0 (k + n) := by
  intro n
  induction n with
  | zero => intro k acc ms h; simpa [Op.removeSlots] using h
  | succ n ih =>
    intro k acc ms h
    have hsplit : List.range' 0 (k + 1) = List.range' 0 k ++ [k] := by
      rw [List.range'_concat]; simp
    have step : ∀ (acc' : List (VSlot P)) (s : VSlot P), (olds acc').Sublist (olds acc) → VSlot.old s = some k →
        OldsIn (acc' ++ [s]) 0 (k + 1) := by
      intro acc' s hs ho
      unfold OldsIn
      rw [olds_append, hsplit]
      have : olds [s] = [k] := by simp [olds, List.filterMap_cons, ho]
      rw [this]
      exact List.Sublist.append (hs.trans h) (List.Sublist.refl _)
    have e : k + (n + 1) = (k + 1) + n := by omega
    rw [e]
    cases ms with
    | nil => simp only [Op.removeSlots]; exact ih (k + 1) _ [] (step acc _ (List.Sublist.refl _) rfl)
    | cons m ms =>
      cases m with
      | false => simp only [Op.removeSlots]; exact ih (k + 1) _ ms (step acc _ (List.Sublist.refl _) rfl)
      | true => simp only [Op.removeSlots]; exact ih (k + 1) _ ms (step acc.dropLast _ (olds_dropLast_sublist acc) rfl)

theorem keepRange_olds (n : Nat) : olds ((List.range n).map (VSlot.keep (P := P))) = List.range' 0 n := by
  unfold olds
  rw [List.filterMap_map]
  have : (VSlot.old ∘ (VSlot.keep (P := P))) = some := by funext k; rfl
  rw [this, List.filterMap_some, List.range_eq_range']

/-- **every operation's slots are in range and linear** (so the generic refinement applies) -/
theorem op_slots_ok (op : Op P) (vals : List (SegVal P)) :
    InRange (op.slots vals).1 vals.length ∧ Linear (op.slots vals).1 := by
  have fresh_ok : ∀ (l : List (VSlot P)), olds l = [] → InRange l vals.length ∧ Linear l := by
    intro l hl
    constructor
    · intro s hs k hk
      have : k ∈ olds l := List.mem_filterMap.mpr ⟨s, hs, hk⟩
      rw [hl] at this; simp at this
    · unfold Linear; change (olds l).Nodup; rw [hl]; simp
  have from_oldsIn : ∀ (l : List (VSlot P)) (n : Nat), n ≤ vals.length → OldsIn l 0 n → InRange l vals.length ∧ Linear l :=
    fun l n hn h => ⟨oldsIn_inRange l 0 n _ h (by omega), oldsIn_linear l 0 n h⟩
  cases op with
  | mapPts f =>
    apply fresh_ok
    simp only [Op.slots]
    have := olds_fresh (vals.map fun v => v.map f)
    rw [List.map_map] at this
    exact this
  | reverse =>
    apply fresh_ok
    simp only [Op.slots]
    unfold olds
    rw [List.filterMap_reverse]
    simp [VSlot.old]
  | split pieces => exact from_oldsIn _ vals.length (Nat.le_refl _) (splitSlots_olds _ 0 pieces)
  | mutateAll vs => exact from_oldsIn _ vals.length (Nat.le_refl _) (zipMut_olds _ 0 vs)
  | quadsToCubics vs => exact from_oldsIn _ vals.length (Nat.le_refl _) (zipReplace_olds _ 0 vs)
  | removeIrrelevant merge =>
    cases vals with
    | nil => exact fresh_ok [] rfl
    | cons v rest =>
      simp only [Op.slots]
      have h0 : OldsIn ([VSlot.keep 0] : List (VSlot P)) 0 1 := by simp [OldsIn, olds, VSlot.old]
      have := removeSlots_olds (v :: rest) rest.length 1 [VSlot.keep 0] merge h0
      exact from_oldsIn _ (1 + rest.length) (by simp; omega) this
  | reconvert => apply fresh_ok; simp only [Op.slots]; exact olds_fresh vals
  | appendVals extra =>
    simp only [Op.slots]
    have : OldsIn ((List.range vals.length).map (VSlot.keep (P := P)) ++ extra.map VSlot.fresh) 0 vals.length := by
      unfold OldsIn
      rw [olds_append, keepRange_olds, olds_fresh]; simp
    exact from_oldsIn _ vals.length (Nat.le_refl _) this

end C07

namespace C07
open HeapModel HeapModel.Heap
variable {P : Type}

/-! ### refinement: the heap-level step computes the value-level operation -/

structure Good (h : Heap P) (p : Path) : Prop where
  live : Live h p
  nodup : (h.segIds p).Nodup

theorem obs_eq_map (h : Heap P) (hwf : WF h) (p : Path) :
    (h.segIds p).map h.segs = (h.obs p).map some := by
  have hall : ∀ i ∈ h.segIds p, (h.segs i).isSome := fun i hi => (segIds_lt h hwf p i hi).2
  unfold obs
  generalize h.segIds p = ids at hall
  induction ids with
  | nil => rfl
  | cons i is ih =>
    have hi := hall i (by simp)
    cases hs : h.segs i with
    | none => rw [hs] at hi; simp at hi
    | some v =>
      simp only [List.map_cons, List.filterMap_cons, hs]
      rw [ih (fun j hj => hall j (List.mem_cons_of_mem _ hj))]

theorem obs_length (h : Heap P) (hwf : WF h) (p : Path) : (h.obs p).length = (h.segIds p).length := by
  have := congrArg List.length (obs_eq_map h hwf p)
  simpa using this.symm

theorem segs_at (h : Heap P) (hwf : WF h) (p : Path) (k : Nat) (hk : k < (h.segIds p).length) :
    h.segs (idAt (h.segIds p) k) = some ((h.obs p).getD k []) := by
  have hm := obs_eq_map h hwf p
  have hk' : k < (h.obs p).length := by rw [obs_length h hwf p]; exact hk
  have h1 : ((h.segIds p).map h.segs)[k]? = ((h.obs p).map some)[k]? := by rw [hm]
  rw [List.getElem?_map, List.getElem?_map, List.getElem?_eq_getElem hk, List.getElem?_eq_getElem hk'] at h1
  simp only [Option.map_some, Option.some.injEq] at h1
  unfold idAt
  rw [List.getD_eq_getElem?_getD, List.getElem?_eq_getElem hk, Option.getD_some, h1,
      List.getD_eq_getElem?_getD, List.getElem?_eq_getElem hk', Option.getD_some]

theorem segIds_applySlots (h : Heap P) (p : Path) (slots : List (VSlot P)) (nl : Bool) :
    (h.applySlots p slots nl).1.segIds (h.applySlots p slots nl).2 = (runSlots (h.segIds p) h slots).2 := by
  unfold applySlots segIds
  cases nl <;> simp

theorem segs_applySlots (h : Heap P) (p : Path) (slots : List (VSlot P)) (nl : Bool) :
    (h.applySlots p slots nl).1.segs = (runSlots (h.segIds p) h slots).1.segs := by
  unfold applySlots
  cases nl <;> simp

/-- **generic refinement**: applying in-range, linear slots to a good path yields exactly the slot values -/
theorem applySlots_obs (h : Heap P) (hwf : WF h) (p : Path) (hg : Good h p) (slots : List (VSlot P)) (nl : Bool)
    (hr : InRange slots (h.segIds p).length) (hl : Linear slots) :
    (h.applySlots p slots nl).1.obs (h.applySlots p slots nl).2 = slots.map (VSlot.val (h.obs p)) ∧
    Good (h.applySlots p slots nl).1 (h.applySlots p slots nl).2 := by
  have hidslt : ∀ i ∈ h.segIds p, i < h.next := fun i hi => (segIds_lt h hwf p i hi).1
  have hvals := runSlots_vals (h.segIds p) hg.nodup slots h hidslt hr hl
  have hnd := runSlots_nodup (h.segIds p) hg.nodup slots h hidslt hr hl
  have hwf' := applySlots_wf h hwf p hg.live slots nl hr
  constructor
  · unfold obs
    rw [segIds_applySlots, segs_applySlots]
    -- filterMap over ids = filterMap id over (ids.map segs)
    have e1 : ∀ (l : List Nat) (f : Nat → Option (SegVal P)), l.filterMap f = (l.map f).filterMap id := by
      intro l f; rw [List.filterMap_map]; rfl
    rw [e1, hvals]
    rw [List.filterMap_map]
    have e2 : ∀ s ∈ slots, (id ∘ slotVal h (h.segIds p)) s = some (VSlot.val (h.obs p) s) := by
      intro s hs
      cases s with
      | keep k => simp only [Function.comp, id, slotVal, VSlot.val]; exact segs_at h hwf p k (hr _ hs k rfl)
      | upd k v => rfl
      | fresh v => rfl
    have e3 : ∀ (l : List (VSlot P)) (f : VSlot P → Option (SegVal P)) (g : VSlot P → SegVal P),
        (∀ s ∈ l, f s = some (g s)) → l.filterMap f = l.map g := by
      intro l f g
      induction l with
      | nil => intro _; rfl
      | cons a l ih =>
        intro hh
        rw [List.filterMap_cons, hh a (by simp), List.map_cons, ih (fun s hs => hh s (List.mem_cons_of_mem _ hs))]
    exact e3 _ _ _ e2
  · exact ⟨hwf'.2, by rw [segIds_applySlots]; exact hnd⟩

/-- the heap-level step of an operation computes its value-level result, and keeps everything well-formed -/
theorem step_refines (h : Heap P) (hwf : WF h) (p : Path) (hg : Good h p) (op : Op P) :
    (step h p op).1.obs (step h p op).2 = op.apply (h.obs p) ∧ WF (step h p op).1 ∧ Good (step h p op).1 (step h p op).2 := by
  have hok := op_slots_ok op (h.obs p)
  have hr : InRange (op.slots (h.obs p)).1 (h.segIds p).length := by rw [← obs_length h hwf p]; exact hok.1
  have h1 := applySlots_obs h hwf p hg (op.slots (h.obs p)).1 (op.slots (h.obs p)).2 hr hok.2
  exact ⟨h1.1, (applySlots_wf h hwf p hg.live _ _ hr).1, h1.2⟩

/-- **frame for operations**: an operation on `p` leaves every path separated from `p` unchanged and separated -/
theorem step_frame (h : Heap P) (hwf : WF h) (p q : Path) (hp : Good h p) (hq : Good h q) (hsep : Sep h p q) (op : Op P) :
    (step h p op).1.obs q = h.obs q ∧ Sep (step h p op).1 (step h p op).2 q ∧ Good (step h p op).1 q := by
  have hok := op_slots_ok op (h.obs p)
  have hr : InRange (op.slots (h.obs p)).1 (h.segIds p).length := by rw [← obs_length h hwf p]; exact hok.1
  obtain ⟨h1, h2, h3, h4⟩ := applySlots_frame h hwf p q hp.live hq.live hsep _ (op.slots (h.obs p)).2 hr
  unfold step
  exact ⟨h2, h3, ⟨h4, by rw [h1]; exact hq.nodup⟩⟩

/-! ### clone -/

theorem mutIds_fresh (ids : List Nat) (vs : List (SegVal P)) : mutIds ids (vs.map VSlot.fresh) = [] := by
  induction vs with
  | nil => rfl
  | cons v vs ih => simpa [mutIds] using ih

/-- creating a new path from slots without in-place mutation leaves the receiver itself untouched -/
theorem applySlots_new_keeps (h : Heap P) (hwf : WF h) (p : Path) (hp : Live h p) (slots : List (VSlot P))
    (hm : mutIds (h.segIds p) slots = []) :
    (h.applySlots p slots true).1.segIds p = h.segIds p ∧ (h.applySlots p slots true).1.obs p = h.obs p ∧
    Live (h.applySlots p slots true).1 p := by
  have hplt : p.rep < h.next := wf_list_lt h hwf p.rep hp
  have hlist : (h.applySlots p slots true).1.lists p.rep = h.lists p.rep := by
    unfold applySlots
    simp only [if_true]
    have hne : p.rep ≠ (runSlots (h.segIds p) h slots).1.next := by
      have := runSlots_next_le (h.segIds p) slots h; omega
    simp only [hne, if_false, runSlots_lists]
  have hids : (h.applySlots p slots true).1.segIds p = h.segIds p := by unfold segIds; rw [hlist]
  refine ⟨hids, ?_, by unfold Live; rw [hlist]; exact hp⟩
  unfold obs
  rw [hids, segs_applySlots]
  apply filterMap_congr'
  intro i hi
  exact runSlots_segs_frame (h.segIds p) slots h i (segIds_lt h hwf p i hi).1 (by rw [hm]; simp)

theorem runSlots_fresh_ids (ids : List Nat) : ∀ (vs : List (SegVal P)) (h : Heap P),
    ∀ i ∈ (runSlots ids h (vs.map VSlot.fresh)).2, h.next ≤ i := by
  intro vs
  induction vs with
  | nil => intro h i hi; simp [runSlots] at hi
  | cons v vs ih =>
    intro h i hi
    simp only [List.map_cons, runSlots, List.mem_cons] at hi
    rcases hi with rfl | hi
    · exact Nat.le_refl _
    · have := ih _ i hi; rw [allocSeg_next] at this; omega

/-- **a new path of fresh objects** (clone, flatten): it has the given value, every existing path is
    untouched, and the new path is separated from every existing path. -/
theorem newPath_spec (h : Heap P) (hwf : WF h) (p : Path) (hg : Good h p) (vs : List (SegVal P)) :
    WF (newPath h p vs).1 ∧ Good (newPath h p vs).1 (newPath h p vs).2 ∧
    (newPath h p vs).1.obs (newPath h p vs).2 = vs ∧ (newPath h p vs).2.closed = p.closed ∧
    (∀ q, Good h q → Sep (newPath h p vs).1 (newPath h p vs).2 q ∧ (newPath h p vs).1.obs q = h.obs q ∧
      Good (newPath h p vs).1 q) := by
  unfold newPath
  have hfr : olds (vs.map VSlot.fresh) = [] := olds_fresh _
  have hr : InRange (vs.map VSlot.fresh) (h.segIds p).length := by
    intro s hs k hk
    have : k ∈ olds (vs.map VSlot.fresh) := List.mem_filterMap.mpr ⟨s, hs, hk⟩
    rw [hfr] at this; simp at this
  have hl : Linear (vs.map VSlot.fresh) := by unfold Linear; change (olds _).Nodup; rw [hfr]; simp
  have hobs := applySlots_obs h hwf p hg _ true hr hl
  have hwf' := applySlots_wf h hwf p hg.live _ true hr
  have hval : (vs.map VSlot.fresh).map (VSlot.val (h.obs p)) = vs := by
    rw [List.map_map]
    have : (VSlot.val (h.obs p) ∘ VSlot.fresh) = id := by funext v; rfl
    rw [this, List.map_id]
  have hq : ∀ q, Good h q → Sep (h.applySlots p (vs.map VSlot.fresh) true).1 (h.applySlots p (vs.map VSlot.fresh) true).2 q ∧
      (h.applySlots p (vs.map VSlot.fresh) true).1.obs q = h.obs q ∧ Good (h.applySlots p (vs.map VSlot.fresh) true).1 q := by
    intro q hgq
    have hqlt : q.rep < h.next := wf_list_lt h hwf q.rep hgq.live
    have hlist : (h.applySlots p (vs.map VSlot.fresh) true).1.lists q.rep = h.lists q.rep := by
      unfold applySlots
      simp only [if_true]
      have hne : q.rep ≠ (runSlots (h.segIds p) h (vs.map VSlot.fresh)).1.next := by
        have := runSlots_next_le (h.segIds p) (vs.map VSlot.fresh) h; omega
      simp only [hne, if_false, runSlots_lists]
    have hids : (h.applySlots p (vs.map VSlot.fresh) true).1.segIds q = h.segIds q := by unfold segIds; rw [hlist]
    refine ⟨⟨?_, ?_⟩, ?_, ⟨by unfold Live; rw [hlist]; exact hgq.live, by rw [hids]; exact hgq.nodup⟩⟩
    · unfold applySlots; simp only [if_true]
      have := runSlots_next_le (h.segIds p) (vs.map VSlot.fresh) h; omega
    · intro s hs hsq
      rw [segIds_applySlots] at hs
      rw [hids] at hsq
      have h1 := runSlots_fresh_ids (h.segIds p) vs h s hs
      have h2 := (segIds_lt h hwf q s hsq).1
      omega
    · apply obs_congr _ _ q hids
      intro i hi
      rw [segs_applySlots]
      exact runSlots_segs_frame (h.segIds p) _ h i (segIds_lt h hwf q i hi).1 (by rw [mutIds_fresh]; simp)
  refine ⟨hwf'.1, hobs.2, ?_, ?_, hq⟩
  · rw [hobs.1, hval]
  · unfold applySlots; simp

/-- **clone**: the clone has the same value, the original is untouched, the two are separated, and the
    clone is separated from every other live path as well. -/
theorem clone_spec (h : Heap P) (hwf : WF h) (p : Path) (hg : Good h p) :
    WF (clone h p).1 ∧ Good (clone h p).1 (clone h p).2 ∧ Good (clone h p).1 p ∧
    (clone h p).1.obs (clone h p).2 = h.obs p ∧ (clone h p).1.obs p = h.obs p ∧
    (clone h p).2.closed = p.closed ∧
    (∀ q, Good h q → Sep (clone h p).1 (clone h p).2 q ∧ (clone h p).1.obs q = h.obs q ∧ Good (clone h p).1 q) := by
  obtain ⟨w, g, o, c, hq⟩ := newPath_spec h hwf p hg (h.obs p)
  exact ⟨w, g, (hq p hg).2.2, o, (hq p hg).2.1, c, hq⟩

/-- **flatten** returns a new path of new objects: the receiver (and every other path) is untouched and
    separated from the result, whose closed flag is the receiver's. -/
theorem flatten_spec (h : Heap P) (hwf : WF h) (p : Path) (hg : Good h p) (pieces : List (List (SegVal P))) :
    WF (flatten h p pieces).1 ∧ Good (flatten h p pieces).1 (flatten h p pieces).2 ∧
    (flatten h p pieces).1.obs (flatten h p pieces).2 = flattenVals (h.obs p) pieces ∧
    (flatten h p pieces).2.closed = p.closed ∧
    (∀ q, Good h q → Sep (flatten h p pieces).1 (flatten h p pieces).2 q ∧ (flatten h p pieces).1.obs q = h.obs q ∧
      Good (flatten h p pieces).1 q) :=
  newPath_spec h hwf p hg (flattenVals (h.obs p) pieces)

end C07

namespace C07
open HeapModel HeapModel.Heap
variable {P : Type}

/-! ### independence of a clone under every interleaved history -/

theorem sep_symm (h : Heap P) (p q : Path) (hs : Sep h p q) : Sep h q p :=
  ⟨fun e => hs.1 e.symm, fun s hq hp => hs.2 s hp hq⟩

/-- run a history on the pair (p, c): `true` = the operation's receiver is p, `false` = it is c -/
def runBoth : Heap P → Path → Path → List (Bool × Op P) → Heap P × Path × Path
  | h, p, c, [] => (h, p, c)
  | h, p, c, (true, op) :: rest => runBoth (step h p op).1 (step h p op).2 c rest
  | h, p, c, (false, op) :: rest => runBoth (step h c op).1 p (step h c op).2 rest

/-- value-level replay of the operations whose receiver is the given side -/
def replay (side : Bool) : List (SegVal P) → List (Bool × Op P) → List (SegVal P)
  | vals, [] => vals
  | vals, (b, op) :: rest => if b = side then replay side (op.apply vals) rest else replay side vals rest

theorem runBoth_independent : ∀ (ops : List (Bool × Op P)) (h : Heap P) (p c : Path),
    WF h → Good h p → Good h c → Sep h p c →
    (runBoth h p c ops).1.obs (runBoth h p c ops).2.1 = replay true (h.obs p) ops ∧
    (runBoth h p c ops).1.obs (runBoth h p c ops).2.2 = replay false (h.obs c) ops := by
  intro ops
  induction ops with
  | nil => intro h p c _ _ _ _; exact ⟨rfl, rfl⟩
  | cons o rest ih =>
    intro h p c hwf hp hc hsep
    obtain ⟨b, op⟩ := o
    cases b with
    | true =>
      obtain ⟨r1, r2, r3⟩ := step_refines h hwf p hp op
      obtain ⟨f1, f2, f3⟩ := step_frame h hwf p c hp hc hsep op
      have := ih (step h p op).1 (step h p op).2 c r2 r3 f3 f2
      simp only [runBoth, replay, if_true]
      rw [r1, f1] at this
      simpa using this
    | false =>
      obtain ⟨r1, r2, r3⟩ := step_refines h hwf c hc op
      obtain ⟨f1, f2, f3⟩ := step_frame h hwf c p hc hp (sep_symm h p c hsep) op
      have := ih (step h c op).1 p (step h c op).2 r2 f3 r3 (sep_symm _ _ _ f2)
      simp only [runBoth, replay]
      rw [r1, f1] at this
      simpa using this

/-- **a clone is independent**: after `c = p.clone()`, for *every* finite interleaving of operations on the
    two paths, each path ends up exactly where its own operations alone take it from the common starting
    value — no operation on either path changes the other. -/
theorem clone_independent (h : Heap P) (hwf : WF h) (p : Path) (hg : Good h p) (ops : List (Bool × Op P)) :
    let h1 := (clone h p).1
    let c := (clone h p).2
    (runBoth h1 p c ops).1.obs (runBoth h1 p c ops).2.1 = replay true (h.obs p) ops ∧
    (runBoth h1 p c ops).1.obs (runBoth h1 p c ops).2.2 = replay false (h.obs p) ops := by
  intro h1 c
  obtain ⟨w, gc, gp, oc, op', _, hq⟩ := clone_spec h hwf p hg
  have hs : Sep h1 c p := (hq p hg).1
  have := runBoth_independent ops h1 p c w gp gc (sep_symm _ _ _ hs)
  rw [op', oc] at this
  exact this

end C07
