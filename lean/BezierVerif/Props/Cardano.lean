/-
  C05 — the Cardano closed forms of `CubicBezier._findRoots` are sound: every value they produce is a root of the
  cubic (over ℝ, with the real sqrt / cos / arccos / rpow).
  Step 1 (any ordered field, uninterpreted functions): the regenerated 11-path definition `cubic_cardano_roots`
  equals a readable tree `cardanoTree` in the monic coefficients a = A/D, b = B/D, c = C/D.
  Step 2 (ℝ): every element of `cardanoTree` satisfies t³ + a t² + b t + c = 0.
-/
import BezierVerif.Gen.Roots
import BezierVerif.Props.C05M
import BezierVerif.Props.C05
import Mathlib.Analysis.SpecialFunctions.Trigonometric.Inverse
import Mathlib.Analysis.SpecialFunctions.Pow.Real
import Mathlib.Analysis.SpecialFunctions.Sqrt
import Mathlib.Tactic.Ring
import Mathlib.Tactic.Linarith
import Mathlib.Tactic.FieldSimp
import Mathlib.Tactic.LinearCombination
import Mathlib.Tactic.Positivity

set_option linter.unusedSectionVars false
set_option linter.unusedVariables false
set_option linter.unusedSimpArgs false
set_option maxHeartbeats 4000000

namespace Cardano
open Gen

section tree
variable {K : Type} [Field K] [LinearOrder K] [IsStrictOrderedRing K]

def Q (a b c : K) : K := (2 * a * a * a - 9 * a * b + 27 * c) / 27
def Q2 (a b c : K) : K := (2 * a * a * a - 9 * a * b + 27 * c) / 27 / 2
def P (a b : K) : K := (3 * b - a * a) / 3
def P3 (a b : K) : K := (3 * b - a * a) / 3 / 3
def Disc (a b c : K) : K := Q2 a b c * Q2 a b c + P3 a b * P3 a b * P3 a b
def MP3 (a b : K) : K := -((3 * b - a * a) / 3) / 3

def trig (pi : K) (cos acos : K → K) (a b c r t1 : K) : List K :=
  let phi := acos (max (min (-(Q a b c) / (2 * r)) 1) (-1))
  [t1 * cos (phi / 3) - a / 3, t1 * cos ((phi + 2 * pi) / 3) - a / 3, t1 * cos ((phi + 4 * pi) / 3) - a / 3]

def zero (a u : K) : List K := [2 * u - a / 3, -u - a / 3]
def one (a x y : K) : List K := [x - y - a / 3]

/-- the Cardano body of `_findRoots` for monic coefficients, `cuberoot` written out as the source's two-branch function -/
def cardanoTree (pi : K) (sqrt cos acos : K → K) (rpow : K → K → K) (a b c : K) : List K :=
  if Disc a b c < 0 then
    if sqrt (MP3 a b * MP3 a b * MP3 a b) < 0 then
      trig pi cos acos a b c (sqrt (MP3 a b * MP3 a b * MP3 a b)) (2 * -(rpow (-(sqrt (MP3 a b * MP3 a b * MP3 a b))) ((1 : K) / 3)))
    else
      trig pi cos acos a b c (sqrt (MP3 a b * MP3 a b * MP3 a b)) (2 * rpow (sqrt (MP3 a b * MP3 a b * MP3 a b)) ((1 : K) / 3))
  else if Disc a b c = 0 then
    if Q2 a b c < 0 then
      if -(Q2 a b c) < 0 then zero a (-(rpow (-(-(Q2 a b c))) ((1 : K) / 3)))
      else zero a (rpow (-(Q2 a b c)) ((1 : K) / 3))
    else zero a (-(rpow (Q2 a b c) ((1 : K) / 3)))
  else
    if sqrt (Disc a b c) - Q2 a b c < 0 then
      if sqrt (Disc a b c) + Q2 a b c < 0 then
        one a (-(rpow (-(sqrt (Disc a b c) - Q2 a b c)) ((1 : K) / 3))) (-(rpow (-(sqrt (Disc a b c) + Q2 a b c)) ((1 : K) / 3)))
      else one a (-(rpow (-(sqrt (Disc a b c) - Q2 a b c)) ((1 : K) / 3))) (rpow (sqrt (Disc a b c) + Q2 a b c) ((1 : K) / 3))
    else
      if sqrt (Disc a b c) + Q2 a b c < 0 then
        one a (rpow (sqrt (Disc a b c) - Q2 a b c) ((1 : K) / 3)) (-(rpow (-(sqrt (Disc a b c) + Q2 a b c)) ((1 : K) / 3)))
      else one a (rpow (sqrt (Disc a b c) - Q2 a b c) ((1 : K) / 3)) (rpow (sqrt (Disc a b c) + Q2 a b c) ((1 : K) / 3))

/-- **the regenerated Cardano definition is the source's algorithm** in the monic coefficients -/
theorem cubic_cardano_eq_tree (pi : K) (sqrt cos acos : K → K) (rpow : K → K → K) (p0x p0y p1x p1y p2x p2y p3x p3y : K) :
    cubic_cardano_roots pi sqrt cos acos rpow p0x p0y p1x p1y p2x p2y p3x p3y =
      if |cubic_rootcoeffs_y_d p0x p0y p1x p1y p2x p2y p3x p3y| ≤ (1 : K) / 1000000 *
          max (max |cubic_rootcoeffs_y_a p0x p0y p1x p1y p2x p2y p3x p3y| |cubic_rootcoeffs_y_b p0x p0y p1x p1y p2x p2y p3x p3y|)
            |cubic_rootcoeffs_y_c p0x p0y p1x p1y p2x p2y p3x p3y|
      then []
      else cardanoTree pi sqrt cos acos rpow
        (cubic_rootcoeffs_y_a p0x p0y p1x p1y p2x p2y p3x p3y / cubic_rootcoeffs_y_d p0x p0y p1x p1y p2x p2y p3x p3y)
        (cubic_rootcoeffs_y_b p0x p0y p1x p1y p2x p2y p3x p3y / cubic_rootcoeffs_y_d p0x p0y p1x p1y p2x p2y p3x p3y)
        (cubic_rootcoeffs_y_c p0x p0y p1x p1y p2x p2y p3x p3y / cubic_rootcoeffs_y_d p0x p0y p1x p1y p2x p2y p3x p3y) := by
  unfold cubic_cardano_roots
  simp only [cubic_rootcoeffs_y_a, cubic_rootcoeffs_y_b, cubic_rootcoeffs_y_c, cubic_rootcoeffs_y_d]
  repeat' (first
    | (refine C05M.eq_ite (fun _ => ?_) (fun _ => ?_))
    | (simp only [cardanoTree, trig, zero, one, Disc, Q, Q2, P, P3, MP3, *, if_true, if_false, eq_self_iff_true, lt_self_iff_false]; done))
end tree

section real
open Real

theorem cube_inj {x y : ℝ} (h : x ^ 3 = y ^ 3) : x = y :=
  (Odd.strictMono_pow (R := ℝ) (by decide : Odd 3)).injective h

theorem rpow_third_cube {x : ℝ} (hx : 0 ≤ x) : (x ^ ((1 : ℝ) / 3)) ^ 3 = x := by
  have := Real.rpow_inv_natCast_pow hx (n := 3) (by norm_num)
  simpa [one_div] using this

/-- depressed-cubic bookkeeping shared by all Cardano branches (monic cubic t³ + a t² + b t + c) -/
theorem depress (a b c y : ℝ) :
    (y - a / 3) ^ 3 + a * (y - a / 3) ^ 2 + b * (y - a / 3) + c
      = y ^ 3 + ((3 * b - a * a) / 3) * y + (2 * a * a * a - 9 * a * b + 27 * c) / 27 := by
  ring

/-- three-real-roots branch (discriminant < 0) of `CubicBezier._findRoots`, root k ∈ {0,1,2}:
    `2·cbrt(r)·cos((φ + 2kπ)/3) − a/3` with `r = sqrt((−p/3)³)`, `φ = acos(−q/(2r))`. -/
theorem cardano_trig (a b c : ℝ) (k : ℕ)
    (hdisc : ((2 * a * a * a - 9 * a * b + 27 * c) / 27 / 2) ^ 2 + ((3 * b - a * a) / 3 / 3) ^ 3 < 0) :
    let p := (3 * b - a * a) / 3
    let q := (2 * a * a * a - 9 * a * b + 27 * c) / 27
    let r := sqrt ((-p / 3) ^ 3)
    let φ := arccos (max (min (-q / (2 * r)) 1) (-1))
    let t := 2 * r ^ ((1:ℝ) / 3) * cos ((φ + 2 * k * π) / 3) - a / 3
    t ^ 3 + a * t ^ 2 + b * t + c = 0 := by
  intro p q r φ t
  -- m := sqrt(-p/3) > 0, r = m^3
  have hp3 : (p / 3) ^ 3 < 0 := by
    have : (q / 2) ^ 2 ≥ 0 := sq_nonneg _
    have h := hdisc
    change (q / 2) ^ 2 + (p / 3) ^ 3 < 0 at h
    linarith
  have hpneg : p < 0 := by
    by_contra hcon
    push_neg at hcon
    have : (p / 3) ^ 3 ≥ 0 := by positivity
    linarith
  set m := sqrt (-p / 3) with hm
  have hmpos : 0 < m := sqrt_pos.mpr (by linarith)
  have hm2 : m ^ 2 = -p / 3 := by rw [hm]; exact sq_sqrt (by linarith)
  have hr : r = m ^ 3 := by
    show sqrt ((-p / 3) ^ 3) = m ^ 3
    rw [← hm2, ← pow_mul]
    have : m ^ (2 * 3) = (m ^ 3) ^ 2 := by ring
    rw [this, sqrt_sq (by positivity)]
  have hcbrt : r ^ ((1:ℝ) / 3) = m := by
    rw [hr]
    have := Real.pow_rpow_inv_natCast hmpos.le (n := 3) (by norm_num)
    simpa using this
  -- |q/(2r)| < 1
  have hrpos : 0 < r := by rw [hr]; positivity
  have hq2 : (q / 2) ^ 2 < r ^ 2 := by
    have h := hdisc
    change (q / 2) ^ 2 + (p / 3) ^ 3 < 0 at h
    have : r ^ 2 = -(p / 3) ^ 3 := by
      rw [hr]; have : (m ^ 3) ^ 2 = (m ^ 2) ^ 3 := by ring
      rw [this, hm2]; ring
    linarith
  have habs : |q / 2| < r := by
    have := abs_lt_of_sq_lt_sq hq2 hrpos.le
    exact this
  have hlow : -1 ≤ -q / (2 * r) := by
    rw [le_div_iff₀ (by positivity)]
    have := (abs_lt.mp habs).2
    linarith
  have hhigh : -q / (2 * r) ≤ 1 := by
    rw [div_le_iff₀ (by positivity)]
    have := (abs_lt.mp habs).1
    linarith
  have hclamp : max (min (-q / (2 * r)) 1) (-1) = -q / (2 * r) := by
    rw [min_eq_left hhigh, max_eq_left hlow]
  have hcosφ : cos φ = -q / (2 * r) := by
    show cos (arccos _) = _
    rw [hclamp]; exact cos_arccos hlow hhigh
  -- triple angle
  have h3 : cos (3 * ((φ + 2 * k * π) / 3)) = cos φ := by
    have : 3 * ((φ + 2 * k * π) / 3) = φ + k * (2 * π) := by ring
    rw [this, cos_add_nat_mul_two_pi]
  have htriple := cos_three_mul ((φ + 2 * k * π) / 3)
  set θ := (φ + 2 * k * π) / 3 with hθ
  have hy : (2 * m * cos θ) ^ 3 + p * (2 * m * cos θ) + q = 0 := by
    have hp' : p = -3 * m ^ 2 := by linarith [hm2]
    have e1 : 4 * cos θ ^ 3 - 3 * cos θ = -q / (2 * r) := by rw [← htriple, h3, hcosφ]
    have e2 : 2 * r * (4 * cos θ ^ 3 - 3 * cos θ) = -q := by
      rw [e1]; field_simp
    rw [hr] at e2
    rw [hp']
    linear_combination e2
  show t ^ 3 + a * t ^ 2 + b * t + c = 0
  have ht : t = 2 * m * cos θ - a / 3 := by show 2 * r ^ ((1:ℝ) / 3) * cos θ - a / 3 = _; rw [hcbrt]
  rw [ht, depress]
  exact hy

/-- three real roots, in the shape the tree has them -/
theorem trig_sound (a b c : ℝ) (hd : Disc a b c < 0) :
    ∀ t ∈ trig Real.pi Real.cos Real.arccos a b c (Real.sqrt (MP3 a b * MP3 a b * MP3 a b))
        (2 * Real.rpow (Real.sqrt (MP3 a b * MP3 a b * MP3 a b)) ((1 : ℝ) / 3)), t ^ 3 + a * t ^ 2 + b * t + c = 0 := by
  have hdisc : ((2 * a * a * a - 9 * a * b + 27 * c) / 27 / 2) ^ 2 + ((3 * b - a * a) / 3 / 3) ^ 3 < 0 := by
    have : Disc a b c = ((2 * a * a * a - 9 * a * b + 27 * c) / 27 / 2) ^ 2 + ((3 * b - a * a) / 3 / 3) ^ 3 := by
      unfold Disc Q2 P3; ring
    rw [← this]; exact hd
  have e3 : MP3 a b * MP3 a b * MP3 a b = (-((3 * b - a * a) / 3) / 3) ^ 3 := by unfold MP3; ring
  intro t ht
  unfold trig Q at ht
  simp only [List.mem_cons, List.mem_nil_iff, or_false, Real.rpow_eq_pow] at ht
  rw [e3] at ht
  have k0 := cardano_trig a b c 0 hdisc
  have k1 := cardano_trig a b c 1 hdisc
  have k2 := cardano_trig a b c 2 hdisc
  simp only [Nat.cast_zero, Nat.cast_one, Nat.cast_ofNat, mul_zero, zero_mul, add_zero, mul_one] at k0 k1 k2
  have e4 : (2 : ℝ) * 2 * π = 4 * π := by ring
  rw [e4] at k2
  rcases ht with h | h | h <;> rw [h]
  · exact k0
  · exact k1
  · exact k2

theorem depress' (a b c y : ℝ) :
    (y - a / 3) ^ 3 + a * (y - a / 3) ^ 2 + b * (y - a / 3) + c = y ^ 3 + 3 * P3 a b * y + 2 * Q2 a b c := by
  unfold P3 Q2; ring

/-- zero discriminant: with u³ = −q/2 both 2u − a/3 and −u − a/3 are roots -/
theorem zero_sound (a b c u : ℝ) (hd : Disc a b c = 0) (hu : u ^ 3 = -(Q2 a b c)) :
    ∀ t ∈ zero a u, t ^ 3 + a * t ^ 2 + b * t + c = 0 := by
  have hp : P3 a b = -(u ^ 2) := by
    apply cube_inj
    have : P3 a b ^ 3 = -(Q2 a b c * Q2 a b c) := by unfold Disc at hd; linarith [hd, (by ring : P3 a b ^ 3 = P3 a b * P3 a b * P3 a b)]
    rw [this]
    have hq : Q2 a b c = -(u ^ 3) := by linarith
    rw [hq]; ring
  have hq : Q2 a b c = -(u ^ 3) := by linarith
  intro t ht
  unfold zero at ht
  simp only [List.mem_cons, List.mem_nil_iff, or_false] at ht
  rcases ht with rfl | rfl
  · rw [depress', hp, hq]; ring
  · rw [depress', hp, hq]; ring

/-- one real root: with x³ = sd − q/2, y³ = sd + q/2 (sd² = discriminant), x − y − a/3 is a root -/
theorem one_sound (a b c x y sd : ℝ) (hsd : sd * sd = Disc a b c) (hx : x ^ 3 = sd - Q2 a b c) (hy : y ^ 3 = sd + Q2 a b c) :
    ∀ t ∈ one a x y, t ^ 3 + a * t ^ 2 + b * t + c = 0 := by
  have hxy : x * y = P3 a b := by
    apply cube_inj
    have : (x * y) ^ 3 = x ^ 3 * y ^ 3 := by ring
    rw [this, hx, hy]
    have : (sd - Q2 a b c) * (sd + Q2 a b c) = sd * sd - Q2 a b c * Q2 a b c := by ring
    rw [this, hsd]; unfold Disc; ring
  intro t ht
  unfold one at ht
  simp only [List.mem_singleton] at ht
  subst ht
  rw [depress']
  have e : (x - y) ^ 3 = x ^ 3 - y ^ 3 - 3 * (x * y) * (x - y) := by ring
  rw [e, hx, hy, hxy]; ring

/-- the signed cube root of the source (`cuberoot`) cubes back to its argument -/
theorem cuberoot_cube (v : ℝ) :
    (if v < 0 then -(Real.rpow (-v) ((1 : ℝ) / 3)) else Real.rpow v ((1 : ℝ) / 3)) ^ 3 = v := by
  split_ifs with h
  · have := rpow_third_cube (x := -v) (by linarith)
    have e : (-(Real.rpow (-v) ((1 : ℝ) / 3))) ^ 3 = -((Real.rpow (-v) ((1 : ℝ) / 3)) ^ 3) := by ring
    rw [e]; show -(((-v) ^ ((1 : ℝ) / 3)) ^ 3) = v; rw [this]; ring
  · exact rpow_third_cube (le_of_not_gt h)

/-- **Cardano soundness**: every value of the tree, with the real functions, is a root of the monic cubic -/
theorem cardanoTree_sound (a b c : ℝ) :
    ∀ t ∈ cardanoTree Real.pi Real.sqrt Real.cos Real.arccos Real.rpow a b c, t ^ 3 + a * t ^ 2 + b * t + c = 0 := by
  unfold cardanoTree
  by_cases hd : Disc a b c < 0
  · rw [if_pos hd, if_neg (not_lt.mpr (Real.sqrt_nonneg _))]
    exact trig_sound a b c hd
  rw [if_neg hd]
  by_cases h0 : Disc a b c = 0
  · rw [if_pos h0]
    by_cases hq : Q2 a b c < 0
    · rw [if_pos hq, if_neg (by linarith : ¬ -(Q2 a b c) < 0)]
      apply zero_sound a b c _ h0
      exact rpow_third_cube (by linarith)
    · rw [if_neg hq]
      apply zero_sound a b c _ h0
      have := rpow_third_cube (x := Q2 a b c) (le_of_not_gt hq)
      have e : (-(Real.rpow (Q2 a b c) ((1 : ℝ) / 3))) ^ 3 = -((Real.rpow (Q2 a b c) ((1 : ℝ) / 3)) ^ 3) := by ring
      rw [e]; show -((Q2 a b c ^ ((1 : ℝ) / 3)) ^ 3) = _; rw [this]
  · rw [if_neg h0]
    have hpos : 0 ≤ Disc a b c := le_of_not_gt hd
    have hsd : Real.sqrt (Disc a b c) * Real.sqrt (Disc a b c) = Disc a b c := Real.mul_self_sqrt hpos
    have cx := cuberoot_cube (Real.sqrt (Disc a b c) - Q2 a b c)
    have cy := cuberoot_cube (Real.sqrt (Disc a b c) + Q2 a b c)
    by_cases h1 : Real.sqrt (Disc a b c) - Q2 a b c < 0 <;> by_cases h2 : Real.sqrt (Disc a b c) + Q2 a b c < 0
    · rw [if_pos h1, if_pos h2]; rw [if_pos h1] at cx; rw [if_pos h2] at cy
      exact one_sound a b c _ _ _ hsd cx cy
    · rw [if_pos h1, if_neg h2]; rw [if_pos h1] at cx; rw [if_neg h2] at cy
      exact one_sound a b c _ _ _ hsd cx cy
    · rw [if_neg h1, if_pos h2]; rw [if_neg h1] at cx; rw [if_pos h2] at cy
      exact one_sound a b c _ _ _ hsd cx cy
    · rw [if_neg h1, if_neg h2]; rw [if_neg h1] at cx; rw [if_neg h2] at cy
      exact one_sound a b c _ _ _ hsd cx cy

/-- **every closed-form candidate of `CubicBezier._findRoots('y')` is a root of the y-polynomial** d t³ + a t² + b t + c
    (real sqrt, cos, arccos, rpow): what `_polishRoots` receives in the Cardano branch are exact roots, and the Newton
    polish fixes exact roots (`polishRoots_keeps_exact`) -/
theorem cubic_cardano_sound (p0x p0y p1x p1y p2x p2y p3x p3y t : ℝ)
    (ht : t ∈ cubic_cardano_roots Real.pi Real.sqrt Real.cos Real.arccos Real.rpow p0x p0y p1x p1y p2x p2y p3x p3y) :
    ((cubic_rootcoeffs_y_d p0x p0y p1x p1y p2x p2y p3x p3y * t + cubic_rootcoeffs_y_a p0x p0y p1x p1y p2x p2y p3x p3y) * t
        + cubic_rootcoeffs_y_b p0x p0y p1x p1y p2x p2y p3x p3y) * t + cubic_rootcoeffs_y_c p0x p0y p1x p1y p2x p2y p3x p3y = 0 := by
  rw [cubic_cardano_eq_tree] at ht
  split_ifs at ht with hneg
  · simp at ht
  · set A := cubic_rootcoeffs_y_a p0x p0y p1x p1y p2x p2y p3x p3y
    set B := cubic_rootcoeffs_y_b p0x p0y p1x p1y p2x p2y p3x p3y
    set C := cubic_rootcoeffs_y_c p0x p0y p1x p1y p2x p2y p3x p3y
    set D := cubic_rootcoeffs_y_d p0x p0y p1x p1y p2x p2y p3x p3y
    have hD : D ≠ 0 := by
      intro h0
      apply hneg
      rw [h0, abs_zero]; positivity
    have := cardanoTree_sound (A / D) (B / D) (C / D) t ht
    have e : ((D * t + A) * t + B) * t + C = D * (t ^ 3 + A / D * t ^ 2 + B / D * t + C / D) := by
      field_simp
    rw [e, this, mul_zero]

/-- **cubic / line, Cardano branch, soundness of the whole root finder**: when the cubic coefficient is not negligible,
    every parameter `CubicBezier._findRoots('y')` returns — closed forms, Newton polish, range filter, sort — lies in
    [0,1] and is an exact root of the y-polynomial (real functions).  With `aligned_y_zero_iff` (C05) these are
    parameters at which the curve meets the line's carrier. -/
theorem cubicRoots_cardano_sound (p0 p1 p2 p3 : Pt ℝ) (t : ℝ)
    (hcode : cubic_findRoots_dispatch_v p0.x p0.y p1.x p1.y p2.x p2.y p3.x p3.y = 2)
    (ht : t ∈ Inter.cubicRoots Real.sqrt p0 p1 p2 p3
        (cubic_cardano_roots Real.pi Real.sqrt Real.cos Real.arccos Real.rpow p0.x p0.y p1.x p1.y p2.x p2.y p3.x p3.y)) :
    (0 ≤ t ∧ t ≤ 1) ∧
    ((cubic_rootcoeffs_y_d p0.x p0.y p1.x p1.y p2.x p2.y p3.x p3.y * t + cubic_rootcoeffs_y_a p0.x p0.y p1.x p1.y p2.x p2.y p3.x p3.y) * t
        + cubic_rootcoeffs_y_b p0.x p0.y p1.x p1.y p2.x p2.y p3.x p3.y) * t + cubic_rootcoeffs_y_c p0.x p0.y p1.x p1.y p2.x p2.y p3.x p3.y = 0 := by
  rw [C05.cubicRoots_cardano _ _ _ _ _ _ hcode] at ht
  refine ⟨C05.polishRoots_unit _ _ _ _ _ _ ht, ?_⟩
  unfold Inter.polishRoots at ht
  rw [C05.mem_sortK, List.mem_filter, List.mem_map] at ht
  obtain ⟨⟨r, hr, rfl⟩, _⟩ := ht
  have hroot := cubic_cardano_sound _ _ _ _ _ _ _ _ r hr
  rw [C05.polish_fix _ _ _ _ r hroot]
  exact hroot

end real

end Cardano
