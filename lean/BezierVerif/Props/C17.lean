/-
  C17 — flattening yields an on-curve polyline from start to end.
  Theorems about `Sample.joinLines` (Model/Sample.lean) over *any* list of sample points, combined with
  C16's facts about the sample lists; tied to CubicBezier.flatten / QuadraticBezier.flatten /
  Line.flatten / BezierPath.flatten by the correspondence run (recorded sample points).
-/
import BezierVerif.Model.Sample
import BezierVerif.Props.C16
import BezierVerif.Lemmas.SegLemmas

set_option linter.unusedSectionVars false
set_option linter.unusedVariables false

namespace C17
open Sample
variable {K : Type} [Field K] [LinearOrder K] [IsStrictOrderedRing K] [FloorRing K]

/-- connected chain of segments from `a` to `b` -/
def ChainFrom (a : Pt K) : List (Seg K) → Pt K → Prop
  | [], b => a = b
  | s :: ss, b => s.start = a ∧ ChainFrom s.end ss b

/-- joining n+1 points gives n straight edges -/
theorem joinLines_length : ∀ (pts : List (Pt K)), (joinLines pts).length = pts.length - 1 := by
  intro pts
  induction pts with
  | nil => rfl
  | cons a rest ih =>
    cases rest with
    | nil => rfl
    | cons b r => simp only [joinLines, List.length_cons] at ih ⊢; omega

/-- last element of a non-empty list given as head and tail -/
def lastOf {α : Type} (a : α) : List α → α
  | [] => a
  | b :: r => lastOf b r

theorem lastOf_map {α β : Type} (f : α → β) (a : α) (l : List α) : lastOf (f a) (l.map f) = f (lastOf a l) := by
  induction l generalizing a with
  | nil => rfl
  | cons b r ih => exact ih b

/-- the edges form a connected chain from the first to the last point -/
theorem joinLines_chain : ∀ (a : Pt K) (rest : List (Pt K)),
    ChainFrom a (joinLines (a :: rest)) (lastOf a rest) := by
  intro a rest
  induction rest generalizing a with
  | nil => simp [joinLines, ChainFrom, lastOf]
  | cons b r ih =>
    simp only [joinLines, ChainFrom, Seg.start, Seg.end, true_and, lastOf]
    exact ih b

theorem joinLines_are_lines : ∀ (pts : List (Pt K)) (s : Seg K), s ∈ joinLines pts → ∃ a b, s = Seg.line a b ∧ a ∈ pts ∧ b ∈ pts := by
  intro pts
  induction pts with
  | nil => intro s hs; simp [joinLines] at hs
  | cons a rest ih =>
    intro s hs
    cases rest with
    | nil => simp [joinLines] at hs
    | cons b r =>
      simp only [joinLines, List.mem_cons] at hs
      rcases hs with rfl | hs
      · exact ⟨a, b, rfl, by simp, by simp⟩
      · obtain ⟨x, y, h1, h2, h3⟩ := ih s hs
        exact ⟨x, y, h1, List.mem_cons_of_mem _ h2, List.mem_cons_of_mem _ h3⟩

/-- **flattening a curve over parameters t₀ = 0 ≤ … ≤ t_k = 1**: a connected chain of lines from the
    curve's start to its end, every vertex a point of the curve (at the listed parameter). -/
theorem flatten_on_curve (seg : Seg K) (ts : List K) (hlast : lastOf (0 : K) ts = 1) :
    ChainFrom seg.start (joinLines ((0 :: ts).map seg.eval)) seg.end ∧
    (∀ s ∈ joinLines ((0 :: ts).map seg.eval), ∃ t t', t ∈ 0 :: ts ∧ t' ∈ 0 :: ts ∧ s = Seg.line (seg.eval t) (seg.eval t')) := by
  constructor
  · have h := joinLines_chain (seg.eval 0) (ts.map seg.eval)
    rw [lastOf_map, hlast, Seg.eval_one, Seg.eval_zero] at h
    simpa [Seg.eval_zero] using h
  · intro s hs
    obtain ⟨a, b, h1, h2, h3⟩ := joinLines_are_lines _ s hs
    obtain ⟨t, ht, rfl⟩ := List.mem_map.mp h2
    obtain ⟨t', ht', rfl⟩ := List.mem_map.mp h3
    exact ⟨t, t', ht, ht', h1⟩

/-- a curve shorter than the step becomes its chord -/
theorem chord_chain (seg : Seg K) : ChainFrom seg.start [Seg.line seg.start seg.end] seg.end := by
  simp [ChainFrom, Seg.start, Seg.end]

/-- concatenating per-segment chains of a connected path gives a connected chain -/
theorem chain_append (a b c : Pt K) (l1 l2 : List (Seg K)) (h1 : ChainFrom a l1 b) (h2 : ChainFrom b l2 c) :
    ChainFrom a (l1 ++ l2) c := by
  induction l1 generalizing a with
  | nil => simp only [ChainFrom] at h1; subst h1; simpa using h2
  | cons s ss ih => exact ⟨h1.1, ih _ h1.2⟩

/-- number of edges for the quadratic's uniform sampling: one edge per stepping parameter -/
theorem quad_edge_count (evalAt : K → Pt K) (ts : List K) :
    (joinLines (sample evalAt ts)).length = ts.length := by
  rw [joinLines_length]; simp [sample]

/-- a lookup table whose last entry reaches every target is never exhausted: one parameter per target -/
theorem walk_length : ∀ (ds : List K) (lut : List (K × K)) (e : K × K), lut.getLast? = some e →
    (∀ d ∈ ds, d ≤ e.2) → (walk lut ds).length = ds.length := by
  intro ds
  induction ds with
  | nil => intro lut e _ _; rfl
  | cons d ds ih =>
    intro lut e hl hd
    have hne : popWhile d lut ≠ [] ∧ (popWhile d lut).getLast? = some e := by
      clear ih
      induction lut with
      | nil => simp at hl
      | cons x xs ihx =>
        simp only [popWhile]
        split_ifs with hx
        · cases xs with
          | nil =>
            simp at hl; subst hl
            exact absurd hx (not_lt.mpr (hd d (by simp)))
          | cons y ys => exact ihx (by simpa [List.getLast?_cons_cons] using hl)
        · exact ⟨by simp, hl⟩
    cases hp : popWhile d lut with
    | nil => exact absurd hp hne.1
    | cons x xs =>
      simp only [walk, hp, List.length_cons]
      rw [ih (x :: xs) e (by rw [← hp]; exact hne.2) (fun d' hd' => hd d' (List.mem_cons_of_mem _ hd'))]

/-- `finish` never shortens -/
theorem finish_length (r out : List K) (h : finish r = some out) : r.length ≤ out.length ∧ (r.getLast? ≠ some 1 → out.length = r.length + 1) := by
  unfold finish at h
  cases hl : r.getLast? with
  | none => rw [hl] at h; simp at h
  | some l =>
    rw [hl] at h
    simp only at h
    split_ifs at h with h1
    · simp only [Option.some.injEq] at h; subst h
      exact ⟨le_refl _, fun hne => absurd (by rw [h1]) hne⟩
    · simp only [Option.some.injEq] at h; subst h
      exact ⟨by simp, fun _ => by simp⟩

/-- **number of edges of a flattened cubic** (`CubicBezier.flatten` = lines through the points at `regularSampleTValue(length / d)`): with
    a lookup table whose last entry reaches every target arc length, the chain has at least one edge per target but one — and one per
    target when the walk does not end at parameter 1 by itself -/
theorem cubic_edge_count (evalAt : K → Pt K) (lut : List (K × K)) (targets : List K) (e : K × K) (out : List K)
    (hl : lut.getLast? = some e) (hd : ∀ d ∈ targets, d ≤ e.2) (h : regular lut targets = some out) :
    targets.length - 1 ≤ (joinLines (out.map evalAt)).length ∧
    ((walk lut targets).getLast? ≠ some 1 → (joinLines (out.map evalAt)).length = targets.length) := by
  have hw := walk_length targets lut e hl hd
  obtain ⟨h1, h2⟩ := finish_length (walk lut targets) out h
  rw [joinLines_length, List.length_map]
  constructor
  · omega
  · intro hne; rw [h2 hne, hw]; omega

/-- the property's count: with at least `L/d` targets (the loop `desiredLength += d` while `desiredLength < L`) and `L > 2d`, more than
    `L/(2d)` edges -/
theorem cubic_edge_count_bound (evalAt : K → Pt K) (lut : List (K × K)) (targets : List K) (e : K × K) (out : List K) (L d : K)
    (hl : lut.getLast? = some e) (hd : ∀ x ∈ targets, x ≤ e.2) (h : regular lut targets = some out)
    (hd0 : 0 < d) (hn : L / d ≤ (targets.length : K)) (hL : 2 * d < L) :
    L / (2 * d) < ((joinLines (out.map evalAt)).length : K) := by
  have h1 := (cubic_edge_count evalAt lut targets e out hl hd h).1
  have h2 : (2 : K) < L / d := by rw [lt_div_iff₀ hd0]; linarith
  have hge : (targets.length : K) - 1 ≤ ((joinLines (out.map evalAt)).length : K) := by
    have : ((targets.length - 1 : ℕ) : K) ≤ ((joinLines (out.map evalAt)).length : K) := by exact_mod_cast h1
    have h3 : (targets.length : K) - 1 ≤ ((targets.length - 1 : ℕ) : K) := by
      rcases Nat.eq_zero_or_pos targets.length with h0 | h0
      · rw [h0]; simp
      · rw [Nat.cast_sub h0]; simp
    linarith
  have e2 : L / (2 * d) = L / d / 2 := by field_simp
  rw [e2]
  linarith

end C17
