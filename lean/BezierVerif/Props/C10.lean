/-
  C10 — signed area is exact per segment and consistent for closed paths.
  Segment theorems are about Gen/Area.lean, Gen/Eval.lean, Gen/Affine.lean (regenerated from the
  source); the polygon (shoelace) theorems are about the hand model Model/Polygon.lean, tied to
  BezierPath.signed_area by the correspondence run.
-/
import BezierVerif.Gen.Eval
import BezierVerif.Gen.Area
import BezierVerif.Gen.Affine
import BezierVerif.Model.Polygon
import BezierVerif.Tactics
import Mathlib.Analysis.SpecialFunctions.Integrals.Basic
import Mathlib.Analysis.Calculus.Deriv.Pow
import Mathlib.Analysis.Calculus.Deriv.Add
import Mathlib.Analysis.Calculus.Deriv.Mul

set_option linter.unusedSectionVars false
set_option linter.unusedVariables false
set_option linter.unusedTactic false
set_option linter.unnecessarySeqFocus false

namespace C10
open Gen intervalIntegral

/-! ### a segment's area is ∫ y dx along it (Mathlib interval integral, x' = the derivative segment of C01) -/

private theorem poly6_hasDerivAt (c1 c2 c3 c4 c5 c6 t : ℝ) :
    HasDerivAt (fun s : ℝ => c1 * s ^ 1 + c2 * s ^ 2 + c3 * s ^ 3 + c4 * s ^ 4 + c5 * s ^ 5 + c6 * s ^ 6)
      (c1 + 2 * c2 * t + 3 * c3 * t ^ 2 + 4 * c4 * t ^ 3 + 5 * c5 * t ^ 4 + 6 * c6 * t ^ 5) t := by
  have h := ((((((hasDerivAt_pow 1 t).const_mul c1).add ((hasDerivAt_pow 2 t).const_mul c2)).add
    ((hasDerivAt_pow 3 t).const_mul c3)).add ((hasDerivAt_pow 4 t).const_mul c4)).add
    ((hasDerivAt_pow 5 t).const_mul c5)).add ((hasDerivAt_pow 6 t).const_mul c6)
  refine (h.congr_deriv ?_)
  norm_num; ring

private theorem integral_of_cert (f : ℝ → ℝ) (c1 c2 c3 c4 c5 c6 : ℝ) (hf : Continuous f)
    (h : ∀ t, f t = c1 + 2 * c2 * t + 3 * c3 * t ^ 2 + 4 * c4 * t ^ 3 + 5 * c5 * t ^ 4 + 6 * c6 * t ^ 5) :
    ∫ t in (0:ℝ)..1, f t = c1 + c2 + c3 + c4 + c5 + c6 := by
  rw [integral_eq_sub_of_hasDerivAt (f := fun s : ℝ => c1 * s ^ 1 + c2 * s ^ 2 + c3 * s ^ 3 + c4 * s ^ 4 + c5 * s ^ 5 + c6 * s ^ 6)
    (fun t _ => (poly6_hasDerivAt c1 c2 c3 c4 c5 c6 t).congr_deriv (h t).symm)]
  · norm_num
  · exact hf.intervalIntegrable _ _

theorem line_area_is_integral (p0x p0y p1x p1y : ℝ) :
    ∫ t in (0:ℝ)..1, line_pointAtTime_y p0x p0y p1x p1y t * (p1x - p0x) = line_area_v p0x p0y p1x p1y := by
  rw [integral_of_cert _ (-p0x*p0y + p0y*p1x) (p0x*p0y/2 - p0x*p1y/2 - p0y*p1x/2 + p1x*p1y/2) 0 0 0 0]
  · simp only [gen_def]; ring
  · simp only [gen_def]; fun_prop
  · intro t; simp only [gen_def]; ring

theorem quad_area_is_integral (p0x p0y p1x p1y p2x p2y : ℝ) :
    ∫ t in (0:ℝ)..1, quad_pointAtTime_y p0x p0y p1x p1y p2x p2y t *
        line_pointAtTime_x (quad_derivative_d0x p0x p0y p1x p1y p2x p2y) (quad_derivative_d0y p0x p0y p1x p1y p2x p2y)
          (quad_derivative_d1x p0x p0y p1x p1y p2x p2y) (quad_derivative_d1y p0x p0y p1x p1y p2x p2y) t
      = quad_area_v p0x p0y p1x p1y p2x p2y := by
  rw [integral_of_cert _ (-2*p0x*p0y + 2*p0y*p1x) (3*p0x*p0y - 2*p0x*p1y - 4*p0y*p1x + p0y*p2x + 2*p1x*p1y)
    (-2*p0x*p0y + 8*p0x*p1y/3 - 2*p0x*p2y/3 + 10*p0y*p1x/3 - 4*p0y*p2x/3 - 4*p1x*p1y + 2*p1x*p2y/3 + 4*p1y*p2x/3)
    (p0x*p0y/2 - p0x*p1y + p0x*p2y/2 - p0y*p1x + p0y*p2x/2 + 2*p1x*p1y - p1x*p2y - p1y*p2x + p2x*p2y/2) 0 0]
  · simp only [gen_def]; ring
  · simp only [gen_def]; fun_prop
  · intro t; simp only [gen_def]; ring

theorem cubic_area_is_integral (p0x p0y p1x p1y p2x p2y p3x p3y : ℝ) :
    ∫ t in (0:ℝ)..1, cubic_pointAtTime_y p0x p0y p1x p1y p2x p2y p3x p3y t *
        quad_pointAtTime_x (cubic_derivative_d0x p0x p0y p1x p1y p2x p2y p3x p3y) (cubic_derivative_d0y p0x p0y p1x p1y p2x p2y p3x p3y)
          (cubic_derivative_d1x p0x p0y p1x p1y p2x p2y p3x p3y) (cubic_derivative_d1y p0x p0y p1x p1y p2x p2y p3x p3y)
          (cubic_derivative_d2x p0x p0y p1x p1y p2x p2y p3x p3y) (cubic_derivative_d2y p0x p0y p1x p1y p2x p2y p3x p3y) t
      = cubic_area_v p0x p0y p1x p1y p2x p2y p3x p3y := by
  rw [integral_of_cert _ (-3*p0x*p0y + 3*p0y*p1x)
    (15*p0x*p0y/2 - 9*p0x*p1y/2 - 21*p0y*p1x/2 + 3*p0y*p2x + 9*p1x*p1y/2)
    (-10*p0x*p0y + 12*p0x*p1y - 3*p0x*p2y + 18*p0y*p1x - 9*p0y*p2x + p0y*p3x - 18*p1x*p1y + 3*p1x*p2y + 6*p1y*p2x)
    (15*p0x*p0y/2 - 27*p0x*p1y/2 + 27*p0x*p2y/4 - 3*p0x*p3y/4 - 33*p0y*p1x/2 + 45*p0y*p2x/4 - 9*p0y*p3x/4 + 27*p1x*p1y - 45*p1x*p2y/4 + 3*p1x*p3y/4 - 63*p1y*p2x/4 + 9*p1y*p3x/4 + 9*p2x*p2y/2)
    (-3*p0x*p0y + 36*p0x*p1y/5 - 27*p0x*p2y/5 + 6*p0x*p3y/5 + 39*p0y*p1x/5 - 33*p0y*p2x/5 + 9*p0y*p3x/5 - 18*p1x*p1y + 63*p1x*p2y/5 - 12*p1x*p3y/5 + 72*p1y*p2x/5 - 18*p1y*p3x/5 - 9*p2x*p2y + 6*p2x*p3y/5 + 9*p2y*p3x/5)
    (p0x*p0y/2 - 3*p0x*p1y/2 + 3*p0x*p2y/2 - p0x*p3y/2 - 3*p0y*p1x/2 + 3*p0y*p2x/2 - p0y*p3x/2 + 9*p1x*p1y/2 - 9*p1x*p2y/2 + 3*p1x*p3y/2 - 9*p1y*p2x/2 + 3*p1y*p3x/2 + 9*p2x*p2y/2 - 3*p2x*p3y/2 - 3*p2y*p3x/2 + p3x*p3y/2)]
  · simp only [gen_def]; ring
  · simp only [gen_def]; fun_prop
  · intro t; simp only [gen_def]; ring

/-! ### additive under splitting, negated by reversal, preserved by degree elevation (any ordered field) -/

section algebra
variable {K : Type} [Field K] [LinearOrder K] [IsStrictOrderedRing K]
variable (p0x p0y p1x p1y p2x p2y p3x p3y t : K)

theorem line_area_split :
    line_area_v (line_splitAtTime_l0x p0x p0y p1x p1y t) (line_splitAtTime_l0y p0x p0y p1x p1y t)
        (line_splitAtTime_l1x p0x p0y p1x p1y t) (line_splitAtTime_l1y p0x p0y p1x p1y t)
      + line_area_v (line_splitAtTime_r0x p0x p0y p1x p1y t) (line_splitAtTime_r0y p0x p0y p1x p1y t)
        (line_splitAtTime_r1x p0x p0y p1x p1y t) (line_splitAtTime_r1y p0x p0y p1x p1y t)
      = line_area_v p0x p0y p1x p1y := by gen_ring

theorem quad_area_split :
    quad_area_v (quad_splitAtTime_l0x p0x p0y p1x p1y p2x p2y t) (quad_splitAtTime_l0y p0x p0y p1x p1y p2x p2y t)
        (quad_splitAtTime_l1x p0x p0y p1x p1y p2x p2y t) (quad_splitAtTime_l1y p0x p0y p1x p1y p2x p2y t)
        (quad_splitAtTime_l2x p0x p0y p1x p1y p2x p2y t) (quad_splitAtTime_l2y p0x p0y p1x p1y p2x p2y t)
      + quad_area_v (quad_splitAtTime_r0x p0x p0y p1x p1y p2x p2y t) (quad_splitAtTime_r0y p0x p0y p1x p1y p2x p2y t)
        (quad_splitAtTime_r1x p0x p0y p1x p1y p2x p2y t) (quad_splitAtTime_r1y p0x p0y p1x p1y p2x p2y t)
        (quad_splitAtTime_r2x p0x p0y p1x p1y p2x p2y t) (quad_splitAtTime_r2y p0x p0y p1x p1y p2x p2y t)
      = quad_area_v p0x p0y p1x p1y p2x p2y := by gen_ring

theorem cubic_area_split :
    cubic_area_v (cubic_splitAtTime_l0x p0x p0y p1x p1y p2x p2y p3x p3y t) (cubic_splitAtTime_l0y p0x p0y p1x p1y p2x p2y p3x p3y t)
        (cubic_splitAtTime_l1x p0x p0y p1x p1y p2x p2y p3x p3y t) (cubic_splitAtTime_l1y p0x p0y p1x p1y p2x p2y p3x p3y t)
        (cubic_splitAtTime_l2x p0x p0y p1x p1y p2x p2y p3x p3y t) (cubic_splitAtTime_l2y p0x p0y p1x p1y p2x p2y p3x p3y t)
        (cubic_splitAtTime_l3x p0x p0y p1x p1y p2x p2y p3x p3y t) (cubic_splitAtTime_l3y p0x p0y p1x p1y p2x p2y p3x p3y t)
      + cubic_area_v (cubic_splitAtTime_r0x p0x p0y p1x p1y p2x p2y p3x p3y t) (cubic_splitAtTime_r0y p0x p0y p1x p1y p2x p2y p3x p3y t)
        (cubic_splitAtTime_r1x p0x p0y p1x p1y p2x p2y p3x p3y t) (cubic_splitAtTime_r1y p0x p0y p1x p1y p2x p2y p3x p3y t)
        (cubic_splitAtTime_r2x p0x p0y p1x p1y p2x p2y p3x p3y t) (cubic_splitAtTime_r2y p0x p0y p1x p1y p2x p2y p3x p3y t)
        (cubic_splitAtTime_r3x p0x p0y p1x p1y p2x p2y p3x p3y t) (cubic_splitAtTime_r3y p0x p0y p1x p1y p2x p2y p3x p3y t)
      = cubic_area_v p0x p0y p1x p1y p2x p2y p3x p3y := by gen_ring

theorem line_area_reversed :
    line_area_v (line_reversed_q0x p0x p0y p1x p1y) (line_reversed_q0y p0x p0y p1x p1y)
      (line_reversed_q1x p0x p0y p1x p1y) (line_reversed_q1y p0x p0y p1x p1y) = - line_area_v p0x p0y p1x p1y := by gen_ring
theorem quad_area_reversed :
    quad_area_v (quad_reversed_q0x p0x p0y p1x p1y p2x p2y) (quad_reversed_q0y p0x p0y p1x p1y p2x p2y)
      (quad_reversed_q1x p0x p0y p1x p1y p2x p2y) (quad_reversed_q1y p0x p0y p1x p1y p2x p2y)
      (quad_reversed_q2x p0x p0y p1x p1y p2x p2y) (quad_reversed_q2y p0x p0y p1x p1y p2x p2y)
      = - quad_area_v p0x p0y p1x p1y p2x p2y := by gen_ring
theorem cubic_area_reversed :
    cubic_area_v (cubic_reversed_q0x p0x p0y p1x p1y p2x p2y p3x p3y) (cubic_reversed_q0y p0x p0y p1x p1y p2x p2y p3x p3y)
      (cubic_reversed_q1x p0x p0y p1x p1y p2x p2y p3x p3y) (cubic_reversed_q1y p0x p0y p1x p1y p2x p2y p3x p3y)
      (cubic_reversed_q2x p0x p0y p1x p1y p2x p2y p3x p3y) (cubic_reversed_q2y p0x p0y p1x p1y p2x p2y p3x p3y)
      (cubic_reversed_q3x p0x p0y p1x p1y p2x p2y p3x p3y) (cubic_reversed_q3y p0x p0y p1x p1y p2x p2y p3x p3y)
      = - cubic_area_v p0x p0y p1x p1y p2x p2y p3x p3y := by gen_ring

/-- reversal really reverses the control polygon -/
theorem reversed_is_reverse :
    cubic_reversed p0x p0y p1x p1y p2x p2y p3x p3y = [p3x, p3y, p2x, p2y, p1x, p1y, p0x, p0y] ∧
    quad_reversed p0x p0y p1x p1y p2x p2y = [p2x, p2y, p1x, p1y, p0x, p0y] ∧
    line_reversed p0x p0y p1x p1y = [p1x, p1y, p0x, p0y] := by
  simp [gen_def]

/-- a line and its quadratic degree elevation (control point at the midpoint) have the same area -/
theorem line_quad_elevation :
    quad_area_v p0x p0y ((p0x + p1x) / 2) ((p0y + p1y) / 2) p1x p1y = line_area_v p0x p0y p1x p1y := by gen_ring

/-- a quadratic and its cubic elevation `toCubicBezier` (1/3.0, 2/3.0 idealised to 1/3, 2/3) have the same area -/
theorem quad_cubic_elevation :
    cubic_area_v (quad_toCubicBezier_c0x p0x p0y p1x p1y p2x p2y) (quad_toCubicBezier_c0y p0x p0y p1x p1y p2x p2y)
      (quad_toCubicBezier_c1x p0x p0y p1x p1y p2x p2y) (quad_toCubicBezier_c1y p0x p0y p1x p1y p2x p2y)
      (quad_toCubicBezier_c2x p0x p0y p1x p1y p2x p2y) (quad_toCubicBezier_c2y p0x p0y p1x p1y p2x p2y)
      (quad_toCubicBezier_c3x p0x p0y p1x p1y p2x p2y) (quad_toCubicBezier_c3y p0x p0y p1x p1y p2x p2y)
      = quad_area_v p0x p0y p1x p1y p2x p2y := by gen_ring

/-- ... and trace the same curve -/
theorem quad_cubic_elevation_same_curve :
    cubic_pointAtTime (quad_toCubicBezier_c0x p0x p0y p1x p1y p2x p2y) (quad_toCubicBezier_c0y p0x p0y p1x p1y p2x p2y)
      (quad_toCubicBezier_c1x p0x p0y p1x p1y p2x p2y) (quad_toCubicBezier_c1y p0x p0y p1x p1y p2x p2y)
      (quad_toCubicBezier_c2x p0x p0y p1x p1y p2x p2y) (quad_toCubicBezier_c2y p0x p0y p1x p1y p2x p2y)
      (quad_toCubicBezier_c3x p0x p0y p1x p1y p2x p2y) (quad_toCubicBezier_c3y p0x p0y p1x p1y p2x p2y) t
      = quad_pointAtTime p0x p0y p1x p1y p2x p2y t := by gen_ring

/-- the summand of the shoelace loop and the area of the same edge telescope -/
theorem shoelace_edge (sx sy ex ey : K) :
    (sx * ey - sy * ex) / 2 + line_area_v sx sy ex ey = (ex * ey - sx * sy) / 2 := by gen_ring
end algebra

/-! ### closed polygons (hand model of `signed_area` on a flattened path) -/

section polygon
open Polygon
variable {K : Type} [Field K] [LinearOrder K] [IsStrictOrderedRing K]

/-- Σ of the code's `Line.area` over the edges -/
def lineAreas (es : List (Edge K)) : K := (es.map fun e => line_area_v e.sx e.sy e.ex e.ey).sum

theorem chain_telescope (es : List (Edge K)) (a : K × K) (h : ChainFrom a es) :
    shoelace2 es / 2 + lineAreas es = ((endOf a es).1 * (endOf a es).2 - a.1 * a.2) / 2 := by
  induction es generalizing a with
  | nil => simp [shoelace2, lineAreas, endOf]
  | cons e es ih =>
    obtain ⟨h1, h2⟩ := h
    have := ih (e.ex, e.ey) h2
    simp only [shoelace2, lineAreas, List.map_cons, List.sum_cons, endOf] at this ⊢
    have he := shoelace_edge e.sx e.sy e.ex e.ey
    rw [← h1] at *
    simp only [shoelace2, lineAreas] at *
    linear_combination this + he

/-- **Green's theorem for polygons**: for a closed connected chain of straight edges, the shoelace
    value computed by `signed_area` equals minus the sum of the edges' `area`s. -/
theorem shoelace_eq_neg_sum_line_areas (es : List (Edge K)) (a : K × K) (h : ChainFrom a es)
    (hc : endOf a es = a) : signedArea es = - lineAreas es := by
  have := chain_telescope es a h
  rw [hc] at this
  simp only [signedArea]
  linear_combination this

theorem signedArea_scale (es : List (Edge K)) (k : K) :
    signedArea (es.map (Edge.scale k)) = k * k * signedArea es := by
  induction es with
  | nil => simp [signedArea, shoelace2]
  | cons e es ih =>
    simp only [signedArea, shoelace2, List.map_cons, List.sum_cons, Edge.scale] at ih ⊢
    linear_combination ih

theorem signedArea_translate (es : List (Edge K)) (a : K × K) (vx vy : K) (h : ChainFrom a es) (hc : endOf a es = a) :
    signedArea (es.map (Edge.translate vx vy)) = signedArea es := by
  have key : ∀ (es : List (Edge K)) (a : K × K), ChainFrom a es →
      shoelace2 (es.map (Edge.translate vx vy)) = shoelace2 es + vx * ((endOf a es).2 - a.2) - vy * ((endOf a es).1 - a.1) := by
    intro es
    induction es with
    | nil => intro a _; simp [shoelace2, endOf]
    | cons e es ih =>
      intro a ⟨h1, h2⟩
      have := ih (e.ex, e.ey) h2
      simp only [shoelace2, List.map_cons, List.sum_cons, Edge.translate, endOf] at this ⊢
      rw [← h1]
      simp only at *
      linear_combination this
  have := key es a h
  rw [hc] at this
  simp only [signedArea, this]; ring

/-- **the repaired `signed_area` (measured from the path's first point) is the shoelace area for every closed chain** — so every
    theorem about `signedArea` holds for what the code computes -/
theorem signedAreaFrom_eq (e : Edge K) (es : List (Edge K)) (h : ChainFrom (e.sx, e.sy) (e :: es)) (hc : endOf (e.sx, e.sy) (e :: es) = (e.sx, e.sy)) :
    signedAreaFrom (e :: es) = signedArea (e :: es) := by
  simp only [signedAreaFrom]
  exact signedArea_translate (e :: es) (e.sx, e.sy) (-e.sx) (-e.sy) h hc

theorem signedArea_reverse (es : List (Edge K)) :
    signedArea ((es.map Edge.rev).reverse) = - signedArea es := by
  simp only [signedArea, shoelace2, List.map_reverse, List.sum_reverse, List.map_map]
  have : ∀ es : List (Edge K), (es.map ((fun e => e.sx * e.ey - e.sy * e.ex) ∘ Edge.rev)).sum
      = - (es.map (fun e => e.sx * e.ey - e.sy * e.ex)).sum := by
    intro es
    induction es with
    | nil => simp
    | cons e es ih => simp only [List.map_cons, List.sum_cons, ih, Function.comp, Edge.rev]; ring
  rw [this]; ring

theorem area_abs_direction_sign (es : List (Edge K)) :
    Polygon.area es = |signedArea es| ∧ (0 < signedArea es → direction es = 1) ∧ (signedArea es < 0 → direction es = -1) := by
  refine ⟨rfl, ?_, ?_⟩ <;> intro h <;> simp [direction, h, not_lt.mpr (le_of_lt h)]

/-- `Rectangle(w, h, origin)` as the code builds it: a closed clockwise chain of four lines of area w·h -/
theorem rectangle_area (w h ox oy : K) :
    let es := rectangle w h ox oy
    ChainFrom (ox - w / 2, oy + h / 2) es ∧ endOf (ox - w / 2, oy + h / 2) es = (ox - w / 2, oy + h / 2) ∧
    signedArea es = - (w * h) := by
  simp only [rectangle, ChainFrom, endOf, signedArea, shoelace2, List.map_cons, List.map_nil, List.sum_cons, List.sum_nil]
  refine ⟨by simp, by simp, by ring⟩

example : signedArea (rectangle (4 : ℚ) 2 0 0) = -8 := by
  simp [rectangle, signedArea, shoelace2]; norm_num
end polygon

end C10
