/-
  C01 — evaluation and subdivision reproduce the Bezier polynomial exactly.
  Theorems about the definitions in Gen/Eval.lean, which are regenerated from
  line.py / quadraticbezier.py / cubicbezier.py / point.py on every run.
-/
import BezierVerif.Gen.Eval
import BezierVerif.Model.Spec
import Mathlib.Tactic.Ring
import Mathlib.Analysis.Calculus.Deriv.Polynomial

set_option linter.unusedSectionVars false
set_option linter.unusedVariables false

namespace C01
open Gen Spec
variable {K : Type} [Field K] [LinearOrder K] [IsStrictOrderedRing K]

/-! ### evaluation = Bernstein polynomial of the control points -/

theorem lerp_spec_x (px py qx qy t : K) : point_lerp_x px py qx qy t = (1 - t) * px + t * qx := by
  simp only [point_lerp_x]; ring
theorem lerp_spec_y (px py qx qy t : K) : point_lerp_y px py qx qy t = (1 - t) * py + t * qy := by
  simp only [point_lerp_y]; ring

theorem line_eval_bern_x (p0x p0y p1x p1y t : K) :
    line_pointAtTime_x p0x p0y p1x p1y t = bern 1 [p0x, p1x] t := by
  simp [line_pointAtTime_x, bern, coeff, Finset.sum_range_succ]; ring
theorem line_eval_bern_y (p0x p0y p1x p1y t : K) :
    line_pointAtTime_y p0x p0y p1x p1y t = bern 1 [p0y, p1y] t := by
  simp [line_pointAtTime_y, bern, coeff, Finset.sum_range_succ]; ring

theorem quad_eval_bern_x (p0x p0y p1x p1y p2x p2y t : K) :
    quad_pointAtTime_x p0x p0y p1x p1y p2x p2y t = bern 2 [p0x, p1x, p2x] t := by
  simp [quad_pointAtTime_x, bern, coeff, Finset.sum_range_succ, Nat.choose]; ring
theorem quad_eval_bern_y (p0x p0y p1x p1y p2x p2y t : K) :
    quad_pointAtTime_y p0x p0y p1x p1y p2x p2y t = bern 2 [p0y, p1y, p2y] t := by
  simp [quad_pointAtTime_y, bern, coeff, Finset.sum_range_succ, Nat.choose]; ring

theorem cubic_eval_bern_x (p0x p0y p1x p1y p2x p2y p3x p3y t : K) :
    cubic_pointAtTime_x p0x p0y p1x p1y p2x p2y p3x p3y t = bern 3 [p0x, p1x, p2x, p3x] t := by
  simp [cubic_pointAtTime_x, bern, coeff, Finset.sum_range_succ, Nat.choose]; ring
theorem cubic_eval_bern_y (p0x p0y p1x p1y p2x p2y p3x p3y t : K) :
    cubic_pointAtTime_y p0x p0y p1x p1y p2x p2y p3x p3y t = bern 3 [p0y, p1y, p2y, p3y] t := by
  simp [cubic_pointAtTime_y, bern, coeff, Finset.sum_range_succ, Nat.choose]; ring

/-! ### the start at t = 0, the end at t = 1 -/

theorem line_eval_ends (p0x p0y p1x p1y : K) :
    line_pointAtTime p0x p0y p1x p1y 0 = [p0x, p0y] ∧ line_pointAtTime p0x p0y p1x p1y 1 = [p1x, p1y] := by
  simp [line_pointAtTime, line_pointAtTime_x, line_pointAtTime_y]
theorem quad_eval_ends (p0x p0y p1x p1y p2x p2y : K) :
    quad_pointAtTime p0x p0y p1x p1y p2x p2y 0 = [p0x, p0y] ∧
    quad_pointAtTime p0x p0y p1x p1y p2x p2y 1 = [p2x, p2y] := by
  simp [quad_pointAtTime, quad_pointAtTime_x, quad_pointAtTime_y]
theorem cubic_eval_ends (p0x p0y p1x p1y p2x p2y p3x p3y : K) :
    cubic_pointAtTime p0x p0y p1x p1y p2x p2y p3x p3y 0 = [p0x, p0y] ∧
    cubic_pointAtTime p0x p0y p1x p1y p2x p2y p3x p3y 1 = [p3x, p3y] := by
  simp [cubic_pointAtTime, cubic_pointAtTime_x, cubic_pointAtTime_y]

/-! ### splitting: two pieces of the same kind that retrace the original -/

theorem split_shapes :
    shape_line_splitAtTime = "(Line,Line)" ∧ shape_quad_splitAtTime = "(QuadraticBezier,QuadraticBezier)" ∧
    shape_cubic_splitAtTime = "(CubicBezier,CubicBezier)" ∧
    shape_quad_derivative = "Line" ∧ shape_cubic_derivative = "QuadraticBezier" := by
  decide

section line
variable (p0x p0y p1x p1y t s : K)
local notation "L" f => f p0x p0y p1x p1y t
theorem line_split_left :
    line_pointAtTime (L line_splitAtTime_l0x) (L line_splitAtTime_l0y) (L line_splitAtTime_l1x) (L line_splitAtTime_l1y) s
      = line_pointAtTime p0x p0y p1x p1y (s * t) := by
  simp only [line_pointAtTime, line_pointAtTime_x, line_pointAtTime_y, line_splitAtTime_l0x, line_splitAtTime_l0y,
    line_splitAtTime_l1x, line_splitAtTime_l1y]
  congr 1 <;> [ring; (congr 1; ring)]
theorem line_split_right :
    line_pointAtTime (L line_splitAtTime_r0x) (L line_splitAtTime_r0y) (L line_splitAtTime_r1x) (L line_splitAtTime_r1y) s
      = line_pointAtTime p0x p0y p1x p1y (t + s * (1 - t)) := by
  simp only [line_pointAtTime, line_pointAtTime_x, line_pointAtTime_y, line_splitAtTime_r0x, line_splitAtTime_r0y,
    line_splitAtTime_r1x, line_splitAtTime_r1y]
  congr 1 <;> [ring; (congr 1; ring)]
theorem line_split_meet :
    [L line_splitAtTime_l1x, L line_splitAtTime_l1y] = line_pointAtTime p0x p0y p1x p1y t ∧
    [L line_splitAtTime_r0x, L line_splitAtTime_r0y] = line_pointAtTime p0x p0y p1x p1y t ∧
    [L line_splitAtTime_l0x, L line_splitAtTime_l0y] = [p0x, p0y] ∧
    [L line_splitAtTime_r1x, L line_splitAtTime_r1y] = [p1x, p1y] := by
  simp only [line_pointAtTime, line_pointAtTime_x, line_pointAtTime_y, line_splitAtTime_l0x, line_splitAtTime_l0y,
    line_splitAtTime_l1x, line_splitAtTime_l1y, line_splitAtTime_r0x, line_splitAtTime_r0y,
    line_splitAtTime_r1x, line_splitAtTime_r1y]
  simp
end line

section quad
variable (p0x p0y p1x p1y p2x p2y t s : K)
local notation "Q" f => f p0x p0y p1x p1y p2x p2y t
theorem quad_split_left :
    quad_pointAtTime (Q quad_splitAtTime_l0x) (Q quad_splitAtTime_l0y) (Q quad_splitAtTime_l1x) (Q quad_splitAtTime_l1y)
      (Q quad_splitAtTime_l2x) (Q quad_splitAtTime_l2y) s
      = quad_pointAtTime p0x p0y p1x p1y p2x p2y (s * t) := by
  simp only [quad_pointAtTime, quad_pointAtTime_x, quad_pointAtTime_y, quad_splitAtTime_l0x, quad_splitAtTime_l0y,
    quad_splitAtTime_l1x, quad_splitAtTime_l1y, quad_splitAtTime_l2x, quad_splitAtTime_l2y]
  congr 1 <;> [ring; (congr 1; ring)]
theorem quad_split_right :
    quad_pointAtTime (Q quad_splitAtTime_r0x) (Q quad_splitAtTime_r0y) (Q quad_splitAtTime_r1x) (Q quad_splitAtTime_r1y)
      (Q quad_splitAtTime_r2x) (Q quad_splitAtTime_r2y) s
      = quad_pointAtTime p0x p0y p1x p1y p2x p2y (t + s * (1 - t)) := by
  simp only [quad_pointAtTime, quad_pointAtTime_x, quad_pointAtTime_y, quad_splitAtTime_r0x, quad_splitAtTime_r0y,
    quad_splitAtTime_r1x, quad_splitAtTime_r1y, quad_splitAtTime_r2x, quad_splitAtTime_r2y]
  congr 1 <;> [ring; (congr 1; ring)]
theorem quad_split_meet :
    [Q quad_splitAtTime_l2x, Q quad_splitAtTime_l2y] = quad_pointAtTime p0x p0y p1x p1y p2x p2y t ∧
    [Q quad_splitAtTime_r0x, Q quad_splitAtTime_r0y] = quad_pointAtTime p0x p0y p1x p1y p2x p2y t ∧
    [Q quad_splitAtTime_l0x, Q quad_splitAtTime_l0y] = [p0x, p0y] ∧
    [Q quad_splitAtTime_r2x, Q quad_splitAtTime_r2y] = [p2x, p2y] := by
  simp only [quad_pointAtTime, quad_pointAtTime_x, quad_pointAtTime_y, quad_splitAtTime_l0x, quad_splitAtTime_l0y,
    quad_splitAtTime_l2x, quad_splitAtTime_l2y, quad_splitAtTime_r0x, quad_splitAtTime_r0y,
    quad_splitAtTime_r2x, quad_splitAtTime_r2y]
  refine ⟨?_, ?_, by simp, by simp⟩ <;> (congr 1 <;> [ring; (congr 1; ring)])
end quad

section cubic
variable (p0x p0y p1x p1y p2x p2y p3x p3y t s : K)
local notation "C" f => f p0x p0y p1x p1y p2x p2y p3x p3y t
theorem cubic_split_left :
    cubic_pointAtTime (C cubic_splitAtTime_l0x) (C cubic_splitAtTime_l0y) (C cubic_splitAtTime_l1x) (C cubic_splitAtTime_l1y)
      (C cubic_splitAtTime_l2x) (C cubic_splitAtTime_l2y) (C cubic_splitAtTime_l3x) (C cubic_splitAtTime_l3y) s
      = cubic_pointAtTime p0x p0y p1x p1y p2x p2y p3x p3y (s * t) := by
  simp only [cubic_pointAtTime, cubic_pointAtTime_x, cubic_pointAtTime_y, cubic_splitAtTime_l0x, cubic_splitAtTime_l0y,
    cubic_splitAtTime_l1x, cubic_splitAtTime_l1y, cubic_splitAtTime_l2x, cubic_splitAtTime_l2y,
    cubic_splitAtTime_l3x, cubic_splitAtTime_l3y]
  congr 1 <;> [ring; (congr 1; ring)]
theorem cubic_split_right :
    cubic_pointAtTime (C cubic_splitAtTime_r0x) (C cubic_splitAtTime_r0y) (C cubic_splitAtTime_r1x) (C cubic_splitAtTime_r1y)
      (C cubic_splitAtTime_r2x) (C cubic_splitAtTime_r2y) (C cubic_splitAtTime_r3x) (C cubic_splitAtTime_r3y) s
      = cubic_pointAtTime p0x p0y p1x p1y p2x p2y p3x p3y (t + s * (1 - t)) := by
  simp only [cubic_pointAtTime, cubic_pointAtTime_x, cubic_pointAtTime_y, cubic_splitAtTime_r0x, cubic_splitAtTime_r0y,
    cubic_splitAtTime_r1x, cubic_splitAtTime_r1y, cubic_splitAtTime_r2x, cubic_splitAtTime_r2y,
    cubic_splitAtTime_r3x, cubic_splitAtTime_r3y]
  congr 1 <;> [ring; (congr 1; ring)]
theorem cubic_split_meet :
    [C cubic_splitAtTime_l3x, C cubic_splitAtTime_l3y] = cubic_pointAtTime p0x p0y p1x p1y p2x p2y p3x p3y t ∧
    [C cubic_splitAtTime_r0x, C cubic_splitAtTime_r0y] = cubic_pointAtTime p0x p0y p1x p1y p2x p2y p3x p3y t ∧
    [C cubic_splitAtTime_l0x, C cubic_splitAtTime_l0y] = [p0x, p0y] ∧
    [C cubic_splitAtTime_r3x, C cubic_splitAtTime_r3y] = [p3x, p3y] := by
  simp only [cubic_pointAtTime, cubic_pointAtTime_x, cubic_pointAtTime_y, cubic_splitAtTime_l0x, cubic_splitAtTime_l0y,
    cubic_splitAtTime_l3x, cubic_splitAtTime_l3y, cubic_splitAtTime_r0x, cubic_splitAtTime_r0y,
    cubic_splitAtTime_r3x, cubic_splitAtTime_r3y]
  refine ⟨?_, ?_, by simp, by simp⟩ <;> (congr 1 <;> [ring; (congr 1; ring)])
end cubic

/-! ### the derivative segment is the exact parametric derivative (over ℝ, Mathlib's `HasDerivAt`) -/

section deriv
open Polynomial

private noncomputable def quadPoly (a b c : ℝ) : ℝ[X] :=
  (1 - X) * (1 - X) * C a + 2 * (1 - X) * X * C b + X * X * C c
private noncomputable def cubPoly (a b c d : ℝ) : ℝ[X] :=
  (1 - X) * (1 - X) * (1 - X) * C a + 3 * (1 - X) * (1 - X) * X * C b + 3 * (1 - X) * X * X * C c + X * X * X * C d

/-- x-coordinate of a quadratic: derivative = x-coordinate of the derivative `Line` at t. -/
theorem quad_deriv_x (p0x p0y p1x p1y p2x p2y t : ℝ) :
    HasDerivAt (fun s => quad_pointAtTime_x p0x p0y p1x p1y p2x p2y s)
      (line_pointAtTime_x (quad_derivative_d0x p0x p0y p1x p1y p2x p2y) (quad_derivative_d0y p0x p0y p1x p1y p2x p2y)
        (quad_derivative_d1x p0x p0y p1x p1y p2x p2y) (quad_derivative_d1y p0x p0y p1x p1y p2x p2y) t) t := by
  have h := (quadPoly p0x p1x p2x).hasDerivAt t
  have e : (fun s => (quadPoly p0x p1x p2x).eval s) = fun s => quad_pointAtTime_x p0x p0y p1x p1y p2x p2y s := by
    funext s; simp [quadPoly, quad_pointAtTime_x]
  rw [e] at h
  exact h.congr_deriv (by simp [quadPoly, derivative_mul, line_pointAtTime_x, quad_derivative_d0x, quad_derivative_d1x]; ring)
theorem quad_deriv_y (p0x p0y p1x p1y p2x p2y t : ℝ) :
    HasDerivAt (fun s => quad_pointAtTime_y p0x p0y p1x p1y p2x p2y s)
      (line_pointAtTime_y (quad_derivative_d0x p0x p0y p1x p1y p2x p2y) (quad_derivative_d0y p0x p0y p1x p1y p2x p2y)
        (quad_derivative_d1x p0x p0y p1x p1y p2x p2y) (quad_derivative_d1y p0x p0y p1x p1y p2x p2y) t) t := by
  have h := (quadPoly p0y p1y p2y).hasDerivAt t
  have e : (fun s => (quadPoly p0y p1y p2y).eval s) = fun s => quad_pointAtTime_y p0x p0y p1x p1y p2x p2y s := by
    funext s; simp [quadPoly, quad_pointAtTime_y]
  rw [e] at h
  exact h.congr_deriv (by simp [quadPoly, derivative_mul, line_pointAtTime_y, quad_derivative_d0y, quad_derivative_d1y]; ring)

section
variable (p0x p0y p1x p1y p2x p2y p3x p3y : ℝ)
local notation "D" f => f p0x p0y p1x p1y p2x p2y p3x p3y
theorem cubic_deriv_x (t : ℝ) :
    HasDerivAt (fun s => cubic_pointAtTime_x p0x p0y p1x p1y p2x p2y p3x p3y s)
      (quad_pointAtTime_x (D cubic_derivative_d0x) (D cubic_derivative_d0y) (D cubic_derivative_d1x)
        (D cubic_derivative_d1y) (D cubic_derivative_d2x) (D cubic_derivative_d2y) t) t := by
  have h := (cubPoly p0x p1x p2x p3x).hasDerivAt t
  have e : (fun s => (cubPoly p0x p1x p2x p3x).eval s) = fun s => cubic_pointAtTime_x p0x p0y p1x p1y p2x p2y p3x p3y s := by
    funext s; simp [cubPoly, cubic_pointAtTime_x]
  rw [e] at h
  exact h.congr_deriv (by simp [cubPoly, derivative_mul, quad_pointAtTime_x, cubic_derivative_d0x, cubic_derivative_d1x, cubic_derivative_d2x]; ring)
theorem cubic_deriv_y (t : ℝ) :
    HasDerivAt (fun s => cubic_pointAtTime_y p0x p0y p1x p1y p2x p2y p3x p3y s)
      (quad_pointAtTime_y (D cubic_derivative_d0x) (D cubic_derivative_d0y) (D cubic_derivative_d1x)
        (D cubic_derivative_d1y) (D cubic_derivative_d2x) (D cubic_derivative_d2y) t) t := by
  have h := (cubPoly p0y p1y p2y p3y).hasDerivAt t
  have e : (fun s => (cubPoly p0y p1y p2y p3y).eval s) = fun s => cubic_pointAtTime_y p0x p0y p1x p1y p2x p2y p3x p3y s := by
    funext s; simp [cubPoly, cubic_pointAtTime_y]
  rw [e] at h
  exact h.congr_deriv (by simp [cubPoly, derivative_mul, quad_pointAtTime_y, cubic_derivative_d0y, cubic_derivative_d1y, cubic_derivative_d2y]; ring)
end
end deriv

/-! ### non-vacuity: a concrete non-degenerate cubic, split at 1/3, evaluated at 1/2 (K = ℚ) -/
example : cubic_pointAtTime (K := ℚ) 0 0 1 2 3 4 5 0 (1/3) = [35/27, 16/9] := by
  simp [cubic_pointAtTime, cubic_pointAtTime_x, cubic_pointAtTime_y]; norm_num

end C01
