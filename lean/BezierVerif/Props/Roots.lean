/-
  The quadratic solver `utils.quadraticRoots` (shared by C02, C03, C05, C15): a theorem about the
  definition regenerated from utils/__init__.py.  Over ℝ with `sqrt := Real.sqrt`:
  the returned list contains exactly the roots in [0,1] of a t² + b t + c that are *simple*
  (a ≠ 0 with positive discriminant, or the linear case a = 0, b ≠ 0).
-/
import BezierVerif.Gen.Roots
import BezierVerif.Tactics
import Mathlib.Analysis.SpecialFunctions.Sqrt
import Mathlib.Tactic.LinearCombination

set_option linter.unusedSectionVars false
set_option linter.unusedVariables false
set_option linter.unusedTactic false
set_option linter.unnecessarySeqFocus false
set_option maxHeartbeats 1000000

namespace Roots
open Gen

section model
variable {K : Type} [Field K] [LinearOrder K] [IsStrictOrderedRing K]

def inUnit (t : K) : List K := if 0 ≤ t ∧ t ≤ 1 then [t] else []
/-- Python's `sorted` on a two-element list -/
def sort2 (x y : K) : List K := if y < x then [y, x] else [x, y]

/-- the two candidate roots q/a and c/q, sorted, filtered to [0,1] -/
def qrBranch (a c q : K) : List K :=
  if q ≠ 0 then (if c / q < q / a then inUnit (c / q) ++ inUnit (q / a) else inUnit (q / a) ++ inUnit (c / q))
  else inUnit (q / a)

/-- readable form of the solver (what the decision tree of the generated definition amounts to) -/
def qrModel (sqrt : K → K) (a b c : K) : List K :=
  if a = 0 then (if b ≠ 0 then inUnit (-c / b) else [])
  else if b * b - 4 * a * c > 0 then
    (if b ≥ 0 then qrBranch a c (-(b + sqrt (b * b - 4 * a * c)) / 2)
     else qrBranch a c (-(b - sqrt (b * b - 4 * a * c)) / 2))
  else []

/-- the generated decision tree equals the readable form (purely propositional) -/
theorem quadraticRoots_eq_model (sqrt : K → K) (a b c : K) :
    quadraticRoots sqrt a b c = qrModel sqrt a b c := by
  simp only [quadraticRoots, qrModel, qrBranch, inUnit, ge_iff_le]
  generalize b * b - 4 * a * c = D
  generalize sqrt D = sd
  generalize -(b + sd) / 2 = qp
  generalize -(b - sd) / 2 = qm
  generalize c / qp = x1
  generalize qp / a = y1
  generalize c / qm = x2
  generalize qm / a = y2
  generalize -c / b = l
  split_ifs <;> simp_all
end model

/-! ### the mathematics, over ℝ -/

theorem mem_inUnit (t x : ℝ) : t ∈ inUnit x ↔ t = x ∧ 0 ≤ x ∧ x ≤ 1 := by
  unfold inUnit; split_ifs with h <;> simp [h] <;> (intro hh; subst hh; tauto)

theorem mem_sort2 (t x y : ℝ) : t ∈ sort2 x y ↔ t = x ∨ t = y := by
  unfold sort2; split_ifs <;> simp [or_comm]

/-- the stable-formula intermediate `q` satisfies q² + b q + a c = 0 and is non-zero -/
theorem q_facts (a b c : ℝ) (hd : b * b - 4 * a * c > 0) :
    let sd := Real.sqrt (b * b - 4 * a * c)
    let q := if b ≥ 0 then -(b + sd) / 2 else -(b - sd) / 2
    q * q + b * q + a * c = 0 ∧ q ≠ 0 := by
  intro sd q
  have hs : sd * sd = b * b - 4 * a * c := Real.mul_self_sqrt (le_of_lt hd)
  have hpos : 0 < sd := Real.sqrt_pos.mpr hd
  by_cases hb : b ≥ 0
  · have hq : q = -(b + sd) / 2 := by simp [q, hb]
    rw [hq]
    constructor
    · linear_combination (1 / 4) * hs
    · intro h; linarith
  · have hq : q = -(b - sd) / 2 := by simp [q, hb]
    rw [hq]
    push Not at hb
    constructor
    · linear_combination (1 / 4) * hs
    · intro h; linarith

theorem mem_qrBranch (a c q t : ℝ) (hq : q ≠ 0) :
    t ∈ qrBranch a c q ↔ (t = q / a ∨ t = c / q) ∧ 0 ≤ t ∧ t ≤ 1 := by
  unfold qrBranch
  simp only [hq, ne_eq, not_false_eq_true, if_true]
  split_ifs <;> simp only [List.mem_append, mem_inUnit] <;> constructor
  all_goals (first
    | (rintro (⟨rfl, h0, h1⟩ | ⟨rfl, h0, h1⟩) <;> simp [h0, h1])
    | (rintro ⟨rfl | rfl, h0, h1⟩ <;> simp [h0, h1]))

/-- **specification of the solver**: membership = being a simple root in [0,1]. -/
theorem quadraticRoots_mem_iff (a b c t : ℝ) :
    t ∈ quadraticRoots Real.sqrt a b c ↔
      (0 ≤ t ∧ t ≤ 1) ∧ a * t * t + b * t + c = 0 ∧ ((a = 0 ∧ b ≠ 0) ∨ (a ≠ 0 ∧ b * b - 4 * a * c > 0)) := by
  rw [quadraticRoots_eq_model]
  unfold qrModel
  by_cases ha : a = 0
  · subst ha
    simp only [if_true]
    by_cases hb : b ≠ 0
    · simp only [hb, if_true, ne_eq, not_false_eq_true, mem_inUnit]
      constructor
      · rintro ⟨rfl, h0, h1⟩
        refine ⟨⟨h0, h1⟩, ?_, Or.inl ⟨trivial, trivial⟩⟩
        field_simp; ring
      · rintro ⟨⟨h0, h1⟩, he, _⟩
        have : t = -c / b := by field_simp; linarith
        subst this; exact ⟨rfl, h0, h1⟩
    · push Not at hb
      subst hb
      simp
  · simp only [ha, if_false]
    by_cases hd : b * b - 4 * a * c > 0
    · simp only [hd, if_true]
      obtain ⟨hq2, hq0⟩ := q_facts a b c hd
      have hbranch : (if b ≥ 0 then qrBranch a c (-(b + Real.sqrt (b * b - 4 * a * c)) / 2)
            else qrBranch a c (-(b - Real.sqrt (b * b - 4 * a * c)) / 2))
          = qrBranch a c (if b ≥ 0 then -(b + Real.sqrt (b * b - 4 * a * c)) / 2 else -(b - Real.sqrt (b * b - 4 * a * c)) / 2) := by
        split_ifs <;> rfl
      rw [hbranch]
      set q := (if b ≥ 0 then -(b + Real.sqrt (b * b - 4 * a * c)) / 2 else -(b - Real.sqrt (b * b - 4 * a * c)) / 2) with hqdef
      rw [mem_qrBranch a c q t hq0]
      have r1 : a * (q / a) * (q / a) + b * (q / a) + c = 0 := by
        field_simp; linear_combination hq2
      have r2 : a * (c / q) * (c / q) + b * (c / q) + c = 0 := by
        field_simp; linear_combination c * hq2
      constructor
      · rintro ⟨hx | hx, h0, h1⟩
        · subst hx; exact ⟨⟨h0, h1⟩, r1, by first | exact Or.inr ⟨ha, hd⟩ | exact Or.inr ⟨ha, trivial⟩⟩
        · subst hx; exact ⟨⟨h0, h1⟩, r2, by first | exact Or.inr ⟨ha, hd⟩ | exact Or.inr ⟨ha, trivial⟩⟩
      · rintro ⟨⟨h0, h1⟩, he, _⟩
        refine ⟨?_, h0, h1⟩
        have hfac : (a * t - q) * (q * t - c) = 0 := by
          linear_combination q * he - t * hq2
        rcases mul_eq_zero.mp hfac with h | h
        · left; rw [eq_div_iff ha]; linarith
        · right; rw [eq_div_iff hq0]; linarith
    · simp only [hd, if_false, List.not_mem_nil, false_iff]
      rintro ⟨_, _, h | h⟩ <;> simp_all

/-- non-vacuity: x² − 3x/2 + 1/2 has the simple roots 1/2 and 1 in [0,1] -/
example : (1 / 2 : ℝ) ∈ quadraticRoots Real.sqrt 1 (-3 / 2) (1 / 2) := by
  rw [quadraticRoots_mem_iff]; norm_num
/-- the linear fall-back: 0·t² − 600 t + 300 has the root 1/2 (the arch of DESIGN §1) -/
example : (1 / 2 : ℝ) ∈ quadraticRoots Real.sqrt 0 (-600) 300 := by
  rw [quadraticRoots_mem_iff]; norm_num

end Roots
