/-
  C06 — curve/curve and self intersections.
  Theorems about the hand model Model/CC.lean, for every environment (evaluation, halving, box, overlap,
  smallness, key); the environment of the real code is `CC.segEnv`.
-/
import BezierVerif.Model.CC
import BezierVerif.Lemmas.SegLemmas
import Mathlib.Tactic.Linarith
import Mathlib.Tactic.Ring
import Mathlib.Tactic.FieldSimp

set_option linter.unusedSectionVars false
set_option linter.unusedVariables false
set_option maxHeartbeats 1000000

namespace C06
open CC

/-! ### the duplicate filter -/

section dedupe
variable {K : Type}

theorem dedupe_sublist (key : K → Int) (l : List (K × K)) (seen : List (Int × Int)) : (dedupe key l seen).Sublist l := by
  induction l generalizing seen with
  | nil => simp [dedupe]
  | cons p l ih =>
    unfold dedupe
    split
    · exact (ih seen).cons p
    · exact (ih _).cons_cons p

theorem dedupe_mem (key : K → Int) (l : List (K × K)) (seen : List (Int × Int)) (p : K × K) (h : p ∈ dedupe key l seen) : p ∈ l :=
  (dedupe_sublist key l seen).subset h

/-- **the first report of every key survives**: every report has a surviving report with the same key — unless its key
    had been seen before -/
theorem dedupe_key_survives (key : K → Int) (l : List (K × K)) (seen : List (Int × Int)) (p : K × K) (hp : p ∈ l)
    (hs : pkey key p ∉ seen) : ∃ p' ∈ dedupe key l seen, pkey key p' = pkey key p := by
  induction l generalizing seen with
  | nil => simp at hp
  | cons q l ih =>
    unfold dedupe
    by_cases hq : pkey key q ∈ seen
    · rw [if_pos hq]
      rcases List.mem_cons.mp hp with rfl | hp'
      · exact absurd hq hs
      · exact ih seen hp' hs
    · rw [if_neg hq]
      by_cases hk : pkey key q = pkey key p
      · exact ⟨q, List.mem_cons_self, hk⟩
      · rcases List.mem_cons.mp hp with rfl | hp'
        · exact absurd rfl hk
        · obtain ⟨p', hp'', hk'⟩ := ih (pkey key q :: seen) hp' (by
            intro hmem
            rcases List.mem_cons.mp hmem with h | h
            · exact hk h.symm
            · exact hs h)
          exact ⟨p', List.mem_cons_of_mem _ hp'', hk'⟩

/-- the surviving reports have pairwise distinct keys, none of them seen before -/
theorem dedupe_keys_fresh (key : K → Int) (l : List (K × K)) (seen : List (Int × Int)) :
    ∀ p ∈ dedupe key l seen, pkey key p ∉ seen := by
  induction l generalizing seen with
  | nil => simp [dedupe]
  | cons q l ih =>
    unfold dedupe
    split
    · exact ih seen
    · rename_i hq
      intro p hp
      rcases List.mem_cons.mp hp with rfl | hp'
      · exact hq
      · exact fun h => ih _ p hp' (List.mem_cons_of_mem _ h)

theorem dedupe_keys_nodup (key : K → Int) (l : List (K × K)) (seen : List (Int × Int)) :
    ((dedupe key l seen).map fun p => pkey key p).Nodup := by
  induction l generalizing seen with
  | nil => simp [dedupe]
  | cons q l ih =>
    unfold dedupe
    split
    · exact ih seen
    · simp only [List.map_cons, List.nodup_cons]
      refine ⟨?_, ih _⟩
      intro hmem
      rw [List.mem_map] at hmem
      obtain ⟨p, hp, hk⟩ := hmem
      exact dedupe_keys_fresh key l (pkey key q :: seen) p hp (by rw [hk]; exact List.mem_cons_self)
end dedupe

/-! ### buckets: reports 0.02 apart never share a two-decimal key -/

section key
variable {K : Type} [Field K] [LinearOrder K] [IsStrictOrderedRing K]

/-- any key that rounds 100·t to a nearest integer: equal keys mean the parameters are at most 0.01 apart -/
theorem key_close (key : K → Int) (hk : ∀ t, |100 * t - (key t : K)| ≤ 1 / 2) (a b : K) (h : key a = key b) :
    |a - b| ≤ 1 / 100 := by
  have ha := hk a
  have hb := hk b
  rw [h] at ha
  rw [abs_le] at *
  constructor <;> linarith [ha.1, ha.2, hb.1, hb.2]

/-- **dedupe keeps far reports apart**: two reports whose first parameters differ by 0.02 or more have different keys -/
theorem key_far (key : K → Int) (hk : ∀ t, |100 * t - (key t : K)| ≤ 1 / 2) (a b : K) (h : 1 / 50 ≤ |a - b|) :
    key a ≠ key b := by
  intro he
  have := key_close key hk a b he
  linarith
end key

/-! ### completeness of the subdivision -/

section complete
variable {K : Type} [Field K] [LinearOrder K] [IsStrictOrderedRing K]
variable {Cv Pt Bx : Type}

/-- what the theorems need of an environment: halving retraces the curve (C01), the box encloses its piece (C02, up to
    its bands: an explicit hypothesis), and two boxes that share a point overlap (C19) -/
structure EnvOK (E : Env K Cv Pt Bx) : Prop where
  split_l : ∀ c s, E.pt (E.split c).1 s = E.pt c (s / 2)
  split_r : ∀ c s, E.pt (E.split c).2 s = E.pt c ((1 + s) / 2)
  encl    : ∀ c s, 0 ≤ s → s ≤ 1 → E.inBox (E.pt c s) (E.box c)
  ov      : ∀ p b1 b2, E.inBox p b1 → E.inBox p b2 → E.overlap b1 b2 = true

/-- parameter `t'` of the whole curve lies within half the current range of the image of local `s` -/
def Near (r : K × K) (s t' : K) : Prop := |t' - (r.1 + s * (r.2 - r.1))| ≤ (r.2 - r.1) / 2

theorem near_mid (r : K × K) (s : K) (h : r.1 ≤ r.2) (h0 : 0 ≤ s) (h1 : s ≤ 1) :
    Near r s ((r.1 + r.2) / 2) := by
  unfold Near
  rw [abs_le]
  constructor <;> nlinarith

theorem near_left (r : K × K) (s t' : K) (h : Near (r.1, (r.1 + r.2) / 2) (2 * s) t') : Near r s t' := by
  unfold Near at *
  simp only at h
  have e : r.1 + 2 * s * ((r.1 + r.2) / 2 - r.1) = r.1 + s * (r.2 - r.1) := by ring
  rw [e] at h
  have : ((r.1 + r.2) / 2 - r.1) / 2 ≤ (r.2 - r.1) / 2 ∨ True := Or.inr trivial
  rw [abs_le] at *
  by_cases hr : r.1 ≤ r.2
  · constructor <;> nlinarith [h.1, h.2]
  · push_neg at hr
    exfalso
    have := h.1; have := h.2
    nlinarith

theorem near_right (r : K × K) (s t' : K) (h : Near ((r.1 + r.2) / 2, r.2) (2 * s - 1) t') : Near r s t' := by
  unfold Near at *
  simp only at h
  have e : (r.1 + r.2) / 2 + (2 * s - 1) * (r.2 - (r.1 + r.2) / 2) = r.1 + s * (r.2 - r.1) := by ring
  rw [e] at h
  rw [abs_le] at *
  by_cases hr : r.1 ≤ r.2
  · constructor <;> nlinarith [h.1, h.2]
  · push_neg at hr
    exfalso
    have := h.1; have := h.2
    nlinarith


/-- **completeness**: if every box encloses its piece, then for every common point a(s) = b(u) of the two pieces, whenever
    the recursion ends, the output contains a report in the same key bucket (of both parameters) as a report (t', u') lying within half a terminal
    range of the true parameters in BOTH coordinates — the duplicate filter at every level included.  (Together with
    `key_close`: the report of a crossing is only ever replaced by a report both of whose parameters are within 0.01.) -/
theorem cc_complete (E : Env K Cv Pt Bx) (hE : EnvOK E) :
    ∀ fuel a ra b rb out s u, ra.1 ≤ ra.2 → rb.1 ≤ rb.2 → 0 ≤ s → s ≤ 1 → 0 ≤ u → u ≤ 1 →
      E.pt a s = E.pt b u → cc E fuel a ra b rb = some out →
      ∃ p ∈ out, ∃ q : K × K, Near ra s q.1 ∧ Near rb u q.2 ∧ pkey E.key p = pkey E.key q := by
  intro fuel
  induction fuel with
  | zero => intro a ra b rb out s u _ _ _ _ _ _ _ h; simp [cc] at h
  | succ fuel ih =>
    intro a ra b rb out s u hra hrb hs0 hs1 hu0 hu1 hpt h
    have hov : E.overlap (E.box a) (E.box b) = true :=
      hE.ov (E.pt a s) _ _ (hE.encl a s hs0 hs1) (by rw [hpt]; exact hE.encl b u hu0 hu1)
    unfold cc at h
    simp only [hov, Bool.not_true, Bool.false_eq_true, if_false] at h
    split at h
    · simp at h; subst h
      exact ⟨_, List.mem_singleton.mpr rfl, _, near_mid ra s hra hs0 hs1, near_mid rb u hrb hu0 hu1, rfl⟩
    · have key : ∀ (x y : Cv) (rx ry : K × K) (s' u' : K), rx.1 ≤ rx.2 → ry.1 ≤ ry.2 →
          0 ≤ s' → s' ≤ 1 → 0 ≤ u' → u' ≤ 1 → E.pt x s' = E.pt y u' →
          ∀ r, (if E.overlap (E.box x) (E.box y) then cc E fuel x rx y ry else some []) = some r →
          ∃ p ∈ r, ∃ q : K × K, Near rx s' q.1 ∧ Near ry u' q.2 ∧ pkey E.key p = pkey E.key q := by
        intro x y rx ry s' u' h1 h2 h3 h4 h5 h6 h7 r hr
        have hov' : E.overlap (E.box x) (E.box y) = true :=
          hE.ov (E.pt x s') _ _ (hE.encl x s' h3 h4) (by rw [h7]; exact hE.encl y u' h5 h6)
        rw [if_pos hov'] at hr
        exact ih x rx y ry r s' u' h1 h2 h3 h4 h5 h6 h7 hr
      generalize h11 : (if E.overlap (E.box (E.split a).1) (E.box (E.split b).1) then
          cc E fuel (E.split a).1 (ra.1, (ra.1 + ra.2) / 2) (E.split b).1 (rb.1, (rb.1 + rb.2) / 2) else some []) = o11 at h
      generalize h12 : (if E.overlap (E.box (E.split a).1) (E.box (E.split b).2) then
          cc E fuel (E.split a).1 (ra.1, (ra.1 + ra.2) / 2) (E.split b).2 ((rb.1 + rb.2) / 2, rb.2) else some []) = o12 at h
      generalize h21 : (if E.overlap (E.box (E.split a).2) (E.box (E.split b).1) then
          cc E fuel (E.split a).2 ((ra.1 + ra.2) / 2, ra.2) (E.split b).1 (rb.1, (rb.1 + rb.2) / 2) else some []) = o21 at h
      generalize h22 : (if E.overlap (E.box (E.split a).2) (E.box (E.split b).2) then
          cc E fuel (E.split a).2 ((ra.1 + ra.2) / 2, ra.2) (E.split b).2 ((rb.1 + rb.2) / 2, rb.2) else some []) = o22 at h
      cases o11 with
      | none => simp [bind, Option.bind] at h
      | some r11 =>
      cases o12 with
      | none => simp [bind, Option.bind] at h
      | some r12 =>
      cases o21 with
      | none => simp [bind, Option.bind] at h
      | some r21 =>
      cases o22 with
      | none => simp [bind, Option.bind] at h
      | some r22 =>
      simp only [bind, Option.bind, pure, Option.some.injEq] at h
      subst h
      -- a report found in one of the four sub-results survives the filter up to its key
      have lift : ∀ (p : K × K), p ∈ r11 ++ r12 ++ r21 ++ r22 → ∀ q : K × K, pkey E.key p = pkey E.key q →
          ∃ p' ∈ dedupe E.key (r11 ++ r12 ++ r21 ++ r22) [], pkey E.key p' = pkey E.key q := by
        intro p hp q hk
        obtain ⟨p', hp', hk'⟩ := dedupe_key_survives E.key _ [] p hp (by simp)
        exact ⟨p', hp', hk'.trans hk⟩
      have hma : ra.1 ≤ (ra.1 + ra.2) / 2 ∧ (ra.1 + ra.2) / 2 ≤ ra.2 := by constructor <;> linarith
      have hmb : rb.1 ≤ (rb.1 + rb.2) / 2 ∧ (rb.1 + rb.2) / 2 ≤ rb.2 := by constructor <;> linarith
      rcases le_total s (1 / 2) with hsl | hsr <;> rcases le_total u (1 / 2) with hul | hur
      · obtain ⟨p, hp, q, n1, n2, hk⟩ := key _ _ (ra.1, (ra.1 + ra.2) / 2) (rb.1, (rb.1 + rb.2) / 2) (2 * s) (2 * u)
          hma.1 hmb.1 (by linarith) (by linarith) (by linarith) (by linarith)
          (by rw [hE.split_l, hE.split_l]; simpa using hpt) r11 h11
        obtain ⟨p', hp', hk'⟩ := lift p (by simp [hp]) q hk
        exact ⟨p', hp', q, near_left ra s q.1 n1, near_left rb u q.2 n2, hk'⟩
      · obtain ⟨p, hp, q, n1, n2, hk⟩ := key _ _ (ra.1, (ra.1 + ra.2) / 2) ((rb.1 + rb.2) / 2, rb.2) (2 * s) (2 * u - 1)
          hma.1 hmb.2 (by linarith) (by linarith) (by linarith) (by linarith)
          (by rw [hE.split_l, hE.split_r]; have : (1 + (2 * u - 1)) / 2 = u := by ring
              rw [this]; simpa using hpt) r12 h12
        obtain ⟨p', hp', hk'⟩ := lift p (by simp [hp]) q hk
        exact ⟨p', hp', q, near_left ra s q.1 n1, near_right rb u q.2 n2, hk'⟩
      · obtain ⟨p, hp, q, n1, n2, hk⟩ := key _ _ ((ra.1 + ra.2) / 2, ra.2) (rb.1, (rb.1 + rb.2) / 2) (2 * s - 1) (2 * u)
          hma.2 hmb.1 (by linarith) (by linarith) (by linarith) (by linarith)
          (by rw [hE.split_r, hE.split_l]; have : (1 + (2 * s - 1)) / 2 = s := by ring
              rw [this]; simpa using hpt) r21 h21
        obtain ⟨p', hp', hk'⟩ := lift p (by simp [hp]) q hk
        exact ⟨p', hp', q, near_right ra s q.1 n1, near_left rb u q.2 n2, hk'⟩
      · obtain ⟨p, hp, q, n1, n2, hk⟩ := key _ _ ((ra.1 + ra.2) / 2, ra.2) ((rb.1 + rb.2) / 2, rb.2) (2 * s - 1) (2 * u - 1)
          hma.2 hmb.2 (by linarith) (by linarith) (by linarith) (by linarith)
          (by rw [hE.split_r, hE.split_r]
              have e1 : (1 + (2 * s - 1)) / 2 = s := by ring
              have e2 : (1 + (2 * u - 1)) / 2 = u := by ring
              rw [e1, e2]; exact hpt) r22 h22
        obtain ⟨p', hp', hk'⟩ := lift p (by simp [hp]) q hk
        exact ⟨p', hp', q, near_right ra s q.1 n1, near_right rb u q.2 n2, hk'⟩

/-- **reported parameters lie in the ranges**: every report is a pair of midpoints of sub-ranges -/
theorem cc_in_range (E : Env K Cv Pt Bx) :
    ∀ fuel a ra b rb out, ra.1 ≤ ra.2 → rb.1 ≤ rb.2 → cc E fuel a ra b rb = some out →
      ∀ p ∈ out, (ra.1 ≤ p.1 ∧ p.1 ≤ ra.2) ∧ (rb.1 ≤ p.2 ∧ p.2 ≤ rb.2) := by
  intro fuel
  induction fuel with
  | zero => intro a ra b rb out _ _ h; simp [cc] at h
  | succ fuel ih =>
    intro a ra b rb out hra hrb h p hp
    unfold cc at h
    by_cases hov : E.overlap (E.box a) (E.box b) = true
    swap
    · simp only [Bool.not_eq_true] at hov
      simp [hov] at h; subst h; simp at hp
    · simp only [hov, Bool.not_true, Bool.false_eq_true, if_false] at h
      split at h
      · simp at h; subst h
        simp only [List.mem_singleton] at hp; subst hp
        refine ⟨⟨?_, ?_⟩, ⟨?_, ?_⟩⟩ <;> simp only <;> linarith
      · have sub : ∀ (x y : Cv) (rx ry : K × K), rx.1 ≤ rx.2 → ry.1 ≤ ry.2 → ∀ r,
            (if E.overlap (E.box x) (E.box y) then cc E fuel x rx y ry else some []) = some r →
            ∀ p ∈ r, (rx.1 ≤ p.1 ∧ p.1 ≤ rx.2) ∧ (ry.1 ≤ p.2 ∧ p.2 ≤ ry.2) := by
          intro x y rx ry h1 h2 r hr p hp
          split at hr
          · exact ih x rx y ry r h1 h2 hr p hp
          · simp at hr; subst hr; simp at hp
        generalize h11 : (if E.overlap (E.box (E.split a).1) (E.box (E.split b).1) then
            cc E fuel (E.split a).1 (ra.1, (ra.1 + ra.2) / 2) (E.split b).1 (rb.1, (rb.1 + rb.2) / 2) else some []) = o11 at h
        generalize h12 : (if E.overlap (E.box (E.split a).1) (E.box (E.split b).2) then
            cc E fuel (E.split a).1 (ra.1, (ra.1 + ra.2) / 2) (E.split b).2 ((rb.1 + rb.2) / 2, rb.2) else some []) = o12 at h
        generalize h21 : (if E.overlap (E.box (E.split a).2) (E.box (E.split b).1) then
            cc E fuel (E.split a).2 ((ra.1 + ra.2) / 2, ra.2) (E.split b).1 (rb.1, (rb.1 + rb.2) / 2) else some []) = o21 at h
        generalize h22 : (if E.overlap (E.box (E.split a).2) (E.box (E.split b).2) then
            cc E fuel (E.split a).2 ((ra.1 + ra.2) / 2, ra.2) (E.split b).2 ((rb.1 + rb.2) / 2, rb.2) else some []) = o22 at h
        cases o11 with
        | none => simp [bind, Option.bind] at h
        | some r11 =>
        cases o12 with
        | none => simp [bind, Option.bind] at h
        | some r12 =>
        cases o21 with
        | none => simp [bind, Option.bind] at h
        | some r21 =>
        cases o22 with
        | none => simp [bind, Option.bind] at h
        | some r22 =>
        simp only [bind, Option.bind, pure, Option.some.injEq] at h
        subst h
        have hp' := dedupe_mem _ _ _ _ hp
        have hma : ra.1 ≤ (ra.1 + ra.2) / 2 ∧ (ra.1 + ra.2) / 2 ≤ ra.2 := by constructor <;> linarith
        have hmb : rb.1 ≤ (rb.1 + rb.2) / 2 ∧ (rb.1 + rb.2) / 2 ≤ rb.2 := by constructor <;> linarith
        simp only [List.mem_append] at hp'
        rcases hp' with ((h1 | h1) | h1) | h1
        · have := sub _ _ (ra.1, (ra.1 + ra.2) / 2) (rb.1, (rb.1 + rb.2) / 2) hma.1 hmb.1 r11 h11 p h1
          simp only at this
          exact ⟨⟨this.1.1, by linarith [this.1.2]⟩, ⟨this.2.1, by linarith [this.2.2]⟩⟩
        · have := sub _ _ (ra.1, (ra.1 + ra.2) / 2) ((rb.1 + rb.2) / 2, rb.2) hma.1 hmb.2 r12 h12 p h1
          simp only at this
          exact ⟨⟨this.1.1, by linarith [this.1.2]⟩, ⟨by linarith [this.2.1], this.2.2⟩⟩
        · have := sub _ _ ((ra.1 + ra.2) / 2, ra.2) (rb.1, (rb.1 + rb.2) / 2) hma.2 hmb.1 r21 h21 p h1
          simp only at this
          exact ⟨⟨by linarith [this.1.1], this.1.2⟩, ⟨this.2.1, by linarith [this.2.2]⟩⟩
        · have := sub _ _ ((ra.1 + ra.2) / 2, ra.2) ((rb.1 + rb.2) / 2, rb.2) hma.2 hmb.2 r22 h22 p h1
          simp only at this
          exact ⟨⟨by linarith [this.1.1], this.1.2⟩, ⟨by linarith [this.2.1], this.2.2⟩⟩

/-- on the whole curves the reported parameters lie in [0,1] -/
theorem cc_unit (E : Env K Cv Pt Bx) (fuel : Nat) (a b : Cv) (out : List (K × K))
    (h : cc E fuel a (0, 1) b (0, 1) = some out) :
    ∀ p ∈ out, (0 ≤ p.1 ∧ p.1 ≤ 1) ∧ (0 ≤ p.2 ∧ p.2 ≤ 1) :=
  cc_in_range E fuel a (0, 1) b (0, 1) out (by norm_num) (by norm_num) h

/-- disjoint top-level boxes: nothing is reported -/
theorem cc_disjoint (E : Env K Cv Pt Bx) (fuel : Nat) (a b : Cv) (ra rb : K × K)
    (h : E.overlap (E.box a) (E.box b) = false) : cc E (fuel + 1) a ra b rb = some [] := by
  unfold cc; simp [h]
end complete

/-! ### the environment of the real code -/

section real
variable {K : Type} [Field K] [LinearOrder K] [IsStrictOrderedRing K]
open Extremes Gen

/-- the real halving retraces the curve (C01 / SegLemmas) -/
theorem segEnv_split_l (sqrt : K → K) (key : K → Int) (c : Seg K) (s : K) :
    (segEnv sqrt key).pt ((segEnv sqrt key).split c).1 s = (segEnv sqrt key).pt c (s / 2) := by
  simp only [segEnv]
  rw [Seg.eval_split_left]; congr 1; ring

theorem segEnv_split_r (sqrt : K → K) (key : K → Int) (c : Seg K) (s : K) :
    (segEnv sqrt key).pt ((segEnv sqrt key).split c).2 s = (segEnv sqrt key).pt c ((1 + s) / 2) := by
  simp only [segEnv]
  rw [Seg.eval_split_right]; congr 1; ring

/-- the regenerated `BoundingBox.overlaps`: two boxes that share a point overlap (closed intervals) -/
theorem segEnv_ov (p : Pt K) (b1 b2 : Option (Box K)) (h1 : inBoxOpt p b1) (h2 : inBoxOpt p b2) :
    overlapOpt b1 b2 = true := by
  cases b1 with
  | none => exact absurd h1 (by simp [inBoxOpt])
  | some x =>
    cases b2 with
    | none => exact absurd h2 (by simp [inBoxOpt])
    | some y =>
      simp only [inBoxOpt] at h1 h2
      simp only [overlapOpt, bbox_overlaps]
      have e1 : ¬ y.l > x.r := by linarith [h1.1, h1.2.1, h2.1, h2.2.1]
      have e2 : ¬ y.r < x.l := by linarith [h1.1, h1.2.1, h2.1, h2.2.1]
      have e3 : ¬ y.b > x.t := by linarith [h1.2.2.1, h1.2.2.2, h2.2.2.1, h2.2.2.2]
      have e4 : ¬ y.t < x.b := by linarith [h1.2.2.1, h1.2.2.2, h2.2.2.1, h2.2.2.2]
      simp [e1, e2, e3, e4]

/-- **completeness for the real code, conditional on enclosure only**: halving and the overlap test are discharged
    from the regenerated code; that `bounds` encloses its piece is C02's (banded) statement and stays a hypothesis -/
theorem cc_complete_real (sqrt : K → K) (key : K → Int)
    (hencl : ∀ (c : Seg K) (s : K), 0 ≤ s → s ≤ 1 → inBoxOpt (c.eval s) (bounds sqrt c))
    (fuel : Nat) (a b : Seg K) (out : List (K × K)) (s u : K) (hs0 : 0 ≤ s) (hs1 : s ≤ 1) (hu0 : 0 ≤ u) (hu1 : u ≤ 1)
    (hpt : a.eval s = b.eval u) (h : cc (segEnv sqrt key) fuel a (0, 1) b (0, 1) = some out) :
    ∃ p ∈ out, ∃ q : K × K, Near (0, 1) s q.1 ∧ Near (0, 1) u q.2 ∧ key p.1 = key q.1 ∧ key p.2 = key q.2 := by
  have hE : EnvOK (segEnv sqrt key) :=
    { split_l := segEnv_split_l sqrt key, split_r := segEnv_split_r sqrt key,
      encl := fun c s h0 h1 => hencl c s h0 h1, ov := fun p b1 b2 h1 h2 => segEnv_ov p b1 b2 h1 h2 }
  obtain ⟨p, hp, q, n1, n2, hk⟩ := cc_complete (segEnv sqrt key) hE fuel a (0, 1) b (0, 1) out s u (by norm_num) (by norm_num) hs0 hs1 hu0 hu1 hpt h
  exact ⟨p, hp, q, n1, n2, congrArg Prod.fst hk, congrArg Prod.snd hk⟩

/-- **what a report of a crossing can be replaced by**: with a key that rounds 100·t to a nearest integer, the surviving report is
    within 0.01 of a report lying within half a terminal range of the crossing — in BOTH parameters (the pinned filter, keyed on the
    first parameter only, guaranteed this for the first parameter alone and dropped crossings of a second branch: F25) -/
theorem cc_complete_close (sqrt : K → K) (key : K → Int) (hk : ∀ t, |100 * t - (key t : K)| ≤ 1 / 2)
    (hencl : ∀ (c : Seg K) (s : K), 0 ≤ s → s ≤ 1 → inBoxOpt (c.eval s) (bounds sqrt c))
    (fuel : Nat) (a b : Seg K) (out : List (K × K)) (s u : K) (hs0 : 0 ≤ s) (hs1 : s ≤ 1) (hu0 : 0 ≤ u) (hu1 : u ≤ 1)
    (hpt : a.eval s = b.eval u) (h : cc (segEnv sqrt key) fuel a (0, 1) b (0, 1) = some out) :
    ∃ p ∈ out, ∃ q : K × K, Near (0, 1) s q.1 ∧ Near (0, 1) u q.2 ∧ |p.1 - q.1| ≤ 1 / 100 ∧ |p.2 - q.2| ≤ 1 / 100 := by
  obtain ⟨p, hp, q, n1, n2, k1, k2⟩ := cc_complete_real sqrt key hencl fuel a b out s u hs0 hs1 hu0 hu1 hpt h
  exact ⟨p, hp, q, n1, n2, key_close key hk _ _ k1, key_close key hk _ _ k2⟩
end real

/-! ### the stop rule admits phantoms (K3) -/

section phantom
open Extremes

/-- **K3**: a horizontal straight cubic and a vertical straight quadratic that cross at (10, 0), i.e. at t = 1/3, u = 1/2:
    both top-level boxes have area 0 < 1e-3, so the recursion stops at once and reports the range midpoints
    (1/2, 1/2) — whose points (15, 0) and (10, 0) are 5 units apart (extent 30): a phantom, and the true crossing is
    16 % of the extent away from it. -/
theorem phantom_counterexample :
    cc (segEnv (fun x => x) (fun _ => 0)) 1
        (Seg.cubic ⟨0, 0⟩ ⟨10, 0⟩ ⟨20, 0⟩ ⟨30, 0⟩) ((0 : ℚ), 1) (Seg.quad ⟨10, -10⟩ ⟨10, 0⟩ ⟨10, 10⟩) (0, 1)
      = some [(1 / 2, 1 / 2)]
    ∧ (Seg.cubic (⟨0, 0⟩ : Pt ℚ) ⟨10, 0⟩ ⟨20, 0⟩ ⟨30, 0⟩).eval (1 / 2) = ⟨15, 0⟩
    ∧ (Seg.quad (⟨10, -10⟩ : Pt ℚ) ⟨10, 0⟩ ⟨10, 10⟩).eval (1 / 2) = ⟨10, 0⟩
    ∧ (Seg.cubic (⟨0, 0⟩ : Pt ℚ) ⟨10, 0⟩ ⟨20, 0⟩ ⟨30, 0⟩).eval (1 / 3) = (Seg.quad (⟨10, -10⟩ : Pt ℚ) ⟨10, 0⟩ ⟨10, 10⟩).eval (1 / 2) := by
  decide +kernel
end phantom

/-! ### the pinned duplicate filter drops a second crossing (F25) -/

section pinned_filter

/-- the pinned filter: one report per bucket of the FIRST parameter -/
def dedupePinned {K : Type} (key : K → Int) : List (K × K) → List Int → List (K × K)
  | [], _ => []
  | p :: rest, seen => if key p.1 ∈ seen then dedupePinned key rest seen else p :: dedupePinned key rest (key p.1 :: seen)

/-- **F25**: a straight vertical cubic crossing the two branches of a narrow hairpin at t = 0.50635 (other curve: 0.11963) and
    t = 0.51416 (other curve: 0.88037): both first parameters print as 0.51, so the pinned filter drops the second crossing, 1.5 units
    (0.73 % of the extent) from the first; keyed on both parameters the filter keeps both -/
theorem pinned_filter_counterexample :
    dedupePinned (fun t : ℚ => Rat.floor (100 * t + 1 / 2)) [(50635 / 100000, 11963 / 100000), (51416 / 100000, 88037 / 100000)] []
      = [(50635 / 100000, 11963 / 100000)]
    ∧ dedupe (fun t : ℚ => Rat.floor (100 * t + 1 / 2)) [(50635 / 100000, 11963 / 100000), (51416 / 100000, 88037 / 100000)] []
      = [(50635 / 100000, 11963 / 100000), (51416 / 100000, 88037 / 100000)] := by
  decide +kernel
end pinned_filter

/-! ### the self-intersection query keeps every crossing of non-neighbouring segments (F26) -/

section selfpairs
variable {K : Type} [Field K] [LinearOrder K]

/-- **every intersection found for a pair of non-neighbouring segments is reported** -/
theorem self_keeps_nonadjacent (closed : Bool) (n : Nat) (hits : List (Nat × Nat × List (K × K))) (i1 i2 : Nat) (l : List (K × K))
    (hm : (i1, i2, l) ∈ hits) (hn : neighbours closed n i1 i2 = false) (p : K × K) (hp : p ∈ l) :
    (i1, i2, p.1, p.2) ∈ selfPairs closed n hits := by
  unfold selfPairs
  rw [List.mem_flatMap]
  refine ⟨(i1, i2, l), hm, ?_⟩
  rw [List.mem_map]
  refine ⟨p, ?_, rfl⟩
  rw [List.mem_filter]
  exact ⟨hp, by simp [hn]⟩

/-- for neighbouring segments exactly the intersections inside the window are reported; nothing is ever invented -/
theorem self_mem_iff (closed : Bool) (n : Nat) (hits : List (Nat × Nat × List (K × K))) (q : Nat × Nat × K × K) :
    q ∈ selfPairs closed n hits ↔
      ∃ l, (q.1, q.2.1, l) ∈ hits ∧ (q.2.2.1, q.2.2.2) ∈ l ∧ (neighbours closed n q.1 q.2.1 = true → selfWindow q.2.2.1 = true) := by
  unfold selfPairs
  rw [List.mem_flatMap]
  constructor
  · rintro ⟨⟨i1, i2, l⟩, hm, hq⟩
    rw [List.mem_map] at hq
    obtain ⟨p, hp, rfl⟩ := hq
    rw [List.mem_filter] at hp
    refine ⟨l, hm, hp.1, ?_⟩
    intro hnb
    have := hp.2
    simp only [hnb, Bool.not_true, Bool.false_or] at this
    exact this
  · rintro ⟨l, hm, hp, hw⟩
    refine ⟨(q.1, q.2.1, l), hm, ?_⟩
    rw [List.mem_map]
    refine ⟨(q.2.2.1, q.2.2.2), ?_, rfl⟩
    rw [List.mem_filter]
    refine ⟨hp, ?_⟩
    cases hnb : neighbours closed n q.1 q.2.1 with
    | false => simp
    | true => simp [hw hnb]

/-- **F26**: segments 1 and 3 of a six-segment closed path crossing at parameters (0.0034, 0.973): the pinned loop drops the crossing
    (its first parameter is within 1 % of an end), the repaired loop reports it -/
theorem pinned_self_window_counterexample :
    selfPairsPinned [(1, 3, [((34 : ℚ) / 10000, 973 / 1000)])] = []
    ∧ selfPairs true 6 [(1, 3, [((34 : ℚ) / 10000, 973 / 1000)])] = [(1, 3, 34 / 10000, 973 / 1000)] := by
  decide +kernel
end selfpairs

end C06
