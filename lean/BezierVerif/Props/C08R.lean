/-
  C08 — a closed node list given at ANY rotation of the contour, including one that begins on an off-curve node, yields the same
  cyclic sequence of segments with exactly one closing segment.  Theorems about the hand model Model/Nodelist.lean (tied to
  path/representations/Segment.py by the correspondence run).
-/
import BezierVerif.Props.C08
import Mathlib.Tactic.Set
import Mathlib.Tactic.SplitIfs
open Nodelist C08

namespace C08R
variable {P : Type}

/-- scanning a chain's nodes and then going on with the rest -/
theorem scan_chain_append : ∀ (segs : List (Seg P)) (p : P) (more : List (Node P)), Chain segs →
    (∀ s, segs.head? = some s → s.start = p) →
    scan [p] (segs.flatMap Seg.tailNodes ++ more) = (scan [lastEnd p segs] more).map (fun r => (segs ++ r.1, r.2)) := by
  intro segs
  induction segs with
  | nil => intro p more _ _; simp [lastEnd]
  | cons s rest ih =>
    intro p more hc hs
    have hp : s.start = p := hs s rfl
    subst hp
    simp only [List.flatMap_cons, List.append_assoc]
    rw [scan_tail]
    have hc' : Chain rest := by
      cases rest with
      | nil => trivial
      | cons b r => exact hc.2
    have hs' : ∀ t, rest.head? = some t → t.start = s.end := by
      intro t ht
      cases rest with
      | nil => simp at ht
      | cons b r => simp at ht; subst ht; exact hc.1.symm
    rw [ih s.end more hc' hs']
    simp only [lastEnd]
    cases scan [lastEnd s.end rest] more <;> simp

/-- off-curve nodes only extend the buffer -/
theorem scan_offcurves (buf : List P) (cs : List P) (more : List (Node P)) :
    scan buf (cs.map (fun c => (⟨c, .offcurve⟩ : Node P)) ++ more) = scan (buf ++ cs) more := by
  induction cs generalizing buf with
  | nil => simp
  | cons c cs ih =>
    simp only [List.map_cons, List.cons_append, scan]
    rw [ih (buf ++ [c])]
    simp

/-- the off-curve points of a segment -/
def offs : Seg P → List P
  | .line _ _ => []
  | .quad _ c _ => [c]
  | .cubic _ c1 c2 _ => [c1, c2]

theorem tailNodes_eq (s : Seg P) :
    s.tailNodes = (offs s).map (fun c => (⟨c, .offcurve⟩ : Node P)) ++ [⟨s.end, if (offs s).length = 0 then .line else .curve⟩] := by
  cases s <;> simp [Seg.tailNodes, offs, Seg.end]

theorem mkSeg_offs (s : Seg P) : mkSeg ([s.start] ++ offs s ++ [s.end]) = some s := by
  cases s <;> simp [mkSeg, offs, Seg.start, Seg.end]

theorem firstOncurve_offs (cs : List P) (n : Node P) (hn : n.ty ≠ .offcurve) (more : List (Node P)) :
    firstOncurve (cs.map (fun c => (⟨c, .offcurve⟩ : Node P)) ++ n :: more) = some cs.length := by
  induction cs with
  | nil => simp [firstOncurve, hn]
  | cons c cs ih => simp [firstOncurve, ih]

/-- **a closed node list that starts in the middle of segment s** (after `j` of its off-curve nodes; j = 0: at its first
    off-curve node, or at its end node if it is a line): the remaining nodes of s, then the nodes of the segments `mid`
    that follow it around the contour, then the first j off-curve nodes of s.  `fromNodelist` returns `mid ++ [s]`:
    the same cyclic sequence, s re-assembled as the one closing segment. -/
theorem rotation_core [DecidableEq P] (s : Seg P) (mid : List (Seg P)) (j : Nat)
    (hc : Chain mid) (hstart : ∀ t, mid.head? = some t → t.start = s.end) (hend : lastEnd s.end mid = s.start)
    (hline : (offs s).length = 0 → s.start ≠ s.end) :
    fromNodelist true
      (((offs s).drop j).map (fun c => (⟨c, .offcurve⟩ : Node P)) ++ [⟨s.end, if (offs s).length = 0 then .line else .curve⟩]
        ++ mid.flatMap Seg.tailNodes ++ ((offs s).take j).map (fun c => (⟨c, .offcurve⟩ : Node P)))
      = some (mid ++ [s]) := by
  set endNode : Node P := ⟨s.end, if (offs s).length = 0 then .line else .curve⟩ with hen
  have hty : endNode.ty ≠ .offcurve := by
    rw [hen]; simp only; split_ifs <;> simp
  set A := ((offs s).drop j).map (fun c => (⟨c, .offcurve⟩ : Node P)) with hA
  set B := ((offs s).take j).map (fun c => (⟨c, .offcurve⟩ : Node P)) with hB
  have hlist : A ++ [endNode] ++ mid.flatMap Seg.tailNodes ++ B = A ++ endNode :: (mid.flatMap Seg.tailNodes ++ B) := by simp
  rw [hlist]
  have hfo : firstOncurve (A ++ endNode :: (mid.flatMap Seg.tailNodes ++ B)) = some ((offs s).drop j).length := by
    rw [hA]; exact firstOncurve_offs _ endNode hty _
  have hAlen : A.length = ((offs s).drop j).length := by rw [hA]; simp
  unfold fromNodelist
  rw [hfo]
  simp only
  have hget : (A ++ endNode :: (mid.flatMap Seg.tailNodes ++ B))[((offs s).drop j).length]? = some endNode := by
    rw [← hAlen, List.getElem?_append_right (Nat.le_refl _)]; simp
  rw [hget]
  simp only
  have hdrop : (A ++ endNode :: (mid.flatMap Seg.tailNodes ++ B)).drop (((offs s).drop j).length + 1) = mid.flatMap Seg.tailNodes ++ B := by
    rw [← hAlen, ← List.drop_drop, List.drop_left' rfl]; simp
  have htake : (A ++ endNode :: (mid.flatMap Seg.tailNodes ++ B)).take ((offs s).drop j).length = A := by
    rw [← hAlen, List.take_left' rfl]
  rw [hdrop, htake]
  have e1 : endNode.p = s.end := rfl
  rw [e1, scan_chain_append mid s.end B hc hstart, hend]
  have hB' : scan [s.start] B = some ([], [s.start] ++ (offs s).take j) := by
    have := scan_offcurves [s.start] ((offs s).take j) ([] : List (Node P))
    simp only [List.append_nil] at this
    rw [hB, this]; simp [scan]
  rw [hB']
  simp only [Option.map, List.append_nil]
  have hA' : scan ([s.start] ++ (offs s).take j) A = some ([], [s.start] ++ offs s) := by
    have := scan_offcurves ([s.start] ++ (offs s).take j) ((offs s).drop j) ([] : List (Node P))
    simp only [List.append_nil] at this
    rw [hA, this]; simp [scan, List.append_assoc, List.take_append_drop]
  rw [hA']
  simp only [List.append_nil]
  unfold close
  simp only [if_true]
  by_cases h0 : (offs s).length = 0
  · have hnil : offs s = [] := List.length_eq_zero_iff.mp h0
    have hne := hline h0
    have hcond : ¬ (([s.start] ++ offs s).length = 1 ∧ ([s.start] ++ offs s).getLast? = some s.end) := by
      rw [hnil]; simp; exact hne
    rw [if_neg hcond]
    have := mkSeg_offs s
    rw [this]; simp
  · have hcond : ¬ (([s.start] ++ offs s).length = 1 ∧ ([s.start] ++ offs s).getLast? = some s.end) := by
      intro h; apply h0
      have := h.1; simp at this; rw [this]; rfl
    rw [if_neg hcond]
    have := mkSeg_offs s
    rw [this]; simp


/-- `l` is a connected chain from `a` to `b` -/
def CF : P → List (Seg P) → P → Prop
  | a, [], b => a = b
  | a, s :: ss, b => s.start = a ∧ CF s.end ss b

theorem CF_append (a b : P) (l1 l2 : List (Seg P)) : CF a (l1 ++ l2) b ↔ ∃ m, CF a l1 m ∧ CF m l2 b := by
  induction l1 generalizing a with
  | nil => simp [CF]
  | cons s ss ih =>
    simp only [List.cons_append, CF, ih]
    constructor
    · rintro ⟨h, m, h1, h2⟩; exact ⟨m, ⟨h, h1⟩, h2⟩
    · rintro ⟨m, ⟨h, h1⟩, h2⟩; exact ⟨h, m, h1, h2⟩

theorem CF_facts (a b : P) (l : List (Seg P)) (h : CF a l b) :
    Chain l ∧ (∀ t, l.head? = some t → t.start = a) ∧ lastEnd a l = b := by
  induction l generalizing a with
  | nil => simp [CF] at h; subst h; simp [Chain, lastEnd]
  | cons s ss ih =>
    obtain ⟨h1, h2⟩ := h
    obtain ⟨c, hd, le⟩ := ih s.end h2
    refine ⟨?_, ?_, ?_⟩
    · cases ss with
      | nil => trivial
      | cons t tt => exact ⟨(hd t rfl).symm, c⟩
    · intro t ht; simp at ht; subst ht; exact h1
    · simp [lastEnd, le]

theorem tailNodes_drop (s : Seg P) (j : Nat) (hj : j ≤ (offs s).length) :
    s.tailNodes.drop j = ((offs s).drop j).map (fun c => (⟨c, .offcurve⟩ : Node P)) ++ [⟨s.end, if (offs s).length = 0 then .line else .curve⟩] := by
  rw [tailNodes_eq, List.drop_append_of_le_length (by simpa using hj), List.map_drop]

theorem tailNodes_take (s : Seg P) (j : Nat) (hj : j ≤ (offs s).length) :
    s.tailNodes.take j = ((offs s).take j).map (fun c => (⟨c, .offcurve⟩ : Node P)) := by
  rw [tailNodes_eq, List.take_append_of_le_length (by simpa using hj), List.map_take]

theorem tailNodes_length (s : Seg P) : s.tailNodes.length = (offs s).length + 1 := by
  cases s <;> simp [Seg.tailNodes, offs]

/-- **any rotation of a closed contour's node list** that starts inside segment `s` (j nodes into it): the contour is
    `pre ++ s :: post`, a connected chain from `a` back to `a`; zero-length lines excepted for `s`, `fromNodelist` returns the cyclic
    rotation `post ++ pre ++ [s]` of the same segments — `s` is the one closing segment. -/
theorem rotation_any [DecidableEq P] (a : P) (pre post : List (Seg P)) (s : Seg P) (j : Nat) (hj : j ≤ (offs s).length)
    (h : CF a (pre ++ s :: post) a) (hline : (offs s).length = 0 → s.start ≠ s.end) :
    fromNodelist true (s.tailNodes.drop j ++ post.flatMap Seg.tailNodes ++ pre.flatMap Seg.tailNodes ++ s.tailNodes.take j)
      = some (post ++ pre ++ [s]) := by
  obtain ⟨m, hpre, hrest⟩ := (CF_append a a pre (s :: post)).mp h
  obtain ⟨hsm, hpost⟩ := hrest
  subst hsm
  have hmid : CF s.end (post ++ pre) s.start := (CF_append _ _ post pre).mpr ⟨a, hpost, hpre⟩
  obtain ⟨hc, hstart, hend⟩ := CF_facts _ _ _ hmid
  have := rotation_core s (post ++ pre) j hc hstart hend hline
  rw [tailNodes_drop s j hj, tailNodes_take s j hj]
  rw [List.flatMap_append] at this
  simpa [List.append_assoc] using this

/-- every position in a concatenation of non-empty blocks lies in exactly one block -/
theorem split_position {α β : Type} (f : α → List β) (hf : ∀ x, 0 < (f x).length) :
    ∀ (l : List α) (r : Nat), r < (l.flatMap f).length →
      ∃ pre s post j, l = pre ++ s :: post ∧ r = (pre.flatMap f).length + j ∧ j < (f s).length := by
  intro l
  induction l with
  | nil => intro r hr; simp at hr
  | cons x xs ih =>
    intro r hr
    by_cases hx : r < (f x).length
    · exact ⟨[], x, xs, r, rfl, by simp, hx⟩
    · have hx := Nat.le_of_not_lt hx
      have hr' : r - (f x).length < (xs.flatMap f).length := by
        simp only [List.flatMap_cons, List.length_append] at hr; omega
      obtain ⟨pre, s, post, j, e1, e2, e3⟩ := ih (r - (f x).length) hr'
      refine ⟨x :: pre, s, post, j, by rw [e1]; rfl, ?_, e3⟩
      simp only [List.flatMap_cons, List.length_append]; omega

/-- **C08, all rotations.**  A closed contour: a connected chain from `a` back to `a` without zero-length lines.  Its cyclic node
    list (start node not repeated), read from ANY position r — also one that begins on an off-curve node — gives back a cyclic
    rotation of the same segment list. -/
theorem all_rotations [DecidableEq P] (a : P) (segs : List (Seg P)) (h : CF a segs a)
    (hline : ∀ s ∈ segs, (offs s).length = 0 → s.start ≠ s.end) (r : Nat) (hr : r < (segs.flatMap Seg.tailNodes).length) :
    ∃ k, k < segs.length ∧
      fromNodelist true ((segs.flatMap Seg.tailNodes).drop r ++ (segs.flatMap Seg.tailNodes).take r)
        = some (segs.drop (k + 1) ++ segs.take (k + 1)) := by
  obtain ⟨pre, s, post, j, e1, e2, e3⟩ := split_position Seg.tailNodes (fun x => by rw [tailNodes_length]; omega) segs r hr
  subst e1
  rw [tailNodes_length] at e3
  have hj : j ≤ (offs s).length := by omega
  refine ⟨pre.length, by simp, ?_⟩
  have hdrop : ((pre ++ s :: post).flatMap Seg.tailNodes).drop r = s.tailNodes.drop j ++ post.flatMap Seg.tailNodes := by
    rw [List.flatMap_append, List.flatMap_cons, e2, ← List.drop_drop, List.drop_left' rfl,
      List.drop_append_of_le_length (by rw [tailNodes_length]; omega)]
  have htake : ((pre ++ s :: post).flatMap Seg.tailNodes).take r = pre.flatMap Seg.tailNodes ++ s.tailNodes.take j := by
    rw [List.flatMap_append, List.flatMap_cons, e2, List.take_append, List.take_of_length_le (by omega)]
    congr 1
    rw [List.take_append_of_le_length (by rw [tailNodes_length]; omega)]
    congr 1; omega
  rw [hdrop, htake]
  have := rotation_any a pre post s j hj h (hline s (by simp))
  have e : s.tailNodes.drop j ++ post.flatMap Seg.tailNodes ++ (pre.flatMap Seg.tailNodes ++ s.tailNodes.take j) =
      s.tailNodes.drop j ++ post.flatMap Seg.tailNodes ++ pre.flatMap Seg.tailNodes ++ s.tailNodes.take j := by
    simp [List.append_assoc]
  rw [e, this]
  congr 1
  have d1 : (pre ++ s :: post).drop (pre.length + 1) = post := by
    rw [← List.drop_drop, List.drop_left' rfl]; rfl
  have t1 : (pre ++ s :: post).take (pre.length + 1) = pre ++ [s] := by
    rw [List.take_append, List.take_of_length_le (by omega)]
    simp
  rw [d1, t1, List.append_assoc]


/-! non-vacuity: a closed contour line – quadratic – cubic over ℕ × ℕ, read from its third node (an off-curve node of the cubic) -/
example : CF ((0, 0) : Nat × Nat) [Seg.line (0, 0) (4, 0), Seg.quad (4, 0) (6, 3) (4, 6), Seg.cubic (4, 6) (2, 8) (1, 3) (0, 0)] (0, 0) := by
  simp [CF, Seg.start, Seg.end]
example : fromNodelist true
    (([Seg.line ((0, 0) : Nat × Nat) (4, 0), Seg.quad (4, 0) (6, 3) (4, 6), Seg.cubic (4, 6) (2, 8) (1, 3) (0, 0)].flatMap Seg.tailNodes).drop 4 ++
     ([Seg.line ((0, 0) : Nat × Nat) (4, 0), Seg.quad (4, 0) (6, 3) (4, 6), Seg.cubic (4, 6) (2, 8) (1, 3) (0, 0)].flatMap Seg.tailNodes).take 4)
    = some [Seg.line (0, 0) (4, 0), Seg.quad (4, 0) (6, 3) (4, 6), Seg.cubic (4, 6) (2, 8) (1, 3) (0, 0)] := by
  decide

end C08R
