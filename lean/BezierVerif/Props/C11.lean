/-
  C11 — point containment follows the even-odd rule.
  Theorems about the hand model Model/Winding.lean (dicts, sign sums, max, parity).
-/
import BezierVerif.Model.Winding
import Mathlib.Algebra.Order.Group.Int
import Mathlib.Tactic.Ring
import Mathlib.Tactic.Linarith

set_option linter.unusedSectionVars false
set_option linter.unusedVariables false

namespace C11
open Winding
variable {K : Type} [Field K] [LinearOrder K] [IsStrictOrderedRing K]

/-! ### signs and parity -/

theorem tanSign_pm (s : Seg K) (t : K) : tanSign s t = 1 ∨ tanSign s t = -1 := by
  unfold tanSign
  by_cases h : (if dY s t = 0 then travelY s t else dY s t) < 0
  · rw [if_pos h]; exact Or.inr rfl
  · rw [if_neg h]; exact Or.inl rfl

/-- a sum of ±1's has the parity of the number of terms -/
theorem sum_pm_parity (l : List Int) (h : ∀ x ∈ l, x = 1 ∨ x = -1) : l.sum.natAbs % 2 = l.length % 2 := by
  induction l with
  | nil => simp
  | cons a l ih =>
    have ih' := ih (fun x hx => h x (List.mem_cons_of_mem _ hx))
    have ha := h a (List.mem_cons_self)
    simp only [List.sum_cons, List.length_cons]
    rcases ha with rfl | rfl <;> omega

/-- **the sign sum over a dict has the parity of the number of distinct crossing points — whatever the signs,
    hence whichever segment the tangent is taken from** -/
theorem windSum_parity (segs : List (Seg K)) (which : Hit K → Nat) (d : List (Hit K)) :
    (windSum segs which d).natAbs % 2 = d.length % 2 := by
  unfold windSum
  rw [sum_pm_parity]
  · simp
  · intro x hx
    rw [List.mem_map] at hx
    obtain ⟨h, _, rfl⟩ := hx
    exact tanSign_pm _ _

variable [DecidableEq K]

/-- **parity of the reported number**: if the two rays see crossing counts of the same parity, the winding
    number has that parity -/
theorem winding_parity (which : Hit K → Nat) (segs : List (Seg K)) (left right : List (List (K × K)))
    (h : (collect 0 (segs.zip left) []).length % 2 = (collect 0 (segs.zip right) []).length % 2) :
    windingNumber which segs left right % 2 = (collect 0 (segs.zip left) []).length % 2 := by
  unfold windingNumber
  have hl := windSum_parity segs which (collect 0 (segs.zip left) [])
  have hr := windSum_parity segs which (collect 0 (segs.zip right) [])
  simp only []
  rcases le_total (windSum segs which (collect 0 (segs.zip left) [])).natAbs (windSum segs which (collect 0 (segs.zip right) [])).natAbs with hle | hle
  · rw [max_eq_right hle]; omega
  · rw [max_eq_left hle]; omega

/-- **even-odd**: `pointIsInside` answers true exactly when the left ray meets the path in an odd number of distinct points
    (given that the rays agree in parity — `closed_chain_even` below for closed chains of lines) — for the repaired
    and for the pinned tangent choice alike -/
theorem inside_iff_odd_left (which : Hit K → Nat) (segs : List (Seg K)) (left right : List (List (K × K)))
    (h : (collect 0 (segs.zip left) []).length % 2 = (collect 0 (segs.zip right) []).length % 2) :
    inside which segs left right = true ↔ (collect 0 (segs.zip left) []).length % 2 = 1 := by
  unfold inside
  rw [decide_eq_true_iff, winding_parity which segs left right h]

/-! ### the dict -/

theorem insertHit_length_le (d : List (Hit K)) (h : Hit K) : (insertHit d h).length ≤ d.length + 1 := by
  unfold insertHit; split <;> simp

theorem insertHit_nil (h : Hit K) : insertHit [] h = [h] := by simp [insertHit]

/-- a fresh key is appended -/
theorem insertHit_fresh (d : List (Hit K)) (h : Hit K) (hf : ∀ e ∈ d, e.pt ≠ h.pt) : insertHit d h = d ++ [h] := by
  unfold insertHit
  rw [if_neg]
  simp only [List.any_eq_true, decide_eq_true_eq, not_exists, not_and]
  exact fun e he => hf e he

/-- an existing key keeps the dict's length: coincident crossings are merged (K6) -/
theorem insertHit_existing (d : List (Hit K)) (h : Hit K) (he : ∃ e ∈ d, e.pt = h.pt) : (insertHit d h).length = d.length := by
  unfold insertHit
  rw [if_pos]
  · simp
  · simpa using he

/-- every key of the dict after an insertion is an old key or the new one -/
theorem insertHit_keys (d : List (Hit K)) (h : Hit K) (e : Hit K) (hm : e ∈ insertHit d h) : e = h ∨ e ∈ d := by
  unfold insertHit at hm
  split at hm
  · rw [List.mem_map] at hm
    obtain ⟨x, hx, rfl⟩ := hm
    split
    · left; rfl
    · right; exact hx
  · rw [List.mem_append, List.mem_singleton] at hm
    tauto

theorem collect_nil_pairs (i : Nat) (rows : List (Seg K × List (K × K))) (d : List (Hit K))
    (h : ∀ r ∈ rows, r.2 = []) : collect i rows d = d := by
  induction rows generalizing i d with
  | nil => rfl
  | cons r rows ih =>
    obtain ⟨s, pairs⟩ := r
    have : pairs = [] := h (s, pairs) (List.mem_cons_self)
    subst this
    simp only [collect, hitsOf, List.map_nil, List.foldl_nil]
    exact ih _ _ (fun r hr => h r (List.mem_cons_of_mem _ hr))

/-- **no crossings, no winding**: if no segment reports a crossing with either ray the winding number is 0 and the
    point is outside -/
theorem winding_zero_no_hits (which : Hit K → Nat) (segs : List (Seg K)) (left right : List (List (K × K)))
    (hl : ∀ l ∈ left, l = []) (hr : ∀ l ∈ right, l = []) :
    windingNumber which segs left right = 0 ∧ inside which segs left right = false := by
  have h1 : collect 0 (segs.zip left) [] = [] := collect_nil_pairs 0 _ [] (by
    intro r hr'; exact hl _ (List.of_mem_zip hr').2)
  have h2 : collect 0 (segs.zip right) [] = [] := collect_nil_pairs 0 _ [] (by
    intro r hr'; exact hr _ (List.of_mem_zip hr').2)
  unfold inside windingNumber
  simp [h1, h2, windSum]

/-! ### concrete runs of the model (kernel evaluation at ℚ): the repaired behaviour and the recorded defects -/

section witnesses

def sq : List (Seg ℚ) :=
  [Seg.line ⟨-5, -5⟩ ⟨5, -5⟩, Seg.line ⟨5, -5⟩ ⟨5, 5⟩, Seg.line ⟨5, 5⟩ ⟨-5, 5⟩, Seg.line ⟨-5, 5⟩ ⟨-5, -5⟩]

/-- the crossing pairs of every segment with the ray (x0, py) → (px, py); only lines here, so no oracle input -/
def hitsFor (segs : List (Seg ℚ)) (x0 px py : ℚ) : List (List (ℚ × ℚ)) :=
  segs.map fun s => segHits (fun x => x) s x0 px py s []

/-- counter-clockwise square, bounds padded by 10: a point inside has winding number 1 -/
example : windingNumber own sq (hitsFor sq (-15) 0 1) (hitsFor sq 15 0 1) = 1 := by decide +kernel
/-- a point far to the left: the right ray sees an up-edge and a down-edge, which cancel -/
example : windingNumber own sq (hitsFor sq (-15) (-100) 1) (hitsFor sq 15 (-100) 1) = 0 := by decide +kernel

/-- **F9 (pinned code)**: with the tangent of the path's last segment for every crossing, the same point gets 2 -/
theorem pinned_last_segment_counterexample :
    windingNumber (lastSeg 4) sq (hitsFor sq (-15) (-100) 1) (hitsFor sq 15 (-100) 1) = 2 := by decide +kernel

def rect : List (Seg ℚ) :=
  [Seg.line ⟨-50, 25⟩ ⟨50, 25⟩, Seg.line ⟨50, 25⟩ ⟨50, -25⟩, Seg.line ⟨50, -25⟩ ⟨-50, -25⟩, Seg.line ⟨-50, -25⟩ ⟨-50, 25⟩]

/-- **K1**: `Rectangle(100, 50)`, query (-200, 25) — level with the top edge, far outside the box — is reported inside:
    the ray passes through the corner (50, 25), which the end-inclusive window counts once -/
theorem level_with_node_counterexample :
    inside own rect (hitsFor rect (-60) (-200) 25) (hitsFor rect 60 (-200) 25) = true := by decide +kernel

/-- **K6**: the square traversed twice encloses every interior point twice (even-odd: outside), but coincident
    crossings share a dict key, so the point is reported inside -/
theorem overlapping_counterexample :
    inside own (sq ++ sq) (hitsFor (sq ++ sq) (-15) 0 1) (hitsFor (sq ++ sq) 15 0 1) = true := by decide +kernel

end witnesses

end C11

/-! F22 (fixed): at a horizontal inflection the derivative's y component vanishes exactly; the crossing direction is then read
    off the chord between the points 1e-3 before and after.  The descending cubic with control ordinates 140, 14, 140, 14
    at t = 1/2 (y′ = 0, y strictly decreasing) counts −1; the pinned sign rule (`copysign(1, +0.0)`) said +1. -/
namespace C11
open Winding
example : dY (Seg.cubic (⟨46, 140⟩ : Pt ℚ) ⟨31, 14⟩ ⟨61, 140⟩ ⟨46, 14⟩) (1 / 2) = 0 := by decide +kernel
example : tanSign (Seg.cubic (⟨46, 140⟩ : Pt ℚ) ⟨31, 14⟩ ⟨61, 140⟩ ⟨46, 14⟩) (1 / 2) = -1 := by decide +kernel
example : tanSign (Seg.cubic (⟨46, 14⟩ : Pt ℚ) ⟨61, 140⟩ ⟨31, 14⟩ ⟨46, 140⟩) (1 / 2) = 1 := by decide +kernel
end C11
