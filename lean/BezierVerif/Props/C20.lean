/-
  C20 (part 2) — reported minimum distances are realised distances.
  Theorems about the hand model Model/MinDist.lean (tied to curvedistance.py by the correspondence
  run), for *every* surface S and coefficient table D: whatever the pruning does, the returned
  value is S(u*, v*) for some (u*, v*) in the unit square and the returned parameters lie in [0,1].
  Part 1 (Props/C20S.lean) proves that the generated S is the squared distance of the two curves'
  points, so the returned value is a realised squared distance.
-/
import BezierVerif.Model.MinDist
import BezierVerif.Props.C20S
import BezierVerif.Tactics

set_option linter.unusedSectionVars false
set_option linter.unusedVariables false

namespace C20
open MinDist
variable {K : Type} [Field K] [LinearOrder K] [IsStrictOrderedRing K]

def Realised (S : K → K → K) (x : Triple K) : Prop :=
  ∃ a b, 0 ≤ a ∧ a ≤ 1 ∧ 0 ≤ b ∧ b ≤ 1 ∧ x.1 = S a b
def InUnit (x : Triple K) : Prop := 0 ≤ x.2.1 ∧ x.2.1 ≤ 1 ∧ 0 ≤ x.2.2 ∧ x.2.2 ≤ 1
def Good (S : K → K → K) (x : Triple K) : Prop := Realised S x ∧ InUnit x

theorem minBy_mem : ∀ (l : List (Triple K)) (x : Triple K), minBy l = some x → x ∈ l := by
  intro l
  induction l with
  | nil => intro x h; simp [minBy] at h
  | cons y ys ih =>
    intro x h
    simp only [minBy] at h
    cases hys : minBy ys with
    | none => rw [hys] at h; simp at h; simp [h]
    | some z =>
      rw [hys] at h
      simp only at h
      split_ifs at h
      · simp at h; subst h; exact List.mem_cons_of_mem _ (ih z hys)
      · simp at h; simp [h]

theorem grid_lt (a b : Nat) (p : Nat × Nat) (h : p ∈ grid a b) : p.1 < a ∧ p.2 < b := by
  simp only [grid, List.mem_flatMap, List.mem_range, List.mem_map] at h
  obtain ⟨r, hr, k, hk, rfl⟩ := h
  exact ⟨hr, hk⟩

theorem minIJ_bound (P : Params K) : (minIJ P).1 ≤ 2 * P.n ∧ (minIJ P).2 ≤ 2 * P.m := by
  unfold minIJ
  have key : ∀ (l : List (Nat × Nat)) (st : Option K × (Nat × Nat)),
      (∀ p ∈ l, p.1 < 2 * P.n ∧ p.2 < 2 * P.m) → (st.2.1 ≤ 2 * P.n ∧ st.2.2 ≤ 2 * P.m) →
      let r := (l.foldl (fun (st : Option K × (Nat × Nat)) rk =>
        let drk := P.D rk.1 rk.2
        match st.1 with
        | none => (some drk, rk)
        | some d => if d = 0 ∨ drk < d then (some drk, rk) else st) st)
      r.2.1 ≤ 2 * P.n ∧ r.2.2 ≤ 2 * P.m := by
    intro l
    induction l with
    | nil => intro st _ h; exact h
    | cons p ps ih =>
      intro st hl hst
      simp only [List.foldl_cons]
      apply ih
      · intro q hq; exact hl q (List.mem_cons_of_mem _ hq)
      · have hp := hl p (by simp)
        cases hs : st.1 with
        | none => simp only []; exact ⟨le_of_lt hp.1, le_of_lt hp.2⟩
        | some d =>
          simp only []
          split_ifs
          · exact ⟨le_of_lt hp.1, le_of_lt hp.2⟩
          · exact hst
  exact key _ _ (fun p hp => grid_lt _ _ p hp) (by simp)

theorem frac_unit (i d : Nat) (hd : 0 < d) (hi : i ≤ d) : (0 : K) ≤ (i : K) / (d : K) ∧ (i : K) / (d : K) ≤ 1 := by
  have hd' : (0 : K) < (d : K) := by exact_mod_cast hd
  constructor
  · exact div_nonneg (by exact_mod_cast Nat.zero_le i) (le_of_lt hd')
  · rw [div_le_one hd']; exact_mod_cast hi

theorem between (lo hi f : K) (h : lo ≤ hi) (h0 : 0 ≤ f) (h1 : f ≤ 1) : lo ≤ lo + (hi - lo) * f ∧ lo + (hi - lo) * f ≤ hi := by
  have hw : 0 ≤ hi - lo := sub_nonneg.mpr h
  constructor
  · nlinarith [mul_nonneg hw h0]
  · nlinarith [mul_le_mul_of_nonneg_left h1 hw]

theorem mid_between (lo hi : K) (h0 : 0 ≤ lo) (h : lo ≤ hi) (h1 : hi ≤ 1) : 0 ≤ (lo + hi) / 2 ∧ (lo + hi) / 2 ≤ 1 := by
  constructor
  · apply div_nonneg <;> linarith
  · rw [div_le_one (by norm_num)]; linarith

/-- one call: a returned triple is Good; a split point lies inside the rectangle -/
theorem act_good (P : Params K) (hn : 0 < P.n) (hm : 0 < P.m) (best : Option K) (umin umax vmin vmax : K)
    (hu0 : 0 ≤ umin) (hu : umin ≤ umax) (hu1 : umax ≤ 1) (hv0 : 0 ≤ vmin) (hv : vmin ≤ vmax) (hv1 : vmax ≤ 1)
    (a : Act K) (b : Option K) (h : act P best (umin, umax) (vmin, vmax) = some (a, b)) :
    match a with
    | .ret t => Good P.S t
    | .split nu nv => (umin ≤ nu ∧ nu ≤ umax) ∧ (vmin ≤ nv ∧ nv ≤ vmax) := by
  have humax0 : 0 ≤ umax := le_trans hu0 hu
  have humin1 : umin ≤ 1 := le_trans hu hu1
  have hvmax0 : 0 ≤ vmax := le_trans hv0 hv
  have hvmin1 : vmin ≤ 1 := le_trans hv hv1
  have hmidu := mid_between umin umax hu0 hu hu1
  have hmidv := mid_between vmin vmax hv0 hv hv1
  have c1 : Good P.S (P.S umin vmin, umin, vmin) := ⟨⟨umin, vmin, hu0, humin1, hv0, hvmin1, rfl⟩, hu0, humin1, hv0, hvmin1⟩
  have c2 : Good P.S (P.S umin vmax, umin, vmax) := ⟨⟨umin, vmax, hu0, humin1, hvmax0, hv1, rfl⟩, hu0, humin1, hvmax0, hv1⟩
  have c3 : Good P.S (P.S umax vmin, umax, vmin) := ⟨⟨umax, vmin, humax0, hu1, hv0, hvmin1, rfl⟩, humax0, hu1, hv0, hvmin1⟩
  have c4 : Good P.S (P.S umax vmax, umax, vmax) := ⟨⟨umax, vmax, humax0, hu1, hvmax0, hv1, rfl⟩, humax0, hu1, hvmax0, hv1⟩
  simp only [act] at h
  cases hsv : minBy [(P.S umin vmin, umin, vmin), (P.S umin vmax, umin, vmax),
                     (P.S umax vmin, umax, vmin), (P.S umax vmax, umax, vmax)] with
  | none => rw [hsv] at h; simp at h
  | some x =>
    rw [hsv] at h
    simp only at h
    have ha := minBy_mem _ _ hsv
    have halpha : Realised P.S (x.1, (umin + umax) / 2, (vmin + vmax) / 2) := by
      simp only [List.mem_cons, List.mem_nil_iff, or_false] at ha
      rcases ha with rfl | rfl | rfl | rfl
      · exact c1.1
      · exact c2.1
      · exact c3.1
      · exact c4.1
    have gmid : Good P.S (x.1, (umin + umax) / 2, (vmin + vmax) / 2) :=
      ⟨halpha, hmidu.1, hmidu.2, hmidv.1, hmidv.2⟩
    split_ifs at h
    all_goals (simp only [Option.some.injEq, Prod.mk.injEq] at h; obtain ⟨rfl, _⟩ := h)
    all_goals (first | exact gmid | exact c1 | exact c2 | exact c3 | exact c4 | skip)
    have hb := minIJ_bound P
    have fu := frac_unit (K := K) (minIJ P).1 (2 * P.n) (by omega) hb.1
    have fv := frac_unit (K := K) (minIJ P).2 (2 * P.m) (by omega) hb.2
    exact ⟨between umin umax _ hu fu.1 fu.2, between vmin vmax _ hv fv.1 fv.2⟩

/-- **realised**: for every surface `S`, coefficient table `D`, tolerance, running best value and fuel,
    a call on a sub-rectangle of the unit square returns (if it returns) a value `S a b` with
    `(a, b)` in the unit square, and parameters in [0,1]. -/
theorem minDist_good (P : Params K) (hn : 0 < P.n) (hm : 0 < P.m) :
    ∀ (fuel : Nat) (best : Option K) (umin umax vmin vmax : K) (r : Triple K) (b' : Option K),
      0 ≤ umin → umin ≤ umax → umax ≤ 1 → 0 ≤ vmin → vmin ≤ vmax → vmax ≤ 1 →
      minDist P fuel best (umin, umax) (vmin, vmax) = some (r, b') → Good P.S r := by
  intro fuel
  induction fuel with
  | zero => intro best umin umax vmin vmax r b' _ _ _ _ _ _ h; simp [minDist] at h
  | succ fuel ih =>
    intro best umin umax vmin vmax r b' hu0 hu hu1 hv0 hv hv1 h
    simp only [minDist] at h
    cases hact : act P best (umin, umax) (vmin, vmax) with
    | none => rw [hact] at h; simp at h
    | some ab =>
      obtain ⟨a, b⟩ := ab
      have hg := act_good P hn hm best umin umax vmin vmax hu0 hu hu1 hv0 hv hv1 a b hact
      rw [hact] at h
      cases a with
      | ret t =>
        simp only [Option.some.injEq, Prod.mk.injEq] at h
        obtain ⟨rfl, _⟩ := h
        exact hg
      | split nu nv =>
        obtain ⟨bu, bv⟩ := hg
        simp only at h
        cases h1 : minDist P fuel b (umin, nu) (vmin, nv) with
        | none => rw [h1] at h; simp at h
        | some x1 =>
          obtain ⟨r1, b1⟩ := x1
          rw [h1] at h; simp only at h
          cases h2 : minDist P fuel b1 (umin, nu) (nv, vmax) with
          | none => rw [h2] at h; simp at h
          | some x2 =>
            obtain ⟨r2, b2⟩ := x2
            rw [h2] at h; simp only at h
            cases h3 : minDist P fuel b2 (nu, umax) (vmin, nv) with
            | none => rw [h3] at h; simp at h
            | some x3 =>
              obtain ⟨r3, b3⟩ := x3
              rw [h3] at h; simp only at h
              cases h4 : minDist P fuel b3 (nu, umax) (nv, vmax) with
              | none => rw [h4] at h; simp at h
              | some x4 =>
                obtain ⟨r4, b4⟩ := x4
                rw [h4] at h; simp only at h
                have g1 := ih _ _ _ _ _ _ _ hu0 bu.1 (le_trans bu.2 hu1) hv0 bv.1 (le_trans bv.2 hv1) h1
                have g2 := ih _ _ _ _ _ _ _ hu0 bu.1 (le_trans bu.2 hu1) (le_trans hv0 bv.1) bv.2 hv1 h2
                have g3 := ih _ _ _ _ _ _ _ (le_trans hu0 bu.1) bu.2 hu1 hv0 bv.1 (le_trans bv.2 hv1) h3
                have g4 := ih _ _ _ _ _ _ _ (le_trans hu0 bu.1) bu.2 hu1 (le_trans hv0 bv.1) bv.2 hv1 h4
                cases h5 : minBy [r1, r2, r3, r4] with
                | none => rw [h5] at h; simp at h
                | some rr =>
                  rw [h5] at h
                  simp only [Option.some.injEq, Prod.mk.injEq] at h
                  obtain ⟨rfl, _⟩ := h
                  have hm := minBy_mem _ _ h5
                  simp only [List.mem_cons, List.mem_nil_iff, or_false] at hm
                  rcases hm with rfl | rfl | rfl | rfl
                  · exact g1
                  · exact g2
                  · exact g3
                  · exact g4

/-- Consequences for `curveDistance`: with `S` the generated surface (part 1: the squared distance of
    the two curves' points), the reported squared distance is non-negative and lies between the
    least and the greatest value of `S` over the unit square. -/
theorem minDist_between (P : Params K) (hn : 0 < P.n) (hm : 0 < P.m) (lo hi : K)
    (hlo : ∀ a b, 0 ≤ a → a ≤ 1 → 0 ≤ b → b ≤ 1 → lo ≤ P.S a b)
    (hhi : ∀ a b, 0 ≤ a → a ≤ 1 → 0 ≤ b → b ≤ 1 → P.S a b ≤ hi)
    (fuel : Nat) (r : Triple K) (b' : Option K)
    (h : minDist P fuel none (0, 1) (0, 1) = some (r, b')) :
    lo ≤ r.1 ∧ r.1 ≤ hi ∧ 0 ≤ r.2.1 ∧ r.2.1 ≤ 1 ∧ 0 ≤ r.2.2 ∧ r.2.2 ≤ 1 := by
  obtain ⟨⟨a, b, ha0, ha1, hb0, hb1, he⟩, hu⟩ :=
    minDist_good P hn hm fuel none 0 1 0 1 r b' (le_refl _) zero_le_one (le_refl _) (le_refl _) zero_le_one (le_refl _) h
  rw [he]
  exact ⟨hlo a b ha0 ha1 hb0 hb1, hhi a b ha0 ha1 hb0 hb1, hu⟩

/-- squared distances are non-negative, so (with part 1) the reported value is ≥ 0 -/
theorem sqdist_nonneg (ax ay bx by' : K) : 0 ≤ (ax - bx) ^ 2 + (ay - by') ^ 2 := by positivity

end C20
