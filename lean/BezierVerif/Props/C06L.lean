/-
  C06 — `CubicBezier.hasLoop`: when the canonical-form test returns two parameters they evaluate to the same point
  (and are distinct).  About the regenerated definition `cubic_hasLoop` with the real square root.
-/
import BezierVerif.Gen.Inter
import BezierVerif.Gen.Eval
import Mathlib.Analysis.SpecialFunctions.Sqrt
import Mathlib.Tactic.Ring
import Mathlib.Tactic.Linarith
import Mathlib.Tactic.FieldSimp
import Mathlib.Tactic.LinearCombination
import Mathlib.Tactic.Positivity

set_option linter.unusedVariables false
set_option maxHeartbeats 4000000

namespace C06L
open Gen

/-- algebraic core: if s = t1 + t2 and p = t1 t2 satisfy s·d1 = d2 and p·d1² = d2² − d1 d3, where (d1, d2, d3) are the
    canonical-form determinants of the cubic's power-basis coefficients, then the cubic takes the same value at t1 and t2 -/
theorem same_point_core (x0 x1 x2 x3 t1 t2 d1 d2 d3 k : ℝ)
    (hd : d1 ≠ 0) (hs : (t1 + t2) * d1 = d2) (hp : t1 * t2 * (d1 * d1) = d2 * d2 - d1 * d3)
    (hk : (3 * (x1 - x0)) * d1 + (3 * (x0 - 2 * x1 + x2)) * d2 + (-x0 + 3 * x1 - 3 * x2 + x3) * d3 = 0) :
    cubic_pointAtTime_x x0 k x1 k x2 k x3 k t1 = cubic_pointAtTime_x x0 k x1 k x2 k x3 k t2 := by
  have key : d1 * d1 * (cubic_pointAtTime_x x0 k x1 k x2 k x3 k t1 - cubic_pointAtTime_x x0 k x1 k x2 k x3 k t2) = 0 := by
    simp only [gen_def]
    linear_combination (t1 - t2) * (((3 * (x0 - 2 * x1 + x2)) * d1 + (-x0 + 3 * x1 - 3 * x2 + x3) * ((t1 + t2) * d1 + d2)) * hs
      - (-x0 + 3 * x1 - 3 * x2 + x3) * hp + d1 * hk)
  have : cubic_pointAtTime_x x0 k x1 k x2 k x3 k t1 - cubic_pointAtTime_x x0 k x1 k x2 k x3 k t2 = 0 := by
    rcases mul_eq_zero.mp key with h | h
    · exact absurd (mul_self_eq_zero.mp h) hd
    · exact h
  linarith

theorem same_point_core_y (y0 y1 y2 y3 t1 t2 d1 d2 d3 k : ℝ)
    (hd : d1 ≠ 0) (hs : (t1 + t2) * d1 = d2) (hp : t1 * t2 * (d1 * d1) = d2 * d2 - d1 * d3)
    (hk : (3 * (y1 - y0)) * d1 + (3 * (y0 - 2 * y1 + y2)) * d2 + (-y0 + 3 * y1 - 3 * y2 + y3) * d3 = 0) :
    cubic_pointAtTime_y k y0 k y1 k y2 k y3 t1 = cubic_pointAtTime_y k y0 k y1 k y2 k y3 t2 := by
  have key : d1 * d1 * (cubic_pointAtTime_y k y0 k y1 k y2 k y3 t1 - cubic_pointAtTime_y k y0 k y1 k y2 k y3 t2) = 0 := by
    simp only [gen_def]
    linear_combination (t1 - t2) * (((3 * (y0 - 2 * y1 + y2)) * d1 + (-y0 + 3 * y1 - 3 * y2 + y3) * ((t1 + t2) * d1 + d2)) * hs
      - (-y0 + 3 * y1 - 3 * y2 + y3) * hp + d1 * hk)
  have : cubic_pointAtTime_y k y0 k y1 k y2 k y3 t1 - cubic_pointAtTime_y k y0 k y1 k y2 k y3 t2 = 0 := by
    rcases mul_eq_zero.mp key with h | h
    · exact absurd (mul_self_eq_zero.mp h) hd
    · exact h
  linarith

/-- **loop parameters**: whenever `hasLoop` returns a pair (t1, t2) — for any cubic, real square root — the curve's points at
    t1 and t2 coincide and t1 ≠ t2.  (Whether both lie in (0,1) is what `getSelfIntersections` then tests.) -/
theorem loop_params (p0x p0y p1x p1y p2x p2y p3x p3y t1 t2 : ℝ)
    (h : cubic_hasLoop Real.sqrt p0x p0y p1x p1y p2x p2y p3x p3y = [t1, t2]) :
    cubic_pointAtTime_x p0x p0y p1x p1y p2x p2y p3x p3y t1 = cubic_pointAtTime_x p0x p0y p1x p1y p2x p2y p3x p3y t2 ∧
    cubic_pointAtTime_y p0x p0y p1x p1y p2x p2y p3x p3y t1 = cubic_pointAtTime_y p0x p0y p1x p1y p2x p2y p3x p3y t2 ∧
    t1 ≠ t2 := by
  unfold cubic_hasLoop at h
  set a3 := p2x * (p1y - p0y) + p2y * (p0x - p1x) + p1x * p0y - p1y * p0x with ha3
  set a2 := p1x * (p0y - p3y) + p1y * (p3x - p0x) + p0x * p3y - p0y * p3x with ha2
  set a1 := p0x * (p3y - p2y) + p0y * (p2x - p3x) + p3x * p2y - p3y * p2x with ha1
  set d3 := 3 * a3 with hd3
  set d2 := 3 * a3 - a2 with hd2
  set d1 := 3 * a3 - a2 - a2 + a1 with hd1
  set N := Real.sqrt (d1 * d1 + d2 * d2 + d3 * d3) with hN
  by_cases hn : N ≠ 0
  · rw [if_pos hn] at h
    split_ifs at h with hge
    · -- the genuine branch
      set w := 1 / N with hw
      have hwne : w ≠ 0 := by rw [hw]; exact one_div_ne_zero hn
      simp only [List.cons.injEq, and_true] at h
      obtain ⟨e1', e2'⟩ := h
      have hdd : 3 * (d2 * w) * (d2 * w) - 4 * (d1 * w) * (d3 * w) < 0 := not_le.mp hge
      set f1 := Real.sqrt (-(3 * (d2 * w) * (d2 * w) - 4 * (d1 * w) * (d3 * w))) with hf1
      have hf1sq : f1 * f1 = -(3 * (d2 * w) * (d2 * w) - 4 * (d1 * w) * (d3 * w)) := Real.mul_self_sqrt (by linarith)
      have hf1pos : 0 < f1 := Real.sqrt_pos.mpr (by linarith)
      have hd1ne : d1 ≠ 0 := by
        intro h0; rw [h0] at hdd
        have : 0 ≤ 3 * (d2 * w) * (d2 * w) := by nlinarith [mul_self_nonneg (d2 * w)]
        nlinarith
      have hf2 : 2 * (d1 * w) ≠ 0 := mul_ne_zero (by norm_num) (mul_ne_zero hd1ne hwne)
      have e1 : (d2 * w + f1) / (2 * (d1 * w)) = t1 := e1'
      have e2 : (d2 * w - f1) / (2 * (d1 * w)) = t2 := e2'
      have hs : (t1 + t2) * d1 = d2 := by
        rw [← e1, ← e2]; field_simp; ring
      have hp : t1 * t2 * (d1 * d1) = d2 * d2 - d1 * d3 := by
        rw [← e1, ← e2]
        have : (d2 * w + f1) / (2 * (d1 * w)) * ((d2 * w - f1) / (2 * (d1 * w))) * (d1 * d1)
            = ((d2 * w) * (d2 * w) - f1 * f1) * (d1 * d1) / (4 * (d1 * w) * (d1 * w)) := by field_simp; ring
        rw [this, hf1sq, div_eq_iff (by positivity)]
        ring
      refine ⟨?_, ?_, ?_⟩
      · have := same_point_core p0x p1x p2x p3x t1 t2 d1 d2 d3 0 hd1ne hs hp (by rw [hd1, hd2, hd3, ha1, ha2, ha3]; ring)
        simp only [gen_def] at this ⊢; linarith
      · have := same_point_core_y p0y p1y p2y p3y t1 t2 d1 d2 d3 0 hd1ne hs hp (by rw [hd1, hd2, hd3, ha1, ha2, ha3]; ring)
        simp only [gen_def] at this ⊢; linarith
      · intro heq
        rw [← e1, ← e2] at heq
        have : (d2 * w + f1) = (d2 * w - f1) := by
          have h3 := congrArg (· * (2 * (d1 * w))) heq
          simp only [div_mul_cancel₀ _ hf2] at h3
          exact h3
        linarith

  · rw [if_neg hn] at h
    split_ifs at h with hge'
    · -- distance = 0: every di·0 = 0, the discriminant test reads 0 ≥ 0 and answers False
      exfalso; apply hge'; simp

end C06L
