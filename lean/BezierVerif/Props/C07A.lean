/-
  C07, Part A — value level: every operation maps connected chains to connected chains, keeps a
  closed path closed, and moves the end points as stated.  `Op.apply` is the value-level meaning of an
  operation; Props/C07.lean proves that the heap-level step computes exactly `Op.apply` (step_refines).
-/
import BezierVerif.Props.C07

set_option linter.unusedSectionVars false

namespace C07
open HeapModel
variable {P : Type} [Inhabited P]

def sOf (v : SegVal P) : P := v.headD default
def eOf (v : SegVal P) : P := v.getLastD default

/-- `l` is a non-empty connected chain of segments from point `a` to point `b` -/
inductive ChainFT : P → P → List (SegVal P) → Prop
  | single (v : SegVal P) : ChainFT (sOf v) (eOf v) [v]
  | cons (v : SegVal P) (rest : List (SegVal P)) (b : P) : ChainFT (eOf v) b rest → ChainFT (sOf v) b (v :: rest)

theorem chain_append {a b c : P} {l1 l2 : List (SegVal P)} (h1 : ChainFT a b l1) (h2 : ChainFT b c l2) :
    ChainFT a c (l1 ++ l2) := by
  induction h1 with
  | single v => exact ChainFT.cons v l2 c h2
  | cons v rest b' _ ih => exact ChainFT.cons v (rest ++ l2) c (ih h2)

theorem chain_ne {a b : P} {l : List (SegVal P)} (h : ChainFT a b l) : l ≠ [] := by
  cases h <;> simp

/-- each segment of `vals` is replaced by a non-empty chain between the `g`-images of its end points -/
inductive Refines (g : P → P) : List (SegVal P) → List (SegVal P) → Prop
  | nil : Refines g [] []
  | cons (v : SegVal P) (vs piece ws : List (SegVal P)) :
      ChainFT (g (sOf v)) (g (eOf v)) piece → Refines g vs ws → Refines g (v :: vs) (piece ++ ws)

/-- **chains go to chains**, start ↦ g(start), end ↦ g(end); in particular a path that ends where it
    starts still does. -/
theorem refines_chain (g : P → P) {a b : P} {vals ws : List (SegVal P)} (hc : ChainFT a b vals) (hr : Refines g vals ws) :
    ChainFT (g a) (g b) ws := by
  induction hc generalizing ws with
  | single v =>
    cases hr with
    | cons _ _ piece ws' hp hr' =>
      cases hr'
      simpa using hp
  | cons v rest b' _ ih =>
    cases hr with
    | cons _ _ piece ws' hp hr' => exact chain_append hp (ih hr')

/-! ### the structural result of each operation -/

theorem getD_of_drop (vals0 : List (SegVal P)) (k : Nat) (v : SegVal P) (rest : List (SegVal P))
    (h : vals0.drop k = v :: rest) : vals0.getD k [] = v ∧ vals0.drop (k + 1) = rest := by
  constructor
  · rw [List.getD_eq_getElem?_getD]
    have : vals0[k]? = (vals0.drop k)[0]? := by simp
    rw [this, h]; rfl
  · have : vals0.drop (k + 1) = (vals0.drop k).drop 1 := by simp [List.drop_drop, Nat.add_comm]
    rw [this, h]; rfl

/-- result of `mutateAll` / `quadsToCubics`: position by position, the new value if one is given -/
def mutResult : List (SegVal P) → List (Option (SegVal P)) → List (SegVal P)
  | [], _ => []
  | v :: vs, [] => v :: mutResult vs []
  | v :: vs, none :: ms => v :: mutResult vs ms
  | _ :: vs, some w :: ms => w :: mutResult vs ms

theorem zipMut_vals (vals0 : List (SegVal P)) : ∀ (n k : Nat) (ms : List (Option (SegVal P))),
    (vals0.drop k).length = n → (Op.zipMut k n ms).map (VSlot.val vals0) = mutResult (vals0.drop k) ms := by
  intro n
  induction n with
  | zero =>
    intro k ms hl
    have : vals0.drop k = [] := List.length_eq_zero_iff.mp hl
    rw [this]; simp [Op.zipMut, mutResult]
  | succ n ih =>
    intro k ms hl
    cases hd : vals0.drop k with
    | nil => rw [hd] at hl; simp at hl
    | cons v rest =>
      obtain ⟨g1, g2⟩ := getD_of_drop vals0 k v rest hd
      have hl' : (vals0.drop (k + 1)).length = n := by rw [g2]; rw [hd] at hl; simpa using hl
      cases ms with
      | nil => simp only [Op.zipMut, List.map_cons, VSlot.val, mutResult, g1]; rw [ih (k + 1) [] hl', g2]
      | cons m ms =>
        cases m with
        | none => simp only [Op.zipMut, List.map_cons, VSlot.val, mutResult, g1]; rw [ih (k + 1) ms hl', g2]
        | some w => simp only [Op.zipMut, List.map_cons, VSlot.val, mutResult]; rw [ih (k + 1) ms hl', g2]

theorem zipReplace_vals (vals0 : List (SegVal P)) : ∀ (n k : Nat) (ms : List (Option (SegVal P))),
    (vals0.drop k).length = n → (Op.zipReplace k n ms).map (VSlot.val vals0) = mutResult (vals0.drop k) ms := by
  intro n
  induction n with
  | zero =>
    intro k ms hl
    have : vals0.drop k = [] := List.length_eq_zero_iff.mp hl
    rw [this]; simp [Op.zipReplace, mutResult]
  | succ n ih =>
    intro k ms hl
    cases hd : vals0.drop k with
    | nil => rw [hd] at hl; simp at hl
    | cons v rest =>
      obtain ⟨g1, g2⟩ := getD_of_drop vals0 k v rest hd
      have hl' : (vals0.drop (k + 1)).length = n := by rw [g2]; rw [hd] at hl; simpa using hl
      cases ms with
      | nil => simp only [Op.zipReplace, List.map_cons, VSlot.val, mutResult, g1]; rw [ih (k + 1) [] hl', g2]
      | cons m ms =>
        cases m with
        | none => simp only [Op.zipReplace, List.map_cons, VSlot.val, mutResult, g1]; rw [ih (k + 1) ms hl', g2]
        | some w => simp only [Op.zipReplace, List.map_cons, VSlot.val, mutResult]; rw [ih (k + 1) ms hl', g2]

/-- result of `split`: the pieces where given, the segment itself otherwise -/
def splitResult : List (SegVal P) → List (List (SegVal P)) → List (SegVal P)
  | [], _ => []
  | v :: vs, [] => v :: splitResult vs []
  | v :: vs, [] :: ps => v :: splitResult vs ps
  | _ :: vs, (w :: ws) :: ps => (w :: ws) ++ splitResult vs ps

theorem splitSlots_vals (vals0 : List (SegVal P)) : ∀ (n k : Nat) (ps : List (List (SegVal P))),
    (vals0.drop k).length = n → (Op.splitSlots k n ps).map (VSlot.val vals0) = splitResult (vals0.drop k) ps := by
  intro n
  induction n with
  | zero =>
    intro k ps hl
    have : vals0.drop k = [] := List.length_eq_zero_iff.mp hl
    rw [this]; simp [Op.splitSlots, splitResult]
  | succ n ih =>
    intro k ps hl
    cases hd : vals0.drop k with
    | nil => rw [hd] at hl; simp at hl
    | cons v rest =>
      obtain ⟨g1, g2⟩ := getD_of_drop vals0 k v rest hd
      have hl' : (vals0.drop (k + 1)).length = n := by rw [g2]; rw [hd] at hl; simpa using hl
      cases ps with
      | nil => simp only [Op.splitSlots, List.map_cons, VSlot.val, splitResult, g1]; rw [ih (k + 1) [] hl', g2]
      | cons p ps =>
        cases p with
        | nil => simp only [Op.splitSlots, List.map_cons, VSlot.val, splitResult, g1]; rw [ih (k + 1) ps hl', g2]
        | cons w ws =>
          simp only [Op.splitSlots, List.map_append, List.map_cons, VSlot.val, splitResult, List.map_map]
          rw [ih (k + 1) ps hl', g2]
          simp [Function.comp_def, VSlot.val]

/-! ### per-operation theorems -/

theorem sOf_map (f : P → P) (v : SegVal P) (hv : v ≠ []) : sOf (v.map f) = f (sOf v) := by
  cases v with
  | nil => exact absurd rfl hv
  | cons a r => rfl

theorem eOf_map (f : P → P) (v : SegVal P) (hv : v ≠ []) : eOf (v.map f) = f (eOf v) := by
  unfold eOf
  cases v with
  | nil => exact absurd rfl hv
  | cons a r =>
    rw [List.getLastD_eq_getLast?, List.getLastD_eq_getLast?, List.getLast?_map]
    have : (a :: r).getLast? = some ((a :: r).getLast (by simp)) := List.getLast?_eq_some_getLast (by simp)
    rw [this]; rfl

/-- translate / scale / rotate (any point map `f`): a chain from a to b becomes a chain from f a to f b -/
theorem mapPts_chain (f : P → P) {a b : P} (vals : List (SegVal P)) (hne : ∀ v ∈ vals, v ≠ [])
    (hc : ChainFT a b vals) : ChainFT (f a) (f b) ((Op.mapPts f).apply vals) := by
  apply refines_chain f hc
  have : (Op.mapPts f).apply vals = vals.map (fun v => v.map f) := by
    simp [Op.apply, Op.slots, List.map_map, Function.comp_def, VSlot.val]
  rw [this]
  have key : ∀ (l : List (SegVal P)), (∀ v ∈ l, v ≠ []) → Refines f l (l.map fun v => v.map f) := by
    intro l
    induction l with
    | nil => intro _; exact Refines.nil
    | cons v vs ih =>
      intro hne'
      have hv := hne' v (by simp)
      have := Refines.cons (g := f) v vs [v.map f] (vs.map fun v => v.map f)
        (by have h := ChainFT.single (v.map f); rwa [sOf_map f v hv, eOf_map f v hv] at h)
        (ih (fun w hw => hne' w (List.mem_cons_of_mem _ hw)))
      simpa using this
  exact key vals hne

/-- `reconvert` (to nodes and back): the same chain -/
theorem reconvert_same (vals : List (SegVal P)) : (Op.reconvert : Op P).apply vals = vals := by
  simp [Op.apply, Op.slots, List.map_map, Function.comp_def, VSlot.val]

theorem sOf_reverse (v : SegVal P) : sOf v.reverse = eOf v := by
  unfold sOf eOf
  rw [List.headD_eq_head?_getD, List.head?_reverse, List.getLastD_eq_getLast?]
theorem eOf_reverse (v : SegVal P) : eOf v.reverse = sOf v := by
  unfold sOf eOf
  rw [List.getLastD_eq_getLast?, List.getLast?_reverse, List.headD_eq_head?_getD]

theorem reverse_chain_aux {a b : P} {vals : List (SegVal P)} (hc : ChainFT a b vals) :
    ChainFT b a ((vals.map List.reverse).reverse) := by
  induction hc with
  | single v =>
    have := ChainFT.single v.reverse
    rwa [sOf_reverse, eOf_reverse] at this
  | cons v rest b' _ ih =>
    simp only [List.map_cons, List.reverse_cons]
    have h1 := ChainFT.single v.reverse
    rw [sOf_reverse, eOf_reverse] at h1
    exact chain_append ih h1

/-- `reverse`: a chain from a to b becomes a chain from b to a -/
theorem reverse_chain {a b : P} (vals : List (SegVal P)) (hc : ChainFT a b vals) :
    ChainFT b a ((Op.reverse : Op P).apply vals) := by
  have : (Op.reverse : Op P).apply vals = (vals.map List.reverse).reverse := by
    simp [Op.apply, Op.slots, List.map_reverse, List.map_map, Function.comp_def, VSlot.val]
  rw [this]; exact reverse_chain_aux hc

/-- hypotheses on the numerical results fed to `mutateAll` / `quadsToCubics`: position by position the
    resulting value starts at g(old start) and ends at g(old end) (g = rounding for `round`, g = id for
    `balance` and `quadraticsToCubics`) -/
def MutOK (g : P → P) : List (SegVal P) → List (Option (SegVal P)) → Prop
  | [], _ => True
  | v :: vs, [] => (g (sOf v) = sOf v ∧ g (eOf v) = eOf v) ∧ MutOK g vs []
  | v :: vs, none :: ms => (g (sOf v) = sOf v ∧ g (eOf v) = eOf v) ∧ MutOK g vs ms
  | v :: vs, some w :: ms => (sOf w = g (sOf v) ∧ eOf w = g (eOf v)) ∧ MutOK g vs ms

theorem mutResult_refines (g : P → P) : ∀ (vals : List (SegVal P)) (ms : List (Option (SegVal P))),
    MutOK g vals ms → Refines g vals (mutResult vals ms) := by
  intro vals
  induction vals with
  | nil => intro ms _; exact Refines.nil
  | cons v vs ih =>
    intro ms h
    cases ms with
    | nil =>
      obtain ⟨⟨h1, h2⟩, h3⟩ := h
      have := Refines.cons (g := g) v vs [v] (mutResult vs []) (by rw [h1, h2]; exact ChainFT.single v) (ih [] h3)
      simpa [mutResult] using this
    | cons m ms =>
      cases m with
      | none =>
        obtain ⟨⟨h1, h2⟩, h3⟩ := h
        have := Refines.cons (g := g) v vs [v] (mutResult vs ms) (by rw [h1, h2]; exact ChainFT.single v) (ih ms h3)
        simpa [mutResult] using this
      | some w =>
        obtain ⟨⟨h1, h2⟩, h3⟩ := h
        have := Refines.cons (g := g) v vs [w] (mutResult vs ms) (by rw [← h1, ← h2]; exact ChainFT.single w) (ih ms h3)
        simpa [mutResult] using this

/-- `round` / `balance` (in place): chains stay chains, end points move by g -/
theorem mutateAll_chain (g : P → P) {a b : P} (vals : List (SegVal P)) (ms : List (Option (SegVal P)))
    (hok : MutOK g vals ms) (hc : ChainFT a b vals) : ChainFT (g a) (g b) ((Op.mutateAll ms).apply vals) := by
  apply refines_chain g hc
  have : (Op.mutateAll ms).apply vals = mutResult vals ms := by
    simp only [Op.apply, Op.slots]
    have := zipMut_vals vals vals.length 0 ms (by simp)
    simpa using this
  rw [this]; exact mutResult_refines g vals ms hok

/-- `quadraticsToCubics` (list mutated in place): same -/
theorem quadsToCubics_chain {a b : P} (vals : List (SegVal P)) (ms : List (Option (SegVal P)))
    (hok : MutOK id vals ms) (hc : ChainFT a b vals) : ChainFT a b ((Op.quadsToCubics ms).apply vals) := by
  have h := refines_chain id hc (ws := (Op.quadsToCubics ms).apply vals) (by
    have : (Op.quadsToCubics ms).apply vals = mutResult vals ms := by
      simp only [Op.apply, Op.slots]
      have := zipReplace_vals vals vals.length 0 ms (by simp)
      simpa using this
    rw [this]; exact mutResult_refines id vals ms hok)
  simpa using h

/-- hypothesis on the pieces fed to `split` (proved for the real walk: C03.cutSeg_chain) -/
def SplitOK : List (SegVal P) → List (List (SegVal P)) → Prop
  | [], _ => True
  | _ :: vs, [] => SplitOK vs []
  | _ :: vs, [] :: ps => SplitOK vs ps
  | v :: vs, (w :: ws) :: ps => ChainFT (sOf v) (eOf v) (w :: ws) ∧ SplitOK vs ps

theorem splitResult_refines : ∀ (vals : List (SegVal P)) (ps : List (List (SegVal P))),
    SplitOK vals ps → Refines id vals (splitResult vals ps) := by
  intro vals
  induction vals with
  | nil => intro ps _; exact Refines.nil
  | cons v vs ih =>
    intro ps h
    cases ps with
    | nil =>
      have := Refines.cons (g := id) v vs [v] (splitResult vs []) (ChainFT.single v) (ih [] h)
      simpa [splitResult] using this
    | cons p ps =>
      cases p with
      | nil =>
        have := Refines.cons (g := id) v vs [v] (splitResult vs ps) (ChainFT.single v) (ih ps h)
        simpa [splitResult] using this
      | cons w ws =>
        obtain ⟨h1, h2⟩ := h
        exact Refines.cons (g := id) v vs (w :: ws) (splitResult vs ps) h1 (ih ps h2)

/-- `splitAtPoints` / `addExtremes`: same start, same end, still a chain (so every original node is kept) -/
theorem split_chain {a b : P} (vals : List (SegVal P)) (ps : List (List (SegVal P)))
    (hok : SplitOK vals ps) (hc : ChainFT a b vals) : ChainFT a b ((Op.split ps).apply vals) := by
  have h := refines_chain id hc (ws := (Op.split ps).apply vals) (by
    have : (Op.split ps).apply vals = splitResult vals ps := by
      simp only [Op.apply, Op.slots]
      have := splitSlots_vals vals vals.length 0 ps (by simp)
      simpa using this
    rw [this]; exact splitResult_refines vals ps hok)
  simpa using h

/-- `append` (value level): the receiver's chain followed by a chain that starts where it ends -/
theorem append_chain {a b c : P} (vals extra : List (SegVal P)) (hc : ChainFT a b vals) (he : ChainFT b c extra) :
    ChainFT a c ((Op.appendVals extra).apply vals) := by
  have : (Op.appendVals extra).apply vals = vals ++ extra := by
    simp only [Op.apply, Op.slots, List.map_append, List.map_map]
    congr 1
    · apply List.ext_getElem
      · simp
      · intro i h1 h2
        simp [VSlot.val, List.getD_eq_getElem?_getD, List.getElem?_eq_getElem h2]
    · simp [Function.comp_def, VSlot.val]
  rw [this]; exact chain_append hc he

/-! ### removeIrrelevantSegments: merging a segment into its predecessor -/

/-- value-level walk of removeIrrelevantSegments with the kept segments so far in `acc` -/
def removeResult : List (SegVal P) → List (SegVal P) → List Bool → List (SegVal P)
  | acc, [], _ => acc
  | acc, v :: vs, [] => removeResult (acc ++ [v]) vs []
  | acc, v :: vs, false :: ms => removeResult (acc ++ [v]) vs ms
  | acc, v :: vs, true :: ms => removeResult (acc.dropLast ++ [Op.mergeVal (acc.getLastD []) v]) vs ms

theorem lastVal_eq (vals0 : List (SegVal P)) (acc : List (VSlot P)) :
    Op.lastVal vals0 acc = (acc.map (VSlot.val vals0)).getLastD [] := by
  unfold Op.lastVal
  rw [List.getLastD_eq_getLast?, List.getLast?_map]
  cases acc.getLast? <;> rfl

theorem removeSlots_vals (vals0 : List (SegVal P)) : ∀ (n k : Nat) (acc : List (VSlot P)) (ms : List Bool),
    (vals0.drop k).length = n →
    (Op.removeSlots vals0 acc k n ms).map (VSlot.val vals0) = removeResult (acc.map (VSlot.val vals0)) (vals0.drop k) ms := by
  intro n
  induction n with
  | zero =>
    intro k acc ms hl
    have : vals0.drop k = [] := List.length_eq_zero_iff.mp hl
    rw [this]; simp [Op.removeSlots, removeResult]
  | succ n ih =>
    intro k acc ms hl
    cases hd : vals0.drop k with
    | nil => rw [hd] at hl; simp at hl
    | cons v rest =>
      obtain ⟨g1, g2⟩ := getD_of_drop vals0 k v rest hd
      have hl' : (vals0.drop (k + 1)).length = n := by rw [g2]; rw [hd] at hl; simpa using hl
      have g1' : vals0[k]?.getD [] = v := by rw [← List.getD_eq_getElem?_getD]; exact g1
      cases ms with
      | nil =>
        simp only [Op.removeSlots, removeResult]
        rw [ih (k + 1) _ [] hl', g2]; simp [VSlot.val, g1']
      | cons m ms =>
        cases m with
        | false =>
          simp only [Op.removeSlots, removeResult]
          rw [ih (k + 1) _ ms hl', g2]; simp [VSlot.val, g1']
        | true =>
          simp only [Op.removeSlots, removeResult]
          rw [ih (k + 1) _ ms hl', g2]
          simp [VSlot.val, g1', lastVal_eq, List.map_dropLast]

theorem chain_inv {a b : P} {l : List (SegVal P)} (h : ChainFT a b l) :
    ∃ v rest, l = v :: rest ∧ a = sOf v ∧ ((rest = [] ∧ b = eOf v) ∨ ChainFT (eOf v) b rest) := by
  cases h with
  | single v => exact ⟨v, [], rfl, rfl, Or.inl ⟨rfl, rfl⟩⟩
  | cons v rest _ h' => exact ⟨v, rest, rfl, rfl, Or.inr h'⟩

/-- a chain ending with `prev` can have `prev` replaced by any `w` with the same start -/
theorem chain_replace_last : ∀ (init : List (SegVal P)) (prev w : SegVal P) (a b : P),
    ChainFT a b (init ++ [prev]) → sOf w = sOf prev → ChainFT a (eOf w) (init ++ [w]) := by
  intro init
  induction init with
  | nil =>
    intro prev w a b h hs
    obtain ⟨v, rest, hl, ha, _⟩ := chain_inv h
    simp only [List.nil_append, List.cons.injEq] at hl
    obtain ⟨rfl, _⟩ := hl
    rw [ha, ← hs]; exact ChainFT.single w
  | cons x xs ih =>
    intro prev w a b h hs
    obtain ⟨v, rest, hl, ha, hr⟩ := chain_inv h
    simp only [List.cons_append, List.cons.injEq] at hl
    obtain ⟨rfl, rfl⟩ := hl
    rcases hr with ⟨h0, _⟩ | hr
    · simp at h0
    · rw [ha]; exact ChainFT.cons x _ _ (ih prev w _ _ hr hs)

theorem sOf_mergeVal (prev v : SegVal P) (hp : prev ≠ []) : sOf (Op.mergeVal prev v) = sOf prev := by
  cases prev with
  | nil => exact absurd rfl hp
  | cons a r => rfl

theorem eOf_mergeVal (prev v : SegVal P) (hp : prev ≠ []) (hv : 2 ≤ v.length) : eOf (Op.mergeVal prev v) = eOf v := by
  cases prev with
  | nil => exact absurd rfl hp
  | cons a r =>
    cases v with
    | nil => simp at hv
    | cons b t =>
      cases t with
      | nil => simp at hv
      | cons c t' => simp [Op.mergeVal, eOf, List.getLastD_eq_getLast?]

theorem removeResult_chain : ∀ (rest : List (SegVal P)) (acc : List (SegVal P)) (ms : List Bool) (a e b : P),
    (∀ v ∈ acc, v ≠ []) → (∀ v ∈ rest, 2 ≤ v.length) →
    ChainFT a e acc → (rest = [] ∧ e = b ∨ ChainFT e b rest) → ChainFT a b (removeResult acc rest ms) := by
  intro rest
  induction rest with
  | nil =>
    intro acc ms a e b _ _ hacc hr
    rcases hr with ⟨_, rfl⟩ | hr
    · simpa [removeResult] using hacc
    · exact absurd rfl (chain_ne hr)
  | cons v vs ih =>
    intro acc ms a e b hne hlen hacc hr
    have hv2 : 2 ≤ v.length := hlen v (by simp)
    have hvne : v ≠ [] := by intro h; rw [h] at hv2; simp at hv2
    have hlen' : ∀ w ∈ vs, 2 ≤ w.length := fun w hw => hlen w (List.mem_cons_of_mem _ hw)
    rcases hr with ⟨h0, _⟩ | hr
    · simp at h0
    -- the rest chain: starts at e = sOf v
    have hrest : e = sOf v ∧ (vs = [] ∧ eOf v = b ∨ ChainFT (eOf v) b vs) := by
      obtain ⟨v', rest', hl, ha, hr2⟩ := chain_inv hr
      simp only [List.cons.injEq] at hl
      obtain ⟨rfl, rfl⟩ := hl
      rcases hr2 with ⟨h0, hb⟩ | hr2
      · exact ⟨ha, Or.inl ⟨h0, hb.symm⟩⟩
      · exact ⟨ha, Or.inr hr2⟩
    obtain ⟨he, hr'⟩ := hrest
    have keep : ChainFT a (eOf v) (acc ++ [v]) := by
      rw [he] at hacc; exact chain_append hacc (ChainFT.single v)
    have hne_keep : ∀ w ∈ acc ++ [v], w ≠ [] := by
      intro w hw; rcases List.mem_append.mp hw with h | h
      · exact hne w h
      · simp at h; rw [h]; exact hvne
    cases ms with
    | nil => simp only [removeResult]; exact ih _ [] a (eOf v) b hne_keep hlen' keep hr'
    | cons m ms =>
      cases m with
      | false => simp only [removeResult]; exact ih _ ms a (eOf v) b hne_keep hlen' keep hr'
      | true =>
        simp only [removeResult]
        -- acc = init ++ [prev]
        have haccne : acc ≠ [] := chain_ne hacc
        obtain ⟨init, prev, rfl⟩ : ∃ init prev, acc = init ++ [prev] :=
          ⟨acc.dropLast, acc.getLast haccne, (List.dropLast_concat_getLast haccne).symm⟩
        have hprev : prev ≠ [] := hne prev (by simp)
        have hlast : (init ++ [prev]).getLastD [] = prev := by simp [List.getLastD_eq_getLast?]
        have hdrop : (init ++ [prev]).dropLast = init := by simp
        rw [hlast, hdrop]
        have hnew := chain_replace_last init prev (Op.mergeVal prev v) a e hacc (sOf_mergeVal prev v hprev)
        rw [eOf_mergeVal prev v hprev hv2] at hnew
        apply ih _ ms a (eOf v) b _ hlen' hnew hr'
        intro w hw
        rcases List.mem_append.mp hw with h | h
        · exact hne w (by simp [h])
        · simp at h; rw [h]
          cases prev with
          | nil => exact absurd rfl hprev
          | cons x xs => simp [Op.mergeVal]

/-- `removeIrrelevantSegments`, for every pattern of merge decisions: the chain keeps its start, its end and
    its connectivity (so a closed path stays closed) -/
theorem removeIrrelevant_chain {a b : P} (vals : List (SegVal P)) (merge : List Bool)
    (hlen : ∀ v ∈ vals, 2 ≤ v.length) (hc : ChainFT a b vals) :
    ChainFT a b ((Op.removeIrrelevant merge).apply vals) := by
  cases vals with
  | nil => exact absurd rfl (chain_ne hc)
  | cons v rest =>
    have hv2 := hlen v (by simp)
    have hvne : v ≠ [] := by intro h; rw [h] at hv2; simp at hv2
    have happly : (Op.removeIrrelevant merge).apply (v :: rest) = removeResult [v] rest merge := by
      simp only [Op.apply, Op.slots]
      have := removeSlots_vals (v :: rest) rest.length 1 [VSlot.keep 0] merge (by simp)
      simpa [VSlot.val] using this
    rw [happly]
    have hfirst : a = sOf v ∧ (rest = [] ∧ eOf v = b ∨ ChainFT (eOf v) b rest) := by
      obtain ⟨v', rest', hl, ha, hr2⟩ := chain_inv hc
      simp only [List.cons.injEq] at hl
      obtain ⟨rfl, rfl⟩ := hl
      rcases hr2 with ⟨h0, hb⟩ | hr2
      · exact ⟨ha, Or.inl ⟨h0, hb.symm⟩⟩
      · exact ⟨ha, Or.inr hr2⟩
    obtain ⟨ha, hr⟩ := hfirst
    rw [ha]
    exact removeResult_chain rest [v] merge (sOf v) (eOf v) b (by intro w hw; simp at hw; rw [hw]; exact hvne)
      (fun w hw => hlen w (List.mem_cons_of_mem _ hw)) (ChainFT.single v) hr

/-- non-vacuity: a two-segment chain over ℕ-points, reversed -/
example : ChainFT (0 : Nat) 2 [[0, 1], [1, 5, 2]] := ChainFT.cons [0, 1] [[1, 5, 2]] 2 (ChainFT.single [1, 5, 2])

end C07

namespace C07
open HeapModel
variable {P : Type} [Inhabited P]

/-! ### any history of operations -/

/-- side conditions on the numerical results handed to an operation (all of them are facts the real
    sub-procedures satisfy: `splitAtTime` pieces form a chain between the segment's ends — C03.cutSeg_chain;
    `rounded()` moves every point by the same map; `balance` / `toCubicBezier` keep the end points) -/
def OpOK (g : P → P) (vals : List (SegVal P)) : Op P → Prop
  | .mapPts _ => ∀ v ∈ vals, v ≠ []
  | .reverse => True
  | .split ps => SplitOK vals ps
  | .mutateAll ms => MutOK g vals ms
  | .quadsToCubics ms => MutOK id vals ms
  | .removeIrrelevant _ => ∀ v ∈ vals, 2 ≤ v.length
  | .reconvert => True
  | .appendVals extra => ∃ c, ChainFT (match vals.getLast? with | some v => eOf v | none => default) c extra

theorem chain_end_eq : ∀ {a b : P} {l : List (SegVal P)}, ChainFT a b l →
    (match l.getLast? with | some v => eOf v | none => default) = b := by
  intro a b l h
  induction h with
  | single v => rfl
  | cons v rest b' h' ih =>
    have hne := chain_ne h'
    have : (v :: rest).getLast? = rest.getLast? := by
      cases rest with
      | nil => exact absurd rfl hne
      | cons x xs => simp [List.getLast?_cons_cons]
    rw [this]; exact ih

/-- **one step**: a connected chain stays a connected chain under every operation (with its side condition);
    and if it was closed (ended where it started) it still is, unless the operation is `append`. -/
theorem op_chain (g : P → P) (op : Op P) {a b : P} (vals : List (SegVal P)) (hok : OpOK g vals op)
    (hc : ChainFT a b vals) : ∃ a' b', ChainFT a' b' (op.apply vals) ∧
      ((∀ e, op ≠ .appendVals e) → a = b → a' = b') := by
  cases op with
  | mapPts f => exact ⟨f a, f b, mapPts_chain f vals hok hc, fun _ h => by rw [h]⟩
  | reverse => exact ⟨b, a, reverse_chain vals hc, fun _ h => h.symm⟩
  | split ps => exact ⟨a, b, split_chain vals ps hok hc, fun _ h => h⟩
  | mutateAll ms => exact ⟨g a, g b, mutateAll_chain g vals ms hok hc, fun _ h => by rw [h]⟩
  | quadsToCubics ms => exact ⟨a, b, quadsToCubics_chain vals ms hok hc, fun _ h => h⟩
  | removeIrrelevant m => exact ⟨a, b, removeIrrelevant_chain vals m hok hc, fun _ h => h⟩
  | reconvert => exact ⟨a, b, by rw [reconvert_same]; exact hc, fun _ h => h⟩
  | appendVals extra =>
    obtain ⟨c, he⟩ := hok
    rw [chain_end_eq hc] at he
    exact ⟨a, c, append_chain vals extra hc he, fun hne _ => absurd rfl (hne extra)⟩

/-- **any history** (no bound on its length): if every operation's side condition holds when it is applied,
    the path is a connected chain after the whole history. -/
theorem history_chain (g : P → P) : ∀ (ops : List (Op P)) {a b : P} (vals : List (SegVal P)),
    ChainFT a b vals →
    (∀ (pre : List (Op P)) (op : Op P) (post : List (Op P)), ops = pre ++ op :: post →
        OpOK g (pre.foldl (fun v o => o.apply v) vals) op) →
    ∃ a' b', ChainFT a' b' (ops.foldl (fun v o => o.apply v) vals) := by
  intro ops
  induction ops with
  | nil => intro a b vals hc _; exact ⟨a, b, hc⟩
  | cons op rest ih =>
    intro a b vals hc hall
    have h0 : OpOK g vals op := hall [] op rest rfl
    obtain ⟨a', b', hc', _⟩ := op_chain g op vals h0 hc
    simp only [List.foldl_cons]
    apply ih (op.apply vals) hc'
    intro pre o post he
    have := hall (op :: pre) o post (by rw [he]; rfl)
    simpa using this

end C07

namespace C07
open HeapModel
variable {P : Type} [Inhabited P]

theorem flattenVals_eq_splitResult : ∀ (vals : List (SegVal P)) (ps : List (List (SegVal P))),
    flattenVals vals ps = splitResult vals ps := by
  intro vals
  induction vals with
  | nil => intro ps; cases ps <;> rfl
  | cons v vs ih =>
    intro ps
    cases ps with
    | nil => simp [flattenVals, splitResult, ih]
    | cons p ps =>
      cases p with
      | nil => simp [flattenVals, splitResult, ih]
      | cons w ws => simp [flattenVals, splitResult, ih]

/-- `flatten`: when every curve is replaced by a chain of lines between its end points, the flattened
    path is a connected chain with the same start and end (so a closed path flattens to a closed one) -/
theorem flatten_chain {a b : P} (vals : List (SegVal P)) (ps : List (List (SegVal P)))
    (hok : SplitOK vals ps) (hc : ChainFT a b vals) : ChainFT a b (flattenVals vals ps) := by
  rw [flattenVals_eq_splitResult]
  have := refines_chain id hc (splitResult_refines vals ps hok)
  simpa using this

end C07
